"""Per-property budgets, evidence texts and trusted-base statements for ./check."""

COMMON_TB = [
    "reading of the property text into the Lean `Spec` (human step, RtVerif/Model/<id>.lean)",
    "correspondence check (differential: Go harness /verif/harness -> protocol lines -> compiled Lean driver rtdriver evaluating Model and Spec); coverage bounded by the generators",
    "factgen (go/ast extraction of constants/tables into RtVerif/Gen/Facts.lean) and the driver's line parser",
]

CONFIG = {
    "C05": {
        "quick_n": 40000, "thorough_n": 400000, "thorough_seeds": 4, "search_s": 60,
        "model_fn": "build / lookup / look (DFS over the implicit trie)",
        "go_entry": "denco.Router.Build + denco.Router.Lookup",
        "rule": "pattern tables (1-8 keys quick, 1-40 thorough) over literals {a b ab x - = e-acute a.b c a-b}, ':name', '*wildcard', 'a=:k', mid-segment ':' and '*', shared-prefix siblings, 1 table in 12 with keys Build must reject ('#', NUL, duplicate names); 6 lookups per table: instantiations with values from {1 ab a '' a#b : * # a:b e-acute x.y %2F a=b}, mutated instantiations, the keys themselves, random bytes over {a b / : * # = - NUL}. Keys are passed to Build in the generated (random) order. Non-trivial = Build accepted a table with at least one parameterised key; distinct = distinct input lines.",
        "trusted_base": COMMON_TB + [
            "the BASE/CHECK double array (findBase, XOR indexing, 22-bit limits) is abstracted as the child function of the implicit trie: its encoding is validated only by the correspondence stream",
            "Go's sort.Stable and string comparison are modelled by a stable insertion sort over a bytewise lexicographic order",
        ],
        "assumptions": ["values registered for patterns are their positions in the list given to Build",
                        "tables stay far below denco.MaxSize; SizeHint is not modelled (capacity only)"],
        "partial": ["denco.Mux (method dispatch wrapper in server.go) is not modelled; C01 covers method dispatch through the API router"],
    },
    "C07": {
        "quick_n": 20000, "thorough_n": 400000, "thorough_seeds": 4, "search_s": 60,
        "model_fn": "parseAccept / negotiateContentType / negotiateContentEncoding",
        "go_entry": "header.ParseAccept, middleware.NegotiateContentType, middleware.NegotiateContentEncoding",
        "rule": "grammar-based Accept/Accept-Encoding header lines (1-3 lines, 1-4 ranges each, parameters before/after q, q with 0-80 digits, odd whitespace, noise bytes) x offer lists (0-4, duplicates, parameters) x default; streams P (parse, q compared as IEEE bit pattern), N (content type), E (encoding). A case is non-trivial when the header parses to at least one range and there is at least one offer; distinct = distinct input lines.",
        "trusted_base": COMMON_TB + [
            "float64: the model's q-values are exact decimals; that Go's float64 q (n/d with n,d < 10^15, plus 0 or 1) orders like the decimal is assumed and checked per case by recomputing the IEEE value in the driver (Lean Float, not kernel-checked)",
            "net/http header map access (header[key]) is modelled as the list of header lines",
        ],
        "assumptions": ["strings are compared bytewise; the harness feeds header lines directly into http.Header (no wire parsing)"],
        "partial": ["T5 (monotonicity of q in the digit string) and T6 (API-level 406) are not yet theorems"],
    },
}

# properties not claimed (with the reason) and hook commits in /repo (none so far: no hooks needed)
NOT_APPLICABLE = {}
HOOK_COMMITS = []
