"""Per-property budgets, evidence texts and trusted-base statements for ./check."""

COMMON_TB = [
    "reading of the property text into the Lean `Spec` (human step, RtVerif/Model/<id>.lean)",
    "correspondence check (differential: Go harness /verif/harness -> protocol lines -> compiled Lean driver rtdriver evaluating Model and Spec); coverage bounded by the generators",
    "factgen (go/ast extraction of constants/tables into RtVerif/Gen/Facts.lean) and the driver's line parser",
]

CONFIG = {
    "C05": {
        "quick_n": 40000, "thorough_n": 400000, "thorough_seeds": 4, "search_s": 60,
        "also": ["C05DA"],
        "model_fn": "build / lookup / look (DFS over the implicit trie)",
        "go_entry": "denco.Router.Build + denco.Router.Lookup; denco.Mux.Build + ServeHTTP (stream M)",
        "rule": "pattern tables (1-8 keys quick, 1-40 thorough) over literals {a b ab x - = e-acute a.b c a-b}, ':name', '*wildcard', 'a=:k', mid-segment ':' and '*', shared-prefix siblings, 1 table in 12 with keys Build must reject ('#', NUL, duplicate names); 6 lookups per table: instantiations with values from {1 ab a '' a#b : * # a:b e-acute x.y %2F a=b}, mutated instantiations, the keys themselves, random bytes over {a b / : * # = - NUL}. Keys are passed to Build in the generated (random) order. Non-trivial = Build accepted a table with at least one parameterised key; distinct = distinct input lines.",
        "trusted_base": COMMON_TB + [
            "the BASE/CHECK double array is modelled in Model/C05DA.lean and proved to refine this trie model (Props/C05DA `router_refines`, `routerBuild_total`); the sub-check C05DA compares the real arrays (read through the verif-tagged hook Router.VerifDump) element for element",
            "Go's sort.Stable and string comparison are modelled by a stable insertion sort over a bytewise lexicographic order",
        ],
        "assumptions": ["values registered for patterns are their positions in the list given to Build",
                        "tables stay far below denco.MaxSize; SizeHint is not modelled (capacity only)"],
        "partial": [],
    },
    "C07": {
        "quick_n": 20000, "thorough_n": 400000, "thorough_seeds": 4, "search_s": 60,
        "model_fn": "parseAccept / negotiateContentType / negotiateContentEncoding",
        "go_entry": "header.ParseAccept, middleware.NegotiateContentType, middleware.NegotiateContentEncoding",
        "rule": "grammar-based Accept/Accept-Encoding header lines (1-3 lines, 1-4 ranges each, parameters before/after q, q with 0-80 digits, odd whitespace, noise bytes) x offer lists (0-4, duplicates, parameters) x default; streams P (parse, q compared as IEEE bit pattern), N (content type), E (encoding), T (a TEST of totality: ParseAccept2, ParseList, ParseValueAndParams, ParseTime, Copy return on the same lines without panicking). A case is non-trivial when the header parses to at least one range and there is at least one offer; distinct = distinct input lines.",
        "trusted_base": COMMON_TB + [
            "float64: the model's q-values are exact decimals; that Go's float64 q (n/d with n,d < 10^15, plus 0 or 1) orders like the decimal is assumed and checked per case by recomputing the IEEE value in the driver (Lean Float, not kernel-checked)",
            "net/http header map access (header[key]) is modelled as the list of header lines",
        ],
        "assumptions": ["strings are compared bytewise; the harness feeds header lines directly into http.Header (no wire parsing)"],
        "partial": ["T6 (API-level 406) and the offer list the API hands to the negotiation (produces without the default, the default last; no memoised format trusted by Respond) are modelled and proved in C08 (`not_acceptable_is_406`, `respond_offers`…): the C07 check runs C08's check as a sub-check (\"also\") so that a change of that flow is reported under C07 too"],
        "also": ["C08"],
    },
}

CONFIG['C18'] = {'assumptions': ['material identity is observed by DER equality of leaf certificates, public-key equality of the attached private key, and '
                 'RawSubject of pool entries (CertPool.Subjects)',
                 "callbacks and session caches are identified by a tag the harness can read back (the callback's error value, the cache's dynamic "
                 'type)',
                 "TLSClientAuth adding LoadedCA to the caller's LoadedCAPool (documented: the pool must not be reused) is not part of the property; "
                 'every case builds fresh pools'],
 'exhaustive': 'sub-lattices L1, L2 (stream A) and L3 (stream H) of the rule are enumerated completely on every run; the full product (5.6M option '
               'combinations) is sampled',
 'go_entry': 'client.TLSClientAuth, client.TLSTransport, client.TLSClient (+ one GET through TLSClient against an in-process TLS server)',
 'model_fn': 'tlsAuth / tlsTransport / tlsClient / hsRun',
 'partial': [],
 'quick_n': 6000,
 'rule': 'option lattice with in-process generated material (RSA, EC P-256/P-384, ed25519 keys; 6 client certificates; 4 CAs). Slots: Certificate '
         'file {absent, unreadable, no-PEM, RSA, EC, ed25519} x LoadedCertificate {nil, empty Raw, 5 certs} x Key file {absent, unreadable, no-PEM, '
         '4 keys} x LoadedKey {nil, ed25519, 2 RSA, typed-nil RSA, zero RSA, 2 EC, typed-nil EC, unmarshalable curve} x CA file {absent, unreadable, '
         'no-PEM, 1 root, 2 roots} x LoadedCA {nil, 2 roots} x LoadedCAPool {nil, empty, 1 root, 2 roots} x ServerName x InsecureSkipVerify x '
         'VerifyPeerCertificate x SessionTicketsDisabled x ClientSessionCache. EXHAUSTIVE sub-lattices on every run (stream A, TLSClientAuth): L1 = '
         'whole identity lattice (2940) x 12 root combinations covering every branch of the RootCAs switch (thorough: all 60) x server name x '
         'insecure (callback/session flags drawn per case); L2 = whole root lattice (60) x all 32 flag combinations x 12 identity combinations '
         'covering every branch of the client-certificate block. L3 (stream H, real handshakes) = insecure x server name {none, matching, other} x 7 '
         'root combinations (system, right root via LoadedCA / CA file / pool, wrong root, LoadedCA overriding a right CA file, empty CA file) x '
         'server max version x callback x 3 identities x dialled host. Random draws from the full lattice go through TLSTransport (T), TLSClient '
         '(C), TLSClientAuth (A) and real handshakes (H: server CA x server DNS name x server max version TLS1.1/1.2/1.3 x dialled host). A case is '
         'trivial only when every option is unset.',
 'search_s': 40,
 'thorough_n': 40000,
 'thorough_seeds': 2,
 'trusted_base': ['reading of the property text into the Lean `Spec` (human step, RtVerif/Model/<id>.lean)',
                  'correspondence check (differential: Go harness /verif/harness -> protocol lines -> compiled Lean driver rtdriver evaluating Model '
                  'and Spec); coverage bounded by the generators',
                  "factgen (go/ast extraction of constants/tables into RtVerif/Gen/Facts.lean) and the driver's line parser",
                  "crypto/tls + crypto/x509 material handling (PEM parsing, key marshalling, tls.X509KeyPair's key/certificate match, "
                  'CertPool.AddCert/AppendCertsFromPEM) is abstracted to slot states {absent, unreadable, garbage, ok(cert,key)}; validated '
                  'differentially, not proved',
                  'effective minimum version: crypto/tls treats MinVersion=0 on a client as TLS 1.2 (Go >= 1.18); exercised by stream H with a '
                  'TLS1.1-only server',
                  'stream H (handshake) uses a hand model of crypto/tls verification (version negotiation, chain + name check, callback, client '
                  'certificate selection): support, not proof; assumes the generated CAs are not in the system pool']}


CONFIG["C01"] = {
    "quick_n": 30000, "thorough_n": 250000, "thorough_seeds": 4, "search_s": 60,
    "model_fn": "dispatch (path.Join, template->key conversion, per-method C05 tables, path.Clean, PathUnescape, decodeCompositParams, 404/405)",
    "go_entry": "middleware.NewRouter over middleware.NewContext(spec, untyped API) — DefaultRouter, defaultRouter.Lookup/OtherMethods",
    "rule": "generated swagger 2.0 descriptions (1-7 operations, 8-19 in a quarter of the thorough tables; templates of 1-4 segments over static segments and {name} placeholders with shared prefixes and static/parameterised siblings; the same template under several methods; base paths /, '', /api, /api/, /v1/base, /a; 1 description in 6 with composite segments, ':'/'*' in static text; 1 template in 40 with a trailing slash), requests parsed by net/http from a raw request line: instantiations with values {1 42 kitty a%2Fb 50%25 %zz : * %23 ; a=b %C3%A9 . .. '' x.json a-b a--b mine a:b}, trailing/duplicate slashes, dot segments, random bytes, mutated paths; methods in any letter case. Non-trivial: a valid request against a description without duplicate converted keys; distinct = distinct input lines.",
    "trusted_base": COMMON_TB + [
        "net/http request-line parsing and URL.EscapedPath; go-openapi/analysis Operations(); regexp semantics of {(.+?)}([^/]*) (hand-transcribed scanner `convert`)",
        "denco's double array (see C05); path.Clean/Join via RtVerif/Base/GoPath.lean (validated by C20's stream G)",
    ],
    "assumptions": ["every operation of the description has a handler registered under its method and its template as written (what generated servers do)",
                    "two operations whose converted keys coincide under one method (e.g. /p/{a}.json and /p/{a}.xml) are resolved by Go's map iteration order: such descriptions are tagged ~dupkeys and not judged",
                    "a description whose table denco.Build refuses (duplicate placeholder names, '#') is used half-built because the error is ignored (F01b, documented): tagged ~build-refused and not judged"],
    "partial": ["composite segments ({a}-{b}, {id}.json): the choice of route is judged and proved sound, the splitting of values is covered by the correspondence only",
                "simple templates (every segment static text or one whole-segment placeholder, no reserved router bytes in static text) are fully proved (`simple_ran_params`); templates outside that class are covered by the trie-level theorems and the driver's Spec only"],
}

CONFIG['C02'] = {'assumptions': ['scheme names are non-empty (a requirement object with the single key "" would be taken for the empty alternative by '
                 'buildAuthenticators; not generated)',
                 'principals are nil or non-nil strings (a typed nil pointer inside a non-nil interface counts as non-nil in Go)',
                 'error codes served are in 100..999 (net/http panics on other WriteHeader codes)',
                 'one Context.Authorize per MatchedRoute, as newSecureAPI does (a failed alternative leaves route.Authenticator set; calling '
                 'Authorize, ignoring its error and then entering the secured handler with the same route is outside the model)'],
 'go_entry': 'middleware.NewContext + Context.APIHandler (newSecureAPI, buildAuthenticators, RouteAuthenticator(s).Authenticate), Context.Authorize, '
             'security.APIKeyAuth',
 'model_fn': 'build / authSchemes / authAll / authorizeFresh / authorizeAgain / secure',
 'partial': [],
 'quick_n': 30000,
 'rule': 'generated swagger 2.0 documents: securityDefinitions (2-5 apiKey schemes, some undefined), global and/or per-operation `security` (absent, '
         '`[]`, 1-4 alternatives, the empty alternative, 1-3 schemes per alternative, 0-2 scopes per scheme, repeated schemes across alternatives), '
         'authenticators registered for a generated subset; per scheme one of not-applicable / accepted principal / accepted nil principal / '
         "rejected with coded or plain error, carried by the request's X-K-<name> header through security.APIKeyAuth; authorizer absent / accepting "
         '/ denying all / denying one principal / denying the nil principal, with plain or coded error; request good / undecodable body / '
         'unsupported content type / missing required query parameter. The order of the schemes inside every alternative is read from '
         'MatchedRoute.Authenticators[i].Schemes after the router is built (Go map order, differs from run to run) and given to the model. Per case: '
         'one request through Context.APIHandler (status, error message, handler ran, consumer calls, authenticators consulted in order with the '
         "scopes they were handed) and two direct Context.Authorize calls (principal, scopes from the returned request's context, error, call logs). "
         'thorough tier adds an exhaustive enumeration of outcome vectors over fixed structures. A case is trivial (~nosec) when the operation ends '
         'up with no requirement.',
 'search_s': 60,
 'thorough_n': 150000,
 'thorough_seeds': 3,
 'trusted_base': ['reading of the property text into the Lean `Spec` (human step, RtVerif/Model/<id>.lean)',
                  'correspondence check (differential: Go harness /verif/harness -> protocol lines -> compiled Lean driver rtdriver evaluating Model '
                  'and Spec); coverage bounded by the generators',
                  "factgen (go/ast extraction of constants/tables into RtVerif/Gen/Facts.lean) and the driver's line parser",
                  'errors.ServeError status mapping (errors.Error -> its code, >= 600 -> 422, anything else -> 500) and errors.Unauthenticated (401) '
                  'are hand-modelled (`statusOf`, `unauthenticated`)',
                  'analysis.SecurityRequirementsFor / SecurityDefinitionsForRequirements and untyped.API.AuthenticatorsFor are modelled by '
                  '`effective`/`mkReq` (an authenticator is attached iff the scheme is defined and registered); checked per case against the built '
                  'MatchedRoute.Authenticators',
                  "what happens after security lets a request through (binding, validation, handler, response) is a 4-row table for the harness' "
                  'fixed operation (`downstream`); binding belongs to C03/C06',
                  'authenticators and the authorizer are deterministic functions of (scheme, required scopes) resp. principal for the duration of '
                  'one request']}

CONFIG['C08'] = {'assumptions': ['ASCII-only media types and realms (strings.ToLower / EqualFold / %q are modelled for ASCII); realms are printable ASCII',
                 'operations protected by at most one security requirement consisting of one basic scheme, no Authorizer; requests without body or '
                 'parameters',
                 'registry keys are distinct after lower-casing'],
 'go_entry': 'middleware.Context.APIHandler(...).ServeHTTP (stream A), middleware.Context.Respond after security.BasicAuthRealm(...).Authenticate '
             'and Context.ResponseFormat (stream R)',
 'model_fn': 'serve / respond (respondResponder, respondError, respondPlainNoOp, respondPlainOp, basicMarker, authorize, routeProduces)',
 'partial': [],
 'quick_n': 30000,
 'rule': 'in-memory one-operation specs (loads.Analyzed + untyped.NewAPI + Context.APIHandler): API default produces (JSON / empty / text / with '
         'parameters / other case) x registry of 0-5 REAL producers (JSON, Text, ByteStream, XML) wrapped to record key and value x operation '
         "produces (0-3 entries from 5 types, parameters '; charset=utf-8' etc., duplicates; 1 in 20 cases with malformed entries: other case, "
         'trailing blank, no slash, wildcard) x declared responses (lowest 2xx incl. 204, several codes, non-2xx only, default only) x '
         'GET/HEAD/DELETE/POST/PUT x Accept (absent, matching, wildcard, non-matching, q-values, several lines, C07 grammar noise) x handler outcome '
         '(6 plain values incl. nil, custom Responder, error+Responder, middleware.Error codes incl. 0, NotImplemented, errors.New of 9 codes incl. '
         '>= 600, composite, plain Go error) x basic-auth (unprotected / protected; credentials absent, other scheme, undecodable, present; callback '
         'principal / (nil,nil) / 401 / 403 / plain error; 7 realms incl. empty, quotes and backslash). Stream A (2/3) goes through the real '
         "handler; stream R (1/3) calls Context.Respond directly with the router's route (also without Operation, or no route with free produces), "
         'an optional memoised format and the real authenticator run first. A case is non-trivial unless the negotiated type has no producer for the '
         'operation (the Spec is silent there). distinct = distinct input lines.',
 'search_s': 60,
 'thorough_n': 100000,
 'thorough_seeds': 4,
 'trusted_base': ['reading of the property text into the Lean `Spec` (human step, RtVerif/Model/<id>.lean)',
                  'correspondence check (differential: Go harness /verif/harness -> protocol lines -> compiled Lean driver rtdriver evaluating Model '
                  'and Spec); coverage bounded by the generators',
                  "factgen (go/ast extraction of constants/tables into RtVerif/Gen/Facts.lean) and the driver's line parser",
                  'go-openapi/errors.ServeError (external): status = code (>= 600 -> 422), 500 for other errors, JSON content type; modelled for the '
                  'status, compared per case; its body is taken from a reference call in the harness',
                  'go-openapi/spec Operation.SuccessResponse (external): modelled as the lowest declared 2xx code, compared per case with the real '
                  'call',
                  'go-openapi/analysis ProducesFor (external): returns the distinct produces in Go map order; route.Produces is therefore observed '
                  "per case and checked to be the router's default-appending applied to some ordering of the distinct produces",
                  'what each real producer writes for the value is observed per case by running it on a buffer (the model identifies producers by '
                  'registry key)',
                  'net/http: Header.Set/Get, Request.BasicAuth, WriteHeader-once semantics of the recording ResponseWriter; fmt %q modelled for '
                  'printable ASCII']}

CONFIG['C19'] = {'assumptions': ['ASCII only: strings.ToLower/ToUpper/EqualFold are modelled on ASCII; generators emit no non-ASCII bytes',
                 'security definitions are non-null objects; scheme names are non-empty (a scheme literally named "" is indistinguishable from the '
                 'anonymous alternative in the code)',
                 'the exported fields API.DefaultConsumes/DefaultProduces are only set by NewAPI/WithJSONDefaults/WithoutJSONDefaults (hypothesis '
                 'DefaultsRegistered; theorem build_defaults)',
                 'registered method names hold no space (hypothesis MethodsAreTokens; theorem method_token_needed shows it is needed)',
                 "basePath is empty or starts with '/' (Swagger 2.0)",
                 "an operation that declares no produces at all (and an API without JSON defaults) has no well-formed request in the property's "
                 'sense: the runtime then panics with "can\'t find a producer" when the handler returns data; modelled (class noproducer), outside '
                 'the Spec'],
 'go_entry': 'untyped.NewAPI(doc)[.WithoutJSONDefaults()].Register*, (*API).Validate, middleware.NewContext(doc, api, nil).APIHandler + '
             'Context.LookupRoute (route tables) + ServeHTTP',
 'model_fn': 'build / validate / verify / routeConsumers / routeProducers / authTables / handlerFor / serveClass',
 'partial': [],
 'quick_n': 20000,
 'rule': "generated swagger 2.0 descriptions (0-5 operations over 9 clean and 4 non-canonical path templates x 7 methods, base path in {'', '/', "
         "'/api', '/api/', '/api/v1'}, global and per-operation consumes/produces among 7 media types, 0-3 security definitions, global and "
         "per-operation requirements incl. anonymous, absent and empty) x registration sequences derived from the REAL analyzer's requirements "
         '(exact 40%, 1-3 single omissions/additions/duplicates 50%, a whole category forgotten 10%; case variants of media types and methods in '
         'half of the cases; shuffled call order; with and without JSON defaults). Every 5th case is the out-of-scope stream: upper-case / '
         'parameterised / wildcard media types, dangling scheme names, case variants of scheme names and paths. Streams: V (Validate: ok or section '
         '+ MissingRegistration + MissingSpecification exactly as returned), S (every third case: valid flag, route found, keys of route.Consumers / '
         'route.Producers, Schemes and Authenticator keys per alternative, class of the answer to a well-formed request with Content-Type among the '
         "operation's consumes and Accept among its produces). The analyzer's outputs travel as output fields and are the model's inputs; the driver "
         'checks the hypotheses OpHyp on them. Non-trivial = everything except load errors and descriptions without operations (S).',
 'search_s': 60,
 'thorough_n': 60000,
 'thorough_seeds': 4,
 'trusted_base': ['reading of the property text into the Lean `Spec` (human step, RtVerif/Model/<id>.lean)',
                  'correspondence check (differential: Go harness /verif/harness -> protocol lines -> compiled Lean driver rtdriver evaluating Model '
                  'and Spec); coverage bounded by the generators',
                  "factgen (go/ast extraction of constants/tables into RtVerif/Gen/Facts.lean) and the driver's line parser",
                  'go-openapi/analysis '
                  '(RequiredConsumes/RequiredProduces/RequiredSecuritySchemes/OperationMethodPaths/Operations/ConsumesFor/ProducesFor/SecurityRequirementsFor/SecurityDefinitionsForRequirements) '
                  'and loads/spec: external; their outputs are model inputs constrained by `OpHyp`, which the driver re-checks on every S case',
                  "Go maps are modelled by key lists with set semantics; Go's sort.Strings by a bytewise insertion sort",
                  'the answer class of the S stream is modelled over simple descriptions, for validated APIs, unrouted operations and operations '
                  "whose alternatives all have their authenticators (elsewhere C02's treatment of a scheme without authenticator decides); there it "
                  'relies on (not proves) C06 (a declared parameter-free type is admitted), C07 (an exact Accept selects that offer), C02 '
                  '(all-accepting authenticators of a complete alternative authenticate) and on denco routing of the instantiated path (C01/C05)',
                  'stub consumers/producers/authenticators/handlers: the codecs themselves are not exercised']}

CONFIG['C14'] = {'assumptions': ['tokens and API key values sent in headers are header-safe: no CR, LF or NUL (net/http rewrites or refuses them) - generators draw '
                 'from visible ASCII, obs-text 0x80-0xff and inner spaces/tabs; surrounding whitespace is stripped by HTTP and the Spec says so',
                 'header names are valid field names (RFC 7230 tokens); Request.Write silently drops others; special headers (Host, Content-Type, '
                 'Content-Length, Accept, User-Agent, Transfer-Encoding) are not used as API key names',
                 'strings.ToLower on the location argument is modelled ASCII-only',
                 'Content-Type is what the client writes (parses without error); hand-crafted malformed Content-Type parameters are outside the '
                 'model',
                 'callbacks are total and, in the Ctx variants, return a context derived from the one they were given'],
 'go_entry': 'client.Runtime.CreateHttpRequest with client.BasicAuth/APIKeyAuth/BearerToken/Compose/PassThroughAuth and '
             'Runtime.DefaultAuthentication -> http.Request.Write -> http.ReadRequest -> security.BasicAuth[Realm][Ctx] / APIKeyAuth[Ctx] / '
             'BearerAuth[Ctx] .Authenticate; base64.{Std,URL}Encoding; http.CanonicalHeaderKey',
 'model_fn': 'authenticate (client writers + default wrapper) / transport / serve (authenticators); Base64.encode/decode; canon',
 'partial': [],
 'quick_n': 6000,
 'rule': 'stream R (n cases; the real client builds the request, it is serialised and re-read, the real authenticator runs on it with a recording '
         'callback): per 20 cases 4 basic (user: any bytes without colon incl. NUL/non-ASCII, 1 in 10 empty, 1 in 10 with a colon; password: any '
         'bytes incl. colons, empty), 4 API key (names from a pool of 12 + random token names, query names any bytes; location header/query, case '
         'variants and unknown locations on either side; case-variant / different server key names; values header-safe or any bytes, 1 in 12 empty; '
         'something already set at the place 1 in 6), 6 bearer with EVERY subset of the 5 placements {BearerToken writer, Authorization set by the '
         'parameters (Bearer or 10 other schemes incl. lower-case bearer, second header line), access_token query (1-2 values, empty values), '
         'urlencoded form field, multipart form field} cycling through all 32 masks, x methods GET/POST/PUT/PATCH/DELETE, decoy names, form fields '
         'under a JSON media type, 3 default-rule cases (own writer none/PassThrough/Compose(nil)/credential x default none/credential/Compose x '
         'Authorization unset/empty/set/two lines), 3 malformed (hand-made Basic values: bad base64, missing padding, URL alphabet, no colon, extra '
         "spaces, trailing garbage; odd Bearer spellings; failing writers; parameter of a foreign type). Every writer is placed as the operation's "
         'own, as the default, or inside Compose with nil/PassThrough/other entries. All of BasicAuth, BasicAuthRealm, BasicAuthCtx, '
         'BasicAuthRealmCtx, APIKeyAuth[Ctx], BearerAuth[Ctx]; *http.Request and *ScopedAuthRequest parameters; callbacks returning principal or '
         'nil, with and without error; 0-3 required scopes. Stream B (base64 library): every length 0..64 x both alphabets x encode and decode on '
         'every run, plus n/5 random: encodings with CR/LF inserted, one character replaced, truncated, trailing material, non-canonical trailing '
         'bits, padding in the middle, noise. Stream K: http.CanonicalHeaderKey on n/20 names (token bytes, case variants, invalid bytes, empty). '
         'Non-trivial = anything but a request without credentials, presets and writers; distinct = distinct input lines.',
 'search_s': 60,
 'thorough_n': 60000,
 'thorough_seeds': 4,
 'trusted_base': ['reading of the property text into the Lean `Spec` (human step, RtVerif/Model/<id>.lean)',
                  'correspondence check (differential: Go harness /verif/harness -> protocol lines -> compiled Lean driver rtdriver evaluating Model '
                  'and Spec); coverage bounded by the generators',
                  "factgen (go/ast extraction of constants/tables into RtVerif/Gen/Facts.lean) and the driver's line parser",
                  'transport is MODELLED, not verified (Go stdlib): header field values arrive as set with optional whitespace stripped at both '
                  'ends, header names by http.CanonicalHeaderKey (hand model, stream K), query parameters as set (url.Values.Encode / ParseQuery; '
                  'supported by the GoURL escape round-trip theorem), form fields as set - multipart for every method, urlencoded for POST/PUT/PATCH '
                  "only (Request.ParseForm). Each case compares the view the model predicts with what net/http's own accessors return on the re-read "
                  'request',
                  'encoding/base64 is a hand model (RtVerif/Base/Base64.lean: non-strict decoding, mandatory padding, CR/LF skipped), validated by '
                  'stream B; its round-trip law is proved',
                  'http.Request.BasicAuth (parseBasicAuth) is transcribed from GOROOT/src/net/http/request.go',
                  'mime.ParseMediaType and runtime.ContentType are inputs (the media type is observed, not computed); the stdlib invariant "PostForm '
                  'is empty unless the media type is urlencoded or multipart" (View.wf) is checked on every observed request',
                  'context.Context plumbing of the Ctx variants is observed (callback context reaches the request, scheme name visible inside the '
                  'callback) and folded into the marker fields; the model treats plain and Ctx variants alike']}

CONFIG['C16'] = {'assumptions': ['reader and writer objects passed in (*csv.Reader, *csv.Writer) carry csv.NewReader / csv.NewWriter defaults before the options are '
                 "applied; a caller's CSVReader object is configured by the harness with the same reader options; a caller's CSVWriter consumes the "
                 'record during Write (as csv.Writer does)',
                 "outputs stay below bufio's 4096-byte buffer (texts of at most 9 records)",
                 'round trip through encoding/csv itself (sink bytes re-read) is checked only for records that encoding/csv carries through: not a '
                 'lone empty field / empty record (written as a blank line) and no CR inside a field (rewritten by the writer under UseCRLF, CRLF '
                 'normalised by the reader)'],
 'go_entry': 'runtime.CSVConsumer(opts...).Consume and runtime.CSVProducer(opts...).Produce',
 'model_fn': 'consume / produce (capCase dispatch, pipeCSV, bufferedCSV, readRec over the heap of backing arrays, tabRun)',
 'partial': [],
 'quick_n': 60000,
 'rule': 'CSV texts rendered from records over 29 field values (plain, empty, leading/trailing blanks and tabs, embedded quote / separator / newline '
         "/ CR / CRLF, '#', '\\.', non-ASCII incl. Unicode spaces and invalid UTF-8) with optional quoting, CRLF line ends, missing last newline, "
         'blank and comment lines, ragged rows (1 text in 5), one deliberate quoting malformation (1 text in 7), plus random byte streams over {a b '
         ', ; " LF CR blank # TAB} (1 in 20); 0-5 records (thorough 0-9) of 1-4 fields. Options: reader separator {default , ; TAB | e-acute, rarely '
         'invalid: " LF or equal to the comment}, comment {none #}, FieldsPerRecord {0 -1 width 1-4}, LazyQuotes, TrimLeadingSpace, ReuseRecord (1 '
         'in 3), writer separator {default , ; TAB section-sign arrow, rarely invalid " CR LF surrogate}, UseCRLF, skipped lines {0 | 0..n+2 | '
         'negative}, closing option. Stream K (CSVConsumer): source reader with/without Close, nil, I/O error after k bytes; destinations: '
         '*csv.Writer, CSVWriter object (Write number k fails / Error() fails), io.Writer, io.ReaderFrom, BinaryUnmarshaler, objects implementing '
         'two of these (dispatch priority), each with a failing variant; *[][]string fresh or pre-populated with 0..n+3 records and 0-8 spare '
         'capacity (shorter, equal, longer than the input), named table type, *[]byte / *string fresh or pre-filled; odd values: tables of named row '
         '/ named string types, typed-nil pointers, table by value, *int, nil. Stream P (CSVProducer): sources *csv.Reader, CSVReader object, '
         'io.Reader (+Closer, +WriterTo), io.WriterTo (one write or chunks of 1-8 bytes; failing after the last write; +Closer, +BinaryMarshaler), '
         'BinaryMarshaler (failing), [][]string / pointer / named table (parsed from the text or random incl. empty records), []byte, string, '
         'pointers and named types of those, odd values; sink with/without Close, failing, nil. Every case also records what encoding/csv itself '
         'yields for the same source under the same reader options and under the defaults (the oracle event stream), the sink bytes re-read by '
         'encoding/csv, pointer-identity AND mutation-based aliasing of the delivered table, close/flush counts, final len/cap. io.WriterTo cases '
         'with malformed input are repeated 20 times (corpus witnesses 500-4000 times) and the first deviating run is reported. Trivial = no record '
         'and eof.',
 'search_s': 40,
 'thorough_n': 400000,
 'thorough_seeds': 3,
 'trusted_base': ['reading of the property text into the Lean `Spec` (human step, RtVerif/Model/<id>.lean)',
                  'correspondence check (differential: Go harness /verif/harness -> protocol lines -> compiled Lean driver rtdriver evaluating Model '
                  'and Spec); coverage bounded by the generators',
                  "factgen (go/ast extraction of constants/tables into RtVerif/Gen/Facts.lean) and the driver's line parser",
                  "the CSV grammar is encoding/csv (external by design): the model's input is the event stream (records, then eof or the parser's "
                  'error) that encoding/csv yields for the same source and reader options, computed by the harness with the stdlib reader',
                  'encoding/csv.Writer is modelled byte for byte (stdEncode: quoting rule, CRLF handling, separator as UTF-8) and validated only '
                  "differentially; bufio is modelled as 'nothing reaches the sink before Flush' (outputs stay below its 4096-byte buffer)",
                  "csv.Reader.ReuseRecord is modelled after readRecord (reuse the last slice's array iff its capacity suffices, else allocate "
                  "exactly len fields); reflect Grow's new capacity is abstracted (any value >= len+n; SetCap follows)",
                  'goroutine scheduling inside the io.WriterTo clause (errgroup keeps the first error): the model is sequential; with CloseWithError '
                  'both goroutines report the same error; a WriteTo that fails by itself is never combined with another error source by the '
                  'generator']}

CONFIG['C09'] = {'assumptions': ['request bodies announce their length (ContentLength = len(body)); a stream of unknown length is first wrapped by runtime.HasBody '
                 'in a peeking reader on the request value it was given (C17), which is not modelled',
                 'every security scheme named by the spec has a registered authenticator (an alternative naming an unregistered scheme is C02)',
                 'validation error codes are compared as sorted lists (the binder walks a Go map); generated requests of stream R have at most one '
                 'failing parameter, 405 cases have a single other method, and the two schemes of the AND alternative carry the same credential '
                 '(their order is decided by a Go map when the router is built)',
                 'Authorize/BindAndValidate receive the route the way the callers in the library obtain it: RouteInfo on the same request value'],
 'exhaustive': 'every sequence of the six accessors up to length 3 (thorough: 4), threaded, on 5 (thorough: 11) fixed requests is run on every check; '
               'the rest of the space is sampled',
 'go_entry': 'middleware.Context.RouteInfo / ContentType / ResponseFormat / Authorize / BindAndValidate / ResetAuth, MatchedRouteFrom, '
             'SecurityPrincipalFrom, SecurityScopesFrom (stream A); the middleware.Serve handler under concurrency (stream R)',
 'model_fn': 'stepOp / runProg (routeInfo, contentType, responseFormat, authorize [rasAuth, raAuth], bindAndValidate [validateRequest], resetAuth), '
             'runSched; Spec: specOk = keeps (promises) + derivedAlone (fresh: refAlts/refAuthorize/refBind)',
 'partial': ['data-race freedom and memory visibility are NOT proved (runtime facts): FullStatement keeps them as the parameters DataRaceFree and '
             'StepModelFaithful; full_statement_partial proves the memoisation part for all programs and the interleaving part on the step model. '
             'Support: stream R in the -race build (tier race) with per-request correlation tokens',
             'the property restricts itself to what a handler gets through the map path of UntypedRequestBinder.Bind; the struct path writes '
             'binder.Name on the shared binder (regenerated fact c09BinderMapPathWrites covers the map path only)'],
 'quick_n': 60000,
 'race_n': 100,
 'race_thorough_factor': 10,
 'rule': 'stream A: one real request against one real middleware.Context (NewRoutableContext over the default router wrapped in a lookup counter; '
         'API with 6 operations: unsecured, key OR (basic AND tok), anonymous OR key, key OR anonymous (authentication optional, credentialed alternative first), key with two scopes; with and without an authorizer), '
         'instrumented authenticators / authorizer / consumers and a counting body reader. Requests: 9 method+path shapes (matching, unknown path, '
         'wrong method, trailing slash, doubled slash, dot segment, escaped id) x 6 queries x Content-Type {absent, json, text/plain, with '
         'parameters, upper case, not consumed, wildcard, malformed, two lines} x Accept {absent, exact, ranges with q, unsatisfiable, two lines} x '
         'per-scheme credentials {absent, principal, accepted with nil principal, 401, 403, plain error} x authorizer verdict {allow, 403, 401, '
         'plain error} x body {none, JSON, text, undecodable, 300 bytes}. Programs: random sequences of 1-12 accessor calls (RouteInfo, ContentType, '
         'ResponseFormat with one of up to 3 offer lists, Authorize, BindAndValidate, ResetAuth), threading the returned request; in 1 case of 4 a '
         'third of the calls is applied to a STALE request value (held 1-4 calls earlier); 1 case in 5 is a HISTORY case: an operation with security '
         '(3 in 8 the optional-authentication DELETE, 2 in 8 the anonymous-first POST), per scheme credentials right / wrong (401, 403, plain error) / '
         'absent / accepted with nil principal, and one of 18 shapes in which a stage is evaluated again on a value holding no result of it '
         '(Authorize(fail) -> Authorize; Authorize(ok) -> ResetAuth -> Authorize; the same on stale values; ContentType / ResponseFormat / '
         'BindAndValidate after a failed or stale evaluation, after the body was consumed), other calls strewn in. EXHAUSTIVE on every run: all sequences of the six '
         'accessors up to length 3 on 5 fixed requests, two of them on the optional-authentication operation with wrong and with right credentials '
         '(thorough: up to length 4 on 11 requests). Observed per call: returned-request identity '
         '(same/new/nil) for the implicit RouteInfo and for the accessor, MatchedRoute object identity with operation id and params, result (content '
         'type / format / principal / error code / sorted validation codes + bound values), the ordered effect log (router lookups, authenticator '
         'calls by scheme, authorizer calls, consumer calls with byte counts), bytes read from the body, and the view through MatchedRouteFrom / '
         'SecurityPrincipalFrom / SecurityScopesFrom / route.Consumer / route.Authenticator. The model is instantiated with what the stage functions '
         '(router lookup, runtime.ContentType, NegotiateContentType, the authenticators, validateContentType via BindValidRequest, route.Consumers, '
         'route.Binder.Bind on an intact and on a drained body) return on fresh copies of the request; the Spec judges the REAL trace against the '
         'same stage functions: promises kept, and every result not covered by a promise equal to the reference `fresh` (route+params, content type, '
         'format, principal/error code and scopes, binding outcome for the unread rest of the body). Stream R (1 case in 400; tier race: all '
         'cases, in the -race build): 2-64 mixed requests, each with its own correlation token in path, query, header, body and credentials: first '
         'each request ALONE against a middleware.Serve handler of its own, then all of them from n goroutines released together (each request '
         'twice) against ONE handler built the same way, at GOMAXPROCS 1/2/4/8/16; status, content type, body (producer name, operation, every bound '
         'value, consumer name) and what the authorizer saw (principal, route, params, admitting schemes, scopes) must equal the observation made '
         "alone, and only the request's own token may appear in them. Non-trivial = a memo hit or a stale value occurs (A), every R case; distinct = "
         'distinct input lines.',
 'search_s': 40,
 'thorough_n': 250000,
 'thorough_seeds': 3,
 'trusted_base': ['reading of the property text into the Lean `Spec` (human step, RtVerif/Model/<id>.lean)',
                  'correspondence check (differential: Go harness /verif/harness -> protocol lines -> compiled Lean driver rtdriver evaluating Model '
                  'and Spec); coverage bounded by the generators',
                  "factgen (go/ast extraction of constants/tables into RtVerif/Gen/Facts.lean) and the driver's line parser",
                  'the stage functions are PARAMETERS of the memo machine (router lookup = C01/C05, runtime.ContentType + validateContentType = C06, '
                  'NegotiateContentType = C07, authenticators = C02, parameter binder = C03): the theorems hold for all of them; the correspondence '
                  'instantiates them per case with what the real functions return on a fresh copy of the request',
                  "net/http's Request.WithContext (shallow copy sharing Header, URL and Body) and context.WithValue/Value (newest entry under a key "
                  'wins) are modelled as an association list; MatchedRoute pointers as an index into a per-request object list plus the immutable '
                  'part',
                  'for go.mod language versions below 1.22 `for _, ra := range ras` has one variable: after a FAILED authentication '
                  'route.Authenticator shows the last alternative looked at (modelled via the regenerated go directive; not part of the property)',
                  'step model of part (b): a step of request i reads immutable shared configuration and its own objects only — justified '
                  'structurally by the regenerated facts (per_request_writes_are_private) and observed by stream R; not derived from the Go memory '
                  'model']}

CONFIG['C15'] = {'assumptions': ['writers honour io.Writer ("Write must return a non-nil error if it returns n < len(p)"): for a writer that lies about a short '
                 'write the clause "success implies every byte was written" is not asked (the single-Write paths of the producers do not look at the '
                 'count; io.Copy and bytes.Buffer.WriteTo do and report io.ErrShortWrite) - such writers are generated, compared with the model and '
                 'judged on all other clauses',
                 'a nil stream argument is outside "closable payload is always closed" (the producer returns before looking at the payload); it must '
                 'still yield an error',
                 '"a closable source payload is always closed" is read for the byte-stream producer (the only codec that accepts readers; the text '
                 'producer renders a reader struct as JSON)',
                 'the text consumer need not hand an EMPTY input to a TextUnmarshaler (upstream text_test.go requires success there for an '
                 'unmarshaler that rejects empty text)',
                 'scripted streams are finite (finite schedule, then they deliver what is asked): bytes.Buffer.ReadFrom and io.Copy have no limit on '
                 'consecutive empty reads, on a reader returning (0, nil) forever they do not return - the model has the outcome `hang` for it and '
                 'the theorems show it unreachable for scripted streams'],
 'go_entry': 'runtime.ByteStreamConsumer / ByteStreamProducer (with and without runtime.ClosesStream), runtime.TextConsumer / TextProducer, '
             'runtime.DiscardConsumer / DiscardProducer .Consume/.Produce; stream J: runtime.JSONConsumer/JSONProducer, '
             'runtime.XMLConsumer/XMLProducer, yamlpc.YAMLConsumer/YAMLProducer',
 'model_fn': 'consume / produce (bcInner, bcDispatch, bcStore, tcInner, tcStore, bpInner, bpDispatch, tpInner over Stream.readFromLoop = '
             'bytes.Buffer.ReadFrom, Stream.copyLoop = io.Copy, bufWriteTo = bytes.Buffer.WriteTo, writeOnce)',
 'partial': ['JSON, XML and YAML round trips are NOT proved: the codecs are calls into encoding/json, encoding/xml and gopkg.in/yaml.v3 (external). '
             'FullStatement keeps them as the parameter ExternalRoundTrips; full_statement_partial proves the text / byte-stream / discard part. '
             'Support: stream J of the harness is a TEST (documents and generic trees, integers beyond 2^53 and beyond 2^64 as json.Number, <>& in '
             'strings, nested maps/slices; canonical dump before = after, no HTML escaping on the JSON wire); the UseNumber and SetEscapeHTML(false) '
             'calls are facts extracted from json.go (json_option_facts)',
             'the JSON rendering of struct/slice sources of the text and byte-stream producers (swag.WriteJSON) is external: proved is that exactly '
             'the rendering is written'],
 'quick_n': 40000,
 'rule': 'stream X: one Consume or Produce call = direction x codec {byte stream, text, discard} x ClosesStream on/off x stream argument {nil '
         'interface, Read/Write only, with Close} x 42 kinds of data value (string, named string, []byte, named []byte, pointers to them, '
         '*interface{} holding nil/string/[]byte/int, int, *int, struct, *struct, []string, *[]string, **string, map, *bytes.Buffer, scripted '
         'io.Writer, scripted io.Reader, scripted io.ReadCloser, io.WriterTo+io.ReadCloser, Binary(Un)Marshaler, Text(Un)Marshaler, error, '
         'fmt.Stringer; the nil interface and the typed-nil pointer of every pointer kind) x content (0..11.5k bytes quick, up to 70k thorough, '
         'sizes around bytes.MinRead=512, 4096 and the 32 KiB io.Copy buffer; position-dependent bytes over all 256 values, i.e. binary and invalid '
         'UTF-8; pre-populated destinations) x (un)marshal failure x scripted reader (terminal EOF or error = error at any offset, delivered with '
         'the last bytes or alone; per-call schedule: zero-length reads, runs of 100-250 zero-length reads, 1-byte chunks all the way, sizes around '
         '512/32768; Close error) x scripted writer (per-call caps = short writes, total capacity anywhere in [0, len+2] = write error at any '
         'offset, 2.5% writers that lie about short writes, Close error). EVERY run starts with the sweep kind x direction x codec x stream x '
         'closing option on two contents; thorough adds every chunking of payloads of <= 5 bytes (with and without interleaved zero-length reads) x '
         'terminal x together for 10 destination/source kinds and a write error at every offset. Exec reports: error class, the reflection/interface '
         "signature of the data value (compared with the model's dispatch table), content of the data value afterwards, Close counts of both "
         'scripted streams, bytes left in the reader, bytes received by the writer, whether handed-in byte slices were left intact, and '
         "encoding/json's rendering of an equal value. Stream J (1/8 of the cases, a TEST of the external libraries, tagged ~test): generated "
         'documents (typed struct: strings with <>&"\' and YAML/XML-significant text, int64/uint64 extremes, floats, []byte, nested pointers, '
         'slices, maps) and generic trees (json.Number beyond 2^64 and beyond float64 precision, nested maps/slices) through Producer then Consumer; '
         'canonical dumps before/after are compared. A case is trivial when the codec is discard or the case belongs to stream J; distinct = '
         'distinct input lines.',
 'search_s': 45,
 'thorough_n': 60000,
 'thorough_seeds': 3,
 'trusted_base': ['reading of the property text into the Lean `Spec` (human step, RtVerif/Model/<id>.lean)',
                  'correspondence check (differential: Go harness /verif/harness -> protocol lines -> compiled Lean driver rtdriver evaluating Model '
                  'and Spec); coverage bounded by the generators',
                  "factgen (go/ast extraction of constants/tables into RtVerif/Gen/Facts.lean) and the driver's line parser",
                  'the scripted reader/writer of the harness (props/c15.go c15Src, c15Snk) are what Stream.Src / Stream.Snk model; the streams '
                  'handed to the codecs implement only Read/Write(/Close), so io.Copy takes its generic loop (no WriterTo/ReaderFrom fast path on '
                  'the scripted side)',
                  'hand models of bytes.Buffer.ReadFrom (Stream.readFromLoop; the sizes of the slices it offers are a parameter - the outcome is '
                  'PROVED independent of them), io.Copy (Stream.copyLoop, 32 KiB buffer) and bytes.Buffer.WriteTo (bufWriteTo), transcribed from '
                  '$GOROOT/src; bytes.MinRead and the copy buffer size are regenerated facts; their behaviour is checked differentially on every '
                  'case',
                  'Go dynamic dispatch (type switches, interface assertions, reflect.Kind, reflect.Indirect) is modelled by the table `feat` over '
                  'the 42 kinds; the harness recomputes the signature of every data value by reflection and interface assertions and the driver '
                  'compares it with the table',
                  'the kinds are concrete harness types: the one io.ReaderFrom / io.WriterTo is *bytes.Buffer (or delegates to one), (un)marshalers '
                  'store/return a copy of the bytes or fail with a scripted error',
                  'swag.WriteJSON (struct/slice sources) is external: its value on the case is taken from encoding/json.Marshal of an equal value '
                  'computed by the harness (output field jaux); the theorems say that exactly these bytes are written',
                  'order of the checks inside the four codec bodies and the two JSON option calls: extracted by factgen (go/ast) and pinned by the '
                  'theorems code_shape_facts / json_option_facts']}

CONFIG['C04'] = {'assumptions': ["path values '' '.' '..' are outside the guarantee (stated in the property); so are requests whose built path is also an instance "
                 'of another operation of the same method that is at least as literal (reading: an ambiguity of the description; the decidable test '
                 'noRival is evaluated on every case and is a hypothesis of path_round_trip)',
                 "base paths are '' or start with '/', templates start with '/' (swagger 2.0); static template text consists of bytes that travel "
                 "unchanged in a URL path (unreserved and sub-delimiters) — other static text is known finding F04b; '%', '?', '#' and the router's "
                 "':' '*' in static text are outside the generated descriptions (F01c)",
                 "parameter names: distinct per location in their swag.ToGoName form (go-openapi/analysis keys an operation's parameters by "
                 "location#GoName) and distinct across locations (the untyped handler's map is keyed by name); header names are HTTP tokens with "
                 'pairwise distinct canonical forms and differ from the headers the client sets itself (Accept, Content-Type, Content-Length, Host)',
                 'header values carry no CR/LF and no leading/trailing whitespace (net/http replaces/trims them); scalar parameters are declared '
                 '`type: string` without validations, repeated values as `type: array, collectionFormat: multi` (binding is then the identity: typed '
                 'binding is C03)',
                 'formData parameters are used with POST, PUT, PATCH and DELETE only (runtime.CanHaveBody); an empty body or payload is the absence '
                 'of a body',
                 'text and []byte request bodies are consumed by the harness with the consumer the middleware negotiated (the untyped binder can '
                 'only bind a body into a map); JSON bodies go through the untyped binder'],
 'go_entry': 'client.Runtime.Submit -> in-memory RoundTripper (Request.Write, http.ReadRequest, handler into httptest.ResponseRecorder, '
             'Response.Write, http.ReadResponse) -> middleware.NewContext(doc, untyped API).APIHandler; client and server built from ONE generated '
             'swagger 2.0 description',
 'model_fn': 'serverRoute (C01.dispatch of wirePath of C10.urlPath) / serverValues (GoQuery.parseQuery of GoQuery.encode) + bindDecl / serverHeader '
             'of wireHeaders of clientHeaders (C14.canon) / identity for the external encodings',
 'partial': ['proved: T1+T4 path_round_trip (simple templates), T2 query_round_trip/bound_values (query and urlencoded form), T3 header names '
             '(canon_idem, header_round_trip), wiring_as_modelled',
             'correspondence only (external encodings on both sides, modelled as the identity): multipart fields and files, header VALUES over the '
             "wire, request bodies (-> C15), the response direction: status, header, body through Respond (-> C08) and the client's response adapter "
             '(-> C13)',
             'composite path segments (`{a}-{b}`, `v{x}.json`) are generated (1 description in 20) but only the chosen operation is judged for them '
             '(C01 records the splitting as its own partial)',
             'non-vacuity of `C05.build … = .ok t` cannot be decided in the kernel (well-founded recursion); accepted tables are evaluated by the '
             'correspondence stream on every W case'],
 'quick_n': 5000,
 'rule': 'stream W: generated descriptions (1-3 operations, 4-9 in a quarter of the thorough cases; templates of 1-4 segments over static segments '
         "{pets store a b x.y mine a-b ~u v1 a;b x=1 (s) a,b $x it's}, whole-segment {name} placeholders, siblings of the first template with one "
         'segment changed (static<->placeholder: rivals), 1 template in 20 with a trailing slash, 1 description in 20 with composite segments, 1 '
         "static segment in ~80 that net/url escapes (e-acute, space, quote, <, |: known finding F04b); base paths / '' /api /api/ /v1/base /a; "
         'methods get post put patch delete options in mixed case), one operation selected; value tuples: path values from {reserved and separator '
         'bytes / ? # % + space ; { } : * = & ~ .. prefixes, random bytes over an alphabet with NUL, 0xff and UTF-8, numeric boundaries (int64 '
         "min/max, 2^64, 1e400, 007, NaN), long unreserved strings, texts of static siblings, and '' . .. (1 in 25, the stated exclusion)}; 0-3 "
         'query keys (names incl. space, &=, ;, +%, [], non-ASCII, the empty name) each scalar or array(multi) with 0-3 values; 0-3 headers '
         '(mixed-case and lower-case names, 1 in 25 an invalid or colliding name) with values free of CR/LF and outer whitespace; for methods with a '
         'body one of: urlencoded form, multipart form with 0-2 files (0..1100 bytes, around the 512-byte sniffing buffer, boundary look-alikes; up '
         'to 70000 in the thorough tier), JSON object body, text body, []byte body, streamed io.Reader body; response status from 17 codes incl. '
         '204/304, header value, JSON/text/bytes/no body; no auth writer / API-key header writer / a writer that asks for the body. Streams V E / V '
         'P / V K validate the hand models of url.Values.Encode, url.ParseQuery and http.CanonicalHeaderKey against the real functions. Non-trivial: '
         'a W case inside the guarantee (admissible path values, no rival) or any V case; distinct = distinct input lines.',
 'search_s': 60,
 'thorough_n': 30000,
 'thorough_seeds': 3,
 'trusted_base': ['reading of the property text into the Lean `Spec` (human step, RtVerif/Model/<id>.lean)',
                  'correspondence check (differential: Go harness /verif/harness -> protocol lines -> compiled Lean driver rtdriver evaluating Model '
                  'and Spec); coverage bounded by the generators',
                  "factgen (go/ast extraction of constants/tables into RtVerif/Gen/Facts.lean) and the driver's line parser",
                  'net/url (PathEscape/PathUnescape/QueryEscape/QueryUnescape, Values.Encode, ParseQuery, validEncoded/EscapedPath) and '
                  'http.CanonicalHeaderKey are hand-copied models (RtVerif/Base/GoURL.lean, GoQuery.lean, C04.wirePath, C14.canon), validated by '
                  "C10's stream E (all 256 bytes x both modes) and C04's streams V E, V P, V K and W on every run",
                  'the sub-models composed here: C10.urlPath (client URL), C01.dispatch + C05 (router; the double array is abstracted as the '
                  "implicit trie), GoPath.clean/join (validated by C20's stream G)",
                  "net/http's request/response serialisation (Request.Write, ReadRequest, Response.Write, ReadResponse), mime/multipart, the codecs "
                  '(JSON/text/bytestream producers and consumers) and go-openapi/loads+analysis+validate are exercised, not modelled: for them the '
                  'model is the identity and only the correspondence speaks',
                  'the in-memory wire stands for a TCP connection (no proxies, no HTTP/2)']}

CONFIG['C05DA'] = {'assumptions': ['values registered for patterns are their positions in the list given to Build',
                 'tables stay below denco.MaxSize (the two size errors are modelled but not reachable by the generator); SizeHint is capacity only'],
 'go_entry': 'denco.Router.Build + Router.VerifDump (hook, build tag verif) + denco.Router.Lookup',
 'model_fn': 'C05DA.routerBuild / routerLookup (build, arrange, findBase, makeSiblings, lookup on the BASE/CHECK array)',
 'partial': ['the two size refusals of Build (more than MaxSize records; a BASE beyond MaxSize) are modelled and allowed by routerBuild_total, but '
             'when exactly they arise is not characterised (not reachable by the generator)',
             "C05.build = errDupName => the array Build refuses too is proved only in the direction dupName(array) => errDupName(trie) plus 'array "
             "accepts => trie accepts' (trie_accepts); that the array Build reports dupName rather than a size refusal first is not claimed"],
 'quick_n': 20000,
 'rule': 'deepening of C05: one case = one pattern table (1-10 keys quick, 1-60 thorough, 1 in 50 thorough tables 200-600 keys) + 2-6 looked-up '
         "paths. Keys need NOT start with '/': an optional 1-2 byte head, then 1-4 segments of literals drawn from one of 7 alphabets chosen to "
         'provoke XOR coincidences between sibling bytes ({a b}, {, - . /}, {0 1 2 3}, {01 02 03}, their union, a-z, 24 control/high bytes), '
         "':name', '*wildcard', 'x=:k', mid-segment ':'/'*', prefix-sharing siblings (cut at any byte), 1 table in 15 with keys Build must reject. "
         "agree = the REAL bc array (every uint32) and node table equal the model's element for element and every real Lookup equals the model's "
         'array lookup; spec = the REAL arrays satisfy the abstract invariant reprB w.r.t. the trie of C05 and every real answer equals the trie '
         "model's (C05.lookup). Non-trivial = at least one parameterised key; distinct = distinct input lines.",
 'search_s': 60,
 'thorough_n': 40000,
 'thorough_seeds': 3,
 'trusted_base': ['reading of the property text into the Lean `Spec` (human step, RtVerif/Model/<id>.lean)',
                  'correspondence check (differential: Go harness /verif/harness -> protocol lines -> compiled Lean driver rtdriver evaluating Model '
                  'and Spec); coverage bounded by the generators',
                  "factgen (go/ast extraction of constants/tables into RtVerif/Gen/Facts.lean) and the driver's line parser",
                  'an element of bc is modelled as a record (BASE, 2 flags, CHECK) with Elem.encode giving the uint32; SetBase/SetCheck OR into it '
                  'as in Go; truncation to 22 bits is modelled by `% 4194304`',
                  'records carry their remaining key (Key[depth:]) instead of (Key, depth): all records of one build call share Key[:depth]',
                  'Go slices/maps as immutable lists (sub-slices of the siblings are disjoint; appends to params beyond len are not shared between '
                  'alternatives that succeed); sort.Stable = stable insertion sort',
                  'recursion of build/lookup and the findBase loop run on fuel in the model (Go: unbounded recursion / loop); routerBuild_total, '
                  'routerBuild_outcomes and lookup_total_da prove the fuel provided is never exhausted; Router.fuel (total key length + 1, set by '
                  "the model's Build) is a ghost field without Go counterpart",
                  'the hook Router.VerifDump (export_verif.go, add-only, build tag verif) copies bc and node out of the router']}

CONFIG['C12'] = {'assumptions': ['a request has either a body parameter or form data, not both (Swagger 2.0): Plan.WF',
                 'upload sources and response bodies do not block forever on their own (a stalled response is a placement; a stalled upload source '
                 "is the caller's)",
                 'Debug mode (httputil.DumpRequestOut / DumpResponse, which read the bodies) is off',
                 'a stream payload (io.ReadCloser body parameter) is read as a file handed over for upload: it must be closed too'],
 'go_entry': 'client.KeepAliveTransport(rt).RoundTrip + Read/Close on resp.Body; client.(*Runtime).Submit (request.buildHTTP, runtime.go Submit, '
             'keepalive.go)',
 'model_fn': 'runD (drainingReadCloser over a scripted body) / predict (one maximal execution of the call LTS: mainSteps, gSteps, cSteps) / '
             'effDeadline',
 'partial': ['wall-clock: "returns no later than the effective deadline" is measured (late flag, 400 ms slack), not proved; proved is that the '
             'deadline computed is the shorter of timeout and caller context, that every execution is finite and that the only states without '
             'successor are returned-and-released ones or waits under an infinite deadline',
             'goroutine scheduling: proved on the LTS for all interleavings of main thread, writer goroutine and context; that the Go program '
             'refines the LTS is the correspondence (goroutine stacks, close counters, -race tier), not a proof',
             'net/http contract (FullStatement parameter NetHTTPContract) assumed',
             'early responses (server answers before the upload was consumed) are outside the LTS'],
 'quick_n': 6000,
 'race_n': 400,
 'race_thorough_factor': 10,
 'rule': 'upload sources fail with a private error or (every third failing one) with io.ErrUnexpectedEOF itself, which the sniffing read takes for a short file; every other upload file reports a failure of its Close. '
         'stream D: the real drainingReadCloser (through client.KeepAliveTransport) over a scripted underlying body: data (0-24 bytes, 1 in 10 '
         'beyond the 8192-byte drain buffer) x sticky terminal (EOF / error) x schedule of per-call behaviours (empty read, at most n bytes, at most '
         'n bytes with the terminal in the same call) x any sequence of Read sizes (including 0) then Close; every script with data <= 2 bytes '
         '(thorough: <= 6), <= 2 behaviours from {z,t1,l1,l2,t5} and <= 2 reads from {0,1,2,9} is enumerated on every run. Stream F: one '
         'Runtime.Submit per fault placement: upload files (1-3, r successful one-byte reads then EOF or an error: every failing offset 0..6, '
         'thorough 0..64, plus sources of 511/512/513/520 bytes around the 512-byte sniffing window that the multipart writer fills with io.ReadFull '
         'before it writes the part header) x form fields x media type x payload kind (none, buffered, producer error, stream) x request-writer '
         'error after handing over x auth (none, ok, error, asks for the body then ok/error) x URL error x transport (error before the body, '
         'consumes it, fails / stalls after m body reads) x response (never, k chunks then EOF / error / stall) x reader (reads k times or to the '
         'end, ok/error) x connection reuse on/off x timeout / operation context / runtime context (none, live, deadline) x caller cancels at a '
         'phase (transport entry, after the first body read, after the request, after the first response read) x wire (in-process RoundTripper '
         'honouring the net/http contract, or a real http.Transport against an httptest.Server). Recorded per run: error origin, Close count of '
         'every file and of the stream payload, goroutines with runtime/client frames left after the call settled (polled up to 200 ms), close count '
         'and end-reached flag of the response body, whether the request context was released, lateness against the observed deadline (400 ms '
         'slack), where the deadline came from, number of body reads of the transport. Systematic sweeps (every early return x body kind, every '
         'failing offset, every transport failure point, every truncation point x reader depth, context ending at each phase) run before the random '
         'draws. A case is trivial only when there is no body and no fault.',
 'search_s': 40,
 'thorough_n': 60000,
 'thorough_seeds': 2,
 'trusted_base': ['reading of the property text into the Lean `Spec` (human step, RtVerif/Model/<id>.lean)',
                  'correspondence check (differential: Go harness /verif/harness -> protocol lines -> compiled Lean driver rtdriver evaluating Model '
                  'and Spec); coverage bounded by the generators',
                  "factgen (go/ast extraction of constants/tables into RtVerif/Gen/Facts.lean) and the driver's line parser",
                  'net/http is an assumption of the LTS, not verified: the transport closes the request body on every path, Client.Do returns when '
                  'the request context ends, a response is delivered only after the request body was consumed (the in-process wire implements '
                  'exactly this; the real-wire cases exercise http.Transport itself)',
                  'io.Pipe (rendezvous of writer and reader, CloseWithError semantics), mime/multipart (one pipe write per part header, one for the '
                  'sniffed prefix of a file, one per byte read beyond the sniffing window, per field name and value, one for the trailer; the sniff '
                  'call and its window are the regenerated facts c11ReadCall / c11SniffWindow), io.Copy and context.WithTimeout/WithCancel are '
                  'hand-modelled; validated by the transport-read counts and deadline kinds of stream F',
                  "the scripted bodies and upload sources are the harness's own (their semantics is defined on both sides)",
                  'goroutine accounting reads runtime.Stack; elapsed time is wall-clock: support, not proof']}

CONFIG['C10'] = {'assumptions': ['parameter names are brace-free and distinct (they are Go map keys); patterns are byte strings',
                 "Go's map iteration order is not observable: each P case is rebuilt 4 times and must give one answer",
                 'the Spec speaks about base paths as client.New leaves them (rooted) and about base paths and patterns that are plain text before '
                 'an optional ?query: no scheme, authority, fragment or percent-escape in the static text (a path template is not percent-encoded); '
                 'other inputs are generated (tags ~P:odd-input, ~P:unrooted-base) and the model must still agree with the code on them, but the '
                 'Spec is not judged',
                 'the Host url.Parse reads out of the built string (F10a) is overwritten by the runtime and not observable through '
                 'CreateHttpRequest; it is validated by stream U'],
 'go_entry': 'client.Runtime.CreateHttpRequest (request.buildHTTP, Runtime.pickScheme); url.Parse (stream U)',
 'model_fn': 'build (GoURLParse.parse of base path and pattern, GoQuery.parseQuery, GoPath.join, urlPath / substSeq, GoURLParse.parse + escapedPath '
             'of the built string, finalQuery, GoQuery.encode) / pickScheme',
 'partial': ['request_path_exact / request_segments / build_exact are stated for patterns given by their segments (PathOk: ordinary segments, static '
             'text without % and braces, every placeholder supplied) and a clean rooted base path; patterns with dot segments or duplicate slashes '
             'are covered by join_clean_base (path.Join) and by the correspondence',
             'build_exact takes the results of url.Parse on base path and pattern as hypotheses; build_exact_plain discharges them (parse_plain) for '
             'base paths /b1/../bm[?query] and patterns /s1/../sn[/][?query] whose static text consists of valid path bytes and whose placeholder '
             'names hold no % ? # or control bytes; inputs outside (schemes, authorities, fragments, percent-escapes in static text) are covered by '
             'the correspondence only'],
 'quick_n': 30000,
 'rule': "stream P, end to end: the raw Runtime.BasePath (after client.New's normalisation; 1 in 40 set directly / with authority, scheme, escapes, "
         'fragment), the raw pattern (1-4 segments over static segments {pets store a b.c x_y v1 A-Z}, static text net/url keeps but would escape '
         "itself (' ! ( ) * [ ] : @ ; , = $ & + ~), static text net/url must escape (e-acute, space, quote, < > | ^ ` backslash: known finding "
         'F10b), dot segments and %-escaped static text, {name} segments, prefix{name}suffix and two placeholders in one segment, trailing slash, '
         "pattern without leading slash, embedded static query incl. malformed escapes and ';', 1 in 25 odd patterns: nested/unbalanced braces, '', "
         "'/', '//', authority, scheme, fragment), path values (placeholder look-alikes, / ? # % .. . space ; braces non-ASCII NUL + : *, the empty "
         "value 1 in 6: known finding F10a), parameters missing or extra, the caller's query parameters (0-2 keys incl. space, non-ASCII, '&=', 0-2 "
         'values each, a key set without values); every field of the request URL is compared (Scheme, Opaque, User, Host, Path, RawPath, '
         "EscapedPath(), ForceQuery, RawQuery, Fragment, RawFragment, OmitHost) or the error; each case rebuilt 4x to shake Go's map order. Q "
         "(static query of base path and pattern vs caller's parameters, 0-2 keys each, repeated values; parsed map and raw RawQuery), S (scheme "
         'lists), E (net/url escape tables: all 256 bytes x both modes, every run), U (url.Parse against the hand model: random bytes over / % '
         'letters digits { } : * ; , = + space ? # . @ [ ] ! $ & \' ( ) < > " | ^ ` ~ - _ backslash NUL 0x1f 0x7f 0x80 0xc3 0xa9 0xff; authority '
         'forms with ports, IPv6 literals and zones, user info; scheme forms; path-like strings as the client builds them). Non-trivial: P with a '
         'well-formed pattern and plain inputs, every Q/S/E, every U but the empty string; distinct = distinct input lines.',
 'search_s': 60,
 'thorough_n': 300000,
 'thorough_seeds': 4,
 'trusted_base': ['reading of the property text into the Lean `Spec` (human step, RtVerif/Model/<id>.lean)',
                  'correspondence check (differential: Go harness /verif/harness -> protocol lines -> compiled Lean driver rtdriver evaluating Model '
                  'and Spec); coverage bounded by the generators',
                  "factgen (go/ast extraction of constants/tables into RtVerif/Gen/Facts.lean) and the driver's line parser",
                  "net/url's Parse/setPath/EscapedPath/validEncoded/parseAuthority/parseHost/shouldEscape (all modes) are a hand model "
                  '(RtVerif/Base/GoURLParse.lean), validated on every run against url.Parse field by field (stream U, 1 case in 4) and, composed '
                  'with the client code, by every P case; error messages are not distinguished (an error is `none`)',
                  'net/url PathEscape/QueryEscape/unescape are hand-copied (RtVerif/Base/GoURL.lean) and validated over all 256 bytes x both modes '
                  "on every run (stream E); Values.Encode/ParseQuery are RtVerif/Base/GoQuery.lean (validated by C04's streams V E / V P and here by "
                  "the raw RawQuery of every P and Q case); path.Join is RtVerif/Base/GoPath.lean (validated by C20's stream G and here by every P "
                  'case)',
                  'http.NewRequestWithContext is modelled as url.Parse of the string it is given (method and context are valid; removeEmptyPort acts '
                  'on a Host the runtime overwrites)']}

CONFIG['C03'] = {'assumptions': ['strings.TrimSpace / ToLower are modelled on ASCII; generated separators and padding are ASCII (non-ASCII bytes appear only inside '
                 'string items)',
                 'header values are fed as given (no OWS trimming by a wire parser); header names are tokens',
                 'defaults are well typed and within the declared range (|integer default| < 2^53): an ill-typed default is not a declaration the '
                 'description language allows',
                 "unsigned integer formats (uint32, uint64 — go-openapi extensions outside the property's quantifier) are not generated: the "
                 'validator answers 500 for negative values',
                 'arrays of named string formats (uuid, email) are not generated: go-openapi/validate never validates item formats (it consults the '
                 'parameter, not the items)',
                 'stream F: part names and file names are printable (no CR, LF, NUL, no "/"): mime/multipart.Writer escapes quotes and backslashes, '
                 'Reader.ReadForm classifies a part with an empty filename as a text field, applies filepath.Base to file names and keeps the parts '
                 'in order per name — stdlib behaviour the model takes as given (the harness compares the field name found in the '
                 'Content-Disposition of the received header)',
                 'stream F: a truncated body is cut by at least 3 bytes (the closing delimiter never survives); the content never contains the full '
                 'boundary',
                 'stream S: struct fields are built with reflect.StructOf (one exported field F) or taken from a fixed struct with unexported '
                 'fields; defaults are values the field can hold (|integer default| <= 100, non-negative for unsigned fields)',
                 "streams M/MB: parameter names are distinct up to case and free of dots; a parameter's values are sent under its own name (any case "
                 'for headers) or under a key no parameter is declared with, so that the per-parameter views of the request are independent by '
                 'construction; all formData parameters of an operation share one encoding; registered string formats are not used; every error of '
                 "these requests is a 422 (which of several errors the API serves first depends on Go's map order: stream M compares only ran / "
                 'rejected + status)'],
 'exhaustive': 'the decision table {absent, empty, text} x required x allowEmptyValue x default is enumerated completely on every run for 12 scalar '
               'kinds x 5 locations and for arrays of 11 kinds x {csv, pipes, multi} x {query, header, formData} (about 3400 cases, before the '
               'random cases); everything else is sampled; stream F: the file/text decision table (12 part situations x 3 types x required x 5 '
               'request modes x 3 streams = 1080 cases) and one file of every length 0..96; stream S: the width-overflow table (5 integer formats x '
               '10 integer field types x {plain, pointer, slice} x ~45 boundary literals = about 6400 cases) and the field-lookup table (8 field '
               'types x 5 modes x 3 requests)',
 'go_entry': 'middleware.Serve + untyped API handler (streams H, F), middleware.UntypedRequestBinder.Bind into a map (streams B, FB) and into a '
             'struct (streams S, FS); operations with several parameters: middleware.Serve (stream M), UntypedRequestBinder.Bind (stream MB)',
 'model_fn': 'bind (getOK / splitByFormat / setFieldValue / setSliceFieldValue / validate); bindFile / bindFormText (streams F*); bindInto '
             '(setFieldValueT / setPtrT / setSliceFieldValueT / validateT / lookupField, stream S); bindAll / apiOut (the product of the single '
             'binds, streams M/MB)',
 'partial': ['C03_holds_outside_known / C03S_holds_outside_known are stated for Decl.wf / Req.wf / Target.wf inputs (well-typed in-range defaults, '
             'multi only in query/formData, token header names, one value per path parameter, strfmt graph in which the empty text unmarshals and '
             'named string types render as their text; for struct targets: a field type that can hold the declared type, a default the field can '
             'hold, no format float32); the driver tags every case outside them with !wf / unjudged',
             'number values: accept/reject and the value are stated against the hand model of float rounding (parseFloatFor); no theorem about IEEE '
             "rounding; a number bound into a struct field is read at the FIELD's float width; declared float into a float64 field is unjudged (no "
             'value fixed by the text)',
             'registered string formats (strfmt) and declared validations (validate) are external: theorems are parametric in their graph; covered '
             'by correspondence only; for struct targets the range check of the validator (IsValueValidAgainstRange) is a hand model',
             'type: file: the multipart parser is stdlib — the model is handed the parts (name, filename, content) in order; files above the 32 MB '
             'memory limit (spooled to disk by mime/multipart) are not exercised; an Open() failure of a file header is not modelled',
             'struct targets: field types that cannot hold the declared type are unjudged (only no-panic + agreement for iface/map/struct fields and '
             'float into float64); an array parameter bound into a field that is not a slice, []*T fields, []byte for an integer array, an ill-typed '
             "default for the field (an integer default for a bool field) and a default outside the field's range are NOT generated: reflect panics "
             '/ silent truncation there are programming errors of the target, listed in the report'],
 'quick_n': 20000,
 'rule': 'one declared non-body parameter x one request. Declarations: location {query, header, path, formData urlencoded, formData multipart} x '
         '{integer int8/int16/int32/int64/none/unknown format, number float/double/none/unknown, boolean, string plain/unknown '
         'format/date/byte/uuid/email, array of those with none/csv/ssv/tsv/pipes/multi (multi in header/path occasionally)} x required x '
         'allowEmptyValue x well-typed default (scalar or array) x validations (min/max/enum on integers, minLength/maxLength/enum on strings, '
         'minItems/maxItems/uniqueItems on arrays). Texts per declared type: boundary literals +-2^(w-1), +-1 and +-2 around them for the declared '
         'and the other widths, signs, leading zeros, 0x.., 1_0, exponents, decimals, inf/Infinity/NaN in several cases, hex floats, float64/float32 '
         'overflow and underflow edges, empty, white space, junk, non-ASCII digits; 1-3 repeated values; array values joined by the declared or '
         'another separator with padding, empty items and trailing separators; the key sent in the declared case, upper, lower, canonical, random '
         'case, or another key; key absent. 8 requests per declaration (12 thorough), 3 in 5 through the full API handler, 2 in 5 through '
         'UntypedRequestBinder.Bind. A case is trivial only when the parameter is absent, optional, without default and without validations. --- '
         'Deepening, stream F/FB/FS (type: file and form requests part by part): one formData declaration {file, string, integer int32} x required x '
         'request mode {multipart, urlencoded, truncated multipart, no body, JSON body} x a list of 0-5 parts (declared name, case variant, other '
         'name; text part or file part with one of 12 file names incl. quotes, backslash, semicolons, non-ASCII; content of 0..5000 bytes over all '
         '256 byte values with CRLF / dashes / boundary-prefix look-alikes); the decision table {missing, other name, one, text under the file name, '
         'file under the text name, repeated file, repeated text, mixed, empty file} x type x required x mode x 3 streams completely on every run; '
         'one file of EVERY length 0..96 (0..1100 thorough) through each of: full API handler, UntypedRequestBinder.Bind into a map, Bind into a '
         'struct field runtime.File. Stream S (struct targets): the declarations of streams H/B bound through UntypedRequestBinder.Bind into '
         'reflect.StructOf structs whose field is int/int8..int64/uint/uint8..uint64/float32/float64/bool/string/strfmt.Date/Base64/UUID/Email, *T '
         'of those, []T of those (arrays), or interface{}/map/struct; field modes {exported, unexported, missing, lower-case key, key = declared '
         'name}; width overflow table completely on every run: every integer format {int8,int16,int32,int64,none} x every integer field type (plain, '
         'pointer, slice) x the boundary literals +-2^(w-1), 2^w, +-1 around, for every width, plus signs, absent, required, default; random cases '
         'use boundary literals of the FIELD width half of the time. Streams M/MB (several parameters of one operation): 2-4 declared parameters '
         'with distinct names, sorted, in mixed locations (query, header, path, formData), in two operations out of three at least TWO formData '
         'parameters sharing one body (urlencoded twice as often as multipart), methods POST/PUT/PATCH/DELETE (DELETE twice as often) — GET too when '
         'there is no formData parameter; kinds integer (all formats), number, boolean, string, arrays of those (csv/pipes/multi); required x '
         'default x min/max; per parameter mostly accepted texts (so that most requests reach the handler), sometimes the boundary/junk texts of the '
         'other streams, empty, repeated, absent, or sent under a key no parameter is declared with; 5 requests per operation (8 thorough); one in '
         'three through the full API handler (handler ran with all values / rejected with a status), two in three through UntypedRequestBinder.Bind '
         'with the per-parameter result read from the composite error independently of its order.',
 'search_s': 60,
 'thorough_n': 250000,
 'thorough_seeds': 4,
 'trusted_base': ['reading of the property text into the Lean `Spec` (human step, RtVerif/Model/<id>.lean)',
                  'correspondence check (differential: Go harness /verif/harness -> protocol lines -> compiled Lean driver rtdriver evaluating Model '
                  'and Spec); coverage bounded by the generators',
                  "factgen (go/ast extraction of constants/tables into RtVerif/Gen/Facts.lean) and the driver's line parser",
                  'strfmt (registered string formats): UnmarshalText of the registered Go type and Registry.Validates are EXTERNAL: the harness '
                  'passes their graph on the texts of the case as an input column; the model decides when they are called and what is done with the '
                  'result',
                  'go-openapi/validate (parameter validator run after binding): hand model of the required-string rule, min/max, enum, '
                  'minLength/maxLength, minItems/maxItems/uniqueItems; checked by correspondence only',
                  'strconv.ParseFloat: the accept set is transcribed (Base.Num.floatLex); the float VALUE is a hand model (exact rational, '
                  'round-half-even to float64, then to float32) validated bit-for-bit by correspondence, not proved',
                  'net/http: header names are canonicalised when a request is read (modelled by canonHeader, ASCII), url.ParseQuery / ParseForm / '
                  'multipart parsing deliver the values in order (the harness feeds encoded requests; stream B hand-built ones)',
                  'reflect: Kind of the Go types typeForSchema returns; SetInt/SetFloat on values already checked by OverflowInt/OverflowFloat',
                  'mime/multipart (Writer, Reader.ReadForm, FileHeader.Open) and net/http.ParseMultipartForm: the parts of a form request reach the '
                  'binder in order, text fields in MultipartForm.Value, file parts in MultipartForm.File; a body without closing delimiter is a '
                  'parse error',
                  'go-openapi/validate on typed values of struct fields: typeValidator accepts the compatible field kinds; numberValidator range '
                  'check (IsValueValidAgainstRange: int32 / int64 / float32 of the decimal rendering) hand-modelled as rangeFails; the one float64 '
                  'value 2^128-2^103 (float32 overflow midpoint) is special-cased as observed',
                  'reflect.Value.FieldByName (exact name), CanInterface (exported), SetInt/SetUint/SetFloat after the Overflow* tests, reflect.New '
                  'for pointer fields']}

CONFIG['C01'] = {'assumptions': ['every operation of the description has a handler registered under its method and its template as written (what generated servers '
                 'do)',
                 "path templates begin with '/' and their braces pair up into {name} placeholders with non-empty brace-free names; methods are the "
                 'seven a swagger 2.0 path item knows (anything else is INVALID input: the description would silently lose the operation)',
                 "two operations whose converted keys coincide under one method (e.g. /p/{a}.json and /p/{a}.xml) are resolved by Go's map iteration "
                 'order: such descriptions are tagged ~dupkeys and not judged',
                 "a description whose table denco.Build refuses (duplicate placeholder names, '#') is used half-built because the error is ignored "
                 '(F01b, documented): tagged ~build-refused and not judged'],
 'go_entry': 'middleware.NewRouter over middleware.NewContext(spec, untyped API) — DefaultRouter, defaultRouter.Lookup/OtherMethods',
 'model_fn': 'dispatch (path.Join, template->key conversion, per-method C05 tables, path.Clean, decodeCompositParams on the escaped text, '
             'PathUnescape of every value/fragment, 404/405)',
 'partial': ['composite segments ({a}-{b}, {id}.json, v{major}.{minor}): route AND values are judged per case by the composite-aware Spec '
             '(specDispatchC: the values are the decoded texts of an instantiation, of THE instantiation where it is unique). Proved for all inputs: '
             "the Spec's enumerator is exact (allInst_exact; mem_instAll for whole templates); what decodeCompositParams returns is an instantiation "
             'whenever the captured text has one, and exactly the unique one where it is unique, decoded, by name, as called by Lookup '
             '(composite_split_instantiates, composite_split_unique, composite_values_unique, composite_values_sepOnce); dispatch on templates with '
             'composite segments (composite_ran_params, composite_ran_meets_spec: method, captured texts, and the values received are the decoded '
             'texts of an instantiation of the whole template, for templates with plain static prefixes, distinct brace-free placeholder names and a '
             'converted key the trie takes for parameterised). NOT proved for composite templates: the literal-over-parameter preference and the '
             '404/405 clauses in terms of templates (CompositeRanStatement; they hold at the level of the trie key) - covered by the correspondence',
             'simple templates (every segment static text or one whole-segment placeholder, no reserved router bytes in static text) are fully '
             'proved (`simple_ran_params`, `allow_exact_templates`); templates outside that class are covered by the trie-level theorems and the '
             "driver's Spec only"],
 'quick_n': 30000,
 'rule': 'generated swagger 2.0 descriptions (1-7 operations, 8-19 in a quarter of the thorough tables; templates of 1-4 segments over static '
         'segments and {name} placeholders with shared prefixes and static/parameterised siblings; the same template under several methods; base '
         "paths /, '', /api, /api/, /v1/base, /a; 1 description in 6 with ':'/'*' in static text and a few composite segments; 1 description in 3 "
         'with composite segments in 3 of 10 segment positions: [prefix v|p_|id-|x.] {n0} sep {n1} [sep {n2}] [suffix .json|.xml|-x|!|:cancel|.|--] '
         'with 1-3 placeholders, separators - . _ , -- .. -. __ : @ and, 1 in 12, none (adjacent placeholders); 1 template in 40 with a trailing '
         'slash), requests parsed by net/http from a raw request line: instantiations with whole-segment values {1 42 kitty a%2Fb 50%25 %zz : * %23 '
         "; a=b %C3%A9 . .. '' x.json a-b a--b mine a:b a+b +1 %2B ...}, fragment values of composite segments 3 in 5 free of every separator {1 42 "
         'kitty abc x Z9 7 report pdf 0}, else containing a separator (a-b a--b a.b 1.2 x.json - . .. -- x- -x ...), escaping one (a%2Db %2D '
         'a%2D%2Db a%2Eb %2E%2E a%5Fb a%2Cb %2Djson a%2Ejson a%3Ab %40) or empty; trailing/duplicate slashes, dot segments, random bytes, one '
         "inserted or one dropped byte (a lost separator or suffix byte); methods in any letter case (the description's own methods 1 in 2, 3 in 4 "
         'for composite descriptions). Non-trivial: a valid request against a description without duplicate converted keys; distinct = distinct '
         'input lines. Composite tags: composite:ranN:unique|ambiguous|none = the number of instantiations of the chosen template by the cleaned '
         'path (Spec: exactly the unique one / any / the handler must not run).',
 'search_s': 60,
 'thorough_n': 250000,
 'thorough_seeds': 4,
 'trusted_base': ['reading of the property text into the Lean `Spec` (human step, RtVerif/Model/<id>.lean)',
                  'correspondence check (differential: Go harness /verif/harness -> protocol lines -> compiled Lean driver rtdriver evaluating Model '
                  'and Spec); coverage bounded by the generators',
                  "factgen (go/ast extraction of constants/tables into RtVerif/Gen/Facts.lean) and the driver's line parser",
                  'net/http request-line parsing and URL.EscapedPath; go-openapi/analysis Operations(); regexp semantics of {(.+?)}([^/]*) '
                  '(hand-transcribed scanner `convert`)',
                  "denco's double array (see C05); path.Clean/Join via RtVerif/Base/GoPath.lean (validated by C20's stream G)"]}

CONFIG['C17'] = {'assumptions': ['ContentLength and the Content-Length header agree as on requests produced by net/http (the HasBody answer is judged only then; the '
                 "generator's 4% inconsistent pairs still have their streams judged)",
                 "scripted streams whose runs of zero-length reads reach bufio's maxConsecutiveEmptyReads (100) are outside the claim: bufio reports "
                 'io.ErrNoProgress by design (such cases are generated, compared with the model, tagged ~longzerorun)',
                 "a zero-length Read after Close may return (0, nil): 'reads after close fail' is judged for non-empty read buffers; no read after "
                 'close ever returns data',
                 "'closing the body' / 'reads after close' speak of the body as it is after asking: once HasBody was asked on a request without "
                 "declared length and with a body, every Close must go through the library's body (none observed as a direct Close of the caller's "
                 'stream), together they close the underlying stream once, and no Read reaches the underlying stream after such a Close (<late> '
                 "counter of the scripted stream); a Close the caller makes on its own stream BEFORE any probe is the caller's own, and reads "
                 'reaching a stream the caller closed before asking are not held against the library'],
 'go_entry': 'runtime.HasBody(req), req.Body.Read, req.Body.Close on a *http.Request whose Body is a scripted io.ReadCloser',
 'model_fn': 'hasBody / tower (peekingReader over Stream.bread = bufio.Reader.Read, Stream.peek, Stream.fillLoop) / runOps',
 'partial': [],
 'quick_n': 12000,
 'rule': 'scripted streams (bodies of 0..12.4k bytes with position-dependent content; per-call schedule of chunk sizes incl. zero-length reads, runs '
         'of 20-99 zero reads, sizes around the 4096-byte bufio buffer; terminal EOF or error, delivered with the last bytes or separately; Close '
         'error) x body kind (scripted / nil / http.NoBody) x ContentLength/Content-Length (absent, -1, 0, positive; 4% inconsistent pairs) x '
         'histories of HasBody, Read(k), Close, Drain(k) (1-40 ops; k in {0,1,2,3,7,16,100,4095,4096,4097,10000}); one case in five is an '
         'empty-probing body (no data with EOF/error terminal, http.NoBody, nil, or drained before asking; some with content or a declared length '
         'for contrast) probed and then c,c / c,r<k> / c,h,c / c,c,r<k> / c,d<k> / c,h,r<k>,c / ... (tag suffix E: a probe that answered false is '
         'followed by a Close); thorough adds every history of <= 5 ops over {h,r0,r1,r5000,c,d3} on 8 stream behaviours and every chunking of '
         'bodies of <= 7 bytes with and without interleaved zero reads. A case is non-trivial when it has at least one op, parses, and its schedule '
         "stays below bufio's 100-empty-reads limit; distinct = distinct input lines.",
 'search_s': 45,
 'thorough_n': 60000,
 'thorough_seeds': 3,
 'trusted_base': ['reading of the property text into the Lean `Spec` (human step, RtVerif/Model/<id>.lean)',
                  'correspondence check (differential: Go harness /verif/harness -> protocol lines -> compiled Lean driver rtdriver evaluating Model '
                  'and Spec); coverage bounded by the generators',
                  "factgen (go/ast extraction of constants/tables into RtVerif/Gen/Facts.lean) and the driver's line parser",
                  'hand model of bufio.Reader (Peek, Read, fill, readErr, Buffered; RtVerif/Base/Stream.lean, transcribed from '
                  '$GOROOT/src/bufio/bufio.go) - its two constants are regenerated facts, its behaviour is checked differentially through every case',
                  'the scripted io.ReadCloser of the harness (props/c17.go c17Src) is what Stream.Src models: sticky terminal, Read after Close '
                  'fails',
                  'Go interface semantics: a typed-nil *peekingReader stored in r.Body is modelled as an empty stream that ignores Close']}

CONFIG['C06'] = {'assumptions': ['media types in consumes lists, defaults and registrations are ASCII (strings.EqualFold/ToLower differ from the model on non-ASCII '
                 'letters)',
                 'the property quantifies over consumes lists spelled in lower case: for a configuration with a mixed-case consumes entry only the '
                 'correspondence is checked (tag ~mixedcase), the Spec is not judged; the same holds for produces lists (lower case, no empty entry: '
                 'an empty-string media type would be "chosen" and read as no format)',
                 'requests are handed to the handlers as *http.Request values (no wire parsing); every lookup yields a fresh MatchedRoute '
                 '(route.Consumer nil) and no response format is cached in the request context',
                 "stream H: the API's default producer is lower case and parameter-free and a producer is registered for every declared type "
                 '(Context.Respond looks producers up by name: C08); the complete handler is not run for an API without default producer'],
 'go_entry': 'middleware.Context.BindAndValidate, middleware.Context.BindValidRequest (whole function: gate, response-format check, binder), '
             'middleware.Serve handler (runtime.HasBody, runtime.ContentType, validateContentType, validation.responseFormat / '
             'Context.ResponseFormat / NegotiateContentType behind them)',
 'model_fn': 'untypedRaw / typedRaw / observe (gateUntyped, gateTyped), hasBody, routeConsumer; typedFull / untypedFull (tRespCheck, uRespCheck, '
             'tBind, uBind over C07.parseAccept / C07.negotiateContentType), routeProduces',
 'partial': [],
 'quick_n': 16000,
 'rule': 'API configurations (operation consumes lists of 0-3 entries: concrete types, type/*, */*, entries with parameters, odd tokens, a few '
         'mixed-case ones; API default absent/present; 0-6 RegisterConsumer calls with case variants and duplicates, instrumented consumers) x '
         'requests (7 methods in either case; Content-Type absent / empty / two lines / valid with case flips, parameters, quoted values, '
         'surrounding whitespace / literal wildcards / malformed / noise bytes; body signalled by Content-Length, by a stream without length, '
         'absent, and contradictory combinations). Stream G (half of the cases): Context.BindAndValidate, Context.BindValidRequest (with the binder '
         'a generated server uses) and the complete middleware.Serve handler on the same request; outputs are the error codes in order, '
         'route.Consumer, the consumer whose Consume ran, status, whether the operation handler ran, plus runtime.HasBody and mime.ParseMediaType of '
         'the effective header (and of its own result) as observed. Stream H (the other half; every second H request carries a body of a listed and '
         'registered type so that the tail is reached): additionally operation produces lists (none / one / several / with parameters / duplicates / '
         'the API default spelled in the list first or last / a few mixed-case or wildcard entries) x API default producer absent or present '
         '(route.Produces empty, one, several) x Accept header lines (absent / a declared type / a foreign type / */* / the declared or a foreign '
         "type/* / q=0 on the declared type alone or beside others / several ranges / several lines, also empty ones / C07's header grammar / noise) "
         'x binder handed to BindValidRequest (nil / succeeds and decodes / fails with an errors.Error 422 / fails with a plain error); outputs '
         'additionally route.Produces as found, how often the binder was called and whether the returned error is the very value the binder '
         'returned. Thorough tier adds the exhaustive product over a 12-entry media-type universe (consumes lists of <= 2 entries x 3 defaults x 3 '
         'registries x 16 headers x 3 body signals x 2 methods = 68k cases) and, for H, produces lists of <= 2 entries over 4 types x 2 default '
         'producers x 16 Accept headers x 4 binders x 4 requests (5.6k cases). A case is trivial only when there is neither header nor body signal.',
 'search_s': 60,
 'thorough_n': 100000,
 'thorough_seeds': 2,
 'trusted_base': ['reading of the property text into the Lean `Spec` (human step, RtVerif/Model/<id>.lean)',
                  'correspondence check (differential: Go harness /verif/harness -> protocol lines -> compiled Lean driver rtdriver evaluating Model '
                  'and Spec); coverage bounded by the generators',
                  "factgen (go/ast extraction of constants/tables into RtVerif/Gen/Facts.lean) and the driver's line parser",
                  'mime.ParseMediaType is a parameter of the model (`pmt`); the theorems assume PmtOK (its result parses to itself, is non-empty, '
                  "holds no ';'), re-checked against the real function on every case (a failure is reported as a correspondence break with tag "
                  'PMT-HYPOTHESIS-FAILED)',
                  "the peek into the body stream (bufio) behind runtime.HasBody is the boolean `streamHasData` (C17's subject)",
                  'net/http Header.Get, go-openapi/errors (codes 400/406/415/500, ServeError serving the first error of a composite), '
                  "analysis.ConsumesFor / ProducesFor (return the operation's list without duplicates in map order: the observed route.Produces is "
                  'checked against routeProduces up to that order and then fed to the model), swag.ContainsStringsCI / strings.EqualFold (ASCII '
                  'folding)',
                  "the Accept header is parsed and negotiated by C07's model (header.ParseAccept / NegotiateContentType: C07's theorems and "
                  'correspondence); the C06 theorems quantify over every list of parsed ranges',
                  'downstream of the gate (parameter binder calling Consume only when HasBody, handler invocation) is modelled by '
                  '`consumerRan`/`handlerRan` / `Full.decoded` and checked differentially only; for the reflective entry point and the complete '
                  "handler 'the binder ran' is read off the nil error / the handler call"]}

CONFIG['C13'] = {'assumptions': ["Content-Type values, defaults, registry keys and header names are ASCII (Go's Unicode lower-casing/TrimSpace differ beyond ASCII, "
                 'e.g. U+212A); header names are token characters',
                 "the wire (RoundTripper) fails the round trip exactly when the request's context is already done, as net/http's Transport does",
                 'the response to a request is a function of that request (net : Op -> Resp) in the concurrency model'],
 'go_entry': 'client.(*Runtime).Submit (client/runtime.go), client.response (client/response.go), mime.ParseMediaType',
 'model_fn': 'submit / selectConsumer / parseMediaType / adapterView / chooseClient / chooseCtx',
 'partial': ['data-race freedom (Go memory model) is NOT proved: FullStatement keeps it as the parameter DataRaceFree; full_statement_partial proves '
             'the sequential part and the interleaving part on the step model. Support: stream R in the -race build (tier race), concurrent first '
             'calls, per-call tokens',
             'atomicity and happens-before of sync.Once are assumed by the step model, not proved'],
 'quick_n': 12000,
 'race_n': 60,
 'race_thorough_factor': 20,
 'rule': 'stream S: Submit on a Runtime whose RoundTripper returns a crafted response: Content-Type values (pool of registered/unregistered types x '
         "random letter case x leading/trailing blanks x well-formed, malformed and duplicate parameters; malformed values such as ';;', 'text/', 'a "
         "b/c', byte noise; absent, empty, two lines, any spelling of the header name) x default media type (valid, with parameters, upper case, "
         "empty, malformed) x registry (random subset of the pool, biased to hold the response's type, with/without '*/*', odd keys: upper case, "
         'with parameters, lone token, empty) x status code/status text x 0-4 other headers with case-variant names x queried names x random body '
         'bytes x operation-level vs transport-level client (lazy or NewWithClient) and context (nil/live/cancelled/deadline) x timeout x Debug x '
         'reader returning an error. Consumers are instrumented (identity = registry key); the reader records what it saw. Stream M: '
         "mime.ParseMediaType on the part before ';' vs the hand model. Stream R (also run in a -race build, tier race): N goroutines released "
         'together on one Runtime against an httptest.Server, first calls included, per-call tokens. Stream M is exhaustive over all strings of '
         'length <= 3 (thorough: <= 5) over {a B / ; blank quote *} plus random values. Non-trivial = every S and R case (all reach the selection or '
         'the precedence logic; M cases are tagged trivial); distinct = distinct input lines.',
 'search_s': 45,
 'thorough_n': 150000,
 'thorough_seeds': 4,
 'trusted_base': ['reading of the property text into the Lean `Spec` (human step, RtVerif/Model/<id>.lean)',
                  'correspondence check (differential: Go harness /verif/harness -> protocol lines -> compiled Lean driver rtdriver evaluating Model '
                  'and Spec); coverage bounded by the generators',
                  "factgen (go/ast extraction of constants/tables into RtVerif/Gen/Facts.lean) and the driver's line parser",
                  "mime.ParseMediaType (stdlib) is hand-modelled for ';'-free ASCII input (token grammar, lower-casing, TrimSpace) and validated "
                  'differentially (stream M, and the exact error text in every S case)',
                  'strconv.Quote/%q is hand-modelled for ASCII; http.Header.Get/Values as case-insensitive lookup over token names; http.Client.Do '
                  "as 'returns the response the RoundTripper produced for this request' (no redirects: no Location header is generated)",
                  'sync.Once is modelled as one atomic check-and-set step; the Go memory model is not represented']}

CONFIG['C20'] = {'assumptions': ['requests are built in-process with an arbitrary byte string as r.URL.Path (no wire parsing); page titles and URLs compared '
                 'literally only when html/template has nothing to escape (plain URLs) or after html.UnescapeString / JS-unescape (titles, printable '
                 'ASCII)',
                 "reading: a spec location is 'absolute' when it starts with / or has a scheme, its URL path is rooted and its last element is "
                 'non-empty; for such locations the spec document path must be clean(path of the location)'],
 'go_entry': 'middleware.Spec, Redoc, RapiDoc, SwaggerUI, SwaggerUIOAuth2Callback, Context.APIHandler/APIHandlerSwaggerUI/APIHandlerRapiDoc; '
             'path.Clean/Join/Split/Base; url.Parse',
 'model_fn': 'specMW / uiMW / ensureDefaults / uiOptionsForHandler / apiHandler; GoPath.clean/join/split/base; urlPath',
 'partial': ["HTML escaping of option values is html/template's (external): covered by the import-fact theorem and stream X, not by a proof about "
             'escaping',
             'url.Parse model: the characterisation theorems cover plain absolute paths and scheme://host/path URLs; locations with port, query, '
             'fragment or percent escapes (FullStatement_urlPath_general) are validated by stream U and decide-examples only (the agreement theorem '
             'itself holds for whatever path the URL model yields)'],
 'quick_n': 60000,
 'rule': 'streams: G (>= 10^5 random byte paths per run over the alphabet / . a b % : * # 0x00 0xff, segment-built and uniform: '
         'path.Clean/Split/Base/Join vs GoPath); U (url.Parse(..).Path vs the urlPath model: menu of spec locations + grammar-built and random URL '
         'strings); M (four standalone UI middlewares: BasePath x Path x SpecURL x Title x OAuthCallbackURL menus incl. missing/extra slashes, dot '
         'segments, HTML metacharacters x with/without next x 10 methods x request paths derived from the document path: exact, trailing slash, dot '
         'segments, doubled slashes, prefixes, extensions, case change, unrelated, random bytes); S (Spec middleware: base path x up to 3 '
         'WithSpecPath/WithSpecDocument options x random document bytes x the same request-path variants); H (three API-handler flavours over a '
         'generated Swagger document: API base path x up to 3 UIOptions (base path, path, spec URL from a menu of 38 locations: absolute URLs, '
         'absolute paths, relative, with directories, escapes, query/fragment, malformed; title) x methods x request paths around the spec path, the '
         'UI path and the operations\' paths); X (pages rendered with hostile option values, default and two custom templates: counts of raw < > " '
         "' compared with the page rendered with benign values). A case is non-trivial unless tagged ~ (paths shorter than 2 bytes in G, URLs "
         'outside the modelled authority subset); distinct = distinct input lines.',
 'search_s': 40,
 'thorough_n': 400000,
 'thorough_seeds': 3,
 'trusted_base': ['reading of the property text into the Lean `Spec` (human step, RtVerif/Model/<id>.lean)',
                  'correspondence check (differential: Go harness /verif/harness -> protocol lines -> compiled Lean driver rtdriver evaluating Model '
                  'and Spec); coverage bounded by the generators',
                  "factgen (go/ast extraction of constants/tables into RtVerif/Gen/Facts.lean) and the driver's line parser",
                  "html/template's contextual escaping is external: proved is only that every UI file imports html/template (regenerated import "
                  'table); stream X observes the real pages',
                  'net/url.Parse is a hand model (urlPath) for authorities of the form [A-Za-z0-9.-]*(:[0-9]*)?, validated by stream U; other '
                  'authorities are not modelled (cases tagged ~)',
                  "GoPath (segment-stack formulation of path.Clean's lazybuf loop) is tied to the real path package by stream G only",
                  'gob round trip between option structs (toCommonUIOptions/fromCommonToAnyOptions) modelled as a copy of the five common fields',
                  "the API router behind the UI middleware is an opaque terminal handler (C01's subject); 'reachable' means the request arrives "
                  'there unmodified']}

CONFIG['C11'] = {'assumptions': ['form-field names, file-field names and file names are free of CR / LF and of non-ASCII bytes (they travel inside a MIME header '
                 'line); declared content types are header-safe ASCII; media types carry no quoted parameter containing ;',
                 'form-field and file-field names are the keys of Go maps: the generator sends distinct names per map',
                 'uploads and reader payloads are well-behaved io.Readers that do not fail (faults are C12); a Read with room delivers at least one '
                 'byte until the data is exhausted',
                 'the random multipart boundary does not occur in the uploaded data (mime/multipart takes the same risk)',
                 'a build or body read that does not finish within 3 s is reported as hang (no input does on the repaired tree; F11d did); once a '
                 'harness process has reported one hang, its later cases are given 300 ms'],
 'go_entry': 'client.(*Runtime).CreateHttpRequest -> client.(*request).buildHTTP (body selection, multipart goroutine, getBody override), '
             'runtime.ClientRequest.GetBody called inside the auth writer',
 'model_fn': 'build (gatePasses / choose / finalHeader / getBody / getBodies / allParts / filePart / readFull / encodeForm / mangleContentType)',
 'partial': ["multipart syntax and content sniffing themselves are the standard library's (parameters of the model): proved is what the client code "
             'hands to them and what it does with the result',
             'recorded, not repaired: F11b (files under the url-encoded media type are sent as multipart under "application/x-www-form-urlencoded; '
             'boundary=..."; the suite pins this), F11c (form fields under a media type that is neither form type are sent url-encoded under that '
             'media type). Repaired: F11d (value payload under multipart/form-data with a producer registered for it: the body was a pipe nobody '
             'writes to; the pipe is now opened only when the multipart goroutine runs, theorem build_never_hangs, and such inputs must satisfy the '
             "Spec like any value payload). Outside the property's quantifier but observed: a value payload under multipart/form-data or "
             'application/x-www-form-urlencoded without a registered producer passes the producer gate and then calls a nil producer (panic); the '
             'model has that outcome (tag value:nil-producer-panic)'],
 'quick_n': 20000,
 'rule': 'one stream B: requests built through CreateHttpRequest from payload kind (nil; string, []byte, struct, map values through the JSON / XML / '
         'text / byte-stream producers, a custom producer and a failing producer; io.Reader as plain reader, *bytes.Buffer, *strings.Reader; '
         'io.ReadCloser) x form data (none; 1-3 form fields with 0-3 values each; 1-2 file fields with 0-3 uploads each; both; payload together with '
         'form data) x media type (JSON, text, XML, octet-stream, url-encoded, multipart/form-data, custom, case variants and variants with '
         'parameters of the two form types, unregistered, empty) x registered producer set (default four, subsets, extras; a media type outside the '
         'set is registered 5 times in 6, multipart/form-data itself 1 time in 2 - a value payload under it goes through that producer or, '
         'unregistered, meets a nil producer) x auth writer (none, or calling GetBody 0, 1, 2-4 times) x method. Field and file-field names from a '
         'pool with quotes, backslashes, spaces, & = ; % + and the empty name; values with & = % + ; CR LF, NUL and high bytes; file names with '
         'directories, trailing slashes, the empty name, /, .., quotes, backslashes, Windows paths; contents text / binary / HTML / XML / magic '
         'numbers (PDF PNG GIF gzip zip BOM JPEG JSON) / text with one binary byte placed around offset 512 / boundary-like bytes, lengths 0, 1-40, '
         '500-530, 0-600, 600-1800; uploads deliver their bytes whole or in reads of at most 1, 2, 3, 7, 64, 100, 511, 512, 513, 1000 bytes, with '
         'io.EOF alongside the last bytes or after them; 1 upload in 4 declares its own ContentType(). Every run first sweeps one sniffed upload of '
         'every length 0-12 and 505-520 (thorough: every length 0-600), text and binary. The outgoing req.Body is drained and, when the header '
         'carries a boundary, read back with mime/multipart (raw parts; Content-Disposition re-parsed with mime.ParseMediaType); raw bodies are also '
         'decoded with url.ParseQuery. A case is trivial (~) when the media type is refused by the producer gate or when a payload is mixed with '
         'form data; distinct = distinct input lines.',
 'search_s': 40,
 'thorough_n': 80000,
 'thorough_seeds': 3,
 'trusted_base': ['reading of the property text into the Lean `Spec` (human step, RtVerif/Model/<id>.lean)',
                  'correspondence check (differential: Go harness /verif/harness -> protocol lines -> compiled Lean driver rtdriver evaluating Model '
                  'and Spec); coverage bounded by the generators',
                  "factgen (go/ast extraction of constants/tables into RtVerif/Gen/Facts.lean) and the driver's line parser",
                  'the registered producers, http.DetectContentType, the boundary chosen by multipart.NewWriter and the serialisation of parts by '
                  'mime/multipart are PARAMETERS of the model (Env), universally quantified in every theorem; the driver instantiates produce and '
                  'sniff with what the real functions returned on the same arguments (the harness calls the producer itself and DetectContentType on '
                  'the true first <=512 bytes and reports the results as oracle fields)',
                  "mime/multipart's reader inverting its writer, and mime.ParseMediaType inverting the Content-Disposition line (the part list of "
                  'the model is compared with what the real reader returns; the literal Content-Disposition value of every file part is compared '
                  "with the model of request.go's fmt.Sprintf + escapeQuotes; the round trip escapeQuotes -> quoted-string reader is a theorem over "
                  'a hand model of mime.consumeValue)',
                  'net/url: Values.Encode and ParseQuery are hand models (GoURL escaping is shared with C10); the Lean ParseQuery is cross-checked '
                  'against the real one on every raw body (tag !QUERY-MODEL on a mismatch), the Lean media-type extraction against '
                  'mime.ParseMediaType (tag !MIME-MODEL)',
                  'filepath.Base is GoPath.base (path.Base; identical on Unix), tied to the real function by stream G of C20 and by every file part '
                  'here',
                  'io.ReadFull / io.Copy / io.MultiReader / io.Pipe are modelled by their contracts (ReadFull as a loop of Reads that each deliver '
                  'at least one byte; the pipe as the byte string the goroutine writes); goroutine scheduling and resource release are C12',
                  'http.NewRequestWithContext keeps the body it is given (bytes.Buffer, or the reader wrapped in NopCloser)']}

# properties not claimed (with the reason) and hook commits in /repo (none so far: no hooks needed)
# built but not yet claimed (with the reason shown in MANIFEST.not_applicable)
CONFIG['C03']['rule'] += (' Stream V (1 case in 20): the exported readers runtime.ReadSingleValue / ReadCollectionValue (request.go) over '
                          'runtime.Values and middleware.RouteParams: 0-4 key/value pairs with repeated and differently-cased keys x 8 collection '
                          'formats; model readSingle / readCollection (last occurrence, then swag.SplitByFormat), theorem readSingle_is_last_occurrence.')
CONFIG['C01']['rule'] += ' Parameter values are read the way handlers read them: RouteParams.Get(name) where the name is unique in the route.'
CONFIG['C05']['rule'] += ' Parameter values of unique names are read through denco.Params.Get(name) (Mux stream: all; Lookup stream: every other one).'
# generator dimensions added by the white-box audit (chosen per case from a checksum of the case's own fields, so cases replay identically)
_WIDE = {
 'C01': 'seven ways to dispatch (NewRouter, RoutesHandler, ServeWithBuilder, RouteInfo/LookupRoute/AllowedMethods, DefaultRouter over a second RoutableAPI, NewRoutableContext+NewOperationExecutor, NewRoutableContextWithAnalyzedSpec); Debug on for 1 description in 8; query strings, absolute-form targets, method-override headers; warm-up requests; methods in any case incl. TRACE/PROPFIND; unclean base paths; 14 more value classes; dot-segment / case / escaped-slash path mutations',
 'C02': 'credentials through 12 authenticator constructors (APIKeyAuth[Ctx] header/query in any spelling, HttpAuthenticator, ScopedAuthenticator, AuthenticatorFunc, BearerAuth[Ctx], BasicAuth[Ctx], BasicAuthRealm); zero-valued principals; a second errors.Error implementation; security.Authorized(); five handler constructors; warm-up requests; up to 6 alternatives',
 'C03': 'query / form spellings, Content-Type with charset / upper case / quoted boundary, bodies of unknown length, forms pre-parsed by an upstream middleware (files spilled to disk), fully escaped path values; a method per declaration (forms also under GET/OPTIONS); four handler constructors; stale targets; a second multipart serialisation; odd names and texts',
 'C04': 'client constructors (New+Transport, NewWithClient, op.Client, EnableConnectionReuse), Submit through the tracing wrappers, contexts, Debug, DefaultAuthentication, scheme lists, static queries, a real httptest.Server for 1 case in 8; body values map/*map/RawMessage/zero struct, text as string/*string/Stringer, streams incl. *os.File; methods as the description spells them; 22 more status codes',
 'C05': 'other lookups on the same Router before, after and (1 case in 8) concurrently; Mux shorthands GET/POST/PUT/HEAD; Params.Get also for absent names; SizeHint presets; one nil-valued record per quarter of the tables; empty table, empty key, duplicate keys, placeholder-first keys, literals of ~270 and ~1025 repetitions, 100-300 keys; parameter texts of 260-280 bytes; C05DA: dump after lookups',
 'C06': 'wire-parsed requests (http.ReadRequest) for a quarter of the cases, chunked framing; one-byte / data+EOF / empty-first readers; consumes/produces declared on the operation, document-wide or both; Debug on; both entry points in either order, ContentType asked first, BindAndValidate asked twice; six handler constructors; methods in mixed case; stream R with seven methods and more parameter kinds',
 'C07': 'ParseAccept under other field names with decoys, nil Header map, wire-parsed requests, earlier negotiations on the same request; offers "", */*, text/*, capitals, q-parameters, lists of 5-12; q spellings 1.000/1./0./1.5/2/00.5; quoted parameters with escapes (closed, unclosed, ending in a backslash); lines of 8-37 ranges; totality stream T with valid dates and nil headers',
 'C08': 'other requests served first; six handler constructors; NewRequest / httptest / wire-parsed requests; equivalent Authorization spellings; a response writer freezing its header at the first write; Debug on; BasicAuth / BasicAuthCtx / BasicAuthRealmCtx; middleware.Error with header maps and odd payloads; more plain values; PATCH and OPTIONS; the error responder set before or after the handler exists',
 'C09': 'variant bits: NewContext vs NewRoutableContext, debug logging, server-shaped requests (RawPath, Content-Length, context values, chunked body reads), a foreign request through all accessors between instructions; second and third askers with their own routes; non-string and zero principals; PATCH(204) and HEAD operations; stream R over six handler constructors',
 'C10': 'four ways per case (CreateHttpRequest on a fresh or used Runtime, Submit through Runtime.Transport, NewWithClient+Submit with op.Client/op.Context; query credentials from AuthInfo or DefaultAuthentication) that must agree; any of the 256 bytes in values; names differing in case; placeholders in the base path; seven host spellings',
 'C11': 'three ways to the request (fresh Runtime, long-lived Runtime, Submit); media type from ConsumesMediaTypes / DefaultMediaType / a list with empty entries; auth as AuthInfo or DefaultAuthentication; writer order reversed; everything set twice; payload readers with small reads, positioned, *bytes.Buffer/*strings.Reader past a prefix, real files; uploads with Len/Seek/WriteTo, real positioned files, failing Close',
 'C12': 'stream D through four ways to the draining body; stream F: op.Client, a Runtime that has completed an exchange before, DefaultAuthentication, SetTimeout not called for the default, value-carrying contexts, seven methods, buffered payload kinds, statuses 200-503, Content-Type spellings; long (filled-buffer) responses; one-shot source errors; Debug-dump plans',
 'C13': 'flag letters for seven methods, bodies of unknown length / one byte per read / data+EOF / nil, EnableConnectionReuse, SetResponseReader, SetDebug, tracing wrappers, nil Transport, nil registry; any status 0..999; race stream with GOMAXPROCS 1/2/4, Debug, default media type, shared/private clients and contexts',
 'C14': 'methods HEAD/OPTIONS/TRACE/QUERY and lower-case spellings; a third of the requests through Submit into a recording RoundTripper; nested Compose; writers and authenticators already used once; six kinds of foreign parameter; static query parameters (base path, pattern, both) clashing with query credentials; context readers cross-checked',
 'C15': 'codecs already used; ClosesStream twice; real readers/writers (bytes.Reader, strings.Reader, bytes.Buffer, bufio.Reader, *os.File, strings.Builder); nil vs empty slices; stream J with reuse, Write-only writers, chunking readers, shapes map/list/scalar/pdoc/wrap/nmap/hdoc; stream Y with shorter/longer/empty later payloads; source kinds answering MarshalText/Error()/String() differently; contents opening with a byte order mark',
 'C16': 'option lists with zero-valued options left out, given earlier with other values, permuted, ClosesStream twice; real readers and sinks incl. *os.File; more interface combinations; nil tables; named destination types; skip counts up to ~10^6; texts opening with U+FEFF; storage shared beyond a record\'s length looked for',
 'C17': '15 method spellings; nil Header map, several Content-Length lines; TransferEncoding variants; bare or fully populated requests (Expect, Accept…); GetBody set; WithContext/Clone between ops; bodies with Len(), struct-of-Reader-and-Closer, NoBody, NopCloser; wrapped / net-like terminal errors; odd read buffers; io.Copy drains; warm-up and twin requests; lengths up to 2^63-1, malformed length headers',
 'C18': 'key files PKCS#1/SEC1/PKCS#8 with bag attributes and CRLF; noisy certificate and CA files; unreadable = missing / directory / NUL in the name; garbage in six forms; loaded certificates and keys as same pointer / copies / Raw-only; unsupported keys in six forms; invalid and incomplete RSA/EC keys (F18b); pools built three ways; earlier calls with other options; server names in other case, IP literals, IDN, 254 bytes',
 'C19': 'security definitions apiKey(header/query)/basic/oauth2 with scopes; descriptions with host, schemes, tags, extensions; JSON defaults flipped in several orders; noise on the API object; Register* calls in any order of kinds, in two phases with Validate in between; six handler entry points; form media types in the pool; near-miss superfluous registrations and substitutions; 3-4 alternatives',
 'C20': 'requests with query, fragment, RawPath and more headers; 0-2 warm-up requests; EnsureDefaults run beforehand; all asset locations set or defaulted; hostile values in every URL option; nil / over-long / indented / 3-73 KB documents; Serve and ServeWithBuilder; WithTemplate; a nil Builder; methods PATCH/TRACE/CONNECT/""',
}
for _k, _v in _WIDE.items():
    CONFIG[_k]['rule'] = CONFIG[_k].get('rule', '') + ' WIDENED (white-box audit): ' + _v + '.'
# sub-checks: flows modelled under another property, run (and reported) under this one as well
CONFIG['C04']['also'] = ['C03', 'C13']   # typed parameters: what the handler gets for a number/integer text is C03's model (C04-m5); the response's way to the caller's reader is C13's (C04-m8)
CONFIG['C01']['also'] = ['C09']   # the same dispatch under concurrent requests (shared lookup state) is C09's stream R / -race tier (C01-m7)
CONFIG['C20']['rule'] += ' TITLE CLAUSE (round 9): on every page of a built-in template (streams M and H) the title shown — the text of the title element, un-escaped once by the harness — must be the title option (API title, or the default when empty): a value escaped twice fails like one not escaped (Spec specUITitle / specHandlerTitle; theorems ui_mw_page_title, handlerUIOpts_title, handler_meets_title_spec).'

# C12 observes the wall clock (deadlines of a few hundred ms): a failing case counts only if it fails again alone
CONFIG['C12']['wallclock'] = True
CONFIG['C12']['assumptions'] = CONFIG['C12'].get('assumptions', []) + ['a case whose Spec verdict fails is executed three more times alone; it is reported if any of them fails again, and listed under coverage.not_reproduced otherwise (lateness measured by the wall clock on a loaded machine)']

PENDING = {"C05DA"}   # C05DA is a sub-check of C05 ("also"), never claimed on its own
NOT_APPLICABLE = {}
HOOK_COMMITS = ["dd54fd898b621ffdd89b1e68324b7617730e9ca3"]
