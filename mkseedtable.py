#!/usr/bin/env python3
"""Rewrite the table of seeded changes in DESIGN.md (between the SEEDED markers) from seeded/*/meta.json."""
import json, glob, os, re
ROOT = os.path.dirname(os.path.abspath(__file__))
rows = []
for d in sorted(glob.glob(os.path.join(ROOT, "seeded", "*"))):
    m = json.load(open(os.path.join(d, "meta.json")))
    rows.append("| %s | %s | %s | %s |" % (os.path.basename(d), m["breaks_property"], m["needs_to_manifest"].replace("|", "\\|"), m["result"].replace("|", "\\|")))
table = "| seeded change | property | needs, in order to manifest | `./check <property>` |\n|---|---|---|---|\n" + "\n".join(rows) + "\n"
p = os.path.join(ROOT, "DESIGN.md")
s = open(p).read()
s = re.sub(r"<!-- SEEDED-BEGIN -->.*?<!-- SEEDED-END -->", "<!-- SEEDED-BEGIN -->\n" + table + "<!-- SEEDED-END -->", s, flags=re.S)
open(p, "w").write(s)
print(len(rows), "rows")
