#!/usr/bin/env python3
"""mkcounts.py : refresh the 'theorems' column of DESIGN.md §12.2 from evidence/Cxx.json (the property's own obligations counted by the audit, sub-checks not included)."""
import json, re
s = open('/verif/DESIGN.md').read()
def repl(m):
    pid = m.group(1)
    try:
        c = json.load(open(f'/verif/evidence/{pid}.json'))['coverage']
        n = c['obligations'] - sum(x.get('obligations') or 0 for x in c.get('sub_checks', []))
    except Exception:
        return m.group(0)
    return f'| {pid} | {n} |'
i = s.index('### 12.2'); j = s.index('### 12.3')
s = s[:i] + re.sub(r'^\| (C\d\d) \| \d+ \|', repl, s[i:j], flags=re.M) + s[j:]
open('/verif/DESIGN.md', 'w').write(s)
