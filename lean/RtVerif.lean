import RtVerif.Base.Bytes
import RtVerif.Base.Verdict
import RtVerif.Gen.Facts
import RtVerif.Model.C07
import RtVerif.Model.C05
import RtVerif.Model.C18
