import RtVerif.Lemmas.C05DALookup
import RtVerif.Lemmas.C05DASibs
/-  C05DA, part 4: `build` establishes the abstract invariant.

    Ownership discipline of the double array, as the proof sees it:
    * an element is *allocated* (`Alloc`) when it is the root or carries a CHECK; everything else is
      untouched (`Inv.fresh`) — that is what `isFree` tests;
    * the CHECK `c` of an allocated element `s` names its owner: `s xor c` is the BASE of its parent,
      and that BASE is in `usedBase` (`Inv.owner`).  `findBase` only hands out a BASE that is not in
      `usedBase`, so two nodes never share a BASE, and no element is ever taken for the child of a
      node it does not belong to;
    * a `build` call writes to its own element `idx` and to unallocated elements only (`Ext`). -/
namespace RtVerif.C05DA
open RtVerif Bytes
open RtVerif.C05 (Rec cParam cWild cTerm cSep isReserved notKeySep notPathSep sortRecs advLit advSingle
  advWild leafOf hasSingle weight NulFree)

/-- the element `s` is in use: it is the root, or some edge leads to it -/
def Alloc (bc : BC) (s : Nat) : Prop := s = rootIndex ∨ (el bc s).check ≠ 0

structure Inv (st : St) : Prop where
  /-- the CHECK of an element names a BASE that has been handed out -/
  owner : ∀ s, (el st.bc s).check ≠ 0 → nextIndex s (el st.bc s).check ∈ st.used
  /-- elements not in use are untouched -/
  fresh : ∀ s, ¬Alloc st.bc s → el st.bc s = {}

theorem not_alloc_of_isFree {bc : BC} {s : Nat} (h : isFree bc s = true) : ¬Alloc bc s := by
  unfold isFree Elem.isEmpty at h
  simp only [Bool.and_eq_true, bne_iff_ne, ne_eq, beq_iff_eq] at h
  rintro (h1 | h1)
  · exact h.1 h1
  · exact h1 h.2.2

/-- how a `build` call (or a sequence of them) whose own elements are `P` may change the state -/
structure Ext (P : Nat → Prop) (st st' : St) : Prop where
  keep : ∀ s, Alloc st.bc s → ¬P s → el st'.bc s = el st.bc s
  chk : ∀ s, (el st'.bc s).check ≠ (el st.bc s).check →
    ¬Alloc st.bc s ∧ nextIndex s (el st'.bc s).check ∉ st.used
  used : ∀ b ∈ st.used, b ∈ st'.used
  size : st.bc.size ≤ st'.bc.size
  nodes : ∀ i, i < st.node.size → st'.node[i]? = st.node[i]?
  nsize : st.node.size ≤ st'.node.size

theorem Ext.refl (P : Nat → Prop) (st : St) : Ext P st st :=
  ⟨fun _ _ _ => rfl, fun _ h => absurd rfl h, fun _ h => h, Nat.le_refl _, fun _ _ => rfl, Nat.le_refl _⟩

theorem Ext.check_eq {P : Nat → Prop} {st st' : St} (h : Ext P st st') {s : Nat} (ha : Alloc st.bc s) :
    (el st'.bc s).check = (el st.bc s).check := by
  apply Classical.byContradiction
  intro hne
  exact (h.chk s hne).1 ha

theorem Ext.alloc {P : Nat → Prop} {st st' : St} (h : Ext P st st') {s : Nat} (ha : Alloc st.bc s) :
    Alloc st'.bc s := by
  rcases ha with h1 | h1
  · exact Or.inl h1
  · right; rw [h.check_eq (Or.inr h1)]; exact h1

theorem Ext.trans {P Q : Nat → Prop} {st st1 st2 : St} (h1 : Ext P st st1) (h2 : Ext Q st1 st2) :
    Ext (fun s => P s ∨ Q s) st st2 := by
  constructor
  · intro s ha hp
    rw [h2.keep s (h1.alloc ha) (fun hq => hp (Or.inr hq)), h1.keep s ha (fun hq => hp (Or.inl hq))]
  · intro s hne
    by_cases h12 : (el st2.bc s).check = (el st1.bc s).check
    · rw [h12] at hne ⊢
      exact h1.chk s hne
    · obtain ⟨hna1, hnu1⟩ := h2.chk s h12
      have hna : ¬Alloc st.bc s := fun ha => hna1 (h1.alloc ha)
      refine ⟨hna, fun hu => hnu1 (h1.used _ hu)⟩
  · intro b hb; exact h2.used b (h1.used b hb)
  · exact Nat.le_trans h1.size h2.size
  · intro i hi
    rw [h2.nodes i (Nat.lt_of_lt_of_le hi h1.nsize), h1.nodes i hi]
  · exact Nat.le_trans h1.nsize h2.nsize

theorem Ext.weaken {P P' : Nat → Prop} {st st' : St} (h : Ext P st st')
    (hp : ∀ s, Alloc st.bc s → P s → P' s) : Ext P' st st' :=
  ⟨fun s ha hnp => h.keep s ha (fun hps => hnp (hp s ha hps)), h.chk, h.used, h.size, h.nodes, h.nsize⟩

/-! ### the invariant with its footprint -/

/-- `Repr` for a build state, recording in addition that every element of the subtree is allocated
and satisfies `S` (the footprint), and that the BASE of every inner node has been handed out. -/
inductive ReprOn (S : Nat → Prop) (st : St) : Nat → List Rec → Prop
  | leaf (idx : Nat) (rs : List Rec) (r : Rec) :
      S idx → Alloc st.bc idx → idx < st.bc.size → (∀ x ∈ rs, x.key = []) → leafOf rs = some r →
      C05.hasDup r.names = false →
      st.node[(el st.bc idx).base]? = some (some ⟨r.names, r.val⟩) → ReprOn S st idx rs
  | inner (idx : Nat) (rs : List Rec) :
      S idx → Alloc st.bc idx → idx < st.bc.size → rs ≠ [] → (∀ x ∈ rs, x.key ≠ []) →
      (el st.bc idx).base ∈ st.used →
      (el st.bc idx).single = hasSingle rs →
      (el st.bc idx).wild = !(advWild rs).isEmpty →
      (∀ c : UInt8, c ≠ 0 → childOf c rs = [] → (el st.bc (nextIndex (el st.bc idx).base c)).check ≠ c) →
      (∀ c : UInt8, c ≠ 0 → childOf c rs ≠ [] → (el st.bc (nextIndex (el st.bc idx).base c)).check = c) →
      (∀ c : UInt8, c ≠ 0 → childOf c rs ≠ [] →
        ReprOn S st (nextIndex (el st.bc idx).base c) (childOf c rs)) →
      ReprOn S st idx rs

theorem ReprOn.toRepr {S : Nat → Prop} {st : St} {idx : Nat} {rs : List Rec}
    (h : ReprOn S st idx rs) : Repr st.bc st.node idx rs := by
  induction h with
  | leaf idx rs r _ _ hlt hk hl _ hn => exact Repr.leaf idx rs r hlt hk hl hn
  | inner idx rs _ _ hlt hne hk _ hs hw hno hyes _ ih =>
    exact Repr.inner idx rs hlt hne hk hs hw hno hyes ih

theorem ReprOn.mono {S S' : Nat → Prop} {st : St} {idx : Nat} {rs : List Rec}
    (h : ReprOn S st idx rs) (hs : ∀ s, S s → S' s) : ReprOn S' st idx rs := by
  induction h with
  | leaf idx rs r h1 ha hlt hk hl hd hn => exact ReprOn.leaf idx rs r (hs _ h1) ha hlt hk hl hd hn
  | inner idx rs h1 ha hlt hne hk hb hsi hw hno hyes _ ih =>
    exact ReprOn.inner idx rs (hs _ h1) ha hlt hne hk hb hsi hw hno hyes ih

/-- Later `build` calls that stay off the footprint leave the representation intact. -/
theorem ReprOn.stable {S P : Nat → Prop} {st st' : St} {idx : Nat} {rs : List Rec}
    (h : ReprOn S st idx rs) (he : Ext P st st') (hsp : ∀ s, S s → ¬P s) : ReprOn S st' idx rs := by
  induction h with
  | leaf idx rs r h1 ha hlt hk hl hd hn =>
    have heq := he.keep idx ha (hsp _ h1)
    refine ReprOn.leaf idx rs r h1 (he.alloc ha) (Nat.lt_of_lt_of_le hlt he.size) hk hl hd ?_
    rw [heq]
    have hlt' : (el st.bc idx).base < st.node.size := by
      apply Classical.byContradiction
      intro hge
      rw [Array.getElem?_eq_none (by omega)] at hn
      cases hn
    rw [he.nodes _ hlt', hn]
  | inner idx rs h1 ha hlt hne hk hb hsi hw hno hyes _ ih =>
    have heq := he.keep idx ha (hsp _ h1)
    refine ReprOn.inner idx rs h1 (he.alloc ha) (Nat.lt_of_lt_of_le hlt he.size) hne hk ?_ ?_ ?_ ?_ ?_ ?_
    · rw [heq]; exact he.used _ hb
    · rw [heq]; exact hsi
    · rw [heq]; exact hw
    · intro c hc hnil
      rw [heq]
      intro hcc
      by_cases hsame : (el st'.bc (nextIndex (el st.bc idx).base c)).check =
          (el st.bc (nextIndex (el st.bc idx).base c)).check
      · rw [hsame] at hcc; exact hno c hc hnil hcc
      · have := (he.chk _ hsame).2
        rw [hcc, nextIndex_cancel] at this
        exact this hb
    · intro c hc hnn
      rw [heq]
      have hcc := hyes c hc hnn
      rw [he.check_eq (Or.inr (by rw [hcc]; exact hc)), hcc]
    · intro c hc hnn
      rw [heq]
      exact ih c hc hnn

/-! ### `findBase`: the postcondition of the allocator -/

theorem tryBase_spec (base : Nat) : ∀ (cs : List UInt8) (bc : BC),
    (∀ s, el (tryBase base cs bc).1 s = el bc s) ∧ bc.size ≤ (tryBase base cs bc).1.size ∧
    ((tryBase base cs bc).2 = true → ∀ c ∈ cs, isFree bc (nextIndex base c) = true ∧
      nextIndex base c < (tryBase base cs bc).1.size) := by
  intro cs
  induction cs with
  | nil => intro bc; simp [tryBase]
  | cons c cs ih =>
    intro bc
    rw [tryBase]
    split
    · rename_i hfree
      obtain ⟨h1, h2, h3⟩ := ih (grow bc (nextIndex base c))
      refine ⟨fun s => by rw [h1, el_grow], Nat.le_trans (size_le_grow _ _) h2, ?_⟩
      intro hok c' hc'
      rcases List.mem_cons.mp hc' with rfl | hc'
      · refine ⟨?_, Nat.lt_of_lt_of_le (lt_size_grow _ _) h2⟩
        rw [← isFree_congr (el_grow bc (nextIndex base c'))]; exact hfree
      · obtain ⟨hf, hl⟩ := h3 hok c' hc'
        exact ⟨by rw [← isFree_congr (el_grow bc (nextIndex base c))]; exact hf, hl⟩
    · refine ⟨fun s => el_grow _ _ _, size_le_grow _ _, ?_⟩
      intro h; cases h

/-- What `findBase` guarantees about the BASE it returns: it has not been handed out before, and
the places of all siblings are unused; the array has only been lengthened by unused elements. -/
theorem findBaseLoop_spec (used : List Nat) (first : UInt8) (cs : List UInt8) :
    ∀ (fuel idx : Nat) (bc bc' : BC) (base : Nat),
      findBaseLoop used first cs fuel idx bc = some (bc', base) →
      (∀ s, el bc' s = el bc s) ∧ bc.size ≤ bc'.size ∧ base ∉ used ∧
      ∀ c ∈ cs, isFree bc (nextIndex base c) = true ∧ nextIndex base c < bc'.size := by
  intro fuel
  induction fuel with
  | zero => intro idx bc bc' base h; simp [findBaseLoop] at h
  | succ f ih =>
    intro idx bc bc' base h
    rw [findBaseLoop] at h
    simp only at h
    split at h
    · exact ih _ _ _ _ h
    · rename_i hnu
      obtain ⟨t1, t2, t3⟩ := tryBase_spec (nextIndex idx first) cs bc
      split at h
      · rename_i hok
        simp only [Option.some.injEq, Prod.mk.injEq] at h
        obtain ⟨rfl, rfl⟩ := h
        refine ⟨t1, t2, ?_, t3 hok⟩
        intro hm
        apply hnu
        simp [hm]
      · obtain ⟨h1, h2, h3, h4⟩ := ih _ _ _ _ h
        refine ⟨fun s => by rw [h1, t1], Nat.le_trans t2 h2, h3, ?_⟩
        intro c hc
        obtain ⟨hf, hl⟩ := h4 c hc
        exact ⟨by rw [← isFree_congr t1]; exact hf, hl⟩

theorem findBase_spec {bc bc' : BC} {used : List Nat} {cs : List UInt8} {start base : Nat}
    (h : findBase bc used cs start = some (bc', base)) :
    (∀ s, el bc' s = el bc s) ∧ bc.size ≤ bc'.size ∧ base ∉ used ∧
      ∀ c ∈ cs, isFree bc (nextIndex base c) = true ∧ nextIndex base c < bc'.size := by
  unfold findBase at h
  split at h
  · cases h
  · exact findBaseLoop_spec _ _ _ _ _ _ _ _ h

/-! ### `setCheck` over the siblings -/

theorem setChecks_spec (base : Nat) : ∀ (sibs : List Sib) (bc bc' : BC),
    setChecks base sibs bc = .ok bc' → (sibs.map (·.c)).Nodup →
    bc'.size = bc.size ∧
    (∀ s ∈ sibs, nextIndex base s.c < bc.size ∧
      el bc' (nextIndex base s.c) = (el bc (nextIndex base s.c)).setCheck s.c) ∧
    (∀ x, (∀ s ∈ sibs, x ≠ nextIndex base s.c) → el bc' x = el bc x) := by
  intro sibs
  induction sibs with
  | nil =>
    intro bc bc' h _
    simp only [setChecks, Except.ok.injEq] at h
    subst h
    simp
  | cons s t ih =>
    intro bc bc' h hnd
    rw [setChecks] at h
    simp only [List.map_cons, List.nodup_cons] at hnd
    split at h
    · rename_i hlt
      obtain ⟨h1, h2, h3⟩ := ih _ _ h hnd.2
      rw [size_upd] at h1
      refine ⟨h1, ?_, ?_⟩
      · intro s' hs'
        rcases List.mem_cons.mp hs' with rfl | hs'
        · refine ⟨hlt, ?_⟩
          rw [h3 _ (fun s'' hs'' heq => hnd.1 (by
            rw [nextIndex_inj heq]; exact List.mem_map.mpr ⟨s'', hs'', rfl⟩))]
          rw [el_upd]; simp [hlt]
        · obtain ⟨hl, he⟩ := h2 s' hs'
          rw [size_upd] at hl
          refine ⟨hl, ?_⟩
          rw [he, el_upd]
          have : ¬(nextIndex base s.c = nextIndex base s'.c ∧ nextIndex base s'.c < bc.size) := by
            rintro ⟨heq, _⟩
            exact hnd.1 (by rw [nextIndex_inj heq]; exact List.mem_map.mpr ⟨s', hs', rfl⟩)
          rw [if_neg this]
      · intro x hx
        rw [h3 x (fun s' hs' => hx s' (List.mem_cons_of_mem _ hs')), el_upd]
        have : ¬(nextIndex base s.c = x ∧ x < bc.size) := by
          rintro ⟨heq, _⟩
          exact hx s List.mem_cons_self heq.symm
        rw [if_neg this]
    · cases h

end RtVerif.C05DA
