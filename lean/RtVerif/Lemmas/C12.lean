import RtVerif.Model.C12
/-
  Helper lemmas for C12: the scripted body and `drainingReadCloser` (part D); the invariants and
  the termination measure of the call LTS (part F).
-/
namespace RtVerif.C12
open RtVerif

/-! ## Regenerated facts the proofs rely on (they fail first, and fast, when the code changes) -/

theorem fact_eof_only : Facts.c12MarkOnZero = false := by decide
theorem fact_timeout_zero : Facts.c12TimeoutZeroMeansNone = true := by decide
theorem fact_release : Facts.c12ReleaseOnError = true := by decide
theorem fact_defer : Facts.c12FilesDeferFirst = true := by decide
theorem fact_defers_submit : Facts.c12DefersCancelAndClose = true := by decide

/-! ## Part D -/

theorem amount_le (b : Option Beh) (k a : Nat) : amount b k a ≤ a := by
  unfold amount; split <;> omega

theorem amount_none_pos (k a : Nat) (hk : 0 < k) (ha : 0 < a) : 0 < amount none k a := by
  simp only [amount]; omega

theorem read_closes (u : Under) (k : Nat) :
    (u.read k).1.closes = u.closes ∧ (u.read k).1.endAtClose = u.endAtClose ∧ (u.read k).1.term = u.term := by
  unfold Under.read; simp only []; split
  · simp
  · split <;> simp

/-- a read that reports the terminal leaves the body at its end -/
theorem read_err_atEnd (u : Under) (k : Nat) (h : (u.read k).2.err.isSome) :
    (u.read k).1.atEnd = true ∧ (u.read k).1.rest = [] := by
  unfold Under.read at *; simp only [] at *; split
  · rename_i he; simp at he; simp [he]
  · rename_i he; split
    · rename_i hc
      simp only [Bool.and_eq_true, decide_eq_true_eq, beq_iff_eq] at hc
      simp [hc.2]
    · rename_i hc; rw [if_neg he, if_neg hc] at h; simp at h

/-- the end, once reached, stays reached -/
theorem read_atEnd_mono (u : Under) (k : Nat) (h : u.atEnd = true → u.rest = []) :
    (u.atEnd = true → (u.read k).1.atEnd = true) ∧ ((u.read k).1.atEnd = true → (u.read k).1.rest = []) := by
  unfold Under.read; simp only []; split
  · rename_i he; simp at he; simp [he]
  · rename_i he; split
    · rename_i hc
      simp only [Bool.and_eq_true, decide_eq_true_eq, beq_iff_eq] at hc
      simp [hc.2]
    · constructor
      · intro ha; simp [h ha] at he
      · intro ha; simp at ha; simp [h ha] at he

/-- a read without error makes progress on (schedule, data) when the buffer is not empty -/
theorem read_progress (u : Under) (k : Nat) (hk : 0 < k) (h : (u.read k).2.err.isSome = false) :
    (u.read k).1.sched.length + (u.read k).1.rest.length < u.sched.length + u.rest.length := by
  unfold Under.read at *; simp only [] at *; split
  · rename_i he; rw [if_pos he] at h; simp at h
  · rename_i he
    have hr : 0 < u.rest.length := by
      cases hrr : u.rest with
      | nil => simp [hrr] at he
      | cons a t => simp
    have key : (u.sched.tail).length + (u.rest.drop (amount u.sched.head? k u.rest.length)).length
        < u.sched.length + u.rest.length := by
      cases hs : u.sched with
      | nil =>
        have := amount_none_pos k u.rest.length hk hr
        simp [List.length_drop]; omega
      | cons b t => simp [List.length_drop]; omega
    split <;> simpa using key

theorem drainFuel_spec : ∀ (f : Nat) (u : Under), u.sched.length + u.rest.length < f →
    (drainFuel f u).atEnd = true ∧ (drainFuel f u).rest = [] ∧ (drainFuel f u).closes = u.closes
      ∧ (drainFuel f u).endAtClose = u.endAtClose := by
  intro f
  induction f with
  | zero => intro u h; omega
  | succ f ih =>
    intro u h
    unfold drainFuel; simp only []
    have hc := read_closes u 8192
    split
    · rename_i he
      have := read_err_atEnd u 8192 he
      exact ⟨this.1, this.2, hc.1, hc.2.1⟩
    · rename_i he
      have hp := read_progress u 8192 (by decide) (by simpa using he)
      have := ih (u.read 8192).1 (by omega)
      exact ⟨this.1, this.2.1, by rw [this.2.2.1, hc.1], by rw [this.2.2.2, hc.2.1]⟩

theorem drain_spec (u : Under) :
    (drain u).atEnd = true ∧ (drain u).rest = [] ∧ (drain u).closes = u.closes ∧ (drain u).endAtClose = u.endAtClose :=
  drainFuel_spec _ u (by omega)

/-- invariant of the wrapper for the repaired condition (`err == io.EOF`) -/
def DInv (d : Drc) : Prop := (d.u.atEnd = true → d.u.rest = []) ∧ (d.seenEOF = true → d.u.atEnd = true)

theorem dread_inv (d : Drc) (k : Nat) (h : DInv d) : DInv (d.read false k).1 := by
  obtain ⟨h1, h2⟩ := h
  have hm := read_atEnd_mono d.u k h1
  refine ⟨by simpa [Drc.read] using hm.2, ?_⟩
  simp only [Drc.read, markEnd, Bool.false_and, Bool.or_false, Bool.or_eq_true, beq_iff_eq]
  rintro (hs | he)
  · exact hm.1 (h2 hs)
  · exact (read_err_atEnd d.u k (by simp [he])).1

theorem dread_closes (onZero : Bool) (d : Drc) (k : Nat) :
    (d.read onZero k).1.u.closes = d.u.closes ∧ (d.read onZero k).2 = (d.u.read k).2 := by
  simp [Drc.read, (read_closes d.u k).1]

theorem dreads_inv : ∀ (ks : List Nat) (d : Drc), DInv d →
    DInv (Drc.reads false d ks).1 ∧ (Drc.reads false d ks).1.u.closes = d.u.closes := by
  intro ks
  induction ks with
  | nil => intro d h; exact ⟨h, rfl⟩
  | cons k ks ih =>
    intro d h
    have := ih (d.read false k).1 (dread_inv d k h)
    simp only [Drc.reads]
    exact ⟨this.1, by rw [this.2, (dread_closes false d k).1]⟩

theorem close_spec (d : Drc) (h : DInv d) (hc : d.u.closes = 0) :
    d.close.closes = 1 ∧ d.close.endAtClose = true ∧ d.close.rest = [] := by
  unfold Drc.close
  split
  · rename_i hs
    have ha := h.2 hs
    simp [Under.close, hc, ha, h.1 ha]
  · have := drain_spec d.u
    simp [Under.close, this.1, this.2.1, this.2.2.1, hc]

/-- reading the underlying body directly with the same buffer sizes -/
def Under.reads : Under → List Nat → Under × List RdRes
  | u, [] => (u, [])
  | u, k :: ks =>
    let r := u.read k
    let rs := Under.reads r.1 ks
    (rs.1, r.2 :: rs.2)

theorem dreads_transparent (onZero : Bool) : ∀ (ks : List Nat) (d : Drc),
    (Drc.reads onZero d ks).2 = (Under.reads d.u ks).2 ∧ (Drc.reads onZero d ks).1.u = (Under.reads d.u ks).1 := by
  intro ks
  induction ks with
  | nil => intro d; simp [Drc.reads, Under.reads]
  | cons k ks ih =>
    intro d
    have := ih (d.read onZero k).1
    simp only [Drc.reads, Under.reads]
    have hu : (d.read onZero k).1.u = (d.u.read k).1 := by simp [Drc.read]
    rw [hu] at this
    exact ⟨by rw [this.1, (dread_closes onZero d k).2], this.2⟩

theorem read_conserves (u : Under) (k : Nat) : (u.read k).2.out ++ (u.read k).1.rest = u.rest := by
  unfold Under.read; simp only []; split
  · rename_i he; simp at he; simp [he]
  · split <;> simp

theorem reads_conserve : ∀ (ks : List Nat) (u : Under),
    (Under.reads u ks).2.flatMap (·.out) ++ (Under.reads u ks).1.rest = u.rest := by
  intro ks
  induction ks with
  | nil => intro u; simp [Under.reads]
  | cons k ks ih =>
    intro u
    simp only [Under.reads, List.flatMap_cons, List.append_assoc]
    rw [ih, read_conserves]


/-! ## Part F — invariants of the call LTS -/

def midBody (ph : Ph) : Bool := ph == .await || ph == .reading || ph == .draining || ph == .closing
def preSend (ph : Ph) : Bool := ph == .start || ph == .choose || ph == .auth || ph == .authCopy || ph == .url

/-- "the complete response was obtained", as far as the reader asked for it: the reader reported no
error, and a reader that reads until the end has seen the end of the body -/
def complete (p : Plan) (s : St) : Prop :=
  p.readerErr = false ∧ (p.readN = none → p.rterm = .eof ∧ s.bodyLeft = 0)

structure Inv (p : Plan) (s : St) : Prop where
  pipe_g : s.pr = .none ↔ s.g = .idle
  nowriter : p.startsWriter = false → s.g = .idle
  early0 : pre s.ph = true → s.g = .idle ∧ s.fileCloses = 0 ∧ s.streamCloses = 0 ∧ s.bodyInBuf = false
            ∧ s.streamLeft = 0 ∧ s.bufLeft = 0
  idleW : s.g = .idle → p.startsWriter = true → pre s.ph = true ∨ s.res = some .writer
  writerRes : s.res = some .writer → s.fileCloses = 1 ∧ s.g = .idle
  filesRun : ∀ t, s.g = .run t → s.fileCloses = 0
  filesDone : (s.g = .trailer ∨ s.g = .done) → s.fileCloses = 1
  retPipe : (midBody s.ph = true ∨ s.ph = .returned) → s.pr ≠ .open
  aliveNotPast : s.g.alive = true → midBody s.ph = false ∧ s.haveResp = false ∧ s.bodyInBuf = false
  srcF : s.srcFailed = true → s.haveResp = false ∧ midBody s.ph = false ∧
          (s.ph = .returned ∨ (s.pwErr = true ∧ s.g = .done ∧ s.bodyInBuf = false))
  copyPh : s.ph = .authCopy → s.bodyInBuf = false
  stream : p.streamSrc.isSome = true →
          s.streamCloses = (if s.bodyInBuf || midBody s.ph || s.ph == .returned then 1 else 0)
  respPh : (s.ph = .reading ∨ s.ph = .draining ∨ s.ph = .closing) → s.haveResp = true
  respPre : s.haveResp = true → s.ph = .reading ∨ s.ph = .draining ∨ s.ph = .closing ∨ s.ph = .returned
  noResp : s.haveResp = false → s.bodyLeft = 0
  bc0 : (s.ph ≠ .returned ∨ s.haveResp = false) → s.bodyCloses = 0
  bc1 : s.ph = .returned → s.haveResp = true → s.bodyCloses = 1 ∧ (p.reuse = true → s.endAtClose = true)
  eofEnd : s.seenEOF = true → s.bodyAtEnd = true
  closingEnd : s.ph = .closing → p.reuse = true → s.bodyAtEnd = true
  rl : s.ph = .reading → p.readN = none → s.readLeft = none
  pendOk : (s.ph = .draining ∨ s.ph = .closing) → s.pending = .none → complete p s
  okRes : s.res = some .none → s.haveResp = true ∧ complete p s
  resNone : s.res = none ↔ s.ph ≠ .returned
  rel : s.ph = .returned → s.entered = true → s.released = true
  ent : s.entered = true → preSend s.ph = false
  buf1 : s.bufLeft ≤ 1
  inBuf : s.bodyInBuf = true → s.g.alive = false ∧ s.pr ≠ .open
  pend : s.pending = .none ∨ s.pending = .reader ∨ s.pending = .bodyRead

theorem wf_stream {p : Plan} (h : p.WF) (hs : p.streamSrc.isSome = true) : p.startsWriter = false := by
  have : p.payload ≠ .none := by
    intro hp; simp [Plan.streamSrc, hp] at hs
  obtain ⟨h1, h2, h3⟩ := h this
  simp [Plan.startsWriter, Plan.hasFormOrFiles, h1, h2]

theorem wf_files {p : Plan} (hf : p.files ≠ []) : p.startsWriter = true := by
  cases hfl : p.files with
  | nil => exact absurd hfl hf
  | cons a t => simp [Plan.startsWriter, Plan.hasFormOrFiles, Plan.isMP, hfl]

syntax "inv_close" : tactic
macro_rules
  | `(tactic| inv_close) => `(tactic|
      (constructor <;>
        simp_all [ret, release, closeReqBody, finish, failDo, gFail, readerReturn, fact_release, fact_defer,
          pre, midBody, preSend, G.alive, complete]))

theorem inv_init (p : Plan) : Inv p (init p) := by
  constructor <;> simp [init, pre, midBody, preSend, G.alive]

theorem inv_mStart {p : Plan} {s s' : St} (hI : Inv p s) (hph : s.ph = .start) (h : s' ∈ mStart p s) :
    Inv p s' := by
  obtain ⟨h1, h2, h3, h4, h5, h6, h7, h8, h9, h10, h11, h12, h13, h14, h15, h16, h17, h18, h19, h20, h21, h22, h23, h24, h25, h26, h27, h28⟩ := hI
  simp only [mStart] at h
  split at h <;> simp only [List.mem_singleton] at h <;> subst h <;> inv_close

set_option maxHeartbeats 2000000 in
theorem inv_mChoose {p : Plan} {s s' : St} (hwf : p.WF) (hI : Inv p s) (hph : s.ph = .choose) (h : s' ∈ mChoose p s) :
    Inv p s' := by
  obtain ⟨h1, h2, h3, h4, h5, h6, h7, h8, h9, h10, h11, h12, h13, h14, h15, h16, h17, h18, h19, h20, h21, h22, h23, h24, h25, h26, h27, h28⟩ := hI
  have hws := @wf_stream p hwf
  simp only [mChoose] at h
  split at h
  · simp only [List.mem_singleton] at h; subst h; inv_close
  · split at h
    · simp only [List.mem_singleton] at h; subst h; inv_close
    · split at h
      · simp only [List.mem_singleton] at h; subst h; inv_close
      · simp only [List.mem_singleton] at h; subst h
        rename_i src hpl
        have hss : p.streamSrc.isSome = true := by simp [Plan.streamSrc, hpl]
        clear hpl
        inv_close
      · simp only [List.mem_singleton] at h; subst h; inv_close
      · simp only [List.mem_singleton] at h; subst h; inv_close
end RtVerif.C12
