import RtVerif.Model.C11
/-
  Helper lemmas for C11: `io.ReadFull` over a chunking reader, the `getBody` state machine, the
  url-encoded form round trip (`url.ParseQuery ∘ Values.Encode`), media types of the headers the
  model builds, the part list.
-/
namespace RtVerif.C11
open RtVerif Bytes

/-! ## `io.ReadFull` over a reader that delivers short reads -/

theorem readSize_bounds (chunk room len : Nat) (hr : 0 < room) (hl : 0 < len) :
    0 < readSize chunk room len ∧ readSize chunk room len ≤ room ∧ readSize chunk room len ≤ len := by
  unfold readSize
  by_cases h : chunk = 0
  · subst h; simp; omega
  · have : (chunk == 0) = false := by simp [h]
    simp only [this]
    simp only [Bool.false_eq_true, ↓reduceIte]
    omega

/-- However the upload chops its data into `Read`s, `io.ReadFull` fills the window: it returns the
first `want` bytes (all of them when the file is shorter) and leaves the rest in the file. -/
theorem readFull_spec (chunk : Nat) :
    ∀ fuel want c, want ≤ fuel → readFull chunk fuel want c = (c.take want, c.drop want) := by
  intro fuel
  induction fuel with
  | zero => intro want c h; have : want = 0 := by omega
            subst this; simp [readFull]
  | succ fuel ih =>
    intro want c h
    cases want with
    | zero => simp [readFull]
    | succ want =>
      unfold readFull
      by_cases hc : c.isEmpty = true
      · simp only [hc, ↓reduceIte]
        have : c = [] := by simpa using hc
        subst this; simp
      · simp only [hc, Bool.false_eq_true, ↓reduceIte]
        have hlen : 0 < c.length := by
          cases c with
          | nil => simp at hc
          | cons _ _ => simp
        obtain ⟨h1, h2, h3⟩ := readSize_bounds chunk (want + 1) c.length (by omega) hlen
        generalize readSize chunk (want + 1) c.length = k at h1 h2 h3
        rw [ih (want + 1 - k) (c.drop k) (by omega)]
        have hw : want + 1 = k + (want + 1 - k) := by omega
        refine Prod.ext ?_ ?_
        · simp only
          conv => rhs; rw [hw, List.take_add]
        · simp only [List.drop_drop]
          congr 1; omega

/-! ## The `getBody` state machine -/

theorem getBodies_plain (k : Nat) (st : St) :
    getBodies false k st = some (st, List.replicate k st.buf) := by
  induction k with
  | zero => rfl
  | succ k ih => simp [getBodies, getBody, ih, List.replicate_succ]

theorem getBodies_copied (ov : Bool) (k : Nat) (st : St) (h : st.copied = true) :
    getBodies ov k st = some (st, List.replicate k st.buf) := by
  induction k with
  | zero => rfl
  | succ k ih => cases ov <;> simp [getBodies, getBody, ih, h, List.replicate_succ]

/-- First call on a stream: the stream is copied behind what the buffer holds, the buffer becomes the
body; every later call serves the buffer. -/
theorem getBodies_stream (k : Nat) (buf c : Bytes) (cl : Bool) :
    getBodies true (k + 1) { buf := buf, body := .stream c cl } =
      some ({ buf := buf ++ c, body := .buffer, copied := true, closed := cl }, List.replicate (k + 1) (buf ++ c)) := by
  simp [getBodies, getBody, getBodies_copied, List.replicate_succ]

theorem getBodies_deadPipe (k : Nat) (buf : Bytes) :
    getBodies true (k + 1) { buf := buf, body := .deadPipe } = none := by
  simp [getBodies, getBody]

/-- The unreachable branches of `getBody`: the override is installed only over a stream or a pipe, and
until the first call has run (`copied`) the body is still that stream. -/
theorem getBody_unreachable (b : Body) (h : overrideInstalled b = true) : b ≠ .buffer ∧ b ≠ .nobody := by
  cases b <;> simp [overrideInstalled] at h ⊢

/-! ## url-encoded forms -/

theorem bytesLe_refl : ∀ a : Bytes, bytesLe a a = true
  | [] => rfl
  | x :: xs => by
    have : ¬ x < x := by exact UInt8.lt_irrefl x
    simp [bytesLe, this, bytesLe_refl xs]

theorem filter_insertKV (k : Bytes) (x : Bytes × List Bytes) (l : List (Bytes × List Bytes)) :
    (insertKV x l).filter (·.1 == k) = ([x] ++ l).filter (·.1 == k) := by
  induction l with
  | nil => rfl
  | cons y ys ih =>
    unfold insertKV
    by_cases hle : bytesLe x.1 y.1 = true
    · simp [hle]
    · simp only [hle, Bool.false_eq_true, ↓reduceIte]
      rw [List.filter_cons, ih]
      by_cases hx : (x.1 == k) = true
      · -- `y` was skipped, so its key is not `x`'s
        have hy : (y.1 == k) = false := by
          have hxk : x.1 = k := by simpa using hx
          by_cases hyk : y.1 = k
          · exfalso; apply hle; rw [hxk, hyk]; exact bytesLe_refl k
          · simpa using hyk
        simp [hy, hx]
      · have hx' : (x.1 == k) = false := by simpa using hx
        simp [List.filter_cons, hx']

theorem filter_sortKV (k : Bytes) (l : List (Bytes × List Bytes)) :
    (sortKV l).filter (·.1 == k) = l.filter (·.1 == k) := by
  induction l with
  | nil => rfl
  | cons x xs ih =>
    have : sortKV (x :: xs) = insertKV x (sortKV xs) := rfl
    rw [this, filter_insertKV]
    simp only [List.cons_append, List.nil_append, List.filter_cons, ih]

theorem fieldValues_sortKV (k : Bytes) (l : List (Bytes × List Bytes)) :
    fieldValues (sortKV l) k = fieldValues l k := by
  unfold fieldValues; rw [filter_sortKV]

/-- the `key=value` pairs of a form, key by key, value by value -/
def pairsOf (l : List (Bytes × List Bytes)) : List (Bytes × Bytes) :=
  l.flatMap fun kv => kv.2.map fun v => (kv.1, v)

theorem valuesOf_pairsOf (k : Bytes) (l : List (Bytes × List Bytes)) :
    valuesOf (pairsOf l) k = fieldValues l k := by
  induction l with
  | nil => rfl
  | cons x xs ih =>
    have h1 : pairsOf (x :: xs) = x.2.map (fun v => (x.1, v)) ++ pairsOf xs := by simp [pairsOf]
    unfold valuesOf at ih ⊢
    rw [h1, List.filter_append, List.map_append, ih]
    unfold fieldValues
    by_cases hx : (x.1 == k) = true
    · simp [hx, List.filter_map, Function.comp_def]
    · have hx' : (x.1 == k) = false := by simpa using hx
      simp [hx', List.filter_map, Function.comp_def]

theorem formSegs_eq (l : List (Bytes × List Bytes)) :
    formSegs l = (pairsOf l).map fun p => formSeg p.1 p.2 := by
  simp [formSegs, pairsOf, List.map_flatMap, Function.comp_def]

/-- bytes that cannot occur in a query-escaped string -/
theorem queryEscape_clean (s : Bytes) : ∀ c ∈ GoURL.queryEscape s, c ≠ 38 ∧ c ≠ 61 ∧ c ≠ 59 := by
  intro c hc
  have h := GoURL.escape_safe true s c hc
  refine ⟨?_, ?_, ?_⟩ <;> (intro heq; subst heq; revert h; decide)

theorem formSeg_clean (k v : Bytes) : ∀ c ∈ formSeg k v, c ≠ 38 ∧ c ≠ 59 := by
  intro c hc
  simp only [formSeg, List.mem_append, List.mem_cons] at hc
  rcases hc with hc | hc | hc
  · exact ⟨(queryEscape_clean k c hc).1, (queryEscape_clean k c hc).2.2⟩
  · subst hc; decide
  · exact ⟨(queryEscape_clean v c hc).1, (queryEscape_clean v c hc).2.2⟩

theorem cutEq_append (a b : Bytes) (h : ∀ c ∈ a, c ≠ 61) : cutEq (a ++ 61 :: b) = (a, b) := by
  induction a with
  | nil => simp [cutEq]
  | cons x xs ih =>
    have hx : x ≠ 61 := h x (by simp)
    have := ih (fun c hc => h c (by simp [hc]))
    simp [cutEq, hx, this]

theorem parseSeg_formSeg (k v : Bytes) : parseSeg (formSeg k v) = some (k, v) := by
  unfold parseSeg
  have h59 : (formSeg k v).contains 59 = false := by
    simp only [Bytes.contains, List.any_eq_false, beq_iff_eq]
    intro c hc heq
    exact (formSeg_clean k v c hc).2 heq
  have hcut : cutEq (formSeg k v) = (GoURL.queryEscape k, GoURL.queryEscape v) :=
    cutEq_append _ _ (fun c hc => (queryEscape_clean k c hc).2.1)
  simp only [h59, Bool.false_eq_true, ↓reduceIte, hcut]
  have hk : GoURL.queryUnescape (GoURL.queryEscape k) = some k := GoURL.unescape_escape true k
  have hv : GoURL.queryUnescape (GoURL.queryEscape v) = some v := GoURL.unescape_escape true v
  simp [hk, hv]

theorem splitByte_cons (c b : UInt8) (r : Bytes) :
    splitByte c (b :: r) =
      match splitByte c r with
      | [] => [[]]
      | h :: t => if b == c then [] :: h :: t else (b :: h) :: t := rfl

theorem splitByte_ne_nil (c : UInt8) (s : Bytes) : splitByte c s ≠ [] := by
  induction s with
  | nil => simp [splitByte]
  | cons b r ih =>
    unfold splitByte
    split
    · simp
    · split <;> simp

theorem splitByte_clean (c : UInt8) (s : Bytes) (h : ∀ x ∈ s, x ≠ c) : splitByte c s = [s] := by
  induction s with
  | nil => rfl
  | cons b r ih =>
    have hr := ih (fun x hx => h x (by simp [hx]))
    have hb : (b == c) = false := by simpa using h b (by simp)
    unfold splitByte
    simp [hr, hb]

theorem splitByte_append (c : UInt8) (a b : Bytes) (h : ∀ x ∈ a, x ≠ c) :
    splitByte c (a ++ c :: b) = a :: splitByte c b := by
  induction a with
  | nil =>
    simp only [List.nil_append]
    rw [splitByte_cons]
    cases hsb : splitByte c b with
    | nil => exact absurd hsb (splitByte_ne_nil c b)
    | cons x xs => simp
  | cons y ys ih =>
    have hr := ih (fun x hx => h x (by simp [hx]))
    have hy : (y == c) = false := by simpa using h y (by simp)
    simp only [List.cons_append]
    rw [splitByte_cons, hr]
    simp [hy]

theorem splitByte_joinAmp (segs : List Bytes) (hne : segs ≠ []) (h : ∀ s ∈ segs, ∀ x ∈ s, x ≠ 38) :
    splitByte 38 (joinAmp segs) = segs := by
  induction segs with
  | nil => exact absurd rfl hne
  | cons s t ih =>
    cases t with
    | nil => simpa [joinAmp] using splitByte_clean 38 s (h s (by simp))
    | cons u w =>
      have : joinAmp (s :: u :: w) = s ++ 38 :: joinAmp (u :: w) := rfl
      rw [this, splitByte_append 38 s _ (h s (by simp)), ih (by simp) (fun s' hs' => h s' (by simp [hs']))]

theorem formSeg_ne_nil (k v : Bytes) : (formSeg k v).isEmpty = false := by
  simp [formSeg]

/-- `url.ParseQuery (Values.Encode fields)` succeeds and yields the pairs of the sorted form. -/
theorem parseQuery_encodeForm (fields : List (Bytes × List Bytes)) :
    parseQuery (encodeForm fields) = some (pairsOf (sortKV fields)) := by
  unfold parseQuery encodeForm
  rw [formSegs_eq]
  generalize pairsOf (sortKV fields) = ps
  have hsegs : (splitByte 38 (joinAmp (ps.map fun p => formSeg p.1 p.2))).filter (fun s => !s.isEmpty) =
      ps.map fun p => formSeg p.1 p.2 := by
    cases ps with
    | nil => simp [joinAmp, splitByte]
    | cons p ps =>
      rw [splitByte_joinAmp _ (by simp)]
      · apply List.filter_eq_self.mpr
        intro s hs
        simp only [List.mem_cons, List.mem_map, List.map_cons] at hs
        rcases hs with rfl | ⟨q, _, rfl⟩ <;> simp [formSeg_ne_nil]
      · intro s hs x hx
        simp only [List.map_cons, List.mem_cons, List.mem_map] at hs
        rcases hs with rfl | ⟨q, _, rfl⟩ <;> exact (formSeg_clean _ _ x hx).1
  rw [hsegs]
  clear hsegs
  induction ps with
  | nil => rfl
  | cons p ps ih => simp [List.mapM_cons, parseSeg_formSeg, ih]

/-- The url-encoded body decodes to the form fields: under every name the same values, in order. -/
theorem encodeForm_roundtrip (fields : List (Bytes × List Bytes)) :
    isURLEncodingOf (encodeForm fields) fields = true := by
  unfold isURLEncodingOf
  rw [parseQuery_encodeForm]
  simp only [sameForm, List.all_eq_true, beq_iff_eq]
  intro k _
  rw [valuesOf_pairsOf, fieldValues_sortKV]

/-! ## media types of the headers the model builds -/

theorem baseMediaType_multipartHeader (b : Bytes) : baseMediaType (multipartHeaderLit ++ b) = multipartLit := by
  simp [baseMediaType, multipartHeaderLit, beforeByte, List.takeWhile]
  decide

theorem facts_urlencoded : Facts.c11URLEncodedMime = urlencodedLit := by decide
theorem facts_multipart : Facts.c11MultipartMime = multipartLit := by decide

theorem mangle_of_not_urlencoded (mt b : Bytes) (h : toLower mt ≠ urlencodedLit) :
    mangleContentType mt b = multipartHeaderLit ++ b := by
  have : (toLower mt == Facts.c11URLEncodedMime) = false := by
    rw [facts_urlencoded]; simpa using h
  simp [mangleContentType, this]

theorem toLower_multipart_ne : toLower multipartLit ≠ urlencodedLit := by decide

theorem baseMediaType_urlencoded : baseMediaType urlencodedLit = urlencodedLit := by decide

/-! ## the part list -/

theorem filePart_eq (env : Env) (fn : Bytes) (f : FileIn) :
    filePart env fn f = expectedFilePart env.sniff fn f := by
  unfold filePart expectedFilePart
  cases hd : f.declared with
  | some d => rfl
  | none =>
    have h := readFull_spec f.chunk Facts.c11SniffWindow Facts.c11SniffWindow f.content (Nat.le_refl _)
    simp only [h, List.take_append_drop]
    rfl

theorem allParts_eq (env : Env) (i : Input) : allParts env i = expectedParts env.sniff i := by
  unfold allParts expectedParts fieldParts fileParts
  congr 1
  congr 1
  funext kf
  congr 1
  funext f
  exact filePart_eq env kf.1 f

theorem isPerm_refl (l : List Part) : l.isPerm l = true := List.isPerm_iff.mpr (List.Perm.refl l)

/-! ## the auth phase -/

theorem authPhase_ne_none (i : Input) (c : Chosen) (h : c.body ≠ .deadPipe) : authPhase i c ≠ none := by
  unfold authPhase St.init
  cases i.auth with
  | none => simp
  | some k =>
    cases hb : c.body with
    | deadPipe => exact absurd hb h
    | nobody => simp [overrideInstalled, getBodies_plain]
    | buffer => simp [overrideInstalled, getBodies_plain]
    | stream x cl =>
      cases k with
      | zero => simp [getBodies]
      | succ k => simp [overrideInstalled, getBodies_stream]

/-- T2 on the state machine: whatever the auth writer was given, each time it asked, is what is sent
(`hn`: a request without a body has an empty buffer, which `choose` guarantees). -/
theorem authPhase_sound (i : Input) (c : Chosen) (hn : c.body = .nobody → c.buf = []) (st : St) (gets : List Bytes)
    (h : authPhase i c = some (st, gets)) :
    gets.length = i.auth.getD 0 ∧ ∀ g ∈ gets, sameAsSent (sentOf st) g = true := by
  unfold authPhase at h
  simp only [St.init] at h ⊢
  cases ha : i.auth with
  | none =>
    rw [ha] at h
    simp only [Option.some.injEq, Prod.mk.injEq] at h
    obtain ⟨_, rfl⟩ := h
    simp
  | some k =>
    rw [ha] at h
    simp only [Option.getD_some]
    cases hb : c.body with
    | nobody =>
      rw [hb] at h
      simp only [overrideInstalled, getBodies_plain, Option.some.injEq, Prod.mk.injEq] at h
      obtain ⟨rfl, rfl⟩ := h
      simp [sentOf, sameAsSent, hn hb]
    | buffer =>
      rw [hb] at h
      simp only [overrideInstalled, getBodies_plain, Option.some.injEq, Prod.mk.injEq] at h
      obtain ⟨rfl, rfl⟩ := h
      simp [sentOf, sameAsSent]
    | deadPipe =>
      rw [hb] at h
      cases k with
      | zero =>
        simp only [getBodies, Option.some.injEq, Prod.mk.injEq] at h
        obtain ⟨_, rfl⟩ := h
        simp
      | succ k => simp [overrideInstalled, getBodies_deadPipe] at h
    | stream x cl =>
      rw [hb] at h
      cases k with
      | zero =>
        simp only [getBodies, Option.some.injEq, Prod.mk.injEq] at h
        obtain ⟨_, rfl⟩ := h
        simp
      | succ k =>
        simp only [overrideInstalled, getBodies_stream, Option.some.injEq, Prod.mk.injEq] at h
        obtain ⟨rfl, rfl⟩ := h
        simp [sentOf, sameAsSent]

/-- The GetBody calls do not change what is sent (`hs`: the buffer is empty while the body is a
stream, which `choose` guarantees). -/
theorem authPhase_preserves_sent (i : Input) (c : Chosen) (hs : ∀ x cl, c.body = .stream x cl → c.buf = [])
    (st : St) (gets : List Bytes) (h : authPhase i c = some (st, gets)) :
    sentOf st = sentOf (St.init c) := by
  unfold authPhase at h
  simp only [St.init] at h ⊢
  cases ha : i.auth with
  | none =>
    rw [ha] at h
    simp only [Option.some.injEq, Prod.mk.injEq] at h
    obtain ⟨rfl, _⟩ := h
    rfl
  | some k =>
    rw [ha] at h
    cases hb : c.body with
    | nobody =>
      rw [hb] at h
      simp only [overrideInstalled, getBodies_plain, Option.some.injEq, Prod.mk.injEq] at h
      obtain ⟨rfl, _⟩ := h
      rfl
    | buffer =>
      rw [hb] at h
      simp only [overrideInstalled, getBodies_plain, Option.some.injEq, Prod.mk.injEq] at h
      obtain ⟨rfl, _⟩ := h
      rfl
    | deadPipe =>
      rw [hb] at h
      cases k with
      | zero =>
        simp only [getBodies, Option.some.injEq, Prod.mk.injEq] at h
        obtain ⟨rfl, _⟩ := h
        rfl
      | succ k => simp [overrideInstalled, getBodies_deadPipe] at h
    | stream x cl =>
      rw [hb] at h
      cases k with
      | zero =>
        simp only [getBodies, Option.some.injEq, Prod.mk.injEq] at h
        obtain ⟨rfl, _⟩ := h
        rfl
      | succ k =>
        simp only [overrideInstalled, getBodies_stream, Option.some.injEq, Prod.mk.injEq] at h
        obtain ⟨rfl, _⟩ := h
        simp [sentOf, hs x cl hb]

/-! ## invariants of `choose` -/

theorem choose_nobody_buf (env : Env) (i : Input) (c : Chosen) (h : choose env i = .ok c) :
    c.body = .nobody → c.buf = [] := by
  unfold choose at h
  intro hb
  split at h
  · split at h
    · -- url-encoded form: the body is the buffer
      injection h with h; subst h
      simp [initialBody, *] at hb
      split at hb <;> cases hb
    · injection h with h; subst h; rfl
  · split at h
    · injection h with h; subst h; rfl
    · injection h with h; subst h; rfl
    · injection h with h; subst h; rfl
    · split at h
      · cases h
      · cases h
      · injection h with h; subst h
        rename_i hp _ _ _
        simp [initialBody, hp] at hb
        split at hb <;> cases hb

theorem choose_stream_buf (env : Env) (i : Input) (c : Chosen) (h : choose env i = .ok c) :
    ∀ x cl, c.body = .stream x cl → c.buf = [] := by
  unfold choose at h
  intro x cl hb
  split at h
  · split at h
    · injection h with h; subst h
      simp only [initialBody] at hb
      split at hb
      · split at hb <;> cases hb
      · cases hb
    · injection h with h; subst h; rfl
  · split at h
    · injection h with h; subst h; rfl
    · injection h with h; subst h; rfl
    · injection h with h; subst h; rfl
    · split at h
      · cases h
      · cases h
      · injection h with h; subst h
        simp only [initialBody] at hb
        split at hb
        · split at hb <;> cases hb
        · cases hb

/-- without form data the pipe is not opened, whatever the media type (the F11d repair) -/
theorem opensPipe_noForm (i : Input) (hf : hasForm i = false) : opensPipe i = false := by
  simp [opensPipe, hf]

/-- The F11d repair as an invariant: whatever is chosen as the body, it is never the pipe without a
writer — the pipe is opened only on the branch that starts the multipart goroutine. -/
theorem choose_no_deadPipe (env : Env) (i : Input) (c : Chosen) (h : choose env i = .ok c) :
    c.body ≠ .deadPipe := by
  unfold choose at h
  split at h
  · split at h
    · rename_i hm
      injection h with h; subst h
      have : opensPipe i = false := by
        have : isMultipart i = false := by simpa using hm
        simp [opensPipe, this]
      simp only [initialBody, this]
      split <;> simp
    · injection h with h; subst h; simp
  · rename_i hf
    have hf' : hasForm i = false := by simpa using hf
    have hop := opensPipe_noForm i hf'
    split at h
    · injection h with h; subst h
      simp only [initialBody, hop]
      split <;> simp
    · injection h with h; subst h; simp
    · injection h with h; subst h; simp
    · split at h
      · cases h
      · cases h
      · injection h with h; subst h
        simp only [initialBody, hop]
        split <;> simp

/-! ## the whole build, once the body source is chosen -/

theorem build_gate_error (env : Env) (i : Input) (hg : gatePasses env i.mediaType = false) :
    build env i = .gateError := by
  simp [build, hg]

theorem gate_fails_unregistered (env : Env) (mt : Bytes) (hg : gatePasses env mt = false) : env.produce mt = none := by
  simp only [gatePasses, Bool.or_eq_false_iff] at hg
  simpa using hg.1.1

/-- After a successful choice of a body that is not the dead pipe, the request is built; the GetBody
results are as many as asked for, each equal to what is sent, and what is sent is what was chosen. -/
theorem build_of_choose (env : Env) (i : Input) (c : Chosen) (hg : gatePasses env i.mediaType = true)
    (hc : choose env i = .ok c) (hd : c.body ≠ .deadPipe) :
    ∃ (st : St) (gets : List Bytes),
      build env i = .built
        { header := finalHeader i c, sent := sentOf (St.init c), parts := c.parts, gets := gets,
          closedEarly := st.closed && !hasForm i } ∧
      gets.length = i.auth.getD 0 ∧ (∀ g ∈ gets, sameAsSent (sentOf (St.init c)) g = true) := by
  cases ha : authPhase i c with
  | none => exact absurd ha (authPhase_ne_none i c hd)
  | some r =>
    obtain ⟨st, gets⟩ := r
    have hsent := authPhase_preserves_sent i c (choose_stream_buf env i c hc) st gets ha
    obtain ⟨hl, hall⟩ := authPhase_sound i c (choose_nobody_buf env i c hc) st gets ha
    refine ⟨st, gets, ?_, hl, ?_⟩
    · simp [build, hg, hc, ha, hsent]
    · rw [← hsent]; exact hall

/-- T2 for every build: a built request's GetBody results are what is sent. -/
theorem built_gets (env : Env) (i : Input) (b : Built) (h : build env i = .built b) :
    b.gets.length = i.auth.getD 0 ∧ ∀ g ∈ b.gets, sameAsSent b.sent g = true := by
  unfold build at h
  split at h
  · cases h
  · split at h
    · cases h
    · cases h
    · rename_i c hc
      split at h
      · cases h
      · rename_i st gets ha
        injection h with h
        subst h
        exact authPhase_sound i c (choose_nobody_buf env i c hc) st gets ha

/-- No build ends in a GetBody call that never returns, and no built request has a body nobody writes. -/
theorem build_no_hang (env : Env) (i : Input) :
    build env i ≠ .hang ∧ ∀ b, build env i = .built b → b.sent ≠ .never := by
  unfold build
  split
  · exact ⟨by simp, by intro b h; cases h⟩
  · split
    · exact ⟨by simp, by intro b h; cases h⟩
    · exact ⟨by simp, by intro b h; cases h⟩
    · rename_i c hc
      have hd := choose_no_deadPipe env i c hc
      split
      · rename_i ha
        exact absurd ha (authPhase_ne_none i c hd)
      · rename_i st gets ha
        refine ⟨by simp, ?_⟩
        intro b h
        injection h with h; subst h
        simp only
        rw [authPhase_preserves_sent i c (choose_stream_buf env i c hc) st gets ha]
        simp only [St.init, sentOf]
        cases hb : c.body <;> simp
        exact hd hb

/-! ## `choose`, branch by branch -/

theorem initialBody_nobody (i : Input) (hp : i.payload = .none) (hf : hasForm i = false) : initialBody i = .nobody := by
  simp [initialBody, hp, hf]

theorem initialBody_buffer (i : Input) (h : (i.payload != .none || hasForm i) = true) (hm : opensPipe i = false) :
    initialBody i = .buffer := by
  simp only [initialBody, h, hm]; simp

theorem choose_nil (env : Env) (i : Input) (hp : i.payload = .none) (hf : hasForm i = false) :
    choose env i = .ok ⟨none, [], .nobody, none⟩ := by
  simp [choose, hf, hp, initialBody_nobody i hp hf]

theorem choose_value (env : Env) (i : Input) (b : Bytes) (hp : i.payload = .value) (hf : hasForm i = false)
    (hprod : env.produce i.mediaType = some (some b)) :
    choose env i = .ok ⟨some i.mediaType, b, .buffer, none⟩ := by
  have hb := initialBody_buffer i (by simp [hp]) (opensPipe_noForm i hf)
  simp [choose, hf, hp, hprod, hb]

theorem choose_value_error (env : Env) (i : Input) (hp : i.payload = .value) (hf : hasForm i = false)
    (hprod : env.produce i.mediaType = some none) : choose env i = .produceError := by
  simp [choose, hf, hp, hprod]

theorem choose_value_nil (env : Env) (i : Input) (hp : i.payload = .value) (hf : hasForm i = false)
    (hprod : env.produce i.mediaType = none) : choose env i = .nilProducerPanic := by
  simp [choose, hf, hp, hprod]

theorem choose_reader (env : Env) (i : Input) (b : Bytes) (hp : i.payload = .reader b) (hf : hasForm i = false) :
    choose env i = .ok ⟨some i.mediaType, [], .stream b false, none⟩ := by
  simp [choose, hf, hp]

theorem choose_readCloser (env : Env) (i : Input) (b : Bytes) (hp : i.payload = .readCloser b) (hf : hasForm i = false) :
    choose env i = .ok ⟨some i.mediaType, [], .stream b true, none⟩ := by
  simp [choose, hf, hp]

theorem choose_urlencoded (env : Env) (i : Input) (hf : hasForm i = true) (hm : isMultipart i = false) :
    choose env i = .ok ⟨some i.mediaType, encodeForm i.fields, .buffer, none⟩ := by
  have hb := initialBody_buffer i (by simp [hf]) (by simp [opensPipe, hm])
  simp [choose, hf, hm, hb]

theorem choose_multipart (env : Env) (i : Input) (hf : hasForm i = true) (hm : isMultipart i = true) :
    choose env i = .ok ⟨some (mangleContentType i.mediaType env.boundary), [],
      .stream (env.mpDoc env.boundary (allParts env i)) true, some (allParts env i)⟩ := by
  simp [choose, hf, hm]

/-! ## the header after `DoneChoosingBodySource` -/

theorem finalHeader_mediaType (i : Input) (c : Chosen) (h : c.header = some i.mediaType) :
    finalHeader i c = some i.mediaType := by
  unfold finalHeader
  split <;> simp [h]

theorem finalHeader_nonempty (i : Input) (c : Chosen) (hd : Bytes) (h : c.header = some hd) (hne : hd.isEmpty = false) :
    finalHeader i c = some hd := by
  unfold finalHeader
  simp [h, hne]

theorem finalHeader_nobody (i : Input) (c : Chosen) (h : c.body = .nobody) : finalHeader i c = c.header := by
  unfold finalHeader
  simp [h]

theorem mangle_nonempty (mt b : Bytes) : (mangleContentType mt b).isEmpty = false := by
  unfold mangleContentType
  split <;> simp [boundaryParamLit, multipartHeaderLit]

/-! ## the payload kinds -/

theorem hasForm_false_iff (i : Input) : hasForm i = false ↔ i.fields.isEmpty = true ∧ i.files.isEmpty = true := by
  simp [hasForm]

theorem kindOf_nil (i : Input) (h : kindOf i = .nil) : i.payload = .none ∧ hasForm i = false := by
  unfold kindOf at h
  split at h
  · rename_i hc
    simp only [Bool.and_eq_true] at hc
    refine ⟨?_, (hasForm_false_iff i).mpr hc⟩
    cases hp : i.payload <;> simp [hp] at h ⊢
  · split at h
    · cases h
    · split at h <;> cases h

theorem kindOf_value (i : Input) (h : kindOf i = .value) : i.payload = .value ∧ hasForm i = false := by
  unfold kindOf at h
  split at h
  · rename_i hc
    simp only [Bool.and_eq_true] at hc
    refine ⟨?_, (hasForm_false_iff i).mpr hc⟩
    cases hp : i.payload <;> simp [hp] at h ⊢
  · split at h
    · cases h
    · split at h <;> cases h

theorem kindOf_reader (i : Input) (b : Bytes) (h : kindOf i = .reader b) :
    (i.payload = .reader b ∨ i.payload = .readCloser b) ∧ hasForm i = false := by
  unfold kindOf at h
  split at h
  · rename_i hc
    simp only [Bool.and_eq_true] at hc
    refine ⟨?_, (hasForm_false_iff i).mpr hc⟩
    cases hp : i.payload <;> simp [hp] at h ⊢ <;> exact h
  · split at h
    · cases h
    · split at h <;> cases h

theorem kindOf_formOnly (i : Input) (h : kindOf i = .formOnly) :
    i.payload = .none ∧ hasForm i = true ∧ i.files.isEmpty = true := by
  unfold kindOf at h
  split at h
  · cases hp : i.payload <;> simp [hp] at h
  · rename_i hc
    split at h
    · cases h
    · rename_i hp
      split at h
      · rename_i hfiles
        refine ⟨by simpa using hp, ?_, hfiles⟩
        simp only [Bool.and_eq_true, not_and] at hc
        simp only [hasForm, hfiles, Bool.not_true, Bool.or_false, Bool.not_eq_true']
        cases hfe : i.fields.isEmpty
        · rfl
        · exact absurd hfiles (hc hfe)
      · cases h

theorem kindOf_withFiles (i : Input) (h : kindOf i = .withFiles) :
    i.payload = .none ∧ hasForm i = true ∧ i.files.isEmpty = false := by
  unfold kindOf at h
  split at h
  · cases hp : i.payload <;> simp [hp] at h
  · split at h
    · cases h
    · rename_i hp
      split at h
      · cases h
      · rename_i hfiles
        have hfiles' : i.files.isEmpty = false := by simpa using hfiles
        exact ⟨by simpa using hp, by simp [hasForm, hfiles'], hfiles'⟩

/-! ## `filepath.Base` removes the directories -/

open GoPath in
theorem split_noslash (f : Bytes) (h : slash ∉ f) : split f = ([], f) := by
  induction f with
  | nil => rfl
  | cons b r ih =>
    have hr := ih (fun hm => h (List.mem_cons_of_mem _ hm))
    have hb : b ≠ slash := fun e => h (by simp [e])
    simp [split, hr, hb]

open GoPath in
theorem split_dir_file (d f : Bytes) (h : slash ∉ f) : split (d ++ slash :: f) = (d ++ [slash], f) := by
  induction d with
  | nil => simp [split, split_noslash f h]
  | cons b r ih => simp [split, ih]

open GoPath in
theorem dropTrailingSlashes_id (p : Bytes) (x : UInt8) (q : Bytes) (hp : p = q ++ [x]) (hx : x ≠ slash) :
    dropTrailingSlashes p = p := by
  subst hp
  simp [dropTrailingSlashes, hx]

open GoPath in
/-- a name `dir/file` (any directory part, `file` non-empty and free of slashes) has base `file` -/
theorem base_dir_file (d f : Bytes) (hf : slash ∉ f) (hne : f ≠ []) : base (d ++ slash :: f) = f := by
  obtain ⟨q, x, hq⟩ : ∃ q x, f = q ++ [x] := by
    refine ⟨f.dropLast, f.getLast hne, ?_⟩
    exact (List.dropLast_concat_getLast hne).symm
  have hx : x ≠ slash := fun e => hf (by simp [hq, e])
  have hp : d ++ slash :: f = (d ++ slash :: q) ++ [x] := by simp [hq]
  have hd := dropTrailingSlashes_id _ x _ hp hx
  unfold base
  have hnil : (d ++ slash :: f = []) = False := by simp
  simp only [hnil, if_false, hd, split_dir_file d f hf]
  simp [hne]

open GoPath in
/-- a name without directories is its own base -/
theorem base_plain (f : Bytes) (hf : slash ∉ f) (hne : f ≠ []) : base f = f := by
  obtain ⟨q, x, hq⟩ : ∃ q x, f = q ++ [x] := by
    refine ⟨f.dropLast, f.getLast hne, ?_⟩
    exact (List.dropLast_concat_getLast hne).symm
  have hx : x ≠ slash := fun e => hf (by simp [hq, e])
  have hd := dropTrailingSlashes_id f x q hq hx
  unfold base
  simp only [hne, if_false, hd, split_noslash f hf]

/-! ## `escapeQuotes` against mime's quoted-string reader -/

theorem unquote_escapeQuotes (s rest : Bytes) (h : ∀ c ∈ s, c ≠ 13 ∧ c ≠ 10) :
    unquote (escapeQuotes s ++ 34 :: rest) = some (s, rest) := by
  induction s with
  | nil => simp [escapeQuotes, unquote]
  | cons c r ih =>
    have hr := ih (fun x hx => h x (by simp [hx]))
    have hc := h c (by simp)
    have hcons : escapeQuotes (c :: r) = (if c == 92 then [92, 92] else if c == 34 then [92, 34] else [c]) ++ escapeQuotes r := by
      simp [escapeQuotes]
    rw [hcons]
    by_cases h92 : c = 92
    · subst h92
      simp only [beq_self_eq_true, ↓reduceIte, List.cons_append, List.nil_append]
      rw [unquote]
      · simp [isTSpecial, hr]
    · by_cases h34 : c = 34
      · subst h34
        have : ((34 : UInt8) == 92) = false := by decide
        simp only [this, Bool.false_eq_true, ↓reduceIte, beq_self_eq_true, List.cons_append, List.nil_append]
        rw [unquote]
        · simp [isTSpecial, hr]
      · have e92 : (c == 92) = false := by simpa using h92
        have e34 : (c == 34) = false := by simpa using h34
        simp only [e92, e34, Bool.false_eq_true, ↓reduceIte, List.cons_append, List.nil_append]
        rw [unquote]
        · simp [hr, hc.1, hc.2]
        · intro h'; exact h34 h'
        · intro a r' h' _; exact h92 h'

end RtVerif.C11
