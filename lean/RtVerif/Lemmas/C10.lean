import RtVerif.Model.C10
/-  Helper lemmas for C10: `strings.ReplaceAll` of a placeholder on a rendered token list. -/
namespace RtVerif.C10
open RtVerif Bytes

theorem isPrefixOf_cons_cons (a b : UInt8) (as bs : Bytes) :
    (a :: as).isPrefixOf (b :: bs) = (a == b && as.isPrefixOf bs) := rfl

theorem replaceAll_nil (pat rep : Bytes) : replaceAll pat rep [] = [] := by rw [replaceAll]

theorem replaceAll_cons_no (pat rep : Bytes) (c : UInt8) (t : Bytes)
    (h : pat.isPrefixOf (c :: t) = false) : replaceAll pat rep (c :: t) = c :: replaceAll pat rep t := by
  rw [replaceAll]; simp [h]

theorem replaceAll_cons_yes (pat rep : Bytes) (c : UInt8) (t : Bytes)
    (h : pat.isPrefixOf (c :: t) = true) (hne : pat ≠ []) :
    replaceAll pat rep (c :: t) = rep ++ replaceAll pat rep ((c :: t).drop pat.length) := by
  rw [replaceAll]
  have : pat.isEmpty = false := by cases pat <;> simp_all
  simp [h, this]

theorem placeholder_eq (k : Bytes) : placeholder k = lbrace :: (k ++ [rbrace]) := rfl

theorem placeholder_ne_nil (k : Bytes) : placeholder k ≠ [] := by simp [placeholder]

theorem placeholder_length (k : Bytes) : (placeholder k).length = k.length + 2 := by
  simp [placeholder]

/-- a text without `{` is copied -/
theorem replaceAll_append_noLbrace (k rep a X : Bytes) (ha : lbrace ∉ a) :
    replaceAll (placeholder k) rep (a ++ X) = a ++ replaceAll (placeholder k) rep X := by
  induction a with
  | nil => rfl
  | cons c a' ih =>
    simp only [List.mem_cons, not_or] at ha
    have hp : (placeholder k).isPrefixOf (c :: (a' ++ X)) = false := by
      have : (lbrace == c) = false := by simpa using ha.1
      simp only [placeholder_eq, isPrefixOf_cons_cons, this, Bool.false_and]
    rw [List.cons_append, replaceAll_cons_no _ _ _ _ hp, ih ha.2]
    rfl

theorem isPrefixOf_self_append (a X : Bytes) : a.isPrefixOf (a ++ X) = true := by
  induction a with
  | nil => simp
  | cons c a' ih => simp [isPrefixOf_cons_cons, ih]

/-- the placeholder itself is replaced -/
theorem replaceAll_placeholder_same (k rep X : Bytes) :
    replaceAll (placeholder k) rep (placeholder k ++ X) = rep ++ replaceAll (placeholder k) rep X := by
  have hp : (placeholder k).isPrefixOf (placeholder k ++ X) = true := isPrefixOf_self_append _ _
  have hc : placeholder k ++ X = lbrace :: (k ++ [rbrace] ++ X) := by simp [placeholder]
  rw [hc] at hp ⊢
  rw [replaceAll_cons_yes _ _ _ _ hp (placeholder_ne_nil k)]
  congr 1
  have : lbrace :: (k ++ [rbrace] ++ X) = placeholder k ++ X := by simp [placeholder]
  rw [this, List.drop_left]

/-- `k}` is a prefix of `n}X` for brace-free `k`, `n` only if `k = n` -/
theorem prefix_name_eq (k n X : Bytes) (hk : braceFree k = true) (hn : braceFree n = true)
    (h : (k ++ [rbrace]).isPrefixOf (n ++ rbrace :: X) = true) : k = n := by
  induction k generalizing n with
  | nil =>
    cases n with
    | nil => rfl
    | cons c n' =>
      simp only [List.nil_append, List.cons_append, isPrefixOf_cons_cons, Bool.and_eq_true, beq_iff_eq] at h
      have h := h.1
      simp only [braceFree, List.all_cons, Bool.and_eq_true, bne_iff_ne, ne_eq] at hn
      exact absurd h.symm hn.1.2
  | cons c k' ih =>
    simp only [braceFree, List.all_cons, Bool.and_eq_true, bne_iff_ne, ne_eq] at hk
    cases n with
    | nil =>
      simp only [List.cons_append, List.nil_append, isPrefixOf_cons_cons, Bool.and_eq_true, beq_iff_eq] at h
      exact absurd h.1 hk.1.2
    | cons d n' =>
      simp only [List.cons_append, isPrefixOf_cons_cons, Bool.and_eq_true, beq_iff_eq] at h
      simp only [braceFree, List.all_cons, Bool.and_eq_true] at hn
      rw [h.1, ih n' (by simpa [braceFree] using hk.2) (by simpa [braceFree] using hn.2) h.2]

theorem not_mem_lbrace_of_braceFree {a : Bytes} (h : braceFree a = true) : lbrace ∉ a := by
  intro hm
  simp only [braceFree, List.all_eq_true, Bool.and_eq_true, bne_iff_ne, ne_eq] at h
  exact (h lbrace hm).1 rfl

/-- another placeholder is copied -/
theorem replaceAll_placeholder_other (k n rep X : Bytes) (hk : braceFree k = true)
    (hn : braceFree n = true) (hne : n ≠ k) :
    replaceAll (placeholder k) rep (placeholder n ++ X) =
      placeholder n ++ replaceAll (placeholder k) rep X := by
  have hc : placeholder n ++ X = lbrace :: (n ++ rbrace :: X) := by simp [placeholder]
  have hp : (placeholder k).isPrefixOf (lbrace :: (n ++ rbrace :: X)) = false := by
    rw [Bool.eq_false_iff]
    intro h
    simp only [placeholder_eq, isPrefixOf_cons_cons, beq_self_eq_true, Bool.true_and] at h
    exact hne (prefix_name_eq k n X hk hn h).symm
  rw [hc, replaceAll_cons_no _ _ _ _ hp]
  have : n ++ rbrace :: X = (n ++ [rbrace]) ++ X := by simp
  rw [this, replaceAll_append_noLbrace]
  · simp [placeholder]
  · intro hm
    rcases List.mem_append.mp hm with h | h
    · exact not_mem_lbrace_of_braceFree hn h
    · simp only [List.mem_cons, List.not_mem_nil, or_false] at h
      exact absurd h (by decide)

/-- substituting one name in a token -/
def subst1 (k rep : Bytes) : Tok → Tok
  | .lit b => .lit b
  | .ph n => if n == k then .lit rep else .ph n

def WFToks (toks : List Tok) : Prop := ∀ t ∈ toks, t.wf = true

/-- **`strings.ReplaceAll` on a well-formed pattern is a token map.** -/
theorem replaceAll_render (k rep : Bytes) (toks : List Tok) (hk : braceFree k = true)
    (hw : WFToks toks) :
    replaceAll (placeholder k) rep (render toks) = render (toks.map (subst1 k rep)) := by
  induction toks with
  | nil => simp [render, replaceAll_nil]
  | cons t ts ih =>
    have hts : WFToks ts := fun x hx => hw x (List.mem_cons_of_mem _ hx)
    have ht := hw t List.mem_cons_self
    cases t with
    | lit b =>
      simp only [render, List.map_cons, subst1]
      rw [replaceAll_append_noLbrace _ _ _ _ (not_mem_lbrace_of_braceFree ht), ih hts]
    | ph n =>
      simp only [render, List.map_cons, subst1]
      by_cases hnk : n = k
      · subst hnk
        simp only [beq_self_eq_true, ↓reduceIte, render]
        rw [replaceAll_placeholder_same, ih hts]
      · have : (n == k) = false := by simpa using hnk
        simp only [this, Bool.false_eq_true, ↓reduceIte, render]
        rw [replaceAll_placeholder_other _ _ _ _ hk ht hnk, ih hts]

theorem wf_subst1 (k rep : Bytes) (hr : braceFree rep = true) (toks : List Tok) (hw : WFToks toks) :
    WFToks (toks.map (subst1 k rep)) := by
  intro t ht
  simp only [List.mem_map] at ht
  obtain ⟨t0, ht0, rfl⟩ := ht
  have := hw t0 ht0
  cases t0 with
  | lit b => exact this
  | ph n =>
    simp only [subst1]
    split
    · exact hr
    · exact this

theorem braceFree_pathEscape (v : Bytes) : braceFree (GoURL.pathEscape v) = true := by
  simp only [braceFree, List.all_eq_true, Bool.and_eq_true, bne_iff_ne, ne_eq]
  intro c hc
  have := GoURL.pathEscape_no_special v c hc
  exact ⟨this.2.2.2.1, this.2.2.2.2.1⟩

/-- Names that `substSeq` can be trusted with: no `{`/`}` inside (the property's placeholders). -/
def NamesOk (params : List (Bytes × Bytes)) : Prop := ∀ kv ∈ params, braceFree kv.1 = true

end RtVerif.C10
