import RtVerif.Model.C18
/-
  C18 — helper lemmas: the canonical rendering of root sets (`ins`/`norm`), `sameSet`, and the two
  block lemmas (client-certificate block, RootCAs switch) from which the property theorems follow.
-/
namespace RtVerif.C18
open RtVerif

theorem mem_ins {a x : Nat} {l : List Nat} : a ∈ ins x l ↔ a = x ∨ a ∈ l := by
  induction l with
  | nil => simp [ins]
  | cons y ys ih =>
    unfold ins
    split
    · simp
    · split
      · rename_i _ h; subst h; simp
      · simp only [List.mem_cons, ih]
        constructor
        · rintro (h | h | h)
          · exact .inr (.inl h)
          · exact .inl h
          · exact .inr (.inr h)
        · rintro (h | h | h)
          · exact .inr (.inl h)
          · exact .inl h
          · exact .inr (.inr h)

theorem mem_norm {a : Nat} {l : List Nat} : a ∈ norm l ↔ a ∈ l := by
  induction l with
  | nil => simp [norm]
  | cons x xs ih => simp [norm, mem_ins, ih]

/-- every element of `l` is above `b`, and `l` is strictly ascending -/
def Asc : List Nat → Prop
  | [] => True
  | [_] => True
  | x :: y :: r => x < y ∧ Asc (y :: r)

theorem asc_ins {x : Nat} {l : List Nat} (h : Asc l) : Asc (ins x l) := by
  induction l with
  | nil => simp [ins, Asc]
  | cons y ys ih =>
    unfold ins
    split
    · rename_i hxy; exact ⟨hxy, h⟩
    · split
      · exact h
      · rename_i h1 h2
        have hyx : y < x := by omega
        cases ys with
        | nil => simp [ins, Asc, hyx]
        | cons z zs =>
          have hz := h.1
          have ht : Asc (z :: zs) := h.2
          have := ih ht
          unfold ins at this ⊢
          split
          · exact ⟨hyx, by rename_i hxz; exact ⟨hxz, ht⟩⟩
          · split
            · exact ⟨hz, ht⟩
            · rename_i h3 h4
              simp only [h3, h4, if_false] at this
              exact ⟨hz, this⟩

theorem asc_norm (l : List Nat) : Asc (norm l) := by
  induction l with
  | nil => simp [norm, Asc]
  | cons x xs ih => exact asc_ins ih

theorem sameSet_iff {a b : List Nat} : sameSet a b = true ↔ ∀ x, x ∈ a ↔ x ∈ b := by
  simp only [sameSet, Bool.and_eq_true, List.all_eq_true, List.contains_iff_mem]
  constructor
  · rintro ⟨h1, h2⟩ x; exact ⟨h1 x, h2 x⟩
  · intro h; exact ⟨fun x hx => (h x).1 hx, fun x hx => (h x).2 hx⟩

theorem sameSet_norm (l : List Nat) : sameSet (norm l) l = true :=
  sameSet_iff.2 fun _ => mem_norm

/-! ### the client-certificate block -/

/-- What a successful run of the client-certificate block means. -/
theorem clientCerts_ok {o : Opts} {cs : List CertRef} (h : clientCerts o = .ok cs) :
    (certGiven o = false ∧ suppliedCert o = none ∧ cs = []) ∨
    (certGiven o = true ∧ identityUsable o = true ∧ ∃ x, suppliedCert o = some x ∧ cs = [x]) := by
  obtain ⟨cf, lc, kf, lk, ca, lca, pool, sn, isv, cb, std, cache⟩ := o
  cases cf with
  | absent =>
    cases lc with
    | none =>
      left
      simp only [clientCerts, Except.ok.injEq] at h
      simp [certGiven, suppliedCert, h]
    | malformed =>
      exfalso
      cases lk with
      | none => simp [clientCerts, loadMemPair, marshalKey, Except.map] at h
      | other => simp [clientCerts, loadMemPair, marshalKey, Except.map] at h
      | rsa u k => cases u <;> simp [clientCerts, loadMemPair, marshalKey, pairInMemory, Except.map] at h
      | ec u k => cases u <;> simp [clientCerts, loadMemPair, marshalKey, pairInMemory, Except.map] at h
    | ok c =>
      right
      cases lk with
      | none => simp [clientCerts, loadMemPair, marshalKey, Except.map] at h
      | other => simp [clientCerts, loadMemPair, marshalKey, Except.map] at h
      | rsa u k =>
        cases u
        · simp [clientCerts, loadMemPair, marshalKey, Except.map] at h
        · by_cases hk : c.key = k
          · simp [clientCerts, loadMemPair, marshalKey, pairInMemory, Except.map, hk] at h
            simp [certGiven, identityUsable, suppliedCert, hk, h]
          · simp [clientCerts, loadMemPair, marshalKey, pairInMemory, Except.map, hk] at h
      | ec u k =>
        cases u
        · simp [clientCerts, loadMemPair, marshalKey, Except.map] at h
        · by_cases hk : c.key = k
          · simp [clientCerts, loadMemPair, marshalKey, pairInMemory, Except.map, hk] at h
            simp [certGiven, identityUsable, suppliedCert, hk, h]
          · simp [clientCerts, loadMemPair, marshalKey, pairInMemory, Except.map, hk] at h
  | unreadable => simp [clientCerts, loadFilePair, Except.map] at h
  | garbage => simp [clientCerts, loadFilePair, Except.map] at h
  | ok c =>
    right
    cases kf with
    | absent => simp [clientCerts, loadFilePair, Except.map] at h
    | unreadable => simp [clientCerts, loadFilePair, Except.map] at h
    | garbage => simp [clientCerts, loadFilePair, Except.map] at h
    | ok k =>
      by_cases hk : c.key = k
      · simp [clientCerts, loadFilePair, Except.map, hk] at h
        simp [certGiven, identityUsable, suppliedCert, hk, h]
      · simp [clientCerts, loadFilePair, Except.map, hk] at h

/-- Conversely: usable identity material (or none given) never fails. -/
theorem clientCerts_err {o : Opts} {s : Stage} (h : clientCerts o = .error s) :
    certGiven o = true ∧ identityUsable o = false := by
  obtain ⟨cf, lc, kf, lk, ca, lca, pool, sn, isv, cb, std, cache⟩ := o
  cases cf with
  | absent =>
    cases lc with
    | none => simp [clientCerts] at h
    | malformed => simp [certGiven, identityUsable]
    | ok c =>
      cases lk with
      | none => simp [certGiven, identityUsable]
      | other => simp [certGiven, identityUsable]
      | rsa u k =>
        cases u
        · simp [certGiven, identityUsable]
        · by_cases hk : c.key = k
          · simp [clientCerts, loadMemPair, marshalKey, pairInMemory, Except.map, hk] at h
          · simp [certGiven, identityUsable]; exact fun h' => hk h'.symm
      | ec u k =>
        cases u
        · simp [certGiven, identityUsable]
        · by_cases hk : c.key = k
          · simp [clientCerts, loadMemPair, marshalKey, pairInMemory, Except.map, hk] at h
          · simp [certGiven, identityUsable]; exact fun h' => hk h'.symm
  | unreadable => simp [certGiven, identityUsable]
  | garbage => simp [certGiven, identityUsable]
  | ok c =>
    cases kf with
    | absent => simp [certGiven, identityUsable]
    | unreadable => simp [certGiven, identityUsable]
    | garbage => simp [certGiven, identityUsable]
    | ok k =>
      by_cases hk : c.key = k
      · simp [clientCerts, loadFilePair, Except.map, hk] at h
      · simp [certGiven, identityUsable]; exact fun h' => hk h'.symm

/-! ### the RootCAs switch -/

theorem rootsOf_ok {o : Opts} {rs : Option (List Nat)} (h : rootsOf o = .ok rs) :
    (rs = none ∧ rootsGiven o = false) ∨
    (∃ l, rs = some l ∧ rootsGiven o = true ∧ l = norm (suppliedRoots o)) := by
  obtain ⟨cf, lc, kf, lk, ca, lca, pool, sn, isv, cb, std, cache⟩ := o
  cases lca with
  | some r =>
    right
    simp only [rootsOf, Except.ok.injEq] at h
    exact ⟨_, h.symm, by simp [rootsGiven], by simp [suppliedRoots]⟩
  | none =>
    cases ca with
    | unreadable => simp [rootsOf] at h
    | ok l =>
      right
      simp only [rootsOf, Except.ok.injEq] at h
      exact ⟨_, h.symm, by simp [rootsGiven], by simp [suppliedRoots, caFileRoots]⟩
    | absent =>
      cases pool with
      | none =>
        left
        simp only [rootsOf, Option.map_none, Except.ok.injEq] at h
        exact ⟨h.symm, by simp [rootsGiven]⟩
      | some p =>
        right
        simp only [rootsOf, Option.map_some, Except.ok.injEq] at h
        exact ⟨_, h.symm, by simp [rootsGiven], by simp [suppliedRoots, caFileRoots, basePool]⟩

theorem rootsOf_err {o : Opts} {s : Stage} (h : rootsOf o = .error s) :
    s = .ca ∧ o.loadedCA = none ∧ o.caFile = .unreadable := by
  obtain ⟨cf, lc, kf, lk, ca, lca, pool, sn, isv, cb, std, cache⟩ := o
  cases lca with
  | some r => simp [rootsOf] at h
  | none =>
    cases ca with
    | unreadable => simp only [rootsOf, Except.error.injEq] at h; exact ⟨h.symm, rfl, rfl⟩
    | ok l => simp [rootsOf] at h
    | absent => simp [rootsOf] at h

/-- Inversion of `tlsAuth` returning a configuration. -/
theorem tlsAuth_cfg {o : Opts} {c : Cfg} (h : tlsAuth o = .cfg c) :
    ∃ cs rs, clientCerts o = .ok cs ∧ rootsOf o = .ok rs ∧
      c = { minVersion := Facts.tlsMinVersion
            insecure := if o.serverName ≠ [] then false else o.insecure
            serverName := o.serverName, roots := rs, certs := cs, callback := o.callback
            ticketsDisabled := o.ticketsDisabled, cache := o.cache } := by
  cases hc : clientCerts o with
  | error s => simp [tlsAuth, hc] at h
  | ok cs =>
    cases hr : rootsOf o with
    | error s => simp [tlsAuth, hc, hr] at h
    | ok rs =>
      simp only [tlsAuth, hc, hr, Out.cfg.injEq] at h
      exact ⟨cs, rs, rfl, rfl, h.symm⟩

end RtVerif.C18
