import RtVerif.Lemmas.C04Server
import RtVerif.Props.C05
import RtVerif.Props.C01
/-
  Helper lemmas for C04, part 3: the router's answer for the built path of a simple template.
-/
namespace RtVerif.C04
open RtVerif Bytes

theorem own_mem_records (api : C01.Api) (i : Nat) (op : C01.Op) (hop : api.ops[i]? = some op) :
    (C01.convert (C01.fullPath api op), i) ∈ C01.recordsFor api (toUpper op.method) := by
  unfold C01.recordsFor
  rw [List.mem_filterMap]
  refine ⟨(op, i), List.mem_zipIdx_iff_getElem?.mpr hop, ?_⟩
  have hmem : op ∈ api.ops := List.mem_of_getElem? hop
  have hh : C01.hasHandler api op = true := by
    simp only [C01.hasHandler, List.any_eq_true, Bool.and_eq_true, beq_iff_eq]
    exact ⟨op, hmem, rfl, rfl⟩
  simp [hh]

theorem method_known (api : C01.Api) (i : Nat) (op : C01.Op) (hop : api.ops[i]? = some op) :
    (C01.methodsOf api).contains (toUpper op.method) = true := by
  have hmem : op ∈ api.ops := List.mem_of_getElem? hop
  simp only [C01.methodsOf, List.contains_eq_mem, decide_eq_true_eq, List.mem_eraseDups, List.mem_map]
  exact ⟨op, hmem, rfl⟩

theorem lookupUnder_ok {api : C01.Api} {m : Bytes} {t : C05.Table} (p : Bytes)
    (hb : C05.build (C01.recordsFor api m) = .ok t) : C01.lookupUnder api m p = some (C05.lookup t p) := by
  simp [C01.lookupUnder, C05.route, hb]

theorem static_of_not_param {segs : List Seg} (h : C05.isParamKey (flat Seg.key segs) = false) :
    phNames segs = [] := by
  apply Classical.byContradiction
  intro hne
  rw [isParamKey_of_ph segs hne] at h
  cases h

theorem renderSegs_static (params : List (Bytes × Bytes)) {segs : List Seg} (h : phNames segs = []) :
    renderSegs (Seg.sub params) segs = renderSegs Seg.key segs := by
  rw [renderSegs_eq, renderSegs_eq, escVals_nil_of_static params segs h]

theorem isParamKey_root : C05.isParamKey [47] = false := by decide

/-- what the strict and the loose matcher say about the own key on the built path -/
theorem matchKey_own (s : Bool) (params : List (Bytes × Bytes)) (segs : List Seg) (hw : SegsWF segs)
    (hv : ValuesOk segs params) (hpk : C05.isParamKey (renderSegs Seg.key segs) = true) :
    C05.matchKey s (renderSegs Seg.key segs ++ [C05.cTerm]) (renderSegs (Seg.sub params) segs) =
      some (escVals params segs) := by
  have hne : segs ≠ [] := by
    intro h; subst h
    simp only [renderSegs_eq, ↓reduceIte] at hpk
    rw [isParamKey_root] at hpk; cases hpk
  simp only [renderSegs_eq, hne, ↓reduceIte]
  exact matchKey_built s params segs hw hv

theorem namesOf_own (segs : List Seg) (hw : SegsWF segs)
    (hpk : C05.isParamKey (renderSegs Seg.key segs) = true) :
    C05.namesOf (renderSegs Seg.key segs ++ [C05.cTerm]) = phNames segs := by
  have hne : segs ≠ [] := by
    intro h; subst h
    simp only [renderSegs_eq, ↓reduceIte] at hpk
    rw [isParamKey_root] at hpk; cases hpk
  simp only [renderSegs_eq, hne, ↓reduceIte]
  exact namesOf_key segs hw

theorem static_own {segs : List Seg} (hpk : C05.isParamKey (renderSegs Seg.key segs) = false) :
    phNames segs = [] := by
  by_cases hne : segs = []
  · subst hne; rfl
  · simp only [renderSegs_eq, hne, ↓reduceIte] at hpk
    exact static_of_not_param hpk

/-- **the router's answer**: for the cleaned built path of a simple template with admissible
values, in a table the router accepted and without a rival record, `Lookup` reports the own
operation with the template's names and the escaped values. -/
theorem lookup_own (api : C01.Api) (i : Nat) (op : C01.Op) (segs : List Seg)
    (params : List (Bytes × Bytes)) (t : C05.Table)
    (hop : api.ops[i]? = some op)
    (hkey : C01.convert (C01.fullPath api op) = renderSegs Seg.key segs)
    (hw : SegsWF segs) (hv : ValuesOk segs params)
    (hb : C05.build (C01.recordsFor api (toUpper op.method)) = .ok t)
    (hr : noRival api i op (renderSegs (Seg.sub params) segs) = true) :
    C05.lookup t (renderSegs (Seg.sub params) segs) = .found i (phNames segs) (escVals params segs) := by
  have hspec := C05.lookup_spec _ t (renderSegs (Seg.sub params) segs) hb
  have hown := own_mem_records api i op hop
  rw [hkey] at hown
  simp only [noRival, List.all_eq_true, Bool.not_eq_eq_eq_not, Bool.not_true, hkey] at hr
  cases hl : C05.lookup t (renderSegs (Seg.sub params) segs) with
  | notFound =>
    exfalso
    rw [hl] at hspec
    simp only [C05.specLookup, List.all_eq_true] at hspec
    have h := hspec _ hown
    simp only at h
    by_cases hpk : C05.isParamKey (renderSegs Seg.key segs) = true
    · simp only [hpk, Bool.not_true, Bool.false_eq_true, ↓reduceIte, matchKey_own false params segs hw hv hpk,
        List.any_eq_true, List.isEmpty_iff] at h
      obtain ⟨x, hx, hx0⟩ := h
      exact escVals_nonempty hv x hx hx0
    · have hpk' : C05.isParamKey (renderSegs Seg.key segs) = false := by simpa using hpk
      simp only [hpk', Bool.not_false, ↓reduceIte, bne_iff_ne, ne_eq] at h
      exact h (renderSegs_static params (static_own hpk')).symm
  | found v names vals =>
    rw [hl] at hspec
    simp only [C05.specLookup, List.any_eq_true, Bool.and_eq_true, beq_iff_eq] at hspec
    obtain ⟨kv, hkv, hkv2, hfo⟩ := hspec
    -- the record is the own one: anything else would be a rival
    have hvi : kv.2 = i := by
      apply Classical.byContradiction
      intro hne
      have hnr := hr kv hkv
      have hne' : (kv.2 != i) = true := by simpa using hne
      simp only [isRival, hne', Bool.true_and] at hnr
      by_cases hpk : C05.isParamKey kv.1 = true
      · simp only [C05.foundOk, hpk, Bool.not_true, Bool.false_eq_true, ↓reduceIte, Bool.and_eq_true,
          beq_iff_eq, Bool.not_eq_eq_eq_not, List.all_eq_true, Bool.or_eq_true] at hfo
        obtain ⟨⟨⟨hm, _⟩, hnostatic⟩, hpref⟩ := hfo
        -- the own key is parameterised (a parameter-free own key equal to the path would have won)
        have hopk : C05.isParamKey (renderSegs Seg.key segs) = true := by
          apply Classical.byContradiction
          intro hno
          have hno' : C05.isParamKey (renderSegs Seg.key segs) = false := by simpa using hno
          have : (C01.recordsFor api (toUpper op.method)).any
              (fun kv => !C05.isParamKey kv.1 && kv.1 == renderSegs (Seg.sub params) segs) = true := by
            simp only [List.any_eq_true, Bool.and_eq_true, Bool.not_eq_eq_eq_not, Bool.not_true, beq_iff_eq]
            exact ⟨_, hown, hno', (renderSegs_static params (static_own hno')).symm⟩
          rw [this] at hnostatic
          cases hnostatic
        have hstrict := matchKey_own true params segs hw hv hopk
        have hp := hpref _ hown
        simp only [hopk, hstrict, Option.isSome_some, Bool.and_self] at hp
        simp only [hpk, ↓reduceIte, hopk, Bool.true_and, hm, Option.isSome_some] at hnr
        rcases hp with hp | hp
        · cases hp
        · rw [hp] at hnr; cases hnr
      · have hpk' : C05.isParamKey kv.1 = false := by simpa using hpk
        simp only [C05.foundOk, hpk', Bool.not_false, ↓reduceIte, Bool.and_eq_true, beq_iff_eq] at hfo
        simp only [hpk', Bool.false_eq_true, ↓reduceIte, beq_eq_false_iff_ne, ne_eq] at hnr
        exact hnr hfo.1.1
    obtain ⟨op', hop', _, _, hk1⟩ := C01.mem_recordsFor hkv
    rw [hvi, hop] at hop'
    simp only [Option.some.injEq] at hop'
    subst hop'
    rw [hkey] at hk1
    rw [hk1] at hfo
    subst hkv2
    rw [hvi]
    by_cases hpk : C05.isParamKey (renderSegs Seg.key segs) = true
    · simp only [C05.foundOk, hpk, Bool.not_true, Bool.false_eq_true, ↓reduceIte, Bool.and_eq_true,
        beq_iff_eq] at hfo
      obtain ⟨⟨⟨hm, hnm⟩, _⟩, _⟩ := hfo
      rw [matchKey_own false params segs hw hv hpk] at hm
      rw [namesOf_own segs hw hpk] at hnm
      simp only [Option.some.injEq] at hm
      rw [hnm, ← hm]
    · have hpk' : C05.isParamKey (renderSegs Seg.key segs) = false := by simpa using hpk
      simp only [C05.foundOk, hpk', Bool.not_false, ↓reduceIte, Bool.and_eq_true, beq_iff_eq,
        List.isEmpty_iff] at hfo
      have hst := static_own hpk'
      have hev : escVals params segs = [] := by
        apply List.eq_nil_of_length_eq_zero
        rw [escVals_length, hst]; rfl
      rw [hst, hev, hfo.1.2, hfo.2]

end RtVerif.C04
