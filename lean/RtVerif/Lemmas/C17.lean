import RtVerif.Model.C17
import RtVerif.Base.StreamLaws
/-
  C17 lemmas: the abstract view of the tower of peeking layers, and the simulation between the
  model (`step`) and the Spec's ideal tracker (`specStep`).
-/
namespace RtVerif.C17
open RtVerif Bytes _root_.RtVerif.Stream

/-! ## The instrumented scripted stream: the late-read counter is a passive passenger -/

def csrcSem : Sem CSrc where
  R := csrcReader
  Inv := fun c => srcSem.Inv c.s
  Dead := fun c => srcSem.Dead c.s
  content := fun c => srcSem.content c.s
  term := fun c => srcSem.term c.s
  mu := fun c => srcSem.mu c.s
  zeros := fun c => srcSem.zeros c.s
  closes := fun c => srcSem.closes c.s
  sealed := fun c => srcSem.sealed c.s

theorem csrc_laws : Laws csrcSem where
  read_inv := fun c k h => src_laws.read_inv c.s k h
  read_term := fun c k => src_laws.read_term c.s k
  read_content := fun c k h => src_laws.read_content c.s k h
  read_len := fun c k h => src_laws.read_len c.s k h
  read_err := fun c k e h => src_laws.read_err c.s k e h
  read_mu := fun c k h => src_laws.read_mu c.s k h
  read_mu_lt := fun c k h => src_laws.read_mu_lt c.s k h
  read_zeros := fun c k h => src_laws.read_zeros c.s k h
  zeros_lt := fun c h => src_laws.zeros_lt c.s h
  read_closes := fun c k => src_laws.read_closes c.s k
  read_sealed := fun c k => src_laws.read_sealed c.s k
  dead_read := fun c k h => src_laws.dead_read c.s k h
  dead_close := fun c h => src_laws.dead_close c.s h
  close_dead := fun c h => src_laws.close_dead c.s h
  close_sealed := fun c h => src_laws.close_sealed c.s h
  close_unsealed := fun c h => src_laws.close_unsealed c.s h

/-! ## The tower satisfies the reader laws at every depth -/

def towerSem : (n : Nat) → Sem (Stack n)
  | 0 => csrcSem
  | n + 1 => wrapSem (towerSem n)

theorem towerSem_R : ∀ n, (towerSem n).R = tower n
  | 0 => rfl
  | n + 1 => by
    show wrap (towerSem n).R = wrap (tower n)
    rw [towerSem_R n]

theorem tower_laws : ∀ n, Laws (towerSem n)
  | 0 => csrc_laws
  | n + 1 => wrap_laws (tower_laws n)

theorem towerSem_closes : ∀ n (st : Stack n), (towerSem n).closes st = botCloses n st
  | 0, _ => rfl
  | n + 1, ps => towerSem_closes n ps.2

/-! ## Late reads: what never reaches the scripted stream

A property of inner-reader states that every `read` preserves is preserved by everything a bufio
layer does with the inner reader. -/

section
variable {σ : Type} (R : Reader σ) (P : σ → Prop) (hP : ∀ s k, P s → P (R.read s k).2)
include hP

theorem fillLoop_pres (i : Nat) (b : Buf) (s : σ) (h : P s) : P (fillLoop R i b s).2 := by
  induction i generalizing s with
  | zero => exact h
  | succ i ih =>
    rw [fillLoop_succ]
    split
    · exact hP _ _ h
    · split
      · exact ih _ (hP _ _ h)
      · exact hP _ _ h

theorem peekLoop_pres (i n : Nat) (b : Buf) (s : σ) (h : P s) : P (peekLoop R i n b s).2 := by
  induction i generalizing b s with
  | zero => exact h
  | succ i ih =>
    rw [peekLoop_succ]
    split
    · exact ih _ _ (fillLoop_pres R P hP _ _ _ h)
    · exact h

theorem hasContent_pres (b : Buf) (s : σ) (h : P s) : P (hasContent R b s).2.2 := by
  rw [hasContent_eq]
  split
  · exact h
  · show P (peek R b s 1).2.2
    rw [peek_eq]
    split <;> exact peekLoop_pres R P hP _ _ _ _ h

theorem bread_pres (b : Buf) (s : σ) (k : Nat) (h : P s) : P (bread R b s k).2.2 := by
  rcases bread_state R b s k with e | ⟨k', e⟩
  · rw [e]; exact h
  · rw [e]; exact hP _ _ h

theorem drainLoop_pres (i : Nat) (s : σ) (k : Nat) (h : P s) : P (drainLoop R i s k).2 := by
  induction i generalizing s with
  | zero => exact h
  | succ i ih =>
    rw [drainLoop_succ]
    split
    · exact hP _ _ h
    · exact ih _ (hP _ _ h)

end

/-- The scripted stream is out of reach of reads: it was never closed, or some peeking layer above
it has been closed (and answers every read itself); its late-read counter stands at `c`. -/
def Quiet (n : Nat) (c : Nat) (st : Stack n) : Prop :=
  ((towerSem n).closes st = 0 ∨ (towerSem n).sealed st = true) ∧ botLate n st = c

theorem tower_read_quiet : ∀ (n c : Nat) (st : Stack n) (k : Nat),
    Quiet n c st → Quiet n c ((tower n).read st k).2
  | 0, c, st, k, h => by
    obtain ⟨h1, h2⟩ := h
    have hc : st.s.closes = 0 := by
      rcases h1 with h1 | h1
      · exact h1
      · cases h1
    refine ⟨Or.inl ?_, ?_⟩
    · show (towerSem 0).closes ((towerSem 0).R.read st k).2 = 0
      rw [(tower_laws 0).read_closes]; exact hc
    · show (if st.isClosed then st.late + 1 else st.late) = c
      have : st.isClosed = false := by simp [CSrc.isClosed, hc]
      rw [this]; exact h2
  | n + 1, c, ps, k, h => by
    obtain ⟨h1, h2⟩ := h
    cases hcl : ps.1.closed with
    | true =>
      show Quiet (n + 1) c ((wrap (tower n)).read ps k).2
      rw [wrap_read_closed _ _ _ hcl]; exact ⟨h1, h2⟩
    | false =>
      show Quiet (n + 1) c ((wrap (tower n)).read ps k).2
      rw [wrap_read_open _ _ _ hcl]
      have hq : Quiet n c ps.2 := by
        refine ⟨?_, h2⟩
        rcases h1 with h1 | h1
        · exact Or.inl h1
        · right
          have h1 : (ps.1.closed || (towerSem n).sealed ps.2) = true := h1
          rw [hcl] at h1; simpa using h1
      have := bread_pres (tower n) (Quiet n c) (fun s k => tower_read_quiet n c s k) ps.1.b ps.2 k hq
      refine ⟨?_, this.2⟩
      rcases this.1 with h | h
      · exact Or.inl h
      · right
        show (ps.1.closed || (towerSem n).sealed (bread (tower n) ps.1.b ps.2 k).2.2) = true
        rw [h]; simp

theorem tower_close_late : ∀ (n : Nat) (st : Stack n), botLate n ((tower n).close st).2 = botLate n st
  | 0, _ => rfl
  | n + 1, ps => by
    show botLate (n + 1) ((wrap (tower n)).close ps).2 = botLate n ps.2
    cases hcl : ps.1.closed with
    | true => simp [wrap, hcl, botLate]
    | false =>
      simp only [wrap, hcl, Bool.false_eq_true, if_false, botLate]
      exact tower_close_late n ps.2

/-- What the close accounting of the Spec's tracker says about the reach of reads. -/
theorem quiet_of_acct {n : Nat} {st : Stack n} {d : Nat} {l : Bool}
    (h1 : (towerSem n).closes st = d + (if l then 1 else 0)) (h2 : (towerSem n).sealed st = l)
    (hd : d = 0) (h3 : botLate n st = 0) : Quiet n 0 st := by
  refine ⟨?_, h3⟩
  cases l with
  | true => exact Or.inr h2
  | false => left; rw [h1, hd]; rfl

/-! ## Simulation invariant -/

/-- The body is open: it still holds exactly the bytes the ideal tracker expects. -/
structure IsOpen (g : Scenario) (t : Track) (b : Body) : Prop where
  inv : (towerSem b.depth).Inv b.st
  content : (towerSem b.depth).content b.st = t.rest
  trm : (towerSem b.depth).term b.st = g.sTerm
  mu : (towerSem b.depth).mu b.st ≤ g.data.length + g.sched.length
  closes : (towerSem b.depth).closes b.st = 0
  sld : (towerSem b.depth).sealed b.st = false
  tclosed : t.closed = false
  directs : t.directs = 0
  lib : t.lib = false
  late : botLate b.depth b.st = 0

/-- The body has been closed. -/
structure IsClosed (g : Scenario) (t : Track) (b : Body) : Prop where
  dead : (towerSem b.depth).Dead b.st
  tclosed : t.closed = true
  acct : g.kind = .src →
    (towerSem b.depth).closes b.st = t.directs + (if t.lib then 1 else 0) ∧
    (towerSem b.depth).sealed b.st = t.lib ∧
    (t.directs = 0 → botLate b.depth b.st = 0)

def Sim (g : Scenario) (t : Track) (r : Req) : Prop :=
  r.cl = g.cl ∧ r.hdr = g.hdr ∧ r.limit = g.data.length + g.sched.length + 2 ∧
  match r.body with
  | none => g.kind = .nilpr ∧ t.rest = [] ∧ t.closed = false ∧ t.directs = 0 ∧ t.lib = false
  | some b => b.kind = g.kind ∧ (IsOpen g t b ∨ IsClosed g t b)

/-- Once a probe has taken the body over (`Track.probed`), the model's body is a peeking layer. -/
def Wr (t : Track) (r : Req) : Prop := t.probed = true → ∃ b, r.body = some b ∧ 1 ≤ b.depth

theorem wr_init (g : Scenario) : Wr { rest := g.sData } g.req := by intro h; cases h

theorem nilSrc_inv : csrcSem.Inv nilSrc := ⟨rfl, (by intro h; cases h), Or.inr rfl⟩

theorem sim_init (g : Scenario) (hok : okRuns g.sched = true) : Sim g { rest := g.sData } g.req := by
  refine ⟨rfl, rfl, rfl, ?_⟩
  cases hk : g.kind with
  | src =>
    simp only [Scenario.req, hk]
    refine ⟨trivial, Or.inl ⟨⟨hok, fun _ => rfl, Or.inl rfl⟩, ?_, ?_, ?_, rfl, rfl, rfl, rfl, rfl, rfl⟩⟩
    · show g.data = g.sData; simp [Scenario.sData, hk]
    · show g.term = g.sTerm; simp [Scenario.sTerm, hk]
    · exact Nat.le_refl _
  | nobody =>
    simp only [Scenario.req, hk]
    refine ⟨trivial, Or.inl ⟨nilSrc_inv, ?_, ?_, ?_, rfl, rfl, rfl, rfl, rfl, rfl⟩⟩
    · show [] = g.sData; simp [Scenario.sData, hk]
    · show Err.eof = g.sTerm; simp [Scenario.sTerm, hk]
    · show 0 + 0 ≤ _; omega
  | nilpr =>
    simp only [Scenario.req, hk]
    exact ⟨trivial, by simp [Scenario.sData, hk], trivial, trivial, trivial⟩

/-! ## `HasBody` -/

theorem parseDec_isSome_of_lenWF {g : Scenario} (h : lenWF g = true) (hh : g.hdr.isEmpty = false) :
    ∃ n : Nat, parseDec g.hdr = some n ∧ g.cl = (n : Int) := by
  simp only [lenWF, hh, Bool.false_or] at h
  split at h
  · rename_i n hn; exact ⟨n, hn, by simpa using h⟩
  · cases h

/-- On requests with consistent length information, the two length checks of `HasBody` answer as
the text demands. -/
theorem declared_of_fast {g : Scenario} (h : lenWF g = true) :
    (0 < g.cl → ∃ n, declared g = some n ∧ 0 < n) ∧
    (¬ 0 < g.cl → g.hdr.isEmpty = false → ∃ n, declared g = some n ∧ ¬ 0 < n) ∧
    (¬ 0 < g.cl → g.hdr.isEmpty = true → declared g = none) := by
  refine ⟨?_, ?_, ?_⟩
  · intro hc
    cases hh : g.hdr.isEmpty
    · obtain ⟨n, hn, hcl⟩ := parseDec_isSome_of_lenWF h hh
      exact ⟨n, by simp [declared, hh, hn], by omega⟩
    · exact ⟨g.cl, by simp [declared, hh, hc], hc⟩
  · intro hc hh
    obtain ⟨n, hn, hcl⟩ := parseDec_isSome_of_lenWF h hh
    exact ⟨n, by simp [declared, hh, hn], by omega⟩
  · intro hc hh
    simp [declared, hh, hc]

section
variable {g : Scenario} {t : Track}

theorem has_open (b : Body) (ho : IsOpen g t b) :
    (hasContent (tower b.depth) {} b.st).1 = !t.rest.isEmpty ∧
    IsOpen g t ⟨b.kind, b.depth + 1,
      (({ b := (hasContent (tower b.depth) {} b.st).2.1 } : PR), (hasContent (tower b.depth) {} b.st).2.2)⟩ := by
  have h := hasContent_spec (tower_laws b.depth) b.st ho.inv
  rw [towerSem_R] at h
  obtain ⟨h1, h2, h3, h4, h5, h6, h7⟩ := h
  have hq := hasContent_pres (tower b.depth) (Quiet b.depth 0) (fun s k => tower_read_quiet _ _ s k) {} b.st
    ⟨Or.inl ho.closes, ho.late⟩
  refine ⟨by rw [h1, ho.content], ⟨h2, ?_, ?_, ?_, ?_, ?_, ho.tclosed, ho.directs, ho.lib, hq.2⟩⟩
  · show _ ++ (towerSem b.depth).content _ = t.rest; rw [h3, ho.content]
  · show (towerSem b.depth).term _ = _; rw [h4, ho.trm]
  · show (hasContent (tower b.depth) {} b.st).2.1.buf.length +
      (towerSem b.depth).mu (hasContent (tower b.depth) {} b.st).2.2 ≤ _
    have := ho.mu; omega
  · show (towerSem b.depth).closes _ = 0; rw [h6, ho.closes]
  · show (false || (towerSem b.depth).sealed _) = false; rw [h7, ho.sld]; rfl

theorem has_closed (b : Body) (hc : IsClosed g t b) :
    (hasContent (tower b.depth) {} b.st).1 = false ∧
    IsClosed g t ⟨b.kind, b.depth + 1,
      (({ b := (hasContent (tower b.depth) {} b.st).2.1 } : PR), (hasContent (tower b.depth) {} b.st).2.2)⟩ := by
  have h := hasContent_dead (tower_laws b.depth) b.st hc.dead
  rw [towerSem_R] at h
  obtain ⟨h1, h2, h3, h4, h5⟩ := h
  refine ⟨h1, ⟨⟨h2, h3⟩, hc.tclosed, ?_⟩⟩
  intro hk
  have := hc.acct hk
  refine ⟨?_, ?_, ?_⟩
  · show (towerSem b.depth).closes _ = _; rw [h4]; exact this.1
  · show (false || (towerSem b.depth).sealed _) = _; rw [h5, Bool.false_or]; exact this.2.1
  · intro hd
    exact (hasContent_pres (tower b.depth) (Quiet b.depth 0) (fun s k => tower_read_quiet _ _ s k) {} b.st
      (quiet_of_acct this.1 this.2.1 hd (this.2.2 hd))).2

theorem step_has (r : Req) (hs : Sim g t r) :
    (specStep g t .hasBody (step r .hasBody).1).1 = true ∧
    Sim g (specStep g t .hasBody (step r .hasBody).1).2 (step r .hasBody).2 := by
  obtain ⟨hcl, hhdr, hlim, hb⟩ := hs
  show ((!lenWF g || (hasBody r).1 == specAnswer g t) = true) ∧
    Sim g { t with probed := t.probed || takesOver g } (hasBody r).2
  have frame : ∀ r', Sim g t r' → Sim g { t with probed := t.probed || takesOver g } r' := by
    intro r' h
    refine ⟨h.1, h.2.1, h.2.2.1, ?_⟩
    have h4 := h.2.2.2
    cases hb' : r'.body with
    | none => rw [hb'] at h4; exact h4
    | some b' =>
      rw [hb'] at h4
      refine ⟨h4.1, ?_⟩
      rcases h4.2 with ho | hc
      · exact Or.inl ⟨ho.inv, ho.content, ho.trm, ho.mu, ho.closes, ho.sld, ho.tclosed, ho.directs, ho.lib, ho.late⟩
      · exact Or.inr ⟨hc.dead, hc.tclosed, hc.acct⟩
  apply (fun (h : _ ∧ Sim g t (hasBody r).2) => And.intro h.1 (frame _ h.2))
  cases hwf : lenWF g
  · -- inconsistent length information: the answer is not judged, the state still is
    simp only [Bool.not_false, Bool.true_or, true_and]
    unfold hasBody
    split
    · exact ⟨hcl, hhdr, hlim, hb⟩
    · split
      · exact ⟨hcl, hhdr, hlim, hb⟩
      · cases hbody : r.body with
        | none =>
          rw [hbody] at hb
          refine ⟨hcl, hhdr, hlim, ?_⟩
          simp only
          refine ⟨hb.1.symm, Or.inl ⟨nilSrc_inv, hb.2.1.symm, ?_, ?_, rfl, rfl, hb.2.2.1, hb.2.2.2.1, hb.2.2.2.2, rfl⟩⟩
          · show Err.eof = g.sTerm; simp [Scenario.sTerm, hb.1]
          · show 0 + 0 ≤ _; omega
        | some b =>
          rw [hbody] at hb
          refine ⟨hcl, hhdr, hlim, ?_⟩
          simp only
          refine ⟨hb.1, ?_⟩
          rcases hb.2 with ho | hc
          · exact Or.inl (has_open b ho).2
          · exact Or.inr (has_closed b hc).2
  · simp only [Bool.not_true, Bool.false_or, beq_iff_eq]
    obtain ⟨d1, d2, d3⟩ := declared_of_fast hwf
    unfold hasBody
    split
    · rename_i hpos
      rw [hcl] at hpos
      obtain ⟨n, hn, hn0⟩ := d1 hpos
      exact ⟨by simp [specAnswer, hn, hn0], hcl, hhdr, hlim, hb⟩
    · rename_i hpos
      rw [hcl] at hpos
      split
      · rename_i hh
        rw [hhdr] at hh
        obtain ⟨n, hn, hn0⟩ := d2 hpos (by simpa using hh)
        exact ⟨by simp [specAnswer, hn, hn0], hcl, hhdr, hlim, hb⟩
      · rename_i hh
        rw [hhdr] at hh
        have hd := d3 hpos (by simpa using hh)
        cases hbody : r.body with
        | none =>
          rw [hbody] at hb
          refine ⟨by simp [specAnswer, hd, hb.2.1], hcl, hhdr, hlim, ?_⟩
          simp only
          refine ⟨hb.1.symm, Or.inl ⟨nilSrc_inv, hb.2.1.symm, ?_, ?_, rfl, rfl, hb.2.2.1, hb.2.2.2.1, hb.2.2.2.2, rfl⟩⟩
          · show Err.eof = g.sTerm; simp [Scenario.sTerm, hb.1]
          · show 0 + 0 ≤ _; omega
        | some b =>
          rw [hbody] at hb
          simp only
          rcases hb.2 with ho | hc
          · have := has_open b ho
            refine ⟨by simp [specAnswer, hd, this.1, ho.tclosed], hcl, hhdr, hlim, hb.1, Or.inl this.2⟩
          · have := has_closed b hc
            refine ⟨by simp [specAnswer, hd, this.1, hc.tclosed], hcl, hhdr, hlim, hb.1, Or.inr this.2⟩

end
/-! ## `Read`, `Drain`, `Close` -/

theorem tower_read_open (n : Nat) (st : Stack n) (k : Nat) (hI : (towerSem n).Inv st) :
    (towerSem n).Inv ((tower n).read st k).2 ∧
    (towerSem n).content st = ((tower n).read st k).1.1 ++ (towerSem n).content ((tower n).read st k).2 ∧
    ((tower n).read st k).1.1.length ≤ k ∧
    (∀ e, ((tower n).read st k).1.2 = some e →
      e = (towerSem n).term st ∧ (towerSem n).content ((tower n).read st k).2 = []) ∧
    (towerSem n).mu ((tower n).read st k).2 ≤ (towerSem n).mu st ∧
    (towerSem n).term ((tower n).read st k).2 = (towerSem n).term st ∧
    (towerSem n).closes ((tower n).read st k).2 = (towerSem n).closes st ∧
    (towerSem n).sealed ((tower n).read st k).2 = (towerSem n).sealed st := by
  have L := tower_laws n
  rw [← towerSem_R n]
  exact ⟨L.read_inv _ _ hI, L.read_content _ _ hI, L.read_len _ _ hI, fun e => L.read_err _ _ e hI,
    by have := L.read_mu st k hI; omega, L.read_term _ _, L.read_closes _ _, L.read_sealed _ _⟩

theorem tower_read_dead (n : Nat) (st : Stack n) (k : Nat) (hD : (towerSem n).Dead st) :
    ((tower n).read st k).1.1 = [] ∧ (0 < k → ((tower n).read st k).1.2 ≠ none) ∧
    (towerSem n).Dead ((tower n).read st k).2 ∧
    (towerSem n).closes ((tower n).read st k).2 = (towerSem n).closes st ∧
    (towerSem n).sealed ((tower n).read st k).2 = (towerSem n).sealed st := by
  have L := tower_laws n
  rw [← towerSem_R n]
  exact ⟨(L.dead_read _ _ hD).1, (L.dead_read _ _ hD).2.1, (L.dead_read _ _ hD).2.2,
    L.read_closes _ _, L.read_sealed _ _⟩

section
variable {g : Scenario} {t : Track}

theorem closed_late_read {b : Body} (hc : IsClosed g t b) (k : Nat) (hk : g.kind = .src)
    (hd : t.directs = 0) : botLate b.depth ((tower b.depth).read b.st k).2 = 0 :=
  (tower_read_quiet _ _ _ k (quiet_of_acct (hc.acct hk).1 (hc.acct hk).2.1 hd ((hc.acct hk).2.2 hd))).2

theorem closed_late_drain {b : Body} (hc : IsClosed g t b) (i k : Nat) (hk : g.kind = .src)
    (hd : t.directs = 0) : botLate b.depth (drainLoop (tower b.depth) i b.st k).2 = 0 :=
  (drainLoop_pres (tower b.depth) (Quiet b.depth 0) (fun s k => tower_read_quiet _ _ s k) i b.st k
    (quiet_of_acct (hc.acct hk).1 (hc.acct hk).2.1 hd ((hc.acct hk).2.2 hd))).2

theorem open_late_read {b : Body} (ho : IsOpen g t b) (k : Nat) :
    botLate b.depth ((tower b.depth).read b.st k).2 = 0 :=
  (tower_read_quiet _ _ _ k ⟨Or.inl ho.closes, ho.late⟩).2

theorem open_late_drain {b : Body} (ho : IsOpen g t b) (i k : Nat) :
    botLate b.depth (drainLoop (tower b.depth) i b.st k).2 = 0 :=
  (drainLoop_pres (tower b.depth) (Quiet b.depth 0) (fun s k => tower_read_quiet _ _ s k) i b.st k
    ⟨Or.inl ho.closes, ho.late⟩).2

theorem step_nil (r : Req) (op : Op) (hop : op ≠ .hasBody) (hs : Sim g t r) (hb : r.body = none) :
    (specStep g t op (step r op).1).1 = true ∧ Sim g (specStep g t op (step r op).1).2 (step r op).2 := by
  have hk : g.kind = .nilpr := by
    have := hs.2.2.2; rw [hb] at this; exact this.1
  cases op with
  | hasBody => exact absurd rfl hop
  | read k => simp only [step, hb, specStep, hk, beq_self_eq_true, true_and]; exact hs
  | close => simp only [step, hb, specStep, hk, beq_self_eq_true, true_and]; exact hs
  | drain k => simp only [step, hb, specStep, hk, beq_self_eq_true, true_and]; exact hs

theorem step_read (r : Req) (k : Nat) (hs : Sim g t r) :
    (specStep g t (.read k) (step r (.read k)).1).1 = true ∧
    Sim g (specStep g t (.read k) (step r (.read k)).1).2 (step r (.read k)).2 := by
  cases hbody : r.body with
  | none => exact step_nil r _ (by intro h; cases h) hs hbody
  | some b =>
    obtain ⟨hcl, hhdr, hlim, hb⟩ := hs
    rw [hbody] at hb
    simp only [step, hbody, readOp, specStep]
    rcases hb.2 with ho | hc
    · obtain ⟨h1, h2, h3, h4, h5, h6, h7, h8⟩ := tower_read_open b.depth b.st k ho.inv
      rw [ho.content] at h2
      simp only [ho.tclosed, Bool.false_eq_true, if_false]
      have hl := open_late_read ho k
      generalize (tower b.depth).read b.st k = x at *
      refine ⟨?_, hcl, hhdr, hlim, hb.1, Or.inl ⟨h1, ?_, ?_,
        (by have := ho.mu; show (towerSem b.depth).mu x.2 ≤ _; omega), ?_, ?_, rfl, ho.directs, ho.lib, hl⟩⟩
      · simp only [Bool.and_eq_true, decide_eq_true_eq]
        refine ⟨⟨h3, ?_⟩, ?_⟩
        · rw [List.isPrefixOf_iff_prefix, h2]; exact List.prefix_append _ _
        · cases he : x.1.2 with
          | none => rfl
          | some e =>
            have := h4 e he
            simp only [Bool.and_eq_true, beq_iff_eq]
            refine ⟨by rw [this.1, ho.trm], ?_⟩
            rw [h2, List.drop_left, this.2]; rfl
      · show (towerSem b.depth).content x.2 = t.rest.drop x.1.1.length
        rw [h2, List.drop_left]
      · show (towerSem b.depth).term x.2 = _; rw [h6, ho.trm]
      · show (towerSem b.depth).closes x.2 = 0; rw [h7, ho.closes]
      · show (towerSem b.depth).sealed x.2 = false; rw [h8, ho.sld]
    · obtain ⟨h1, h2, h3, h4, h5⟩ := tower_read_dead b.depth b.st k hc.dead
      simp only [hc.tclosed, if_true]
      have hl := closed_late_read hc k
      generalize (tower b.depth).read b.st k = x at *
      refine ⟨?_, hcl, hhdr, hlim, hb.1, Or.inr ⟨h3, hc.tclosed, ?_⟩⟩
      · simp only [Bool.and_eq_true, Bool.or_eq_true, beq_iff_eq, List.isEmpty_iff]
        refine ⟨h1, ?_⟩
        cases k with
        | zero => exact Or.inl rfl
        | succ k =>
          right
          cases he : x.1.2 with
          | none => exact absurd he (h2 (Nat.succ_pos k))
          | some e => rfl
      · intro hk
        have := hc.acct hk
        exact ⟨by show (towerSem b.depth).closes x.2 = _; rw [h4]; exact this.1,
               by show (towerSem b.depth).sealed x.2 = _; rw [h5]; exact this.2.1, hl hk⟩

end
theorem tower_drain_frame (n : Nat) (st : Stack n) (k i : Nat) :
    (towerSem n).closes (drainLoop (tower n) i st k).2 = (towerSem n).closes st ∧
    (towerSem n).sealed (drainLoop (tower n) i st k).2 = (towerSem n).sealed st := by
  have := drainLoop_frame (tower_laws n) i st k
  rw [towerSem_R] at this; exact this

theorem tower_drain_open (n : Nat) (st : Stack n) (k i : Nat) (hI : (towerSem n).Inv st) (hk : 0 < k)
    (hi : (towerSem n).mu st < i) :
    (drainLoop (tower n) i st k).1 = ((towerSem n).content st, some ((towerSem n).term st), false) ∧
    (towerSem n).Inv (drainLoop (tower n) i st k).2 ∧
    (towerSem n).content (drainLoop (tower n) i st k).2 = [] ∧
    (towerSem n).term (drainLoop (tower n) i st k).2 = (towerSem n).term st ∧
    (towerSem n).mu (drainLoop (tower n) i st k).2 ≤ (towerSem n).mu st := by
  have := drainLoop_spec (tower_laws n) i st k hI hk hi
  rw [towerSem_R] at this; exact this

theorem tower_drain_safe (n : Nat) (st : Stack n) (k i : Nat) (hI : (towerSem n).Inv st) :
    (towerSem n).Inv (drainLoop (tower n) i st k).2 ∧
    (towerSem n).content st =
      (drainLoop (tower n) i st k).1.1 ++ (towerSem n).content (drainLoop (tower n) i st k).2 ∧
    (towerSem n).term (drainLoop (tower n) i st k).2 = (towerSem n).term st ∧
    (towerSem n).mu (drainLoop (tower n) i st k).2 ≤ (towerSem n).mu st ∧
    (k = 0 → (drainLoop (tower n) i st k).1.1 = []) := by
  have := drainLoop_safe (tower_laws n) i st k hI
  rw [towerSem_R] at this; exact this

theorem tower_drain_dead (n : Nat) (st : Stack n) (k i : Nat) (hD : (towerSem n).Dead st) (hk : 0 < k) :
    (∃ e, (drainLoop (tower n) (i + 1) st k).1 = ([], some e, false)) ∧
    (towerSem n).Dead (drainLoop (tower n) (i + 1) st k).2 := by
  have := drainLoop_dead (tower_laws n) i st k hD hk
  rw [towerSem_R] at this; exact this

theorem tower_drain_dead_any (n : Nat) (st : Stack n) (k i : Nat) (hD : (towerSem n).Dead st) :
    (drainLoop (tower n) i st k).1.1 = [] ∧ (towerSem n).Dead (drainLoop (tower n) i st k).2 := by
  have := drainLoop_dead_any (tower_laws n) i st k hD
  rw [towerSem_R] at this; exact this

section
variable {g : Scenario} {t : Track}

theorem step_drain (r : Req) (k : Nat) (hs : Sim g t r) :
    (specStep g t (.drain k) (step r (.drain k)).1).1 = true ∧
    Sim g (specStep g t (.drain k) (step r (.drain k)).1).2 (step r (.drain k)).2 := by
  cases hbody : r.body with
  | none => exact step_nil r _ (by intro h; cases h) hs hbody
  | some b =>
    obtain ⟨hcl, hhdr, hlim, hb⟩ := hs
    rw [hbody] at hb
    simp only [step, hbody, drainOp, specStep]
    obtain ⟨f1, f2⟩ := tower_drain_frame b.depth b.st k r.limit
    cases k with
    | zero =>
      simp only [beq_self_eq_true, if_true]
      rcases hb.2 with ho | hc
      · obtain ⟨h1, h2, h3, h4, h5⟩ := tower_drain_safe b.depth b.st 0 r.limit ho.inv
        have hlt := open_late_drain ho r.limit 0
        generalize drainLoop (tower b.depth) r.limit b.st 0 = x at *
        have hd := h5 rfl
        rw [hd, List.nil_append] at h2
        refine ⟨by rw [hd]; rfl, hcl, hhdr, hlim, hb.1, Or.inl ⟨h1, ?_, ?_, ?_, ?_, ?_, ho.tclosed, ho.directs, ho.lib, hlt⟩⟩
        · show (towerSem b.depth).content x.2 = _; rw [← h2, ho.content]
        · show (towerSem b.depth).term x.2 = _; rw [h3, ho.trm]
        · have := ho.mu; show (towerSem b.depth).mu x.2 ≤ _; omega
        · show (towerSem b.depth).closes x.2 = 0; rw [f1, ho.closes]
        · show (towerSem b.depth).sealed x.2 = false; rw [f2, ho.sld]
      · obtain ⟨h1, h2⟩ := tower_drain_dead_any b.depth b.st 0 r.limit hc.dead
        have hlt := closed_late_drain hc r.limit 0
        generalize drainLoop (tower b.depth) r.limit b.st 0 = x at *
        refine ⟨by rw [h1]; rfl, hcl, hhdr, hlim, hb.1, Or.inr ⟨h2, hc.tclosed, ?_⟩⟩
        intro hk
        have := hc.acct hk
        exact ⟨by show (towerSem b.depth).closes x.2 = _; rw [f1]; exact this.1,
               by show (towerSem b.depth).sealed x.2 = _; rw [f2]; exact this.2.1, hlt hk⟩
    | succ k =>
      have hk0 : (k + 1 == 0) = false := by simp
      simp only [hk0, Bool.false_eq_true, if_false]
      rcases hb.2 with ho | hc
      · have hmu : (towerSem b.depth).mu b.st < r.limit := by have := ho.mu; omega
        obtain ⟨h1, h2, h3, h4, h5⟩ :=
          tower_drain_open b.depth b.st (k + 1) r.limit ho.inv (Nat.succ_pos k) hmu
        simp only [ho.tclosed, Bool.false_eq_true, if_false]
        have hlt := open_late_drain ho r.limit (k + 1)
        generalize drainLoop (tower b.depth) r.limit b.st (k + 1) = x at *
        refine ⟨?_, hcl, hhdr, hlim, hb.1, Or.inl ⟨h2, h3, ?_, ?_, ?_, ?_, rfl, ho.directs, ho.lib, hlt⟩⟩
        · rw [h1, ho.content, ho.trm]; simp
        · show (towerSem b.depth).term x.2 = _; rw [h4, ho.trm]
        · have := ho.mu; show (towerSem b.depth).mu x.2 ≤ _; omega
        · show (towerSem b.depth).closes x.2 = 0; rw [f1, ho.closes]
        · show (towerSem b.depth).sealed x.2 = false; rw [f2, ho.sld]
      · have hl : r.limit = (g.data.length + g.sched.length + 1) + 1 := by omega
        rw [hl] at f1 f2 ⊢
        obtain ⟨⟨e, h1⟩, h2⟩ := tower_drain_dead b.depth b.st (k + 1) (g.data.length + g.sched.length + 1)
          hc.dead (Nat.succ_pos k)
        simp only [hc.tclosed, if_true]
        have hlt := closed_late_drain hc (g.data.length + g.sched.length + 1 + 1) (k + 1)
        generalize drainLoop (tower b.depth) (g.data.length + g.sched.length + 1 + 1) b.st (k + 1) = x at *
        refine ⟨by rw [h1]; rfl, hcl, hhdr, ?_, hb.1, Or.inr ⟨h2, hc.tclosed, ?_⟩⟩
        · show _ + 1 + 1 = _ + 2; omega
        · intro hk
          have := hc.acct hk
          exact ⟨by show (towerSem b.depth).closes x.2 = _; rw [f1]; exact this.1,
                 by show (towerSem b.depth).sealed x.2 = _; rw [f2]; exact this.2.1, hlt hk⟩

end
theorem tower_close_open (n : Nat) (st : Stack n) (hI : (towerSem n).Inv st) :
    (towerSem n).Dead ((tower n).close st).2 := by
  have := (tower_laws n).close_dead st hI
  rw [towerSem_R] at this; exact this

theorem tower_close_dead (n : Nat) (st : Stack n) (hD : (towerSem n).Dead st) :
    (towerSem n).Dead ((tower n).close st).2 := by
  have := (tower_laws n).dead_close st hD
  rw [towerSem_R] at this; exact this

theorem tower_close_sealed (n : Nat) (st : Stack n) (h : (towerSem n).sealed st = true) :
    (towerSem n).closes ((tower n).close st).2 = (towerSem n).closes st ∧
    (towerSem n).sealed ((tower n).close st).2 = true := by
  have := (tower_laws n).close_sealed st h
  rw [towerSem_R] at this; exact this

theorem tower_close_unsealed (n : Nat) (st : Stack n) (h : (towerSem n).sealed st = false) :
    (towerSem n).closes ((tower n).close st).2 = (towerSem n).closes st + 1 := by
  have := (tower_laws n).close_unsealed st h
  rw [towerSem_R] at this; exact this

theorem tower_close_succ_sealed (n : Nat) (ps : Stack (n + 1)) :
    (towerSem (n + 1)).sealed ((tower (n + 1)).close ps).2 = true := by
  have := wrap_close_sealed (S := towerSem n) ps
  rw [towerSem_R] at this; exact this

theorem tower_zero_sealed (st : Stack 0) : (towerSem 0).sealed st = false := rfl

section
variable {g : Scenario} {t : Track}

theorem direct_false_of_depth {b : Body} (hd : 1 ≤ b.depth) : b.direct = false := by
  unfold Body.direct
  have : (b.depth == 0) = false := by rw [beq_eq_false_iff_ne]; omega
  rw [this]; rfl

theorem step_close (r : Req) (hs : Sim g t r) (hw : Wr t r) :
    (specStep g t .close (step r .close).1).1 = true ∧
    Sim g (specStep g t .close (step r .close).1).2 (step r .close).2 := by
  cases hbody : r.body with
  | none => exact step_nil r _ (by intro h; cases h) hs hbody
  | some b =>
    obtain ⟨hcl, hhdr, hlim, hb⟩ := hs
    rw [hbody] at hb
    simp only [step, hbody, closeOp, specStep]
    refine ⟨?_, hcl, hhdr, hlim, hb.1, Or.inr ?_⟩
    · -- a probe took the body over: the model's body is a peeking layer, the close is not direct
      cases hp : t.probed with
      | false => rfl
      | true =>
        obtain ⟨b', hb', hd'⟩ := hw hp
        rw [hbody] at hb'; cases hb'
        rw [direct_false_of_depth hd']; rfl
    obtain ⟨bk, n, st⟩ := b
    have hbk : bk = g.kind := hb.1
    rcases hb.2 with ho | hc
    · refine ⟨tower_close_open n st ho.inv, rfl, ?_⟩
      intro hk
      rw [hk] at hbk; subst hbk
      have hcl' := tower_close_unsealed n st ho.sld
      have hc0 : (towerSem n).closes st = 0 := ho.closes
      have hd : t.directs = 0 := ho.directs
      have hl : t.lib = false := ho.lib
      have hlt : botLate n ((tower n).close st).2 = 0 := by rw [tower_close_late]; exact ho.late
      cases n with
      | zero =>
        refine ⟨?_, ?_, fun _ => hlt⟩
        · show (towerSem 0).closes ((tower 0).close st).2 = _
          rw [hcl', hc0]; simp [Body.direct, hd, hl]
        · show (towerSem 0).sealed ((tower 0).close st).2 = _
          rw [tower_zero_sealed]; simp [Body.direct, hl]
      | succ n =>
        refine ⟨?_, ?_, fun _ => hlt⟩
        · show (towerSem (n + 1)).closes ((tower (n + 1)).close st).2 = _
          rw [hcl', hc0]; simp [Body.direct, hd]
        · show (towerSem (n + 1)).sealed ((tower (n + 1)).close st).2 = _
          rw [tower_close_succ_sealed]; simp [Body.direct]
    · refine ⟨tower_close_dead n st hc.dead, rfl, ?_⟩
      intro hk
      rw [hk] at hbk; subst hbk
      obtain ⟨a1, a2, a3⟩ := hc.acct hk
      have a1 : (towerSem n).closes st = t.directs + (if t.lib then 1 else 0) := a1
      have a2 : (towerSem n).sealed st = t.lib := a2
      have a3 : t.directs = 0 → botLate n st = 0 := a3
      have hlt : ∀ d', t.directs ≤ d' → d' = 0 → botLate n ((tower n).close st).2 = 0 := by
        intro d' h1 h2; rw [tower_close_late]; exact a3 (by omega)
      cases n with
      | zero =>
        have hl : t.lib = false := by rw [← a2]; rfl
        have hcl' := tower_close_unsealed 0 st rfl
        refine ⟨?_, ?_, ?_⟩
        · show (towerSem 0).closes ((tower 0).close st).2 = _
          rw [hcl', a1]; simp [Body.direct, hl]
        · show (towerSem 0).sealed ((tower 0).close st).2 = _
          rw [tower_zero_sealed]; simp [Body.direct, hl]
        · exact hlt _ (by simp only; split <;> omega)
      | succ n =>
        refine ⟨?_, ?_, ?_⟩
        · show (towerSem (n + 1)).closes ((tower (n + 1)).close st).2 = _
          cases hl : t.lib with
          | true =>
            rw [hl] at a1 a2
            rw [(tower_close_sealed (n + 1) st a2).1, a1]; simp [Body.direct]
          | false =>
            rw [hl] at a1 a2
            rw [tower_close_unsealed (n + 1) st a2, a1]; simp [Body.direct]
        · show (towerSem (n + 1)).sealed ((tower (n + 1)).close st).2 = _
          rw [tower_close_succ_sealed]; simp [Body.direct]
        · exact hlt _ (by simp only; split <;> omega)

theorem specStep_acct_other {g : Scenario} (t : Track) (op : Op) (o : Out) (hop : op ≠ .close) :
    (specStep g t op o).2.directs = t.directs ∧ (specStep g t op o).2.lib = t.lib := by
  cases op <;> cases o <;> simp only [specStep] <;> (try exact absurd rfl hop) <;>
    (repeat' split) <;> first | exact ⟨rfl, rfl⟩ | exact ⟨trivial, trivial⟩ | simp

theorem step_wrapped (r : Req) (op : Op) (b : Body) (hb : r.body = some b) (hd : 1 ≤ b.depth) :
    (∃ b', (step r op).2.body = some b' ∧ 1 ≤ b'.depth) ∧
    (op = .close → ∃ e, (step r op).1 = .cl e false) := by
  cases op with
  | hasBody =>
    refine ⟨?_, fun h => by cases h⟩
    show ∃ b', (hasBody r).2.body = some b' ∧ _
    unfold hasBody
    split
    · exact ⟨b, hb, hd⟩
    · split
      · exact ⟨b, hb, hd⟩
      · simp only [hb]; exact ⟨_, rfl, by show 1 ≤ b.depth + 1; omega⟩
  | read k => simp only [step, hb, readOp]; exact ⟨⟨_, rfl, hd⟩, fun h => by cases h⟩
  | drain k => simp only [step, hb, drainOp]; exact ⟨⟨_, rfl, hd⟩, fun h => by cases h⟩
  | close =>
    simp only [step, hb, closeOp]
    refine ⟨⟨_, rfl, hd⟩, fun _ => ⟨((tower b.depth).close b.st).1, ?_⟩⟩
    have : b.direct = false := by
      unfold Body.direct
      have : (b.depth == 0) = false := by
        rw [beq_eq_false_iff_ne]; omega
      rw [this]; rfl
    rw [this]


theorem specStep_probed_other {g : Scenario} (t : Track) (op : Op) (o : Out) (hop : op ≠ .hasBody) :
    (specStep g t op o).2.probed = t.probed := by
  cases op <;> cases o <;> simp only [specStep] <;> (try exact absurd rfl hop) <;>
    (repeat' split) <;> rfl

/-- The tracker's `probed` flag is only ever set when the model's body is a peeking layer. -/
theorem step_wr {g : Scenario} {t : Track} (r : Req) (op : Op) (hs : Sim g t r) (hw : Wr t r) :
    Wr (specStep g t op (step r op).1).2 (step r op).2 := by
  intro hp
  by_cases hop : op = .hasBody
  · subst hop
    have hp : (t.probed || takesOver g) = true := hp
    cases hpr : t.probed with
    | true =>
      obtain ⟨b, hb, hd⟩ := hw hpr
      exact (step_wrapped r .hasBody b hb hd).1
    | false =>
      rw [hpr, Bool.false_or] at hp
      simp only [takesOver, undeclared, Bool.and_eq_true, Bool.not_eq_true', decide_eq_false_iff_not,
        bne_iff_ne, ne_eq] at hp
      obtain ⟨hcl, hhdr, _, hb⟩ := hs
      show ∃ b, (hasBody r).2.body = some b ∧ 1 ≤ b.depth
      unfold hasBody
      have h1 : ¬ 0 < r.cl := by rw [hcl]; exact hp.1.2
      have h2 : (!r.hdr.isEmpty) = false := by rw [hhdr, hp.1.1]; rfl
      simp only [h1, if_false, h2, Bool.false_eq_true]
      cases hbody : r.body with
      | none => rw [hbody] at hb; exact absurd hb.1 hp.2
      | some b => exact ⟨_, rfl, by show 1 ≤ b.depth + 1; omega⟩
  · rw [specStep_probed_other t op _ hop] at hp
    obtain ⟨b, hb, hd⟩ := hw hp
    exact (step_wrapped r op b hb hd).1

/-- One step of the model is accepted by the Spec's step, and the simulation carries on. -/
theorem step_sim (r : Req) (op : Op) (hs : Sim g t r) (hw : Wr t r) :
    (specStep g t op (step r op).1).1 = true ∧ Sim g (specStep g t op (step r op).1).2 (step r op).2 ∧
      Wr (specStep g t op (step r op).1).2 (step r op).2 := by
  have h : (specStep g t op (step r op).1).1 = true ∧
      Sim g (specStep g t op (step r op).1).2 (step r op).2 := by
    cases op with
    | hasBody => exact step_has r hs
    | read k => exact step_read r k hs
    | close => exact step_close r hs hw
    | drain k => exact step_drain r k hs
  exact ⟨h.1, h.2, step_wr r op hs hw⟩

theorem runOps_cons (r : Req) (op : Op) (ops : List Op) :
    runOps r (op :: ops) = ((step r op).1 :: (runOps (step r op).2 ops).1, (runOps (step r op).2 ops).2) := rfl

theorem specGo_cons (t : Track) (op : Op) (ops : List Op) (o : Out) (outs : List Out) :
    specGo g t (op :: ops) (o :: outs) =
      ((specStep g t op o).1 && (specGo g (specStep g t op o).2 ops outs).1,
       (specGo g (specStep g t op o).2 ops outs).2) := rfl

theorem run_sim (ops : List Op) (r : Req) (hs : Sim g t r) (hw : Wr t r) :
    (specGo g t ops (runOps r ops).1).1 = true ∧
    Sim g (specGo g t ops (runOps r ops).1).2 (runOps r ops).2 ∧
    Wr (specGo g t ops (runOps r ops).1).2 (runOps r ops).2 := by
  induction ops generalizing t r with
  | nil => exact ⟨rfl, hs, hw⟩
  | cons op ops ih =>
    rw [runOps_cons, specGo_cons]
    have h := step_sim r op hs hw
    have h2 := ih (step r op).2 h.2.1 h.2.2
    exact ⟨by simp only [h.1, h2.1, Bool.and_self], h2.2⟩

theorem sim_closes (r : Req) (hs : Sim g t r) : specCloses g t (reportedCloses g r) = true := by
  unfold specCloses
  cases hk : g.kind with
  | nobody => rfl
  | nilpr => rfl
  | src =>
    have hb := hs.2.2.2
    cases hbody : r.body with
    | none => rw [hbody] at hb; rw [hk] at hb; cases hb.1
    | some b =>
      rw [hbody] at hb
      simp only [reportedCloses, hk, hbody, bne_self_eq_false, Bool.false_or, beq_iff_eq]
      rw [← towerSem_closes]
      rcases hb.2 with ho | hc
      · rw [ho.closes, ho.directs, ho.lib]; rfl
      · exact (hc.acct hk).1

theorem sim_late (r : Req) (hs : Sim g t r) : specLate g t (reportedLate g r) = true := by
  unfold specLate
  cases hk : g.kind with
  | nobody => rfl
  | nilpr => rfl
  | src =>
    have hb := hs.2.2.2
    cases hbody : r.body with
    | none => rw [hbody] at hb; rw [hk] at hb; cases hb.1
    | some b =>
      rw [hbody] at hb
      simp only [reportedLate, hk, hbody, bne_self_eq_false, Bool.false_or, Bool.or_eq_true, bne_iff_ne,
        ne_eq, beq_iff_eq]
      rcases hb.2 with ho | hc
      · right; exact ho.late
      · by_cases hd : t.directs = 0
        · right; exact (hc.acct hk).2.2 hd
        · left; exact hd

end
/-! ## Facts about the Spec itself, and about histories -/

/-- All bytes handed out by the `Read`/`Drain` ops of a trace, in order. -/
def delivered : List Out → Bytes
  | [] => []
  | .rd d _ :: r => d ++ delivered r
  | .dr d _ _ :: r => d ++ delivered r
  | _ :: r => delivered r

theorem delivered_append (a b : List Out) : delivered (a ++ b) = delivered a ++ delivered b := by
  induction a with
  | nil => rfl
  | cons o r ih => cases o <;> simp [delivered, ih]

theorem prefix_take_drop {d l : Bytes} (h : d.isPrefixOf l = true) : d ++ l.drop d.length = l := by
  rw [List.isPrefixOf_iff_prefix] at h
  obtain ⟨c, rfl⟩ := h
  rw [List.drop_left]

section
variable {g : Scenario}

/-- What the Spec accepts on a history without `Close`: the bytes handed out so far, followed by the
bytes the ideal tracker still expects, are the original bytes. -/
theorem specGo_delivered (ops : List Op) (outs : List Out) (t : Track)
    (hnc : ∀ op ∈ ops, op ≠ .close) (hc : t.closed = false)
    (h : (specGo g t ops outs).1 = true) :
    (specGo g t ops outs).2.closed = false ∧ delivered outs ++ (specGo g t ops outs).2.rest = t.rest := by
  induction ops generalizing outs t with
  | nil =>
    cases outs with
    | nil => exact ⟨hc, rfl⟩
    | cons o r => simp [specGo] at h
  | cons op ops ih =>
    cases outs with
    | nil => simp [specGo] at h
    | cons o outs =>
      rw [specGo_cons] at h ⊢
      simp only [Bool.and_eq_true] at h
      have hnc' : ∀ op ∈ ops, op ≠ .close := fun o ho => hnc o (List.mem_cons_of_mem _ ho)
      have hop : op ≠ .close := hnc op List.mem_cons_self
      obtain ⟨rest, cl, di, li, pr⟩ := t
      simp only at hc
      subst hc
      cases op with
      | close => exact absurd rfl hop
      | hasBody =>
        cases o with
        | has b =>
          have := ih outs _ hnc' rfl h.2
          exact ⟨this.1, this.2⟩
        | _ => simp [specStep] at h
      | read k =>
        cases o with
        | nilBody =>
          have := ih outs _ hnc' rfl h.2
          exact ⟨this.1, this.2⟩
        | rd d e =>
          have h1 := h.1
          simp only [specStep, Bool.false_eq_true, if_false, Bool.and_eq_true] at h1
          have := ih outs _ hnc' rfl h.2
          refine ⟨this.1, ?_⟩
          show d ++ delivered outs ++ _ = rest
          rw [List.append_assoc, this.2]
          exact prefix_take_drop h1.1.2
        | _ => simp [specStep] at h
      | drain k =>
        cases o with
        | nilBody =>
          have := ih outs _ hnc' rfl h.2
          exact ⟨this.1, this.2⟩
        | dr d e cap =>
          cases k with
          | zero =>
            have h1 := h.1
            simp only [specStep, beq_self_eq_true, if_true, List.isEmpty_iff] at h1
            have := ih outs _ hnc' rfl h.2
            refine ⟨this.1, ?_⟩
            show d ++ delivered outs ++ _ = rest
            rw [h1, List.nil_append]; exact this.2
          | succ k =>
            have hk0 : (k + 1 == 0) = false := by simp
            have h1 := h.1
            simp only [specStep, hk0, Bool.false_eq_true, if_false, Bool.and_eq_true, beq_iff_eq] at h1
            have := ih outs _ hnc' rfl h.2
            refine ⟨this.1, ?_⟩
            show d ++ delivered outs ++ _ = rest
            rw [List.append_assoc, this.2]
            have hr : (specStep g { rest := rest, directs := di, lib := li, probed := pr } (.drain (k + 1)) (.dr d e cap)).2.rest = [] := by
              simp [specStep]
            rw [hr, List.append_nil, h1.1.1]
        | _ => simp [specStep] at h

/-- Once the ideal tracker has seen a `Close`, it stays closed. -/
theorem specStep_closed (t : Track) (op : Op) (o : Out) (h : t.closed = true) :
    (specStep g t op o).2.closed = true := by
  cases op <;> cases o <;> simp only [specStep] <;> (try exact h) <;> (repeat' split) <;> (try exact h) <;> rfl

theorem specGo_closed (ops : List Op) (outs : List Out) (t : Track) (h : t.closed = true) :
    (specGo g t ops outs).2.closed = true := by
  induction ops generalizing outs t with
  | nil => cases outs <;> exact h
  | cons op ops ih =>
    cases outs with
    | nil => exact h
    | cons o outs => rw [specGo_cons]; exact ih outs _ (specStep_closed t op o h)

end

theorem runOps_append (r : Req) (a b : List Op) :
    runOps r (a ++ b) = ((runOps r a).1 ++ (runOps (runOps r a).2 b).1, (runOps (runOps r a).2 b).2) := by
  induction a generalizing r with
  | nil => rfl
  | cons op a ih => simp only [List.cons_append, runOps_cons, ih]

theorem specGo_append {g : Scenario} (t : Track) (a b : List Op) (oa ob : List Out)
    (hl : a.length = oa.length) :
    specGo g t (a ++ b) (oa ++ ob) =
      ((specGo g t a oa).1 && (specGo g (specGo g t a oa).2 b ob).1, (specGo g (specGo g t a oa).2 b ob).2) := by
  induction a generalizing t oa with
  | nil =>
    cases oa with
    | nil => simp [specGo]
    | cons o r => simp at hl
  | cons op a ih =>
    cases oa with
    | nil => simp at hl
    | cons o oa =>
      simp only [List.cons_append, specGo_cons]
      rw [ih _ oa (by simpa using hl)]
      simp only [Bool.and_assoc]

theorem runOps_length (r : Req) (ops : List Op) : (runOps r ops).1.length = ops.length := by
  induction ops generalizing r with
  | nil => rfl
  | cons op ops ih => rw [runOps_cons]; simp [ih]
/-! ## The answer of a probe, and the accounting of `Close` calls -/

/-- What `HasBody` answers in a state the ideal tracker describes (no assumption on the length
fields). -/
def modelAnswer (g : Scenario) (t : Track) : Bool :=
  if 0 < g.cl then true else if !g.hdr.isEmpty then false else (!t.closed && !t.rest.isEmpty)

theorem has_value {g : Scenario} {t : Track} (r : Req) (hs : Sim g t r) :
    (hasBody r).1 = modelAnswer g t := by
  obtain ⟨hcl, hhdr, hlim, hb⟩ := hs
  unfold hasBody modelAnswer
  rw [hcl, hhdr]
  split
  · rfl
  · split
    · rfl
    · cases hbody : r.body with
      | none => rw [hbody] at hb; simp [hb.2.1]
      | some b =>
        rw [hbody] at hb
        simp only
        rcases hb.2 with ho | hc
        · rw [(has_open b ho).1, ho.tclosed]; rfl
        · rw [(has_closed b hc).1, hc.tclosed]; rfl

/-- Once the body is a wrapper made by `HasBody`, no `Close` is the caller's own, and the tracker's
`lib` flag records whether a `Close` happened. -/
theorem run_wrapped {g : Scenario} (ops : List Op) (r : Req) (t : Track) (b : Body)
    (hb : r.body = some b) (hd : 1 ≤ b.depth) :
    (specGo g t ops (runOps r ops).1).2.directs = t.directs ∧
    (specGo g t ops (runOps r ops).1).2.lib = (t.lib || ops.contains .close) := by
  induction ops generalizing r t b with
  | nil => exact ⟨rfl, by simp [runOps, specGo]⟩
  | cons op ops ih =>
    rw [runOps_cons, specGo_cons]
    obtain ⟨⟨b', hb', hd'⟩, hcl⟩ := step_wrapped r op b hb hd
    have := ih (step r op).2 (specStep g t op (step r op).1).2 b' hb' hd'
    by_cases hop : op = .close
    · obtain ⟨e, he⟩ := hcl hop
      subst hop
      rw [he] at this ⊢
      refine ⟨this.1, ?_⟩
      rw [this.2]
      simp [specStep]
    · have ha := specStep_acct_other (g := g) t op (step r op).1 hop
      refine ⟨by rw [this.1, ha.1], ?_⟩
      rw [this.2, ha.2]
      have : decide (Op.close = op) = false := by
        rw [decide_eq_false_iff_not]; exact fun h => hop h.symm
      simp [this]
/-! ## Histories: before the first probe, after a probe -/

theorem run_init (g : Scenario) (hok : okRuns g.sched = true) (ops : List Op) :
    (specGo g { rest := g.sData } ops (runOps g.req ops).1).1 = true ∧
    Sim g (specGo g { rest := g.sData } ops (runOps g.req ops).1).2 (runOps g.req ops).2 :=
  have h := run_sim (g := g) ops g.req (sim_init g hok) (wr_init g)
  ⟨h.1, h.2.1⟩

theorem step_wrapped_out (r : Req) (op : Op) (b : Body) (hb : r.body = some b) (hd : 1 ≤ b.depth) :
    ∀ e, (step r op).1 ≠ .cl e true := by
  intro e
  cases op with
  | hasBody => intro h; cases h
  | read k => simp only [step, hb, readOp]; intro h; cases h
  | drain k => simp only [step, hb, drainOp]; intro h; cases h
  | close =>
    simp only [step, hb, closeOp, direct_false_of_depth hd]
    intro h; cases h

/-- Once the body is a wrapper made by `HasBody`, no `Close` is reported as landing directly on the
caller's stream. -/
theorem run_wrapped_outs (ops : List Op) (r : Req) (b : Body) (hb : r.body = some b) (hd : 1 ≤ b.depth) :
    ∀ e, Out.cl e true ∉ (runOps r ops).1 := by
  induction ops generalizing r b with
  | nil => intro e h; cases h
  | cons op ops ih =>
    intro e
    rw [runOps_cons]
    obtain ⟨b', hb', hd'⟩ := (step_wrapped r op b hb hd).1
    intro h
    rcases List.mem_cons.mp h with h | h
    · exact step_wrapped_out r op b hb hd e h.symm
    · exact ih (step r op).2 b' hb' hd' e h

theorem direct_true_of_depth {b : Body} (hd : b.depth = 0) (hk : b.kind = .src) : b.direct = true := by
  unfold Body.direct; rw [hd, hk]; rfl

theorem step_unwrapped (r : Req) (op : Op) (b : Body) (hb : r.body = some b) (hd : b.depth = 0)
    (hk : b.kind = .src) (hop : op ≠ .hasBody) :
    (∃ b', (step r op).2.body = some b' ∧ b'.depth = 0 ∧ b'.kind = .src) ∧
    (op = .close → ∃ e, (step r op).1 = .cl e true) := by
  cases op with
  | hasBody => exact absurd rfl hop
  | read k => simp only [step, hb, readOp]; exact ⟨⟨_, rfl, hd, hk⟩, fun h => by cases h⟩
  | drain k => simp only [step, hb, drainOp]; exact ⟨⟨_, rfl, hd, hk⟩, fun h => by cases h⟩
  | close =>
    simp only [step, hb, closeOp, direct_true_of_depth hd hk]
    exact ⟨⟨_, rfl, hd, hk⟩, fun _ => ⟨_, rfl⟩⟩

/-- Before any probe the body is the caller's own stream: every `Close` is the caller's own. -/
theorem run_unwrapped {g : Scenario} (ops : List Op) (r : Req) (t : Track) (b : Body)
    (hb : r.body = some b) (hd : b.depth = 0) (hk : b.kind = .src)
    (hnh : ∀ op ∈ ops, op ≠ .hasBody) :
    (∃ b', (runOps r ops).2.body = some b' ∧ b'.depth = 0 ∧ b'.kind = .src) ∧
    (specGo g t ops (runOps r ops).1).2.directs = t.directs + ops.count .close ∧
    (specGo g t ops (runOps r ops).1).2.lib = t.lib := by
  induction ops generalizing r t b with
  | nil => exact ⟨⟨b, hb, hd, hk⟩, rfl, rfl⟩
  | cons op ops ih =>
    rw [runOps_cons, specGo_cons]
    have hop : op ≠ .hasBody := hnh op List.mem_cons_self
    obtain ⟨⟨b', hb', hd', hk'⟩, hcl⟩ := step_unwrapped r op b hb hd hk hop
    have := ih (step r op).2 (specStep g t op (step r op).1).2 b' hb' hd' hk'
      (fun o ho => hnh o (List.mem_cons_of_mem _ ho))
    refine ⟨this.1, ?_, ?_⟩
    · rw [this.2.1]
      by_cases hc : op = .close
      · obtain ⟨e, he⟩ := hcl hc
        subst hc
        rw [he]
        simp [specStep]; omega
      · have ha := specStep_acct_other (g := g) t op (step r op).1 hc
        rw [ha.1, List.count_cons]
        have : (op == Op.close) = false := by rw [beq_eq_false_iff_ne]; exact hc
        simp [this]
    · rw [this.2.2]
      by_cases hc : op = .close
      · obtain ⟨e, he⟩ := hcl hc
        subst hc
        rw [he]
        simp [specStep]
      · exact (specStep_acct_other (g := g) t op (step r op).1 hc).2

/-- A history without `Close` leaves the close accounting alone. -/
theorem specGo_noclose {g : Scenario} (ops : List Op) (outs : List Out) (t : Track)
    (hnc : ∀ op ∈ ops, op ≠ .close) :
    (specGo g t ops outs).2.directs = t.directs ∧ (specGo g t ops outs).2.lib = t.lib := by
  induction ops generalizing outs t with
  | nil => cases outs <;> exact ⟨rfl, rfl⟩
  | cons op ops ih =>
    cases outs with
    | nil => exact ⟨rfl, rfl⟩
    | cons o outs =>
      rw [specGo_cons]
      have := ih outs (specStep g t op o).2 (fun o ho => hnc o (List.mem_cons_of_mem _ ho))
      have ha := specStep_acct_other (g := g) t op o (hnc op List.mem_cons_self)
      exact ⟨by rw [this.1, ha.1], by rw [this.2, ha.2]⟩

/-- On a request without declared length and with a body, a probe leaves a peeking layer. -/
theorem probe_wraps {g : Scenario} {t : Track} (r : Req) (hs : Sim g t r) (hu : takesOver g = true) :
    ∃ b, (step r .hasBody).2.body = some b ∧ 1 ≤ b.depth := by
  have hw : Wr { t with probed := false } r := by intro h; cases h
  have hs' : Sim g { t with probed := false } r := by
    refine ⟨hs.1, hs.2.1, hs.2.2.1, ?_⟩
    have h4 := hs.2.2.2
    cases hb' : r.body with
    | none => rw [hb'] at h4; exact h4
    | some b' =>
      rw [hb'] at h4
      refine ⟨h4.1, ?_⟩
      rcases h4.2 with ho | hc
      · exact Or.inl ⟨ho.inv, ho.content, ho.trm, ho.mu, ho.closes, ho.sld, ho.tclosed, ho.directs, ho.lib, ho.late⟩
      · exact Or.inr ⟨hc.dead, hc.tclosed, hc.acct⟩
  exact step_wr r .hasBody hs' hw (by show (false || takesOver g) = true; rw [hu]; rfl)

theorem req_body_src {g : Scenario} (hsrc : g.kind = .src) :
    ∃ b, g.req.body = some b ∧ b.depth = 0 ∧ b.kind = .src := by
  simp only [Scenario.req, hsrc]; exact ⟨_, rfl, rfl, rfl⟩

theorem takesOver_of {g : Scenario} (hsrc : g.kind = .src) (hu : undeclared g = true) :
    takesOver g = true := by
  unfold takesOver; rw [hu, hsrc]; rfl

theorem delivered_replicate_has (m : Nat) (a : Bool) : delivered (List.replicate m (Out.has a)) = [] := by
  induction m with
  | zero => rfl
  | succ m ih => rw [List.replicate_succ]; exact ih

end RtVerif.C17
