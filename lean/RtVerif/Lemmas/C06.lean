import RtVerif.Model.C06
/-  Helper lemmas for C06 (the property theorems are in Props/C06.lean). -/
namespace RtVerif.C06
open RtVerif Bytes

/-! ### what is assumed of `mime.ParseMediaType` (each clause is checked on every harness case) -/

/-- the returned type parses to itself, is not empty, and holds no `;` -/
structure PmtOK (pmt : Pmt) : Prop where
  idem : ∀ x t, pmt x = some t → pmt t = some t
  nonempty : ∀ x t, pmt x = some t → t ≠ []
  nosemi : ∀ x t, pmt x = some t → (59 : UInt8) ∉ t

/-! ### facts -/

theorem defaultMime_nonempty : Facts.defaultMime.isEmpty = false := by decide

theorem emptyAllowsAll_off : Facts.emptyAllowsAll = false := by decide

/-! ### pieces -/

theorem hasBody_eq_carries (h : ReqHead) : hasBody h = carriesBody h := by
  unfold hasBody carriesBody
  by_cases h1 : h.contentLength > 0 <;> by_cases h2 : h.clHeader.isEmpty <;> simp [h1, h2]

theorem effCT_isEmpty (h : ReqHead) : (effCT h).isEmpty = false := by
  unfold effCT
  split
  · exact defaultMime_nonempty
  · rename_i hne; simpa using hne

theorem mediaType_eq (pmt : Pmt) (h : ReqHead) : mediaType pmt h = pmt (effCT h) := by
  unfold mediaType effCT headerGet
  cases h.ctLines with
  | nil => simp
  | cons l ls => simp only [List.headD_cons]; split <;> simp [*]

theorem runtimeContentType_eq (pmt : Pmt) (h : ReqHead) :
    runtimeContentType pmt h = match pmt (effCT h) with | none => .err | some mt => .ok mt := by
  simp only [runtimeContentType, effCT_isEmpty, Bool.false_eq_true, ↓reduceIte]
  cases pmt (effCT h) <;> rfl

theorem validateContentType_eq (pmt : Pmt) (allowed : List Bytes) (actual : Bytes) :
    validateContentType pmt allowed actual =
      match pmt actual with | none => false | some mt => admittedBy allowed mt actual := by
  simp only [validateContentType, emptyAllowsAll_off, Bool.false_and, Bool.false_eq_true, ↓reduceIte]
  cases pmt actual <;> rfl

/-- The common normal form of both gates. -/
def gateNF (pmt : Pmt) (api : Api) (h : ReqHead) : GateOut :=
  if hasBody h then
    match pmt (effCT h) with
    | none => .e400
    | some t =>
      if validateContentType pmt (routeConsumes api) t then
        match routeConsumer api t with
        | some k => .consumer k
        | none => .e500NoConsumer
      else .e415
  else .skipped

theorem gateTyped_eq_nf (pmt : Pmt) (api : Api) (h : ReqHead) : gateTyped pmt api h = gateNF pmt api h := by
  unfold gateTyped typedRaw gateNF
  by_cases hb : hasBody h
  · simp only [hb, ↓reduceIte, runtimeContentType_eq]
    cases hp : pmt (effCT h) with
    | none => simp [tAfterCT, observe, GateOut.ofErr]
    | some t =>
      simp only [tAfterCT, tStep]
      by_cases hv : validateContentType pmt (routeConsumes api) t
      · simp only [hv, ↓reduceIte]
        cases hc : routeConsumer api t <;> simp [observe, GateOut.ofErr]
      · simp [hv, observe, GateOut.ofErr]
  · simp [hb, observe]

theorem gateUntyped_eq_nf (pmt : Pmt) (api : Api) (h : ReqHead)
    (hne : ∀ x t, pmt x = some t → t ≠ []) : gateUntyped pmt api h = gateNF pmt api h := by
  unfold gateUntyped untypedRaw gateNF
  by_cases hb : hasBody h
  · simp only [hb, ↓reduceIte, uStep1, runtimeContentType_eq]
    cases hp : pmt (effCT h) with
    | none => simp [uStep2, uStep3, observe, GateOut.ofErr]
    | some t =>
      have htne : t.isEmpty = false := by
        have := hne _ _ hp
        cases t with
        | nil => exact absurd rfl this
        | cons a b => rfl
      simp only [uStep2, uStep3, htne, List.isEmpty_nil, ↓reduceIte]
      by_cases hv : validateContentType pmt (routeConsumes api) t
      · simp only [hv, ↓reduceIte]
        cases hc : routeConsumer api t <;> simp [observe, GateOut.ofErr]
      · simp only [hv, Bool.false_eq_true, ↓reduceIte, List.nil_append]
        cases hc : routeConsumer api t <;> simp [observe, GateOut.ofErr]
  · simp [hb, observe]


/-! ### admission: the code's three tests are the Spec's `admitted` -/

theorem typeWildcard_eq (t : Bytes) : typeWildcard t = majorWildcard t := by
  unfold typeWildcard majorWildcard
  split <;> simp_all [slashStar]

theorem any_or3 {α} (f g h : α → Bool) (l : List α) :
    l.any (fun e => f e || g e || h e) = (l.any f || l.any g || l.any h) := by
  induction l with
  | nil => rfl
  | cons a r ih =>
    simp only [List.any_cons, ih]
    generalize f a = x1; generalize g a = x2; generalize h a = x3
    generalize r.any f = y1; generalize r.any g = y2; generalize r.any h = y3
    cases x1 <;> cases x2 <;> cases x3 <;> cases y1 <;> cases y2 <;> cases y3 <;> rfl

theorem admittedBy_eq (allowed : List Bytes) (t : Bytes) : admittedBy allowed t t = admitted allowed t := by
  unfold admittedBy admitted wildAdmits containsCI
  rw [typeWildcard_eq]
  cases hm : majorWildcard t with
  | none =>
    have : entryAdmits t = fun e => equalFold e t || equalFold e [42, 47, 42] || false := by
      funext e; simp [entryAdmits, hm]
    rw [this, any_or3]
    simp [starSlashStar]
  | some w =>
    have : entryAdmits t = fun e => equalFold e t || equalFold e [42, 47, 42] || equalFold e w := by
      funext e; simp [entryAdmits, hm]
    rw [this, any_or3]
    simp [starSlashStar]

theorem entryAdmits_congr (t e e' : Bytes) (h : toLower e = toLower e') :
    entryAdmits t e = entryAdmits t e' := by
  unfold entryAdmits equalFold
  rw [h]

theorem containsCI_iff (l : List Bytes) (d : Bytes) :
    containsCI l d = true ↔ ∃ e ∈ l, toLower e = toLower d := by
  simp [containsCI, equalFold]

theorem any_append_ci (l : List Bytes) (d t : Bytes) (h : containsCI l d = true) :
    (l ++ [d]).any (entryAdmits t) = l.any (entryAdmits t) := by
  obtain ⟨e, he, hl⟩ := (containsCI_iff l d).mp h
  rw [List.any_append]
  cases hd : entryAdmits t d with
  | false => simp [hd]
  | true =>
    have : entryAdmits t e = true := by rw [entryAdmits_congr t e d hl]; exact hd
    have : l.any (entryAdmits t) = true := List.any_eq_true.mpr ⟨e, he, this⟩
    simp [this, hd]

theorem admitted_all_eq_route (api : Api) (t : Bytes) :
    admitted (allConsumes api) t = admitted (routeConsumes api) t := by
  unfold admitted allConsumes routeConsumes
  by_cases hd : api.dflt.isEmpty
  · simp [hd]
  · by_cases hc : containsCI api.opConsumes api.dflt
    · simp only [hd, hc, Bool.false_eq_true, ↓reduceIte, Bool.not_false, Bool.not_true, Bool.and_false]
      exact any_append_ci _ _ _ hc
    · simp [hd, hc]

/-! ### the route's consumer table -/

theorem routeConsumer_some {api : Api} {t : Bytes} {k : Nat} (h : routeConsumer api t = some k) :
    regLookup api.registered t = some k := by
  unfold routeConsumer at h
  split at h
  · exact h
  · cases h

theorem toLowerB_idem (b : UInt8) : toLowerB (toLowerB b) = toLowerB b := by
  unfold toLowerB
  by_cases h : 65 ≤ b ∧ b ≤ 90
  · have h2 : ¬ (65 ≤ b + 32 ∧ b + 32 ≤ 90) := by
      obtain ⟨h1, h2⟩ := h
      rw [UInt8.le_iff_toNat_le] at h1 h2 ⊢
      rw [UInt8.le_iff_toNat_le, UInt8.toNat_add]
      simp at h1 h2 ⊢
      omega
    simp [h, h2]
  · simp [h]

theorem toLower_idem (s : Bytes) : toLower (toLower s) = toLower s := by
  simp [toLower, List.map_map, Function.comp_def, toLowerB_idem]

theorem regLookupFrom_some_lower {i : Nat} {l : List Bytes} {key : Bytes} {k : Nat}
    (h : regLookupFrom i l key = some k) : toLower key = key := by
  induction l generalizing i k with
  | nil => simp [regLookupFrom] at h
  | cons m ms ih =>
    simp only [regLookupFrom] at h
    cases hr : regLookupFrom (i + 1) ms key with
    | some k' => exact ih hr
    | none =>
      rw [hr] at h
      simp only at h
      split at h
      · rename_i heq
        have : toLower m = key := by simpa using heq
        rw [← this, toLower_idem]
      · cases h

theorem normalizeOffer_id {t : Bytes} (h : (59 : UInt8) ∉ t) : normalizeOffer t = t := by
  unfold normalizeOffer beforeByte
  induction t with
  | nil => rfl
  | cons a r ih =>
    have ha : a ≠ 59 := fun e => h (by simp [e])
    have hr : (59 : UInt8) ∉ r := fun m => h (List.mem_cons_of_mem _ m)
    have hb : (a != 59) = true := by simpa using ha
    simp only [List.takeWhile, hb]
    rw [ih hr]

/-- A type that is spelled in `consumes ∪ {default}` and registered is in the route's table. -/
theorem routeConsumer_of_listed {api : Api} {t : Bytes} {k : Nat} (hwf : WF api = true)
    (hsemi : (59 : UInt8) ∉ t) (hl : listedAsSpelled (allConsumes api) t = true)
    (hr : regLookup api.registered t = some k) : routeConsumer api t = some k := by
  have hlow : toLower t = t := regLookupFrom_some_lower hr
  have hmem : t ∈ routeConsumes api := by
    unfold listedAsSpelled allConsumes at hl
    unfold routeConsumes
    by_cases hd : api.dflt.isEmpty
    · simpa [hd] using hl
    · simp only [hd, Bool.false_eq_true, ↓reduceIte, List.contains_eq_mem, List.mem_append,
        List.mem_cons, List.not_mem_nil, or_false, decide_eq_true_eq] at hl
      by_cases hc : containsCI api.opConsumes api.dflt
      · simp only [hd, hc, Bool.not_false, Bool.not_true, Bool.and_false, Bool.false_eq_true, ↓reduceIte]
        rcases hl with hl | hl
        · exact hl
        · obtain ⟨e, he, hle⟩ := (containsCI_iff _ _).mp hc
          have hwe : toLower e = e := by
            have := List.all_eq_true.mp hwf e he
            simpa using this
          have : e = t := by rw [← hwe, hle, ← hl, hlow]
          rw [← this]; exact he
      · simp only [hd, hc, Bool.not_false, Bool.and_self, ↓reduceIte, List.mem_append, List.mem_cons,
          List.not_mem_nil, or_false]
        exact hl
  have hc : ((routeConsumes api).map normalizeOffer).contains t = true := by
    simp only [List.contains_eq_mem, List.mem_map, decide_eq_true_eq]
    exact ⟨t, hmem, normalizeOffer_id hsemi⟩
  unfold routeConsumer
  rw [if_pos hc]
  exact hr


/-- For a type the parser produced, `validateContentType` against the route's list decides the
Spec's `admitted` against `consumes ∪ {default}`. -/
theorem validate_eq_admitted {pmt : Pmt} (hp : PmtOK pmt) (api : Api) {x t : Bytes}
    (hx : pmt x = some t) :
    validateContentType pmt (routeConsumes api) t = admitted (allConsumes api) t := by
  rw [validateContentType_eq, hp.idem x t hx]
  simp only
  rw [admittedBy_eq, admitted_all_eq_route]

/-- The normal form judged by the Spec. -/
theorem gateNF_meets_spec {pmt : Pmt} (hp : PmtOK pmt) {api : Api} (hwf : WF api = true) (h : ReqHead) :
    Spec pmt api h (gateNF pmt api h) = true := by
  unfold Spec gateNF
  rw [← hasBody_eq_carries, mediaType_eq]
  by_cases hb : hasBody h
  · simp only [hb, Bool.not_true, Bool.false_eq_true, ↓reduceIte]
    cases hx : pmt (effCT h) with
    | none => simp
    | some t =>
      simp only
      rw [validate_eq_admitted hp api hx]
      by_cases ha : admitted (allConsumes api) t
      · simp only [ha, ↓reduceIte, Bool.not_true, Bool.false_eq_true]
        cases hc : routeConsumer api t with
        | some k => simp [routeConsumer_some hc]
        | none =>
          simp only
          cases hr : regLookup api.registered t with
          | none => simp
          | some k =>
            cases hl : listedAsSpelled (allConsumes api) t with
            | false => simp
            | true =>
              have := routeConsumer_of_listed hwf (hp.nosemi _ _ hx) hl hr
              rw [hc] at this
              cases this
      · simp [ha]
  · simp [hb]

end RtVerif.C06
