import RtVerif.Model.C06
import RtVerif.Props.C07
/-  Helper lemmas for C06 (the property theorems are in Props/C06.lean). -/
namespace RtVerif.C06
open RtVerif Bytes

/-! ### what is assumed of `mime.ParseMediaType` (each clause is checked on every harness case) -/

/-- the returned type parses to itself, is not empty, and holds no `;` -/
structure PmtOK (pmt : Pmt) : Prop where
  idem : ∀ x t, pmt x = some t → pmt t = some t
  nonempty : ∀ x t, pmt x = some t → t ≠ []
  nosemi : ∀ x t, pmt x = some t → (59 : UInt8) ∉ t

/-! ### facts -/

theorem defaultMime_nonempty : Facts.defaultMime.isEmpty = false := by decide

theorem emptyAllowsAll_off : Facts.emptyAllowsAll = false := by decide

/-! ### pieces -/

theorem hasBody_eq_carries (h : ReqHead) : hasBody h = carriesBody h := by
  unfold hasBody carriesBody
  by_cases h1 : h.contentLength > 0 <;> by_cases h2 : h.clHeader.isEmpty <;> simp [h1, h2]

theorem effCT_isEmpty (h : ReqHead) : (effCT h).isEmpty = false := by
  unfold effCT
  split
  · exact defaultMime_nonempty
  · rename_i hne; simpa using hne

theorem mediaType_eq (pmt : Pmt) (h : ReqHead) : mediaType pmt h = pmt (effCT h) := by
  unfold mediaType effCT headerGet
  cases h.ctLines with
  | nil => simp
  | cons l ls => simp only [List.headD_cons]; split <;> simp [*]

theorem runtimeContentType_eq (pmt : Pmt) (h : ReqHead) :
    runtimeContentType pmt h = match pmt (effCT h) with | none => .err | some mt => .ok mt := by
  simp only [runtimeContentType, effCT_isEmpty, Bool.false_eq_true, ↓reduceIte]
  cases pmt (effCT h) <;> rfl

theorem validateContentType_eq (pmt : Pmt) (allowed : List Bytes) (actual : Bytes) :
    validateContentType pmt allowed actual =
      match pmt actual with | none => false | some mt => admittedBy allowed mt actual := by
  simp only [validateContentType, emptyAllowsAll_off, Bool.false_and, Bool.false_eq_true, ↓reduceIte]
  cases pmt actual <;> rfl

/-- The common normal form of both gates. -/
def gateNF (pmt : Pmt) (api : Api) (h : ReqHead) : GateOut :=
  if hasBody h then
    match pmt (effCT h) with
    | none => .e400
    | some t =>
      if validateContentType pmt (routeConsumes api) t then
        match routeConsumer api t with
        | some k => .consumer k
        | none => .e500NoConsumer
      else .e415
  else .skipped

theorem gateTyped_eq_nf (pmt : Pmt) (api : Api) (h : ReqHead) : gateTyped pmt api h = gateNF pmt api h := by
  unfold gateTyped typedRaw gateNF
  by_cases hb : hasBody h
  · simp only [hb, ↓reduceIte, runtimeContentType_eq]
    cases hp : pmt (effCT h) with
    | none => simp [tAfterCT, observe, GateOut.ofErr]
    | some t =>
      simp only [tAfterCT, tStep]
      by_cases hv : validateContentType pmt (routeConsumes api) t
      · simp only [hv, ↓reduceIte]
        cases hc : routeConsumer api t <;> simp [observe, GateOut.ofErr]
      · simp [hv, observe, GateOut.ofErr]
  · simp [hb, observe]

theorem gateUntyped_eq_nf (pmt : Pmt) (api : Api) (h : ReqHead)
    (hne : ∀ x t, pmt x = some t → t ≠ []) : gateUntyped pmt api h = gateNF pmt api h := by
  unfold gateUntyped untypedRaw gateNF
  by_cases hb : hasBody h
  · simp only [hb, ↓reduceIte, uStep1, runtimeContentType_eq]
    cases hp : pmt (effCT h) with
    | none => simp [uStep2, uStep3, observe, GateOut.ofErr]
    | some t =>
      have htne : t.isEmpty = false := by
        have := hne _ _ hp
        cases t with
        | nil => exact absurd rfl this
        | cons a b => rfl
      simp only [uStep2, uStep3, htne, List.isEmpty_nil, ↓reduceIte]
      by_cases hv : validateContentType pmt (routeConsumes api) t
      · simp only [hv, ↓reduceIte]
        cases hc : routeConsumer api t <;> simp [observe, GateOut.ofErr]
      · simp only [hv, Bool.false_eq_true, ↓reduceIte, List.nil_append]
        cases hc : routeConsumer api t <;> simp [observe, GateOut.ofErr]
  · simp [hb, observe]


/-! ### admission: the code's three tests are the Spec's `admitted` -/

theorem typeWildcard_eq (t : Bytes) : typeWildcard t = majorWildcard t := by
  unfold typeWildcard majorWildcard
  split <;> simp_all [slashStar]

theorem any_or3 {α} (f g h : α → Bool) (l : List α) :
    l.any (fun e => f e || g e || h e) = (l.any f || l.any g || l.any h) := by
  induction l with
  | nil => rfl
  | cons a r ih =>
    simp only [List.any_cons, ih]
    generalize f a = x1; generalize g a = x2; generalize h a = x3
    generalize r.any f = y1; generalize r.any g = y2; generalize r.any h = y3
    cases x1 <;> cases x2 <;> cases x3 <;> cases y1 <;> cases y2 <;> cases y3 <;> rfl

theorem admittedBy_eq (allowed : List Bytes) (t : Bytes) : admittedBy allowed t t = admitted allowed t := by
  unfold admittedBy admitted wildAdmits containsCI
  rw [typeWildcard_eq]
  cases hm : majorWildcard t with
  | none =>
    have : entryAdmits t = fun e => equalFold e t || equalFold e [42, 47, 42] || false := by
      funext e; simp [entryAdmits, hm]
    rw [this, any_or3]
    simp [starSlashStar]
  | some w =>
    have : entryAdmits t = fun e => equalFold e t || equalFold e [42, 47, 42] || equalFold e w := by
      funext e; simp [entryAdmits, hm]
    rw [this, any_or3]
    simp [starSlashStar]

theorem entryAdmits_congr (t e e' : Bytes) (h : toLower e = toLower e') :
    entryAdmits t e = entryAdmits t e' := by
  unfold entryAdmits equalFold
  rw [h]

theorem containsCI_iff (l : List Bytes) (d : Bytes) :
    containsCI l d = true ↔ ∃ e ∈ l, toLower e = toLower d := by
  simp [containsCI, equalFold]

theorem any_append_ci (l : List Bytes) (d t : Bytes) (h : containsCI l d = true) :
    (l ++ [d]).any (entryAdmits t) = l.any (entryAdmits t) := by
  obtain ⟨e, he, hl⟩ := (containsCI_iff l d).mp h
  rw [List.any_append]
  cases hd : entryAdmits t d with
  | false => simp [hd]
  | true =>
    have : entryAdmits t e = true := by rw [entryAdmits_congr t e d hl]; exact hd
    have : l.any (entryAdmits t) = true := List.any_eq_true.mpr ⟨e, he, this⟩
    simp [this, hd]

theorem admitted_all_eq_route (api : Api) (t : Bytes) :
    admitted (allConsumes api) t = admitted (routeConsumes api) t := by
  unfold admitted allConsumes routeConsumes
  by_cases hd : api.dflt.isEmpty
  · simp [hd]
  · by_cases hc : containsCI api.opConsumes api.dflt
    · simp only [hd, hc, Bool.false_eq_true, ↓reduceIte, Bool.not_false, Bool.not_true, Bool.and_false]
      exact any_append_ci _ _ _ hc
    · simp [hd, hc]

/-! ### the route's consumer table -/

theorem routeConsumer_some {api : Api} {t : Bytes} {k : Nat} (h : routeConsumer api t = some k) :
    regLookup api.registered t = some k := by
  unfold routeConsumer at h
  split at h
  · exact h
  · cases h

theorem toLowerB_idem (b : UInt8) : toLowerB (toLowerB b) = toLowerB b := by
  unfold toLowerB
  by_cases h : 65 ≤ b ∧ b ≤ 90
  · have h2 : ¬ (65 ≤ b + 32 ∧ b + 32 ≤ 90) := by
      obtain ⟨h1, h2⟩ := h
      rw [UInt8.le_iff_toNat_le] at h1 h2 ⊢
      rw [UInt8.le_iff_toNat_le, UInt8.toNat_add]
      simp at h1 h2 ⊢
      omega
    simp [h, h2]
  · simp [h]

theorem toLower_idem (s : Bytes) : toLower (toLower s) = toLower s := by
  simp [toLower, List.map_map, Function.comp_def, toLowerB_idem]

theorem regLookupFrom_some_lower {i : Nat} {l : List Bytes} {key : Bytes} {k : Nat}
    (h : regLookupFrom i l key = some k) : toLower key = key := by
  induction l generalizing i k with
  | nil => simp [regLookupFrom] at h
  | cons m ms ih =>
    simp only [regLookupFrom] at h
    cases hr : regLookupFrom (i + 1) ms key with
    | some k' => exact ih hr
    | none =>
      rw [hr] at h
      simp only at h
      split at h
      · rename_i heq
        have : toLower m = key := by simpa using heq
        rw [← this, toLower_idem]
      · cases h

theorem normalizeOffer_id {t : Bytes} (h : (59 : UInt8) ∉ t) : normalizeOffer t = t := by
  unfold normalizeOffer beforeByte
  induction t with
  | nil => rfl
  | cons a r ih =>
    have ha : a ≠ 59 := fun e => h (by simp [e])
    have hr : (59 : UInt8) ∉ r := fun m => h (List.mem_cons_of_mem _ m)
    have hb : (a != 59) = true := by simpa using ha
    simp only [List.takeWhile, hb]
    rw [ih hr]

/-- A type that is spelled in `consumes ∪ {default}` and registered is in the route's table. -/
theorem routeConsumer_of_listed {api : Api} {t : Bytes} {k : Nat} (hwf : WF api = true)
    (hsemi : (59 : UInt8) ∉ t) (hl : listedAsSpelled (allConsumes api) t = true)
    (hr : regLookup api.registered t = some k) : routeConsumer api t = some k := by
  have hlow : toLower t = t := regLookupFrom_some_lower hr
  have hmem : t ∈ routeConsumes api := by
    unfold listedAsSpelled allConsumes at hl
    unfold routeConsumes
    by_cases hd : api.dflt.isEmpty
    · simpa [hd] using hl
    · simp only [hd, Bool.false_eq_true, ↓reduceIte, List.contains_eq_mem, List.mem_append,
        List.mem_cons, List.not_mem_nil, or_false, decide_eq_true_eq] at hl
      by_cases hc : containsCI api.opConsumes api.dflt
      · simp only [hd, hc, Bool.not_false, Bool.not_true, Bool.and_false, Bool.false_eq_true, ↓reduceIte]
        rcases hl with hl | hl
        · exact hl
        · obtain ⟨e, he, hle⟩ := (containsCI_iff _ _).mp hc
          have hwe : toLower e = e := by
            have := List.all_eq_true.mp hwf e he
            simpa using this
          have : e = t := by rw [← hwe, hle, ← hl, hlow]
          rw [← this]; exact he
      · simp only [hd, hc, Bool.not_false, Bool.and_self, ↓reduceIte, List.mem_append, List.mem_cons,
          List.not_mem_nil, or_false]
        exact hl
  have hc : ((routeConsumes api).map normalizeOffer).contains t = true := by
    simp only [List.contains_eq_mem, List.mem_map, decide_eq_true_eq]
    exact ⟨t, hmem, normalizeOffer_id hsemi⟩
  unfold routeConsumer
  rw [if_pos hc]
  exact hr


/-- For a type the parser produced, `validateContentType` against the route's list decides the
Spec's `admitted` against `consumes ∪ {default}`. -/
theorem validate_eq_admitted {pmt : Pmt} (hp : PmtOK pmt) (api : Api) {x t : Bytes}
    (hx : pmt x = some t) :
    validateContentType pmt (routeConsumes api) t = admitted (allConsumes api) t := by
  rw [validateContentType_eq, hp.idem x t hx]
  simp only
  rw [admittedBy_eq, admitted_all_eq_route]

/-- The normal form judged by the Spec. -/
theorem gateNF_meets_spec {pmt : Pmt} (hp : PmtOK pmt) {api : Api} (hwf : WF api = true) (h : ReqHead) :
    Spec pmt api h (gateNF pmt api h) = true := by
  unfold Spec gateNF
  rw [← hasBody_eq_carries, mediaType_eq]
  by_cases hb : hasBody h
  · simp only [hb, Bool.not_true, Bool.false_eq_true, ↓reduceIte]
    cases hx : pmt (effCT h) with
    | none => simp
    | some t =>
      simp only
      rw [validate_eq_admitted hp api hx]
      by_cases ha : admitted (allConsumes api) t
      · simp only [ha, ↓reduceIte, Bool.not_true, Bool.false_eq_true]
        cases hc : routeConsumer api t with
        | some k => simp [routeConsumer_some hc]
        | none =>
          simp only
          cases hr : regLookup api.registered t with
          | none => simp
          | some k =>
            cases hl : listedAsSpelled (allConsumes api) t with
            | false => simp
            | true =>
              have := routeConsumer_of_listed hwf (hp.nosemi _ _ hx) hl hr
              rw [hc] at this
              cases this
      · simp [ha]
  · simp [hb]

/-! ## the whole functions (head + response-format check + binder) -/

/-- the response-format check lets the request through -/
def tailPass (t : TailIn) : Bool := t.produces.isEmpty || !noFormat t.specs t.produces

theorem tRespCheck_nil (t : TailIn) : tRespCheck [] t = if tailPass t then [] else [.notAcceptable] := by
  unfold tRespCheck tailPass
  cases t.produces.isEmpty <;> cases noFormat t.specs t.produces <;> simp

theorem uRespCheck_nil (t : TailIn) : uRespCheck [] t = if tailPass t then [] else [.notAcceptable] := by
  unfold uRespCheck tailPass
  cases t.produces.isEmpty <;> cases noFormat t.specs t.produces <;> simp

theorem tRespCheck_cons (e : FErr) (es : List FErr) (t : TailIn) : tRespCheck (e :: es) t = e :: es := by
  simp [tRespCheck]

theorem uRespCheck_cons (e : FErr) (es : List FErr) (t : TailIn) : uRespCheck (e :: es) t = e :: es := by
  simp [uRespCheck]

/-- the two transcriptions of the response-format check are the same function -/
theorem tRespCheck_eq_uRespCheck (res : List FErr) (t : TailIn) : tRespCheck res t = uRespCheck res t := by
  cases res with
  | nil => rw [tRespCheck_nil, uRespCheck_nil]
  | cons e es => rw [tRespCheck_cons, uRespCheck_cons]

/-! ### the shape of the two heads -/

theorem typedRaw_cases (pmt : Pmt) (api : Api) (h : ReqHead) :
    (hasBody h = false ∧ typedRaw pmt api h = none) ∨
    (hasBody h = true ∧ ((∃ k, typedRaw pmt api h = some ⟨[], some k⟩) ∨
      (∃ e, typedRaw pmt api h = some ⟨[e], none⟩))) := by
  unfold typedRaw
  by_cases hb : hasBody h
  · right
    refine ⟨hb, ?_⟩
    simp only [hb, ↓reduceIte]
    cases runtimeContentType pmt h with
    | err => exact Or.inr ⟨.badRequest, rfl⟩
    | ok ct =>
      simp only [tAfterCT, tStep]
      split
      · cases hc : routeConsumer api ct with
        | none => exact Or.inr ⟨.noConsumer, rfl⟩
        | some k => exact Or.inl ⟨k, rfl⟩
      · exact Or.inr ⟨.unsupported, rfl⟩
  · left; simp [hb]

theorem untypedRaw_cases (pmt : Pmt) (api : Api) (h : ReqHead) (hne : ∀ x t, pmt x = some t → t ≠ []) :
    (hasBody h = false ∧ untypedRaw pmt api h = none) ∨
    (hasBody h = true ∧ ((∃ k, untypedRaw pmt api h = some ⟨[], some k⟩) ∨
      (∃ e es sel, untypedRaw pmt api h = some ⟨e :: es, sel⟩))) := by
  unfold untypedRaw
  by_cases hb : hasBody h
  · right
    refine ⟨hb, ?_⟩
    simp only [hb, ↓reduceIte, uStep1, runtimeContentType_eq]
    cases hp : pmt (effCT h) with
    | none => exact Or.inr ⟨.badRequest, [], none, by simp [uStep2, uStep3]⟩
    | some t =>
      have htne : t.isEmpty = false := by
        have := hne _ _ hp
        cases t with
        | nil => exact absurd rfl this
        | cons a b => rfl
      simp only [uStep2, uStep3, htne, List.isEmpty_nil, ↓reduceIte]
      by_cases hv : validateContentType pmt (routeConsumes api) t
      · simp only [hv, ↓reduceIte]
        cases hc : routeConsumer api t with
        | none => exact Or.inr ⟨.noConsumer, [], none, by simp⟩
        | some k => exact Or.inl ⟨k, rfl⟩
      · simp only [hv, Bool.false_eq_true, ↓reduceIte, List.nil_append]
        cases hc : routeConsumer api t with
        | none => exact Or.inr ⟨.unsupported, [.noConsumer], none, by simp⟩
        | some k => exact Or.inr ⟨.unsupported, [], some k, rfl⟩
  · left; simp [hb]

theorem outOfCode_code (e : Err) : outOfCode e.code = GateOut.ofErr e := by
  cases e <;> rfl

theorem code_ne_406 (e : Err) : (e.code != 406) = true := by
  cases e <;> rfl

/-! ### the Accept header admits a declared type ⇔ the negotiation finds a format -/

theorem firstMax_eq_none {l : List C07.Cand} : C07.firstMax l = none ↔ l = [] := by
  cases l with
  | nil => simp [C07.firstMax]
  | cons c cs =>
    simp only [C07.firstMax, reduceCtorEq, iff_false]
    cases C07.firstMax cs with
    | none => simp
    | some m => simp only; split <;> simp

theorem candsFor_eq_nil (specs : List C07.Spec) (o : Bytes) :
    C07.candsFor specs o = [] ↔ ∀ sp ∈ specs, rangeAdmits o sp = false := by
  unfold C07.candsFor rangeAdmits
  rw [List.filterMap_eq_nil_iff]
  constructor
  · intro hall sp hsp
    have := hall sp hsp
    cases hz : sp.q.isZero with
    | true => simp
    | false =>
      rw [hz] at this
      simp only [Bool.false_eq_true, ↓reduceIte, Option.map_eq_none_iff] at this
      simp [this]
  · intro hall sp hsp
    have := hall sp hsp
    cases hz : sp.q.isZero with
    | true => simp
    | false =>
      rw [hz] at this
      simp only [Bool.not_false, Bool.true_and] at this
      simp only [Bool.false_eq_true, ↓reduceIte, Option.map_eq_none_iff]
      cases hm : C07.matchWild sp.value (C07.normalizeOffer o) with
      | none => rfl
      | some w => rw [hm] at this; simp at this

theorem candidates_eq_nil (specs : List C07.Spec) (offers : List Bytes) :
    C07.candidates specs offers = [] ↔ ∀ o ∈ offers, ∀ sp ∈ specs, rangeAdmits o sp = false := by
  unfold C07.candidates
  rw [List.flatMap_eq_nil_iff]
  constructor
  · intro hall o ho; exact (candsFor_eq_nil specs o).mp (hall o ho)
  · intro hall o ho; exact (candsFor_eq_nil specs o).mpr (hall o ho)

theorem acceptAdmits_false_iff (specs : List C07.Spec) (declared : List Bytes) :
    acceptAdmits specs declared = false ↔ specs ≠ [] ∧ C07.candidates specs declared = [] := by
  unfold acceptAdmits
  rw [candidates_eq_nil]
  cases specs with
  | nil => simp
  | cons sp sps =>
    simp only [List.isEmpty_cons, Bool.false_or, ne_eq, reduceCtorEq, not_false_eq_true, true_and]
    constructor
    · intro hf o ho sp' hsp'
      cases hr : rangeAdmits o sp' with
      | false => rfl
      | true =>
        have : (declared.any fun o => (sp :: sps).any (rangeAdmits o)) = true :=
          List.any_eq_true.mpr ⟨o, ho, List.any_eq_true.mpr ⟨sp', hsp', hr⟩⟩
        rw [hf] at this; cases this
    · intro hall
      cases hr : (declared.any fun o => (sp :: sps).any (rangeAdmits o)) with
      | false => rfl
      | true =>
        obtain ⟨o, ho, h2⟩ := List.any_eq_true.mp hr
        obtain ⟨sp', hsp', h3⟩ := List.any_eq_true.mp h2
        rw [hall o ho sp' hsp'] at h3; cases h3

/-- For a non-empty list of non-empty offers, the negotiation with default `""` yields `""` exactly
when the header admits none of them. -/
theorem noFormat_iff (specs : List C07.Spec) (offers : List Bytes) (hne : offers ≠ [])
    (hnn : ([] : Bytes) ∉ offers) : noFormat specs offers = !acceptAdmits specs offers := by
  unfold noFormat
  rw [C07.negotiate_eq_spec]
  cases hoff : offers with
  | nil => exact absurd hoff hne
  | cons first rest =>
    have hfirst : first.isEmpty = false := by
      cases first with
      | nil => exact absurd (by rw [hoff]; simp) hnn
      | cons a b => rfl
    unfold C07.specChoice
    simp only
    by_cases hs : specs.isEmpty
    · simp [hs, hfirst, acceptAdmits]
    · simp only [hs, Bool.false_eq_true, ↓reduceIte]
      have hs' : specs ≠ [] := by intro e; rw [e] at hs; simp at hs
      cases hm : C07.firstMax (C07.candidates specs (first :: rest)) with
      | none =>
        have hc := firstMax_eq_none.mp hm
        have : acceptAdmits specs (first :: rest) = false := (acceptAdmits_false_iff _ _).mpr ⟨hs', hc⟩
        simp [this]
      | some c =>
        have hmem := (C07.mem_candidates (C07.firstMax_mem hm)).1
        have hcne : c.raw.isEmpty = false := by
          cases hr : c.raw with
          | nil => rw [hr, ← hoff] at hmem; exact absurd hmem hnn
          | cons a b => rfl
        have : acceptAdmits specs (first :: rest) = true := by
          cases ha : acceptAdmits specs (first :: rest) with
          | true => rfl
          | false =>
            have := ((acceptAdmits_false_iff _ _).mp ha).2
            rw [this] at hm; simp [C07.firstMax] at hm
        simp [this, hcne]

/-- `acceptAdmits` looks at the declared types as a set. -/
theorem acceptAdmits_congr (specs : List C07.Spec) {a b : List Bytes} (h : ∀ x, x ∈ a ↔ x ∈ b) :
    acceptAdmits specs a = acceptAdmits specs b := by
  unfold acceptAdmits
  congr 1
  rw [Bool.eq_iff_iff, List.any_eq_true, List.any_eq_true]
  constructor
  · rintro ⟨x, hx, hp⟩; exact ⟨x, (h x).mp hx, hp⟩
  · rintro ⟨x, hx, hp⟩; exact ⟨x, (h x).mpr hx, hp⟩

theorem isEmpty_congr {a b : List Bytes} (h : ∀ x, x ∈ a ↔ x ∈ b) : a.isEmpty = b.isEmpty := by
  cases a with
  | nil =>
    cases b with
    | nil => rfl
    | cons y ys => exact absurd ((h y).mpr (by simp)) (by simp)
  | cons x xs =>
    cases b with
    | nil => exact absurd ((h x).mp (by simp)) (by simp)
    | cons y ys => rfl

/-- The response-format check, read through the Spec's notions. -/
theorem tailPass_eq_admits (t : TailIn) (declared : List Bytes) (hmem : ∀ x, x ∈ t.produces ↔ x ∈ declared)
    (hnn : ([] : Bytes) ∉ t.produces) :
    tailPass t = (declared.isEmpty || acceptAdmits t.specs declared) := by
  unfold tailPass
  rw [← isEmpty_congr hmem, ← acceptAdmits_congr t.specs hmem]
  cases hp : t.produces with
  | nil => simp
  | cons o os =>
    have hne : t.produces ≠ [] := by rw [hp]; simp
    rw [← hp, noFormat_iff t.specs t.produces hne hnn]
    simp [hp]

/-! ### `route.Produces` and the declared types -/

theorem routeProduces_mem {opProduces : List Bytes} {dprod : Bytes} (hwf : WFp opProduces dprod = true)
    (x : Bytes) : x ∈ routeProduces opProduces dprod ↔ x ∈ declaredTypes opProduces dprod := by
  unfold routeProduces declaredTypes
  unfold WFp at hwf
  simp only [Bool.and_eq_true, List.all_eq_true, beq_iff_eq, Bool.not_eq_true'] at hwf
  obtain ⟨hall, hd⟩ := hwf
  by_cases hde : dprod.isEmpty
  · simp [hde]
  · by_cases hc : containsCI opProduces dprod
    · simp only [hde, hc, Bool.not_false, Bool.not_true, Bool.and_false, Bool.false_eq_true, ↓reduceIte,
        List.mem_append, List.mem_cons, List.not_mem_nil, or_false]
      obtain ⟨e, he, hle⟩ := (containsCI_iff _ _).mp hc
      have : e = dprod := by rw [← (hall e he).1, hle, hd]
      constructor
      · exact Or.inl
      · rintro (h | h)
        · exact h
        · rw [h, ← this]; exact he
    · simp [hde, hc]

theorem routeProduces_no_empty {opProduces : List Bytes} {dprod : Bytes} (hwf : WFp opProduces dprod = true) :
    ([] : Bytes) ∉ routeProduces opProduces dprod := by
  unfold WFp at hwf
  simp only [Bool.and_eq_true, List.all_eq_true, beq_iff_eq, Bool.not_eq_true'] at hwf
  obtain ⟨hall, _⟩ := hwf
  unfold routeProduces
  intro hm
  have hop : ([] : Bytes) ∉ opProduces := fun h => by have := (hall [] h).2; simp at this
  split at hm
  · rename_i hc
    simp only [List.mem_append, List.mem_cons, List.not_mem_nil, or_false] at hm
    rcases hm with hm | hm
    · exact hop hm
    · rw [← hm] at hc; simp at hc
  · exact hop hm

/-! ### what is seen of the two whole functions, by the outcome of the gate -/

theorem tBind_obs_pass (sel : Option Nat) (b : Option BinderRes) :
    obsOfFull (tBind [] sel b) =
      match b with
      | none => ⟨[], false, false, sel, none⟩
      | some .ok => ⟨[], false, true, sel, sel⟩
      | some (.fail c) => ⟨[c], true, true, sel, none⟩ := by
  cases b with
  | none => rfl
  | some r => cases r <;> rfl

theorem tBind_obs_refused (e : FErr) (es : List FErr) (sel : Option Nat) (b : Option BinderRes) :
    obsOfFull (tBind (e :: es) sel b) = ⟨(e :: es).map FErr.code, false, false, sel, none⟩ := by
  cases b with
  | none => rfl
  | some r => rfl

theorem uBind_obs_pass (sel : Option Nat) : obsOfFull (uBind [] sel) = ⟨[], false, true, sel, sel⟩ := rfl

theorem uBind_obs_refused (e : FErr) (es : List FErr) (sel : Option Nat) :
    obsOfFull (uBind (e :: es) sel) = ⟨(e :: es).map FErr.code, false, false, sel, none⟩ := rfl


/-- what is seen of an entry point whose gate let the request through (or skipped it) -/
def tailObs (sel : Option Nat) (t : TailIn) (b : Option BinderRes) : FullObs :=
  if tailPass t then
    match b with
    | none => ⟨[], false, false, sel, none⟩
    | some .ok => ⟨[], false, true, sel, sel⟩
    | some (.fail c) => ⟨[c], true, true, sel, none⟩
  else ⟨[406], false, false, sel, none⟩

theorem typedFull_obs (pmt : Pmt) (api : Api) (h : ReqHead) (t : TailIn) :
    (carriesBody h = false ∧ gateTyped pmt api h = .skipped ∧
      obsOfFull (typedFull pmt api h t) = tailObs none t t.binder) ∨
    (carriesBody h = true ∧ ∃ k, gateTyped pmt api h = .consumer k ∧
      obsOfFull (typedFull pmt api h t) = tailObs (some k) t t.binder) ∨
    (carriesBody h = true ∧ ∃ e, gateTyped pmt api h = GateOut.ofErr e ∧
      obsOfFull (typedFull pmt api h t) = ⟨[e.code], false, false, none, none⟩) := by
  unfold gateTyped typedFull
  rw [← hasBody_eq_carries]
  rcases typedRaw_cases pmt api h with ⟨hb, hr⟩ | ⟨hb, ⟨k, hr⟩ | ⟨e, hr⟩⟩
  · left
    refine ⟨hb, by rw [hr]; rfl, ?_⟩
    rw [hr]
    simp only [rawErrs, rawSel, tRespCheck_nil, tailObs]
    cases tailPass t
    · simp [tBind_obs_refused, FErr.code]
    · simp [tBind_obs_pass]
  · right; left
    refine ⟨hb, k, by rw [hr]; rfl, ?_⟩
    rw [hr]
    simp only [rawErrs, rawSel, List.map_nil, tRespCheck_nil, tailObs]
    cases tailPass t
    · simp [tBind_obs_refused, FErr.code]
    · simp [tBind_obs_pass]
  · right; right
    refine ⟨hb, e, by rw [hr]; rfl, ?_⟩
    rw [hr]
    simp only [rawErrs, rawSel, List.map_cons, List.map_nil, tRespCheck_cons, tBind_obs_refused, FErr.code]

theorem untypedFull_obs (pmt : Pmt) (api : Api) (h : ReqHead) (t : TailIn)
    (hne : ∀ x t, pmt x = some t → t ≠ []) :
    (carriesBody h = false ∧ gateUntyped pmt api h = .skipped ∧
      obsOfFull (untypedFull pmt api h t) = tailObs none t (some .ok)) ∨
    (carriesBody h = true ∧ ∃ k, gateUntyped pmt api h = .consumer k ∧
      obsOfFull (untypedFull pmt api h t) = tailObs (some k) t (some .ok)) ∨
    (carriesBody h = true ∧ ∃ (e : Err) (es : List Err) (sel : Option Nat), gateUntyped pmt api h = GateOut.ofErr e ∧
      obsOfFull (untypedFull pmt api h t) = ⟨e.code :: es.map Err.code, false, false, sel, none⟩) := by
  unfold gateUntyped untypedFull
  rw [← hasBody_eq_carries]
  rcases untypedRaw_cases pmt api h hne with ⟨hb, hr⟩ | ⟨hb, ⟨k, hr⟩ | ⟨e, es, sel, hr⟩⟩
  · left
    refine ⟨hb, by rw [hr]; rfl, ?_⟩
    rw [hr]
    simp only [rawErrs, rawSel, uRespCheck_nil, tailObs]
    cases tailPass t
    · simp [uBind_obs_refused, FErr.code]
    · simp [uBind_obs_pass]
  · right; left
    refine ⟨hb, k, by rw [hr]; rfl, ?_⟩
    rw [hr]
    simp only [rawErrs, rawSel, List.map_nil, uRespCheck_nil, tailObs]
    cases tailPass t
    · simp [uBind_obs_refused, FErr.code]
    · simp [uBind_obs_pass]
  · right; right
    refine ⟨hb, e, es, sel, by rw [hr]; rfl, ?_⟩
    rw [hr]
    simp only [rawErrs, rawSel, List.map_cons, uRespCheck_cons, uBind_obs_refused, FErr.code, List.map_map]
    rfl


theorem gateSeen_tailObs_none (h : ReqHead) (t : TailIn) (b : Option BinderRes)
    (hc : carriesBody h = false) : gateSeen h (tailObs none t b) = .skipped := by
  unfold tailObs gateSeen gateCodes
  cases tailPass t
  · simp [obsOut, hc]
  · cases b with
    | none => simp [obsOut, hc]
    | some r => cases r <;> simp [obsOut, hc]

theorem gateSeen_tailObs_some (h : ReqHead) (t : TailIn) (b : Option BinderRes) (k : Nat) :
    gateSeen h (tailObs (some k) t b) = .consumer k := by
  unfold tailObs gateSeen gateCodes
  cases tailPass t
  · simp [obsOut]
  · cases b with
    | none => simp [obsOut]
    | some r => cases r <;> simp [obsOut]

theorem gateSeen_refused (h : ReqHead) (e : Err) (es : List Nat) (sel : Option Nat) :
    gateSeen h ⟨e.code :: es, false, false, sel, none⟩ = GateOut.ofErr e := by
  unfold gateSeen gateCodes
  simp only [Bool.false_eq_true, ↓reduceIte, List.filter_cons, code_ne_406, obsOut, outOfCode_code]

/-- the Spec on what is seen past the gate -/
theorem specFull_tailObs (pmt : Pmt) (api : Api) (h : ReqHead) (t : TailIn) (declared : List Bytes)
    (b : Option BinderRes) (sel : Option Nat) (g : GateOut)
    (hg : gateSeen h (tailObs sel t b) = g) (hsel : consumerRan g = sel)
    (hpass : g = .skipped ∨ ∃ k, g = .consumer k)
    (hs : Spec pmt api h g = true)
    (htp : tailPass t = (declared.isEmpty || acceptAdmits t.specs declared)) :
    SpecFull pmt api h t.specs declared b (tailObs sel t b) = true := by
  unfold SpecFull
  rw [hg, hs]
  clear hg hs
  subst hsel
  rcases hpass with rfl | ⟨k, rfl⟩
  all_goals
    simp only [Bool.true_and, consumerRan]
    unfold tailObs
    rw [htp]
    cases declared.isEmpty <;> cases acceptAdmits t.specs declared <;>
      (cases b with
       | none => simp
       | some r => cases r <;> simp)


end RtVerif.C06
