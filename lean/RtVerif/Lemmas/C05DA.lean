import RtVerif.Model.C05DA
import RtVerif.Lemmas.C05
import RtVerif.Lemmas.C05Order
/-  Helper lemmas for C05DA, part 1: array basics, the abstract invariant `Repr`, and the refinement
    of `lookup` (property theorems are in Props/C05DA.lean). -/
namespace RtVerif.C05DA
open RtVerif Bytes
open RtVerif.C05 (Rec cParam cWild cTerm cSep isReserved notKeySep notPathSep sortRecs advLit advSingle
  advWild leafOf hasSingle weight look first Found)

/-! ### elements and arrays -/

theorem el_of_ge {bc : BC} {i : Nat} (h : bc.size ≤ i) : el bc i = {} := by
  unfold el
  rw [Array.getD_eq_getD_getElem?, Array.getElem?_eq_none h]; rfl

theorem el_upd (bc : BC) (i j : Nat) (f : Elem → Elem) :
    el (upd bc i f) j = if i = j ∧ j < bc.size then f (el bc j) else el bc j := by
  unfold el upd
  rw [Array.getD_eq_getD_getElem?, Array.getD_eq_getD_getElem?, Array.getElem?_modify]
  by_cases hij : i = j
  · subst hij
    by_cases hlt : i < bc.size
    · simp [hlt]
    · simp [hlt]
  · simp [hij]

theorem size_upd (bc : BC) (i : Nat) (f : Elem → Elem) : (upd bc i f).size = bc.size := by
  unfold upd; exact Array.size_modify

theorem el_grow (bc : BC) (n j : Nat) : el (grow bc n) j = el bc j := by
  unfold grow
  split
  · rename_i h
    unfold el
    rw [Array.getD_eq_getD_getElem?, Array.getD_eq_getD_getElem?, Array.getElem?_append]
    split
    · rfl
    · rename_i hj
      rw [Array.getElem?_replicate, Array.getElem?_eq_none (by omega)]
      split <;> rfl
  · rfl

theorem size_le_grow (bc : BC) (n : Nat) : bc.size ≤ (grow bc n).size := by
  unfold grow
  split
  · simp
  · exact Nat.le_refl _

theorem lt_size_grow (bc : BC) (n : Nat) : n < (grow bc n).size := by
  unfold grow
  split
  · simp; omega
  · omega

theorem isFree_congr {bc bc' : BC} (h : ∀ s, el bc' s = el bc s) (s : Nat) : isFree bc' s = isFree bc s := by
  unfold isFree; rw [h]

/-! ### XOR -/

theorem nextIndex_cancel (b : Nat) (c : UInt8) : nextIndex (nextIndex b c) c = b := by
  unfold nextIndex
  rw [Nat.xor_assoc, Nat.xor_self, Nat.xor_zero]

theorem nextIndex_inj {b : Nat} {c d : UInt8} (h : nextIndex b c = nextIndex b d) : c = d := by
  unfold nextIndex at h
  have : b ^^^ (b ^^^ c.toNat) = b ^^^ (b ^^^ d.toNat) := by rw [h]
  rw [← Nat.xor_assoc, ← Nat.xor_assoc, Nat.xor_self, Nat.zero_xor, Nat.zero_xor] at this
  exact UInt8.toNat_inj.mp this

/-! ### keys as `Router.Build` hands them to `build`: terminated, the terminator nowhere else -/

def TermOK (k : Bytes) : Prop := ∃ body, k = body ++ [cTerm] ∧ cTerm ∉ body

def TermAll (rs : List Rec) : Prop := ∀ r ∈ rs, TermOK r.key

theorem TermOK.ne_nil {k : Bytes} (h : TermOK k) : k ≠ [] := by
  obtain ⟨body, rfl, _⟩ := h; simp

theorem TermOK.tail {c : UInt8} {k : Bytes} (h : TermOK (c :: k)) (hc : c ≠ cTerm) : TermOK k := by
  obtain ⟨body, hk, hb⟩ := h
  cases body with
  | nil => simp at hk; exact absurd hk.1 hc
  | cons b body' =>
    simp only [List.cons_append, List.cons.injEq] at hk
    refine ⟨body', hk.2, ?_⟩
    intro hm; exact hb (List.mem_cons_of_mem _ hm)

theorem TermOK.term_tail {k : Bytes} (h : TermOK (cTerm :: k)) : k = [] := by
  obtain ⟨body, hk, hb⟩ := h
  cases body with
  | nil => simp at hk; exact hk
  | cons b body' =>
    simp only [List.cons_append, List.cons.injEq] at hk
    exact absurd (by rw [← hk.1]; exact List.mem_cons_self) hb

theorem TermOK.dropWhile {k : Bytes} (h : TermOK k) : TermOK (k.dropWhile notKeySep) := by
  obtain ⟨body, rfl, hb⟩ := h
  induction body with
  | nil =>
    have : notKeySep cTerm = false := by decide
    simp only [List.nil_append, List.dropWhile, this]
    exact ⟨[], rfl, by simp⟩
  | cons b body' ih =>
    simp only [List.cons_append, List.dropWhile]
    split
    · exact ih (fun hm => hb (List.mem_cons_of_mem _ hm))
    · exact ⟨b :: body', rfl, hb⟩

theorem termAll_advLit {c : UInt8} {rs : List Rec} (h : TermAll rs) (hc : c ≠ cTerm) :
    TermAll (advLit c rs) := by
  intro r' hr'
  obtain ⟨r, hr, hk, _, _⟩ := C05.mem_advLit.mp hr'
  have := h r hr
  rw [hk] at this
  exact this.tail hc

theorem advLit_term_keys {rs : List Rec} (h : TermAll rs) : ∀ r ∈ advLit cTerm rs, r.key = [] := by
  intro r' hr'
  obtain ⟨r, hr, hk, _, _⟩ := C05.mem_advLit.mp hr'
  have := h r hr
  rw [hk] at this
  exact this.term_tail

theorem termAll_advSingle {rs : List Rec} (h : TermAll rs) : TermAll (advSingle rs) := by
  intro r' hr'
  obtain ⟨r, hr, hs⟩ := C05.mem_advSingle.mp hr'
  obtain ⟨k, hk, hk', _, _⟩ := C05.stepSingle_eq.mp hs
  have := h r hr
  rw [hk] at this
  rw [hk']
  exact (this.tail (by decide)).dropWhile

theorem advWild_keys (rs : List Rec) : ∀ r ∈ advWild rs, r.key = [] := by
  intro r' hr'
  obtain ⟨r, _, hs⟩ := C05.mem_advWild.mp hr'
  obtain ⟨k, _, hk', _, _⟩ := C05.stepWild_eq.mp hs
  exact hk'

theorem hasSingle_advSingle_ne_nil {rs : List Rec} (h : hasSingle rs = true) : advSingle rs ≠ [] := by
  unfold hasSingle at h
  rw [List.any_eq_true] at h
  obtain ⟨r, hr, hh⟩ := h
  obtain ⟨r', hr'⟩ := C05.stepSingle_isSome_of_head hh
  intro hnil
  have : r' ∈ advSingle rs := C05.mem_advSingle.mpr ⟨r, hr, hr'⟩
  rw [hnil] at this; cases this

theorem advSingle_ne_nil_hasSingle {rs : List Rec} (h : advSingle rs ≠ []) : hasSingle rs = true := by
  cases hs : hasSingle rs with
  | true => rfl
  | false =>
    exfalso
    apply h
    cases hx : advSingle rs with
    | nil => rfl
    | cons x xs =>
      have : x ∈ advSingle rs := by rw [hx]; exact List.mem_cons_self
      obtain ⟨r, hr, hstep⟩ := C05.mem_advSingle.mp this
      obtain ⟨k, hk, _⟩ := C05.stepSingle_eq.mp hstep
      exact absurd hk (C05.hasSingle_false hs r hr k)

theorem weight_advLit_le (c : UInt8) (rs : List Rec) : weight (advLit c rs) ≤ weight rs := by
  induction rs with
  | nil => simp [advLit, weight]
  | cons r t ih =>
    unfold advLit at ih ⊢
    simp only [List.filterMap_cons]
    split
    · simp only [weight, List.map_cons, List.sum_cons] at ih ⊢; omega
    · rename_i r' hr'
      split at hr'
      · rename_i b k hk
        split at hr'
        · simp only [Option.some.injEq] at hr'
          subst hr'
          simp only [weight, List.map_cons, List.sum_cons, hk, List.length_cons] at ih ⊢; omega
        · cases hr'
      · cases hr'

theorem look_nil (path : Bytes) : ∀ vals, look [] path vals = none := by
  induction path with
  | nil => intro vals; rw [C05.look.eq_1]; rfl
  | cons c rest ih =>
    intro vals
    rw [C05.look.eq_2]
    have h1 : advLit c [] = [] := rfl
    have h2 : hasSingle [] = false := rfl
    have h3 : advWild [] = [] := rfl
    simp only [h1, ih, ite_self, first, h2, Bool.false_eq_true, ↓reduceDIte, h3]
    rfl

/-! ### the abstract invariant -/

/-- The element `idx` of the double array represents the trie node with the candidate list `rs`
(the Prop form of `reprB`). -/
inductive Repr (bc : BC) (node : Array (Option Node)) : Nat → List Rec → Prop
  | leaf (idx : Nat) (rs : List Rec) (r : Rec) :
      idx < bc.size → (∀ x ∈ rs, x.key = []) → leafOf rs = some r →
      node[(el bc idx).base]? = some (some ⟨r.names, r.val⟩) → Repr bc node idx rs
  | inner (idx : Nat) (rs : List Rec) :
      idx < bc.size → rs ≠ [] → (∀ x ∈ rs, x.key ≠ []) →
      (el bc idx).single = hasSingle rs →
      (el bc idx).wild = !(advWild rs).isEmpty →
      (∀ c : UInt8, c ≠ 0 → childOf c rs = [] → (el bc (nextIndex (el bc idx).base c)).check ≠ c) →
      (∀ c : UInt8, c ≠ 0 → childOf c rs ≠ [] → (el bc (nextIndex (el bc idx).base c)).check = c) →
      (∀ c : UInt8, c ≠ 0 → childOf c rs ≠ [] →
        Repr bc node (nextIndex (el bc idx).base c) (childOf c rs)) →
      Repr bc node idx rs

theorem Repr.lt_size {bc : BC} {node : Array (Option Node)} {idx : Nat} {rs : List Rec}
    (h : Repr bc node idx rs) : idx < bc.size := by
  cases h <;> assumption

/-- a node all of whose keys are used up is represented as a leaf -/
theorem Repr.leaf_inv {bc : BC} {node : Array (Option Node)} {idx : Nat} {rs : List Rec}
    (h : Repr bc node idx rs) (hk : ∀ x ∈ rs, x.key = []) :
    ∃ r, leafOf rs = some r ∧ node[(el bc idx).base]? = some (some ⟨r.names, r.val⟩) := by
  cases h with
  | leaf _ _ r _ _ hl hn => exact ⟨r, hl, hn⟩
  | inner _ _ _ hne hk' =>
    exfalso
    cases rs with
    | nil => exact hne rfl
    | cons x xs => exact hk' x List.mem_cons_self (hk x List.mem_cons_self)

end RtVerif.C05DA
