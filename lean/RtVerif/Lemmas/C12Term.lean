import RtVerif.Lemmas.C12Sched
/-
  C12, part F: every step lowers the termination measure.
-/
namespace RtVerif.C12
open RtVerif
set_option linter.unusedSimpArgs false
set_option linter.unusedVariables false

syntax "dec_close" : tactic
macro_rules
  | `(tactic| dec_close) => `(tactic|
      (simp_all [measure, phW, gW, pre, ret, release, closeReqBody, finish, failDo, gFail, readerReturn, midBody,
         preSend, respChunks] <;> (try omega)))

theorem early_facts {p : Plan} {s : St} (hI : Inv p s) (hph : s.ph ≠ .reading ∧ s.ph ≠ .draining ∧ s.ph ≠ .closing ∧ s.ph ≠ .returned) :
    s.haveResp = false ∧ s.bodyLeft = 0 := by
  have h := hI.respPre
  have h2 := hI.noResp
  cases hr : s.haveResp with
  | false => exact ⟨rfl, h2 hr⟩
  | true => rcases h hr with h | h | h | h <;> simp_all

theorem dec_readBody_data {p : Plan} {s s' : St} (h : readBody p s = .data s') :
    gW s'.g + s'.streamLeft + s'.bufLeft < gW s.g + s.streamLeft + s.bufLeft ∧ s'.ph = s.ph ∧ s'.bodyLeft = s.bodyLeft
      ∧ s'.ctxDone = s.ctxDone ∧ s'.haveResp = s.haveResp := by
  rcases readBody_data h with ⟨hk, hb, rfl⟩ | ⟨hk, hb, rfl⟩ | ⟨hk, a, r, hg, ha, rfl⟩ | ⟨hk, hg, rfl⟩ <;>
    simp [gW, *] <;> omega

theorem dec_main {p : Plan} {s s' : St} (hI : Inv p s) (h : s' ∈ mainSteps p s) : measure p s' < measure p s := by
  have he := hI.early0
  have hb1 := hI.buf1
  unfold mainSteps at h
  split at h
  · rename_i hph
    have := early_facts hI (by simp [hph])
    simp only [mStart] at h
    split at h <;> simp only [List.mem_singleton] at h <;> subst h <;> dec_close
  · rename_i hph
    have := early_facts hI (by simp [hph])
    simp only [mChoose] at h
    split at h
    · simp only [List.mem_singleton] at h; subst h; dec_close
    · split at h
      · simp only [List.mem_singleton] at h; subst h; dec_close
      · split at h <;> simp only [List.mem_singleton] at h <;> subst h <;>
          simp_all [measure, phW, gW, pre, ret, release, Plan.streamReads, Plan.streamSrc] <;> omega
  · rename_i hph
    have := early_facts hI (by simp [hph])
    simp only [mAuth, afterAuth] at h
    (repeat' split at h) <;> simp only [List.mem_singleton] at h <;> subst h <;> dec_close
  · rename_i hph
    have := early_facts hI (by simp [hph])
    simp only [mAuthCopy] at h
    cases hrb : readBody p s with
    | wait => simp [hrb] at h
    | data s1 =>
      simp only [hrb, List.mem_singleton] at h; subst h
      have := dec_readBody_data hrb
      simp_all [measure, pre]; omega
    | eof s1 =>
      obtain ⟨rfl, hc⟩ := readBody_eof hrb
      simp only [hrb, afterAuth] at h
      have : min 1 s1.consumed ≤ 1 := by omega
      (repeat' split at h) <;> simp only [List.mem_singleton] at h <;> subst h <;> dec_close
    | err s1 =>
      simp only [hrb, List.mem_singleton] at h; subst h
      rcases readBody_err hrb with ⟨hk, rfl⟩ | ⟨hk, hg, hpw, rfl⟩ <;> dec_close
  · rename_i hph
    have := early_facts hI (by simp [hph])
    simp only [mUrl] at h
    split at h <;> simp only [List.mem_singleton] at h <;> subst h <;> dec_close
  · rename_i hph
    have := early_facts hI (by simp [hph])
    simp only [mSend, List.mem_append] at h
    rcases h with h | h
    · split at h
      · simp only [List.mem_singleton] at h; subst h; dec_close
      · simp at h
    · split at h <;> simp only [List.mem_singleton] at h <;> subst h <;> dec_close
  · rename_i hph
    have := early_facts hI (by simp [hph])
    have hsr : ∀ s', s' ∈ sendRead p s → measure p s' < measure p s := by
      intro s' h
      simp only [sendRead] at h
      cases hrb : readBody p s with
      | wait => simp [hrb] at h
      | data s1 =>
        simp only [hrb, List.mem_singleton] at h; subst h
        have := dec_readBody_data hrb
        simp_all [measure, pre]; omega
      | eof s1 =>
        obtain ⟨rfl, hc⟩ := readBody_eof hrb
        simp only [hrb, List.mem_singleton] at h; subst h; dec_close
      | err s1 =>
        simp only [hrb, List.mem_singleton] at h; subst h
        rcases readBody_err hrb with ⟨hk, rfl⟩ | ⟨hk, hg, hpw, rfl⟩ <;> dec_close
    simp only [mSendBody, List.mem_append] at h
    rcases h with h | h
    · split at h
      · simp only [List.mem_singleton] at h; subst h; dec_close
      · simp at h
    · split at h
      · split at h
        · simp only [List.mem_singleton] at h; subst h; dec_close
        · exact hsr _ h
      · split at h
        · simp at h
        · exact hsr _ h
      · exact hsr _ h
  · rename_i hph
    have := early_facts hI (by simp [hph])
    simp only [mAwait, List.mem_append] at h
    rcases h with h | h
    · split at h
      · simp only [List.mem_singleton] at h; subst h; dec_close
      · simp at h
    · split at h
      · simp at h
      · simp only [List.mem_singleton] at h; subst h; dec_close
  · rename_i hph
    have hr := hI.respPh (by simp [hph])
    simp only [mReading] at h
    split at h
    · simp only [List.mem_singleton] at h; subst h; dec_close
    · cases hrb : bodyRead p s with
      | wait => simp [hrb] at h
      | data s1 =>
        simp only [hrb, List.mem_singleton] at h; subst h
        obtain ⟨hb, rfl⟩ := bodyRead_data hrb; dec_close
      | eof s1 =>
        simp only [hrb, List.mem_singleton] at h; subst h
        obtain ⟨hb, ht, rfl⟩ := bodyRead_eof hrb; dec_close
      | err s1 =>
        simp only [hrb, List.mem_singleton] at h; subst h
        obtain ⟨hb, rfl⟩ := bodyRead_err hrb; dec_close
  · rename_i hph
    have hr := hI.respPh (by simp [hph])
    simp only [mDraining] at h
    split at h
    · cases hrb : bodyRead p s with
      | wait => simp [hrb] at h
      | data s1 =>
        simp only [hrb, List.mem_singleton] at h; subst h
        obtain ⟨hb, rfl⟩ := bodyRead_data hrb; dec_close
      | eof s1 =>
        simp only [hrb, List.mem_singleton] at h; subst h
        obtain ⟨hb, ht, rfl⟩ := bodyRead_eof hrb; dec_close
      | err s1 =>
        simp only [hrb, List.mem_singleton] at h; subst h
        obtain ⟨hb, rfl⟩ := bodyRead_err hrb; dec_close
    · simp only [List.mem_singleton] at h; subst h; dec_close
  · rename_i hph
    simp only [mClosing, List.mem_singleton] at h; subst h; dec_close
  · simp at h

theorem dec_g {p : Plan} {s s' : St} (hI : Inv p s) (h : s' ∈ gSteps s) : measure p s' < measure p s := by
  have h9 := hI.aliveNotPast
  have he := hI.early0
  simp only [gSteps] at h
  split at h
  · rename_i r hg; simp only [List.mem_singleton] at h; subst h
    simp_all [measure, gW, gFail, G.alive, pre] <;> (try omega)
  · rename_i r hg; split at h
    · simp only [List.mem_singleton] at h; subst h
      simp_all [measure, gW, gFail, G.alive, pre] <;> (try omega)
    · simp at h
  · rename_i r hg; split at h
    · simp only [List.mem_singleton] at h; subst h
      simp_all [measure, gW, gFail, G.alive, pre] <;> (try omega)
    · simp at h
  · rename_i hg; simp only [List.mem_singleton] at h; subst h
    simp_all [measure, gW, gFail, G.alive, pre]
  · rename_i hg; split at h
    · simp only [List.mem_singleton] at h; subst h
      simp_all [measure, gW, gFail, G.alive, pre]
    · simp at h
  · simp at h

theorem dec_c {p : Plan} {s s' : St} (h : s' ∈ cSteps p s) : measure p s' < measure p s := by
  simp only [cSteps] at h
  split at h
  · simp only [List.mem_singleton] at h; subst h
    simp_all [measure]
  · simp at h

theorem measure_decreases {p : Plan} {s s' : St} (hI : Inv p s) (h : s' ∈ succs p s) : measure p s' < measure p s := by
  simp only [succs, List.mem_append] at h
  rcases h with (h | h) | h
  · exact dec_main hI h
  · exact dec_g hI h
  · exact dec_c h

end RtVerif.C12
