import RtVerif.Lemmas.C04
import RtVerif.Lemmas.C05
/-
  Helper lemmas for C04, part 2: the server side of the path round trip on simple templates —
  the template→key conversion, the naive matcher on the built path, the parameter names, and the
  composite-segment test of `defaultRouter.Lookup`.
-/
namespace RtVerif.C04
open RtVerif Bytes

/-! ### step C: `pathConverter` on a simple template -/

theorem convert_nil : C01.convert [] = [] := by rw [C01.convert]

theorem convert_cons_ne (c : UInt8) (r : Bytes) (h : c ≠ 123) : C01.convert (c :: r) = c :: C01.convert r := by
  cases r with
  | nil => simp [C01.convert]
  | cons d t =>
    rw [C01.convert]
    have : (c == C01.lbrace) = false := by simpa [C01.lbrace] using h
    simp [this]

theorem convert_append_noLbrace (a X : Bytes) (ha : ∀ c ∈ a, c ≠ 123) :
    C01.convert (a ++ X) = a ++ C01.convert X := by
  induction a with
  | nil => rfl
  | cons c a' ih =>
    rw [List.cons_append, convert_cons_ne c _ (ha c List.mem_cons_self),
      ih fun x hx => ha x (List.mem_cons_of_mem _ hx)]
    rfl

theorem scanName_name (n X : Bytes) (hn : ∀ c ∈ n, c ≠ 125 ∧ c ≠ 10) :
    C01.scanName (n ++ 125 :: X) = some (n, X) := by
  induction n with
  | nil => simp [C01.scanName, C01.rbrace]
  | cons c n' ih =>
    have hc := hn c List.mem_cons_self
    have h1 : (c == C01.rbrace) = false := by simpa [C01.rbrace] using hc.1
    have h2 : (c == C01.newline) = false := by simpa [C01.newline] using hc.2
    simp only [List.cons_append, C01.scanName, h1, Bool.false_eq_true, ↓reduceIte, h2]
    rw [ih fun x hx => hn x (List.mem_cons_of_mem _ hx)]
    rfl

/-- a whole-segment placeholder becomes `:name` -/
theorem convert_placeholder (n X : Bytes) (hne : n ≠ []) (hn : ∀ c ∈ n, c ≠ 125 ∧ c ≠ 10)
    (hX : X = [] ∨ ∃ r, X = 47 :: r) :
    C01.convert (C10.placeholder n ++ X) = 58 :: n ++ C01.convert X := by
  cases n with
  | nil => exact absurd rfl hne
  | cons d n' =>
    have hd := hn d List.mem_cons_self
    have hsc := scanName_name n' X fun x hx => hn x (List.mem_cons_of_mem _ hx)
    have hform : C10.placeholder (d :: n') ++ X = C01.lbrace :: d :: (n' ++ 125 :: X) := by
      simp [C10.placeholder, C10.lbrace, C10.rbrace, C01.lbrace]
    rw [hform, C01.convert]
    have h2 : (d != C01.newline) = true := by simpa [C01.newline] using hd.2
    simp only [beq_self_eq_true, h2, Bool.and_self, ↓reduceIte]
    split
    · rename_i nn rr heq
      rw [hsc] at heq
      simp only [Option.some.injEq, Prod.mk.injEq] at heq
      obtain ⟨rfl, rfl⟩ := heq
      have hdrop : List.dropWhile (fun x => x != C01.slash) X = X := by
        rcases hX with rfl | ⟨r, rfl⟩
        · rfl
        · simp [List.dropWhile, C01.slash]
      rw [hdrop]
      simp [C01.colon]
    · rename_i heq
      rw [hsc] at heq
      cases heq

theorem text_noLbrace {b : Bytes} (h : litOk b = true) : ∀ c ∈ b, c ≠ 123 :=
  fun c hc => (litByteSafe_spec c (litOk_all h c hc)).2.1

/-- **step C**: the router's key of a simple template -/
theorem convert_flat (segs : List Seg) (hw : SegsWF segs) :
    C01.convert (flat Seg.text segs) = flat Seg.key segs := by
  induction segs with
  | nil => exact convert_nil
  | cons s r ih =>
    have hr : SegsWF r := fun x hx => hw x (List.mem_cons_of_mem _ hx)
    rw [flat_cons, flat_cons, convert_cons_ne 47 _ (by decide)]
    cases s with
    | lit b =>
      have hb : litOk b = true := by simpa [segOk] using hw _ List.mem_cons_self
      simp only [Seg.text, Seg.key]
      rw [convert_append_noLbrace b _ (text_noLbrace hb), ih hr]
    | ph n =>
      have hn : nameOk n = true := by simpa [segOk] using hw _ List.mem_cons_self
      obtain ⟨hne, hall⟩ := nameOk_all hn
      simp only [Seg.text, Seg.key]
      rw [convert_placeholder n _ hne (fun c hc => ⟨(hall c hc).2.2.1, (hall c hc).2.2.2.2.1⟩)
        (flat_head Seg.text r), ih hr]
      rfl

theorem convert_renderSegs (segs : List Seg) (hw : SegsWF segs) :
    C01.convert (renderSegs Seg.text segs) = renderSegs Seg.key segs := by
  rw [renderSegs_eq, renderSegs_eq]
  by_cases hs : segs = []
  · simp only [hs, ↓reduceIte]
    rw [C01.convert]
  · simp only [hs, ↓reduceIte]
    exact convert_flat segs hw

/-! ### step D: the naive matcher on the built path -/

theorem cTerm_eq : C05.cTerm = 35 := rfl
theorem cParam_eq : C05.cParam = 58 := rfl
theorem cWild_eq : C05.cWild = 42 := rfl
theorem cSep_eq : C05.cSep = 47 := rfl

theorem matchKey_lit_prefix (s : Bool) (b K P : Bytes) (hb : ∀ c ∈ b, c ≠ 35 ∧ c ≠ 58 ∧ c ≠ 42) :
    C05.matchKey s (b ++ K) (b ++ P) = C05.matchKey s K P := by
  induction b with
  | nil => rfl
  | cons c b' ih =>
    have hc := hb c List.mem_cons_self
    rw [List.cons_append, List.cons_append, C05.matchKey_lit_cons s c c _ _
      (by simpa [cTerm_eq] using hc.1) (by simpa [cParam_eq] using hc.2.1) (by simpa [cWild_eq] using hc.2.2)]
    simp only [beq_self_eq_true, ↓reduceIte]
    exact ih fun x hx => hb x (List.mem_cons_of_mem _ hx)

theorem dropWhile_append_stop {p : UInt8 → Bool} (a b : Bytes) (ha : ∀ x ∈ a, p x = true)
    (hb : b = [] ∨ ∃ c r, b = c :: r ∧ p c = false) : (a ++ b).dropWhile p = b := by
  induction a with
  | nil =>
    rcases hb with rfl | ⟨c, r, rfl, hc⟩
    · rfl
    · simp [hc]
  | cons x a' ih =>
    simp only [List.cons_append, List.dropWhile, ha x List.mem_cons_self]
    exact ih fun y hy => ha y (List.mem_cons_of_mem _ hy)

theorem takeWhile_append_stop {p : UInt8 → Bool} (a b : Bytes) (ha : ∀ x ∈ a, p x = true)
    (hb : b = [] ∨ ∃ c r, b = c :: r ∧ p c = false) : (a ++ b).takeWhile p = a := by
  induction a with
  | nil =>
    rcases hb with rfl | ⟨c, r, rfl, hc⟩
    · rfl
    · simp [hc]
  | cons x a' ih =>
    simp only [List.cons_append, List.takeWhile, ha x List.mem_cons_self, List.cons.injEq, true_and]
    exact ih fun y hy => ha y (List.mem_cons_of_mem _ hy)

/-- the escaped values of the placeholders, in template order -/
def escVals (params : List (Bytes × Bytes)) : List Seg → List Bytes
  | [] => []
  | .lit _ :: r => escVals params r
  | .ph n :: r => Seg.sub params (.ph n) :: escVals params r

/-- the key continuation after a segment: more segments (starting with `/`) or the terminator -/
theorem keyTail_stop (r : List Seg) :
    (flat Seg.key r ++ [C05.cTerm] = [] ∨
      ∃ c t, flat Seg.key r ++ [C05.cTerm] = c :: t ∧ C05.notKeySep c = false) := by
  right
  rcases flat_head Seg.key r with h | ⟨t, h⟩
  · exact ⟨C05.cTerm, [], by simp [h], by decide⟩
  · exact ⟨47, t ++ [C05.cTerm], by simp [h], by decide⟩

theorem pathTail_stop (f : Seg → Bytes) (r : List Seg) :
    (flat f r = [] ∨ ∃ c t, flat f r = c :: t ∧ C05.notPathSep c = false) := by
  rcases flat_head f r with h | ⟨t, h⟩
  · left; exact h
  · right; exact ⟨47, t, h, by decide⟩

theorem lit_nonreserved {b : Bytes} (h : litOk b = true) : ∀ c ∈ b, c ≠ 35 ∧ c ≠ 58 ∧ c ≠ 42 := by
  intro c hc
  have := litByteSafe_spec c (litOk_all h c hc)
  exact ⟨this.2.2.2.2.2.1, this.2.2.2.1, this.2.2.2.2.1⟩

/-- **step D**: the built path instantiates the key of its own template with exactly the escaped
values — also under the strict matcher (every value is non-empty) -/
theorem matchKey_built (s : Bool) (params : List (Bytes × Bytes)) (segs : List Seg) (hw : SegsWF segs)
    (hv : ValuesOk segs params) :
    C05.matchKey s (flat Seg.key segs ++ [C05.cTerm]) (flat (Seg.sub params) segs) =
      some (escVals params segs) := by
  induction segs with
  | nil =>
    simp only [flat_nil, List.nil_append, escVals]
    rw [C05.matchKey_term]; rfl
  | cons sg r ih =>
    have hr : SegsWF r := fun x hx => hw x (List.mem_cons_of_mem _ hx)
    have hvr : ValuesOk r params := fun n hn => hv n (by
      cases sg with
      | lit b => simpa [phNames] using hn
      | ph m => simp [phNames, hn])
    rw [flat_cons, flat_cons, List.cons_append,
      C05.matchKey_lit_cons s 47 47 _ _ (by decide) (by decide) (by decide)]
    simp only [beq_self_eq_true, ↓reduceIte]
    cases sg with
    | lit b =>
      have hb : litOk b = true := by simpa [segOk] using hw _ List.mem_cons_self
      simp only [Seg.key, Seg.sub, escVals, List.append_assoc]
      rw [matchKey_lit_prefix s b _ _ (lit_nonreserved hb)]
      exact ih hr hvr
    | ph n =>
      have hn : nameOk n = true := by simpa [segOk] using hw _ List.mem_cons_self
      obtain ⟨_, hall⟩ := nameOk_all hn
      obtain ⟨v, hlk, hvok, hsub⟩ := sub_ph hv (List.mem_cons_self : Seg.ph n ∈ Seg.ph n :: r)
      have hnorm := normal_escaped hvok
      simp only [Seg.key, escVals, List.cons_append, List.append_assoc]
      have hcp : C01.colon = C05.cParam := rfl
      rw [hcp, C05.matchKey_param]
      have hne : (Seg.sub params (Seg.ph n) ++ flat (Seg.sub params) r).isEmpty = false := by
        rw [hsub]
        cases h : GoURL.pathEscape v with
        | nil => exact absurd h hnorm.1
        | cons _ _ => rfl
      simp only [hne, Bool.and_false, Bool.false_eq_true, ↓reduceIte]
      have hk : ∀ x ∈ n, C05.notKeySep x = true := by
        intro x hx
        have := hall x hx
        simp only [C05.notKeySep, cSep_eq, cTerm_eq, Bool.not_eq_eq_eq_not, Bool.not_true, Bool.or_eq_false_iff,
          beq_eq_false_iff_ne, ne_eq]
        exact ⟨this.1, this.2.2.2.1⟩
      have hp : ∀ x ∈ Seg.sub params (Seg.ph n), C05.notPathSep x = true := by
        intro x hx
        rw [hsub] at hx
        simp only [C05.notPathSep, cSep_eq, Bool.not_eq_eq_eq_not, Bool.not_true, beq_eq_false_iff_ne, ne_eq]
        intro h47; subst h47
        exact hnorm.2.2.2 hx
      rw [dropWhile_append_stop n _ hk (keyTail_stop r), dropWhile_append_stop _ _ hp (pathTail_stop _ r),
        takeWhile_append_stop _ _ hp (pathTail_stop _ r), ih hr hvr]
      rfl

theorem namesOf_lit_prefix (b K : Bytes) (hb : ∀ c ∈ b, c ≠ 58 ∧ c ≠ 42) :
    C05.namesOf (b ++ K) = C05.namesOf K := by
  induction b with
  | nil => rfl
  | cons c b' ih =>
    have hc := hb c List.mem_cons_self
    rw [List.cons_append, C05.namesOf_lit c _ (by simpa [cParam_eq] using hc.1) (by simpa [cWild_eq] using hc.2)]
    exact ih fun x hx => hb x (List.mem_cons_of_mem _ hx)

/-- the names the router reports are the template's placeholder names, in order -/
theorem namesOf_key (segs : List Seg) (hw : SegsWF segs) :
    C05.namesOf (flat Seg.key segs ++ [C05.cTerm]) = phNames segs := by
  induction segs with
  | nil =>
    simp only [flat_nil, List.nil_append, phNames]
    rw [C05.namesOf_lit _ _ (by decide) (by decide), C05.namesOf_nil]
  | cons sg r ih =>
    have hr : SegsWF r := fun x hx => hw x (List.mem_cons_of_mem _ hx)
    rw [flat_cons, List.cons_append, C05.namesOf_lit 47 _ (by decide) (by decide)]
    cases sg with
    | lit b =>
      have hb : litOk b = true := by simpa [segOk] using hw _ List.mem_cons_self
      simp only [Seg.key, phNames, List.append_assoc]
      rw [namesOf_lit_prefix b _ fun c hc => ⟨(lit_nonreserved hb c hc).2.1, (lit_nonreserved hb c hc).2.2⟩]
      exact ih hr
    | ph n =>
      have hn : nameOk n = true := by simpa [segOk] using hw _ List.mem_cons_self
      obtain ⟨_, hall⟩ := nameOk_all hn
      have hk : ∀ x ∈ n, C05.notKeySep x = true := by
        intro x hx
        have := hall x hx
        simp only [C05.notKeySep, cSep_eq, cTerm_eq, Bool.not_eq_eq_eq_not, Bool.not_true, Bool.or_eq_false_iff,
          beq_eq_false_iff_ne, ne_eq]
        exact ⟨this.1, this.2.2.2.1⟩
      simp only [Seg.key, phNames, List.cons_append, List.append_assoc]
      have hcp : C01.colon = C05.cParam := rfl
      rw [hcp, C05.namesOf_param, takeWhile_append_stop n _ hk (keyTail_stop r),
        dropWhile_append_stop n _ hk (keyTail_stop r), ih hr]

theorem escVals_length (params : List (Bytes × Bytes)) (segs : List Seg) :
    (escVals params segs).length = (phNames segs).length := by
  induction segs with
  | nil => rfl
  | cons s r ih => cases s <;> simp [escVals, phNames, ih]

theorem escVals_nonempty {segs : List Seg} {params : List (Bytes × Bytes)} (hv : ValuesOk segs params) :
    ∀ x ∈ escVals params segs, x ≠ [] := by
  induction segs with
  | nil => intro x hx; cases hx
  | cons s r ih =>
    have hvr : ValuesOk r params := fun n hn => hv n (by
      cases s with
      | lit b => simpa [phNames] using hn
      | ph m => simp [phNames, hn])
    cases s with
    | lit b => simpa [escVals] using ih hvr
    | ph n =>
      intro x hx
      simp only [escVals, List.mem_cons] at hx
      rcases hx with rfl | hx
      · obtain ⟨v, _, hvok, hsub⟩ := sub_ph hv (List.mem_cons_self : Seg.ph n ∈ Seg.ph n :: r)
        rw [hsub]; exact (normal_escaped hvok).1
      · exact ih hvr x hx

/-! ### step E: parameterised keys -/

theorem isInfix_append_left (pat a b : Bytes) (h : C05.isInfix pat b = true) : C05.isInfix pat (a ++ b) = true := by
  induction a with
  | nil => exact h
  | cons c a' ih => simp [C05.isInfix, ih]

theorem isInfix_prefix (pat b : Bytes) (hne : pat ++ b ≠ []) : C05.isInfix pat (pat ++ b) = true := by
  cases hpb : pat ++ b with
  | nil => exact absurd hpb hne
  | cons c t =>
    rw [← hpb]
    have hp : pat.isPrefixOf (pat ++ b) = true := C10.isPrefixOf_self_append pat b
    rw [hpb] at hp ⊢
    simp [C05.isInfix, hp]

/-- a template with a placeholder has a parameterised key -/
theorem isParamKey_of_ph (segs : List Seg) (h : phNames segs ≠ []) : C05.isParamKey (flat Seg.key segs) = true := by
  induction segs with
  | nil => exact absurd rfl h
  | cons s r ih =>
    cases s with
    | lit b =>
      have hr : phNames r ≠ [] := by simpa [phNames] using h
      have := ih hr
      simp only [C05.isParamKey, Bool.or_eq_true] at this ⊢
      rw [flat_cons]
      have e : (47 : UInt8) :: (Seg.key (Seg.lit b) ++ flat Seg.key r) = (47 :: Seg.key (Seg.lit b)) ++ flat Seg.key r := rfl
      rw [e]
      rcases this with (h1 | h1) | h1
      · exact Or.inl (Or.inl (isInfix_append_left _ _ _ h1))
      · exact Or.inl (Or.inr (isInfix_append_left _ _ _ h1))
      · exact Or.inr (isInfix_append_left _ _ _ h1)
    | ph n =>
      simp only [C05.isParamKey, Bool.or_eq_true]
      left; left
      rw [flat_cons]
      have e : (47 : UInt8) :: (Seg.key (Seg.ph n) ++ flat Seg.key r) = C05.slashColon ++ (n ++ flat Seg.key r) := by
        simp [Seg.key, C05.slashColon, cSep_eq, cParam_eq, C01.colon]
      rw [e]
      exact isInfix_prefix _ _ (by simp [C05.slashColon])

theorem escVals_nil_of_static (params : List (Bytes × Bytes)) (segs : List Seg) (h : phNames segs = []) :
    flat (Seg.sub params) segs = flat Seg.key segs := by
  induction segs with
  | nil => rfl
  | cons s r ih =>
    cases s with
    | lit b =>
      rw [flat_cons, flat_cons, ih (by simpa [phNames] using h)]
      rfl
    | ph n => simp [phNames] at h

/-! ### step G: the composite-segment test finds whole-segment placeholders -/

theorem go_skip (pat : Bytes) (hp : ∃ t, pat = 123 :: t) (a X : Bytes) (ha : ∀ c ∈ a, c ≠ 123) (i : Nat) :
    C01.indexOf.go pat (a ++ X) i = C01.indexOf.go pat X (i + a.length) := by
  induction a generalizing i with
  | nil => rfl
  | cons c a' ih =>
    obtain ⟨t, rfl⟩ := hp
    have hc : c ≠ 123 := ha c List.mem_cons_self
    have hnp : (123 :: t : Bytes).isPrefixOf (c :: (a' ++ X)) = false := by
      rw [C10.isPrefixOf_cons_cons]
      have : ((123 : UInt8) == c) = false := by simpa using fun h : (123 : UInt8) = c => hc h.symm
      simp [this]
    rw [List.cons_append, C01.indexOf.go, hnp]
    simp only [Bool.false_eq_true, ↓reduceIte]
    rw [ih (fun x hx => ha x (List.mem_cons_of_mem _ hx))]
    simp only [List.length_cons]
    congr 1; omega

theorem drop_add_length (a b : Bytes) (k : Nat) : (a ++ b).drop (k + a.length) = b.drop k := by
  induction a with
  | nil => rfl
  | cons c a' ih =>
    have : k + (c :: a').length = (k + a'.length) + 1 := by simp; omega
    rw [this, List.cons_append, List.drop_succ_cons, ih]

theorem placeholder_form (n : Bytes) : C10.placeholder n = 123 :: (n ++ [125]) := rfl

/-- after the first occurrence of `{name}` in a simple template comes a `/` or the end -/
theorem indexOf_placeholder (segs : List Seg) (hw : SegsWF segs) (hnd : (phNames segs).Nodup) (n : Bytes)
    (hn : n ∈ phNames segs) (hnok : nameOk n = true) (i : Nat) :
    ∃ j, C01.indexOf.go (C10.placeholder n) (flat Seg.text segs) i = some (i + j) ∧
      ((flat Seg.text segs).drop (j + (n.length + 2)) = [] ∨
        ∃ r, (flat Seg.text segs).drop (j + (n.length + 2)) = 47 :: r) := by
  induction segs generalizing i with
  | nil => cases hn
  | cons s r ih =>
    have hr : SegsWF r := fun x hx => hw x (List.mem_cons_of_mem _ hx)
    have hpat : ∃ t, C10.placeholder n = 123 :: t := ⟨_, placeholder_form n⟩
    rw [flat_cons]
    -- step over the '/'
    have h47 : C01.indexOf.go (C10.placeholder n) (47 :: (Seg.text s ++ flat Seg.text r)) i =
        C01.indexOf.go (C10.placeholder n) (Seg.text s ++ flat Seg.text r) (i + 1) := by
      have := go_skip (C10.placeholder n) hpat [47] (Seg.text s ++ flat Seg.text r) (by intro c hc; simp at hc; subst hc; decide) i
      simpa using this
    rw [h47]
    cases s with
    | lit b =>
      have hb : litOk b = true := by simpa [segOk] using hw _ List.mem_cons_self
      have hn' : n ∈ phNames r := by simpa [phNames] using hn
      have hnd' : (phNames r).Nodup := by simpa [phNames] using hnd
      obtain ⟨j, hj, hd⟩ := ih hr hnd' hn' (i + 1 + b.length)
      simp only [Seg.text]
      rw [go_skip _ hpat b _ (text_noLbrace hb), hj]
      refine ⟨1 + b.length + j, by congr 1; omega, ?_⟩
      have e : 1 + b.length + j + (n.length + 2) = (j + (n.length + 2)) + b.length + 1 := by omega
      rw [e, List.drop_succ_cons, drop_add_length]
      exact hd
    | ph m =>
      have hm : nameOk m = true := by simpa [segOk] using hw _ List.mem_cons_self
      by_cases hmn : m = n
      · subst hmn
        simp only [Seg.text]
        have hpre : (C10.placeholder m).isPrefixOf (C10.placeholder m ++ flat Seg.text r) = true :=
          C10.isPrefixOf_self_append _ _
        have hform : C10.placeholder m ++ flat Seg.text r = 123 :: (m ++ [125] ++ flat Seg.text r) := by
          simp [placeholder_form]
        rw [hform] at hpre ⊢
        rw [C01.indexOf.go, hpre]
        simp only [↓reduceIte]
        refine ⟨1, rfl, ?_⟩
        have e : 1 + (m.length + 2) = (m ++ [125]).length + 1 + 0 + 1 := by simp; omega
        have : (47 : UInt8) :: 123 :: (m ++ [125] ++ flat Seg.text r) =
            (47 :: 123 :: (m ++ [125])) ++ flat Seg.text r := by simp
        rw [this, List.drop_append]
        have hl : (47 :: 123 :: (m ++ [125]) : Bytes).length = 1 + (m.length + 2) := by simp; omega
        simp only [hl, Nat.sub_self, List.drop_zero]
        have hdrop : List.drop (1 + (m.length + 2)) (47 :: 123 :: (m ++ [125]) : Bytes) = [] := by
          rw [List.drop_eq_nil_iff, hl]; exact Nat.le_refl _
        rw [hdrop, List.nil_append]
        rcases flat_head Seg.text r with h | ⟨t, h⟩
        · left; exact h
        · right; exact ⟨t, h⟩
      · have hn' : n ∈ phNames r := by
          simp only [phNames, List.mem_cons] at hn
          rcases hn with h | h
          · exact absurd h.symm hmn
          · exact h
        have hnd' : (phNames r).Nodup := by
          simp only [phNames, List.nodup_cons] at hnd; exact hnd.2
        simp only [Seg.text]
        -- `{m}` is not an occurrence of `{n}`
        have hform : C10.placeholder m ++ flat Seg.text r = 123 :: (m ++ 125 :: flat Seg.text r) := by
          simp [placeholder_form]
        have hnp : (C10.placeholder n).isPrefixOf (123 :: (m ++ 125 :: flat Seg.text r)) = false := by
          rw [Bool.eq_false_iff]
          intro hp
          rw [placeholder_form, C10.isPrefixOf_cons_cons] at hp
          simp only [beq_self_eq_true, Bool.true_and] at hp
          exact hmn (C10.prefix_name_eq n m _ (braceFree_name hnok) (braceFree_name hm) hp).symm
        rw [hform, C01.indexOf.go, hnp]
        simp only [Bool.false_eq_true, ↓reduceIte]
        have hmb : ∀ c ∈ m ++ [125], c ≠ 123 := by
          intro c hc
          simp only [List.mem_append, List.mem_cons, List.not_mem_nil, or_false] at hc
          rcases hc with hc | rfl
          · exact ((nameOk_all hm).2 c hc).2.1
          · decide
        have e2 : m ++ 125 :: flat Seg.text r = (m ++ [125]) ++ flat Seg.text r := by simp
        rw [e2, go_skip _ hpat (m ++ [125]) _ hmb]
        obtain ⟨j, hj, hd⟩ := ih hr hnd' hn' (i + 1 + 1 + (m ++ [125]).length)
        rw [hj]
        refine ⟨1 + 1 + (m ++ [125]).length + j, by congr 1; omega, ?_⟩
        have e : 1 + 1 + (m ++ [125]).length + j + (n.length + 2) =
            (j + (n.length + 2)) + (m ++ [125]).length + 1 + 1 := by omega
        rw [e, List.drop_succ_cons, List.drop_succ_cons, drop_add_length]
        exact hd

/-- `paramsOf` on a whole-segment placeholder: the unescaped captured text, used directly -/
theorem paramsOf_simple (segs : List Seg) (hw : SegsWF segs) (hnd : (phNames segs).Nodup)
    (n v : Bytes) (hn : n ∈ phNames segs) :
    C01.paramsOf (flat Seg.text segs) n (GoURL.pathEscape v) = some [(n, v)] := by
  have hnok : nameOk n = true := by
    have := hw _ (mem_phNames.mp hn)
    simpa [segOk] using this
  obtain ⟨j, hj, hd⟩ := indexOf_placeholder segs hw hnd n hn hnok 0
  unfold C01.paramsOf
  have hun : GoURL.pathUnescape (GoURL.pathEscape v) = some v := GoURL.unescape_escape false v
  have hneedle : C01.lbrace :: n ++ [C01.rbrace] = C10.placeholder n := rfl
  simp only [C01.decode, hun, hneedle, C01.indexOf, hj, Nat.zero_add]
  have hcond : (j + n.length + 2 < (flat Seg.text segs).length &&
      (flat Seg.text segs)[j + n.length + 2]? != some C01.slash) = false := by
    have e : j + n.length + 2 = j + (n.length + 2) := by omega
    rw [e]
    rcases hd with hd | ⟨r, hd⟩
    · rw [List.drop_eq_nil_iff] at hd
      have : ¬ (j + (n.length + 2) < (flat Seg.text segs).length) := by omega
      simp [this]
    · have : (flat Seg.text segs)[j + (n.length + 2)]? = some 47 := by
        rw [← List.head?_drop, hd]; rfl
      simp [this, C01.slash]
  simp only [hcond, Bool.false_eq_true, ↓reduceIte]

/-- the values the handler's binder receives from the router -/
def plainVals (params : List (Bytes × Bytes)) (names : List Bytes) : List (Bytes × Bytes) :=
  names.map fun n => (n, (C10.lookupParam params n).getD [])

theorem collectParams_simple (segs : List Seg) (hw : SegsWF segs) (hnd : (phNames segs).Nodup)
    (params : List (Bytes × Bytes)) (hv : ValuesOk segs params) (names : List Bytes)
    (hsub : ∀ n ∈ names, n ∈ phNames segs) :
    C01.collectParams (flat Seg.text segs) names (names.map fun n => Seg.sub params (.ph n)) =
      some (plainVals params names) := by
  induction names with
  | nil => simp [C01.collectParams, plainVals]
  | cons n ns ih =>
    have hn := hsub n List.mem_cons_self
    obtain ⟨v, hlk, _, hs⟩ := sub_ph hv (mem_phNames.mp hn)
    simp only [List.map_cons, C01.collectParams, hs]
    rw [paramsOf_simple segs hw hnd n v hn, ih fun x hx => hsub x (List.mem_cons_of_mem _ hx)]
    simp [plainVals, hlk]

theorem escVals_eq_map (params : List (Bytes × Bytes)) (segs : List Seg) :
    escVals params segs = (phNames segs).map fun n => Seg.sub params (.ph n) := by
  induction segs with
  | nil => rfl
  | cons s r ih => cases s <;> simp [escVals, phNames, ih]

end RtVerif.C04
