import RtVerif.Model.C03X
import RtVerif.Lemmas.C03Main
/-
  Helper lemmas for the deepening of C03 (file parameters, struct targets). The property theorems are in
  Props/C03.lean.
-/
namespace RtVerif.C03
open RtVerif Bytes

/-! ## facts the repaired code paths are read from (regenerated on every run) -/

theorem fact_fileLast : (Facts.c03FileOccurrence == "last") = true := by decide
theorem fact_fileRequired : (Facts.c03FileMissing == "Required") = true := by decide
theorem fact_ptrDefault : (Facts.c03PtrDefaultArg != "defaultValue") = false := by decide
theorem fact_byteGuard : Facts.c03ByteKindGuard = true := by decide
theorem fact_deref : Facts.c03ValidatedDeref = true := by decide
theorem fact_unexported : Facts.c03UnexportedGuard = true := by decide
theorem fact_ptrKind : Facts.c03SetKinds.contains "Ptr" = true := by decide

/-! ## Part A -/

theorem pickFile_last (l : List Part) : pickFile l = l.getLast? := by
  simp [pickFile, fact_fileLast]

theorem missingFile_eq : missingFile = .e422 602 := by
  simp [missingFile, fact_fileRequired]

/-- the Spec's "file parts of that name" are the model's `MultipartForm.File[name]` -/
theorem filesOf_eq (name : Bytes) (parts : List Part) :
    filesOf name parts = parts.filter (fun p => p.name == name && !p.filename.isEmpty) := rfl

theorem getLast?_filter_append {α} (p : α → Bool) (pre post : List α) (x : α) (hx : p x = true)
    (hpost : ∀ y ∈ post, p y = false) : ((pre ++ x :: post).filter p).getLast? = some x := by
  have : post.filter p = [] := by
    apply List.filter_eq_nil_iff.2
    intro y hy
    simp [hpost y hy]
  simp [List.filter_append, List.filter_cons, hx, this]

theorem getLast?_mem_filter {α} (p : α → Bool) (l : List α) (x : α) (h : (l.filter p).getLast? = some x) :
    x ∈ l ∧ p x = true := by
  have := List.mem_of_getLast? h
  exact List.mem_filter.1 this

theorem valuesOf_spec (mode : FormMode) (name : Bytes) (parts : List Part) :
    valuesOf mode name parts = specFormTexts mode name parts := by
  cases mode <;> simp [valuesOf, specFormTexts, Part.isFile]

theorem formReq_spec (d : Decl) (mode : FormMode) (parts : List Part) :
    formReq d mode parts = specFormReq d mode parts := by
  simp [formReq, specFormReq, valuesOf_spec]

end RtVerif.C03

namespace RtVerif.C03
open RtVerif Bytes

/-! ## Part B: a conversion and what it should yield, for one field kind -/

structure Conv where
  conv : Bytes → ItemOut
  lit : Bytes → Option Scalar
  dconv : DefScalar → ItemOut
  dlit : DefScalar → Option Scalar
  zero : Scalar

/-- `setFieldValue` for a usable kind, seen through its conversions -/
def Conv.set (c : Conv) (d : Decl) (dflt : Option DefScalar) (text : Bytes) (hasKey : Bool) : ItemOut :=
  if requiredFails d hasKey text then .err 602
  else if text.isEmpty then (match dflt with | some dv => c.dconv dv | none => .ok c.zero)
  else c.conv text

def Conv.dfltVal (c : Conv) (d : Decl) : Option Val :=
  match d.default with
  | some (.scalar dv) => (c.dlit dv).map .scalar
  | _ => none

/-- `specScalar`, seen through the denotations -/
def Conv.spec (c : Conv) (d : Decl) (texts : Option (List Bytes)) : Expect :=
  if (lastOr (texts.getD [])).isEmpty then
    specAbsent d texts.isSome (c.dfltVal d) (.scalar c.zero)
  else
    match c.lit (lastOr (texts.getD [])) with
    | none => .reject
    | some v => specValue d (.scalar v)

/-- the generic form of `scalar_main` -/
theorem Conv.main (c : Conv) (d : Decl) (texts : Option (List Bytes))
    (hdef : d.default = none ∨ ∃ dv, d.default = some (.scalar dv))
    (hconv : (lastOr (texts.getD [])).isEmpty = false →
      Agrees (c.conv (lastOr (texts.getD []))) (c.lit (lastOr (texts.getD []))))
    (hd : ∀ dv, d.default = some (.scalar dv) → Agrees (c.dconv dv) (c.dlit dv))
    (hrt : ∀ v, (lastOr (texts.getD [])).isEmpty = false → c.lit (lastOr (texts.getD [])) = some v → ruleOn d v = false)
    (hrz : d.default = none → requiredFails d texts.isSome [] = false → ruleOn d c.zero = false) :
    okFor (c.spec d texts)
      (validated d (itemOut (c.set d (scalarDefault d) (lastOr (texts.getD [])) texts.isSome))) = true := by
  unfold Conv.spec
  by_cases hte : (lastOr (texts.getD [])).isEmpty = true
  · have ht0 := isEmpty_eq_nil hte
    simp only [hte, if_true]
    rw [ht0]
    rcases hdef with hd0 | ⟨dv, hd0⟩
    · by_cases hreq : requiredFails d texts.isSome [] = true
      · simp only [Conv.set, hreq, if_true, itemOut, validated_e422]
        exact absent_none_reject d _ _ _ _ hd0 hreq
      · have hreq' : requiredFails d texts.isSome [] = false := by simpa using hreq
        have hsd : scalarDefault d = none := by simp [scalarDefault, hd0]
        simp only [Conv.set, hreq', Bool.false_eq_true, if_false, List.isEmpty_nil, if_true, hsd, itemOut]
        apply absent_none d _ _ _ _ hd0 hreq'
        exact validated_scalar d _ (hrz hd0 hreq')
    · have hreq' : requiredFails d texts.isSome [] = false := by simp [requiredFails, hd0]
      have hsd : scalarDefault d = some dv := by simp [scalarDefault, hd0]
      have hspec : c.dfltVal d = (c.dlit dv).map .scalar := by simp [Conv.dfltVal, hd0]
      simp only [Conv.set, hreq', Bool.false_eq_true, if_false, List.isEmpty_nil, if_true, hsd, hspec]
      have ha := hd dv hd0
      cases hm : c.dconv dv with
      | err e =>
        cases hs : c.dlit dv with
        | some v => rw [hm, hs] at ha; exact ha.elim
        | none =>
          simp only [itemOut, validated_e422, Option.map_none]
          exact absent_default_invalid d _ _ _ e hd0
      | ok v =>
        cases hs : c.dlit dv with
        | none => rw [hm, hs] at ha; exact ha.elim
        | some v' =>
          rw [hm, hs] at ha
          simp only [Agrees] at ha
          subst ha
          simp only [itemOut, Option.map_some]
          apply absent_default d _ _ _ _ _ hd0
          by_cases hrule : ruleOn d v = true
          · right
            obtain ⟨s, hs'⟩ := ruleOn_strRule d v hrule
            have hconf : emptyDefaultConflict d = true := by
              simp only [strRule, hd0, Option.isNone_some, Bool.false_or, Bool.and_eq_true] at hs'
              simp only [emptyDefaultConflict, hd0, Bool.and_eq_true]
              exact ⟨⟨hs'.1.1.1, hs'.1.1.2⟩, hs'.1.2⟩
            refine ⟨hconf, ?_⟩
            simp [validated, validate_rule d v hrule, isE422]
          · left
            exact validated_scalar d v (by simpa using hrule)
  · have hte' : (lastOr (texts.getD [])).isEmpty = false := by simpa using hte
    have hsome := lastOr_none_empty texts hte'
    have hreq : requiredFails d true (lastOr (texts.getD [])) = false := by simp [requiredFails, hte']
    simp only [hte', Bool.false_eq_true, if_false, hsome, Conv.set, hreq]
    have ha := hconv hte'
    cases hm : c.conv (lastOr (texts.getD [])) with
    | err e =>
      cases hs : c.lit (lastOr (texts.getD [])) with
      | some v => rw [hm, hs] at ha; exact ha.elim
      | none => simp [itemOut, validated_e422, okFor, isE422]
    | ok v =>
      cases hs : c.lit (lastOr (texts.getD [])) with
      | none => rw [hm, hs] at ha; exact ha.elim
      | some v' =>
        rw [hm, hs] at ha
        simp only [Agrees] at ha
        subst ha
        simp only [itemOut]
        exact validated_scalar d v (hrt v hte' hs)

end RtVerif.C03

namespace RtVerif.C03
open RtVerif Bytes

/-! ## lifting the map-target types into the struct-target types -/

def liftE : Expect → ExpectT
  | .value v => .value (.plain v)
  | .reject => .reject
  | .either v => .either (.plain v)
  | .invalidDecl => .invalidDecl

theorem okForT_lift (e : Expect) (o : BindOut) : okForT (liftE e) (.ofBind o) = okFor e o := by
  cases e <;> cases o <;> simp [liftE, TOut.ofBind, okForT, okFor, isE422T, isE422]

theorem specAbsentT_plain (d : Decl) (k : TKind) (pe : Bool) (dflt : Option Val) (zero : Val) :
    specAbsentT d ⟨k, false⟩ pe (dflt.map .plain) (.plain zero) = liftE (specAbsent d pe dflt zero) := by
  unfold specAbsentT specAbsent
  cases d.default with
  | none =>
    simp only [Bool.false_eq_true, if_false, violatesT]
    (rw [apply_ite liftE]; repeat (first | rfl | (rw [apply_ite liftE]) | (congr 1)))
  | some x =>
    cases dflt with
    | none => rfl
    | some v =>
      simp only [Option.map_some, violatesT]
      (rw [apply_ite liftE]; repeat (first | rfl | (rw [apply_ite liftE]) | (congr 1)))

/-- the range check of the validator, folded into a conversion -/
def checkedF (ty fmt : String) : ItemOut → ItemOut
  | .ok v => if rangeFails ty fmt v then .err 422 else .ok v
  | e => e

/-- the conversions of a field kind for a declared kind (`ty`, `fmt`: the declared type and format the
validator's range check consults) -/
def convOfF (ext : Option Ext) (ty fmt : String) (k : SKind) (tk : TKind) : Conv :=
  { conv := fun t => checkedF ty fmt (convertTextT ext tk t)
    lit := specLiteralT ext k tk
    dconv := fun dv => emptyValueT ext tk (some dv)
    dlit := specDefaultT ext k tk
    zero := specZeroT ext tk }

def convOf (d : Decl) (k : SKind) (tk : TKind) : Conv := convOfF d.ext d.ty d.format k tk

/-- the Spec of a plain (non-pointer) field is the generic scalar Spec of its conversions -/
theorem specScalarT_plain (d : Decl) (texts : Option (List Bytes)) (k : SKind) (tk : TKind) :
    specScalarT d texts k ⟨tk, false⟩ = liftE ((convOf d k tk).spec d texts) := by
  unfold specScalarT Conv.spec
  have hd : specScalarDefaultT d k ⟨tk, false⟩ = ((convOf d k tk).dfltVal d).map .plain := by
    unfold specScalarDefaultT Conv.dfltVal
    cases d.default with
    | none => rfl
    | some x =>
      cases x with
      | arr _ => rfl
      | scalar dv =>
        simp only [convOf, convOfF, wrapT, Bool.false_eq_true, if_false]
        cases specDefaultT d.ext k tk dv <;> rfl
  split
  · rw [hd]
    exact specAbsentT_plain d tk _ _ _
  · simp only [convOf, convOfF]
    cases specLiteralT d.ext k tk (lastOr (texts.getD [])) with
    | none => rfl
    | some v =>
      simp only [specValueT, specValue, wrapT, violatesT, Bool.false_eq_true, if_false]
      (rw [apply_ite liftE]; repeat (first | rfl | (rw [apply_ite liftE]) | (congr 1)))

/-- the model of a plain field is the generic scalar model of its conversions, when the range check of
the validator cannot fire on the zero value and on the declared default -/
theorem model_plain (d : Decl) (k : SKind) (tk : TKind) (dflt : Option DefScalar) (text : Bytes) (hasKey : Bool)
    (huse : (!tk.handled && !tk.isReg) = false)
    (hzero : emptyValueT d.ext tk none = .ok (specZeroT d.ext tk))
    (hzr : rangeFails d.ty d.format (specZeroT d.ext tk) = false)
    (hdr : ∀ dv v, dflt = some dv → emptyValueT d.ext tk (some dv) = .ok v → rangeFails d.ty d.format v = false) :
    validatedT d (.ofBind (itemOut (setFieldValueT d tk dflt text hasKey))) =
      .ofBind (validated d (itemOut ((convOf d k tk).set d dflt text hasKey))) := by
  have hval : ∀ v, rangeFails d.ty d.format v = false →
      validatedT d (.ofBind (itemOut (.ok v))) = .ofBind (validated d (itemOut (.ok v))) := by
    intro v hv
    simp only [itemOut, TOut.ofBind, validatedT, validateT, hv, Bool.false_eq_true, if_false, validated]
    cases validate d (.scalar v) <;> rfl
  have herr : ∀ c, validatedT d (.ofBind (itemOut (.err c))) = .ofBind (validated d (itemOut (.err c))) := by
    intro c; rfl
  unfold setFieldValueT Conv.set
  by_cases hreq : requiredFails d hasKey text = true
  · simp only [hreq, if_true]; exact herr _
  · simp only [hreq, Bool.false_eq_true, if_false, huse]
    by_cases hte : text.isEmpty = true
    · simp only [hte, if_true]
      cases dflt with
      | none =>
        simp only [convOf, convOfF]
        rw [hzero]
        exact hval _ hzr
      | some dv =>
        simp only [convOf, convOfF]
        cases hm : emptyValueT d.ext tk (some dv) with
        | err c => exact herr _
        | ok v => exact hval _ (hdr dv v rfl hm)
    · simp only [hte, Bool.false_eq_true, if_false, convOf, convOfF]
      cases hm : convertTextT d.ext tk text with
      | err c => exact herr _
      | ok v =>
        simp only [checkedF]
        by_cases hr : rangeFails d.ty d.format v = true
        · simp only [hr, if_true]
          simp [itemOut, TOut.ofBind, validatedT, validateT, hr, validated]
        · have hr' : rangeFails d.ty d.format v = false := by simpa using hr
          simp only [hr', Bool.false_eq_true, if_false]
          exact hval _ hr'

end RtVerif.C03

namespace RtVerif.C03
open RtVerif Bytes

/-! ## field kinds: usable, zero value -/

theorem usable_s (ext : Option Ext) (k : SKind) (p : Bool) (hk : SpecKindCase ext k) :
    (!(TKind.s k p).handled && !(TKind.s k p).isReg) = false := by
  cases hk with
  | bool => cases p <;> decide
  | int w hw => rcases hw with rfl | rfl | rfl | rfl <;> cases p <;> decide
  | float w hw => rcases hw with rfl | rfl <;> cases p <;> decide
  | str => cases p <;> decide
  | reg e _ => simp [TKind.isReg, SKind.isReg]

theorem usable_u (b : Nat) (p : Bool) (hb : b = 8 ∨ b = 16 ∨ b = 32 ∨ b = 64) :
    (!(TKind.uint b p).handled && !(TKind.uint b p).isReg) = false := by
  rcases hb with rfl | rfl | rfl | rfl <;> cases p <;> decide

theorem zero_s (ext : Option Ext) (k : SKind) (p : Bool) (hk : SpecKindCase ext k) (hext : extOk ext = true) :
    emptyValueT ext (.s k p) none = .ok (specZeroT ext (.s k p)) := by
  simp only [emptyValueT, emptyValue, specZeroT]
  exact emptyNoDefault_spec ext k hk hext

theorem zero_u (ext : Option Ext) (b : Nat) (p : Bool) :
    emptyValueT ext (.uint b p) none = .ok (specZeroT ext (.uint b p)) := rfl

/-! ## the shape of converted values, and the range check -/

/-- the validator's range check cannot fire on values of this kind -/
def rangeSafe (ty fmt : String) : SKind → Bool
  | .int _ => false
  | .float w => !(w == 64 && (ty == "number" && (fmt == "float" || fmt == "float32")))
  | _ => true

def Scalar.isOf : SKind → Scalar → Bool
  | .bool, .bool _ => true
  | .int w, .int w' _ => w == w'
  | .float w, .float w' _ => w == w'
  | .str, .str _ => true
  | .reg _ n, .reg n' _ => n == n'
  | _, _ => false

theorem rangeFails_safe (ty fmt : String) (k : SKind) (v : Scalar) (hs : rangeSafe ty fmt k = true)
    (hv : Scalar.isOf k v = true) : rangeFails ty fmt v = false := by
  cases v with
  | bool _ => rfl
  | str _ => rfl
  | reg _ _ => rfl
  | int w' x => cases k <;> simp [Scalar.isOf, rangeSafe] at hs hv
  | float w' b =>
    cases k <;> simp only [Scalar.isOf, Bool.false_eq_true, beq_iff_eq] at hv
    rename_i w
    subst hv
    unfold rangeFails
    split
    · rename_i heq; cases heq
    · rename_i b' heq
      cases heq
      simp only [rangeSafe, beq_self_eq_true, Bool.true_and, Bool.not_eq_eq_eq_not, Bool.not_true] at hs
      simp [hs]
    · rfl

end RtVerif.C03

namespace RtVerif.C03
open RtVerif Bytes

theorem convertText_isOf (ext : Option Ext) (k : SKind) (t : Bytes) (v : Scalar)
    (h : convertText ext k t = .ok v) : Scalar.isOf k v = true := by
  cases k with
  | bool => simp only [convertText, ItemOut.ok.injEq] at h; subst h; rfl
  | int w =>
    simp only [convertText] at h
    obtain ⟨x, rfl⟩ := convertInt_shape h
    simp [Scalar.isOf]
  | float w =>
    simp only [convertText, convertFloat] at h
    split at h
    · cases h; simp [Scalar.isOf]
    · cases h
  | str => simp only [convertText, ItemOut.ok.injEq] at h; subst h; rfl
  | reg b n =>
    simp only [convertText, unmarshalReg] at h
    split at h
    · cases h; simp [Scalar.isOf]
    · cases h
  | other n => simp [convertText] at h

theorem defaultScalar_isOf (ext : Option Ext) (k : SKind) (dv : DefScalar) (v : Scalar)
    (h : defaultScalar ext k dv = .ok v) : Scalar.isOf k v = true := by
  cases k <;> cases dv <;> simp only [defaultScalar, ItemOut.ok.injEq, reduceCtorEq] at h
  all_goals first
    | (subst h; simp [Scalar.isOf])
    | (simp only [convertFloat] at h
       split at h
       · cases h; simp [Scalar.isOf]
       · cases h)
    | (simp only [unmarshalReg] at h
       split at h
       · cases h; simp [Scalar.isOf]
       · cases h)

theorem specZero_isOf (ext : Option Ext) (k : SKind) (hk : SpecKindCase ext k) : Scalar.isOf k (specZero ext k) = true := by
  cases hk with
  | bool => rfl
  | int w _ => simp [specZero, zeroScalar, Scalar.isOf]
  | float w _ => simp [specZero, zeroScalar, Scalar.isOf]
  | str => rfl
  | reg e _ =>
    unfold specZero
    cases extLookup ext [] with
    | none => simp [Scalar.isOf, zeroScalar]
    | some p => obtain ⟨res, ok⟩ := p; cases res <;> simp [Scalar.isOf, zeroScalar]

/-- a field of the declared kind itself holds every value of that kind -/
theorem holds_self (k : SKind) (p : Bool) (v : Scalar) (hv : Scalar.isOf k v = true)
    (hk : match k with | .int _ => False | .other _ => False | _ => True) : holds (.s k p) v = some v := by
  cases k <;> cases v <;> simp only [Scalar.isOf, Bool.false_eq_true, beq_iff_eq] at hv <;> first
    | exact hk.elim
    | rfl
    | (subst hv; simp [holds])

theorem specLiteral_isOf (ext : Option Ext) (k : SKind) (t : Bytes) (v : Scalar)
    (h : specLiteral ext k t = some v) : Scalar.isOf k v = true := by
  cases k with
  | bool =>
    simp only [specLiteral] at h
    split at h
    · cases h; rfl
    · split at h
      · cases h; rfl
      · cases h
  | int w =>
    simp only [specLiteral] at h
    split at h
    · split at h
      · cases h; simp [Scalar.isOf]
      · cases h
    · cases h
  | float w =>
    simp only [specLiteral, specFloat] at h
    split at h
    · split at h
      · cases h; simp [Scalar.isOf]
      · cases h
    · cases h
  | str => simp only [specLiteral, Option.some.injEq] at h; subst h; rfl
  | reg b n =>
    simp only [specLiteral] at h
    split at h
    · cases h; simp [Scalar.isOf]
    · cases h
  | other n => simp [specLiteral] at h

theorem specDefaultScalar_isOf (ext : Option Ext) (k : SKind) (dv : DefScalar) (v : Scalar)
    (h : specDefaultScalar ext k dv = some v) : Scalar.isOf k v = true := by
  cases k <;> cases dv <;> simp only [specDefaultScalar, Option.some.injEq, reduceCtorEq] at h
  all_goals first
    | (subst h; simp [Scalar.isOf])
    | (simp only [specFloat] at h
       split at h
       · cases h; simp [Scalar.isOf]
       · cases h)
    | (split at h
       · cases h; simp [Scalar.isOf]
       · cases h)

/-- class S: the field kind reads the text exactly as the Spec's literal of that kind -/
def SameKind (k k' : SKind) : Prop :=
  match k, k' with
  | .bool, .bool => True
  | .str, .str => True
  | .reg b n, .reg b' n' => b = b' ∧ n = n'
  | .float w, .float w' => (w = 64 ∧ (w' = 32 ∨ w' = 64)) ∨ (w = 32 ∧ w' = 32)
  | _, _ => False

theorem specLiteralT_same (ext : Option Ext) (k k' : SKind) (p : Bool) (t : Bytes) (h : SameKind k k') :
    specLiteralT ext k (.s k' p) t = specLiteral ext k' t := by
  cases k <;> cases k' <;> simp only [SameKind] at h
  · -- bool
    simp only [specLiteralT]
    cases hs : specLiteral ext .bool t with
    | none => rfl
    | some v => exact holds_self .bool p v (specLiteral_isOf _ _ _ _ hs) trivial
  · -- float
    rfl
  · -- str
    simp only [specLiteralT]
    cases hs : specLiteral ext .str t with
    | none => rfl
    | some v => exact holds_self .str p v (specLiteral_isOf _ _ _ _ hs) trivial
  · -- reg
    obtain ⟨rfl, rfl⟩ := h
    rename_i b n
    simp only [specLiteralT]
    cases hs : specLiteral ext (.reg b n) t with
    | none => rfl
    | some v => exact holds_self (.reg b n) p v (specLiteral_isOf _ _ _ _ hs) trivial

theorem specDefaultT_same (ext : Option Ext) (k k' : SKind) (p : Bool) (dv : DefScalar) (h : SameKind k k') :
    specDefaultT ext k (.s k' p) dv = specDefaultScalar ext k' dv := by
  cases k <;> cases k' <;> simp only [SameKind] at h
  · simp only [specDefaultT]
    cases hs : specDefaultScalar ext .bool dv with
    | none => rfl
    | some v => exact holds_self .bool p v (specDefaultScalar_isOf _ _ _ _ hs) trivial
  · rfl
  · simp only [specDefaultT]
    cases hs : specDefaultScalar ext .str dv with
    | none => rfl
    | some v => exact holds_self .str p v (specDefaultScalar_isOf _ _ _ _ hs) trivial
  · obtain ⟨rfl, rfl⟩ := h
    rename_i b n
    simp only [specDefaultT]
    cases hs : specDefaultScalar ext (.reg b n) dv with
    | none => rfl
    | some v => exact holds_self (.reg b n) p v (specDefaultScalar_isOf _ _ _ _ hs) trivial

end RtVerif.C03

namespace RtVerif.C03
open RtVerif Bytes

/-! ## class S: the field kind is the declared kind (or the narrower float) -/

theorem checkedF_safe (ty fmt : String) (ext : Option Ext) (k : SKind) (p : Bool) (t : Bytes)
    (hs : rangeSafe ty fmt k = true) :
    checkedF ty fmt (convertTextT ext (.s k p) t) = convertText ext k t := by
  simp only [convertTextT]
  cases hm : convertText ext k t with
  | err c => rfl
  | ok v => simp [checkedF, rangeFails_safe ty fmt k v hs (convertText_isOf ext k t v hm)]

theorem plain_same (d : Decl) (texts : Option (List Bytes)) (k k' : SKind) (p : Bool)
    (hs : SameKind k k') (hk' : SpecKindCase d.ext k') (hext : extOk d.ext = true)
    (hdef : d.default = none ∨ ∃ dv, d.default = some (.scalar dv))
    (hsafe : rangeSafe d.ty d.format k' = true)
    (hkn : textKnown k' (lastOr (texts.getD [])) = none) :
    okForT (specScalarT d texts k ⟨.s k' p, false⟩)
      (validatedT d (.ofBind (itemOut (setFieldValueT d (.s k' p) (scalarDefault d) (lastOr (texts.getD [])) texts.isSome)))) = true := by
  rw [specScalarT_plain, model_plain d k (.s k' p) _ _ _ (usable_s d.ext k' p hk') (zero_s d.ext k' p hk' hext), okForT_lift]
  · apply Conv.main _ d texts hdef
    · intro hne
      simp only [convOf, convOfF, checkedF_safe _ _ _ _ _ _ hsafe, specLiteralT_same _ _ _ _ _ hs]
      exact convertText_agrees d.ext k' _ hk' hne hkn
    · intro dv _
      simp only [convOf, convOfF, specDefaultT_same _ _ _ _ _ hs, emptyValueT, emptyValue]
      exact defaultScalar_agrees d.ext k' dv
    · intro v hne hl
      simp only [convOf, convOfF, specLiteralT_same _ _ _ _ _ hs] at hl
      exact ruleOn_text d k' _ v hk' hext hne hl
    · intro hd0 hreq
      exact ruleOn_zero d d.ext k' _ hd0 hreq
  · exact rangeFails_safe _ _ k' _ hsafe (specZero_isOf d.ext k' hk')
  · intro dv v _ hm
    simp only [emptyValueT, emptyValue] at hm
    exact rangeFails_safe _ _ k' _ hsafe (defaultScalar_isOf d.ext k' dv v hm)

/-! ## class I: integer fields of any width and sign -/

theorem fitsInt_mono {w w' : Nat} {v : Int} (hw : w ≤ w') (h : Num.fitsInt w v) : Num.fitsInt w' v := by
  unfold Num.fitsInt at *
  have : 2 ^ (w - 1) ≤ 2 ^ (w' - 1) := Nat.pow_le_pow_right (by decide) (by omega)
  omega

/-- what `specSKind` says of an integer declaration -/
theorem specSKind_int (ext : Option Ext) (ty fmt : String) (w : Nat) (h : specSKind ext ty fmt = some (.int w)) :
    (ty == "integer") = true ∧ (fmt == "int32") = (w == 32) ∧ (w = 8 ∨ w = 16 ∨ w = 32 ∨ w = 64) := by
  unfold specSKind at h
  split at h
  · cases h
  · rename_i hb
    split at h
    · rename_i hi
      refine ⟨hi, ?_⟩
      simp only [Option.some.injEq, SKind.int.injEq] at h
      subst h
      by_cases h8 : (fmt == "int8") = true
      · have : fmt = "int8" := by simpa using h8
        subst this; decide
      · by_cases h16 : (fmt == "int16") = true
        · have : fmt = "int16" := by simpa using h16
          subst this; decide
        · by_cases h32 : (fmt == "int32") = true
          · have : fmt = "int32" := by simpa using h32
            subst this; decide
          · simp [h8, h16, h32]
    · split at h
      · cases h
      · split at h
        · cases ext <;> cases h
        · cases h

theorem range_int_ok (fmt : String) (w x : Nat) (v : Int) (hfmt : (fmt == "int32") = (w == 32))
    (hw : w = 8 ∨ w = 16 ∨ w = 32 ∨ w = 64) (hf : Num.fitsInt w v) :
    rangeFails "integer" fmt (.int x v) = false := by
  simp only [rangeFails, beq_self_eq_true, Bool.true_and]
  by_cases h32 : w = 32
  · subst h32
    simp only [beq_self_eq_true] at hfmt
    simp [hfmt, hf]
  · have : (fmt == "int32") = false := by rw [hfmt]; simpa using h32
    have h64 : Num.fitsInt 64 v := fitsInt_mono (by rcases hw with rfl | rfl | rfl | rfl <;> decide) hf
    simp [this, h64]

theorem range_int_bad (fmt : String) (w x : Nat) (v : Int) (hfmt : (fmt == "int32") = (w == 32))
    (hw : w = 32 ∨ w = 64) (hf : ¬ Num.fitsInt w v) :
    rangeFails "integer" fmt (.int x v) = true := by
  simp only [rangeFails, beq_self_eq_true, Bool.true_and]
  rcases hw with rfl | rfl
  · simp only [beq_self_eq_true] at hfmt
    simp [hfmt, hf]
  · have : (fmt == "int32") = false := by rw [hfmt]; decide
    simp [this, hf]

end RtVerif.C03

namespace RtVerif.C03
open RtVerif Bytes

theorem widths_le {w : Nat} (hw : w = 8 ∨ w = 16 ∨ w = 32 ∨ w = 64) : 1 ≤ w ∧ w ≤ 64 := by
  rcases hw with rfl | rfl | rfl | rfl <;> decide

theorem holds_int (w' : Nat) (p : Bool) (x : Nat) (v : Int) :
    holds (.s (.int w') p) (.int x v) = if Num.fitsInt w' v then some (.int w' v) else none := rfl

theorem holds_uint (b : Nat) (p : Bool) (x : Nat) (v : Int) :
    holds (.uint b p) (.int x v) = if 0 ≤ v ∧ v < 2 ^ b then some (.int b v) else none := rfl

/-- signed field: the text converted and range-checked is the declared literal the field holds,
outside the recorded class F03h -/
theorem int_agrees (ext : Option Ext) (fmt : String) (w w' : Nat) (p : Bool) (t : Bytes)
    (hw : w = 8 ∨ w = 16 ∨ w = 32 ∨ w = 64) (hw' : w' = 8 ∨ w' = 16 ∨ w' = 32 ∨ w' = 64)
    (hfmt : (fmt == "int32") = (w == 32)) (hk : textKnownT w (.s (.int w') p) t = none) :
    Agrees (checkedF "integer" fmt (convertTextT ext (.s (.int w') p) t)) (specLiteralT ext (.int w) (.s (.int w') p) t) := by
  obtain ⟨hiff, herr⟩ := convertInt_iff w' (widths_le hw') t
  simp only [convertTextT, convertText, specLiteralT, specLiteral]
  cases hl : intLit? t with
  | none =>
    have : ¬ ∃ v, Num.IntLit t v ∧ Num.fitsInt w' v := by
      intro ⟨v, hv, _⟩
      have := (intLit?_iff t v).2 hv
      rw [hl] at this; cases this
    rw [herr this]
    simp [checkedF, Agrees]
  | some v =>
    have hv := (intLit?_iff t v).1 hl
    by_cases hf' : Num.fitsInt w' v
    · rw [(hiff v).2 ⟨hv, hf'⟩]
      by_cases hf : Num.fitsInt w v
      · simp [checkedF, range_int_ok fmt w w' v hfmt hw hf, hf, holds_int, hf', Agrees]
      · -- the declared width rejects: the validator's range check must catch it
        have hwide : w = 32 ∨ w = 64 := by
          rcases hw with rfl | rfl | rfl | rfl
          · simp [textKnownT, hl, hf, holds_int, hf'] at hk
          · simp [textKnownT, hl, hf, holds_int, hf'] at hk
          · exact .inl rfl
          · exact .inr rfl
        simp [checkedF, range_int_bad fmt w w' v hfmt hwide hf, hf, Agrees]
    · have : ¬ ∃ v', Num.IntLit t v' ∧ Num.fitsInt w' v' := by
        intro ⟨v', hv', hf''⟩
        have := Num.IntLit.unique hv hv'; subst this; exact hf' hf''
      rw [herr this]
      by_cases hf : Num.fitsInt w v <;> simp [checkedF, hf, holds_int, hf', Agrees]

theorem natOfDigits_nonneg (ds : Bytes) : (0 : Int) ≤ (Num.natOfDigits ds : Int) := Int.natCast_nonneg _

/-- unsigned field: `ParseUint` reads the unsigned literals; outside F03h and F03i (explicitly signed
literals the field could hold) it yields the declared literal the field holds -/
theorem uint_agrees (ext : Option Ext) (fmt : String) (w b : Nat) (p : Bool) (t : Bytes)
    (hw : w = 8 ∨ w = 16 ∨ w = 32 ∨ w = 64) (hb : b = 8 ∨ b = 16 ∨ b = 32 ∨ b = 64)
    (hfmt : (fmt == "int32") = (w == 32)) (hk : textKnownT w (.uint b p) t = none)
    (hku : textKnownU (.uint b p) t = none) :
    Agrees (checkedF "integer" fmt (convertTextT ext (.uint b p) t)) (specLiteralT ext (.int w) (.uint b p) t) := by
  have hb64 : 2 ^ b ≤ 2 ^ 64 := Nat.pow_le_pow_right (by decide) (widths_le hb).2
  simp only [convertTextT, convertUint, specLiteralT, specLiteral]
  cases hl : intLit? t with
  | none =>
    -- no literal at all: in particular not a string of digits
    cases hp : Num.parseUint10 64 t with
    | error e => simp [checkedF, Agrees]
    | ok n =>
      obtain ⟨h1, h2, _, _⟩ := (Num.parseUint10_ok_iff 64 t n).1 hp
      have := (intLit?_iff t _).2 (Num.IntLit.plain t h1 h2)
      rw [hl] at this; cases this
  | some v =>
    have hv := (intLit?_iff t v).1 hl
    cases hv with
    | plain _ h1 h2 =>
      -- digits only: v = natOfDigits t
      by_cases hlt : Num.natOfDigits t < 2 ^ b
      · have hp : Num.parseUint10 64 t = .ok (Num.natOfDigits t) :=
          (Num.parseUint10_ok_iff 64 t _).2 ⟨h1, h2, rfl, by omega⟩
        have hh : (0 : Int) ≤ (Num.natOfDigits t : Int) ∧ (Num.natOfDigits t : Int) < 2 ^ b := by
          refine ⟨Int.natCast_nonneg _, ?_⟩
          exact_mod_cast hlt
        simp only [hp, hlt, if_true]
        by_cases hf : Num.fitsInt w (Num.natOfDigits t : Int)
        · simp [checkedF, range_int_ok fmt w b _ hfmt hw hf, hf, holds_uint, hh, Agrees]
        · have hwide : w = 32 ∨ w = 64 := by
            rcases hw with rfl | rfl | rfl | rfl
            · simp [textKnownT, hl, hf, holds_uint, hh] at hk
            · simp [textKnownT, hl, hf, holds_uint, hh] at hk
            · exact .inl rfl
            · exact .inr rfl
          simp [checkedF, range_int_bad fmt w b _ hfmt hwide hf, hf, Agrees]
      · have hh : ¬ ((0 : Int) ≤ (Num.natOfDigits t : Int) ∧ (Num.natOfDigits t : Int) < 2 ^ b) := by
          intro ⟨_, h⟩
          apply hlt
          exact_mod_cast h
        have hspec : ((if Num.fitsInt w (Num.natOfDigits t : Int) then some (Scalar.int w (Num.natOfDigits t : Int)) else none).bind
            (holds (.uint b p))) = none := by
          have hge : (2 : Int) ^ b ≤ (Num.natOfDigits t : Int) := by
            have := Nat.le_of_not_lt hlt
            exact_mod_cast this
          by_cases hf : Num.fitsInt w (Num.natOfDigits t : Int)
          · simp only [hf, if_true, Option.bind_some, holds_uint]
            rw [if_neg hh]
          · simp [hf]
        rw [hspec]
        cases hp : Num.parseUint10 64 t with
        | error e => simp [checkedF, Agrees]
        | ok n =>
          obtain ⟨_, _, hn, _⟩ := (Num.parseUint10_ok_iff 64 t n).1 hp
          subst hn
          simp [hlt, checkedF, Agrees]
    | plus ds h1 h2 =>
      -- `+…`: ParseUint rejects the sign
      have hp : ∃ e, Num.parseUint10 64 (43 :: ds) = .error e := by
        cases hp : Num.parseUint10 64 (43 :: ds) with
        | error e => exact ⟨e, rfl⟩
        | ok n =>
          obtain ⟨_, hd, _, _⟩ := (Num.parseUint10_ok_iff 64 _ n).1 hp
          have := hd 43 (List.mem_cons_self ..)
          simp [Num.isDigit] at this
      obtain ⟨e, hp⟩ := hp
      have hno : holds (.uint b p) (.int 64 (Num.natOfDigits ds : Int)) = none := by
        simp only [textKnownU, beq_self_eq_true, Bool.true_or, Bool.true_and, hl, Option.bind_some] at hku
        cases hh : holds (.uint b p) (.int 64 (Num.natOfDigits ds : Int)) with
        | none => rfl
        | some _ => simp [hh] at hku
      have hspec : ((if Num.fitsInt w (Num.natOfDigits ds : Int) then some (Scalar.int w (Num.natOfDigits ds : Int)) else none).bind
          (holds (.uint b p))) = none := by
        by_cases hf : Num.fitsInt w (Num.natOfDigits ds : Int)
        · simp only [hf, if_true, Option.bind_some]
          rw [holds_uint] at hno ⊢; exact hno
        · simp [hf]
      rw [hspec, hp]
      simp [checkedF, Agrees]
    | minus ds h1 h2 =>
      have hp : ∃ e, Num.parseUint10 64 (45 :: ds) = .error e := by
        cases hp : Num.parseUint10 64 (45 :: ds) with
        | error e => exact ⟨e, rfl⟩
        | ok n =>
          obtain ⟨_, hd, _, _⟩ := (Num.parseUint10_ok_iff 64 _ n).1 hp
          have := hd 45 (List.mem_cons_self ..)
          simp [Num.isDigit] at this
      obtain ⟨e, hp⟩ := hp
      have hno : holds (.uint b p) (.int 64 (-(Num.natOfDigits ds : Int))) = none := by
        simp only [textKnownU, beq_self_eq_true, Bool.or_true, Bool.true_and, hl, Option.bind_some] at hku
        cases hh : holds (.uint b p) (.int 64 (-(Num.natOfDigits ds : Int))) with
        | none => rfl
        | some _ => simp [hh] at hku
      have hspec : ((if Num.fitsInt w (-(Num.natOfDigits ds : Int)) then some (Scalar.int w (-(Num.natOfDigits ds : Int))) else none).bind
          (holds (.uint b p))) = none := by
        by_cases hf : Num.fitsInt w (-(Num.natOfDigits ds : Int))
        · simp only [hf, if_true, Option.bind_some]
          rw [holds_uint] at hno ⊢; exact hno
        · simp [hf]
      rw [hspec, hp]
      simp [checkedF, Agrees]

end RtVerif.C03

namespace RtVerif.C03
open RtVerif Bytes

theorem fitsInt_zero {w : Nat} (hw : w = 8 ∨ w = 16 ∨ w = 32 ∨ w = 64) : Num.fitsInt w 0 := by
  rcases hw with rfl | rfl | rfl | rfl <;> decide

theorem ruleOn_int (d : Decl) (x : Nat) (v : Int) : ruleOn d (.int x v) = false := rfl

theorem specLiteralT_int_shape (ext : Option Ext) (w : Nat) (tk : TKind) (t : Bytes) (v : Scalar)
    (htk : (∃ w' p, tk = .s (.int w') p) ∨ (∃ b p, tk = .uint b p))
    (h : specLiteralT ext (.int w) tk t = some v) : ∃ x y, v = .int x y := by
  have hbind : (specLiteral ext (.int w) t).bind (holds tk) = some v := by
    rcases htk with ⟨w', p, rfl⟩ | ⟨b, p, rfl⟩ <;> exact h
  cases hs : specLiteral ext (.int w) t with
  | none => rw [hs] at hbind; cases hbind
  | some s =>
    rw [hs] at hbind
    simp only [Option.bind_some] at hbind
    have := specLiteral_isOf ext (.int w) t s hs
    cases s <;> simp only [Scalar.isOf, Bool.false_eq_true] at this
    rename_i x y
    rcases htk with ⟨w', p, rfl⟩ | ⟨b, p, rfl⟩
    · rw [holds_int] at hbind
      split at hbind
      · cases hbind; exact ⟨_, _, rfl⟩
      · cases hbind
    · rw [holds_uint] at hbind
      split at hbind
      · cases hbind; exact ⟨_, _, rfl⟩
      · cases hbind

/-- the declared default of an integer declaration, as a wf declaration and target constrain it -/
def IntDefaultOk (d : Decl) (w : Nat) (tk : TKind) : Prop :=
  ∀ dv, d.default = some (.scalar dv) →
    defaultFits (.int w) dv = true ∧
    ((specDefaultT d.ext (.int w) tk dv).isSome = true ∨ (specDefaultScalar d.ext (.int w) dv).isNone = true)

theorem plain_int_s (d : Decl) (texts : Option (List Bytes)) (w w' : Nat) (p : Bool)
    (hw' : w' = 8 ∨ w' = 16 ∨ w' = 32 ∨ w' = 64)
    (hk : specSKind d.ext d.ty d.format = some (.int w))
    (hdef : d.default = none ∨ ∃ dv, d.default = some (.scalar dv))
    (hdfit : IntDefaultOk d w (.s (.int w') p))
    (hkn : textKnownT w (.s (.int w') p) (lastOr (texts.getD [])) = none) :
    okForT (specScalarT d texts (.int w) ⟨.s (.int w') p, false⟩)
      (validatedT d (.ofBind (itemOut (setFieldValueT d (.s (.int w') p) (scalarDefault d) (lastOr (texts.getD [])) texts.isSome)))) = true := by
  obtain ⟨hty, hfmt, hw⟩ := specSKind_int _ _ _ _ hk
  have hty' : d.ty = "integer" := by simpa using hty
  have hsk : SpecKindCase d.ext (.int w') := .int w' hw'
  have hext0 : ∀ e, emptyValueT e (.s (.int w') p) none = .ok (specZeroT e (.s (.int w') p)) := fun e => rfl
  rw [specScalarT_plain, model_plain d (.int w) (.s (.int w') p) _ _ _ (usable_s d.ext _ p hsk) (hext0 _), okForT_lift]
  · apply Conv.main _ d texts hdef
    · intro _
      simp only [convOf, convOfF, hty']
      exact int_agrees d.ext d.format w w' p _ hw hw' hfmt hkn
    · intro dv hdv
      obtain ⟨hfit, hsome⟩ := hdfit dv hdv
      simp only [convOf, convOfF, emptyValueT, emptyValue]
      cases dv with
      | int x =>
        simp only [defaultScalar, specDefaultT, specDefaultScalar, Option.bind_some, holds_int]
        simp only [specDefaultT, specDefaultScalar, Option.bind_some, holds_int, Option.isNone_some, Bool.false_eq_true, or_false] at hsome
        by_cases hf : Num.fitsInt w' x
        · simp [hf, Agrees]
        · simp [hf] at hsome
      | num t => simp [defaultScalar, specDefaultT, specDefaultScalar, Agrees]
      | str t => simp [defaultScalar, specDefaultT, specDefaultScalar, Agrees]
      | bool t => simp [defaultScalar, specDefaultT, specDefaultScalar, Agrees]
    · intro v _ hl
      obtain ⟨x, y, rfl⟩ := specLiteralT_int_shape d.ext w _ _ v (.inl ⟨w', p, rfl⟩) hl
      rfl
    · intro _ _
      simp [convOf, convOfF, specZeroT, specZero, zeroScalar, ruleOn]
  · rw [hty']
    simp only [specZeroT, specZero, zeroScalar]
    exact range_int_ok d.format w w' 0 hfmt hw (fitsInt_zero hw)
  · intro dv v hdv hm
    obtain ⟨hfit, _⟩ := hdfit dv (by
      simp only [scalarDefault] at hdv
      cases hdd : d.default with
      | none => rw [hdd] at hdv; cases hdv
      | some x =>
        rw [hdd] at hdv
        cases x with
        | scalar y => simp only [Option.some.injEq] at hdv; subst hdv; rfl
        | arr _ => cases hdv)
    simp only [emptyValueT, emptyValue] at hm
    cases dv with
    | int x =>
      simp only [defaultScalar, ItemOut.ok.injEq] at hm
      subst hm
      rw [hty']
      simp only [defaultFits, Bool.and_eq_true, decide_eq_true_eq] at hfit
      exact range_int_ok d.format w w' x hfmt hw hfit.1
    | num t => simp [defaultScalar] at hm
    | str t => simp [defaultScalar] at hm
    | bool t => simp [defaultScalar] at hm

theorem plain_int_u (d : Decl) (texts : Option (List Bytes)) (w b : Nat) (p : Bool)
    (hb : b = 8 ∨ b = 16 ∨ b = 32 ∨ b = 64)
    (hk : specSKind d.ext d.ty d.format = some (.int w))
    (hdef : d.default = none ∨ ∃ dv, d.default = some (.scalar dv))
    (hdfit : IntDefaultOk d w (.uint b p))
    (hkn : textKnownT w (.uint b p) (lastOr (texts.getD [])) = none)
    (hku : textKnownU (.uint b p) (lastOr (texts.getD [])) = none) :
    okForT (specScalarT d texts (.int w) ⟨.uint b p, false⟩)
      (validatedT d (.ofBind (itemOut (setFieldValueT d (.uint b p) (scalarDefault d) (lastOr (texts.getD [])) texts.isSome)))) = true := by
  obtain ⟨hty, hfmt, hw⟩ := specSKind_int _ _ _ _ hk
  have hty' : d.ty = "integer" := by simpa using hty
  rw [specScalarT_plain, model_plain d (.int w) (.uint b p) _ _ _ (usable_u b p hb) (zero_u d.ext b p), okForT_lift]
  · apply Conv.main _ d texts hdef
    · intro _
      simp only [convOf, convOfF, hty']
      exact uint_agrees d.ext d.format w b p _ hw hb hfmt hkn hku
    · intro dv hdv
      obtain ⟨hfit, hsome⟩ := hdfit dv hdv
      simp only [convOf, convOfF, emptyValueT]
      cases dv with
      | int x =>
        simp only [specDefaultT, specDefaultScalar, Option.bind_some, holds_uint]
        simp only [specDefaultT, specDefaultScalar, Option.bind_some, holds_uint, Option.isNone_some, Bool.false_eq_true, or_false] at hsome
        by_cases hf : 0 ≤ x ∧ x < 2 ^ b
        · simp [hf, hf.1, Agrees]
        · simp [hf] at hsome
      | num t => simp [specDefaultT, specDefaultScalar, Agrees]
      | str t => simp [specDefaultT, specDefaultScalar, Agrees]
      | bool t => simp [specDefaultT, specDefaultScalar, Agrees]
    · intro v _ hl
      obtain ⟨x, y, rfl⟩ := specLiteralT_int_shape d.ext w _ _ v (.inr ⟨b, p, rfl⟩) hl
      rfl
    · intro _ _
      simp [convOf, convOfF, specZeroT, ruleOn]
  · rw [hty']
    simp only [specZeroT]
    exact range_int_ok d.format w b 0 hfmt hw (fitsInt_zero hw)
  · intro dv v hdv hm
    obtain ⟨hfit, _⟩ := hdfit dv (by
      simp only [scalarDefault] at hdv
      cases hdd : d.default with
      | none => rw [hdd] at hdv; cases hdv
      | some x =>
        rw [hdd] at hdv
        cases x with
        | scalar y => simp only [Option.some.injEq] at hdv; subst hdv; rfl
        | arr _ => cases hdv)
    cases dv with
    | int x =>
      simp only [emptyValueT] at hm
      split at hm
      · simp only [ItemOut.ok.injEq] at hm
        subst hm
        rw [hty']
        simp only [defaultFits, Bool.and_eq_true, decide_eq_true_eq] at hfit
        exact range_int_ok d.format w b x hfmt hw hfit.1
      · cases hm
    | num t => simp [emptyValueT] at hm
    | str t => simp [emptyValueT] at hm
    | bool t => simp [emptyValueT] at hm

end RtVerif.C03

namespace RtVerif.C03
open RtVerif Bytes

/-! ## pointer fields -/

def toPtrV : TVal → TVal
  | .plain (.scalar s) => .ptr (some s)
  | v => v

def toPtrO : TOut → TOut
  | .value v => .value (toPtrV v)
  | o => o

def toPtrE : ExpectT → ExpectT
  | .value v => .value (toPtrV v)
  | .either v => .either (toPtrV v)
  | e => e

def scalarV : TVal → Prop
  | .plain (.scalar _) => True
  | _ => False

def scalarO : TOut → Prop
  | .value v => scalarV v
  | _ => True

def scalarE : ExpectT → Prop
  | .value v => scalarV v
  | .either v => scalarV v
  | _ => True

theorem toPtrV_inj (a b : TVal) (ha : scalarV a) (hb : scalarV b) : toPtrV a = toPtrV b ↔ a = b := by
  cases a with
  | ptr _ => exact ha.elim
  | plain va =>
    cases va with
    | list _ _ => exact ha.elim
    | scalar sa =>
      cases b with
      | ptr _ => exact hb.elim
      | plain vb =>
        cases vb with
        | list _ _ => exact hb.elim
        | scalar sb => simp [toPtrV]

theorem okForT_toPtr (e : ExpectT) (o : TOut) (he : scalarE e) (ho : scalarO o) :
    okForT (toPtrE e) (toPtrO o) = okForT e o := by
  cases o with
  | panic w => cases e <;> simp [toPtrO, toPtrE, okForT]
  | e422 c => cases e <;> simp [toPtrO, toPtrE, okForT, isE422T]
  | e4xx c => cases e <;> simp [toPtrO, toPtrE, okForT, isE422T]
  | value v =>
    cases e with
    | value v' =>
      simp only [toPtrO, toPtrE, okForT, TOut.value.injEq]
      have := toPtrV_inj v v' ho he
      by_cases h : v = v'
      · simp [h]
      · have h' : toPtrV v ≠ toPtrV v' := fun hc => h (this.1 hc)
        simp [h, h']
    | either v' =>
      simp only [toPtrO, toPtrE, okForT, TOut.value.injEq, isE422T, Bool.or_false]
      have := toPtrV_inj v v' ho he
      by_cases h : v = v'
      · simp [h]
      · have h' : toPtrV v ≠ toPtrV v' := fun hc => h (this.1 hc)
        simp [h, h']
    | reject => simp [toPtrO, toPtrE, okForT, isE422T]
    | invalidDecl => simp [toPtrO, toPtrE, okForT]
    | unjudged => simp [toPtrO, toPtrE, okForT]

theorem validatedT_toPtr (d : Decl) (io : ItemOut) :
    validatedT d (ptrOut io) = toPtrO (validatedT d (.ofBind (itemOut io))) := by
  cases io with
  | err c => rfl
  | ok v =>
    simp only [ptrOut, itemOut, TOut.ofBind, validatedT, validateT, fact_deref, Bool.not_true, Bool.false_eq_true, if_false]
    by_cases hr : rangeFails d.ty d.format v = true
    · simp [hr, toPtrO]
    · simp only [hr, Bool.false_eq_true, if_false]
      cases validate d (.scalar v) <;> simp [toPtrO, toPtrV]

theorem scalarO_plain (d : Decl) (io : ItemOut) : scalarO (validatedT d (.ofBind (itemOut io))) := by
  cases io with
  | err c => simp [itemOut, TOut.ofBind, validatedT, scalarO]
  | ok v =>
    simp only [itemOut, TOut.ofBind, validatedT]
    cases validateT d (.plain (.scalar v)) <;> simp [scalarO, scalarV]

/-- the Spec of a pointer field, when there is a text or a default, is the Spec of the plain field with
the value behind a pointer -/
theorem specScalarT_ptr (d : Decl) (texts : Option (List Bytes)) (k : SKind) (tk : TKind)
    (h : (lastOr (texts.getD [])).isEmpty = false ∨ ∃ dv, d.default = some (.scalar dv)) :
    specScalarT d texts k ⟨tk, true⟩ = toPtrE (specScalarT d texts k ⟨tk, false⟩) ∧
    scalarE (specScalarT d texts k ⟨tk, false⟩) := by
  unfold specScalarT
  by_cases hte : (lastOr (texts.getD [])).isEmpty = true
  · simp only [hte, if_true]
    rcases h with h | ⟨dv, hd⟩
    · rw [hte] at h; cases h
    · simp only [specAbsentT, specScalarDefaultT, hd]
      cases hs : specDefaultT d.ext k tk dv with
      | none => simp [toPtrE, scalarE]
      | some v =>
        simp only [Option.map_some, wrapT, if_true, Bool.false_eq_true, if_false, violatesT]
        by_cases h1 : emptyDefaultConflict d = true
        · simp [h1, toPtrE, toPtrV, scalarE, scalarV]
        · by_cases h2 : violates d (.scalar v) = true <;> simp [h1, h2, toPtrE, toPtrV, scalarE, scalarV]
  · simp only [hte, Bool.false_eq_true, if_false]
    cases specLiteralT d.ext k tk (lastOr (texts.getD [])) with
    | none => simp [toPtrE, scalarE]
    | some v =>
      simp only [specValueT, wrapT, if_true, Bool.false_eq_true, if_false, violatesT]
      by_cases h2 : violates d (.scalar v) = true <;> simp [h2, toPtrE, toPtrV, scalarE, scalarV]

/-- **pointer fields from plain fields.** Whatever holds for the plain field of a kind holds for the
pointer to it: nil when there is neither text nor default, the same value behind a pointer otherwise. -/
theorem ptr_of_plain (d : Decl) (texts : Option (List Bytes)) (k : SKind) (tk : TKind)
    (hdef : d.default = none ∨ ∃ dv, d.default = some (.scalar dv))
    (hbyte : (d.format == "byte") = false ∨ True)
    (hplain : okForT (specScalarT d texts k ⟨tk, false⟩)
      (validatedT d (.ofBind (itemOut (setFieldValueT d tk (scalarDefault d) (lastOr (texts.getD [])) texts.isSome)))) = true) :
    okForT (specScalarT d texts k ⟨tk, true⟩)
      (validatedT d (setPtrT d tk (scalarDefault d) (lastOr (texts.getD [])) texts.isSome)) = true := by
  unfold setPtrT
  simp only [fact_byteGuard, Bool.not_true, Bool.and_false, Bool.false_eq_true, if_false, fact_ptrKind,
    fact_ptrDefault, Bool.false_and]
  by_cases hreq : requiredFails d texts.isSome (lastOr (texts.getD [])) = true
  · -- a missing required parameter
    simp only [hreq, if_true]
    have hte : (lastOr (texts.getD [])).isEmpty = true := by
      simp only [requiredFails, Bool.and_eq_true, Bool.or_eq_true] at hreq
      rcases hreq.1.1 with h | h
      · cases texts with
        | none => rfl
        | some _ => simp at h
      · exact h.2
    have hd0 : d.default = none := by
      simp only [requiredFails, Bool.and_eq_true] at hreq
      cases hdd : d.default with
      | none => rfl
      | some _ => rw [hdd] at hreq; simp at hreq
    have ht0 := isEmpty_eq_nil hte
    rw [ht0] at hreq
    rw [requiredFails_empty d _ hd0] at hreq
    simp only [specScalarT, hte, if_true, specAbsentT, hd0, hreq]
    simp [validatedT, okForT, isE422T]
  · have hreq' : requiredFails d texts.isSome (lastOr (texts.getD [])) = false := by simpa using hreq
    simp only [hreq', Bool.false_eq_true, if_false]
    by_cases hnil : ((lastOr (texts.getD [])).isEmpty && (scalarDefault d).isNone) = true
    · -- neither text nor default: the nil pointer
      simp only [hnil, if_true]
      simp only [Bool.and_eq_true] at hnil
      have hd0 : d.default = none := by
        rcases hdef with h | ⟨dv, h⟩
        · exact h
        · simp [scalarDefault, h] at hnil
      have ht0 := isEmpty_eq_nil hnil.1
      rw [ht0] at hreq'
      rw [requiredFails_empty d _ hd0] at hreq'
      simp only [specScalarT, hnil.1, if_true, specAbsentT, hd0, hreq', Bool.false_eq_true, if_false]
      simp [validatedT, fact_deref, okForT]
    · have hnil' : ((lastOr (texts.getD [])).isEmpty && (scalarDefault d).isNone) = false := by
        cases hx : ((lastOr (texts.getD [])).isEmpty && (scalarDefault d).isNone) with
        | false => rfl
        | true => exact (hnil hx).elim
      simp only [hnil', Bool.false_eq_true, if_false]
      have hcase : (lastOr (texts.getD [])).isEmpty = false ∨ ∃ dv, d.default = some (.scalar dv) := by
        by_cases hte : (lastOr (texts.getD [])).isEmpty = true
        · right
          simp only [hte, Bool.true_and] at hnil'
          rcases hdef with h | h
          · have : scalarDefault d = none := by simp [scalarDefault, h]
            rw [this] at hnil'
            cases hnil'
          · exact h
        · left; simpa using hte
      obtain ⟨hs, hse⟩ := specScalarT_ptr d texts k tk hcase
      rw [hs, validatedT_toPtr, okForT_toPtr _ _ hse (scalarO_plain d _)]
      exact hplain

end RtVerif.C03

namespace RtVerif.C03
open RtVerif Bytes

/-! ## assembling the scalar case -/

theorem compatible_cases (k : SKind) (tk : TKind) (h : compatible k tk = true) :
    (∃ k' p, tk = .s k' p ∧ SameKind k k') ∨
    (∃ w w' p, k = .int w ∧ tk = .s (.int w') p ∧ (w' = 8 ∨ w' = 16 ∨ w' = 32 ∨ w' = 64)) ∨
    (∃ w b p, k = .int w ∧ tk = .uint b p ∧ (b = 8 ∨ b = 16 ∨ b = 32 ∨ b = 64)) := by
  cases tk with
  | uint b p =>
    cases k <;> simp only [compatible, Bool.false_eq_true] at h
    rename_i w
    right; right
    refine ⟨w, b, p, rfl, rfl, ?_⟩
    simp only [Bool.or_eq_true, beq_iff_eq] at h
    omega
  | s k' p =>
    cases k with
    | int w =>
      cases k' <;> simp only [compatible, Bool.false_eq_true] at h
      rename_i w'
      right; left
      refine ⟨w, w', p, rfl, rfl, ?_⟩
      simp only [Bool.or_eq_true, beq_iff_eq] at h
      omega
    | bool =>
      cases k' <;> simp only [compatible, Bool.false_eq_true] at h
      exact .inl ⟨.bool, p, rfl, trivial⟩
    | str =>
      cases k' <;> simp only [compatible, Bool.false_eq_true] at h
      exact .inl ⟨.str, p, rfl, trivial⟩
    | reg nm n =>
      cases k' <;> simp only [compatible, Bool.false_eq_true] at h
      rename_i nm' n'
      simp only [Bool.and_eq_true, beq_iff_eq] at h
      exact .inl ⟨.reg nm' n', p, rfl, h⟩
    | other n => simp [compatible] at h
    | float w =>
      cases k' <;> simp only [compatible, Bool.false_eq_true] at h
      rename_i w'
      left
      refine ⟨.float w', p, rfl, ?_⟩
      simp only [Bool.or_eq_true, Bool.and_eq_true, beq_iff_eq] at h
      simp only [SameKind]
      omega

theorem sameKind_case (ext : Option Ext) (k k' : SKind) (hk : SpecKindCase ext k) (hs : SameKind k k') :
    SpecKindCase ext k' := by
  cases hk with
  | bool => cases k' <;> simp only [SameKind] at hs; exact .bool
  | str => cases k' <;> simp only [SameKind] at hs; exact .str
  | int w _ => cases k' <;> simp only [SameKind] at hs
  | reg e he =>
    cases k' <;> simp only [SameKind] at hs
    obtain ⟨rfl, rfl⟩ := hs
    exact .reg e he
  | float w hw =>
    cases k' <;> simp only [SameKind] at hs
    rename_i w'
    exact .float w' (by omega)

/-- what `specSKind` says of a number declaration read at 64 bits: its format is not `float` -/
theorem specSKind_float64 (ext : Option Ext) (ty fmt : String) (h : specSKind ext ty fmt = some (.float 64)) :
    (fmt == "float") = false := by
  unfold specSKind at h
  split at h
  · cases h
  · split at h
    · cases h
    · split at h
      · simp only [Option.some.injEq, SKind.float.injEq] at h
        by_cases hf : (fmt == "float") = true
        · simp [hf] at h
        · simpa using hf
      · split at h
        · cases ext <;> cases h
        · cases h

theorem rangeSafe_same (ext : Option Ext) (ty fmt : String) (k k' : SKind) (hk : specSKind ext ty fmt = some k)
    (hs : SameKind k k') (h32 : (fmt == "float32") = false) : rangeSafe ty fmt k' = true := by
  cases k' with
  | bool => rfl
  | str => rfl
  | reg _ _ => rfl
  | other _ => rfl
  | int _ => cases k <;> simp [SameKind] at hs
  | float w' =>
    by_cases h64 : w' = 64
    · subst h64
      have hk64 : k = .float 64 := by
        cases k <;> simp only [SameKind] at hs
        rename_i w
        have : w = 64 := by omega
        subst this; rfl
      subst hk64
      have h32' : fmt ≠ "float32" := by simpa using h32
      simp [rangeSafe, specSKind_float64 ext ty fmt hk, h32']
    · simp [rangeSafe, h64]

end RtVerif.C03

namespace RtVerif.C03
open RtVerif Bytes

theorem textKnownAll_none (w : Option Nat) (tk : TKind) (t : Bytes) (h : textKnownAll w tk t = none) :
    (∀ k' p, tk = .s k' p → textKnown k' t = none) ∧
    (∀ w', w = some w' → textKnownT w' tk t = none) ∧ textKnownU tk t = none := by
  unfold textKnownAll at h
  refine ⟨?_, ?_, ?_⟩
  · intro k' p htk
    subst htk
    simp only [fieldSKind] at h
    cases hx : textKnown k' t with
    | none => rfl
    | some f => rw [hx] at h; cases h
  · intro w' hw
    subst hw
    cases hx : textKnownT w' tk t with
    | none => rfl
    | some f =>
      simp only [hx] at h
      split at h <;> cases h
  · cases hx : textKnownU tk t with
    | none => rfl
    | some f =>
      simp only [hx] at h
      split at h
      · cases h
      · split at h <;> cases h

theorem struct_scalar (t : Target) (d : Decl) (r : Req) (k : SKind)
    (hd : d.wf = true) (hr : Req.wf d r = true) (hsk : specKind d = some (.scalar k))
    (ht : t.wf d = true) (hkn : knownT t d r = none) :
    okForT (specExpectT t d r) (validatedT d (bindRawT t d r)) = true := by
  obtain ⟨g1, g2, _, _⟩ := getOK_spec d r hd hr
  obtain ⟨harr, hspec⟩ := specKind_scalar hsk
  have hkc := specSKind_cases _ _ _ _ hspec
  unfold Decl.wf at hd
  simp only [Bool.and_eq_true] at hd
  obtain ⟨⟨hext, _⟩, h3⟩ := hd
  rw [hsk] at h3
  have hext : extOk d.ext = true := hext
  unfold Target.wf at ht
  rw [hsk] at ht
  simp only [Bool.and_eq_true, bne_iff_ne, ne_eq] at ht
  obtain ⟨⟨hf32, _⟩, hcompat, hdflt⟩ := ht
  have hf32' : (d.format == "float32") = false := by simpa using hf32
  have hdef : d.default = none ∨ ∃ dv, d.default = some (.scalar dv) := by
    cases hdd : d.default with
    | none => exact .inl rfl
    | some x =>
      cases x with
      | scalar dv => exact .inr ⟨dv, rfl⟩
      | arr _ => rw [hdd] at h3; simp at h3
  -- the one converted text lies outside the recorded classes
  have hlast : textKnownAll (declaredWidth d) t.kind (lastOr ((specTexts d r).getD [])) = none := by
    simp only [knownT, convertedTexts, harr, Bool.false_eq_true, if_false, List.findSome?_cons,
      List.findSome?_nil] at hkn
    rw [g1] at hkn
    cases hx : textKnownAll (declaredWidth d) t.kind (lastOr ((specTexts d r).getD [])) with
    | none => rfl
    | some f => rw [hx] at hkn; cases hkn
  obtain ⟨hk1, hk2, hk3⟩ := textKnownAll_none _ _ _ hlast
  have hse : specExpectT t d r = specScalarT d (specTexts d r) k t := by
    simp [specExpectT, hsk, hcompat]
  have hplain : okForT (specScalarT d (specTexts d r) k ⟨t.kind, false⟩)
      (validatedT d (.ofBind (itemOut (setFieldValueT d t.kind (scalarDefault d)
        (lastOr ((specTexts d r).getD [])) (specTexts d r).isSome)))) = true := by
    rcases compatible_cases k t.kind hcompat with ⟨k', p, htk, hs⟩ | ⟨w, w', p, rfl, htk, hw'⟩ | ⟨w, b, p, rfl, htk, hb⟩
    · rw [htk]
      exact plain_same d _ k k' p hs (sameKind_case d.ext k k' hkc hs) hext hdef
        (rangeSafe_same d.ext d.ty d.format k k' hspec hs hf32') (hk1 k' p htk)
    · have hdw : declaredWidth d = some w := by simp [declaredWidth, declaredSKind, hsk]
      have hfit : IntDefaultOk d w t.kind := by
        intro dv hdv
        rw [hdv] at h3 hdflt
        exact ⟨h3, by simpa using hdflt⟩
      rw [htk] at hfit ⊢
      exact plain_int_s d _ w w' p hw' hspec hdef hfit (htk ▸ hk2 w hdw)
    · have hdw : declaredWidth d = some w := by simp [declaredWidth, declaredSKind, hsk]
      have hfit : IntDefaultOk d w t.kind := by
        intro dv hdv
        rw [hdv] at h3 hdflt
        exact ⟨h3, by simpa using hdflt⟩
      rw [htk] at hfit ⊢
      exact plain_int_u d _ w b p hb hspec hdef hfit (htk ▸ hk2 w hdw) (htk ▸ hk3)
  rw [hse]
  obtain ⟨tk, ptr⟩ := t
  cases ptr with
  | false =>
    simp only [bindRawT, harr, Bool.false_eq_true, if_false, g1, g2]
    exact hplain
  | true =>
    simp only [bindRawT, harr, Bool.false_eq_true, if_false, if_true, g1, g2]
    exact ptr_of_plain d _ k tk hdef (.inr trivial) hplain

end RtVerif.C03

namespace RtVerif.C03
open RtVerif Bytes

/-! ## slices -/

/-- converting item by item (unchecked) against the Spec's items, when every CHECKED item agrees -/
theorem collect_checked {α : Type} (ty fmt : String) (l : List α) (f : α → ItemOut) (g : α → Option Scalar)
    (h : ∀ x ∈ l, Agrees (checkedF ty fmt (f x)) (g x)) :
    match mapM? g l with
    | some vs => collect (l.map f) = .ok vs ∧ vs.any (rangeFails ty fmt) = false
    | none => (∃ c, collect (l.map f) = .error c) ∨
        (∃ vs', collect (l.map f) = .ok vs' ∧ vs'.any (rangeFails ty fmt) = true) := by
  induction l with
  | nil => simp [mapM?, collect]
  | cons x r ih =>
    have hx := h x (List.mem_cons_self ..)
    have ih' := ih (fun y hy => h y (List.mem_cons_of_mem _ hy))
    simp only [mapM?, List.map_cons]
    cases hf : f x with
    | err c =>
      rw [hf] at hx
      cases hg : g x with
      | some v => rw [hg] at hx; exact hx.elim
      | none => exact .inl ⟨c, by simp [collect]⟩
    | ok v =>
      rw [hf] at hx
      by_cases hr : rangeFails ty fmt v = true
      · simp only [checkedF, hr, if_true] at hx
        cases hg : g x with
        | some v' => rw [hg] at hx; exact hx.elim
        | none =>
          simp only
          cases hc : collect (r.map f) with
          | error c => exact .inl ⟨c, by simp [collect, hc]⟩
          | ok vs'' => exact .inr ⟨v :: vs'', by simp [collect, hc], by simp [hr]⟩
      · have hr' : rangeFails ty fmt v = false := by simpa using hr
        simp only [checkedF, hr', Bool.false_eq_true, if_false] at hx
        cases hg : g x with
        | none => rw [hg] at hx; exact hx.elim
        | some v' =>
          rw [hg] at hx
          simp only [Agrees] at hx
          subst hx
          cases hm : mapM? g r with
          | some vs =>
            rw [hm] at ih'
            simp only
            exact ⟨by simp [collect, ih'.1], by simp [hr', ih'.2]⟩
          | none =>
            rw [hm] at ih'
            simp only
            rcases ih' with ⟨c, hc⟩ | ⟨vs', hc, hany⟩
            · exact .inl ⟨c, by simp [collect, hc]⟩
            · exact .inr ⟨v :: vs', by simp [collect, hc], by simp [hany]⟩

/-- the validator on a bound list: the list validations, then the range check item by item -/
def validatedL (d : Decl) : BindOut → BindOut
  | .value (.list tag vs) =>
    (match validate d (.list tag vs) with
    | some c => .e422 c
    | none => if vs.any (rangeFails d.itemsTy d.itemsFormat) then .e422 422 else .value (.list tag vs))
  | o => o

theorem validatedT_list (d : Decl) (tag : String) (l : List ItemOut) :
    validatedT d (.ofBind (listOutT tag l)) = .ofBind (validatedL d (listOutT tag l)) := by
  unfold listOutT
  cases collect l with
  | error c => rfl
  | ok vs =>
    simp only [TOut.ofBind, validatedT, validateT, validatedL]
    cases validate d (.list tag vs) with
    | some c => rfl
    | none =>
      simp only
      by_cases h : vs.any (rangeFails d.itemsTy d.itemsFormat) = true
      · simp [h, TOut.ofBind]
      · simp [h, TOut.ofBind]

/-- a list of items against the Spec's items -/
theorem list_ok {α : Type} (d : Decl) (tag : String) (l : List α) (f : α → ItemOut) (g : α → Option Scalar)
    (h : ∀ x ∈ l, Agrees (checkedF d.itemsTy d.itemsFormat (f x)) (g x)) :
    okFor (match mapM? g l with
        | none => .reject
        | some vs => specValue d (.list tag vs))
      (validatedL d (listOutT tag (l.map f))) = true := by
  have hc := collect_checked d.itemsTy d.itemsFormat l f g h
  unfold listOutT
  cases hm : mapM? g l with
  | some vs =>
    rw [hm] at hc
    obtain ⟨h1, h2⟩ := hc
    simp only [h1, validatedL, h2, Bool.false_eq_true, if_false]
    have := validated_list d tag vs
    unfold validated at this
    cases hv : validate d (.list tag vs) <;> simp only [hv] at this ⊢ <;> exact this
  | none =>
    rw [hm] at hc
    rcases hc with ⟨c, h1⟩ | ⟨vs', h1, h2⟩
    · simp [h1, validatedL, okFor, isE422]
    · simp only [h1, validatedL, h2, if_true]
      cases validate d (.list tag vs') <;> simp [okFor, isE422]

/-- what the field kind does with the items of an array parameter, against the Spec -/
structure ItemsAgree (d : Decl) (k : SKind) (tk : TKind) (data : List Bytes) : Prop where
  item : ∀ t ∈ data, Agrees (checkedF d.itemsTy d.itemsFormat (setFieldValueT d tk none t true)) (specItemT d k tk t)
  dflt : ∀ ds, d.default = some (.arr ds) → ∀ it ∈ ds,
    Agrees (checkedF d.itemsTy d.itemsFormat (setFieldValueT d tk (some it) [] true)) (specDefaultT d.ext k tk it)

theorem specAbsentT_list (d : Decl) (tk : TKind) (pe : Bool) (dflt : Option (List Scalar)) (tag : String) :
    specAbsentT d ⟨tk, false⟩ pe (dflt.map fun vs => .plain (.list tag vs)) (.plain (.list tag [])) =
      liftE (specAbsent d pe (dflt.map (.list tag)) (.list tag [])) := by
  have := specAbsentT_plain d tk pe (dflt.map (.list tag)) (.list tag [])
  rw [← this]
  cases dflt <;> rfl

theorem slice_T (d : Decl) (k : SKind) (tk : TKind) (texts : Option (List Bytes)) (data : List Bytes)
    (hdef : d.default = none ∨ ∃ ds, d.default = some (.arr ds))
    (hdata : data = specItems d texts) (hhas : data ≠ [] → texts.isSome = true)
    (ha : ItemsAgree d k tk data) :
    okForT (specSliceT d texts k ⟨tk, false⟩)
      (validatedT d (.ofBind (setSliceFieldValueT d tk data texts.isSome))) = true := by
  unfold specSliceT
  rw [← hdata]
  by_cases hde : data = []
  · subst hde
    simp only [List.isEmpty_nil, if_true]
    have hspec : specArrayDefaultT d k tk =
        (match d.default with
          | some (.arr ds) => mapM? (specDefaultT d.ext k tk) ds
          | _ => none).map fun vs => .plain (.list (tagOfT tk) vs) := by
      unfold specArrayDefaultT
      cases d.default with
      | none => rfl
      | some x => cases x <;> rfl
    rw [hspec, specAbsentT_list]
    rcases hdef with hd | ⟨ds, hd⟩
    · by_cases hreq : requiredFails d texts.isSome [] = true
      · simp only [setSliceFieldValueT, sliceRequiredFails_nil, hreq, if_true]
        rw [show validatedT d (TOut.ofBind (.e422 602)) = .ofBind (.e422 602) from rfl, okForT_lift]
        exact absent_none_reject d _ _ _ _ hd hreq
      · have hreq' : requiredFails d texts.isSome [] = false := by simpa using hreq
        simp only [setSliceFieldValueT, sliceRequiredFails_nil, hreq', Bool.false_eq_true, if_false,
          List.isEmpty_nil, if_true, sliceDefaultT, hd]
        have hv : validatedT d (.ofBind (.value (.list (tagOfT tk) []))) =
            .ofBind (validated d (.value (.list (tagOfT tk) []))) := by
          simp only [TOut.ofBind, validatedT, validateT, validated, List.any_nil, Bool.false_eq_true, if_false]
          cases validate d (.list (tagOfT tk) []) <;> rfl
        rw [hv, okForT_lift]
        exact absent_none d _ _ _ _ hd hreq' (validated_list d _ [])
    · have hreq' : requiredFails d texts.isSome [] = false := by simp [requiredFails, hd]
      simp only [setSliceFieldValueT, sliceRequiredFails_nil, hreq', Bool.false_eq_true, if_false,
        List.isEmpty_nil, if_true, sliceDefaultT, hd]
      rw [validatedT_list, okForT_lift]
      have hl := list_ok d (tagOfT tk) ds (fun it => setFieldValueT d tk (some it) [] true)
        (specDefaultT d.ext k tk) (ha.dflt ds hd)
      cases hm : mapM? (specDefaultT d.ext k tk) ds with
      | none =>
        rw [hm] at hl
        simp only [Option.map_none]
        -- the default is not a value of the declared type the field holds: only an error answer is left
        have : ∃ c, validatedL d (listOutT (tagOfT tk) (ds.map fun it => setFieldValueT d tk (some it) [] true)) = .e422 c := by
          cases ho : validatedL d (listOutT (tagOfT tk) (ds.map fun it => setFieldValueT d tk (some it) [] true)) with
          | e422 c => exact ⟨c, rfl⟩
          | value v => rw [ho] at hl; simp [okFor, isE422] at hl
          | e4xx s => rw [ho] at hl; simp [okFor, isE422] at hl
          | panic w => rw [ho] at hl; simp [okFor] at hl
        obtain ⟨c, hc⟩ := this
        rw [hc]
        exact absent_default_invalid d _ _ _ c hd
      | some vs =>
        rw [hm] at hl
        simp only [Option.map_some]
        exact absent_default d _ _ _ _ _ hd (.inl hl)
  · have hsome := hhas hde
    have hie : data.isEmpty = false := by cases data with | nil => exact (hde rfl).elim | cons _ _ => rfl
    simp only [hie, Bool.false_eq_true, if_false, hsome]
    by_cases hreq : sliceRequiredFails d true data = true
    · have hd1 : data = [[]] := by
        simp only [sliceRequiredFails, hie, Bool.false_or, Bool.not_true, Bool.and_eq_true, beq_iff_eq] at hreq
        exact hreq.1.1.2
      have hc : (d.required && !d.allowEmpty && d.default.isNone) = true := by
        simp only [sliceRequiredFails] at hreq
        cases h1 : d.required <;> cases h2 : d.allowEmpty <;> cases h3 : d.default.isNone <;> simp_all
      subst hd1
      simp [setSliceFieldValueT, hreq, mapM?, specItemT, hc, validatedT, TOut.ofBind, okForT, isE422T]
    · have hreq' : sliceRequiredFails d true data = false := by simpa using hreq
      simp only [setSliceFieldValueT, hreq', Bool.false_eq_true, if_false, hie]
      rw [validatedT_list]
      have hl := list_ok d (tagOfT tk) data (fun t => setFieldValueT d tk none t true) (specItemT d k tk) ha.item
      cases hm : mapM? (specItemT d k tk) data with
      | none =>
        rw [hm] at hl
        simp only
        rw [show ExpectT.reject = liftE .reject from rfl, okForT_lift]
        exact hl
      | some vs =>
        rw [hm] at hl
        simp only
        have : specValueT d (.plain (.list (tagOfT tk) vs)) = liftE (specValue d (.list (tagOfT tk) vs)) := by
          simp only [specValueT, specValue, violatesT]
          rw [apply_ite liftE]; rfl
        rw [this, okForT_lift]
        exact hl

end RtVerif.C03

namespace RtVerif.C03
open RtVerif Bytes

/-- one item of an array, generically -/
theorem item_T (d : Decl) (k : SKind) (tk : TKind) (t : Bytes)
    (huse : (!tk.handled && !tk.isReg) = false)
    (hzero : emptyValueT d.ext tk none = .ok (specZeroT d.ext tk))
    (hzr : rangeFails d.itemsTy d.itemsFormat (specZeroT d.ext tk) = false)
    (hconv : t.isEmpty = false →
      Agrees (checkedF d.itemsTy d.itemsFormat (convertTextT d.ext tk t)) (specLiteralT d.ext k tk t)) :
    Agrees (checkedF d.itemsTy d.itemsFormat (setFieldValueT d tk none t true)) (specItemT d k tk t) := by
  by_cases hte : t.isEmpty = true
  · have ht0 := isEmpty_eq_nil hte
    subst ht0
    by_cases hreq : requiredFails d true [] = true
    · have hc : (d.required && !d.allowEmpty && d.default.isNone) = true := by
        simp only [requiredFails, List.isEmpty_nil] at hreq
        cases h1 : d.required <;> cases h2 : d.allowEmpty <;> cases h3 : d.default.isNone <;> simp_all
      simp [setFieldValueT, hreq, specItemT, hc, checkedF, Agrees]
    · have hreq' : requiredFails d true [] = false := by simpa using hreq
      have hc : (d.required && !d.allowEmpty && d.default.isNone) = false := by
        simp only [requiredFails, List.isEmpty_nil] at hreq'
        cases h1 : d.required <;> cases h2 : d.allowEmpty <;> cases h3 : d.default.isNone <;> simp_all
      simp [setFieldValueT, hreq', huse, hzero, specItemT, hc, checkedF, hzr, Agrees]
  · have hte' : t.isEmpty = false := by simpa using hte
    have hreq : requiredFails d true t = false := by simp [requiredFails, hte']
    simp only [setFieldValueT, hreq, Bool.false_eq_true, if_false, huse, hte', specItemT]
    exact hconv hte'

/-- one item of a declared array default, generically -/
theorem dflt_item_T (d : Decl) (tk : TKind) (ds : List DefScalar) (it : DefScalar)
    (hd : d.default = some (.arr ds)) (huse : (!tk.handled && !tk.isReg) = false) :
    setFieldValueT d tk (some it) [] true = emptyValueT d.ext tk (some it) := by
  have : requiredFails d true [] = false := by simp [requiredFails, hd]
  simp [setFieldValueT, this, huse]

theorem itemsAgree_same (d : Decl) (k k' : SKind) (p : Bool) (data : List Bytes)
    (hs : SameKind k k') (hk' : SpecKindCase d.ext k') (hext : extOk d.ext = true)
    (hsafe : rangeSafe d.itemsTy d.itemsFormat k' = true)
    (hkn : ∀ t ∈ data, textKnown k' t = none) : ItemsAgree d k (.s k' p) data := by
  have huse := usable_s d.ext k' p hk'
  constructor
  · intro t ht
    apply item_T d k (.s k' p) t huse (zero_s d.ext k' p hk' hext)
      (rangeFails_safe _ _ k' _ hsafe (specZero_isOf d.ext k' hk'))
    intro hne
    rw [checkedF_safe _ _ _ _ _ _ hsafe, specLiteralT_same _ _ _ _ _ hs]
    exact convertText_agrees d.ext k' t hk' hne (hkn t ht)
  · intro ds hd it _
    rw [dflt_item_T d _ ds it hd huse, specDefaultT_same _ _ _ _ _ hs]
    simp only [emptyValueT, emptyValue]
    have ha := defaultScalar_agrees d.ext k' it
    cases hm : defaultScalar d.ext k' it with
    | err c => rw [hm] at ha; exact ha
    | ok v =>
      rw [hm] at ha
      simp only [checkedF, rangeFails_safe _ _ k' v hsafe (defaultScalar_isOf d.ext k' it v hm), Bool.false_eq_true, if_false]
      exact ha

/-- the items of a declared integer-array default, as a wf declaration and target constrain them -/
def IntItemsDefaultOk (d : Decl) (w : Nat) (tk : TKind) : Prop :=
  ∀ ds, d.default = some (.arr ds) → ∀ dv ∈ ds,
    defaultFits (.int w) dv = true ∧
    ((specDefaultT d.ext (.int w) tk dv).isSome = true ∨ (specDefaultScalar d.ext (.int w) dv).isNone = true)

theorem itemsAgree_int_s (d : Decl) (w w' : Nat) (p : Bool) (data : List Bytes)
    (hw' : w' = 8 ∨ w' = 16 ∨ w' = 32 ∨ w' = 64)
    (hk : specSKind d.ext d.itemsTy d.itemsFormat = some (.int w))
    (hdfit : IntItemsDefaultOk d w (.s (.int w') p))
    (hkn : ∀ t ∈ data, textKnownT w (.s (.int w') p) t = none) : ItemsAgree d (.int w) (.s (.int w') p) data := by
  obtain ⟨hty, hfmt, hw⟩ := specSKind_int _ _ _ _ hk
  have hty' : d.itemsTy = "integer" := by simpa using hty
  have hsk : SpecKindCase d.ext (.int w') := .int w' hw'
  have huse := usable_s d.ext _ p hsk
  constructor
  · intro t ht
    apply item_T d (.int w) (.s (.int w') p) t huse rfl
    · rw [hty']
      simp only [specZeroT, specZero, zeroScalar]
      exact range_int_ok d.itemsFormat w w' 0 hfmt hw (fitsInt_zero hw)
    · intro _
      rw [hty']
      exact int_agrees d.ext d.itemsFormat w w' p t hw hw' hfmt (hkn t ht)
  · intro ds hd it hit
    obtain ⟨hfit, hsome⟩ := hdfit ds hd it hit
    rw [dflt_item_T d _ ds it hd huse, hty']
    simp only [emptyValueT, emptyValue]
    cases it with
    | int x =>
      simp only [defaultScalar, specDefaultT, specDefaultScalar, Option.bind_some, holds_int]
      simp only [specDefaultT, specDefaultScalar, Option.bind_some, holds_int, Option.isNone_some, Bool.false_eq_true, or_false] at hsome
      simp only [defaultFits, Bool.and_eq_true, decide_eq_true_eq] at hfit
      by_cases hf : Num.fitsInt w' x
      · simp [hf, checkedF, range_int_ok d.itemsFormat w w' x hfmt hw hfit.1, Agrees]
      · simp [hf] at hsome
    | num t => simp [defaultScalar, specDefaultT, specDefaultScalar, checkedF, Agrees]
    | str t => simp [defaultScalar, specDefaultT, specDefaultScalar, checkedF, Agrees]
    | bool t => simp [defaultScalar, specDefaultT, specDefaultScalar, checkedF, Agrees]

theorem itemsAgree_int_u (d : Decl) (w b : Nat) (p : Bool) (data : List Bytes)
    (hb : b = 8 ∨ b = 16 ∨ b = 32 ∨ b = 64)
    (hk : specSKind d.ext d.itemsTy d.itemsFormat = some (.int w))
    (hdfit : IntItemsDefaultOk d w (.uint b p))
    (hkn : ∀ t ∈ data, textKnownT w (.uint b p) t = none)
    (hku : ∀ t ∈ data, textKnownU (.uint b p) t = none) : ItemsAgree d (.int w) (.uint b p) data := by
  obtain ⟨hty, hfmt, hw⟩ := specSKind_int _ _ _ _ hk
  have hty' : d.itemsTy = "integer" := by simpa using hty
  have huse := usable_u b p hb
  constructor
  · intro t ht
    apply item_T d (.int w) (.uint b p) t huse rfl
    · rw [hty']
      simp only [specZeroT]
      exact range_int_ok d.itemsFormat w b 0 hfmt hw (fitsInt_zero hw)
    · intro _
      rw [hty']
      exact uint_agrees d.ext d.itemsFormat w b p t hw hb hfmt (hkn t ht) (hku t ht)
  · intro ds hd it hit
    obtain ⟨hfit, hsome⟩ := hdfit ds hd it hit
    rw [dflt_item_T d _ ds it hd huse, hty']
    cases it with
    | int x =>
      simp only [emptyValueT, specDefaultT, specDefaultScalar, Option.bind_some, holds_uint]
      simp only [specDefaultT, specDefaultScalar, Option.bind_some, holds_uint, Option.isNone_some, Bool.false_eq_true, or_false] at hsome
      simp only [defaultFits, Bool.and_eq_true, decide_eq_true_eq] at hfit
      by_cases hf : 0 ≤ x ∧ x < 2 ^ b
      · simp [hf, hf.1, checkedF, range_int_ok d.itemsFormat w b x hfmt hw hfit.1, Agrees]
      · simp [hf] at hsome
    | num t => simp [emptyValueT, specDefaultT, specDefaultScalar, checkedF, Agrees]
    | str t => simp [emptyValueT, specDefaultT, specDefaultScalar, checkedF, Agrees]
    | bool t => simp [emptyValueT, specDefaultT, specDefaultScalar, checkedF, Agrees]

end RtVerif.C03

namespace RtVerif.C03
open RtVerif Bytes

theorem struct_slice (t : Target) (d : Decl) (r : Req) (k : SKind)
    (hd : d.wf = true) (hr : Req.wf d r = true) (hsk : specKind d = some (.slice k))
    (ht : t.wf d = true) (hkn : knownT t d r = none) :
    okForT (specExpectT t d r) (validatedT d (bindRawT t d r)) = true := by
  obtain ⟨g1, g2, g3, _⟩ := getOK_spec d r hd hr
  obtain ⟨harr, hspec⟩ := specKind_slice hsk
  have hkc := specSKind_cases _ _ _ _ hspec
  unfold Decl.wf at hd
  simp only [Bool.and_eq_true] at hd
  obtain ⟨⟨hext, _⟩, h3⟩ := hd
  rw [hsk] at h3
  have hext : extOk d.ext = true := hext
  simp only [Bool.and_eq_true, Bool.or_eq_true, bne_iff_ne, ne_eq] at h3
  obtain ⟨⟨_, hmulti⟩, hdd⟩ := h3
  unfold Target.wf at ht
  rw [hsk] at ht
  simp only [Bool.and_eq_true, bne_iff_ne, ne_eq, Bool.not_eq_eq_eq_not, Bool.not_true] at ht
  obtain ⟨⟨_, hf32⟩, ⟨hcompat, hptr⟩, hdflt⟩ := ht
  have hf32' : (d.itemsFormat == "float32") = false := by simpa using hf32
  have hdef : d.default = none ∨ ∃ ds, d.default = some (.arr ds) := by
    cases hd1 : d.default with
    | none => exact .inl rfl
    | some x =>
      cases x with
      | arr ds => exact .inr ⟨ds, rfl⟩
      | scalar _ => rw [hd1] at hdd; simp at hdd
  obtain ⟨tk, ptr⟩ := t
  simp only at hcompat hptr hdflt
  subst hptr
  -- the items agree, for any list of items outside the recorded classes
  have hitems : ∀ data : List Bytes, (∀ x ∈ data, textKnownAll (declaredWidth d) tk x = none) → ItemsAgree d k tk data := by
    intro data hall
    rcases compatible_cases k tk hcompat with ⟨k', p, htk, hs⟩ | ⟨w, w', p, rfl, htk, hw'⟩ | ⟨w, b, p, rfl, htk, hb⟩
    · subst htk
      exact itemsAgree_same d k k' p data hs (sameKind_case d.ext k k' hkc hs) hext
        (rangeSafe_same d.ext d.itemsTy d.itemsFormat k k' hspec hs hf32')
        (fun x hx => (textKnownAll_none _ _ _ (hall x hx)).1 k' p rfl)
    · subst htk
      have hdw : declaredWidth d = some w := by simp [declaredWidth, declaredSKind, hsk]
      have hfit : IntItemsDefaultOk d w (.s (.int w') p) := by
        intro ds hds dv hdv
        rw [hds] at hdd hdflt
        simp only [List.all_eq_true] at hdd hdflt
        exact ⟨hdd dv hdv, by simpa using hdflt dv hdv⟩
      exact itemsAgree_int_s d w w' p data hw' hspec hfit
        (fun x hx => (textKnownAll_none _ _ _ (hall x hx)).2.1 w hdw)
    · subst htk
      have hdw : declaredWidth d = some w := by simp [declaredWidth, declaredSKind, hsk]
      have hfit : IntItemsDefaultOk d w (.uint b p) := by
        intro ds hds dv hdv
        rw [hds] at hdd hdflt
        simp only [List.all_eq_true] at hdd hdflt
        exact ⟨hdd dv hdv, by simpa using hdflt dv hdv⟩
      exact itemsAgree_int_u d w b p data hb hspec hfit
        (fun x hx => (textKnownAll_none _ _ _ (hall x hx)).2.1 w hdw)
        (fun x hx => (textKnownAll_none _ _ _ (hall x hx)).2.2)
  simp only [knownT, convertedTexts, harr, if_true] at hkn
  have hall : ∀ x ∈ (if (d.cf == "multi") = true then (getOK d r).1
      else splitByFormat (lastOr (getOK d r).1) d.cf), textKnownAll (declaredWidth d) tk x = none := by
    intro x hx
    exact (List.findSome?_eq_none_iff.1 hkn) x hx
  have hbind : bindRawT ⟨tk, false⟩ d r = .ofBind (bindSliceT d r tk) := by simp [bindRawT, harr]
  rw [hbind]
  by_cases hm : (d.cf == "multi") = true
  · have hallow : allowsMulti d.loc = true := by
      rcases hmulti with h | h
      · exact (h (by simpa using hm)).elim
      · exact h
    have hse : specExpectT ⟨tk, false⟩ d r = specSliceT d (specTexts d r) k ⟨tk, false⟩ := by
      simp [specExpectT, hsk, hm, hallow, hcompat]
    simp only [hm, if_true] at hall
    rw [hse]
    simp only [bindSliceT, hm, if_true, hallow, Bool.not_true, Bool.false_eq_true, if_false]
    rw [g2]
    apply slice_T d k tk (specTexts d r) (getOK d r).1 hdef
    · simp [specItems, hm, g1]
    · intro hne
      cases hst : specTexts d r with
      | none => rw [g1, hst] at hne; exact (hne rfl).elim
      | some _ => rfl
    · exact hitems _ hall
  · have hm' : (d.cf == "multi") = false := by simpa using hm
    have hse : specExpectT ⟨tk, false⟩ d r = specSliceT d (specTexts d r) k ⟨tk, false⟩ := by
      simp [specExpectT, hsk, hm', hcompat]
    simp only [hm', Bool.false_eq_true, if_false] at hall
    rw [hse]
    simp only [bindSliceT, hm', Bool.false_eq_true, if_false]
    have hsplit := specItems_split d (specTexts d r) hm'
    rw [← g1] at hsplit
    by_cases hv : (getOK d r).2.2 = true
    · simp only [hv, Bool.not_true, Bool.false_eq_true, if_false]
      rw [g2]
      apply slice_T d k tk (specTexts d r) _ hdef hsplit.symm
      · intro hne
        cases hst : specTexts d r with
        | none =>
          rw [g1, hst] at hne
          exact (hne (by simp [lastOr, splitByFormat])).elim
        | some _ => rfl
      · exact hitems _ hall
    · have hv' : (getOK d r).2.2 = false := by simpa using hv
      simp only [hv', Bool.not_false, if_true]
      rw [g2]
      have hnil : specItems d (specTexts d r) = [] := by
        rw [hsplit, g3 hv']; simp [splitByFormat]
      apply slice_T d k tk (specTexts d r) [] hdef hnil.symm
      · intro hne; exact (hne rfl).elim
      · exact hitems [] (fun x hx => by cases hx)

end RtVerif.C03

namespace RtVerif.C03
open RtVerif Bytes

/-! ## several parameters of one operation -/

/-- `bind` yields a value, a 422 or (for a declaration without Go type) a panic — never another status -/
theorem bind_not_e4xx (d : Decl) (r : Req) (st : Nat) : bind d r ≠ .e4xx st := by
  have hlist : ∀ sk l, listOut sk l ≠ .e4xx st := by
    intro sk l; unfold listOut; split <;> simp
  have hs : ∀ sk data hasKey, setSliceFieldValue d sk data hasKey ≠ .e4xx st := by
    intro sk data hasKey
    unfold setSliceFieldValue
    split
    · simp
    · split
      · unfold sliceDefault
        split
        · exact hlist _ _
        · simp
        · simp
      · exact hlist _ _
  have hraw : bindRaw d r ≠ .e4xx st := by
    unfold bindRaw
    split
    · simp
    · simp only [bindScalar]
      rename_i sk _
      cases setFieldValue d sk (scalarDefault d) (lastOr (getOK d r).1) (getOK d r).2.1 <;> simp [itemOut]
    · simp only [bindSlice]
      split
      · split
        · simp
        · exact hs _ _ _
      · split
        · exact hs _ _ _
        · exact hs _ _ _
  unfold bind validated
  split
  · split <;> simp
  · rename_i o hnv
    exact hraw

theorem valuesOf?_some (outs : List BindOut) (vs : List Val) (h : valuesOf? outs = some vs) :
    outs = vs.map .value := by
  induction outs generalizing vs with
  | nil => simp only [valuesOf?, Option.some.injEq] at h; subst h; rfl
  | cons o r ih =>
    cases o with
    | value v =>
      simp only [valuesOf?] at h
      cases hr : valuesOf? r with
      | none => rw [hr] at h; cases h
      | some vs' =>
        rw [hr] at h
        simp only [Option.map_some, Option.some.injEq] at h
        subst h
        simp [ih vs' hr]
    | e422 c => simp [valuesOf?] at h
    | e4xx c => simp [valuesOf?] at h
    | panic w => simp [valuesOf?] at h

theorem firstFailure_of_none (outs : List BindOut) (h : valuesOf? outs = none) :
    ∃ o, firstFailure outs = some o ∧ o ∈ outs ∧ ∀ v, o ≠ .value v := by
  induction outs with
  | nil => simp [valuesOf?] at h
  | cons o r ih =>
    cases o with
    | value v =>
      simp only [valuesOf?] at h
      cases hr : valuesOf? r with
      | some vs => rw [hr] at h; cases h
      | none =>
        obtain ⟨o', h1, h2, h3⟩ := ih hr
        exact ⟨o', by simp [firstFailure, h1], List.mem_cons_of_mem _ h2, h3⟩
    | e422 c => exact ⟨.e422 c, rfl, List.mem_cons_self .., by simp⟩
    | e4xx c => exact ⟨.e4xx c, rfl, List.mem_cons_self .., by simp⟩
    | panic w => exact ⟨.panic w, rfl, List.mem_cons_self .., by simp⟩

end RtVerif.C03
