import RtVerif.Model.C19
/-
  C19 — helper lemmas: the Go string order is a total order, insertion sort sorts and permutes,
  `dedup`, membership in the pieces of `verify`, `addKey` folds, injectivity of operation keys.
-/
namespace RtVerif.C19
open RtVerif Bytes

/-! ### the order -/

theorem ble_refl (a : Bytes) : ble a a = true := by
  induction a with
  | nil => rfl
  | cons x xs ih => simp [ble, ih]

theorem ble_total (a b : Bytes) : ble a b = true ∨ ble b a = true := by
  induction a generalizing b with
  | nil => left; rfl
  | cons x xs ih =>
    cases b with
    | nil => right; rfl
    | cons y ys =>
      simp only [ble]
      by_cases h1 : x.toNat < y.toNat
      · left; simp [h1]
      · by_cases h2 : y.toNat < x.toNat
        · right; simp [h2]
        · simp only [h1, h2, ↓reduceIte]; exact ih ys

theorem ble_antisymm {a b : Bytes} (h1 : ble a b = true) (h2 : ble b a = true) : a = b := by
  induction a generalizing b with
  | nil =>
    cases b with
    | nil => rfl
    | cons y ys => simp [ble] at h2
  | cons x xs ih =>
    cases b with
    | nil => simp [ble] at h1
    | cons y ys =>
      simp only [ble] at h1 h2
      by_cases l1 : x.toNat < y.toNat
      · have : ¬ y.toNat < x.toNat := by omega
        simp [l1, this] at h2
      · by_cases l2 : y.toNat < x.toNat
        · simp [l1, l2] at h1
        · simp only [l1, l2, ↓reduceIte] at h1 h2
          have hxy : x = y := UInt8.toNat_inj.1 (by omega)
          rw [hxy, ih h1 h2]

theorem ble_trans {a b c : Bytes} (h1 : ble a b = true) (h2 : ble b c = true) : ble a c = true := by
  induction a generalizing b c with
  | nil => rfl
  | cons x xs ih =>
    cases b with
    | nil => simp [ble] at h1
    | cons y ys =>
      cases c with
      | nil => simp [ble] at h2
      | cons z zs =>
        simp only [ble] at h1 h2 ⊢
        by_cases a1 : x.toNat < y.toNat
        · by_cases b1 : y.toNat < z.toNat
          · have : x.toNat < z.toNat := by omega
            simp [this]
          · by_cases b2 : z.toNat < y.toNat
            · simp [b1, b2] at h2
            · have : x.toNat < z.toNat := by omega
              simp [this]
        · by_cases a2 : y.toNat < x.toNat
          · simp [a1, a2] at h1
          · simp only [a1, a2, ↓reduceIte] at h1
            by_cases b1 : y.toNat < z.toNat
            · have : x.toNat < z.toNat := by omega
              simp [this]
            · by_cases b2 : z.toNat < y.toNat
              · simp [b1, b2] at h2
              · simp only [b1, b2, ↓reduceIte] at h2
                have c1 : ¬ x.toNat < z.toNat := by omega
                have c2 : ¬ z.toNat < x.toNat := by omega
                simp only [c1, c2, ↓reduceIte]
                exact ih h1 h2

/-! ### insertion sort -/

def Sorted (l : List Bytes) : Prop := l.Pairwise (fun a b => ble a b = true)

theorem mem_insertS {x y : Bytes} {l : List Bytes} : y ∈ insertS x l ↔ y = x ∨ y ∈ l := by
  induction l with
  | nil => simp [insertS]
  | cons z zs ih =>
    simp only [insertS]
    split
    · simp
    · simp only [List.mem_cons, ih]
      constructor
      · rintro (h | h | h) <;> simp [h]
      · rintro (h | h | h) <;> simp [h]

theorem mem_isort {y : Bytes} {l : List Bytes} : y ∈ isort l ↔ y ∈ l := by
  induction l with
  | nil => simp [isort]
  | cons x xs ih => simp [isort, mem_insertS, ih]

theorem insertS_perm (x : Bytes) (l : List Bytes) : (insertS x l).Perm (x :: l) := by
  induction l with
  | nil => simp [insertS]
  | cons z zs ih =>
    simp only [insertS]
    split
    · exact List.Perm.refl _
    · exact (List.Perm.cons z ih).trans (List.Perm.swap x z zs)

theorem isort_perm (l : List Bytes) : (isort l).Perm l := by
  induction l with
  | nil => exact List.Perm.refl _
  | cons x xs ih => exact (insertS_perm x (isort xs)).trans (List.Perm.cons x ih)

theorem sorted_insertS {x : Bytes} {l : List Bytes} (h : Sorted l) : Sorted (insertS x l) := by
  induction l with
  | nil => simp [insertS, Sorted]
  | cons z zs ih =>
    simp only [insertS]
    unfold Sorted at h ih ⊢
    rw [List.pairwise_cons] at h
    split
    · rename_i hxz
      rw [List.pairwise_cons]
      refine ⟨?_, List.pairwise_cons.2 h⟩
      intro y hy
      rcases List.mem_cons.1 hy with rfl | hy
      · exact hxz
      · exact ble_trans hxz (h.1 y hy)
    · rename_i hxz
      rw [List.pairwise_cons]
      refine ⟨?_, ih h.2⟩
      intro y hy
      rcases mem_insertS.1 hy with rfl | hy
      · rcases ble_total y z with h' | h'
        · exact absurd h' hxz
        · exact h'
      · exact h.1 y hy

theorem sorted_isort (l : List Bytes) : Sorted (isort l) := by
  induction l with
  | nil => simp [isort, Sorted]
  | cons x xs ih => exact sorted_insertS ih

/-- sorted lists are determined by their multiset (the order is antisymmetric) -/
theorem isort_eq_of_perm {l l' : List Bytes} (h : l.Perm l') : isort l = isort l' :=
  List.Perm.eq_of_pairwise (fun _ _ _ _ h1 h2 => ble_antisymm h1 h2) (sorted_isort l) (sorted_isort l')
    ((isort_perm l).trans (h.trans (isort_perm l').symm))

theorem sorted_filter {l : List Bytes} (p : Bytes → Bool) (h : Sorted l) : Sorted (l.filter p) :=
  List.Pairwise.filter p h

/-! ### dedup -/

theorem mem_dedup {x : Bytes} {l : List Bytes} : x ∈ dedup l ↔ x ∈ l := by
  induction l with
  | nil => simp [dedup]
  | cons a t ih =>
    simp only [dedup]
    split
    · rename_i hat
      rw [ih]
      constructor
      · exact List.mem_cons_of_mem _
      · intro h
        rcases List.mem_cons.1 h with rfl | h
        · exact hat
        · exact h
    · simp [ih]

theorem nodup_dedup (l : List Bytes) : (dedup l).Nodup := by
  induction l with
  | nil => simp [dedup]
  | cons a t ih =>
    simp only [dedup]
    split
    · exact ih
    · rename_i hat
      rw [List.nodup_cons]
      exact ⟨fun h => hat (mem_dedup.1 h), ih⟩

theorem dedup_perm_of_mem_iff {l l' : List Bytes} (h : ∀ x, x ∈ l ↔ x ∈ l') : (dedup l).Perm (dedup l') :=
  (List.perm_ext_iff_of_nodup (nodup_dedup l) (nodup_dedup l')).2 (fun x => by simp [mem_dedup, h x])

theorem nodup_isort {l : List Bytes} (h : l.Nodup) : (isort l).Nodup := (isort_perm l).symm.nodup h

/-! ### `subset`, `setEq`, `diff` -/

theorem subset_iff {a b : List Bytes} : subset a b = true ↔ ∀ x, x ∈ a → x ∈ b := by
  simp [subset, List.all_eq_true]

theorem setEq_iff {a b : List Bytes} : setEq a b = true ↔ ∀ x, x ∈ a ↔ x ∈ b := by
  simp only [setEq, Bool.and_eq_true, subset_iff]
  constructor
  · rintro ⟨h1, h2⟩ x; exact ⟨h1 x, h2 x⟩
  · intro h; exact ⟨fun x => (h x).1, fun x => (h x).2⟩

theorem mem_diff {a b : List Bytes} {x : Bytes} : x ∈ diff a b ↔ x ∈ a ∧ x ∉ b := by
  simp [diff]

/-! ### the pieces of `verify` -/

theorem mem_unspecified {regs exps : List Bytes} {x : Bytes} :
    x ∈ (isort regs).filter (fun v => decide (v ∉ exps)) ↔ x ∈ regs ∧ x ∉ exps := by
  simp [mem_isort]

theorem mem_unregistered {regs exps : List Bytes} {x : Bytes} :
    x ∈ isort (dedup (exps.filter (fun v => decide (v ∉ regs)))) ↔ x ∈ exps ∧ x ∉ regs := by
  simp [mem_isort, mem_dedup]

theorem isEmpty_iff_no_mem {l : List Bytes} : l.isEmpty = true ↔ ∀ x, x ∉ l := by
  cases l with
  | nil => simp
  | cons a t => simp only [List.isEmpty_cons, Bool.false_eq_true, false_iff]; intro h; exact h a (by simp)

/-! ### keys after a sequence of `Register*` calls -/

theorem mem_addKey {α} [DecidableEq α] {m : List α} {k x : α} : x ∈ addKey m k ↔ x ∈ m ∨ x = k := by
  unfold addKey
  split
  · rename_i h
    constructor
    · exact Or.inl
    · rintro (h' | rfl)
      · exact h'
      · exact h
  · simp

theorem nodup_addKey {α} [DecidableEq α] {m : List α} {k : α} (h : m.Nodup) : (addKey m k).Nodup := by
  unfold addKey
  split
  · exact h
  · rename_i hk
    rw [List.nodup_append]
    refine ⟨h, by simp, ?_⟩
    intro a ha b hb
    simp only [List.mem_singleton] at hb
    subst hb
    intro hab
    subst hab
    exact hk ha

theorem mem_foldl_addKey {α β} [DecidableEq α] (f : β → α) (ks : List β) (m : List α) (x : α) :
    x ∈ ks.foldl (fun m k => addKey m (f k)) m ↔ x ∈ m ∨ ∃ k ∈ ks, x = f k := by
  induction ks generalizing m with
  | nil => simp
  | cons k t ih =>
    simp only [List.foldl_cons, ih, mem_addKey, List.mem_cons]
    constructor
    · rintro ((h | h) | ⟨k', hk', h⟩)
      · exact Or.inl h
      · exact Or.inr ⟨k, Or.inl rfl, h⟩
      · exact Or.inr ⟨k', Or.inr hk', h⟩
    · rintro (h | ⟨k', hk' | hk', h⟩)
      · exact Or.inl (Or.inl h)
      · subst hk'; exact Or.inl (Or.inr h)
      · exact Or.inr ⟨k', hk', h⟩

theorem nodup_foldl_addKey {α β} [DecidableEq α] (f : β → α) (ks : List β) (m : List α) (h : m.Nodup) :
    (ks.foldl (fun m k => addKey m (f k)) m).Nodup := by
  induction ks generalizing m with
  | nil => exact h
  | cons k t ih => exact ih _ (nodup_addKey h)

/-! ### operation keys -/

theorem toUpperB_eq_space {b : UInt8} (h : toUpperB b = 32) : b = 32 := by
  unfold toUpperB at h
  split at h
  · rename_i hb
    exfalso
    have h1 : (97 : UInt8) ≤ b := hb.1
    have h2 : b ≤ (122 : UInt8) := hb.2
    rw [UInt8.le_iff_toNat_le] at h1 h2
    have h3 := congrArg UInt8.toNat h
    rw [UInt8.toNat_sub_of_le _ _ (by rw [UInt8.le_iff_toNat_le]; simp at h1 ⊢; omega)] at h3
    simp at h1 h2 h3
    omega
  · exact h

theorem toUpper_no_space {m : Bytes} (h : (32 : UInt8) ∉ m) : (32 : UInt8) ∉ toUpper m := by
  intro hm
  simp only [toUpper, List.mem_map] at hm
  obtain ⟨b, hb, hb'⟩ := hm
  rw [toUpperB_eq_space hb'] at hb
  exact h hb

/-- `m ++ " " ++ p` determines `m` and `p` when the method holds no space -/
theorem key_inj {m m' p p' : Bytes} (h : (32 : UInt8) ∉ m) (h' : (32 : UInt8) ∉ m')
    (e : m ++ 32 :: p = m' ++ 32 :: p') : m = m' ∧ p = p' := by
  induction m generalizing m' with
  | nil =>
    cases m' with
    | nil => simpa using e
    | cons b t =>
      simp only [List.nil_append, List.cons_append, List.cons.injEq] at e
      exact absurd (by rw [← e.1]; simp) h'
  | cons a s ih =>
    cases m' with
    | nil =>
      simp only [List.nil_append, List.cons_append, List.cons.injEq] at e
      exact absurd (by rw [e.1]; simp) h
    | cons b t =>
      simp only [List.cons_append, List.cons.injEq] at e
      have hs : (32 : UInt8) ∉ s := fun x => h (List.mem_cons_of_mem _ x)
      have ht : (32 : UInt8) ∉ t := fun x => h' (List.mem_cons_of_mem _ x)
      obtain ⟨r1, r2⟩ := ih hs ht e.2
      exact ⟨by rw [e.1, r1], r2⟩

theorem toUpperB_idem (b : UInt8) : toUpperB (toUpperB b) = toUpperB b := by
  unfold toUpperB
  split
  · rename_i hb
    have h1 : (97 : UInt8) ≤ b := hb.1
    have h2 : b ≤ (122 : UInt8) := hb.2
    rw [UInt8.le_iff_toNat_le] at h1 h2
    simp at h1 h2
    have hsub : (b - 32).toNat = b.toNat - 32 :=
      UInt8.toNat_sub_of_le _ _ (by rw [UInt8.le_iff_toNat_le]; simp; omega)
    split
    · rename_i hc
      exfalso
      have h3 : (97 : UInt8) ≤ b - 32 := hc.1
      rw [UInt8.le_iff_toNat_le, hsub] at h3
      simp at h3
      omega
    · rfl
  · simp

theorem toUpper_idem (m : Bytes) : toUpper (toUpper m) = toUpper m := by
  simp [toUpper, List.map_map, Function.comp_def, toUpperB_idem]

theorem contains_false_iff {m : Bytes} {c : UInt8} : Bytes.contains m c = false ↔ c ∉ m := by
  simp only [Bytes.contains, List.any_eq_false, beq_iff_eq]
  constructor
  · intro h hc; exact h c hc rfl
  · intro h x hx e; subst e; exact h hx

/-! ### moved from Props: structural helpers -/

theorem mem_takeWhile_prefix {α} (p : α → Bool) (l1 : List α) (x : α) (l2 : List α) (hx : p x = false) :
    ∀ y ∈ (l1 ++ x :: l2).takeWhile p, y ∈ l1 := by
  induction l1 with
  | nil => simp [hx]
  | cons a t ih =>
    intro y hy
    simp only [List.cons_append, List.takeWhile] at hy
    split at hy
    · rcases List.mem_cons.1 hy with rfl | hy
      · simp
      · exact List.mem_cons_of_mem _ (ih y hy)
    · simp at hy

theorem foldl_registerConsumer (l : List Bytes) (a : Api) :
    l.foldl registerConsumer a =
      { a with consumers := (l.map toLower).foldl addKey a.consumers } := by
  induction l generalizing a with
  | nil => rfl
  | cons x t ih => simp [List.foldl_cons, ih, registerConsumer, applyNorm, Facts.registerConsumerNorm]

theorem foldl_registerProducer (l : List Bytes) (a : Api) :
    l.foldl registerProducer a =
      { a with producers := (l.map toLower).foldl addKey a.producers } := by
  induction l generalizing a with
  | nil => rfl
  | cons x t ih => simp [List.foldl_cons, ih, registerProducer, applyNorm, Facts.registerProducerNorm]

theorem foldl_registerAuth (l : List Bytes) (a : Api) :
    l.foldl registerAuth a = { a with auths := l.foldl addKey a.auths } := by
  induction l generalizing a with
  | nil => rfl
  | cons x t ih => simp [List.foldl_cons, ih, registerAuth, applyNorm, Facts.registerAuthNorm]

theorem foldl_registerOperation (l : List (Bytes × Bytes)) (a : Api) :
    l.foldl registerOperation a =
      { a with operations := (l.map fun mp => (toUpper mp.1, mp.2)).foldl addKey a.operations } := by
  induction l generalizing a with
  | nil => rfl
  | cons x t ih => simp [List.foldl_cons, ih, registerOperation, applyNorm, Facts.registerOperationNorm]

theorem foldl_addKey_perm {α} [DecidableEq α] {l l' : List α} (m : List α) (hm : m.Nodup) (h : l.Perm l') :
    (l.foldl addKey m).Perm (l'.foldl addKey m) := by
  have e1 := mem_foldl_addKey (fun x : α => x) l m
  have e2 := mem_foldl_addKey (fun x : α => x) l' m
  apply (List.perm_ext_iff_of_nodup (nodup_foldl_addKey (fun x : α => x) l m hm)
    (nodup_foldl_addKey (fun x : α => x) l' m hm)).2
  intro x
  rw [e1, e2]
  simp only [exists_eq_right', h.mem_iff]

theorem newApi_nodup (j : Bool) :
    (newApi j).consumers.Nodup ∧ (newApi j).producers.Nodup ∧ (newApi j).auths.Nodup ∧
      (newApi j).operations.Nodup := by
  cases j <;> simp [newApi]

theorem mem_tableFor {keys mts : List Bytes} {x : Bytes} : x ∈ tableFor keys mts ↔ x ∈ mts ∧ x ∈ keys := by
  simp [tableFor, mem_isort, mem_dedup]

theorem subset_withDefault (l : List Bytes) (dflt : Bytes) : ∀ x ∈ l, x ∈ withDefault l dflt := by
  intro x hx
  unfold withDefault
  split
  · exact List.mem_append_left _ hx
  · exact hx

theorem normalizeOffer_of_no_semicolon {mt : Bytes} (h : (59 : UInt8) ∉ mt) : normalizeOffer mt = mt := by
  unfold normalizeOffer beforeByte
  induction mt with
  | nil => rfl
  | cons b t ih =>
    have hb : b ≠ 59 := fun e => h (by rw [e]; simp)
    have ht : (59 : UInt8) ∉ t := fun x => h (List.mem_cons_of_mem _ x)
    have hb' : (b != 59) = true := by simp [hb]
    simp only [List.takeWhile, hb', ih ht]

theorem simple_no_semicolon {d : Desc} (hs : Simple d = true) :
    (∀ mt ∈ d.reqConsumes, (59 : UInt8) ∉ mt) ∧ (∀ mt ∈ d.reqProduces, (59 : UInt8) ∉ mt) := by
  simp only [Simple, Bool.and_eq_true, List.all_eq_true, simpleMT, Bool.not_eq_true',
    contains_false_iff] at hs
  exact ⟨fun mt h => ((hs.1 mt h).1.2), fun mt h => ((hs.2 mt h).1.2)⟩

theorem mem_withDefault {l : List Bytes} {dflt x : Bytes} (h : x ∈ withDefault l dflt) :
    x ∈ l ∨ (x = dflt ∧ dflt.isEmpty = false) := by
  unfold withDefault at h
  split at h
  · rename_i hc
    simp only [Bool.and_eq_true, Bool.not_eq_true'] at hc
    rcases List.mem_append.1 h with h | h
    · exact Or.inl h
    · simp only [List.mem_singleton] at h
      exact Or.inr ⟨h, hc.1⟩
  · exact Or.inl h

theorem checkOne_of_cat {a : Api} {d : Desc} {c : String × String × String} {cat : Cat}
    (h2 : regsOf a d c.2.1 = some cat.regs) (h3 : expsOf d c.2.2 = some cat.exps) :
    checkOne a d c = (match verify c.1 cat.regs cat.exps with
      | some e => .err e
      | none => .ok) := by
  unfold checkOne
  rw [h2, h3]
  rfl

theorem regsOf_perm {a a' : Api} (d : Desc) (src : String)
    (h1 : a.consumers.Perm a'.consumers) (h2 : a.producers.Perm a'.producers)
    (h3 : a.auths.Perm a'.auths) (h4 : a.operations.Perm a'.operations) :
    (regsOf a d src = none ∧ regsOf a' d src = none) ∨
    ∃ r r', regsOf a d src = some r ∧ regsOf a' d src = some r' ∧ r.Perm r' := by
  unfold regsOf
  by_cases c1 : (src == "d.consumers") = true
  · simp only [c1, ↓reduceIte]; exact Or.inr ⟨_, _, rfl, rfl, h1⟩
  · by_cases c2 : (src == "d.producers") = true
    · simp only [c1, c2, ↓reduceIte]; exact Or.inr ⟨_, _, rfl, rfl, h2⟩
    · by_cases c3 : (src == "d.authenticators") = true
      · simp only [c1, c2, c3, ↓reduceIte]; exact Or.inr ⟨_, _, rfl, rfl, h3⟩
      · by_cases c4 : (src == "d.operations") = true
        · simp only [c1, c2, c3, c4, ↓reduceIte]; exact Or.inr ⟨_, _, rfl, rfl, h4.map opKey⟩
        · by_cases c5 : (src == "d.spec.Spec().SecurityDefinitions") = true
          · simp only [c1, c2, c3, c4, c5, ↓reduceIte]; exact Or.inr ⟨_, _, rfl, rfl, List.Perm.refl _⟩
          · simp only [c1, c2, c3, c4, c5]; exact Or.inl ⟨rfl, rfl⟩

end RtVerif.C19
