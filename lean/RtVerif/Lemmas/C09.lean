import RtVerif.Model.C09
/-
  C09 — helper lemmas: context lookups under pushes, the accessors' hit/miss behaviour, which
  effects each accessor can produce, the simulation invariant `Agree` between the promises of
  the Spec and the contexts of the model, and (second half) its converse `Sound` with the validity
  of the shared state `StOk`, from which "derived from the request alone" follows.
-/
namespace RtVerif.C09
open RtVerif Bytes

/-! ### the regenerated keys are pairwise distinct -/

theorem ne_CT_Fmt : kCT ≠ kFmt := by decide
theorem ne_CT_Route : kCT ≠ kRoute := by decide
theorem ne_CT_Bound : kCT ≠ kBound := by decide
theorem ne_CT_Princ : kCT ≠ kPrinc := by decide
theorem ne_CT_Scopes : kCT ≠ kScopes := by decide
theorem ne_Fmt_CT : kFmt ≠ kCT := by decide
theorem ne_Fmt_Route : kFmt ≠ kRoute := by decide
theorem ne_Fmt_Bound : kFmt ≠ kBound := by decide
theorem ne_Fmt_Princ : kFmt ≠ kPrinc := by decide
theorem ne_Fmt_Scopes : kFmt ≠ kScopes := by decide
theorem ne_Route_CT : kRoute ≠ kCT := by decide
theorem ne_Route_Fmt : kRoute ≠ kFmt := by decide
theorem ne_Route_Bound : kRoute ≠ kBound := by decide
theorem ne_Route_Princ : kRoute ≠ kPrinc := by decide
theorem ne_Route_Scopes : kRoute ≠ kScopes := by decide
theorem ne_Bound_CT : kBound ≠ kCT := by decide
theorem ne_Bound_Fmt : kBound ≠ kFmt := by decide
theorem ne_Bound_Route : kBound ≠ kRoute := by decide
theorem ne_Bound_Princ : kBound ≠ kPrinc := by decide
theorem ne_Bound_Scopes : kBound ≠ kScopes := by decide
theorem ne_Princ_CT : kPrinc ≠ kCT := by decide
theorem ne_Princ_Fmt : kPrinc ≠ kFmt := by decide
theorem ne_Princ_Route : kPrinc ≠ kRoute := by decide
theorem ne_Princ_Bound : kPrinc ≠ kBound := by decide
theorem ne_Princ_Scopes : kPrinc ≠ kScopes := by decide
theorem ne_Scopes_CT : kScopes ≠ kCT := by decide
theorem ne_Scopes_Fmt : kScopes ≠ kFmt := by decide
theorem ne_Scopes_Route : kScopes ≠ kRoute := by decide
theorem ne_Scopes_Bound : kScopes ≠ kBound := by decide
theorem ne_Scopes_Princ : kScopes ≠ kPrinc := by decide

/-! ### `Value` under `WithValue` -/

theorem value_push_eq (k : Nat) (v : Val) (c : Ctx) : value ((k, v) :: c) k = v := by
  simp [value]

theorem value_push_ne {k k' : Nat} (v : Val) (c : Ctx) (h : k' ≠ k) : value ((k', v) :: c) k = value c k := by
  simp [value, h]

theorem memoRoute_push {k : Nat} (v : Val) (c : Ctx) (h : k ≠ kRoute) : memoRoute ((k, v) :: c) = memoRoute c := by
  simp [memoRoute, value_push_ne v c h]

theorem memoCT_push {k : Nat} (v : Val) (c : Ctx) (h : k ≠ kCT) : memoCT ((k, v) :: c) = memoCT c := by
  simp [memoCT, value_push_ne v c h]

theorem memoFmt_push {k : Nat} (v : Val) (c : Ctx) (h : k ≠ kFmt) : memoFmt ((k, v) :: c) = memoFmt c := by
  simp [memoFmt, value_push_ne v c h]

theorem memoBound_push {k : Nat} (v : Val) (c : Ctx) (h : k ≠ kBound) : memoBound ((k, v) :: c) = memoBound c := by
  simp [memoBound, value_push_ne v c h]

theorem memoPrinc_push {k : Nat} (v : Val) (c : Ctx) (h : k ≠ kPrinc) : memoPrinc ((k, v) :: c) = memoPrinc c := by
  simp [memoPrinc, value_push_ne v c h]

theorem memoRoute_set (i : Nat) (rc : RouteCfg) (c : Ctx) : memoRoute ((kRoute, .route i rc) :: c) = some (i, rc) := by
  simp [memoRoute, value_push_eq]

theorem memoCT_set (m s : Bytes) (c : Ctx) : memoCT ((kCT, .ct m s) :: c) = some (m, s) := by
  simp [memoCT, value_push_eq]

theorem memoFmt_set (f : Bytes) (c : Ctx) : memoFmt ((kFmt, .fmt f) :: c) = some f := by
  simp [memoFmt, value_push_eq]

theorem memoBound_set (cs : List Nat) (b : Bytes) (c : Ctx) : memoBound ((kBound, .bound cs b) :: c) = some ⟨cs, b⟩ := by
  simp [memoBound, value_push_eq]

/-! ### hits: a visible memo answers, nothing else happens -/

theorem routeInfo_hit (env : Env) (st : State) (c : Ctx) (r : Nat × RouteCfg) (h : memoRoute c = some r) :
    routeInfo env st c = ⟨st, .same, some r, []⟩ := by
  simp [routeInfo, h]

theorem contentType_hit (env : Env) (c : Ctx) (p : Bytes × Bytes) (h : memoCT c = some p) :
    contentType env c = (.same, .ok p) := by
  simp [contentType, h]

theorem responseFormat_hit (env : Env) (c : Ctx) (offers : List Bytes) (f : Bytes) (h : memoFmt c = some f) :
    responseFormat env c offers = (.same, f) := by
  simp [responseFormat, h]

theorem bindAndValidate_hit (env : Env) (st : State) (c : Ctx) (route : Option (Nat × RouteCfg)) (r : BindRes)
    (h : memoBound c = some r) : bindAndValidate env st c route = ⟨st, .same, .done r, []⟩ := by
  simp [bindAndValidate, h]

theorem memoPrinc_of_value (c : Ctx) (u : Bytes) (h : value c kPrinc = .princ u) : memoPrinc c = some (.princ u) := by
  simp [memoPrinc, h]

theorem authorize_hit (env : Env) (st : State) (c : Ctx) (i : Nat) (rc : RouteCfg) (u : Bytes)
    (halts : rc.alts.isEmpty = false) (h : value c kPrinc = .princ u) :
    authorize env st c (some (i, rc)) = ⟨st, .same, .ok (.princ u), []⟩ := by
  simp [authorize, halts, memoPrinc_of_value c u h]

/-! ### which effects an accessor can have -/

theorem raAuth_effs (env : Env) (schemes : List Bytes) (last : Option Bytes) (effs : List Eff)
    (h : effs.all isAuthEff = true) : (raAuth env schemes last effs).effs.all isAuthEff = true := by
  induction schemes generalizing last effs with
  | nil => simpa [raAuth] using h
  | cons s rest ih =>
    unfold raAuth
    have h' : (effs ++ [Eff.authn s]).all isAuthEff = true := by simp [List.all_append, h, isAuthEff]
    split
    · exact h'
    · split
      · exact h'
      · exact ih _ _ h'

theorem rasAuth_effs (env : Env) (alts : List AuthAlt) (le : Option Nat) (anon cur : Option AuthAlt) (al : Bool)
    (effs : List Eff) (h : effs.all isAuthEff = true) :
    (rasAuth env alts le anon cur al effs).effs.all isAuthEff = true := by
  induction alts generalizing le anon cur al effs with
  | nil =>
    unfold rasAuth
    split <;> exact h
  | cons ra rest ih =>
    unfold rasAuth
    have h' : (effs ++ (raAuth env ra.schemes none []).effs).all isAuthEff = true := by
      rw [List.all_append, h, raAuth_effs env ra.schemes none [] (by simp)]; rfl
    simp only
    split
    · exact ih _ _ _ _ _ h
    · split
      · exact ih _ _ _ _ _ h'
      · exact h'

theorem authStore_effs (st : State) (c : Ctx) (a : RasOut) (effs : List Eff) : (authStore st c a effs).effs = effs := by
  unfold authStore
  split <;> rfl

theorem authorizeMiss_effs (env : Env) (st : State) (c : Ctx) (rid : Nat) (rc : RouteCfg) :
    (authorizeMiss env st c rid rc).effs.all isAuthEff = true := by
  have h := rasAuth_effs env rc.alts none none ((st.routes[rid]?).bind (·.authn)) false [] (by simp)
  unfold authorizeMiss
  simp only
  split
  · exact h
  · split
    · split
      · simp [List.all_append, h, isAuthEff]
      · rw [authStore_effs]; simp [List.all_append, h, isAuthEff]
    · rw [authStore_effs]; exact h

theorem authorize_effs (env : Env) (st : State) (c : Ctx) (route : Option (Nat × RouteCfg)) :
    (authorize env st c route).effs.all isAuthEff = true := by
  unfold authorize
  split
  · rfl
  · split
    · rfl
    · split
      · rfl
      · exact authorizeMiss_effs env st c _ _

theorem routeInfo_effs (env : Env) (st : State) (c : Ctx) : (routeInfo env st c).effs.all isLookup = true := by
  unfold routeInfo
  split
  · rfl
  · split <;> rfl

theorem vParameters_effs (env : Env) (st : State) (rid : Nat) :
    (vParameters env st rid).effs.all isConsume = true ∧ (vParameters env st rid).effs.length ≤ 1 := by
  unfold vParameters
  split
  · split <;> simp [isConsume]
  · simp

theorem validateRequest_effs (env : Env) (st : State) (c : Ctx) (rid : Nat) (rc : RouteCfg) :
    (validateRequest env st c rid rc).effs.all isConsume = true ∧ (validateRequest env st c rid rc).effs.length ≤ 1 := by
  unfold validateRequest
  simp only
  split
  · simp
  · split
    · simp
    · exact vParameters_effs env _ rid

theorem bindAndValidate_effs (env : Env) (st : State) (c : Ctx) (route : Option (Nat × RouteCfg)) :
    (bindAndValidate env st c route).effs.all isConsume = true ∧ (bindAndValidate env st c route).effs.length ≤ 1 := by
  unfold bindAndValidate
  split
  · simp
  · split
    · simp
    · have h := validateRequest_effs env st c ‹Nat› ‹RouteCfg›
      split
      · rename_i heq; rw [heq] at h; exact h
      · rename_i heq; rw [heq] at h; exact h

/-- a panic of `validateRequest` never comes with an effect -/
theorem validateRequest_panic_effs (env : Env) (st : State) (c : Ctx) (rid : Nat) (rc : RouteCfg)
    (h : (validateRequest env st c rid rc).res = .panic) : (validateRequest env st c rid rc).effs = [] := by
  unfold validateRequest at h ⊢
  simp only at h ⊢
  split
  · rfl
  · split
    · rfl
    · rename_i h1 h2
      simp only [h1, h2, if_false, Bool.false_eq_true] at h
      unfold vParameters at h ⊢
      split
      · split
        · rfl
        · rename_i h3 _ _ h4
          simp [h3, h4] at h
      · rfl

/-! ### the simulation invariant: what the Spec promises to the holder of `c` is memoised in `c` -/

def AgRoute (q : Option Res1) (c : Ctx) : Prop :=
  ∀ r, q = some r → ∃ i rc, memoRoute c = some (i, rc) ∧ r = .found i rc.opId rc.params

def AgCT (q : Option Res2) (c : Ctx) : Prop :=
  ∀ r, q = some r → ∃ m s, memoCT c = some (m, s) ∧ r = .ct m s

def AgFmt (q : Option Res2) (c : Ctx) : Prop :=
  ∀ r, q = some r → ∃ f, memoFmt c = some f ∧ r = .fmt f

def AgBound (q : Option Res2) (c : Ctx) : Prop :=
  ∀ r, q = some r → ∃ b, memoBound c = some b ∧ r = .bound b.codes b.bound ∧ (memoRoute c).isSome = true

def AgAuth (q : Option Res2) (c : Ctx) : Prop :=
  ∀ r, q = some r → ∃ u i rc, value c kPrinc = .princ u ∧ r = .princ u ∧ memoRoute c = some (i, rc) ∧
    rc.alts.isEmpty = false

def AgCons (b : Bool) (c : Ctx) : Prop := b = true → (memoBound c).isSome = true

structure Agree (p : Promise) (c : Ctx) : Prop where
  route : AgRoute p.route c
  ct : AgCT p.ct c
  fmt : AgFmt p.fmt c
  bound : AgBound p.bound c
  auth : AgAuth p.auth c
  cons : AgCons p.consumed c

theorem agree_init : Agree {} [] := by
  constructor
  · intro r h; simp at h
  · intro r h; simp at h
  · intro r h; simp at h
  · intro r h; simp at h
  · intro r h; simp at h
  · intro h; simp at h

/-! #### each part is untouched by pushes under other keys -/

theorem AgRoute.push {q : Option Res1} {c : Ctx} {k : Nat} (v : Val) (h : AgRoute q c) (hk : k ≠ kRoute) :
    AgRoute q ((k, v) :: c) := by
  intro r hr; rw [memoRoute_push v c hk]; exact h r hr

theorem AgCT.push {q : Option Res2} {c : Ctx} {k : Nat} (v : Val) (h : AgCT q c) (hk : k ≠ kCT) :
    AgCT q ((k, v) :: c) := by
  intro r hr; rw [memoCT_push v c hk]; exact h r hr

theorem AgFmt.push {q : Option Res2} {c : Ctx} {k : Nat} (v : Val) (h : AgFmt q c) (hk : k ≠ kFmt) :
    AgFmt q ((k, v) :: c) := by
  intro r hr; rw [memoFmt_push v c hk]; exact h r hr

theorem AgBound.push {q : Option Res2} {c : Ctx} {k : Nat} (v : Val) (h : AgBound q c) (hk : k ≠ kBound)
    (hk' : k ≠ kRoute) : AgBound q ((k, v) :: c) := by
  intro r hr; rw [memoBound_push v c hk, memoRoute_push v c hk']; exact h r hr

theorem AgAuth.push {q : Option Res2} {c : Ctx} {k : Nat} (v : Val) (h : AgAuth q c) (hk : k ≠ kPrinc)
    (hk' : k ≠ kRoute) : AgAuth q ((k, v) :: c) := by
  intro r hr; rw [value_push_ne v c hk, memoRoute_push v c hk']; exact h r hr

theorem AgCons.push {b : Bool} {c : Ctx} {k : Nat} (v : Val) (h : AgCons b c) (hk : k ≠ kBound) :
    AgCons b ((k, v) :: c) := by
  intro hb; rw [memoBound_push v c hk]; exact h hb

theorem AgNone1 (c : Ctx) : AgRoute none c := by intro r h; simp at h
theorem AgCT_none (c : Ctx) : AgCT none c := by intro r h; simp at h
theorem AgFmt_none (c : Ctx) : AgFmt none c := by intro r h; simp at h
theorem AgBound_none (c : Ctx) : AgBound none c := by intro r h; simp at h
theorem AgAuth_none (c : Ctx) : AgAuth none c := by intro r h; simp at h

/-- a promise about authentication excludes a nil principal under the key -/
theorem AgAuth.memo_none {q : Option Res2} {c : Ctx} (h : AgAuth q c) (hm : memoPrinc c = none) : q = none := by
  cases q with
  | none => rfl
  | some r =>
    obtain ⟨u, _, _, hv, _⟩ := h r rfl
    simp [memoPrinc, hv] at hm

theorem AgRoute.memo_none {q : Option Res1} {c : Ctx} (h : AgRoute q c) (hm : memoRoute c = none) : q = none := by
  cases q with
  | none => rfl
  | some r => obtain ⟨_, _, hv, _⟩ := h r rfl; simp [hm] at hv

theorem AgCT.memo_none {q : Option Res2} {c : Ctx} (h : AgCT q c) (hm : memoCT c = none) : q = none := by
  cases q with
  | none => rfl
  | some r => obtain ⟨_, _, hv, _⟩ := h r rfl; simp [hm] at hv

theorem AgFmt.memo_none {q : Option Res2} {c : Ctx} (h : AgFmt q c) (hm : memoFmt c = none) : q = none := by
  cases q with
  | none => rfl
  | some r => obtain ⟨_, hv, _⟩ := h r rfl; simp [hm] at hv

theorem AgBound.memo_none {q : Option Res2} {c : Ctx} (h : AgBound q c) (hm : memoBound c = none) : q = none := by
  cases q with
  | none => rfl
  | some r => obtain ⟨_, hv, _⟩ := h r rfl; simp [hm] at hv

theorem AgCons.memo_none {b : Bool} {c : Ctx} (h : AgCons b c) (hm : memoBound c = none) : b = false := by
  cases b with
  | false => rfl
  | true => have := h rfl; simp [hm] at this

/-! ### shapes of the accessors' outcomes -/

theorem routeInfo_cases (env : Env) (st : State) (c : Ctx) :
    (∃ x, memoRoute c = some x ∧ routeInfo env st c = ⟨st, .same, some x, []⟩) ∨
    (memoRoute c = none ∧ ∃ rc, routeInfo env st c =
        ⟨{ st with routes := st.routes ++ [{}] }, .new ((kRoute, .route st.routes.length rc) :: c),
          some (st.routes.length, rc), [.lookup]⟩) ∨
    (memoRoute c = none ∧ routeInfo env st c = ⟨st, .nil, none, [.lookup]⟩) := by
  unfold routeInfo
  cases hm : memoRoute c with
  | some x => exact Or.inl ⟨x, rfl, rfl⟩
  | none =>
    cases hl : env.lookup with
    | some rc => exact Or.inr (Or.inl ⟨rfl, rc, rfl⟩)
    | none => exact Or.inr (Or.inr ⟨rfl, rfl⟩)

theorem contentType_cases (env : Env) (c : Ctx) :
    (∃ x, memoCT c = some x ∧ contentType env c = (.same, .ok x)) ∨
    (memoCT c = none ∧ ∃ x, contentType env c = (.new ((kCT, .ct x.1 x.2) :: c), .ok x)) ∨
    (memoCT c = none ∧ ∃ e, contentType env c = (.nil, .error e)) := by
  unfold contentType
  cases hm : memoCT c with
  | some x => exact Or.inl ⟨x, rfl, rfl⟩
  | none =>
    cases hp : env.parseCT with
    | ok x => exact Or.inr (Or.inl ⟨rfl, x, rfl⟩)
    | error e => exact Or.inr (Or.inr ⟨rfl, e, rfl⟩)

theorem responseFormat_cases (env : Env) (c : Ctx) (offers : List Bytes) :
    (∃ f, memoFmt c = some f ∧ responseFormat env c offers = (.same, f)) ∨
    (memoFmt c = none ∧ (env.neg offers).isEmpty = true ∧ responseFormat env c offers = (.same, env.neg offers)) ∨
    (memoFmt c = none ∧ (env.neg offers).isEmpty = false ∧
      responseFormat env c offers = (.new ((kFmt, .fmt (env.neg offers)) :: c), env.neg offers)) := by
  unfold responseFormat
  cases hm : memoFmt c with
  | some f => exact Or.inl ⟨f, rfl, rfl⟩
  | none =>
    cases he : (env.neg offers).isEmpty with
    | true => exact Or.inr (Or.inl ⟨rfl, rfl, by simp⟩)
    | false => exact Or.inr (Or.inr ⟨rfl, rfl, by simp⟩)

theorem authStore_cases (st : State) (c : Ctx) (a : RasOut) (effs : List Eff) :
    ((authStore st c a effs).ret = .nil ∧ (authStore st c a effs).res = .panic) ∨
    (∃ sc, (authStore st c a effs).ret = .new ((kScopes, .scopes sc) :: (kPrinc, princVal a.princ) :: c) ∧
      (authStore st c a effs).res = .ok (princVal a.princ)) := by
  unfold authStore
  split
  · exact Or.inl ⟨rfl, rfl⟩
  · exact Or.inr ⟨_, rfl, rfl⟩

/-- `Authorize` either returns no request (unsecured, failure, panic), or answers from the memo,
or stores principal and scopes on top of the context it was given -/
theorem authorize_cases (env : Env) (st : State) (c : Ctx) (route : Option (Nat × RouteCfg)) :
    ((authorize env st c route).ret = .nil ∧
      ((authorize env st c route).res = .unsecured ∨ (authorize env st c route).res = .panic ∨
        ∃ code, (authorize env st c route).res = .fail code)) ∨
    (∃ v i rc, route = some (i, rc) ∧ rc.alts.isEmpty = false ∧ memoPrinc c = some v ∧
      authorize env st c route = ⟨st, .same, .ok v, []⟩) ∨
    (∃ sc pr i rc, route = some (i, rc) ∧ rc.alts.isEmpty = false ∧ memoPrinc c = none ∧
      (authorize env st c route).ret = .new ((kScopes, .scopes sc) :: (kPrinc, princVal pr) :: c) ∧
      (authorize env st c route).res = .ok (princVal pr)) := by
  unfold authorize
  cases route with
  | none => exact Or.inl ⟨rfl, Or.inl rfl⟩
  | some x =>
    obtain ⟨i, rc⟩ := x
    simp only
    cases ha : rc.alts.isEmpty with
    | true => exact Or.inl ⟨rfl, Or.inl rfl⟩
    | false =>
      simp only [Bool.false_eq_true, if_false]
      cases hm : memoPrinc c with
      | some v => exact Or.inr (Or.inl ⟨v, i, rc, rfl, ha, rfl, rfl⟩)
      | none =>
        simp only
        unfold authorizeMiss
        simp only
        split
        · exact Or.inl ⟨rfl, Or.inr (Or.inr ⟨_, rfl⟩)⟩
        · split
          · split
            · exact Or.inl ⟨rfl, Or.inr (Or.inr ⟨_, rfl⟩)⟩
            · rcases authStore_cases (setAuthn st i _) c _ _ with ⟨h1, h2⟩ | ⟨sc, h1, h2⟩
              · exact Or.inl ⟨h1, Or.inr (Or.inl h2)⟩
              · exact Or.inr (Or.inr ⟨sc, _, i, rc, rfl, ha, trivial, h1, h2⟩)
          · rcases authStore_cases (setAuthn st i _) c _ _ with ⟨h1, h2⟩ | ⟨sc, h1, h2⟩
            · exact Or.inl ⟨h1, Or.inr (Or.inl h2)⟩
            · exact Or.inr (Or.inr ⟨sc, _, i, rc, rfl, ha, trivial, h1, h2⟩)

theorem bindAndValidate_cases (env : Env) (st : State) (c : Ctx) (route : Option (Nat × RouteCfg)) :
    (∃ r, memoBound c = some r ∧ bindAndValidate env st c route = ⟨st, .same, .done r, []⟩) ∨
    (memoBound c = none ∧ (bindAndValidate env st c route).ret = .nil ∧
      (bindAndValidate env st c route).res = .panic ∧ (bindAndValidate env st c route).effs = []) ∨
    (memoBound c = none ∧ ∃ r, (bindAndValidate env st c route).ret = .new ((kBound, .bound r.codes r.bound) :: c) ∧
      (bindAndValidate env st c route).res = .done r) := by
  unfold bindAndValidate
  cases hm : memoBound c with
  | some r => exact Or.inl ⟨r, rfl, rfl⟩
  | none =>
    cases route with
    | none => exact Or.inr (Or.inl ⟨rfl, rfl, rfl, rfl⟩)
    | some x =>
      obtain ⟨i, rc⟩ := x
      simp only
      have hp := validateRequest_panic_effs env st c i rc
      cases hv : validateRequest env st c i rc with
      | mk st' res effs =>
        rw [hv] at hp
        cases res with
        | panic => exact Or.inr (Or.inl ⟨trivial, rfl, rfl, hp rfl⟩)
        | done r => exact Or.inr (Or.inr ⟨trivial, r, rfl, rfl⟩)

/-! ### effect bookkeeping -/

theorem filter_consume_of_lookup (l : List Eff) (h : l.all isLookup = true) : l.filter isConsume = [] := by
  induction l with
  | nil => rfl
  | cons e r ih =>
    simp only [List.all_cons, Bool.and_eq_true] at h
    cases e <;> simp_all [isLookup, isConsume]

theorem filter_consume_of_auth (l : List Eff) (h : l.all isAuthEff = true) : l.filter isConsume = [] := by
  induction l with
  | nil => rfl
  | cons e r ih =>
    simp only [List.all_cons, Bool.and_eq_true] at h
    cases e <;> simp_all [isAuthEff, isConsume]

theorem no_lookup_of_auth (l : List Eff) (h : l.all isAuthEff = true) : l.all (fun e => !isLookup e) = true := by
  induction l with
  | nil => rfl
  | cons e r ih =>
    simp only [List.all_cons, Bool.and_eq_true] at h
    cases e <;> simp_all [isAuthEff, isLookup]

theorem no_lookup_of_consume (l : List Eff) (h : l.all isConsume = true) : l.all (fun e => !isLookup e) = true := by
  induction l with
  | nil => rfl
  | cons e r ih =>
    simp only [List.all_cons, Bool.and_eq_true] at h
    cases e <;> simp_all [isConsume, isLookup]

theorem no_consume_of_filter (l : List Eff) (h : l.filter isConsume = []) : l.all (fun e => !isConsume e) = true := by
  induction l with
  | nil => rfl
  | cons e r ih =>
    by_cases he : isConsume e = true
    · simp [he] at h
    · simp only [List.filter_cons, he] at h
      simp [he, ih h]

theorem any_consume_of_filter (l : List Eff) (h : l.filter isConsume = []) : l.any isConsume = false := by
  have := no_consume_of_filter l h
  induction l with
  | nil => rfl
  | cons e r ih =>
    simp only [List.all_cons, Bool.and_eq_true, Bool.not_eq_true'] at this
    by_cases he : isConsume e = true
    · simp [he] at this
    · simp only [List.filter_cons, he] at h
      simp [he, ih h this.2]

/-! ### the route part of an operation -/

theorem routeInfo_route_eq (env : Env) (st : State) (c : Ctx) :
    (routeInfo env st c).route = memoRoute ((routeInfo env st c).ret.held c) := by
  rcases routeInfo_cases env st c with ⟨x, hm, he⟩ | ⟨hm, rc, he⟩ | ⟨hm, he⟩
  · rw [he]; simp [Ret.held, hm]
  · rw [he]; simp [Ret.held, memoRoute_set]
  · rw [he]; simp [Ret.held, hm]

theorem agree_route_held (env : Env) (st : State) (c : Ctx) (p : Promise) (h : Agree p c) :
    Agree p ((routeInfo env st c).ret.held c) := by
  rcases routeInfo_cases env st c with ⟨x, hm, he⟩ | ⟨hm, rc, he⟩ | ⟨hm, he⟩
  · rw [he]; exact h
  · rw [he]
    simp only [Ret.held]
    have hb : p.bound = none := by
      cases hq : p.bound with
      | none => rfl
      | some r => obtain ⟨_, _, _, hs⟩ := h.bound r hq; simp [hm] at hs
    have ha : p.auth = none := by
      cases hq : p.auth with
      | none => rfl
      | some r => obtain ⟨_, _, _, _, _, hs, _⟩ := h.auth r hq; simp [hm] at hs
    exact ⟨by rw [h.route.memo_none hm]; exact AgNone1 _, h.ct.push _ ne_Route_CT, h.fmt.push _ ne_Route_Fmt,
      by rw [hb]; exact AgBound_none _, by rw [ha]; exact AgAuth_none _, h.cons.push _ ne_Route_Bound⟩
  · rw [he]; exact h


theorem held_route_value (env : Env) (st : State) (c : Ctx) {k : Nat} (hk : kRoute ≠ k) :
    value ((routeInfo env st c).ret.held c) k = value c k := by
  rcases routeInfo_cases env st c with ⟨x, hm, he⟩ | ⟨hm, rc, he⟩ | ⟨hm, he⟩
  · rw [he]; rfl
  · rw [he]; exact value_push_ne _ _ hk
  · rw [he]; rfl

theorem held_route_memoBound (env : Env) (st : State) (c : Ctx) :
    memoBound ((routeInfo env st c).ret.held c) = memoBound c := by
  simp [memoBound, held_route_value env st c ne_Route_Bound]

theorem held_route_memoPrincV (env : Env) (st : State) (c : Ctx) :
    value ((routeInfo env st c).ret.held c) kPrinc = value c kPrinc :=
  held_route_value env st c ne_Route_Princ

/-! ### the model keeps every promise (`keeps`) -/

theorem stepCore_consume_count (env : Env) (st : State) (c : Ctx) (op : Op) :
    ((stepCore env st c op).effs.filter isConsume).length ≤ 1 := by
  cases op with
  | routeInfo => simp [stepCore, filter_consume_of_lookup _ (routeInfo_effs env st c)]
  | contentType => simp [stepCore]
  | responseFormat o => simp [stepCore]
  | resetAuth => simp [stepCore]
  | authorize =>
    simp [stepCore, List.filter_append, filter_consume_of_lookup _ (routeInfo_effs env st c),
      filter_consume_of_auth _ (authorize_effs env _ _ _)]
  | bindAndValidate =>
    simp only [stepCore]
    split
    · simp [filter_consume_of_lookup _ (routeInfo_effs env st c)]
    · simp only [List.filter_append, filter_consume_of_lookup _ (routeInfo_effs env st c), List.nil_append]
      exact Nat.le_trans (List.length_filter_le _ _) (bindAndValidate_effs env _ _ _).2

theorem stepCore_no_consume (env : Env) (st : State) (c : Ctx) (op : Op) (h : (memoBound c).isSome = true) :
    (stepCore env st c op).effs.filter isConsume = [] := by
  cases op with
  | routeInfo => simp [stepCore, filter_consume_of_lookup _ (routeInfo_effs env st c)]
  | contentType => simp [stepCore]
  | responseFormat o => simp [stepCore]
  | resetAuth => simp [stepCore]
  | authorize =>
    simp [stepCore, List.filter_append, filter_consume_of_lookup _ (routeInfo_effs env st c),
      filter_consume_of_auth _ (authorize_effs env _ _ _)]
  | bindAndValidate =>
    simp only [stepCore]
    split
    · simp [filter_consume_of_lookup _ (routeInfo_effs env st c)]
    · obtain ⟨b, hb⟩ := Option.isSome_iff_exists.mp h
      rw [bindAndValidate_hit env _ _ _ b (by rw [held_route_memoBound]; exact hb)]
      simp [filter_consume_of_lookup _ (routeInfo_effs env st c)]

/-- the route promise: a memoised route answers, without a lookup -/
theorem stepCore_route_hit (env : Env) (st : State) (c : Ctx) (op : Op) (x : Nat × RouteCfg)
    (hm : memoRoute c = some x) (hp : hasRoutePart op = true) :
    (stepCore env st c op).res1 = res1Of (some x) ∧ (stepCore env st c op).ret1 = .same ∧
      (stepCore env st c op).effs.all (fun e => !isLookup e) = true := by
  have hr := routeInfo_hit env st c x hm
  cases op with
  | routeInfo => simp [stepCore, hr, Ret.kind]
  | contentType => simp [hasRoutePart] at hp
  | responseFormat o => simp [hasRoutePart] at hp
  | resetAuth => simp [hasRoutePart] at hp
  | authorize =>
    simp only [stepCore, hr, List.nil_append, true_and, Ret.kind]
    exact no_lookup_of_auth _ (authorize_effs env _ _ _)
  | bindAndValidate =>
    simp only [stepCore, hr, List.nil_append, true_and, Ret.kind]
    exact no_lookup_of_consume _ (bindAndValidate_effs env _ _ _).1

/-- the stage promise -/
theorem stepCore_stage_hit (env : Env) (st : State) (c : Ctx) (op : Op) (p : Promise) (h : Agree p c) (r : Res2)
    (hp : promised p op = some r) :
    (stepCore env st c op).res2 = r ∧ (stepCore env st c op).ret2 = .same ∧
      (stepCore env st c op).effs.all isLookup = true := by
  cases op with
  | routeInfo => simp [promised] at hp
  | resetAuth => simp [promised] at hp
  | contentType =>
    obtain ⟨m, s, hm, rfl⟩ := h.ct r hp
    simp [stepCore, contentType_hit env c (m, s) hm, res2OfCT, Ret.kind]
  | responseFormat o =>
    obtain ⟨f, hm, rfl⟩ := h.fmt r hp
    simp [stepCore, responseFormat_hit env c o f hm, Ret.kind]
  | authorize =>
    obtain ⟨u, i, rc, hv, rfl, hm, ha⟩ := h.auth r hp
    simp [stepCore, routeInfo_hit env st c (i, rc) hm, Ret.held, authorize_hit env st c i rc u ha hv, res2OfAuth, Ret.kind]
  | bindAndValidate =>
    obtain ⟨b, hm, rfl, hs⟩ := h.bound r hp
    obtain ⟨x, hx⟩ := Option.isSome_iff_exists.mp hs
    simp [stepCore, routeInfo_hit env st c x hx, Ret.held, bindAndValidate_hit env st c (some x) b hm, res2OfBind, Ret.kind]

theorem keeps_model (env : Env) (st : State) (c : Ctx) (op : Op) (p : Promise) (h : Agree p c) :
    keeps p op (stepCore env st c op).obs = true := by
  unfold keeps
  simp only [Bool.and_eq_true, StepOut.obs]
  refine ⟨⟨⟨?_, ?_⟩, ?_⟩, decide_eq_true (stepCore_consume_count env st c op)⟩
  · cases hq : p.route with
    | none => rfl
    | some r =>
      obtain ⟨i, rc, hm, rfl⟩ := h.route r hq
      cases hp : hasRoutePart op with
      | false => rfl
      | true =>
        have := stepCore_route_hit env st c op (i, rc) hm hp
        simp [this.1, this.2.1, this.2.2, res1Of]
  · cases hq : promised p op with
    | none => rfl
    | some r =>
      have := stepCore_stage_hit env st c op p h r hq
      simp [this.1, this.2.1, this.2.2]
  · cases hc : p.consumed with
    | false => rfl
    | true =>
      simp only [Bool.not_true, Bool.false_or]
      exact no_consume_of_filter _ (stepCore_no_consume env st c op (h.cons hc))

/-! ### the promises of the value held afterwards are memoised in it (`after`) -/

theorem agree_afterRoute (env : Env) (st : State) (c : Ctx) (p : Promise) (h : Agree p c) :
    Agree (afterRoute p (res1Of (routeInfo env st c).route)) ((routeInfo env st c).ret.held c) := by
  have h1 := agree_route_held env st c p h
  have he := routeInfo_route_eq env st c
  unfold afterRoute
  cases hr : (routeInfo env st c).route with
  | none => simpa [res1Of, memoisable1] using h1
  | some x =>
    obtain ⟨i, rc⟩ := x
    simp only [res1Of, memoisable1, if_true]
    rw [hr] at he
    exact ⟨by intro r hq; simp at hq; exact ⟨i, rc, he.symm, hq.symm⟩, h1.ct, h1.fmt, h1.bound, h1.auth, h1.cons⟩

/-- wrap-up: the `consumed` flag -/
theorem agree_consumed {q : Promise} {c : Ctx} (b : Bool) (h : Agree q c) (hb : AgCons b c) :
    Agree { q with consumed := b } c :=
  ⟨h.route, h.ct, h.fmt, h.bound, h.auth, hb⟩

theorem afterRoute_na (p : Promise) : afterRoute p .na = p := by simp [afterRoute, memoisable1]

theorem afterReset_other (p : Promise) (op : Op) (h : op ≠ .resetAuth) : afterReset p op = p := by
  simp [afterReset, h]

theorem agree_stage_contentType (env : Env) (c : Ctx) (p : Promise) (h : Agree p c) :
    Agree (afterStage p .contentType (res2OfCT (contentType env c).2)) ((contentType env c).1.held c) := by
  unfold afterStage
  rcases contentType_cases env c with ⟨x, hm, he⟩ | ⟨hm, x, he⟩ | ⟨hm, e, he⟩
  · simp only [he, res2OfCT, memoisable2, Ret.held, if_true, setStage]
    exact ⟨h.route, by intro r hr; simp at hr; exact ⟨x.1, x.2, hm, hr.symm⟩, h.fmt, h.bound, h.auth, h.cons⟩
  · simp only [he, res2OfCT, memoisable2, Ret.held, if_true, setStage]
    exact ⟨h.route.push _ ne_CT_Route, by intro r hr; simp at hr; exact ⟨x.1, x.2, memoCT_set _ _ _, hr.symm⟩,
      h.fmt.push _ ne_CT_Fmt, h.bound.push _ ne_CT_Bound ne_CT_Route, h.auth.push _ ne_CT_Princ ne_CT_Route,
      h.cons.push _ ne_CT_Bound⟩
  · simp only [he, res2OfCT, memoisable2, Ret.held, Bool.false_eq_true, if_false]
    exact h

theorem agree_stage_responseFormat (env : Env) (c : Ctx) (offers : List Bytes) (p : Promise) (h : Agree p c) :
    Agree (afterStage p (.responseFormat offers) (.fmt (responseFormat env c offers).2))
      ((responseFormat env c offers).1.held c) := by
  unfold afterStage
  rcases responseFormat_cases env c offers with ⟨f, hm, he⟩ | ⟨hm, hz, he⟩ | ⟨hm, hz, he⟩
  · simp only [he, memoisable2, Ret.held, setStage]
    split
    · exact ⟨h.route, h.ct, by intro r hr; simp at hr; exact ⟨f, hm, hr.symm⟩, h.bound, h.auth, h.cons⟩
    · exact h
  · simp only [he, memoisable2, Ret.held, hz, Bool.not_true, Bool.false_eq_true, if_false]
    exact h
  · simp only [he, memoisable2, Ret.held, hz, Bool.not_false, if_true, setStage]
    exact ⟨h.route.push _ ne_Fmt_Route, h.ct.push _ ne_Fmt_CT,
      by intro r hr; simp at hr; exact ⟨_, memoFmt_set _ _, hr.symm⟩,
      h.bound.push _ ne_Fmt_Bound ne_Fmt_Route, h.auth.push _ ne_Fmt_Princ ne_Fmt_Route, h.cons.push _ ne_Fmt_Bound⟩

theorem agree_resetAuth (c : Ctx) (p : Promise) (h : Agree p c) : Agree { p with auth := none } (resetAuth c) := by
  unfold resetAuth
  exact ⟨(h.route.push _ ne_Princ_Route).push _ ne_Scopes_Route, (h.ct.push _ ne_Princ_CT).push _ ne_Scopes_CT,
    (h.fmt.push _ ne_Princ_Fmt).push _ ne_Scopes_Fmt,
    (h.bound.push _ ne_Princ_Bound ne_Princ_Route).push _ ne_Scopes_Bound ne_Scopes_Route,
    AgAuth_none _, (h.cons.push _ ne_Princ_Bound).push _ ne_Scopes_Bound⟩

theorem value_of_memoPrinc (c : Ctx) (v : Val) (h : memoPrinc c = some v) : value c kPrinc = v ∧ v ≠ .nil := by
  unfold memoPrinc at h
  split at h
  · simp at h
  · rename_i hn; simp at h; exact ⟨h, h ▸ hn⟩

theorem agree_stage_authorize (env : Env) (st : State) (c : Ctx) (p : Promise) (route : Option (Nat × RouteCfg))
    (h : Agree p c) (hr : route = memoRoute c) :
    Agree (afterStage p .authorize (res2OfAuth (authorize env st c route).res))
      ((authorize env st c route).ret.held c) := by
  unfold afterStage
  rcases authorize_cases env st c route with ⟨h1, h2⟩ | ⟨v, i, rc, hrt, ha, hm, he⟩ | ⟨sc, pr, i, rc, hrt, ha, hm, h1, h2⟩
  · rw [h1]
    rcases h2 with h2 | h2 | ⟨code, h2⟩ <;> rw [h2] <;> simpa [res2OfAuth, memoisable2, Ret.held] using h
  · rw [he]
    obtain ⟨hv, hn⟩ := value_of_memoPrinc c v hm
    cases v with
    | princ u =>
      simp only [res2OfAuth, memoisable2, if_true, setStage, Ret.held]
      exact ⟨h.route, h.ct, h.fmt, h.bound,
        by intro r hq; simp at hq; exact ⟨u, i, rc, hv, hq.symm, by rw [← hr, hrt], ha⟩, h.cons⟩
    | nil => exact absurd rfl hn
    | ct _ _ => simpa [res2OfAuth, memoisable2, Ret.held] using h
    | fmt _ => simpa [res2OfAuth, memoisable2, Ret.held] using h
    | route _ _ => simpa [res2OfAuth, memoisable2, Ret.held] using h
    | bound _ _ => simpa [res2OfAuth, memoisable2, Ret.held] using h
    | scopes _ => simpa [res2OfAuth, memoisable2, Ret.held] using h
  · rw [h1, h2]
    have hauth : p.auth = none := h.auth.memo_none hm
    have hroute : memoRoute ((kScopes, Val.scopes sc) :: (kPrinc, princVal pr) :: c) = some (i, rc) := by
      rw [memoRoute_push _ _ ne_Scopes_Route, memoRoute_push _ _ ne_Princ_Route, ← hr, hrt]
    have base : ∀ q : Option Res2, AgAuth q ((kScopes, Val.scopes sc) :: (kPrinc, princVal pr) :: c) →
        Agree { p with auth := q } ((kScopes, Val.scopes sc) :: (kPrinc, princVal pr) :: c) := fun q hq =>
      ⟨(h.route.push _ ne_Princ_Route).push _ ne_Scopes_Route, (h.ct.push _ ne_Princ_CT).push _ ne_Scopes_CT,
        (h.fmt.push _ ne_Princ_Fmt).push _ ne_Scopes_Fmt,
        (h.bound.push _ ne_Princ_Bound ne_Princ_Route).push _ ne_Scopes_Bound ne_Scopes_Route,
        hq, (h.cons.push _ ne_Princ_Bound).push _ ne_Scopes_Bound⟩
    cases pr with
    | none =>
      simp only [princVal, res2OfAuth, memoisable2, Bool.false_eq_true, if_false, Ret.held]
      have := base none (AgAuth_none _)
      rw [← hauth] at this
      exact this
    | some u =>
      simp only [princVal, res2OfAuth, memoisable2, if_true, setStage, Ret.held]
      refine base _ ?_
      intro r hq
      simp at hq
      exact ⟨u, i, rc, by rw [value_push_ne _ _ ne_Scopes_Princ, value_push_eq]; rfl, hq.symm, hroute, ha⟩

theorem agree_stage_bind (env : Env) (st : State) (c : Ctx) (p : Promise) (rt : Nat × RouteCfg)
    (h : Agree p c) (hr : memoRoute c = some rt) :
    Agree (afterStage p .bindAndValidate (res2OfBind (bindAndValidate env st c (some rt)).res))
      ((bindAndValidate env st c (some rt)).ret.held c) := by
  unfold afterStage
  rcases bindAndValidate_cases env st c (some rt) with ⟨r, hm, he⟩ | ⟨hm, h1, h2, _⟩ | ⟨hm, r, h1, h2⟩
  · rw [he]
    simp only [res2OfBind, memoisable2, if_true, setStage, Ret.held]
    exact ⟨h.route, h.ct, h.fmt, by intro q hq; simp at hq; exact ⟨r, hm, hq.symm, by simp [hr]⟩, h.auth, h.cons⟩
  · rw [h1, h2]
    simpa [res2OfBind, memoisable2, Ret.held] using h
  · rw [h1, h2]
    simp only [res2OfBind, memoisable2, if_true, setStage, Ret.held]
    exact ⟨h.route.push _ ne_Bound_Route, h.ct.push _ ne_Bound_CT, h.fmt.push _ ne_Bound_Fmt,
      by intro q hq; simp at hq; exact ⟨r, memoBound_set _ _ _, hq.symm, by simp [memoRoute_push _ _ ne_Bound_Route, hr]⟩,
      h.auth.push _ ne_Bound_Princ ne_Bound_Route, by intro _; simp [memoBound_set]⟩

theorem afterRoute_consumed (p : Promise) (r : Res1) : (afterRoute p r).consumed = p.consumed := by
  unfold afterRoute; split <;> rfl

theorem afterStage_consumed (p : Promise) (op : Op) (r : Res2) : (afterStage p op r).consumed = p.consumed := by
  unfold afterStage setStage; split <;> (try rfl); cases op <;> rfl

theorem afterReset_consumed (p : Promise) (op : Op) : (afterReset p op).consumed = p.consumed := by
  unfold afterReset; split <;> rfl

/-- **Invariant step.** Whatever the shared state, the promises the Spec attaches to the value held
after an operation are memoised in that value's context. -/
theorem agree_after (env : Env) (st : State) (c : Ctx) (op : Op) (p : Promise) (h : Agree p c) :
    Agree (after p op (stepCore env st c op).obs) (stepCore env st c op).held := by
  unfold after
  have hnc := stepCore_no_consume env st c op
  cases op with
  | routeInfo =>
    simp only [stepCore, StepOut.obs]
    have h1 := agree_afterRoute env st c p h
    have hz : (routeInfo env st c).effs.any isConsume = false :=
      any_consume_of_filter _ (filter_consume_of_lookup _ (routeInfo_effs env st c))
    rw [hz, Bool.or_false, afterReset_other _ _ (by simp)]
    simp only [afterStage, memoisable2, Bool.false_eq_true, if_false]
    exact agree_consumed _ h1 (by rw [← afterRoute_consumed p]; exact h1.cons)
  | contentType =>
    simp only [stepCore, StepOut.obs, afterRoute_na, List.any_nil, Bool.or_false]
    rw [afterReset_other _ _ (by simp)]
    have h1 := agree_stage_contentType env c p h
    exact agree_consumed _ h1 (by rw [← afterStage_consumed p]; exact h1.cons)
  | responseFormat offers =>
    simp only [stepCore, StepOut.obs, afterRoute_na, List.any_nil, Bool.or_false]
    rw [afterReset_other _ _ (by simp)]
    have h1 := agree_stage_responseFormat env c offers p h
    exact agree_consumed _ h1 (by rw [← afterStage_consumed p]; exact h1.cons)
  | resetAuth =>
    simp only [stepCore, StepOut.obs, afterRoute_na, List.any_nil, Bool.or_false, afterStage, memoisable2,
      Bool.false_eq_true, if_false, afterReset, if_true]
    have h1 := agree_resetAuth c p h
    exact agree_consumed _ h1 h1.cons
  | authorize =>
    simp only [stepCore, StepOut.obs]
    have h1 := agree_afterRoute env st c p h
    have h2 := agree_stage_authorize env (routeInfo env st c).st _ _ (routeInfo env st c).route h1
      (routeInfo_route_eq env st c)
    have hz : ((routeInfo env st c).effs ++ (authorize env (routeInfo env st c).st ((routeInfo env st c).ret.held c)
        (routeInfo env st c).route).effs).any isConsume = false := by
      apply any_consume_of_filter
      rw [List.filter_append, filter_consume_of_lookup _ (routeInfo_effs env st c),
        filter_consume_of_auth _ (authorize_effs env _ _ _)]; rfl
    rw [hz, Bool.or_false, afterReset_other _ _ (by simp)]
    exact agree_consumed _ h2 (by rw [← afterRoute_consumed p, ← afterStage_consumed _ .authorize]; exact h2.cons)
  | bindAndValidate =>
    simp only [stepCore]
    have h1 := agree_afterRoute env st c p h
    have hre := routeInfo_route_eq env st c
    have hzr : (routeInfo env st c).effs.any isConsume = false :=
      any_consume_of_filter _ (filter_consume_of_lookup _ (routeInfo_effs env st c))
    cases hrt : (routeInfo env st c).route with
    | none =>
      simp only [StepOut.obs, hzr, Bool.or_false]
      rw [afterReset_other _ _ (by simp)]
      simp only [afterStage, memoisable2, Bool.false_eq_true, if_false]
      rw [hrt] at h1
      exact agree_consumed _ h1 (by rw [← afterRoute_consumed p]; exact h1.cons)
    | some rt =>
      simp only [StepOut.obs]
      rw [afterReset_other _ _ (by simp)]
      rw [hrt] at h1 hre
      have h2 := agree_stage_bind env (routeInfo env st c).st _ _ rt h1 hre.symm
      refine agree_consumed _ h2 ?_
      intro hb
      rcases bindAndValidate_cases env (routeInfo env st c).st ((routeInfo env st c).ret.held c) (some rt) with
        ⟨r, hm, he⟩ | ⟨hm, _, _, he⟩ | ⟨hm, r, hret, _⟩
      · rw [he]
        show (memoBound (Ret.held c (routeInfo env st c).ret)).isSome = true
        rw [hm]; rfl
      · rw [he, List.append_nil, hzr, Bool.or_false] at hb
        have := h1.cons (by rw [afterRoute_consumed]; exact hb)
        simp [hm] at this
      · rw [hret]; simp [Ret.held, memoBound_set]

/-! ### programs, threads, schedules -/

theorem getD_append_lt {α : Type} (l : List α) (a d : α) (k : Nat) (h : k < l.length) :
    (l ++ [a]).getD k d = l.getD k d := by
  simp [List.getD, List.getElem?_append_left h]

theorem getD_append_len {α : Type} (l : List α) (a d : α) : (l ++ [a]).getD l.length d = a := by
  simp [List.getD]

theorem getD_append_gt {α : Type} (l : List α) (a d : α) (k : Nat) (h : l.length < k) :
    (l ++ [a]).getD k d = d := by
  have : (l ++ [a]).length ≤ k := by simp; omega
  simp [List.getD, List.getElem?_eq_none this]

theorem getD_len_le {α : Type} (l : List α) (d : α) (k : Nat) (h : l.length ≤ k) : l.getD k d = d := by
  simp [List.getD, List.getElem?_eq_none h]

theorem agree_empty (c : Ctx) : Agree {} c :=
  ⟨AgNone1 c, AgCT_none c, AgFmt_none c, AgBound_none c, AgAuth_none c, by intro h; simp at h⟩

theorem promised_consumed (p : Promise) (b : Bool) (op : Op) : promised { p with consumed := b } op = promised p op := by
  cases op <;> rfl

theorem promised_afterRoute (p : Promise) (r1 : Res1) (op : Op) : promised (afterRoute p r1) op = promised p op := by
  unfold afterRoute; split <;> cases op <;> rfl

theorem promised_afterReset (p : Promise) (op op' : Op) (h : op' = .authorize → op ≠ .resetAuth) :
    promised (afterReset p op) op' = promised p op' := by
  unfold afterReset
  split
  · rename_i he
    cases op' <;> first | rfl | exact absurd he (h rfl)
  · rfl

/-- a promise survives an operation that kept it (only `ResetAuth` withdraws one: authentication) -/
theorem after_keeps_stage (p : Promise) (op : Op) (o : Obs) (op' : Op) (r : Res2)
    (hp : promised p op' = some r) (hk : keeps p op o = true) (hreset : op' = .authorize → op ≠ .resetAuth) :
    promised (after p op o) op' = some r := by
  unfold after
  rw [promised_consumed, promised_afterReset _ _ _ hreset]
  unfold afterStage
  split
  · by_cases hs : sameStage op op' = true
    · have hpo : promised p op = some r := by
        cases op <;> cases op' <;> simp_all [sameStage, promised]
      have hres : o.res2 = r := by
        unfold keeps at hk
        simp only [Bool.and_eq_true] at hk
        have := hk.1.1.2
        rw [hpo] at this
        simp only [Bool.and_eq_true, beq_iff_eq] at this
        exact this.1.1
      rw [hres]
      cases op <;> cases op' <;> simp_all [sameStage, promised, setStage]
    · rw [← hp, ← promised_afterRoute p o.res1 op']
      cases op <;> cases op' <;> simp_all [sameStage, promised, setStage]
  · rw [promised_afterRoute]; exact hp

theorem stepCore_res1_na (env : Env) (st : State) (c : Ctx) (op : Op) (h : hasRoutePart op = false) :
    (stepCore env st c op).res1 = .na := by
  cases op <;> simp_all [hasRoutePart, stepCore]

theorem after_route (p : Promise) (op : Op) (o : Obs) :
    (after p op o).route = if memoisable1 o.res1 then some o.res1 else p.route := by
  unfold after afterReset afterStage afterRoute setStage
  cases op <;> (repeat' split) <;> simp_all

/-- the route promise survives every operation of the model -/
theorem after_keeps_route (env : Env) (st : State) (c : Ctx) (p : Promise) (op : Op) (r : Res1)
    (hp : p.route = some r) (hk : keeps p op (stepCore env st c op).obs = true) :
    (after p op (stepCore env st c op).obs).route = some r := by
  rw [after_route]
  split
  · rename_i hm
    cases hrp : hasRoutePart op with
    | false =>
      have := stepCore_res1_na env st c op hrp
      simp [StepOut.obs, this, memoisable1] at hm
    | true =>
      unfold keeps at hk
      simp only [Bool.and_eq_true] at hk
      have := hk.1.1.1
      rw [hp] at this
      simp only [hrp, Bool.not_true, Bool.false_or, Bool.and_eq_true, beq_iff_eq] at this
      rw [this.1.1]
  · exact hp

/-- along any sequence of operations a promise stays attached to the held value -/
theorem thread_promise (env : Env) (op' : Op) (r : Res2) : ∀ (ops : List Op) (st : State) (c : Ctx) (p : Promise),
    Agree p c → promised p op' = some r → (op' = .authorize → Op.resetAuth ∉ ops) →
    ∃ p', Agree p' (endThread env ops st c).2 ∧ promised p' op' = some r := by
  intro ops
  induction ops with
  | nil => intro st c p h hp _; exact ⟨p, h, hp⟩
  | cons op ops ih =>
    intro st c p h hp hr
    simp only [endThread]
    apply ih _ _ (after p op (stepOp env st c op).2.2) (agree_after env st c op p h)
    · exact after_keeps_stage p op _ op' r hp (keeps_model env st c op p h)
        (fun e => by have := hr e; intro e2; exact this (e2 ▸ List.mem_cons_self))
    · intro e; have := hr e; exact fun hm => this (List.mem_cons_of_mem _ hm)

theorem thread_route (env : Env) (r : Res1) : ∀ (ops : List Op) (st : State) (c : Ctx) (p : Promise),
    Agree p c → p.route = some r → ∃ p', Agree p' (endThread env ops st c).2 ∧ p'.route = some r := by
  intro ops
  induction ops with
  | nil => intro st c p h hp; exact ⟨p, h, hp⟩
  | cons op ops ih =>
    intro st c p h hp
    simp only [endThread]
    exact ih _ _ (after p op (stepOp env st c op).2.2) (agree_after env st c op p h)
      (after_keeps_route env st c p op r hp (keeps_model env st c op p h))

theorem any_consume_of_filter_ne (l : List Eff) (h : l.filter isConsume ≠ []) : l.any isConsume = true := by
  cases hl : l.filter isConsume with
  | nil => exact absurd hl h
  | cons e r =>
    have he : e ∈ l.filter isConsume := by rw [hl]; exact List.mem_cons_self
    rw [List.mem_filter] at he
    exact List.any_eq_true.mpr ⟨e, he.1, he.2⟩

theorem thread_consumes (env : Env) : ∀ (ops : List Op) (st : State) (c : Ctx) (p : Promise), Agree p c →
    consumes (runThread env ops st c) ≤ (if p.consumed then 0 else 1) := by
  intro ops
  induction ops with
  | nil => intro st c p _; simp [runThread, consumes]
  | cons op ops ih =>
    intro st c p h
    simp only [runThread, consumes]
    have hk := keeps_model env st c op p h
    have ha := agree_after env st c op p h
    have hi : consumes (runThread env ops (stepOp env st c op).1 (stepOp env st c op).2.1) ≤
        if (p.consumed || (stepOp env st c op).2.2.effs.any isConsume) = true then 0 else 1 :=
      ih (stepOp env st c op).1 (stepOp env st c op).2.1 _ ha
    unfold keeps at hk
    simp only [Bool.and_eq_true, decide_eq_true_eq] at hk
    have h4 : ((stepOp env st c op).2.2.effs.filter isConsume).length ≤ 1 := hk.2
    have h3 : (!p.consumed || (stepOp env st c op).2.2.effs.all fun e => !isConsume e) = true := hk.1.2
    by_cases hf : (stepOp env st c op).2.2.effs.filter isConsume = []
    · rw [any_consume_of_filter _ hf, Bool.or_false] at hi
      rw [hf]; simpa using hi
    · rw [any_consume_of_filter_ne _ hf, Bool.or_true] at hi
      simp only [if_true, Nat.le_zero_eq] at hi
      cases hc : p.consumed with
      | true =>
        exfalso
        rw [hc] at h3
        simp only [Bool.not_true, Bool.false_or] at h3
        apply hf
        rw [List.filter_eq_nil_iff]
        intro e he
        have := List.all_eq_true.mp h3 e he
        simpa using this
      | false => simp only [Bool.false_eq_true, if_false]; omega

/-- operations other than `Authorize` never consult an authenticator or the authorizer -/
theorem no_auth_effs_unless_authorize (env : Env) (st : State) (c : Ctx) (op : Op) (h : op ≠ .authorize) :
    (stepCore env st c op).effs.all (fun e => !isAuthEff e) = true := by
  have hl : ∀ l : List Eff, l.all isLookup = true → l.all (fun e => !isAuthEff e) = true := by
    intro l hl
    rw [List.all_eq_true] at hl ⊢
    intro e he; have := hl e he; cases e <;> simp_all [isLookup, isAuthEff]
  have hc : ∀ l : List Eff, l.all isConsume = true → l.all (fun e => !isAuthEff e) = true := by
    intro l hl
    rw [List.all_eq_true] at hl ⊢
    intro e he; have := hl e he; cases e <;> simp_all [isConsume, isAuthEff]
  cases op with
  | authorize => exact absurd rfl h
  | routeInfo => exact hl _ (routeInfo_effs env st c)
  | contentType => rfl
  | responseFormat o => rfl
  | resetAuth => rfl
  | bindAndValidate =>
    simp only [stepCore]
    split
    · exact hl _ (routeInfo_effs env st c)
    · rw [List.all_append, hl _ (routeInfo_effs env st c), hc _ (bindAndValidate_effs env _ _ _).1]; rfl

theorem thread_no_auth (env : Env) (u : Bytes) : ∀ (ops : List Op) (st : State) (c : Ctx) (p : Promise),
    Agree p c → p.auth = some (.princ u) → Op.resetAuth ∉ ops →
    ∀ o ∈ runThread env ops st c, o.effs.all (fun e => !isAuthEff e) = true := by
  intro ops
  induction ops with
  | nil => intro st c p _ _ _ o ho; simp [runThread] at ho
  | cons op ops ih =>
    intro st c p h hp hr o ho
    simp only [runThread, List.mem_cons] at ho
    rcases ho with ho | ho
    · subst ho
      by_cases hop : op = .authorize
      · subst hop
        have := (stepCore_stage_hit env st c .authorize p h (.princ u) hp).2.2
        rw [List.all_eq_true] at this ⊢
        intro e he
        have := this e he
        cases e <;> simp_all [isLookup, isAuthEff]
      · exact no_auth_effs_unless_authorize env st c op hop
    · refine ih _ _ (after p op (stepOp env st c op).2.2) (agree_after env st c op p h) ?_ ?_ o ho
      · exact after_keeps_stage p op _ .authorize _ hp (keeps_model env st c op p h)
          (fun _ e => hr (e ▸ List.mem_cons_self))
      · exact fun hm => hr (List.mem_cons_of_mem _ hm)

theorem memoPrinc_nil (c : Ctx) (h : value c kPrinc = .nil) : memoPrinc c = none := by simp [memoPrinc, h]

theorem authorize_miss_eq (env : Env) (st : State) (c : Ctx) (i : Nat) (rc : RouteCfg)
    (hsec : rc.alts.isEmpty = false) (hm : memoPrinc c = none) :
    authorize env st c (some (i, rc)) = authorizeMiss env st c i rc := by
  simp [authorize, hsec, hm]

theorem iter_succ' {α : Type} (f : α → α) (n : Nat) (a : α) : iter f (n + 1) a = iter f n (f a) := rfl

theorem iter_lstep_done (env : Env) (st : State) (c : Ctx) (tr : List Obs) : ∀ n, iter (lstep env) n ⟨st, c, [], tr⟩ = ⟨st, c, [], tr⟩ := by
  intro n
  induction n with
  | zero => rfl
  | succ n ih => rw [iter_succ']; simpa [lstep] using ih

theorem iter_lstep_run (env : Env) : ∀ (todo : List Op) (st : State) (c : Ctx) (tr : List Obs) (n : Nat),
    todo.length ≤ n →
    iter (lstep env) n ⟨st, c, todo, tr⟩ =
      ⟨(endThread env todo st c).1, (endThread env todo st c).2, [], tr ++ runThread env todo st c⟩ := by
  intro todo
  induction todo with
  | nil => intro st c tr n _; simpa [endThread, runThread] using iter_lstep_done env st c tr n
  | cons op ops ih =>
    intro st c tr n hn
    cases n with
    | zero => simp at hn
    | succ n =>
      rw [iter_succ']
      simp only [lstep, endThread, runThread]
      rw [ih _ _ _ n (by simpa using hn)]
      simp [List.append_assoc]

theorem runProg_threaded (env : Env) : ∀ (ops : List Op) (st : State) (vs : List Ctx) (c : Ctx),
    runProg env (ops.map (⟨·, 0⟩)) st (vs ++ [c]) = runThread env ops st c := by
  intro ops
  induction ops with
  | nil => intro st vs c; rfl
  | cons op ops ih =>
    intro st vs c
    have hc : (vs ++ [c]).getD (srcIdx (vs ++ [c]).length 0) [] = c := by
      simp [srcIdx, List.getD]
    simp only [List.map_cons, runProg, runThread, hc]
    rw [ih]

/-! ### "derived from the request alone": authentication ignores `route.Authenticator` -/

theorem raAuth_ref (env : Env) : ∀ (schemes : List Bytes) (last : Option Bytes) (effs : List Eff),
    ((raAuth env schemes last effs).applies, (raAuth env schemes last effs).princ, (raAuth env schemes last effs).err)
      = refAlt env schemes last ∧
    (raAuth env schemes last effs).sets = (raAuth env schemes last effs).applies := by
  intro schemes
  induction schemes with
  | nil => intro last effs; simp [raAuth, refAlt]
  | cons s rest ih =>
    intro last effs
    unfold raAuth refAlt
    split
    · simp
    · split
      · simp
      · exact ih _ _

/-- what `Authorize` makes of the outcome of `RouteAuthenticators.Authenticate` -/
def rasOutcome (a : RasOut) : Res2 × List Bytes :=
  if !a.applies || a.err.isSome then (.authErr (a.err.getD 401), [])
  else match a.princ with
    | some u => (.princ u, (a.cur.map (·.scopes)).getD [])
    | none => (.anon, (a.cur.map (·.scopes)).getD [])

theorem rasAuth_ref (env : Env) : ∀ (alts : List AuthAlt) (le : Option Nat) (anon cur : Option AuthAlt) (al : Bool)
    (effs : List Eff),
    rasOutcome (rasAuth env alts le anon cur al effs) = refAlts env alts le anon ∧
    ((rasAuth env alts le anon cur al effs).applies = true → (rasAuth env alts le anon cur al effs).err = none →
      (rasAuth env alts le anon cur al effs).cur.isSome = true ∧
      ((rasAuth env alts le anon cur al effs).princ = none → (anon.isSome || allowsAnon alts) = true)) := by
  intro alts
  induction alts with
  | nil =>
    intro le anon cur al effs
    unfold rasAuth refAlts
    cases anon <;> cases le <;> simp [rasOutcome]
  | cons ra rest ih =>
    intro le anon cur al effs
    unfold rasAuth refAlts
    simp only
    by_cases hanon : ra.anon = true
    · simp only [hanon, if_true]
      obtain ⟨h1, h2⟩ := ih le (some ra) (if (al && loopVarShared) = true then some ra else cur) al effs
      refine ⟨h1, fun ha he => ⟨(h2 ha he).1, fun _ => ?_⟩⟩
      simp [allowsAnon, hanon]
    · simp only [hanon, Bool.false_eq_true, if_false]
      obtain ⟨hr, hs⟩ := raAuth_ref env ra.schemes none []
      generalize raAuth env ra.schemes none [] = o at hr hs
      rw [← hr]
      obtain ⟨oa, op, oe, oeff, os⟩ := o
      simp only at hs ⊢
      subst hs
      have step : ∀ (le' : Option Nat) (cur' : Option AuthAlt) (al' : Bool),
          rasOutcome (rasAuth env rest le' anon cur' al' (effs ++ oeff)) = refAlts env rest le' anon ∧
          ((rasAuth env rest le' anon cur' al' (effs ++ oeff)).applies = true →
            (rasAuth env rest le' anon cur' al' (effs ++ oeff)).err = none →
            (rasAuth env rest le' anon cur' al' (effs ++ oeff)).cur.isSome = true ∧
            ((rasAuth env rest le' anon cur' al' (effs ++ oeff)).princ = none →
              (anon.isSome || allowsAnon (ra :: rest)) = true)) := by
        intro le' cur' al'
        obtain ⟨h1, h2⟩ := ih le' anon cur' al' (effs ++ oeff)
        refine ⟨h1, fun ha he => ⟨(h2 ha he).1, fun hp => ?_⟩⟩
        have := (h2 ha he).2 hp
        simp only [allowsAnon, List.any_cons, Bool.or_eq_true] at this ⊢
        rcases this with h | h
        · exact Or.inl h
        · exact Or.inr (Or.inr h)
      cases os with
      | false =>
        simp only [Bool.not_false, Bool.true_or, if_true]
        exact step _ _ _
      | true =>
        cases oe with
        | some e =>
          simp only [Bool.not_true, Option.isSome_some, Bool.true_or, Bool.or_true, if_true]
          exact step _ _ _
        | none =>
          cases op with
          | none =>
            simp only [Bool.not_true, Option.isSome_none, Option.isNone_none, Bool.or_true, if_true]
            exact step _ _ _
          | some u =>
            simp [rasOutcome]

theorem value_scopes_stored (sc : List Bytes) (v : Val) (c : Ctx) :
    value ((kScopes, Val.scopes sc) :: (kPrinc, v) :: c) kScopes = .scopes sc := value_push_eq _ _ _

/-- an evaluated `Authorize` yields the reference's result and stores the reference's scopes,
whatever `route.Authenticator` was before -/
theorem authorizeMiss_ref (env : Env) (st : State) (c : Ctx) (rid : Nat) (rc : RouteCfg) :
    res2OfAuth (authorizeMiss env st c rid rc).res = (refAuthorize env rc).1 ∧
    (authenticated (res2OfAuth (authorizeMiss env st c rid rc).res) = true →
      value ((authorizeMiss env st c rid rc).ret.held c) kScopes = .scopes (refAuthorize env rc).2) := by
  obtain ⟨h1, h2⟩ := rasAuth_ref env rc.alts none none ((st.routes[rid]?).bind (·.authn)) false []
  unfold authorizeMiss refAuthorize
  simp only
  rw [← h1]
  generalize rasAuth env rc.alts none none ((st.routes[rid]?).bind (·.authn)) false [] = a at h1 h2 ⊢
  obtain ⟨aa, ap, ae, aeff, acur⟩ := a
  simp only at h2 ⊢
  cases aa with
  | false => simp [rasOutcome, isAuthErr, res2OfAuth, authenticated]
  | true =>
    cases ae with
    | some e => simp [rasOutcome, isAuthErr, res2OfAuth, authenticated]
    | none =>
      obtain ⟨hc, hp⟩ := h2 rfl rfl
      obtain ⟨alt, rfl⟩ := Option.isSome_iff_exists.mp hc
      cases ap with
      | none =>
        have ha : allowsAnon rc.alts = true := by simpa using hp rfl
        cases hz : rc.hasAuthorizer <;> cases hy : env.authz <;>
          simp [rasOutcome, isAuthErr, res2OfAuth, authenticated, ha, authStore, princVal, Ret.held, value_scopes_stored]
      | some u =>
        cases hz : rc.hasAuthorizer <;> cases hy : env.authz <;>
          simp [rasOutcome, isAuthErr, res2OfAuth, authenticated, authStore, princVal, Ret.held, value_scopes_stored]

/-! ### validity of request values and of the shared state w.r.t. the request's stage functions -/

/-- every `route.Consumer` set so far is the one the request's content type selects -/
def StOk (env : Env) (st : State) : Prop :=
  ∀ i : Nat, (st.routes[i]?).bind (fun o : RouteObj => o.consumer) = none ∨
    (st.routes[i]?).bind (fun o : RouteObj => o.consumer) = refConsumer env

/-- what is memoised in a request value is derived from the request (route, content type), or is
promised to its holder (format, principal, binding) — the converse of `Agree` -/
structure Sound (env : Env) (n : Nat) (p : Promise) (c : Ctx) : Prop where
  route : ∀ i rc, memoRoute c = some (i, rc) → env.lookup = some rc ∧ i < n
  ct : ∀ x, memoCT c = some x → env.parseCT = .ok x
  fmt : ∀ f, memoFmt c = some f → p.fmt = some (.fmt f)
  princ : value c kPrinc = .nil ∨ ∃ u, value c kPrinc = .princ u ∧ p.auth = some (.princ u)
  bound : ∀ b, memoBound c = some b → p.bound.isSome = true

theorem sound_init (env : Env) (n : Nat) : Sound env n {} [] := by
  constructor
  · intro i rc h; simp [memoRoute, value] at h
  · intro x h; simp [memoCT, value] at h
  · intro f h; simp [memoFmt, value] at h
  · exact Or.inl rfl
  · intro b h; simp [memoBound, value] at h

theorem Sound.mono {env : Env} {n m : Nat} {p : Promise} {c : Ctx} (h : Sound env n p c) (hnm : n ≤ m) :
    Sound env m p c :=
  ⟨fun i rc hm => ⟨(h.route i rc hm).1, Nat.lt_of_lt_of_le (h.route i rc hm).2 hnm⟩, h.ct, h.fmt, h.princ, h.bound⟩

theorem stOk_init (env : Env) (b : Nat) : StOk env ⟨[], b⟩ := by intro i; left; simp

/-! projections of `after` -/

theorem after_fmt (p : Promise) (op : Op) (o : Obs) :
    (after p op o).fmt = match op with
      | .responseFormat _ => if memoisable2 o.res2 then some o.res2 else p.fmt
      | _ => p.fmt := by
  unfold after afterReset afterStage afterRoute setStage
  cases op <;> (repeat' split) <;> simp_all

theorem after_auth (p : Promise) (op : Op) (o : Obs) :
    (after p op o).auth = match op with
      | .resetAuth => none
      | .authorize => if memoisable2 o.res2 then some o.res2 else p.auth
      | _ => p.auth := by
  unfold after afterReset afterStage afterRoute setStage
  cases op <;> (repeat' split) <;> simp_all

theorem after_bound (p : Promise) (op : Op) (o : Obs) :
    (after p op o).bound = match op with
      | .bindAndValidate => if memoisable2 o.res2 then some o.res2 else p.bound
      | _ => p.bound := by
  unfold after afterReset afterStage afterRoute setStage
  cases op <;> (repeat' split) <;> simp_all

/-! ### the route part -/

theorem routeInfo_cases' (env : Env) (st : State) (c : Ctx) :
    (∃ x, memoRoute c = some x ∧ routeInfo env st c = ⟨st, .same, some x, []⟩) ∨
    (memoRoute c = none ∧ ∃ rc, env.lookup = some rc ∧ routeInfo env st c =
        ⟨{ st with routes := st.routes ++ [{}] }, .new ((kRoute, .route st.routes.length rc) :: c),
          some (st.routes.length, rc), [.lookup]⟩) ∨
    (memoRoute c = none ∧ env.lookup = none ∧ routeInfo env st c = ⟨st, .nil, none, [.lookup]⟩) := by
  unfold routeInfo
  cases hm : memoRoute c with
  | some x => exact Or.inl ⟨x, rfl, rfl⟩
  | none =>
    cases hl : env.lookup with
    | some rc => exact Or.inr (Or.inl ⟨rfl, rc, rfl, rfl⟩)
    | none => exact Or.inr (Or.inr ⟨rfl, rfl, rfl⟩)

theorem stOk_append (env : Env) (st : State) (h : StOk env st) :
    StOk env { st with routes := st.routes ++ [{}] } := by
  intro i
  rcases Nat.lt_trichotomy i st.routes.length with hlt | heq | hgt
  · simpa [List.getElem?_append_left hlt] using h i
  · subst heq; left; simp
  · left
    have : (st.routes ++ [({} : RouteObj)]).length ≤ i := by simp; omega
    simp [List.getElem?_eq_none this]

/-- the state after the implicit `RouteInfo` -/
theorem routeInfo_state (env : Env) (st : State) (c : Ctx) (h : StOk env st) :
    StOk env (routeInfo env st c).st ∧ st.routes.length ≤ (routeInfo env st c).st.routes.length ∧
    (routeInfo env st c).st.bodyLeft = st.bodyLeft := by
  rcases routeInfo_cases' env st c with ⟨x, _, he⟩ | ⟨_, rc, _, he⟩ | ⟨_, _, he⟩
  · rw [he]; exact ⟨h, Nat.le_refl _, rfl⟩
  · rw [he]; exact ⟨stOk_append env st h, by simp, rfl⟩
  · rw [he]; exact ⟨h, Nat.le_refl _, rfl⟩

/-- the route an operation works with is the one the router finds for the request -/
theorem routeInfo_route (env : Env) (st : State) (c : Ctx) (p : Promise) (h : Sound env st.routes.length p c) :
    (routeInfo env st c).route.map (·.2) = env.lookup ∧
    ∀ i rc, (routeInfo env st c).route = some (i, rc) → i < (routeInfo env st c).st.routes.length := by
  rcases routeInfo_cases' env st c with ⟨x, hm, he⟩ | ⟨_, rc, hl, he⟩ | ⟨_, hl, he⟩
  · rw [he]
    obtain ⟨i, rc⟩ := x
    exact ⟨by simp [(h.route i rc hm).1], fun i' rc' e => by simp at e; exact e.1 ▸ (h.route i rc hm).2⟩
  · rw [he]; exact ⟨by simp [hl], fun i' rc' e => by simp at e; simp [← e.1]⟩
  · rw [he]; exact ⟨by simp [hl], fun i' rc' e => by simp at e⟩

theorem afterRoute_fmt (p : Promise) (r : Res1) : (afterRoute p r).fmt = p.fmt := by
  unfold afterRoute; split <;> rfl
theorem afterRoute_auth (p : Promise) (r : Res1) : (afterRoute p r).auth = p.auth := by
  unfold afterRoute; split <;> rfl
theorem afterRoute_bound (p : Promise) (r : Res1) : (afterRoute p r).bound = p.bound := by
  unfold afterRoute; split <;> rfl

/-- `Sound` only looks at the format, authentication and binding promises -/
theorem Sound.congr {env : Env} {n : Nat} {p q : Promise} {c : Ctx} (h : Sound env n p c)
    (hf : q.fmt = p.fmt) (ha : q.auth = p.auth) (hb : q.bound = p.bound) : Sound env n q c :=
  ⟨h.route, h.ct, by rw [hf]; exact h.fmt, by rw [ha]; exact h.princ, by rw [hb]; exact h.bound⟩

theorem Sound.push {env : Env} {n : Nat} {p : Promise} {c : Ctx} {k : Nat} (v : Val) (h : Sound env n p c)
    (h1 : k ≠ kRoute) (h2 : k ≠ kCT) (h3 : k ≠ kFmt) (h4 : k ≠ kPrinc) (h5 : k ≠ kBound) :
    Sound env n p ((k, v) :: c) := by
  constructor
  · intro i rc hm; rw [memoRoute_push v c h1] at hm; exact h.route i rc hm
  · intro x hm; rw [memoCT_push v c h2] at hm; exact h.ct x hm
  · intro f hm; rw [memoFmt_push v c h3] at hm; exact h.fmt f hm
  · rw [value_push_ne v c h4]; exact h.princ
  · intro b hm; rw [memoBound_push v c h5] at hm; exact h.bound b hm

theorem sound_route_held (env : Env) (st : State) (c : Ctx) (p : Promise) (h : Sound env st.routes.length p c) :
    Sound env (routeInfo env st c).st.routes.length p ((routeInfo env st c).ret.held c) := by
  rcases routeInfo_cases' env st c with ⟨x, _, he⟩ | ⟨hm, rc, hl, he⟩ | ⟨_, _, he⟩
  · rw [he]; exact h
  · rw [he]
    simp only [Ret.held, List.length_append, List.length_singleton]
    have h' := h.mono (Nat.le_succ st.routes.length)
    constructor
    · intro i rc' hm'
      rw [memoRoute_set] at hm'
      simp at hm'
      exact ⟨by rw [hl, hm'.2], by omega⟩
    · intro x hx; rw [memoCT_push _ _ ne_Route_CT] at hx; exact h.ct x hx
    · intro f hx; rw [memoFmt_push _ _ ne_Route_Fmt] at hx; exact h.fmt f hx
    · rw [value_push_ne _ _ ne_Route_Princ]; exact h.princ
    · intro b hx; rw [memoBound_push _ _ ne_Route_Bound] at hx; exact h.bound b hx
  · rw [he]; exact h

/-! ### binding -/

theorem contentType_ref (env : Env) (c : Ctx) (hct : ∀ x, memoCT c = some x → env.parseCT = .ok x) :
    (contentType env c).2 = env.parseCT ∧ memoFmt ((contentType env c).1.held c) = memoFmt c := by
  unfold contentType
  cases hm : memoCT c with
  | some x => exact ⟨(hct x hm).symm, rfl⟩
  | none =>
    cases hp : env.parseCT with
    | ok x => exact ⟨rfl, memoFmt_push _ _ ne_CT_Fmt⟩
    | error e => exact ⟨rfl, rfl⟩

theorem consumerAt_set_eq (st : State) (rid : Nat) (k : Bytes) (h : rid < st.routes.length) :
    ((setConsumer st rid k).routes[rid]?).bind (fun o : RouteObj => o.consumer) = some k := by
  simp [setConsumer, List.getElem?_modify_eq, List.getElem?_eq_getElem h]

theorem consumerAt_set_ne (st : State) (rid i : Nat) (k : Bytes) (h : rid ≠ i) :
    ((setConsumer st rid k).routes[i]?).bind (fun o : RouteObj => o.consumer) =
      (st.routes[i]?).bind (fun o : RouteObj => o.consumer) := by
  simp [setConsumer, List.getElem?_modify_ne _ _ h]

theorem stOk_setConsumer (env : Env) (st : State) (rid : Nat) (k : Bytes) (h : StOk env st)
    (hk : refConsumer env = some k) : StOk env (setConsumer st rid k) := by
  intro i
  by_cases hi : rid = i
  · subst hi
    by_cases hl : rid < st.routes.length
    · right; rw [consumerAt_set_eq st rid k hl, hk]
    · left
      have : (setConsumer st rid k).routes.length ≤ rid := by simp [setConsumer, List.length_modify]; omega
      simp [List.getElem?_eq_none this]
  · rw [consumerAt_set_ne st rid i k hi]; exact h i

theorem vContentType_ref (env : Env) (st : State) (c : Ctx) (rid : Nat) (hst : StOk env st)
    (hct : ∀ x, memoCT c = some x → env.parseCT = .ok x) (hrid : rid < st.routes.length) :
    (vContentType env st c rid).errs = refCTErrs env ∧ StOk env (vContentType env st c rid).st ∧
    (vContentType env st c rid).st.routes.length = st.routes.length ∧
    (vContentType env st c rid).st.bodyLeft = st.bodyLeft ∧
    memoFmt (vContentType env st c rid).c = memoFmt c ∧
    ((vContentType env st c rid).errs = [] → env.hasBody = true →
      ((vContentType env st c rid).st.routes[rid]?).bind (fun o : RouteObj => o.consumer) = refConsumer env) := by
  obtain ⟨hres, hfmt⟩ := contentType_ref env c hct
  unfold vContentType refCTErrs
  cases hb : env.hasBody with
  | false => simp [hst]
  | true =>
    simp only [if_true]
    generalize contentType env c = r at hres hfmt
    obtain ⟨ret, res⟩ := r
    simp only at hres hfmt
    subst hres
    cases hp : env.parseCT with
    | error e => simp [hst]
    | ok x =>
      simp only
      have hrc : refConsumer env = if x.1.isEmpty then none else env.consumerFor x.1 := by simp [refConsumer, hp]
      by_cases hx : x.1.isEmpty = true
      · simp only [hx, Bool.not_true, Bool.false_and, Bool.false_eq_true, if_false, List.append_nil]
        refine ⟨trivial, hst, trivial, trivial, hfmt, fun _ _ => ?_⟩
        rcases hst rid with h | h
        · rw [h, hrc]; simp [hx]
        · exact h
      · simp only [hx, Bool.not_false, Bool.true_and]
        simp only [hx, if_false, Bool.false_eq_true] at hrc
        rcases hst rid with h | h
        · rw [h]
          simp only [Option.isNone_none, if_true]
          cases hk : env.consumerFor x.1 with
          | none =>
            simp only [Option.isNone_none, if_true]
            refine ⟨trivial, hst, trivial, trivial, hfmt, fun he _ => ?_⟩
            simp at he
          | some k =>
            simp only [Option.isNone_some, Bool.false_eq_true, if_false, List.append_nil]
            rw [hk] at hrc
            exact ⟨trivial, stOk_setConsumer env st rid k hst hrc, by simp [setConsumer, List.length_modify], rfl, hfmt,
              fun _ _ => by rw [consumerAt_set_eq st rid k hrid, hrc]⟩
        · rw [h, hrc]
          cases hk : env.consumerFor x.1 with
          | none =>
            simp only [Option.isNone_none, if_true]
            refine ⟨trivial, hst, trivial, trivial, hfmt, fun he _ => ?_⟩
            simp at he
          | some k =>
            simp only [Option.isNone_some, Bool.false_eq_true, if_false, List.append_nil]
            exact ⟨trivial, hst, trivial, trivial, hfmt, fun _ _ => by rw [h, hrc, hk]⟩

theorem responseFormat_ref (env : Env) (c : Ctx) (p : Promise) (rc : RouteCfg) (hag : AgFmt p.fmt c)
    (hs : ∀ f, memoFmt c = some f → p.fmt = some (.fmt f)) :
    (responseFormat env c rc.produces).2 = refFmt env p rc := by
  unfold responseFormat refFmt
  cases hm : memoFmt c with
  | some f => simp [hs f hm]
  | none =>
    rw [hag.memo_none hm]
    simp only
    split <;> rfl

theorem responseFormat_congr (env : Env) (c1 c2 : Ctx) (o : List Bytes) (h : memoFmt c1 = memoFmt c2) :
    (responseFormat env c1 o).2 = (responseFormat env c2 o).2 := by
  unfold responseFormat
  rw [h]
  cases memoFmt c2 with
  | some f => rfl
  | none => simp only; split <;> rfl

/-- an evaluated binding yields the reference's outcome for the bytes of the body still unread,
whatever `route.Consumer` was before; it empties the body exactly when it calls the consumer -/
theorem validateRequest_ref (env : Env) (st : State) (c : Ctx) (rid : Nat) (rc : RouteCfg) (p : Promise)
    (hst : StOk env st) (hct : ∀ x, memoCT c = some x → env.parseCT = .ok x) (hrid : rid < st.routes.length)
    (hag : AgFmt p.fmt c) (hs : ∀ f, memoFmt c = some f → p.fmt = some (.fmt f)) :
    StOk env (validateRequest env st c rid rc).st ∧
    (validateRequest env st c rid rc).st.routes.length = st.routes.length ∧
    ((validateRequest env st c rid rc).effs.any isConsume = true → (validateRequest env st c rid rc).st.bodyLeft = 0) ∧
    ((validateRequest env st c rid rc).effs.any isConsume = false →
      (validateRequest env st c rid rc).st.bodyLeft = st.bodyLeft) ∧
    (∀ x, refBind env p st.bodyLeft rc = some x → res2OfBind (validateRequest env st c rid rc).res = x) ∧
    (refBind env p st.bodyLeft rc = none → res2OfBind (validateRequest env st c rid rc).res = .panic) := by
  obtain ⟨he, hok, hlen, hbody, hfmt, hcons⟩ := vContentType_ref env st c rid hst hct hrid
  have hrf : (responseFormat env (vContentType env st c rid).c rc.produces).2 = refFmt env p rc := by
    rw [responseFormat_congr env _ c _ hfmt]; exact responseFormat_ref env c p rc hag hs
  unfold validateRequest refBind
  simp only
  generalize vContentType env st c rid = v at he hok hlen hbody hfmt hcons hrf
  obtain ⟨vst, vc, verrs⟩ := v
  simp only at he hok hlen hbody hfmt hcons hrf ⊢
  subst he
  by_cases h1 : (refCTErrs env).isEmpty = true
  · simp only [h1, Bool.not_true, Bool.false_eq_true, if_false]
    unfold vResponseFormat
    rw [hrf]
    by_cases h2 : ((refFmt env p rc).isEmpty && !rc.produces.isEmpty) = true
    · simp only [h2, if_true]
      refine ⟨hok, hlen, by simp, fun _ => hbody, fun x hx => ?_, fun hx => by simp at hx⟩
      simp at hx; simp [res2OfBind, ← hx]
    · simp only [h2, Bool.false_eq_true, if_false]
      have h2' : ([] : List Nat).isEmpty = true := rfl
      simp only [h2', Bool.not_true, Bool.false_eq_true, if_false]
      unfold vParameters
      by_cases h3 : (env.bodyParam && env.hasBody) = true
      · simp only [h3, if_true, Bool.true_and]
        have hb : env.hasBody = true := by simp at h3; exact h3.2
        rw [hcons (List.isEmpty_iff.mp h1) hb]
        cases hk : refConsumer env with
        | none =>
          simp only [Option.isNone_none, if_true]
          exact ⟨hok, hlen, by simp, fun _ => hbody, fun x hx => by simp at hx, fun _ => rfl⟩
        | some k =>
          simp only [Option.isNone_some, Bool.false_eq_true, if_false]
          refine ⟨fun i => hok i, hlen, fun _ => trivial, by simp [isConsume], fun x hx => ?_, fun hx => by simp at hx⟩
          simp at hx; simp [res2OfBind, ← hx, hbody]
      · simp only [h3, Bool.false_eq_true, if_false, Bool.false_and]
        refine ⟨hok, hlen, by simp, fun _ => hbody, fun x hx => ?_, fun hx => by simp at hx⟩
        simp at hx; simp [res2OfBind, ← hx, hbody]
  · simp only [h1, Bool.not_false, if_true]
    refine ⟨hok, hlen, by simp, fun _ => hbody, fun x hx => ?_, fun hx => by simp at hx⟩
    simp at hx; simp [res2OfBind, ← hx]

theorem bindAndValidate_miss (env : Env) (st : State) (c : Ctx) (rid : Nat) (rc : RouteCfg) (hm : memoBound c = none) :
    (bindAndValidate env st c (some (rid, rc))).st = (validateRequest env st c rid rc).st ∧
    (bindAndValidate env st c (some (rid, rc))).res = (validateRequest env st c rid rc).res ∧
    (bindAndValidate env st c (some (rid, rc))).effs = (validateRequest env st c rid rc).effs := by
  unfold bindAndValidate
  simp only [hm]
  cases hv : validateRequest env st c rid rc with
  | mk st' res effs => cases res <;> exact ⟨rfl, rfl, rfl⟩

/-! ### one operation: the state stays valid, the results are the reference's -/

theorem routeAlone_model (env : Env) (st : State) (c : Ctx) (p : Promise) (hs : Sound env st.routes.length p c) :
    routeAlone env (res1Of (routeInfo env st c).route) = true := by
  have h := (routeInfo_route env st c p hs).1
  unfold routeAlone
  cases hr : (routeInfo env st c).route with
  | none => rw [hr] at h; simp at h; simp [← h, res1Of]
  | some x => obtain ⟨i, rc⟩ := x; rw [hr] at h; simp at h; simp [← h, res1Of]

theorem princ_nil_of_no_promise {env : Env} {n : Nat} {p : Promise} {c : Ctx} (hs : Sound env n p c)
    (hp : p.auth = none) : value c kPrinc = .nil := by
  rcases hs.princ with h | ⟨u, _, h⟩
  · exact h
  · rw [hp] at h; cases h

theorem leftAfter_obs (env : Env) (st : State) (c : Ctx) (op : Op) (left : Nat) :
    leftAfter left (stepCore env st c op).obs = bif (stepCore env st c op).effs.any isConsume then 0 else left := rfl

theorem any_consume_lookup_append (l1 l2 : List Eff) (h : l1.all isLookup = true) :
    (l1 ++ l2).any isConsume = l2.any isConsume := by
  rw [List.any_append, any_consume_of_filter _ (filter_consume_of_lookup _ h), Bool.false_or]

theorem stOk_setAuthn (env : Env) (st : State) (rid : Nat) (a : Option AuthAlt) (h : StOk env st) :
    StOk env (setAuthn st rid a) := by
  intro i
  have : ((setAuthn st rid a).routes[i]?).bind (fun o : RouteObj => o.consumer) =
      (st.routes[i]?).bind (fun o : RouteObj => o.consumer) := by
    simp only [setAuthn, List.getElem?_modify]
    cases st.routes[i]? with
    | none => rfl
    | some o => by_cases hi : rid = i <;> simp [hi]
  rw [this]; exact h i

theorem authStore_st (st : State) (c : Ctx) (a : RasOut) (effs : List Eff) : (authStore st c a effs).st = st := by
  unfold authStore; split <;> rfl

theorem authorize_state (env : Env) (st : State) (c : Ctx) (route : Option (Nat × RouteCfg)) (h : StOk env st) :
    StOk env (authorize env st c route).st ∧ (authorize env st c route).st.routes.length = st.routes.length ∧
    (authorize env st c route).st.bodyLeft = st.bodyLeft := by
  unfold authorize
  split
  · exact ⟨h, rfl, rfl⟩
  · split
    · exact ⟨h, rfl, rfl⟩
    · split
      · exact ⟨h, rfl, rfl⟩
      · unfold authorizeMiss
        simp only
        have hs := stOk_setAuthn env st ‹Nat› (rasAuth env (‹RouteCfg›).alts none none ((st.routes[‹Nat›]?).bind (·.authn)) false []).cur h
        have hl : ∀ a, (setAuthn st ‹Nat› a).routes.length = st.routes.length := by
          intro a; simp [setAuthn, List.length_modify]
        split
        · exact ⟨hs, hl _, rfl⟩
        · split
          · split
            · exact ⟨hs, hl _, rfl⟩
            · rw [authStore_st]; exact ⟨hs, hl _, rfl⟩
          · rw [authStore_st]; exact ⟨hs, hl _, rfl⟩

/-- **state invariant step**: the shared state stays valid, the route objects only get more, and the
model's unread body is what the Spec computes from the trace -/
theorem stepCore_state (env : Env) (st : State) (c : Ctx) (op : Op) (p : Promise) (hst : StOk env st)
    (hag : Agree p c) (hs : Sound env st.routes.length p c) :
    StOk env (stepCore env st c op).st ∧ st.routes.length ≤ (stepCore env st c op).st.routes.length ∧
    (stepCore env st c op).st.bodyLeft = leftAfter st.bodyLeft (stepCore env st c op).obs := by
  rw [leftAfter_obs]
  obtain ⟨r1, r2, r3⟩ := routeInfo_state env st c hst
  have hlk := routeInfo_effs env st c
  have hnc : (routeInfo env st c).effs.any isConsume = false :=
    any_consume_of_filter _ (filter_consume_of_lookup _ hlk)
  cases op with
  | routeInfo => simp only [stepCore, hnc, cond_false]; exact ⟨r1, r2, r3⟩
  | contentType => simp [stepCore, hst]
  | responseFormat o => simp [stepCore, hst]
  | resetAuth => simp [stepCore, hst]
  | authorize =>
    simp only [stepCore]
    obtain ⟨a1, a2, a3⟩ := authorize_state env (routeInfo env st c).st ((routeInfo env st c).ret.held c)
      (routeInfo env st c).route r1
    rw [any_consume_lookup_append _ _ hlk,
      any_consume_of_filter _ (filter_consume_of_auth _ (authorize_effs env _ _ _))]
    exact ⟨a1, by omega, by rw [a3, r3]; rfl⟩
  | bindAndValidate =>
    simp only [stepCore]
    cases hrt : (routeInfo env st c).route with
    | none => simp only [hnc, cond_false]; exact ⟨r1, r2, r3⟩
    | some rt =>
      obtain ⟨rid, rc⟩ := rt
      simp only
      rw [any_consume_lookup_append _ _ hlk]
      have hs1 := sound_route_held env st c p hs
      have hag1 := agree_afterRoute env st c p hag
      rcases bindAndValidate_cases env (routeInfo env st c).st ((routeInfo env st c).ret.held c) (some (rid, rc)) with
        ⟨b, hm, he⟩ | ⟨hm, _⟩ | ⟨hm, _⟩
      · rw [he]; simp only [List.any_nil, cond_false]; exact ⟨r1, r2, r3⟩
      all_goals
        obtain ⟨e1, _, e3⟩ := bindAndValidate_miss env (routeInfo env st c).st ((routeInfo env st c).ret.held c) rid rc hm
        rw [e1, e3]
        have hrid := (routeInfo_route env st c p hs).2 rid rc hrt
        obtain ⟨v1, v2, v3, v4, _⟩ := validateRequest_ref env (routeInfo env st c).st ((routeInfo env st c).ret.held c) rid rc
          (afterRoute p (res1Of (routeInfo env st c).route)) r1 hs1.ct hrid hag1.fmt
          (by rw [afterRoute_fmt]; exact hs1.fmt)
        refine ⟨v1, by omega, ?_⟩
        cases hany : (validateRequest env (routeInfo env st c).st ((routeInfo env st c).ret.held c) rid rc).effs.any isConsume with
        | true => simp [v3 hany]
        | false => simp [v4 hany, r3]

theorem scopes_view (st : State) (c : Ctx) (sc : List Bytes) (h : value c kScopes = .scopes sc) :
    (viewOf st c).scopes = sc := by simp [viewOf, h]

/-- **the model's results are the reference's**: whatever of an operation's results is not covered
by a promise of the value it is applied to is what the stage yields on the request as received -/
theorem derived_model (env : Env) (st : State) (c : Ctx) (op : Op) (p : Promise) (hst : StOk env st)
    (hag : Agree p c) (hs : Sound env st.routes.length p c) :
    derivedAlone env p st.bodyLeft op (stepCore env st c op).obs = true := by
  unfold derivedAlone
  rw [Bool.and_eq_true]
  have hra := routeAlone_model env st c p hs
  obtain ⟨r1, r2, r3⟩ := routeInfo_state env st c hst
  have hs1 := sound_route_held env st c p hs
  have hag1 := agree_afterRoute env st c p hag
  obtain ⟨hlk, hrid⟩ := routeInfo_route env st c p hs
  constructor
  · cases op <;> simp [stepCore, StepOut.obs, hasRoutePart, hra]
    split <;> simp [hra]
  · cases hpr : promised p op with
    | some r => rfl
    | none =>
      simp only [Option.isSome_none, Bool.false_or, Bool.and_eq_true]
      cases op with
      | routeInfo => simp [fresh, stepCore, StepOut.obs, scopesAlone]
      | resetAuth => simp [fresh, stepCore, StepOut.obs, scopesAlone]
      | contentType => simp [fresh, stepCore, StepOut.obs, scopesAlone, (contentType_ref env c hs.ct).1]
      | responseFormat o =>
        have hm : memoFmt c = none := by
          cases hm : memoFmt c with
          | none => rfl
          | some f => have := hs.fmt f hm; simp [promised] at hpr; rw [hpr] at this; cases this
        rcases responseFormat_cases env c o with ⟨f, hf, _⟩ | ⟨_, _, he⟩ | ⟨_, _, he⟩
        · rw [hm] at hf; cases hf
        · simp [fresh, stepCore, StepOut.obs, scopesAlone, he]
        · simp [fresh, stepCore, StepOut.obs, scopesAlone, he]
      | authorize =>
        have hpa : p.auth = none := by simpa [promised] using hpr
        have hnil : value ((routeInfo env st c).ret.held c) kPrinc = .nil := by
          rw [held_route_memoPrincV]; exact princ_nil_of_no_promise hs hpa
        have hmp := memoPrinc_nil _ hnil
        simp only [fresh, stepCore, StepOut.obs, scopesAlone]
        cases hrt : (routeInfo env st c).route with
        | none =>
          rw [hrt] at hlk; simp at hlk
          simp [← hlk, authorize, res2OfAuth]
        | some rt =>
          obtain ⟨rid, rc⟩ := rt
          rw [hrt] at hlk; simp at hlk
          rw [← hlk]
          cases hal : rc.alts.isEmpty with
          | true => simp [authorize, hal, res2OfAuth, authenticated]
          | false =>
            rw [authorize_miss_eq env _ _ rid rc hal hmp]
            obtain ⟨a1, a2⟩ := authorizeMiss_ref env (routeInfo env st c).st ((routeInfo env st c).ret.held c) rid rc
            have hne : rc.alts ≠ [] := by intro h; simp [h] at hal
            refine ⟨by simp [a1, hne], ?_⟩
            cases hau : authenticated (res2OfAuth (authorizeMiss env (routeInfo env st c).st
                ((routeInfo env st c).ret.held c) rid rc).res) with
            | false => rfl
            | true => simp [scopes_view _ _ _ (a2 hau)]
      | bindAndValidate =>
        have hpb : p.bound = none := by simpa [promised] using hpr
        have hmb : memoBound ((routeInfo env st c).ret.held c) = none := by
          rw [held_route_memoBound]
          cases hm : memoBound c with
          | none => rfl
          | some b => have := hs.bound b hm; rw [hpb] at this; cases this
        simp only [fresh, stepCore, scopesAlone]
        cases hrt : (routeInfo env st c).route with
        | none =>
          rw [hrt] at hlk; simp at hlk
          simp [← hlk, StepOut.obs]
        | some rt =>
          obtain ⟨rid, rc⟩ := rt
          rw [hrt] at hlk; simp at hlk
          rw [← hlk]
          simp only [StepOut.obs, and_true]
          obtain ⟨_, e2, _⟩ := bindAndValidate_miss env (routeInfo env st c).st ((routeInfo env st c).ret.held c) rid rc hmb
          obtain ⟨_, _, _, _, v5, _⟩ := validateRequest_ref env (routeInfo env st c).st ((routeInfo env st c).ret.held c) rid rc
            p r1 hs1.ct (hrid rid rc hrt) (by have := hag1.fmt; rwa [afterRoute_fmt] at this) hs1.fmt
          rw [r3] at v5
          cases hf : refBind env p st.bodyLeft rc with
          | none => rfl
          | some x => simp [e2, v5 x hf]

/-- two pushes under the principal and scopes keys -/
theorem Sound.push_auth {env : Env} {n : Nat} {p q : Promise} {c : Ctx} (v w : Val) (h : Sound env n p c)
    (hf : q.fmt = p.fmt) (hb : q.bound = p.bound)
    (hp : v = .nil ∨ ∃ u, v = .princ u ∧ q.auth = some (.princ u)) :
    Sound env n q ((kScopes, w) :: (kPrinc, v) :: c) := by
  constructor
  · intro i rc hm
    rw [memoRoute_push _ _ ne_Scopes_Route, memoRoute_push _ _ ne_Princ_Route] at hm; exact h.route i rc hm
  · intro x hm; rw [memoCT_push _ _ ne_Scopes_CT, memoCT_push _ _ ne_Princ_CT] at hm; exact h.ct x hm
  · intro f hm; rw [memoFmt_push _ _ ne_Scopes_Fmt, memoFmt_push _ _ ne_Princ_Fmt] at hm; rw [hf]; exact h.fmt f hm
  · rw [value_push_ne _ _ ne_Scopes_Princ, value_push_eq]; exact hp
  · intro b hm; rw [memoBound_push _ _ ne_Scopes_Bound, memoBound_push _ _ ne_Princ_Bound] at hm
    rw [hb]; exact h.bound b hm

/-- **invariant step for `Sound`** -/
theorem sound_after (env : Env) (st : State) (c : Ctx) (op : Op) (p : Promise) (hst : StOk env st)
    (hag : Agree p c) (hs : Sound env st.routes.length p c) :
    Sound env (stepCore env st c op).st.routes.length (after p op (stepCore env st c op).obs)
      (stepCore env st c op).held := by
  obtain ⟨r1, r2, r3⟩ := routeInfo_state env st c hst
  have hs1 := sound_route_held env st c p hs
  cases op with
  | routeInfo =>
    simp only [stepCore]
    exact hs1.congr (by rw [after_fmt]) (by rw [after_auth]) (by rw [after_bound])
  | contentType =>
    simp only [stepCore]
    have hres := (contentType_ref env c hs.ct).1
    refine Sound.congr (p := p) ?_ (by rw [after_fmt]) (by rw [after_auth]) (by rw [after_bound])
    rcases contentType_cases env c with ⟨x, _, he⟩ | ⟨_, x, he⟩ | ⟨_, e, he⟩
    · rw [he]; exact hs
    · rw [he] at hres ⊢
      simp only [Ret.held]
      constructor
      · intro i rc hm; rw [memoRoute_push _ _ ne_CT_Route] at hm; exact hs.route i rc hm
      · intro y hm; rw [memoCT_set] at hm; simp at hm; rw [← hm]; exact hres.symm
      · intro f hm; rw [memoFmt_push _ _ ne_CT_Fmt] at hm; exact hs.fmt f hm
      · rw [value_push_ne _ _ ne_CT_Princ]; exact hs.princ
      · intro b hm; rw [memoBound_push _ _ ne_CT_Bound] at hm; exact hs.bound b hm
    · rw [he]; exact hs
  | responseFormat o =>
    simp only [stepCore, StepOut.obs]
    rcases responseFormat_cases env c o with ⟨f, hf, he⟩ | ⟨hm, hz, he⟩ | ⟨hm, hz, he⟩
    · rw [he]
      simp only [Ret.held]
      refine ⟨hs.route, hs.ct, ?_, by rw [after_auth]; exact hs.princ, by rw [after_bound]; exact hs.bound⟩
      intro f' hf'
      rw [hf] at hf'; simp at hf'; subst hf'
      rw [after_fmt]
      simp only [memoisable2]
      by_cases hz : (!f.isEmpty) = true
      · simp [hz]
      · simp only [hz, Bool.false_eq_true, if_false]; exact hs.fmt f hf
    · rw [he]
      simp only [Ret.held]
      refine hs.congr ?_ (by rw [after_auth]) (by rw [after_bound])
      rw [after_fmt]; simp [memoisable2, hz]
    · rw [he]
      simp only [Ret.held]
      constructor
      · intro i rc hx; rw [memoRoute_push _ _ ne_Fmt_Route] at hx; exact hs.route i rc hx
      · intro y hx; rw [memoCT_push _ _ ne_Fmt_CT] at hx; exact hs.ct y hx
      · intro f hx; rw [memoFmt_set] at hx; simp at hx
        subst hx
        rw [after_fmt]; simp [memoisable2, hz]
      · rw [value_push_ne _ _ ne_Fmt_Princ, after_auth]; exact hs.princ
      · intro b hx; rw [memoBound_push _ _ ne_Fmt_Bound] at hx; rw [after_bound]; exact hs.bound b hx
  | resetAuth =>
    simp only [stepCore, resetAuth]
    exact hs.push_auth _ _ (by rw [after_fmt]) (by rw [after_bound]) (Or.inl rfl)
  | authorize =>
    simp only [stepCore, StepOut.obs]
    obtain ⟨_, a2, _⟩ := authorize_state env (routeInfo env st c).st ((routeInfo env st c).ret.held c)
      (routeInfo env st c).route r1
    rw [a2]
    rcases authorize_cases env (routeInfo env st c).st ((routeInfo env st c).ret.held c) (routeInfo env st c).route with
      ⟨h1, h2⟩ | ⟨v, i, rc, _, _, hm, he⟩ | ⟨sc, pr, i, rc, _, _, _, h1, h2⟩
    · rw [h1]
      rcases h2 with h2 | h2 | ⟨code, h2⟩ <;> rw [h2] <;> simp only [Ret.held] <;>
        refine hs1.congr (by rw [after_fmt]) ?_ (by rw [after_bound]) <;>
        rw [after_auth] <;> simp [res2OfAuth, memoisable2]
    · rw [he]
      simp only [Ret.held]
      obtain ⟨hv, hn⟩ := value_of_memoPrinc _ v hm
      refine ⟨hs1.route, hs1.ct, by rw [after_fmt]; exact hs1.fmt, ?_, by rw [after_bound]; exact hs1.bound⟩
      rcases hs1.princ with hnil | ⟨u, hu, _⟩
      · rw [hnil] at hv; exact absurd hv.symm hn
      · right
        refine ⟨u, hu, ?_⟩
        rw [hu] at hv; subst hv
        rw [after_auth]; simp [res2OfAuth, memoisable2]
    · rw [h1, h2]
      simp only [Ret.held]
      refine hs1.push_auth _ _ (by rw [after_fmt]) (by rw [after_bound]) ?_
      cases pr with
      | none => exact Or.inl rfl
      | some u => right; exact ⟨u, rfl, by rw [after_auth]; simp [princVal, res2OfAuth, memoisable2]⟩
  | bindAndValidate =>
    simp only [stepCore]
    cases hrt : (routeInfo env st c).route with
    | none =>
      simp only
      exact hs1.congr (by rw [after_fmt]) (by rw [after_auth]) (by rw [after_bound]; simp [StepOut.obs, memoisable2])
    | some rt =>
      obtain ⟨rid, rc⟩ := rt
      simp only [StepOut.obs]
      have hag1 := agree_afterRoute env st c p hag
      have hrid := (routeInfo_route env st c p hs).2 rid rc hrt
      rcases bindAndValidate_cases env (routeInfo env st c).st ((routeInfo env st c).ret.held c) (some (rid, rc)) with
        ⟨b, hm, he⟩ | ⟨hm, h1, h2, _⟩ | ⟨hm, r, h1, h2⟩
      · rw [he]
        simp only [Ret.held]
        refine ⟨hs1.route, hs1.ct, by rw [after_fmt]; exact hs1.fmt, by rw [after_auth]; exact hs1.princ, ?_⟩
        intro _ _; rw [after_bound]; simp [res2OfBind, memoisable2]
      all_goals
        obtain ⟨e1, _, _⟩ := bindAndValidate_miss env (routeInfo env st c).st ((routeInfo env st c).ret.held c) rid rc hm
        obtain ⟨_, v2, _⟩ := validateRequest_ref env (routeInfo env st c).st ((routeInfo env st c).ret.held c) rid rc
          (afterRoute p (res1Of (routeInfo env st c).route)) r1 hs1.ct hrid hag1.fmt
          (by rw [afterRoute_fmt]; exact hs1.fmt)
        rw [e1, v2, h1, h2]
        simp only [Ret.held]
      · exact hs1.congr (by rw [after_fmt]) (by rw [after_auth]) (by rw [after_bound]; simp [res2OfBind, memoisable2])
      · constructor
        · intro i rc' hx; rw [memoRoute_push _ _ ne_Bound_Route] at hx; exact hs1.route i rc' hx
        · intro y hx; rw [memoCT_push _ _ ne_Bound_CT] at hx; exact hs1.ct y hx
        · intro f hx; rw [memoFmt_push _ _ ne_Bound_Fmt] at hx; rw [after_fmt]; exact hs1.fmt f hx
        · rw [value_push_ne _ _ ne_Bound_Princ, after_auth]; exact hs1.princ
        · intro _ _; rw [after_bound]; simp [res2OfBind, memoisable2]

/-! ### programs: the invariant over all request values produced so far -/

structure Inv (env : Env) (st : State) (left : Nat) (vals : List Ctx) (ps : List Promise) : Prop where
  len : vals.length = ps.length
  body : st.bodyLeft = left
  stok : StOk env st
  agree : ∀ k, Agree (ps.getD k {}) (vals.getD k [])
  sound : ∀ k, Sound env st.routes.length (ps.getD k {}) (vals.getD k [])

theorem inv_init (env : Env) (b : Nat) : Inv env ⟨[], b⟩ b [[]] [{}] := by
  refine ⟨rfl, rfl, stOk_init env b, ?_, ?_⟩
  · intro k; cases k with
    | zero => exact agree_init
    | succ k => simpa [List.getD] using agree_init
  · intro k; cases k with
    | zero => exact sound_init env _
    | succ k => simpa [List.getD] using sound_init env _

theorem inv_step (env : Env) (st : State) (left : Nat) (vals : List Ctx) (ps : List Promise) (i : Instr)
    (h : Inv env st left vals ps) :
    Inv env (stepOp env st (vals.getD (srcIdx vals.length i.back) []) i.op).1
      (leftAfter left (stepOp env st (vals.getD (srcIdx vals.length i.back) []) i.op).2.2)
      (vals ++ [(stepOp env st (vals.getD (srcIdx vals.length i.back) []) i.op).2.1])
      (ps ++ [after (ps.getD (srcIdx ps.length i.back) {}) i.op
        (stepOp env st (vals.getD (srcIdx vals.length i.back) []) i.op).2.2]) := by
  have hlen := h.len
  rw [← hlen]
  have hag := h.agree (srcIdx vals.length i.back)
  have hs := h.sound (srcIdx vals.length i.back)
  obtain ⟨s1, s2, s3⟩ := stepCore_state env st _ i.op _ h.stok hag hs
  refine ⟨by simp [hlen], by rw [← h.body]; exact s3, s1, ?_, ?_⟩
  · intro k
    rcases Nat.lt_trichotomy k vals.length with hlt | heq | hgt
    · rw [getD_append_lt _ _ _ _ (hlen ▸ hlt), getD_append_lt _ _ _ _ hlt]; exact h.agree k
    · subst heq
      rw [getD_append_len]
      rw [show (ps ++ [after (ps.getD (srcIdx vals.length i.back) {}) i.op (stepOp env st (vals.getD (srcIdx vals.length i.back) []) i.op).2.2]).getD vals.length {} =
          after (ps.getD (srcIdx vals.length i.back) {}) i.op (stepOp env st (vals.getD (srcIdx vals.length i.back) []) i.op).2.2 from by
        rw [hlen]; exact getD_append_len _ _ _]
      exact agree_after env st _ i.op _ hag
    · rw [getD_append_gt _ _ _ _ (hlen ▸ hgt), getD_append_gt _ _ _ _ hgt]; exact agree_init
  · intro k
    rcases Nat.lt_trichotomy k vals.length with hlt | heq | hgt
    · rw [getD_append_lt _ _ _ _ (hlen ▸ hlt), getD_append_lt _ _ _ _ hlt]; exact (h.sound k).mono s2
    · subst heq
      rw [getD_append_len]
      rw [show (ps ++ [after (ps.getD (srcIdx vals.length i.back) {}) i.op (stepOp env st (vals.getD (srcIdx vals.length i.back) []) i.op).2.2]).getD vals.length {} =
          after (ps.getD (srcIdx vals.length i.back) {}) i.op (stepOp env st (vals.getD (srcIdx vals.length i.back) []) i.op).2.2 from by
        rw [hlen]; exact getD_append_len _ _ _]
      exact sound_after env st _ i.op _ h.stok hag hs
    · rw [getD_append_gt _ _ _ _ (hlen ▸ hgt), getD_append_gt _ _ _ _ hgt]; exact sound_init env _

theorem specGo_runProg (env : Env) : ∀ (prog : List Instr) (st : State) (left : Nat) (vals : List Ctx) (ps : List Promise),
    Inv env st left vals ps → specGo env prog (runProg env prog st vals) ps left = true := by
  intro prog
  induction prog with
  | nil => intro st left vals ps _; rfl
  | cons i is ih =>
    intro st left vals ps h
    simp only [runProg, specGo, Bool.and_eq_true]
    have hstep := inv_step env st left vals ps i h
    rw [← h.len] at hstep ⊢
    refine ⟨⟨keeps_model env st _ i.op _ (h.agree _), ?_⟩, ih _ _ _ _ hstep⟩
    have := derived_model env st _ i.op _ h.stok (h.agree (srcIdx vals.length i.back)) (h.sound _)
    rw [h.body] at this
    exact this

/-- the model's state and values together with the Spec's bookkeeping (promises, unread body) -/
def endAll (env : Env) : List Instr → State → List Ctx → List Promise → Nat → State × List Ctx × List Promise × Nat
  | [], st, vals, ps, left => (st, vals, ps, left)
  | i :: is, st, vals, ps, left =>
    endAll env is (stepOp env st (vals.getD (srcIdx vals.length i.back) []) i.op).1
      (vals ++ [(stepOp env st (vals.getD (srcIdx vals.length i.back) []) i.op).2.1])
      (ps ++ [after (ps.getD (srcIdx ps.length i.back) {}) i.op
        (stepOp env st (vals.getD (srcIdx vals.length i.back) []) i.op).2.2])
      (leftAfter left (stepOp env st (vals.getD (srcIdx vals.length i.back) []) i.op).2.2)

theorem endAll_endProg (env : Env) : ∀ (prog : List Instr) (st : State) (vals : List Ctx) (ps : List Promise) (left : Nat),
    (endAll env prog st vals ps left).1 = (endProg env prog st vals).1 ∧
    (endAll env prog st vals ps left).2.1 = (endProg env prog st vals).2 := by
  intro prog
  induction prog with
  | nil => intro st vals ps left; exact ⟨rfl, rfl⟩
  | cons i is ih => intro st vals ps left; simp only [endAll, endProg]; exact ih _ _ _ _

theorem inv_end (env : Env) : ∀ (prog : List Instr) (st : State) (left : Nat) (vals : List Ctx) (ps : List Promise),
    Inv env st left vals ps →
    Inv env (endAll env prog st vals ps left).1 (endAll env prog st vals ps left).2.2.2
      (endAll env prog st vals ps left).2.1 (endAll env prog st vals ps left).2.2.1 := by
  intro prog
  induction prog with
  | nil => intro st left vals ps h; exact h
  | cons i is ih => intro st left vals ps h; simp only [endAll]; exact ih _ _ _ _ (inv_step env st left vals ps i h)

/-- every state and request value reachable from the request as received is valid, and carries
promises that are memoised in it and account for everything memoised in it -/
theorem reach (env : Env) (b : Nat) (prog : List Instr) (k : Nat) :
    ∃ p, StOk env (endProg env prog ⟨[], b⟩ [[]]).1 ∧
      Agree p ((endProg env prog ⟨[], b⟩ [[]]).2.getD k []) ∧
      Sound env (endProg env prog ⟨[], b⟩ [[]]).1.routes.length p ((endProg env prog ⟨[], b⟩ [[]]).2.getD k []) := by
  have h := inv_end env prog _ _ _ _ (inv_init env b)
  obtain ⟨e1, e2⟩ := endAll_endProg env prog ⟨[], b⟩ [[]] [{}] b
  rw [← e1, ← e2]
  exact ⟨_, h.stok, h.agree k, h.sound k⟩

/-! ### the consequences in terms of contexts (no promises in the statements) -/

theorem refFmt_congr (env : Env) (p q : Promise) (rc : RouteCfg) (h : p.fmt = q.fmt) :
    refFmt env p rc = refFmt env q rc := by unfold refFmt; rw [h]

theorem refBind_congr (env : Env) (p q : Promise) (left : Nat) (rc : RouteCfg) (h : p.fmt = q.fmt) :
    refBind env p left rc = refBind env q left rc := by
  unfold refBind; rw [refFmt_congr env p q rc h]

theorem fresh_congr (env : Env) (p q : Promise) (left : Nat) (op : Op) (h : p.fmt = q.fmt) :
    fresh env p left op = fresh env q left op := by
  cases op <;> simp only [fresh]
  cases env.lookup with
  | none => rfl
  | some rc => exact refBind_congr env p q left rc h

/-- the format promise of a valid value is exactly the format memoised in it -/
theorem fmt_promise_eq {env : Env} {n : Nat} {p : Promise} {c : Ctx} (hag : Agree p c) (hs : Sound env n p c) :
    p.fmt = (memoFmt c).map Res2.fmt := by
  cases hm : memoFmt c with
  | some f => simp [hs.fmt f hm]
  | none => simp [hag.fmt.memo_none hm]

/-- "the stage is evaluated": the value shows no result of it -/
def notMemoised (c : Ctx) : Op → Prop
  | .contentType => memoCT c = none
  | .responseFormat _ => memoFmt c = none
  | .authorize => value c kPrinc = .nil
  | .bindAndValidate => memoBound c = none
  | _ => True

theorem promised_none_of_notMemoised {p : Promise} {c : Ctx} (hag : Agree p c) (op : Op) (h : notMemoised c op) :
    promised p op = none := by
  cases op with
  | routeInfo => rfl
  | resetAuth => rfl
  | contentType => exact hag.ct.memo_none h
  | responseFormat o => exact hag.fmt.memo_none h
  | bindAndValidate => exact hag.bound.memo_none h
  | authorize => exact hag.auth.memo_none (memoPrinc_nil c h)

/-- an evaluated stage of a valid value in a valid state yields the reference's result -/
theorem evaluated_eq_fresh (env : Env) (st : State) (c : Ctx) (op : Op) (p : Promise) (hst : StOk env st)
    (hag : Agree p c) (hs : Sound env st.routes.length p c) (hn : notMemoised c op) (r : Res2)
    (hf : fresh env { fmt := (memoFmt c).map Res2.fmt } st.bodyLeft op = some r) :
    (stepCore env st c op).res2 = r := by
  have hd := derived_model env st c op p hst hag hs
  unfold derivedAlone at hd
  rw [promised_none_of_notMemoised hag op hn] at hd
  rw [fresh_congr env _ p _ _ (fmt_promise_eq hag hs).symm] at hf
  rw [hf] at hd
  simp only [Option.isSome_none, Bool.false_or, Bool.and_eq_true, beq_iff_eq] at hd
  exact hd.2.1

/-- …and, for `Authorize`, shows the reference's scopes -/
theorem evaluated_scopes (env : Env) (st : State) (c : Ctx) (p : Promise) (rc : RouteCfg) (hst : StOk env st)
    (hag : Agree p c) (hs : Sound env st.routes.length p c) (hn : value c kPrinc = .nil) (hl : env.lookup = some rc)
    (ha : authenticated (stepCore env st c .authorize).res2 = true) :
    (stepCore env st c .authorize).obs.view.scopes = (refAuthorize env rc).2 := by
  have hd := derived_model env st c .authorize p hst hag hs
  unfold derivedAlone at hd
  rw [promised_none_of_notMemoised hag .authorize hn] at hd
  simp only [Option.isSome_none, Bool.false_or, Bool.and_eq_true] at hd
  have := hd.2.2
  simp only [scopesAlone, hl, StepOut.obs, ha, Bool.not_true, Bool.false_or, beq_iff_eq] at this
  exact this

/-- binding, silent case included: an evaluated binding is the reference's, and where the reference
is silent (no consumer for a body that has to be read) the model panics -/
theorem bind_model (env : Env) (st : State) (c : Ctx) (p : Promise) (hst : StOk env st)
    (hag : Agree p c) (hs : Sound env st.routes.length p c) (hn : memoBound c = none) :
    (stepCore env st c .bindAndValidate).res2 =
      match env.lookup with
      | none => .skipped
      | some rc => (refBind env p st.bodyLeft rc).getD .panic := by
  obtain ⟨r1, r2, r3⟩ := routeInfo_state env st c hst
  have hs1 := sound_route_held env st c p hs
  have hag1 := agree_afterRoute env st c p hag
  obtain ⟨hlk, hrid⟩ := routeInfo_route env st c p hs
  have hmb : memoBound ((routeInfo env st c).ret.held c) = none := by rw [held_route_memoBound]; exact hn
  simp only [stepCore]
  cases hrt : (routeInfo env st c).route with
  | none => rw [hrt] at hlk; simp at hlk; simp [← hlk]
  | some rt =>
    obtain ⟨rid, rc⟩ := rt
    rw [hrt] at hlk; simp at hlk
    rw [← hlk]
    simp only
    obtain ⟨_, e2, _⟩ := bindAndValidate_miss env (routeInfo env st c).st ((routeInfo env st c).ret.held c) rid rc hmb
    obtain ⟨_, _, _, _, v5, v6⟩ := validateRequest_ref env (routeInfo env st c).st ((routeInfo env st c).ret.held c) rid rc
      p r1 hs1.ct (hrid rid rc hrt) (by have := hag1.fmt; rwa [afterRoute_fmt] at this) hs1.fmt
    rw [r3] at v5 v6
    rw [e2]
    cases hf : refBind env p st.bodyLeft rc with
    | none => simpa using v6 hf
    | some x => simpa using v5 x hf


theorem leftAfter_cases (left : Nat) (o : Obs) : leftAfter left o = left ∨ leftAfter left o = 0 := by
  unfold leftAfter; cases o.effs.any isConsume <;> simp

theorem endAll_left (env : Env) : ∀ (prog : List Instr) (st : State) (vals : List Ctx) (ps : List Promise) (left : Nat),
    (endAll env prog st vals ps left).2.2.2 = left ∨ (endAll env prog st vals ps left).2.2.2 = 0 := by
  intro prog
  induction prog with
  | nil => intro st vals ps left; exact Or.inl rfl
  | cons i is ih =>
    intro st vals ps left
    simp only [endAll]
    rcases ih (stepOp env st (vals.getD (srcIdx vals.length i.back) []) i.op).1
      (vals ++ [(stepOp env st (vals.getD (srcIdx vals.length i.back) []) i.op).2.1])
      (ps ++ [after (ps.getD (srcIdx ps.length i.back) {}) i.op
        (stepOp env st (vals.getD (srcIdx vals.length i.back) []) i.op).2.2])
      (leftAfter left (stepOp env st (vals.getD (srcIdx vals.length i.back) []) i.op).2.2) with h | h
    · rcases leftAfter_cases left (stepOp env st (vals.getD (srcIdx vals.length i.back) []) i.op).2.2 with h' | h'
      · exact Or.inl (h.trans h')
      · exact Or.inr (h.trans h')
    · exact Or.inr h

theorem reach_body (env : Env) (b : Nat) (prog : List Instr) :
    (endProg env prog ⟨[], b⟩ [[]]).1.bodyLeft = b ∨ (endProg env prog ⟨[], b⟩ [[]]).1.bodyLeft = 0 := by
  have h := inv_end env prog _ _ _ _ (inv_init env b)
  obtain ⟨e1, _⟩ := endAll_endProg env prog ⟨[], b⟩ [[]] [{}] b
  rw [← e1, h.body]
  exact endAll_left env prog _ _ _ b

end RtVerif.C09
