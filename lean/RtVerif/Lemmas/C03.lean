import RtVerif.Model.C03
/-
  Helper lemmas for C03 (no property theorem here; those are in Props/C03.lean).
-/
namespace RtVerif.C03
open RtVerif Bytes

/-! ## bytes: a statement about all 256 bytes is decided case by case -/

theorem byte_forall {P : UInt8 → Prop} (h : ∀ n : Fin 256, P (UInt8.ofNat n.val)) : ∀ c, P c := by
  intro c
  have := h ⟨c.toNat, UInt8.toNat_lt c⟩
  simpa using this

set_option maxRecDepth 20000 in
theorem lower_idem : ∀ c : UInt8, toLowerB (toLowerB c) = toLowerB c := by
  apply byte_forall; decide

set_option maxRecDepth 20000 in
theorem upper_lower : ∀ c : UInt8, toUpperB (toLowerB c) = toUpperB c := by
  apply byte_forall; decide

set_option maxRecDepth 20000 in
theorem lower_upper : ∀ c : UInt8, toLowerB (toUpperB c) = toLowerB c := by
  apply byte_forall; decide

set_option maxRecDepth 20000 in
theorem dash_lower : ∀ c : UInt8, (toLowerB c == 45) = (c == 45) := by
  apply byte_forall; decide

set_option maxRecDepth 20000 in
theorem token_lower : ∀ c : UInt8, isTokenChar (toLowerB c) = isTokenChar c := by
  apply byte_forall; decide

/-! ## header canonicalisation depends on the name only up to ASCII case -/

theorem canonLoop_lower (up : Bool) (s : Bytes) : canonLoop up (s.map toLowerB) = canonLoop up s := by
  induction s generalizing up with
  | nil => rfl
  | cons c r ih =>
    simp only [List.map_cons, canonLoop, dash_lower, ih, upper_lower, lower_idem]

theorem lower_canonLoop (up : Bool) (s : Bytes) : (canonLoop up s).map toLowerB = s.map toLowerB := by
  induction s generalizing up with
  | nil => rfl
  | cons c r ih =>
    simp only [canonLoop, List.map_cons, ih]
    cases up <;> simp [lower_upper, lower_idem]

theorem all_token_lower (s : Bytes) : (s.map toLowerB).all isTokenChar = s.all isTokenChar := by
  induction s with
  | nil => rfl
  | cons c r ih => simp only [List.map_cons, List.all_cons, token_lower, ih]

theorem canonHeader_eq_iff (a b : Bytes) (ha : a.all isTokenChar = true) (hb : b.all isTokenChar = true) :
    canonHeader a = canonHeader b ↔ equalFold a b = true := by
  simp only [canonHeader, ha, hb, if_true, equalFold, toLower, beq_iff_eq]
  constructor
  · intro h
    have := congrArg (List.map toLowerB) h
    rwa [lower_canonLoop, lower_canonLoop] at this
  · intro h
    rw [← canonLoop_lower true a, ← canonLoop_lower true b, h]

/-! ## integers -/

theorem fitsInt_64 {w : Nat} {v : Int} (hw : w ≤ 64) (h : Num.fitsInt w v) : Num.fitsInt 64 v := by
  unfold Num.fitsInt at *
  have : 2 ^ (w - 1) ≤ 2 ^ (64 - 1) := Nat.pow_le_pow_right (by decide) (by omega)
  omega

/-- `convertText` on an integer kind is `strconv.ParseInt(s, 10, 64)` + `OverflowInt`: together
exactly "a literal of the grammar within the declared width". -/
theorem convertInt_iff (w : Nat) (hw : 1 ≤ w ∧ w ≤ 64) (t : Bytes) :
    (∀ v, convertInt w t = .ok (.int w v) ↔ Num.IntLit t v ∧ Num.fitsInt w v) ∧
    ((¬ ∃ v, Num.IntLit t v ∧ Num.fitsInt w v) → convertInt w t = .err 601) := by
  unfold convertInt
  cases hp : Num.parseInt10 64 t with
  | error e =>
    have hno : ∀ v, ¬ (Num.IntLit t v ∧ Num.fitsInt w v) := by
      intro v ⟨hl, hf⟩
      have := (Num.parseInt10_ok_iff 64 (by decide) t v).2 ⟨hl, fitsInt_64 hw.2 hf⟩
      rw [hp] at this; cases this
    refine ⟨fun v => ⟨fun h => (by cases h), fun h => (hno v h).elim⟩, fun _ => rfl⟩
  | ok v0 =>
    obtain ⟨hl0, _⟩ := (Num.parseInt10_ok_iff 64 (by decide) t v0).1 hp
    simp only []
    by_cases hf : Num.fitsInt w v0
    · simp only [hf, if_true, ItemOut.ok.injEq, Scalar.int.injEq, true_and]
      refine ⟨fun v => ⟨fun h => (by subst h; exact ⟨hl0, hf⟩), fun ⟨hl, _⟩ => Num.IntLit.unique hl0 hl⟩, ?_⟩
      intro hno; exact (hno ⟨v0, hl0, hf⟩).elim
    · simp only [hf, if_false]
      refine ⟨fun v => ⟨fun h => (by cases h), fun ⟨hl, hfv⟩ => ?_⟩, fun _ => trivial⟩
      have := Num.IntLit.unique hl0 hl; subst this; exact (hf hfv).elim

theorem convertInt_shape {w : Nat} {t : Bytes} {x : Scalar} (h : convertInt w t = .ok x) :
    ∃ v, x = .int w v := by
  unfold convertInt at h
  split at h
  · cases h
  · split at h
    · cases h; exact ⟨_, rfl⟩
    · cases h

/-- the Spec's decision procedure for the grammar -/
theorem digits?_some (ds : Bytes) (n : Nat) :
    digits? ds = some n ↔ ds ≠ [] ∧ (∀ b ∈ ds, Num.isDigit b = true) ∧ n = Num.natOfDigits ds := by
  unfold digits?
  by_cases h : (!ds.isEmpty && ds.all Num.isDigit) = true
  · simp only [h, if_true, Option.some.injEq]
    simp only [Bool.and_eq_true, Bool.not_eq_eq_eq_not, Bool.not_true, List.isEmpty_eq_false_iff,
      List.all_eq_true] at h
    exact ⟨fun e => ⟨h.1, h.2, e.symm⟩, fun ⟨_, _, e⟩ => e.symm⟩
  · simp only [h, if_false, reduceCtorEq, false_iff]
    intro ⟨h1, h2, _⟩
    apply h
    simp only [Bool.and_eq_true, Bool.not_eq_eq_eq_not, Bool.not_true, List.isEmpty_eq_false_iff,
      List.all_eq_true]
    exact ⟨h1, h2⟩

theorem digits?_self {ds : Bytes} (h1 : ds ≠ []) (h2 : ∀ b ∈ ds, Num.isDigit b = true) :
    digits? ds = some (Num.natOfDigits ds) := (digits?_some ds _).2 ⟨h1, h2, rfl⟩

theorem intLit?_iff (t : Bytes) (v : Int) : intLit? t = some v ↔ Num.IntLit t v := by
  unfold intLit?
  constructor
  · intro h
    split at h
    · rename_i ds
      cases hd : digits? ds with
      | none => rw [hd] at h; cases h
      | some n =>
        rw [hd] at h; simp only [Option.some.injEq] at h; subst h
        obtain ⟨h1, h2, rfl⟩ := (digits?_some ds n).1 hd
        exact .plus ds h1 h2
    · rename_i ds
      cases hd : digits? ds with
      | none => rw [hd] at h; cases h
      | some n =>
        rw [hd] at h; simp only [Option.some.injEq] at h; subst h
        obtain ⟨h1, h2, rfl⟩ := (digits?_some ds n).1 hd
        exact .minus ds h1 h2
    · cases hd : digits? t with
      | none => rw [hd] at h; cases h
      | some n =>
        rw [hd] at h; simp only [Option.some.injEq] at h; subst h
        obtain ⟨h1, h2, rfl⟩ := (digits?_some t n).1 hd
        exact .plain t h1 h2
  · intro h
    cases h with
    | plain _ h1 h2 =>
      cases t with
      | nil => exact (h1 rfl).elim
      | cons b r =>
        have hb := Num.isDigit_ne_sign (h2 b (List.mem_cons_self ..))
        split
        · rename_i e; cases e; exact (hb.1 rfl).elim
        · rename_i e; cases e; exact (hb.2 rfl).elim
        · rw [digits?_self h1 h2]
    | plus ds h1 h2 => simp only [digits?_self h1 h2]
    | minus ds h1 h2 => simp only [digits?_self h1 h2]

/-! ## splitting -/

theorem splitLoop_eq (l : List Bytes) :
    splitLoop l = (l.map trimSpace).filter (fun x => !x.isEmpty) := by
  induction l with
  | nil => rfl
  | cons s r ih =>
    simp only [splitLoop, List.map_cons, List.filter_cons]
    by_cases h : (trimSpace s).isEmpty = true
    · simp [h, ih]
    · simp [h, ih]

/-! ## collecting item results -/

theorem collect_ok_iff (l : List ItemOut) (vs : List Scalar) :
    collect l = .ok vs ↔ l = vs.map .ok := by
  induction l generalizing vs with
  | nil =>
    simp only [collect, Except.ok.injEq]
    constructor
    · intro h; subst h; rfl
    · intro h; cases vs with
      | nil => rfl
      | cons _ _ => cases h
  | cons x r ih =>
    cases x with
    | err c =>
      simp only [collect, reduceCtorEq, false_iff]
      intro h; cases vs <;> cases h
    | ok v =>
      simp only [collect]
      cases hr : collect r with
      | error c =>
        simp only [reduceCtorEq, false_iff]
        intro h
        cases vs with
        | nil => cases h
        | cons v' vs' =>
          simp only [List.map_cons, List.cons.injEq] at h
          have := (ih vs').2 h.2
          rw [hr] at this; cases this
      | ok vs0 =>
        have h0 := (ih vs0).1 hr
        simp only [Except.ok.injEq]
        constructor
        · intro h; subst h; simp [h0]
        · intro h
          cases vs with
          | nil => cases h
          | cons v' vs' =>
            simp only [List.map_cons, List.cons.injEq, ItemOut.ok.injEq] at h
            obtain ⟨rfl, h2⟩ := h
            have := (ih vs').2 h2
            rw [hr] at this; cases this; rfl

theorem collect_error (l : List ItemOut) (c : Nat) (h : collect l = .error c) :
    ∃ (pre : List Scalar) (post : List ItemOut), l = pre.map .ok ++ .err c :: post := by
  induction l with
  | nil => cases h
  | cons x r ih =>
    cases x with
    | err c' =>
      simp only [collect, Except.error.injEq] at h
      subst h; exact ⟨[], r, rfl⟩
    | ok v =>
      simp only [collect] at h
      cases hr : collect r with
      | error c' =>
        rw [hr] at h; simp only [Except.error.injEq] at h; subst h
        obtain ⟨pre, post, e⟩ := ih hr
        exact ⟨v :: pre, post, by simp [e]⟩
      | ok vs0 => rw [hr] at h; cases h

theorem listOut_value_iff (k : SKind) (l : List ItemOut) (vs : List Scalar) :
    listOut k l = .value (.list (tagOf k) vs) ↔ l = vs.map .ok := by
  rw [← collect_ok_iff]
  unfold listOut
  cases collect l with
  | ok xs => simp
  | error c => simp

/-- the width the property text gives an integer format (`int8..int64`, anything else: 64) -/
def widthOf (fmt : String) : Nat :=
  if fmt = "int8" then 8 else if fmt = "int16" then 16 else if fmt = "int32" then 32 else 64

theorem widthOf_mem (fmt : String) : widthOf fmt = 8 ∨ widthOf fmt = 16 ∨ widthOf fmt = 32 ∨ widthOf fmt = 64 := by
  unfold widthOf
  split
  · exact .inl rfl
  · split
    · exact .inr (.inl rfl)
    · split
      · exact .inr (.inr (.inl rfl))
      · exact .inr (.inr (.inr rfl))

theorem int_handled (fmt : String) : (SKind.int (widthOf fmt)).handled = true := by
  rcases widthOf_mem fmt with h | h | h | h <;> rw [h] <;> decide

/-- item texts and the integers of width `w` they denote, position by position -/
inductive ItemsDenote (w : Nat) : List Bytes → List Scalar → Prop where
  | nil : ItemsDenote w [] []
  | cons {t : Bytes} {v : Int} {ts : List Bytes} {ss : List Scalar} :
      Num.IntLit t v → Num.fitsInt w v → ItemsDenote w ts ss → ItemsDenote w (t :: ts) (.int w v :: ss)

end RtVerif.C03
