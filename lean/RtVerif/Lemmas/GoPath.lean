import RtVerif.Base.GoPath
/-
  Theorems about `GoPath` (all unbounded: every byte string).

    clean_idem            clean (clean p) = clean p
    clean_rooted          clean p starts with '/'  iff  p does
    clean_shape           clean p = render rooted (k × ".." ++ normal segments), k = 0 when rooted
    clean_ne_nil, clean_no_trailing_slash, segs_clean (no empty / "." segment, ".." only in front)
    join_eq_clean         join a b = clean (a ++ "/" ++ b) for non-empty parts
    join_split            join (split p).1 (split p).2 = clean p  for p ≠ ""
-/
namespace RtVerif.GoPath
open RtVerif

/-- A kept ordinary segment: non-empty, not `.`, not `..`, without `/`. -/
def Normal (s : Bytes) : Prop := s ≠ [] ∧ s ≠ dot ∧ s ≠ dotdot ∧ slash ∉ s

/-! ### splitting at slashes -/

theorem segsAux_nil : segsAux [] = ([], []) := rfl

theorem segsAux_cons_slash (r : Bytes) : segsAux (slash :: r) = ([], segs r) := by
  simp [segsAux, segs]

theorem segsAux_cons_ne {b : UInt8} (r : Bytes) (h : b ≠ slash) :
    segsAux (b :: r) = (b :: (segsAux r).1, (segsAux r).2) := by
  simp [segsAux, h]

theorem segs_nil : segs [] = [[]] := rfl

theorem segs_cons_slash (r : Bytes) : segs (slash :: r) = [] :: segs r := by
  simp [segs, segsAux_cons_slash]

theorem segsAux_noslash (s : Bytes) (h : slash ∉ s) : segsAux s = (s, []) := by
  induction s with
  | nil => rfl
  | cons b r ih =>
    have hb : b ≠ slash := fun e => h (by simp [e])
    have hr : slash ∉ r := fun e => h (by simp [e])
    rw [segsAux_cons_ne r hb, ih hr]

theorem segs_noslash (s : Bytes) (h : slash ∉ s) : segs s = [s] := by
  simp [segs, segsAux_noslash s h]

theorem segsAux_append_slash (a b : Bytes) :
    segsAux (a ++ slash :: b) = ((segsAux a).1, (segsAux a).2 ++ segs b) := by
  induction a with
  | nil => simp [segsAux_cons_slash, segsAux_nil]
  | cons x a ih =>
    by_cases hx : x = slash
    · subst hx
      simp only [List.cons_append, segsAux_cons_slash, segs, ih, List.cons_append]
    · simp only [List.cons_append, segsAux_cons_ne _ hx, ih]

/-- Splitting `a ++ "/" ++ b` gives the segments of `a` followed by the segments of `b`. -/
theorem segs_append_slash (a b : Bytes) : segs (a ++ slash :: b) = segs a ++ segs b := by
  simp [segs, segsAux_append_slash]

theorem segsAux_noslash_mem (p : Bytes) :
    slash ∉ (segsAux p).1 ∧ ∀ s ∈ (segsAux p).2, slash ∉ s := by
  induction p with
  | nil => simp [segsAux]
  | cons b r ih =>
    by_cases hb : b = slash
    · subst hb
      rw [segsAux_cons_slash]
      refine ⟨by simp, ?_⟩
      intro s hs
      simp only [segs, List.mem_cons] at hs
      rcases hs with rfl | hs
      · exact ih.1
      · exact ih.2 s hs
    · rw [segsAux_cons_ne r hb]
      refine ⟨?_, ih.2⟩
      simp only [List.mem_cons, not_or]
      exact ⟨fun e => hb e.symm, ih.1⟩

/-- No segment contains a slash. -/
theorem segs_noslash_mem (p : Bytes) : ∀ s ∈ segs p, slash ∉ s := by
  intro s hs
  simp only [segs, List.mem_cons] at hs
  rcases hs with rfl | hs
  · exact (segsAux_noslash_mem p).1
  · exact (segsAux_noslash_mem p).2 s hs

theorem joinSegs_cons_cons (s t : Bytes) (l : List Bytes) :
    joinSegs (s :: t :: l) = s ++ slash :: joinSegs (t :: l) := rfl

/-- Splitting a rendered non-empty list of slash-free segments gives the list back. -/
theorem segs_joinSegs (l : List Bytes) (hne : l ≠ []) (h : ∀ s ∈ l, slash ∉ s) :
    segs (joinSegs l) = l := by
  induction l with
  | nil => exact absurd rfl hne
  | cons s t ih =>
    cases t with
    | nil => exact segs_noslash s (h s (by simp))
    | cons t l =>
      rw [joinSegs_cons_cons, segs_append_slash, segs_noslash s (h s (by simp)),
        ih (by simp) (fun x hx => h x (List.mem_cons_of_mem _ hx))]
      rfl

/-! ### the stack invariant -/

theorem step_skip_nil (r : Bool) (st : List Bytes) : step r st [] = st := by simp [step]
theorem step_skip_dot (r : Bool) (st : List Bytes) : step r st dot = st := by simp [step]

theorem step_normal (r : Bool) (st : List Bytes) {s : Bytes} (h : Normal s) :
    step r st s = s :: st := by
  simp [step, h.1, h.2.1, h.2.2.1]

theorem dotdot_ne_nil : dotdot ≠ [] := by decide
theorem dotdot_ne_dot : dotdot ≠ dot := by decide
theorem dotdot_noslash : slash ∉ dotdot := by decide
theorem dot_noslash : slash ∉ dot := by decide

/-- Stack (top first) = ordinary segments on top of `k` kept `..`; none kept when rooted. -/
def Inv (rooted : Bool) (st : List Bytes) : Prop :=
  ∃ (k : Nat) (ns : List Bytes), st = ns ++ List.replicate k dotdot ∧ (∀ s ∈ ns, Normal s) ∧
    (rooted = true → k = 0)

theorem inv_nil (r : Bool) : Inv r [] := ⟨0, [], rfl, by simp, fun _ => rfl⟩

theorem inv_step (r : Bool) (st : List Bytes) (seg : Bytes) (hseg : slash ∉ seg)
    (h : Inv r st) : Inv r (step r st seg) := by
  obtain ⟨k, ns, rfl, hns, hk⟩ := h
  by_cases h1 : seg = [] ∨ seg = dot
  · simp only [step, h1, if_true]
    exact ⟨k, ns, rfl, hns, hk⟩
  · by_cases h2 : seg = dotdot
    · subst h2
      simp only [step, h1, if_false, if_true]
      cases ns with
      | nil =>
        cases k with
        | zero =>
          simp only [List.replicate_zero, List.append_nil]
          cases r with
          | true => exact inv_nil true
          | false => exact ⟨1, [], rfl, by simp, by simp⟩
        | succ k =>
          simp only [List.nil_append, List.replicate_succ, if_true]
          cases r with
          | true => exact absurd (hk rfl) (by simp)
          | false => exact ⟨k + 2, [], by simp [List.replicate_succ], by simp, by simp⟩
      | cons n ns =>
        have hn : Normal n := hns n (by simp)
        simp only [List.cons_append, hn.2.2.1, if_false]
        exact ⟨k, ns, rfl, fun s hs => hns s (List.mem_cons_of_mem _ hs), hk⟩
    · have hN : Normal seg := ⟨fun e => h1 (Or.inl e), fun e => h1 (Or.inr e), h2, hseg⟩
      rw [step_normal r _ hN]
      refine ⟨k, seg :: ns, rfl, ?_, hk⟩
      intro s hs
      rcases List.mem_cons.mp hs with rfl | hs
      · exact hN
      · exact hns s hs

theorem inv_foldl (r : Bool) (l : List Bytes) (hl : ∀ s ∈ l, slash ∉ s) (st : List Bytes)
    (h : Inv r st) : Inv r (l.foldl (step r) st) := by
  induction l generalizing st with
  | nil => exact h
  | cons s t ih =>
    simp only [List.foldl_cons]
    exact ih (fun x hx => hl x (List.mem_cons_of_mem _ hx)) _
      (inv_step r st s (hl s (by simp)) h)

/-- Shape of the kept segments (bottom first): `k` times `..`, then ordinary segments. -/
theorem kept_shape (p : Bytes) :
    ∃ (k : Nat) (ns : List Bytes), kept p = List.replicate k dotdot ++ ns ∧
      (∀ s ∈ ns, Normal s) ∧ (isRooted p = true → k = 0) := by
  obtain ⟨k, ns, hst, hns, hk⟩ :=
    inv_foldl (isRooted p) (segs p) (segs_noslash_mem p) [] (inv_nil _)
  refine ⟨k, ns.reverse, ?_, ?_, hk⟩
  · simp [kept, hst, List.reverse_append, List.reverse_replicate]
  · intro s hs
    exact hns s (List.mem_reverse.mp hs)

/-! ### feeding a cleaned list of segments again -/

theorem foldl_normals (r : Bool) (ns : List Bytes) (hns : ∀ s ∈ ns, Normal s)
    (acc : List Bytes) : ns.foldl (step r) acc = ns.reverse ++ acc := by
  induction ns generalizing acc with
  | nil => rfl
  | cons s t ih =>
    simp only [List.foldl_cons, step_normal r acc (hns s (by simp))]
    rw [ih (fun x hx => hns x (List.mem_cons_of_mem _ hx))]
    simp

theorem step_dotdot_unrooted (j : Nat) :
    step false (List.replicate j dotdot) dotdot = List.replicate (j + 1) dotdot := by
  cases j with
  | zero => simp [step, dotdot_ne_nil, dotdot_ne_dot]
  | succ j => simp [step, dotdot_ne_nil, dotdot_ne_dot, List.replicate_succ]

theorem foldl_dotdots (k j : Nat) :
    (List.replicate k dotdot).foldl (step false) (List.replicate j dotdot)
      = List.replicate (j + k) dotdot := by
  induction k generalizing j with
  | zero => rfl
  | succ k ih =>
    simp only [List.replicate_succ, List.foldl_cons]
    have := step_dotdot_unrooted j
    simp only [List.replicate_succ] at this
    rw [this, ← List.replicate_succ, ih (j + 1)]
    congr 1
    omega

theorem refeed (r : Bool) (k : Nat) (ns : List Bytes) (hns : ∀ s ∈ ns, Normal s)
    (hk : r = true → k = 0) :
    (List.replicate k dotdot ++ ns).foldl (step r) [] = (List.replicate k dotdot ++ ns).reverse := by
  rw [List.foldl_append]
  have h0 : (List.replicate k dotdot).foldl (step r) [] = List.replicate k dotdot := by
    cases r with
    | true => simp [hk rfl]
    | false =>
      have := foldl_dotdots k 0
      simpa using this
  rw [h0, foldl_normals r ns hns]
  simp [List.reverse_append, List.reverse_replicate]

/-! ### rendering -/

theorem normal_head_ne_slash {s : Bytes} (h : slash ∉ s) (hne : s ≠ []) :
    isRooted s = false := by
  cases s with
  | nil => exact absurd rfl hne
  | cons b r =>
    have hb : b ≠ slash := fun e => h (by simp [e])
    simp [isRooted, hb]

theorem isRooted_append {s : Bytes} (t : Bytes) (hne : s ≠ []) :
    isRooted (s ++ t) = isRooted s := by
  cases s with
  | nil => exact absurd rfl hne
  | cons b r => rfl

theorem isRooted_joinSegs {s : Bytes} (t : List Bytes) (h : slash ∉ s) (hne : s ≠ []) :
    isRooted (joinSegs (s :: t)) = false := by
  cases t with
  | nil => exact normal_head_ne_slash h hne
  | cons t l =>
    rw [joinSegs_cons_cons, isRooted_append _ hne]
    exact normal_head_ne_slash h hne

/-- The good lists: what `kept` produces. -/
def Good (rooted : Bool) (l : List Bytes) : Prop :=
  ∃ (k : Nat) (ns : List Bytes), l = List.replicate k dotdot ++ ns ∧ (∀ s ∈ ns, Normal s) ∧
    (rooted = true → k = 0)

theorem good_noslash {r : Bool} {l : List Bytes} (h : Good r l) : ∀ s ∈ l, slash ∉ s := by
  obtain ⟨k, ns, rfl, hns, _⟩ := h
  intro s hs
  rcases List.mem_append.mp hs with h1 | h1
  · rw [(List.mem_replicate.mp h1).2]; exact dotdot_noslash
  · exact (hns s h1).2.2.2

theorem good_ne_nil {r : Bool} {l : List Bytes} (h : Good r l) : ∀ s ∈ l, s ≠ [] := by
  obtain ⟨k, ns, rfl, hns, _⟩ := h
  intro s hs
  rcases List.mem_append.mp hs with h1 | h1
  · rw [(List.mem_replicate.mp h1).2]; exact dotdot_ne_nil
  · exact (hns s h1).1

theorem good_ne_dot {r : Bool} {l : List Bytes} (h : Good r l) : ∀ s ∈ l, s ≠ dot := by
  obtain ⟨k, ns, rfl, hns, _⟩ := h
  intro s hs
  rcases List.mem_append.mp hs with h1 | h1
  · rw [(List.mem_replicate.mp h1).2]; exact dotdot_ne_dot
  · exact (hns s h1).2.1

theorem isRooted_render (r : Bool) (l : List Bytes) (h : Good r l) :
    isRooted (render r l) = r := by
  cases r with
  | true => simp [render, isRooted]
  | false =>
    simp only [render, Bool.false_eq_true, if_false]
    cases l with
    | nil => simp only [if_true]; decide
    | cons s t =>
      simp only [reduceCtorEq, if_false]
      exact isRooted_joinSegs t (good_noslash h s (by simp)) (good_ne_nil h s (by simp))

/-- The segments of a rendered good list. -/
theorem segs_render (r : Bool) (l : List Bytes) (h : Good r l) :
    segs (render r l) =
      (if r then [[]] else []) ++ (if l = [] then (if r then [[]] else [dot]) else l) := by
  cases r with
  | true =>
    simp only [render, if_true, segs_cons_slash]
    cases l with
    | nil => simp [joinSegs, segs_nil]
    | cons s t => simp [segs_joinSegs (s :: t) (by simp) (good_noslash h)]
  | false =>
    simp only [render, Bool.false_eq_true, if_false, List.nil_append]
    cases l with
    | nil => simp only [if_true]; exact segs_noslash dot dot_noslash
    | cons s t =>
      simp only [reduceCtorEq, if_false]
      exact segs_joinSegs (s :: t) (by simp) (good_noslash h)

theorem kept_render (r : Bool) (l : List Bytes) (h : Good r l) : kept (render r l) = l := by
  have hg := h
  obtain ⟨k, ns, rfl, hns, hk⟩ := h
  unfold kept
  rw [isRooted_render r _ hg, segs_render r _ hg]
  cases r with
  | true =>
    by_cases hl : List.replicate k dotdot ++ ns = []
    · simp [hl, step_skip_nil]
    · simp only [if_true, hl, if_false, List.singleton_append, List.foldl_cons, step_skip_nil]
      rw [refeed true k ns hns hk, List.reverse_reverse]
  | false =>
    by_cases hl : List.replicate k dotdot ++ ns = []
    · simp [hl, step_skip_dot]
    · simp only [Bool.false_eq_true, if_false, hl, List.nil_append]
      rw [refeed false k ns hns hk, List.reverse_reverse]

theorem kept_good (p : Bytes) : Good (isRooted p) (kept p) := kept_shape p

/-! ## The theorems -/

/-- `Clean` preserves rootedness. -/
theorem clean_rooted (p : Bytes) : isRooted (clean p) = isRooted p :=
  isRooted_render _ _ (kept_good p)

/-- `Clean` is idempotent. -/
theorem clean_idem (p : Bytes) : clean (clean p) = clean p := by
  have h := kept_good p
  show render (isRooted (clean p)) (kept (clean p)) = clean p
  rw [clean_rooted]
  unfold clean
  rw [kept_render _ _ h]

/-- Shape of a cleaned path: `k` leading `..` (none when rooted) followed by ordinary segments,
rendered with single slashes. -/
theorem clean_shape (p : Bytes) :
    ∃ (k : Nat) (ns : List Bytes), (∀ s ∈ ns, Normal s) ∧ (isRooted p = true → k = 0) ∧
      clean p = render (isRooted p) (List.replicate k dotdot ++ ns) := by
  obtain ⟨k, ns, hk, hns, hr⟩ := kept_shape p
  exact ⟨k, ns, hns, hr, by simp [clean, hk]⟩

/-- The segments of a cleaned path: an initial empty segment exactly when rooted, then either
nothing else (`"/"`, or `"."` for unrooted) or only kept segments — none empty, none `.`, and `..`
only in front of an unrooted path. -/
theorem segs_clean (p : Bytes) :
    ∃ (k : Nat) (ns : List Bytes), (∀ s ∈ ns, Normal s) ∧ (isRooted p = true → k = 0) ∧
      segs (clean p) =
        (if isRooted p then [[]] else []) ++
          (if List.replicate k dotdot ++ ns = [] then (if isRooted p then [[]] else [dot])
           else List.replicate k dotdot ++ ns) := by
  obtain ⟨k, ns, hk, hns, hr⟩ := kept_shape p
  refine ⟨k, ns, hns, hr, ?_⟩
  have := segs_render (isRooted p) (kept p) (kept_good p)
  rw [hk] at this
  simpa [clean, hk] using this

theorem joinSegs_ne_nil {s : Bytes} (t : List Bytes) (hne : s ≠ []) : joinSegs (s :: t) ≠ [] := by
  cases t with
  | nil => exact hne
  | cons t l =>
    rw [joinSegs_cons_cons]
    cases s with
    | nil => exact absurd rfl hne
    | cons b r => simp

/-- `Clean` never returns the empty string. -/
theorem clean_ne_nil (p : Bytes) : clean p ≠ [] := by
  have h := kept_good p
  unfold clean render
  split
  · simp
  · split
    · decide
    · rename_i _ hl
      cases hk : kept p with
      | nil => exact absurd hk hl
      | cons s t => exact joinSegs_ne_nil t (good_ne_nil h s (by simp [hk]))

theorem getLast?_joinSegs (l : List Bytes) (hne : l ≠ []) (h : ∀ s ∈ l, s ≠ []) :
    ∃ s ∈ l, (joinSegs l).getLast? = s.getLast? := by
  induction l with
  | nil => exact absurd rfl hne
  | cons s t ih =>
    cases t with
    | nil => exact ⟨s, by simp, rfl⟩
    | cons t l =>
      obtain ⟨x, hx, hxl⟩ := ih (by simp) (fun y hy => h y (List.mem_cons_of_mem _ hy))
      refine ⟨x, List.mem_cons_of_mem _ hx, ?_⟩
      rw [joinSegs_cons_cons, ← hxl]
      have hj : joinSegs (t :: l) ≠ [] := joinSegs_ne_nil l (h t (by simp))
      rw [List.getLast?_append, List.getLast?_cons]
      cases hjl : (joinSegs (t :: l)).getLast? with
      | none => exact absurd (List.getLast?_eq_none_iff.mp hjl) hj
      | some z => simp

/-- A cleaned path ends in a slash only if it is `"/"`. -/
theorem clean_no_trailing_slash (p : Bytes) (h1 : clean p ≠ [slash]) :
    (clean p).getLast? ≠ some slash := by
  have h := kept_good p
  have key : ∀ l : List Bytes, l ≠ [] → (∀ s ∈ l, s ≠ []) → (∀ s ∈ l, slash ∉ s) →
      (joinSegs l).getLast? ≠ some slash := by
    intro l hne hn hs e
    obtain ⟨s, hsl, hse⟩ := getLast?_joinSegs l hne hn
    rw [e] at hse
    exact hs s hsl (List.mem_of_getLast? hse.symm)
  unfold clean render at h1 ⊢
  split
  · rename_i hr
    simp only [hr, if_true] at h1
    cases hk : kept p with
    | nil => simp [hk, joinSegs] at h1
    | cons s t =>
      have hj := joinSegs_ne_nil t (good_ne_nil h s (by simp [hk]))
      have := key (s :: t) (by simp) (by rw [← hk]; exact good_ne_nil h)
        (by rw [← hk]; exact good_noslash h)
      rw [List.getLast?_cons]
      cases hjl : (joinSegs (s :: t)).getLast? with
      | none => exact absurd (List.getLast?_eq_none_iff.mp hjl) hj
      | some z =>
        rw [hjl] at this
        simpa using this
  · split
    · decide
    · rename_i _ hl
      exact key (kept p) hl (good_ne_nil h) (good_noslash h)

/-- `Join` of two non-empty parts cleans their concatenation with a slash. -/
theorem join_eq_clean (a b : Bytes) (ha : a ≠ []) (hb : b ≠ []) :
    join a b = clean (a ++ slash :: b) := by
  have h1 : joinRaw [a, b] = a ++ slash :: b := by simp [joinRaw, ha, hb]
  have h2 : a ++ slash :: b ≠ [] := by simp
  simp [join, joinList, h1]

theorem joinRaw_drop_nil (a c : Bytes) : joinRaw [a, [], c] = joinRaw [a, c] := by
  simp [joinRaw]

/-- An empty middle element is ignored. -/
theorem join3_nil_mid (a c : Bytes) : join3 a [] c = join a c := by
  simp [join3, join, joinList, joinRaw_drop_nil]

theorem join_nil_left (b : Bytes) (hb : b ≠ []) : join [] b = clean b := by
  simp [join, joinList, joinRaw, hb]

theorem join_nil_right (a : Bytes) (ha : a ≠ []) : join a [] = clean a := by
  simp [join, joinList, joinRaw, ha]

/-! ### split -/

/-- `Split` cuts after the last slash: `p = dir ++ file`, `file` has no slash, and `dir` is empty
or ends with a slash. -/
theorem split_spec (p : Bytes) :
    p = (split p).1 ++ (split p).2 ∧ slash ∉ (split p).2 ∧
      ((split p).1 = [] ∨ ∃ d, (split p).1 = d ++ [slash]) := by
  induction p with
  | nil => simp [split]
  | cons b r ih =>
    obtain ⟨h1, h2, h3⟩ := ih
    by_cases hd : (split r).1 = []
    · by_cases hb : b = slash
      · subst hb
        simp only [split, hd, if_true]
        refine ⟨?_, h2, Or.inr ⟨[], rfl⟩⟩
        rw [hd] at h1
        simpa using h1
      · simp only [split, hd, if_true, hb, if_false]
        refine ⟨?_, ?_, Or.inl trivial⟩
        · rw [hd] at h1
          simpa using h1
        · simp only [List.mem_cons, not_or]
          exact ⟨fun e => hb e.symm, h2⟩
    · simp only [split, hd, if_false]
      refine ⟨?_, h2, Or.inr ?_⟩
      · simp only [List.cons_append]
        rw [← h1]
      · rcases h3 with h3 | ⟨d, hd'⟩
        · exact absurd h3 hd
        · exact ⟨b :: d, by simp [hd']⟩

theorem isRooted_eq_of_head {a b : Bytes} (h : a.head? = b.head?) : isRooted a = isRooted b := by
  cases a <;> cases b <;> simp_all [isRooted]

theorem kept_double_slash (d f : Bytes) :
    kept (d ++ slash :: slash :: f) = kept (d ++ slash :: f) := by
  have hr : isRooted (d ++ slash :: slash :: f) = isRooted (d ++ slash :: f) := by
    apply isRooted_eq_of_head
    cases d <;> simp
  unfold kept
  rw [hr, segs_append_slash, segs_append_slash, segs_cons_slash]
  simp only [List.foldl_append, List.foldl_cons, step_skip_nil]

theorem clean_double_slash (d f : Bytes) :
    clean (d ++ slash :: slash :: f) = clean (d ++ slash :: f) := by
  have hr : isRooted (d ++ slash :: slash :: f) = isRooted (d ++ slash :: f) := by
    apply isRooted_eq_of_head
    cases d <;> simp
  unfold clean
  rw [hr, kept_double_slash]

/-- Joining the two halves of `Split` gives the cleaned path (for every non-empty path). -/
theorem join_split' (p : Bytes) (hp : p ≠ []) : join (split p).1 (split p).2 = clean p := by
  obtain ⟨h1, _, h3⟩ := split_spec p
  by_cases hf : (split p).2 = []
  · have hd : (split p).1 = p := by rw [hf] at h1; simpa using h1.symm
    rw [hf, hd]
    exact join_nil_right p hp
  · rcases h3 with h3 | ⟨d, hd⟩
    · have : (split p).2 = p := by rw [h3] at h1; simpa using h1.symm
      rw [h3, this]
      exact join_nil_left p hp
    · rw [join_eq_clean _ _ (by simp [hd]) hf]
      conv => rhs; rw [h1]
      rw [hd]
      simp only [List.append_assoc, List.singleton_append]
      exact clean_double_slash d _

/-- The statement of DESIGN.md §4. -/
theorem join_split (p : Bytes) (hf : (split p).2 ≠ []) :
    join (split p).1 (split p).2 = clean p := by
  apply join_split'
  intro hp
  subst hp
  exact hf rfl

end RtVerif.GoPath
