import RtVerif.Lemmas.C05DALookup
/-  C05DA, part 7: the decidable check `reprB` (what the driver applies to the REAL arrays) implies
    the invariant `Repr`. -/
namespace RtVerif.C05DA
open RtVerif Bytes
open RtVerif.C05 (Rec cParam cWild cTerm sortRecs leafOf hasSingle advWild weight look)

theorem mem_allBytes {c : UInt8} (hc : c ≠ 0) : c ∈ allBytes := by
  unfold allBytes
  rw [List.mem_map]
  have hpos : 0 < c.toNat := by
    have : c.toNat ≠ (0 : UInt8).toNat := fun h => hc (UInt8.toNat_inj.mp h)
    simp at this; omega
  have hlt : c.toNat < 256 := UInt8.toNat_lt c
  refine ⟨c.toNat - 1, by rw [List.mem_range]; omega, ?_⟩
  have : c.toNat - 1 + 1 = c.toNat := by omega
  rw [this, UInt8.ofNat_toNat]

theorem reprB_sound (bc : BC) (node : Array (Option Node)) :
    ∀ (fuel idx : Nat) (rs : List Rec), reprB bc node fuel idx rs = true → Repr bc node idx rs := by
  intro fuel
  induction fuel with
  | zero => intro idx rs h; simp [reprB] at h
  | succ f ih =>
    intro idx rs h
    rw [reprB] at h
    simp only [Bool.and_eq_true, decide_eq_true_eq] at h
    obtain ⟨hlt, h⟩ := h
    split at h
    · rename_i hall
      split at h
      · rename_i r hl
        refine Repr.leaf idx rs r hlt ?_ hl (by simpa using h)
        intro x hx
        have := List.all_eq_true.mp hall x hx
        simpa using this
      · cases h
    · rename_i hall
      simp only [Bool.and_eq_true, beq_iff_eq] at h
      obtain ⟨⟨⟨hk, hs⟩, hw⟩, hb⟩ := h
      have hne : rs ≠ [] := by
        intro hnil; apply hall; rw [hnil]; rfl
      have hk' : ∀ x ∈ rs, x.key ≠ [] := by
        intro x hx
        have := List.all_eq_true.mp hk x hx
        simpa using this
      rw [List.all_eq_true] at hb
      refine Repr.inner idx rs hlt hne hk' hs hw ?_ ?_ ?_
      · intro c hc hnil
        have := hb c (mem_allBytes hc)
        rw [hnil] at this
        simpa using this
      · intro c hc hnn
        have := hb c (mem_allBytes hc)
        have he : (childOf c rs).isEmpty = false := by
          cases hx : childOf c rs with
          | nil => exact absurd hx hnn
          | cons _ _ => rfl
        rw [he] at this
        simp only [Bool.false_eq_true, ↓reduceIte, Bool.and_eq_true, beq_iff_eq] at this
        exact this.1
      · intro c hc hnn
        have := hb c (mem_allBytes hc)
        have he : (childOf c rs).isEmpty = false := by
          cases hx : childOf c rs with
          | nil => exact absurd hx hnn
          | cons _ _ => rfl
        rw [he] at this
        simp only [Bool.false_eq_true, ↓reduceIte, Bool.and_eq_true, beq_iff_eq] at this
        exact ih _ _ this.2

end RtVerif.C05DA
