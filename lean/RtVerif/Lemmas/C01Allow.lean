import RtVerif.Model.C01
import RtVerif.Lemmas.C01Bridge
/-
  C01: lemmas that lift the trie-level 404/405 theorem (`allow_exact`) to templates, for simple
  templates: what C05's specification says of a lookup result, read segment by segment.
-/
namespace RtVerif.C01
open RtVerif Bytes

/-- a key made of literal bytes only is matched by itself only -/
theorem matchKey_static_eq (st : Bool) (K : Bytes) (hK : ∀ c ∈ K, litKind c) :
    ∀ (P : Bytes) (vs : List Bytes), C05.matchKey st (K ++ [C05.cTerm]) P = some vs → P = K := by
  induction K with
  | nil =>
    intro P vs h
    rw [List.nil_append, C05.matchKey_term] at h
    split at h
    · rename_i hc
      simp only [Bool.and_eq_true, List.isEmpty_iff] at hc
      exact hc.1
    · cases h
  | cons c K' ih =>
    intro P vs h
    obtain ⟨h1, h2, h3⟩ := hK c List.mem_cons_self
    cases P with
    | nil => rw [List.cons_append, C05.matchKey_lit_nil _ _ _ h1 h2 h3] at h; cases h
    | cons d P' =>
      rw [List.cons_append, C05.matchKey_lit_cons _ _ _ _ _ h1 h2 h3] at h
      split at h
      · rename_i hd
        have : d = c := by simpa using hd
        rw [this, ih (fun x hx => hK x (List.mem_cons_of_mem _ hx)) P' vs h]
      · cases h

/-- a reported match of a simple template's key means the template is instantiated, segment by segment -/
theorem foundOk_loose (recs : List (Bytes × Nat)) (segs : List SSeg) (hw : WFT segs) (hne : segs ≠ [])
    (qs : List Bytes) (hqs : ∀ q ∈ qs, slash ∉ q) (names vals : List Bytes)
    (h : C05.foundOk recs (renderP qs) names vals (keyOf segs) = true) :
    (instantiates (renderT segs) (renderP qs)).isSome = true := by
  rw [instantiates_simple segs hw hne qs hqs]
  have hbridge := matchKey_keyOf segs hw qs hqs
  unfold C05.foundOk at h
  by_cases hpk : C05.isParamKey (keyOf segs) = true
  · simp only [hpk, Bool.not_true, Bool.false_eq_true, ↓reduceIte, Bool.and_eq_true, beq_iff_eq] at h
    have hmk : C05.matchKey false (tailKey segs) (renderP qs) = some vals := h.1.1.1
    rw [hbridge] at hmk
    cases hm : matchSegs (segs.map toTSeg) qs with
    | none => rw [hm] at hmk; cases hmk
    | some r => rfl
  · have hpk' : C05.isParamKey (keyOf segs) = false := by simpa using hpk
    simp only [hpk', Bool.not_false, ↓reduceIte, Bool.and_eq_true, beq_iff_eq] at h
    have hself := matchKey_self false (keyOf segs) (keyOf_static_bytes segs hw hpk')
    have : C05.matchKey false (tailKey segs) (renderP qs) = some [] := by
      rw [← h.1.1]; exact hself
    rw [hbridge] at this
    cases hm : matchSegs (segs.map toTSeg) qs with
    | none => rw [hm] at this; cases this
    | some r => rfl

/-- a miss (C05's completeness) means no filed simple template fits with non-empty texts -/
theorem notFound_unfit (recs : List (Bytes × Nat)) (segs : List SSeg) (hw : WFT segs) (hne : segs ≠ [])
    (qs : List Bytes) (hqs : ∀ q ∈ qs, slash ∉ q) (i : Nat) (hmem : (keyOf segs, i) ∈ recs)
    (h : C05.specLookup recs (renderP qs) .notFound = true) :
    fitsStrict (renderT segs) (renderP qs) = false := by
  cases hf : fitsStrict (renderT segs) (renderP qs) with
  | false => rfl
  | true =>
    exfalso
    unfold fitsStrict at hf
    rw [instantiates_simple segs hw hne qs hqs] at hf
    have hbridge := matchKey_keyOf segs hw qs hqs
    cases hm : matchSegs (segs.map toTSeg) qs with
    | none => rw [hm] at hf; cases hf
    | some raws =>
      rw [hm] at hf hbridge
      simp only [Option.map_some] at hbridge
      simp only [C05.specLookup, List.all_eq_true] at h
      have hk := h _ hmem
      simp only at hk
      by_cases hpk : C05.isParamKey (keyOf segs) = true
      · simp only [hpk, Bool.not_true, Bool.false_eq_true, ↓reduceIte] at hk
        have hb' : C05.matchKey false (keyOf segs ++ [C05.cTerm]) (renderP qs) = some (raws.map (·.2)) := hbridge
        rw [hb'] at hk
        simp only [List.any_map, List.any_eq_true, Function.comp_apply] at hk
        obtain ⟨kv, hkv, he⟩ := hk
        simp only [List.all_eq_true] at hf
        have := hf kv hkv
        rw [he] at this
        cases this
      · have hpk' : C05.isParamKey (keyOf segs) = false := by simpa using hpk
        simp only [hpk', Bool.not_false, ↓reduceIte, bne_iff_ne, ne_eq] at hk
        apply hk
        exact (matchKey_static_eq false (keyOf segs) (keyOf_static_bytes segs hw hpk') _ _ hbridge).symm

theorem hasHandler_of_mem {api : Api} {op : Op} (h : op ∈ api.ops) : hasHandler api op = true := by
  unfold hasHandler
  simp only [List.any_eq_true, Bool.and_eq_true, beq_iff_eq]
  exact ⟨op, h, rfl, rfl⟩

/-- every operation of the description is filed under its upper-cased method -/
theorem recordsFor_of_mem {api : Api} {op : Op} (h : op ∈ api.ops) :
    ∃ i, (convert (fullPath api op), i) ∈ recordsFor api (toUpper op.method) := by
  obtain ⟨i, hi⟩ := List.mem_iff_getElem?.mp h
  refine ⟨i, ?_⟩
  unfold recordsFor
  simp only [List.mem_filterMap]
  refine ⟨(op, i), List.mem_zipIdx_iff_getElem?.mpr hi, ?_⟩
  simp [hasHandler_of_mem h]

theorem mem_methodsOf {api : Api} {op : Op} (h : op ∈ api.ops) : toUpper op.method ∈ methodsOf api := by
  unfold methodsOf
  rw [List.mem_eraseDups]
  exact List.mem_map.mpr ⟨op, h, rfl⟩

theorem matchSegs_vals_mem (ts : List TSeg) (ps : List Bytes) (raws : List (Bytes × Bytes))
    (h : matchSegs ts ps = some raws) : ∀ kv ∈ raws, kv.2 ∈ ps := by
  induction ts generalizing ps raws with
  | nil =>
    cases ps with
    | nil => simp only [matchSegs, Option.some.injEq] at h; subst h; intro kv hkv; cases hkv
    | cons q qs => simp [matchSegs] at h
  | cons t ts ih =>
    cases ps with
    | nil => cases t <;> simp [matchSegs] at h
    | cons q qs =>
      cases t with
      | lit b =>
        simp only [matchSegs] at h
        split at h
        · intro kv hkv; exact List.mem_cons_of_mem _ (ih qs raws h kv hkv)
        · cases h
      | ph n =>
        simp only [matchSegs, Option.map_eq_some_iff] at h
        obtain ⟨r', hr', rfl⟩ := h
        intro kv hkv
        rcases List.mem_cons.mp hkv with rfl | hkv
        · exact List.mem_cons_self
        · exact List.mem_cons_of_mem _ (ih qs r' hr' kv hkv)
      | composite => simp [matchSegs] at h

/-- away from the root path every text of an instantiation is non-empty: "fits" needs no qualification -/
theorem loose_strict_of_nonroot (segs : List SSeg) (hw : WFT segs) (hne : segs ≠ []) (p : Bytes)
    (hroot : GoPath.isRooted p = true) (hk : GoPath.kept p ≠ [])
    (h : (instantiates (renderT segs) (GoPath.clean p)).isSome = true) :
    fitsStrict (renderT segs) (GoPath.clean p) = true := by
  obtain ⟨hclean, hsegs⟩ := clean_rooted_renderP p hroot
  unfold fitsStrict
  rw [hclean, instantiates_simple segs hw hne _ hsegs] at h ⊢
  cases hi : matchSegs (segs.map toTSeg) (pathSegs p) with
  | none => rw [hi] at h; cases h
  | some raws =>
    simp only [List.all_eq_true, Bool.not_eq_eq_eq_not, Bool.not_true, List.isEmpty_eq_false_iff]
    intro kv hkv
    have hmem := matchSegs_vals_mem _ _ _ hi kv hkv
    unfold pathSegs at hmem
    simp only [hk, ↓reduceIte] at hmem
    exact GoPath.good_ne_nil (GoPath.kept_good p) _ hmem

theorem build_ok_of (recs : List (Bytes × Nat))
    (h : (match C05.build recs with | .ok _ => true | _ => false) = true) : ∃ t, C05.build recs = .ok t := by
  cases hb : C05.build recs with
  | ok t => exact ⟨t, rfl⟩
  | errReserved => rw [hb] at h; cases h
  | errDupName => rw [hb] at h; cases h

/-- GET /pets/{id} and POST /pets under the base path `/` -/
def exApi : Api := ⟨[47], [⟨[103,101,116], [47,112,101,116,115,47,123,105,100,125]⟩, ⟨[112,111,115,116],[47,112,101,116,115]⟩]⟩

end RtVerif.C01
