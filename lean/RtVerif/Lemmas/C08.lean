import RtVerif.Model.C08
import RtVerif.Props.C07
/-
  C08 — helper lemmas: the Spec's vocabulary (`stripParams`, `negotiated`, `registeredFor`) versus
  the code's (`normalizeOffer`, `responseFormat`, `route.Producers`), and the fields of the small
  output-building steps.
-/
namespace RtVerif.C08
open RtVerif Bytes

theorem stripParams_eq (mt : Bytes) : stripParams mt = C07.normalizeOffer mt := rfl

/-- since the F08a fix both plain-value look-ups use the parameter-free type (regenerated fact) -/
theorem lookupKey_eq (format : Bytes) : lookupKey format = C07.normalizeOffer format := by
  simp [lookupKey, Facts.respondRawProducerLookups]

/-- the format `Respond` works with is the negotiated type of the Spec -/
theorem responseFormat_eq (cfg : Cfg) (produces : List Bytes) (req : Req) :
    responseFormat req.memo req.specs (offersOf cfg.dflt produces) = negotiated cfg produces req := by
  unfold responseFormat negotiated offersOf
  cases req.memo with
  | some v => rfl
  | none => exact C07.negotiate_eq_spec _ _ _

theorem registeredFor_eq (cfg : Cfg) (r : Route) (k : Bytes) : registeredFor cfg r k = routeHas cfg r k := by
  unfold registeredFor routeHas producersForHas
  rw [Bool.and_comm]
  rfl

theorem pickProducer_of_has {cfg : Cfg} {r : Route} {k : Bytes} (h : routeHas cfg r k = true) :
    pickProducer cfg r k = some k := by
  simp [pickProducer, h]

@[simp] theorem produce_calls (enc k o) : (produce enc k o).calls = o.calls ++ [(k, true)] := rfl
@[simp] theorem produce_body (enc k o) : (produce enc k o).body = o.body ++ (enc k).out := rfl
@[simp] theorem produce_status (enc k o) : (produce enc k o).status = o.status := rfl
@[simp] theorem produce_ct (enc k o) : (produce enc k o).ct = o.ct := rfl
@[simp] theorem produce_handed (enc k o) : (produce enc k o).handed = o.handed := rfl

@[simp] theorem pop_calls (enc k o) : (produceOrPanic enc k o).calls = o.calls ++ [(k, true)] := by
  unfold produceOrPanic; split <;> rfl
@[simp] theorem pop_body (enc k o) : (produceOrPanic enc k o).body = o.body ++ (enc k).out := by
  unfold produceOrPanic; split <;> rfl
@[simp] theorem pop_status (enc k o) : (produceOrPanic enc k o).status = o.status := by
  unfold produceOrPanic; split <;> rfl
@[simp] theorem pop_ct (enc k o) : (produceOrPanic enc k o).ct = o.ct := by
  unfold produceOrPanic; split <;> rfl

/-- what the error branch leaves behind -/
theorem respondError_errcalls (req : Req) (format : Bytes) (e : ErrV) (s : Bool) (ebody : Bytes) (o : Out)
    (ho : o.errcalls = []) :
    (respondError req format e s ebody o).errcalls =
      [⟨e, s, if format == [] then jsonMime else format,
        if req.marker != [] then challenge req.marker else []⟩] := by
  unfold respondError callErrorResponder
  simp only [ho, List.nil_append]
  split <;> split <;> rfl

theorem respondError_www (req : Req) (format : Bytes) (e : ErrV) (s : Bool) (ebody : Bytes) (o : Out) :
    (respondError req format e s ebody o).www = if req.marker != [] then [challenge req.marker] else [] := rfl

theorem respondError_status (req : Req) (format : Bytes) (e : ErrV) (s : Bool) (ebody : Bytes) (o : Out) :
    (respondError req format e s ebody o).status = serveStatus e := rfl

theorem effRealm_ne_nil (realm : Bytes) : effRealm realm ≠ [] := by
  unfold effRealm
  split
  · decide
  · rename_i h; simpa using h

theorem routeHasOp_some {route : Option Route} {r : Route} (h : routeHasOp route = some r) :
    route = some r ∧ r.hasOp = true := by
  cases route with
  | none => simp [routeHasOp] at h
  | some r' =>
    simp only [routeHasOp] at h
    split at h
    · rename_i hop; simp only [Option.some.injEq] at h; subst h; exact ⟨rfl, hop⟩
    · cases h

theorem specRespond_ran (cfg : Cfg) (produces : List Bytes) (route : Option Route) (req : Req)
    (fb : Option Bytes) (d : Data) (enc : Bytes → ProdRes) (o : Out) :
    specRespond cfg produces route req fb d enc { o with ran := true } =
      specRespond cfg produces route req fb d enc o := by
  cases d <;> rfl

theorem respond_error_ran (cfg : Cfg) (produces : List Bytes) (route : Option Route) (req : Req)
    (e : ErrV) (s : Bool) (enc : Bytes → ProdRes) (ebody : Bytes) :
    (respond cfg produces route req (.error e s) enc ebody).ran = false := by
  simp [respond, respondError, callErrorResponder]

theorem serve_of_auth_failure (c : ApiCase) (enc : Bytes → ProdRes) (ebody : Bytes) (realm : Bytes)
    (e : ErrV) (s : Bool) (hsec : c.sec = some realm) (ha : authorize c.creds c.fn = .fail e s) :
    serve c enc ebody = respond c.cfg c.route.produces (some c.route)
      ⟨c.method, c.specs, none, basicMarker realm c.creds c.fn⟩ (.error e s) enc ebody := by
  simp only [serve, hsec, ha]

end RtVerif.C08
