import RtVerif.Model.C10
import RtVerif.Lemmas.C10
import RtVerif.Lemmas.GoPath
import RtVerif.Lemmas.GoURLParse
/-
  Helper lemmas for the end-to-end part of C10: `path.Join` of a clean base path with a pattern
  given by its segments, the substitution seen segment by segment, and percent-unescaping of the
  built path.
-/
namespace RtVerif.C10
open RtVerif Bytes

/-! ### `joinRooted` -/

theorem joinRooted_nil : joinRooted [] = [] := rfl

theorem joinRooted_cons (s : Bytes) (l : List Bytes) : joinRooted (s :: l) = 47 :: (s ++ joinRooted l) := by
  simp [joinRooted]

theorem joinRooted_append (a b : List Bytes) : joinRooted (a ++ b) = joinRooted a ++ joinRooted b := by
  simp [joinRooted]

theorem render_true_eq (l : List Bytes) (hne : l ≠ []) : GoPath.render true l = joinRooted l := by
  simp only [GoPath.render, ↓reduceIte]
  induction l with
  | nil => exact absurd rfl hne
  | cons s t ih =>
    cases t with
    | nil => simp [GoPath.joinSegs, joinRooted, GoPath.slash]
    | cons t l =>
      rw [GoPath.joinSegs_cons_cons, joinRooted_cons]
      have := ih (by simp)
      simp only [GoPath.slash] at this ⊢
      rw [← this]

/-- the segments of `s/s₁/…/sₙ` (+ `/`): `s`, the `sᵢ`, an empty last one for the slash -/
theorem segs_tail (s : Bytes) (hs : GoPath.slash ∉ s) (l : List Bytes) (hl : ∀ x ∈ l, GoPath.slash ∉ x)
    (t : Bool) :
    GoPath.segs (s ++ (joinRooted l ++ slashIf t)) = s :: (l ++ if t then [[]] else []) := by
  induction l generalizing s with
  | nil =>
    cases t with
    | false => simp [joinRooted_nil, slashIf, GoPath.segs_noslash s hs]
    | true =>
      have : s ++ (joinRooted [] ++ slashIf true) = s ++ GoPath.slash :: [] := by
        simp [joinRooted_nil, slashIf, GoPath.slash]
      rw [this, GoPath.segs_append_slash, GoPath.segs_noslash s hs, GoPath.segs_nil]; rfl
  | cons x l ih =>
    have : s ++ (joinRooted (x :: l) ++ slashIf t) = s ++ GoPath.slash :: (x ++ (joinRooted l ++ slashIf t)) := by
      simp [joinRooted_cons, GoPath.slash]
    rw [this, GoPath.segs_append_slash, GoPath.segs_noslash s hs,
      ih x (hl x List.mem_cons_self) (fun y hy => hl y (List.mem_cons_of_mem _ hy))]
    simp

theorem segs_joinRooted (l : List Bytes) (hl : ∀ x ∈ l, GoPath.slash ∉ x) (t : Bool) :
    GoPath.segs (joinRooted l ++ slashIf t) = [] :: (l ++ if t then [[]] else []) := by
  have := segs_tail [] (by simp) l hl t
  simpa using this

/-! ### `path.Join` of a clean rooted base path with a pattern -/

theorem good_normals (bs : List Bytes) (hbs : ∀ b ∈ bs, GoPath.Normal b) : GoPath.Good true bs :=
  ⟨0, bs, by simp, hbs, fun _ => rfl⟩

theorem foldl_base (bs : List Bytes) (hbs : ∀ b ∈ bs, GoPath.Normal b) :
    (GoPath.segs (GoPath.render true bs)).foldl (GoPath.step true) [] = bs.reverse := by
  rw [GoPath.segs_render true bs (good_normals bs hbs)]
  by_cases h : bs = []
  · subst h; simp [GoPath.step_skip_nil]
  · simp only [↓reduceIte, h, List.cons_append, List.nil_append, List.foldl_cons, GoPath.step_skip_nil]
    rw [GoPath.foldl_normals true bs hbs]; simp

theorem render_true_ne_nil (bs : List Bytes) : GoPath.render true bs ≠ [] := by
  simp [GoPath.render]

theorem isRooted_render_append (bs : List Bytes) (r : Bytes) : GoPath.isRooted (GoPath.render true bs ++ r) = true := by
  simp [GoPath.render, GoPath.isRooted]

/-- **`path.Join` of a clean rooted base path and any non-empty pattern path**: the segments of the
pattern are fed to `Clean`'s stack machine on top of the base path's segments. -/
theorem join_base_general (bs : List Bytes) (hbs : ∀ b ∈ bs, GoPath.Normal b) (pp : Bytes) (hpp : pp ≠ []) :
    GoPath.join (GoPath.render true bs) pp =
      GoPath.render true (((GoPath.segs pp).foldl (GoPath.step true) bs.reverse).reverse) := by
  rw [GoPath.join_eq_clean _ _ (render_true_ne_nil bs) hpp]
  unfold GoPath.clean GoPath.kept
  have hr : GoPath.isRooted (GoPath.render true bs ++ GoPath.slash :: pp) = true := isRooted_render_append bs _
  rw [hr, GoPath.segs_append_slash, List.foldl_append, foldl_base bs hbs]

theorem foldl_step_pattern (l : List Bytes) (hl : ∀ x ∈ l, GoPath.Normal x) (t : Bool) (acc : List Bytes) :
    ([] :: (l ++ if t then [[]] else [])).foldl (GoPath.step true) acc = l.reverse ++ acc := by
  simp only [List.foldl_cons, GoPath.step_skip_nil, List.foldl_append, GoPath.foldl_normals true l hl]
  cases t <;> simp [GoPath.step_skip_nil]

theorem patternOf_ne_nil (psegs : List (List Tok)) (t : Bool) (hne : psegs ≠ []) : patternOf psegs t ≠ [] := by
  cases psegs with
  | nil => exact absurd rfl hne
  | cons s r => simp [patternOf, joinRooted_cons]

/-- for a pattern whose segments are ordinary ones (non-empty, not `.`/`..`, no `/`): the joined path
is the base path's segments followed by the pattern's, single slashes, no trailing slash -/
theorem join_base_pattern (bs : List Bytes) (hbs : ∀ b ∈ bs, GoPath.Normal b) (psegs : List (List Tok))
    (hps : ∀ s ∈ psegs, GoPath.Normal (render s)) (hne : psegs ≠ []) (t : Bool) :
    GoPath.join (basePathOf bs) (patternOf psegs t) = joinRooted (bs ++ psegs.map render) := by
  have hl : ∀ x ∈ psegs.map render, GoPath.Normal x := by
    intro x hx
    obtain ⟨s, hs, rfl⟩ := List.mem_map.mp hx
    exact hps s hs
  unfold basePathOf
  rw [join_base_general bs hbs _ (patternOf_ne_nil psegs t hne)]
  unfold patternOf
  rw [segs_joinRooted _ (fun x hx => (hl x hx).2.2.2) t, foldl_step_pattern _ hl t]
  rw [List.reverse_append, List.reverse_reverse, List.reverse_reverse]
  apply render_true_eq
  cases psegs with
  | nil => exact absurd rfl hne
  | cons s r => simp

/-! ### the substitution, segment by segment -/

/-- the tokens of `/s₁/…/sₙ` -/
def toksOf (segs : List (List Tok)) : List Tok := segs.flatMap fun s => Tok.lit [47] :: s

theorem render_append (a b : List Tok) : render (a ++ b) = render a ++ render b := by
  induction a with
  | nil => rfl
  | cons t r ih => cases t <;> simp [render, ih]

theorem render_toksOf (segs : List (List Tok)) : render (toksOf segs) = joinRooted (segs.map render) := by
  induction segs with
  | nil => rfl
  | cons s r ih =>
    have : toksOf (s :: r) = Tok.lit [47] :: (s ++ toksOf r) := by simp [toksOf]
    rw [this, List.map_cons, joinRooted_cons, render, render_append, ih]; rfl

theorem render_subst (params : List (Bytes × Bytes)) (s : List Tok) :
    render (s.map (substTok params)) = encodeSeg params s := by
  induction s with
  | nil => rfl
  | cons t r ih =>
    cases t with
    | lit b => simp [substTok, render, encodeSeg, encodeTok] at ih ⊢; rw [ih]
    | ph n =>
      simp only [List.map_cons, substTok, encodeSeg, List.flatMap_cons, encodeTok] at ih ⊢
      cases lookupParam params n with
      | none => simp only [render, ih]
      | some v => simp only [render, ih]

theorem substAll_toksOf (params : List (Bytes × Bytes)) (segs : List (List Tok)) :
    substAll params (toksOf segs) = joinRooted (segs.map (encodeSeg params)) := by
  unfold substAll
  induction segs with
  | nil => rfl
  | cons s r ih =>
    have : toksOf (s :: r) = Tok.lit [47] :: (s ++ toksOf r) := by simp [toksOf]
    rw [this, List.map_cons, List.map_append, List.map_cons, joinRooted_cons]
    simp only [substTok, render, render_append, ih, render_subst]
    rfl

theorem wf_toksOf (segs : List (List Tok)) (h : ∀ s ∈ segs, ∀ t ∈ s, t.wf = true) : WFToks (toksOf segs) := by
  intro t ht
  simp only [toksOf, List.mem_flatMap, List.mem_cons] at ht
  obtain ⟨s, hs, rfl | ht⟩ := ht
  · decide
  · exact h s hs t ht

theorem render_lit_single (b : Bytes) : render [Tok.lit b] = b := by simp [render]

theorem allSegs_render (bs : List Bytes) (psegs : List (List Tok)) :
    (allSegs bs psegs).map render = bs ++ psegs.map render := by
  simp [allSegs, List.map_map, Function.comp_def, render_lit_single]

/-! ### the trailing slash -/

theorem getLast_joinRooted (l : List Bytes) (hne : l ≠ []) (hl : ∀ x ∈ l, GoPath.Normal x) :
    (joinRooted l).getLast? ≠ some 47 := by
  induction l with
  | nil => exact absurd rfl hne
  | cons s r ih =>
    have hs := hl s List.mem_cons_self
    cases r with
    | nil =>
      rw [joinRooted_cons, joinRooted_nil, List.append_nil]
      obtain ⟨c, t, rfl⟩ : ∃ c t, s = t ++ [c] := by
        have := List.eq_nil_or_concat s
        rcases this with h | ⟨t, c, h⟩
        · exact absurd h hs.1
        · exact ⟨c, t, by simpa using h⟩
      have : (47 : UInt8) :: (t ++ [c]) = (47 :: t) ++ [c] := rfl
      rw [this, List.getLast?_concat]
      intro h
      have hc : c = 47 := by simpa using h
      exact hs.2.2.2 (by simp [hc, GoPath.slash])
    | cons s2 r2 =>
      have : joinRooted (s :: s2 :: r2) = (47 :: s) ++ joinRooted (s2 :: r2) := by
        rw [joinRooted_cons]; rfl
      rw [this, List.getLast?_append]
      have ih' := ih (by simp) (fun x hx => hl x (List.mem_cons_of_mem _ hx))
      cases hb : (joinRooted (s2 :: r2)).getLast? with
      | none => simp [joinRooted_cons] at hb
      | some x => rw [hb] at ih'; simpa using ih'

theorem keepsSlash_patternOf (psegs : List (List Tok)) (hps : ∀ s ∈ psegs, GoPath.Normal (render s))
    (hne : psegs ≠ []) (t : Bool) : keepsSlash (patternOf psegs t) = t := by
  have hl : ∀ x ∈ psegs.map render, GoPath.Normal x := by
    intro x hx
    obtain ⟨s, hs, rfl⟩ := List.mem_map.mp hx
    exact hps s hs
  have hne' : psegs.map render ≠ [] := by simpa using hne
  have hlast := getLast_joinRooted _ hne' hl
  have hjne : joinRooted (psegs.map render) ≠ [] := by
    cases psegs with
    | nil => exact absurd rfl hne
    | cons s r => simp [joinRooted_cons]
  cases t with
  | false =>
    simp only [keepsSlash, patternOf, slashIf, Bool.false_eq_true, ↓reduceIte, List.append_nil]
    have : ((joinRooted (psegs.map render)).getLast? == some 47) = false := by simpa using hlast
    simp [this]
  | true =>
    simp only [keepsSlash, patternOf, slashIf, ↓reduceIte]
    have h1 : (joinRooted (psegs.map render) ++ [47]).isEmpty = false := by simp
    have h2 : (joinRooted (psegs.map render) ++ [47] != [47]) = true := by
      simp only [bne_iff_ne, ne_eq]
      intro h
      have := congrArg List.length h
      simp at this
      exact hjne this
    simp [h1, h2]

/-! ### unescaping the built path -/

/-- a token the theorems cover: static text without `%`, or a placeholder that has a value -/
def TokOk (params : List (Bytes × Bytes)) : Tok → Prop
  | .lit b => (37 : UInt8) ∉ b
  | .ph n => (lookupParam params n).isSome = true

theorem unescape_encodeTok (params : List (Bytes × Bytes)) (t : Tok) (ht : TokOk params t) (r : Bytes) :
    GoURL.unescape false (encodeTok params t ++ r) = (GoURL.unescape false r).map (decodeTok params t ++ ·) := by
  cases t with
  | lit b => exact GoURLParse.gounescape_plain_append b r ht
  | ph n =>
    simp only [TokOk] at ht
    cases hv : lookupParam params n with
    | none => rw [hv] at ht; cases ht
    | some v =>
      simp only [encodeTok, decodeTok, hv]
      exact GoURLParse.gounescape_escape_append false v r

theorem unescape_encodeSeg (params : List (Bytes × Bytes)) (s : List Tok) (hs : ∀ t ∈ s, TokOk params t)
    (r : Bytes) :
    GoURL.unescape false (encodeSeg params s ++ r) = (GoURL.unescape false r).map (decodeSeg params s ++ ·) := by
  induction s with
  | nil => simp [encodeSeg, decodeSeg]
  | cons t ts ih =>
    have h1 := hs t List.mem_cons_self
    have h2 : ∀ t ∈ ts, TokOk params t := fun x hx => hs x (List.mem_cons_of_mem _ hx)
    simp only [encodeSeg, decodeSeg, List.flatMap_cons, List.append_assoc] at ih ⊢
    rw [unescape_encodeTok params t h1, ih h2]
    simp [Option.map_map, Function.comp_def]

theorem unescape_slash (r : Bytes) :
    GoURL.unescape false (47 :: r) = (GoURL.unescape false r).map (47 :: ·) := by
  rw [GoURLParse.gounescape_cons_ne false 47 r (by decide)]; rfl

theorem unescape_joinRooted (params : List (Bytes × Bytes)) (segs : List (List Tok))
    (hs : ∀ s ∈ segs, ∀ t ∈ s, TokOk params t) (r : Bytes) :
    GoURL.unescape false (joinRooted (segs.map (encodeSeg params)) ++ r) =
      (GoURL.unescape false r).map (joinRooted (segs.map (decodeSeg params)) ++ ·) := by
  induction segs with
  | nil => simp [joinRooted_nil]
  | cons s ss ih =>
    have h1 := hs s List.mem_cons_self
    have h2 : ∀ s ∈ ss, ∀ t ∈ s, TokOk params t := fun x hx => hs x (List.mem_cons_of_mem _ hx)
    simp only [List.map_cons, joinRooted_cons, List.cons_append, List.append_assoc]
    rw [unescape_slash, unescape_encodeSeg params s h1, ih h2]
    simp [Option.map_map, Function.comp_def]

theorem unescape_slashIf (t : Bool) : GoURL.unescape false (slashIf t) = some (slashIf t) := by
  cases t <;> simp [slashIf, GoURL.unescape]

/-- the built path decodes, piece by piece, to static text and values -/
theorem unescape_built (params : List (Bytes × Bytes)) (segs : List (List Tok))
    (hs : ∀ s ∈ segs, ∀ t ∈ s, TokOk params t) (t : Bool) :
    GoURL.unescape false (joinRooted (segs.map (encodeSeg params)) ++ slashIf t) =
      some (joinRooted (segs.map (decodeSeg params)) ++ slashIf t) := by
  rw [unescape_joinRooted params segs hs, unescape_slashIf]; rfl


/-! ### when does the built string start with `//` (and not `///`)? -/

theorem head_ne_slash {e : Bytes} {c : UInt8} {r : Bytes} (h : GoPath.slash ∉ c :: r) (_ : e = c :: r) : c ≠ 47 := by
  intro hc; exact h (by simp [hc, GoPath.slash])

/-- `net/url` reads an authority out of `/e₁/e₂/…` (+ `/`) exactly when `e₁` is empty and what
follows is a non-empty segment, or an empty LAST segment without a trailing slash, or nothing but
the trailing slash -/
theorem authority_iff (es : List Bytes) (hes : ∀ e ∈ es, GoPath.slash ∉ e) (t : Bool) :
    GoURLParse.takesAuthority [] (joinRooted es ++ slashIf t) = true ↔
      ∃ r, es = [] :: r ∧
        (match r with
         | [] => t = true
         | e2 :: r' => ¬ (e2 = [] ∧ (r' ≠ [] ∨ t = true))) := by
  cases es with
  | nil => cases t <;> simp [GoURLParse.takesAuthority, joinRooted_nil, slashIf, Bytes.hasPrefix, GoURLParse.slash]
  | cons e1 r =>
    cases e1 with
    | cons c e =>
      have hc : c ≠ 47 := head_ne_slash (hes _ List.mem_cons_self) rfl
      have hc' : ((47 : UInt8) == c) = false := by simpa using fun h => hc h.symm
      simp [GoURLParse.takesAuthority, joinRooted_cons, Bytes.hasPrefix, GoURLParse.slash, List.isPrefixOf, hc']
    | nil =>
      cases r with
      | nil => cases t <;> simp [GoURLParse.takesAuthority, joinRooted_cons, joinRooted_nil, slashIf, Bytes.hasPrefix, GoURLParse.slash, List.isPrefixOf]
      | cons e2 r' =>
        cases e2 with
        | cons c e =>
          have hc : c ≠ 47 := head_ne_slash (hes _ (List.mem_cons_of_mem _ List.mem_cons_self)) rfl
          have hc' : ((47 : UInt8) == c) = false := by simpa using fun h => hc h.symm
          simp [GoURLParse.takesAuthority, joinRooted_cons, Bytes.hasPrefix, GoURLParse.slash, List.isPrefixOf, hc']
        | nil =>
          cases r' with
          | nil => cases t <;> simp [GoURLParse.takesAuthority, joinRooted_cons, joinRooted_nil, slashIf, Bytes.hasPrefix, GoURLParse.slash, List.isPrefixOf]
          | cons e3 r'' => simp [GoURLParse.takesAuthority, joinRooted_cons, Bytes.hasPrefix, GoURLParse.slash, List.isPrefixOf]

theorem escape_eq_nil (q : Bool) (v : Bytes) : GoURL.escape q v = [] ↔ v = [] := by
  cases v with
  | nil => simp [GoURL.escape]
  | cons c r =>
    simp only [GoURL.escape, List.flatMap_cons, List.append_eq_nil_iff, reduceCtorEq, iff_false, not_and]
    intro h
    unfold GoURL.escapeByte at h
    split at h
    · split at h <;> cases h
    · cases h

theorem encodeTok_eq_nil (params : List (Bytes × Bytes)) (t : Tok) :
    encodeTok params t = [] ↔ decodeTok params t = [] := by
  cases t with
  | lit b => rfl
  | ph n =>
    simp only [encodeTok, decodeTok]
    cases lookupParam params n with
    | none => rfl
    | some v => exact escape_eq_nil false v

theorem encodeSeg_eq_nil (params : List (Bytes × Bytes)) (s : List Tok) :
    encodeSeg params s = [] ↔ decodeSeg params s = [] := by
  simp only [encodeSeg, decodeSeg, List.flatMap_eq_nil_iff]
  constructor
  · intro h t ht; exact (encodeTok_eq_nil params t).mp (h t ht)
  · intro h t ht; exact (encodeTok_eq_nil params t).mpr (h t ht)


/-! ### keys of the merged query stay distinct -/

def keys (vs : Values) : List Bytes := vs.map (·.1)

theorem keys_set_nodup (vs : Values) (hd : (keys vs).Nodup) (k : Bytes) (v : List Bytes) :
    (keys (vs.set k v)).Nodup := by
  unfold keys Values.set Values.del at *
  rw [List.map_append, List.nodup_append]
  refine ⟨?_, by simp, ?_⟩
  · exact List.Nodup.sublist (List.Sublist.map _ List.filter_sublist) hd
  · intro a ha b hb
    simp only [List.map_cons, List.map_nil, List.mem_cons, List.not_mem_nil, or_false] at hb
    subst hb
    simp only [List.mem_map, List.mem_filter, bne_iff_ne, ne_eq] at ha
    obtain ⟨x, ⟨_, hx⟩, rfl⟩ := ha
    exact hx

theorem staticQuery_nodup (b p : Values) (hb : (keys b).Nodup) : (keys (staticQuery b p)).Nodup := by
  unfold staticQuery
  induction p generalizing b with
  | nil => exact hb
  | cons kv ps ih => exact ih _ (keys_set_nodup b hb kv.1 kv.2)

theorem finalQuery_nodup (b p c : Values) (hc : (keys c).Nodup) : (keys (finalQuery b p c)).Nodup := by
  unfold finalQuery
  generalize staticQuery b p = s
  induction s generalizing c with
  | nil => exact hc
  | cons kv ss ih =>
    simp only [List.foldl_cons]
    split
    · exact ih c hc
    · exact ih _ (keys_set_nodup c hc kv.1 kv.2)

theorem keys_add (m : Values) (k v : Bytes) :
    keys (GoQuery.add m k v) = if k ∈ keys m then keys m else keys m ++ [k] := by
  unfold keys
  induction m with
  | nil => simp [GoQuery.add]
  | cons x xs ih =>
    simp only [GoQuery.add]
    by_cases hx : (x.1 == k) = true
    · have : x.1 = k := by simpa using hx
      simp [hx, this]
    · have hne : x.1 ≠ k := by simpa using hx
      have hne' : ¬ k = x.1 := fun e => hne e.symm
      simp only [hx, Bool.false_eq_true, ↓reduceIte, List.map_cons, ih, List.mem_cons, hne', false_or]
      split <;> simp

theorem add_nodup (m : Values) (k v : Bytes) (hd : (keys m).Nodup) : (keys (GoQuery.add m k v)).Nodup := by
  rw [keys_add]
  split
  · exact hd
  · rename_i hk
    rw [List.nodup_append]
    refine ⟨hd, by simp, ?_⟩
    intro a ha b hb
    simp only [List.mem_cons, List.not_mem_nil, or_false] at hb
    subst hb
    intro e; subst e; exact hk ha

/-- `url.ParseQuery` returns a map: one entry per key -/
theorem parseQuery_nodup (q : Bytes) : (keys (GoQuery.parseQuery q).values).Nodup := by
  unfold GoQuery.parseQuery
  have : ∀ (ps : List Bytes) (acc : GoQuery.Parsed), (keys acc.values).Nodup →
      (keys (ps.foldl GoQuery.step acc).values).Nodup := by
    intro ps
    induction ps with
    | nil => intro acc h; exact h
    | cons p r ih =>
      intro acc h
      simp only [List.foldl_cons]
      apply ih
      unfold GoQuery.step
      split
      · exact h
      · exact h
      · exact add_nodup _ _ _ h
  exact this _ _ (by simp [keys])

theorem get_eq (vs : Values) (k : Bytes) : Values.get vs k = GoQuery.Values.get vs k := rfl

/-! ### validity of the built string, byte by byte -/

theorem valid_slashIf (t : Bool) : ∀ c ∈ slashIf t, GoURLParse.validEncodedByte c = true := by
  cases t <;> simp [slashIf]
  decide

theorem mem_joinRooted {l : List Bytes} {c : UInt8} : c ∈ joinRooted l ↔ (l ≠ [] ∧ c = 47) ∨ ∃ s ∈ l, c ∈ s := by
  induction l with
  | nil => simp [joinRooted_nil]
  | cons x r ih =>
    rw [joinRooted_cons]
    simp only [List.mem_cons, List.mem_append, ih, ne_eq, reduceCtorEq, not_false_eq_true, true_and,
      exists_eq_or_imp]
    constructor
    · rintro (h | h | ⟨_, h⟩ | h)
      · left; exact h
      · right; left; exact h
      · left; exact h
      · right; right; exact h
    · rintro (h | h | h)
      · left; exact h
      · right; left; exact h
      · right; right; right; exact h


/-! ### the hypotheses of the end-to-end theorems -/

/-- What the end-to-end theorems assume of base path, pattern and parameters. -/
structure PathOk (params : List (Bytes × Bytes)) (bs : List Bytes) (psegs : List (List Tok)) : Prop where
  /-- parameter names are brace-free -/
  names : NamesOk params
  /-- the base path is clean: its segments are ordinary ones (non-empty, not `.`/`..`, no `/`) … -/
  base_normal : ∀ b ∈ bs, GoPath.Normal b
  /-- … of static text without braces and without `%` -/
  base_static : ∀ b ∈ bs, braceFree b = true ∧ (37 : UInt8) ∉ b
  /-- every segment of the pattern, as written, is an ordinary one: in particular static text and
  placeholder names hold no `/` -/
  seg_normal : ∀ s ∈ psegs, GoPath.Normal (render s)
  /-- well-formed tokens: no brace inside static text or a name -/
  seg_wf : ∀ s ∈ psegs, ∀ t ∈ s, t.wf = true
  /-- static text of the pattern holds no `%` (a path template is not percent-encoded) -/
  seg_static : ∀ s ∈ psegs, ∀ b, Tok.lit b ∈ s → (37 : UInt8) ∉ b
  /-- every placeholder has a value -/
  all_subst : ∀ s ∈ psegs, ∀ n, Tok.ph n ∈ s → (lookupParam params n).isSome = true
  /-- the pattern has at least one segment -/
  nonempty : psegs ≠ []


theorem allSegs_wf {params : List (Bytes × Bytes)} {bs : List Bytes} {psegs : List (List Tok)}
    (h : PathOk params bs psegs) : ∀ s ∈ allSegs bs psegs, ∀ t ∈ s, t.wf = true := by
  intro s hs t ht
  simp only [allSegs, List.mem_append, List.mem_map] at hs
  rcases hs with ⟨b, hb, rfl⟩ | hs
  · simp only [List.mem_cons, List.not_mem_nil, or_false] at ht
    subst ht
    exact (h.base_static b hb).1
  · exact h.seg_wf s hs t ht

theorem allSegs_tokOk {params : List (Bytes × Bytes)} {bs : List Bytes} {psegs : List (List Tok)}
    (h : PathOk params bs psegs) : ∀ s ∈ allSegs bs psegs, ∀ t ∈ s, TokOk params t := by
  intro s hs t ht
  simp only [allSegs, List.mem_append, List.mem_map] at hs
  rcases hs with ⟨b, hb, rfl⟩ | hs
  · simp only [List.mem_cons, List.not_mem_nil, or_false] at ht
    subst ht
    exact (h.base_static b hb).2
  · cases t with
    | lit b => exact h.seg_static s hs b ht
    | ph n => exact h.all_subst s hs n ht


theorem allSegs_ne_nil {params : List (Bytes × Bytes)} {bs : List Bytes} {psegs : List (List Tok)}
    (h : PathOk params bs psegs) : allSegs bs psegs ≠ [] := by
  have := h.nonempty
  simp [allSegs, this]


theorem mem_render_of_lit {s : List Tok} {b : Bytes} (h : Tok.lit b ∈ s) : ∀ c ∈ b, c ∈ render s := by
  induction s with
  | nil => cases h
  | cons t r ih =>
    intro c hc
    rcases List.mem_cons.mp h with rfl | h'
    · simp [render, hc]
    · have := ih h' c hc
      cases t <;> simp [render, this]

theorem encodeTok_noslash (params : List (Bytes × Bytes)) (t : Tok)
    (ht : ∀ b, t = .lit b → GoPath.slash ∉ b) (hp : ∀ n, t = .ph n → (lookupParam params n).isSome = true) :
    GoPath.slash ∉ encodeTok params t := by
  cases t with
  | lit b => exact ht b rfl
  | ph n =>
    have := hp n rfl
    cases hv : lookupParam params n with
    | none => rw [hv] at this; cases this
    | some v =>
      simp only [encodeTok, hv]
      intro hm
      exact (GoURL.pathEscape_no_special v _ hm).1 rfl

theorem allSegs_enc_noslash {params : List (Bytes × Bytes)} {bs : List Bytes} {psegs : List (List Tok)}
    (h : PathOk params bs psegs) : ∀ x ∈ (allSegs bs psegs).map (encodeSeg params), GoPath.slash ∉ x := by
  intro x hx
  obtain ⟨s, hs, rfl⟩ := List.mem_map.mp hx
  simp only [allSegs, List.mem_append, List.mem_map] at hs
  intro hm
  simp only [encodeSeg, List.mem_flatMap] at hm
  obtain ⟨t, ht, hm⟩ := hm
  rcases hs with ⟨b, hb, rfl⟩ | hs
  · simp only [List.mem_cons, List.not_mem_nil, or_false] at ht
    subst ht
    exact (h.base_normal b hb).2.2.2 hm
  · refine encodeTok_noslash params t ?_ ?_ hm
    · intro b hb hmb
      subst hb
      exact (h.seg_normal s hs).2.2.2 (mem_render_of_lit ht _ hmb)
    · intro n hn; subst hn; exact h.all_subst s hs n ht


theorem valid_encodeTok (params : List (Bytes × Bytes)) (t : Tok)
    (hl : ∀ b, t = .lit b → ∀ c ∈ b, GoURLParse.validEncodedByte c = true)
    (hp : ∀ n, t = .ph n → (lookupParam params n).isSome = true) :
    ∀ c ∈ encodeTok params t, GoURLParse.validEncodedByte c = true := by
  cases t with
  | lit b => exact hl b rfl
  | ph n =>
    have := hp n rfl
    cases hv : lookupParam params n with
    | none => rw [hv] at this; cases this
    | some v =>
      simp only [encodeTok, hv]
      intro c hc
      exact GoURLParse.safe_valid c (GoURL.escape_safe false v c hc)



/-! ### base path and pattern as `url.Parse` reads them -/

theorem mem_render {s : List Tok} {c : UInt8} (h : c ∈ render s) :
    (∃ b, Tok.lit b ∈ s ∧ c ∈ b) ∨ (∃ n, Tok.ph n ∈ s ∧ (c = lbrace ∨ c = rbrace ∨ c ∈ n)) := by
  induction s with
  | nil => cases h
  | cons t r ih =>
    cases t with
    | lit b =>
      simp only [render, List.mem_append] at h
      rcases h with h | h
      · exact Or.inl ⟨b, List.mem_cons_self, h⟩
      · rcases ih h with ⟨b', hb', hc⟩ | ⟨n, hn, hc⟩
        · exact Or.inl ⟨b', List.mem_cons_of_mem _ hb', hc⟩
        · exact Or.inr ⟨n, List.mem_cons_of_mem _ hn, hc⟩
    | ph n =>
      simp only [render, List.mem_append] at h
      rcases h with h | h
      · refine Or.inr ⟨n, List.mem_cons_self, ?_⟩
        simp only [placeholder, List.mem_cons, List.mem_append, List.not_mem_nil, or_false] at h
        rcases h with (h | h) | h
        · exact Or.inl h
        · exact Or.inr (Or.inr h)
        · exact Or.inr (Or.inl h)
      · rcases ih h with ⟨b', hb', hc⟩ | ⟨n', hn, hc⟩
        · exact Or.inl ⟨b', List.mem_cons_of_mem _ hb', hc⟩
        · exact Or.inr ⟨n', List.mem_cons_of_mem _ hn, hc⟩

theorem plain_of_valid {c : UInt8} (hv : GoURLParse.validEncodedByte c = true) (h37 : c ≠ 37) :
    GoURLParse.PlainByte c := by
  have := GoURLParse.valid_plain c hv
  exact ⟨h37, this.1, this.2.1, this.2.2.1⟩

/-- a clean rooted base path of valid static text, as a plain rooted string without authority -/
theorem basePath_plain {params : List (Bytes × Bytes)} {bs : List Bytes} {psegs : List (List Tok)}
    (h : PathOk params bs psegs)
    (hst : ∀ b ∈ bs, ∀ c ∈ b, GoURLParse.validEncodedByte c = true) :
    ∃ t, basePathOf bs = GoURLParse.slash :: t ∧ (∀ c ∈ t, GoURLParse.PlainByte c) ∧
      GoURLParse.takesAuthority [] (GoURLParse.slash :: t) = false := by
  by_cases hbs : bs = []
  · subst hbs
    exact ⟨[], rfl, (fun c hc => by cases hc), (by decide)⟩
  · obtain ⟨b, r, rfl⟩ := List.exists_cons_of_ne_nil hbs
    have heq : basePathOf (b :: r) = joinRooted (b :: r) ++ slashIf false := by
      simp [basePathOf, render_true_eq (b :: r) (by simp), slashIf]
    refine ⟨b ++ joinRooted r, by rw [heq, joinRooted_cons]; simp [slashIf, GoURLParse.slash], ?_, ?_⟩
    · intro c hc
      have hc' : c ∈ joinRooted (b :: r) := by rw [joinRooted_cons]; exact List.mem_cons_of_mem _ hc
      rcases mem_joinRooted.mp hc' with ⟨_, rfl⟩ | ⟨s, hs, hcs⟩
      · refine ⟨?_, ?_, ?_, ?_⟩ <;> decide
      · exact plain_of_valid (hst s hs c hcs) (fun e => (h.base_static s hs).2 (e ▸ hcs))
    · have : GoURLParse.slash :: (b ++ joinRooted r) = joinRooted (b :: r) ++ slashIf false := by
        rw [joinRooted_cons]; simp [slashIf, GoURLParse.slash]
      rw [this]
      cases hta : GoURLParse.takesAuthority [] (joinRooted (b :: r) ++ slashIf false) with
      | false => rfl
      | true =>
        obtain ⟨r', hr', _⟩ := (authority_iff (b :: r) (fun e he => (h.base_normal e he).2.2.2) false).mp hta
        simp only [List.cons.injEq] at hr'
        exact absurd hr'.1 (h.base_normal b List.mem_cons_self).1

/-- a pattern of ordinary segments with valid static text and plain names, likewise -/
theorem pattern_plain {params : List (Bytes × Bytes)} {bs : List Bytes} {psegs : List (List Tok)}
    (h : PathOk params bs psegs) (trailing : Bool)
    (hst : ∀ s ∈ psegs, ∀ b, Tok.lit b ∈ s → ∀ c ∈ b, GoURLParse.validEncodedByte c = true)
    (hnm : ∀ s ∈ psegs, ∀ n, Tok.ph n ∈ s → ∀ c ∈ n, GoURLParse.PlainByte c) :
    ∃ t, patternOf psegs trailing = GoURLParse.slash :: t ∧ (∀ c ∈ t, GoURLParse.PlainByte c) ∧
      GoURLParse.takesAuthority [] (GoURLParse.slash :: t) = false := by
  obtain ⟨s, r, rfl⟩ := List.exists_cons_of_ne_nil h.nonempty
  have heq : patternOf (s :: r) trailing = GoURLParse.slash :: (render s ++ joinRooted (r.map render) ++ slashIf trailing) := by
    simp [patternOf, joinRooted_cons, GoURLParse.slash]
  refine ⟨_, heq, ?_, ?_⟩
  · intro c hc
    have hc' : c ∈ patternOf (s :: r) trailing := by rw [heq]; exact List.mem_cons_of_mem _ hc
    simp only [patternOf, List.mem_append] at hc'
    rcases hc' with hc' | hc'
    · rcases mem_joinRooted.mp hc' with ⟨_, rfl⟩ | ⟨x, hx, hcx⟩
      · refine ⟨?_, ?_, ?_, ?_⟩ <;> decide
      · obtain ⟨s', hs', rfl⟩ := List.mem_map.mp hx
        rcases mem_render hcx with ⟨b, hb, hcb⟩ | ⟨n, hn, hcn⟩
        · exact plain_of_valid (hst s' hs' b hb c hcb) (fun e => h.seg_static s' hs' b hb (e ▸ hcb))
        · rcases hcn with rfl | rfl | hcn
          · refine ⟨?_, ?_, ?_, ?_⟩ <;> decide
          · refine ⟨?_, ?_, ?_, ?_⟩ <;> decide
          · exact hnm s' hs' n hn c hcn
    · cases trailing
      · simp [slashIf] at hc'
      · simp only [slashIf, ↓reduceIte, List.mem_cons, List.not_mem_nil, or_false] at hc'
        subst hc'
        refine ⟨?_, ?_, ?_, ?_⟩ <;> decide
  · rw [← heq]
    unfold patternOf
    cases hta : GoURLParse.takesAuthority [] (joinRooted ((s :: r).map render) ++ slashIf trailing) with
    | false => rfl
    | true =>
      have hns : ∀ e ∈ (s :: r).map render, GoPath.slash ∉ e := by
        intro e he
        obtain ⟨s', hs', rfl⟩ := List.mem_map.mp he
        exact (h.seg_normal s' hs').2.2.2
      obtain ⟨r', hr', _⟩ := (authority_iff _ hns trailing).mp hta
      simp only [List.map_cons, List.cons.injEq] at hr'
      exact absurd hr'.1 (h.seg_normal s List.mem_cons_self).1

end RtVerif.C10
