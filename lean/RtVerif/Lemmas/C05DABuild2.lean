import RtVerif.Lemmas.C05DABuild
/-  C05DA, part 5: the contract of `build` (by induction on its fuel) -/
namespace RtVerif.C05DA
open RtVerif Bytes
open RtVerif.C05 (Rec cParam cWild cTerm cSep isReserved notKeySep notPathSep sortRecs advLit advSingle
  advWild leafOf hasSingle weight NulFree)

/-- a child element as its parent leaves it: CHECK set, nothing else -/
def FreshEl (e : Elem) : Prop := e.base = 0 ∧ e.single = false ∧ e.wild = false

/-- the record lists `build` is called with under `Router.Build`: not empty, no NUL, and either all
keys used up (a leaf) or all keys still terminated -/
def Good (srcs : List Rec) : Prop :=
  srcs ≠ [] ∧ NulFree srcs ∧ ((∀ r ∈ srcs, r.key = []) ∨ TermAll srcs)

theorem Good.congr {l l' : List Rec} (h : Good l) (hm : ∀ r, r ∈ l' ↔ r ∈ l) : Good l' := by
  obtain ⟨hne, hn, hk⟩ := h
  refine ⟨?_, fun r hr => hn r ((hm r).mp hr), ?_⟩
  · intro hl
    cases l with
    | nil => exact hne rfl
    | cons x xs =>
      have := (hm x).mpr List.mem_cons_self
      rw [hl] at this; cases this
  · rcases hk with hk | hk
    · exact Or.inl fun r hr => hk r ((hm r).mp hr)
    · exact Or.inr fun r hr => hk r ((hm r).mp hr)

/-- 2^22: the node table must stay below it for a BASE to hold a node index -/
def bound : Nat := 4194304

/-- the contract of one `build` call -/
def BuildOK (rec : List Rec → Nat → St → Except Err St) : Prop :=
  ∀ srcs idx st st', rec srcs idx st = .ok st' → Good srcs → Inv st → Alloc st.bc idx →
    FreshEl (el st.bc idx) → st.node.size + srcs.length ≤ bound →
    Inv st' ∧ Ext (· = idx) st st' ∧
    ReprOn (fun x => x = idx ∨ ¬Alloc st.bc x) st' idx (sortRecs srcs) ∧
    st.node.size < st'.node.size ∧ st'.node.size ≤ st.node.size + srcs.length

/-! ### one sibling -/

def childSrcs (c : UInt8) (g : List Rec) : List Rec :=
  if c == cParam then g.map stripSingle else if c == cWild then g.map stripWild else g.map dropHead

def flagSt (c : UInt8) (idx : Nat) (st : St) : St :=
  if c == cParam then { st with bc := upd st.bc idx (·.setSingle) }
  else if c == cWild then { st with bc := upd st.bc idx (·.setWild) } else st

theorem buildSibs_cons {rec : List Rec → Nat → St → Except Err St} {srcs : List Rec} {base idx : Nat}
    {s : Sib} {rest : List Sib} {st st' : St} (h : buildSibs rec srcs base idx (s :: rest) st = .ok st') :
    ∃ stb, rec (childSrcs s.c (slice srcs s)) (nextIndex base s.c) (flagSt s.c idx st) = .ok stb ∧
      buildSibs rec srcs base idx rest stb = .ok st' := by
  rw [buildSibs] at h
  unfold childSrcs flagSt
  split at h
  · rename_i hc
    simp only [hc, ↓reduceIte]
    split at h
    · cases h
    · split at h
      · cases h
      · rename_i stb hb; exact ⟨stb, hb, h⟩
  · rename_i hc
    simp only [hc, Bool.false_eq_true, ↓reduceIte]
    split at h
    · rename_i hw
      simp only [hw, ↓reduceIte]
      split at h
      · cases h
      · split at h
        · cases h
        · rename_i stb hb; exact ⟨stb, hb, h⟩
    · rename_i hw
      simp only [hw, Bool.false_eq_true, ↓reduceIte]
      split at h
      · cases h
      · rename_i stb hb; exact ⟨stb, hb, h⟩

theorem flagSt_used (c : UInt8) (idx : Nat) (st : St) : (flagSt c idx st).used = st.used := by
  unfold flagSt; split
  · rfl
  · split <;> rfl

theorem flagSt_node (c : UInt8) (idx : Nat) (st : St) : (flagSt c idx st).node = st.node := by
  unfold flagSt; split
  · rfl
  · split <;> rfl

theorem flagSt_size (c : UInt8) (idx : Nat) (st : St) : (flagSt c idx st).bc.size = st.bc.size := by
  unfold flagSt; split
  · exact size_upd _ _ _
  · split
    · exact size_upd _ _ _
    · rfl

theorem flagSt_el_ne (c : UInt8) {idx x : Nat} (st : St) (h : x ≠ idx) :
    el (flagSt c idx st).bc x = el st.bc x := by
  unfold flagSt; split
  · simp only; rw [el_upd]; simp [Ne.symm h]
  · split
    · simp only; rw [el_upd]; simp [Ne.symm h]
    · rfl

theorem flagSt_el_idx (c : UInt8) {idx : Nat} (st : St) (h : idx < st.bc.size) :
    el (flagSt c idx st).bc idx =
      { el st.bc idx with single := (el st.bc idx).single || (c == cParam),
                          wild := (el st.bc idx).wild || (c == cWild) } := by
  unfold flagSt
  by_cases h1 : c = cParam
  · subst h1
    have : (cParam == cWild) = false := by decide
    simp [el_upd, h, Elem.setSingle, this]
  · by_cases h2 : c = cWild
    · subst h2
      simp [h1, el_upd, h, Elem.setWild]
    · have e1 : (c == cParam) = false := by simpa using h1
      have e2 : (c == cWild) = false := by simpa using h2
      simp only [e1, e2, Bool.false_eq_true, ↓reduceIte, Bool.or_false]

theorem flagSt_check (c : UInt8) (idx : Nat) (st : St) (x : Nat) :
    (el (flagSt c idx st).bc x).check = (el st.bc x).check := by
  by_cases hx : x = idx
  · subst hx
    by_cases hlt : x < st.bc.size
    · rw [flagSt_el_idx c st hlt]
    · unfold flagSt; split
      · simp only; rw [el_upd]; simp [hlt]
      · split
        · simp only; rw [el_upd]; simp [hlt]
        · rfl
  · rw [flagSt_el_ne c st hx]

theorem flagSt_alloc (c : UInt8) (idx : Nat) (st : St) (x : Nat) :
    Alloc (flagSt c idx st).bc x ↔ Alloc st.bc x := by
  unfold Alloc; rw [flagSt_check]

theorem flagSt_inv {c : UInt8} {idx : Nat} {st : St} (h : Inv st) (ha : Alloc st.bc idx) :
    Inv (flagSt c idx st) := by
  constructor
  · intro s hs
    rw [flagSt_check] at hs ⊢
    rw [flagSt_used]
    exact h.owner s hs
  · intro s hs
    rw [flagSt_alloc] at hs
    have hne : s ≠ idx := fun he => hs (he ▸ ha)
    rw [flagSt_el_ne c st hne]
    exact h.fresh s hs

theorem flagSt_ext (c : UInt8) (idx : Nat) (st : St) : Ext (· = idx) st (flagSt c idx st) := by
  constructor
  · intro s _ hne; exact flagSt_el_ne c st hne
  · intro s hne; exact absurd (flagSt_check c idx st s) hne
  · intro b hb; rw [flagSt_used]; exact hb
  · rw [flagSt_size]; exact Nat.le_refl _
  · intro i _; rw [flagSt_node]
  · rw [flagSt_node]; exact Nat.le_refl _

/-- the child handed to the recursive call is a list `build` may be called with -/
theorem good_child {c : UInt8} (hc : c ≠ 0) {rs : List Rec} (hs : rs.Pairwise C05.KeyLe)
    (hT : TermAll rs) (hN : NulFree rs) (hex : ∃ r ∈ rs, headOf r = c) :
    Good (childSrcs c (rs.filter (headIs c))) := by
  have hch : childOf c rs = sortRecs (childSrcs c (rs.filter (headIs c))) := child_eq hc hs
  have hne : childOf c rs ≠ [] := by
    intro hnil
    obtain ⟨r, hr, hh⟩ := hex
    exact (childOf_eq_nil_iff hc hs).mp hnil r hr hh
  have hgood : Good (childOf c rs) := by
    refine ⟨hne, ?_, ?_⟩
    · unfold childOf
      split
      · exact C05.nulFree_advSingle hN
      · split
        · intro r hr; rw [advWild_keys rs r hr]; simp
        · exact C05.nulFree_advLit hN
    · by_cases h1 : c = cParam
      · subst h1; rw [childOf_param]; exact Or.inr (termAll_advSingle hT)
      · by_cases h2 : c = cWild
        · subst h2; rw [childOf_wild]; exact Or.inl (advWild_keys rs)
        · rw [childOf_lit rs h1 h2]
          by_cases h3 : c = cTerm
          · subst h3; exact Or.inl (advLit_term_keys hT)
          · exact Or.inr (termAll_advLit hT h3)
  exact hgood.congr (fun r => by rw [hch, C05.mem_sortRecs])

theorem child_eq' {c : UInt8} (hc : c ≠ 0) {rs : List Rec} (h : rs.Pairwise C05.KeyLe) :
    childOf c rs = sortRecs (childSrcs c (rs.filter (headIs c))) := by
  unfold childSrcs; exact child_eq hc h

theorem childSrcs_length (c : UInt8) (g : List Rec) : (childSrcs c g).length = g.length := by
  unfold childSrcs; split
  · simp
  · split <;> simp

/-! ### the groups of the siblings are disjoint -/

theorem length_filter_split (p : Rec → Bool) (l : List Rec) :
    (l.filter p).length + (l.filter fun r => !p r).length = l.length := by
  induction l with
  | nil => rfl
  | cons x xs ih =>
    simp only [List.filter_cons]
    cases p x <;> simp <;> omega

theorem sum_groups_le : ∀ (cs : List UInt8), cs.Nodup → ∀ rs : List Rec,
    (cs.map fun c => (rs.filter (headIs c)).length).sum ≤ rs.length := by
  intro cs
  induction cs with
  | nil => intro _ rs; simp
  | cons c cs ih =>
    intro hnd rs
    rw [List.nodup_cons] at hnd
    simp only [List.map_cons, List.sum_cons]
    have hrest : (cs.map fun c' => (rs.filter (headIs c')).length) =
        (cs.map fun c' => ((rs.filter fun r => !headIs c r).filter (headIs c')).length) := by
      apply List.map_congr_left
      intro c' hc'
      rw [List.filter_filter]
      congr 1
      apply List.filter_congr
      intro r _
      have hne : c' ≠ c := fun h => hnd.1 (h ▸ hc')
      by_cases hh : headIs c' r = true
      · simp only [headIs, beq_iff_eq] at hh
        simp [headIs, hh, hne]
      · simp [hh]
    rw [hrest]
    have := ih hnd.2 (rs.filter fun r => !headIs c r)
    have := length_filter_split (headIs c) rs
    omega

def groupsLen (rs : List Rec) (sibs : List Sib) : Nat :=
  (sibs.map fun s => (rs.filter (headIs s.c)).length).sum

theorem groupsLen_le {rs : List Rec} {sibs : List Sib} (h : (sibs.map (·.c)).Nodup) :
    groupsLen rs sibs ≤ rs.length := by
  have := sum_groups_le (sibs.map (·.c)) h rs
  rw [List.map_map] at this
  exact this

/-! ### the loop over the siblings -/

theorem elem_flags_assoc (e : Elem) (a b a' b' : Bool) :
    ({ ({ e with single := e.single || a, wild := e.wild || b } : Elem) with
        single := (e.single || a) || a', wild := (e.wild || b) || b' } : Elem) =
      { e with single := e.single || (a || a'), wild := e.wild || (b || b') } := by
  simp [Bool.or_assoc]

theorem buildSibs_spec {rec : List Rec → Nat → St → Except Err St} (hrec : BuildOK rec)
    {rs : List Rec} {base idx : Nat} (hs : rs.Pairwise C05.KeyLe) (hT : TermAll rs) (hN : NulFree rs) :
    ∀ (sibs : List Sib) (st st' : St), buildSibs rec rs base idx sibs st = .ok st' →
      (∀ s ∈ sibs, slice rs s = rs.filter (headIs s.c) ∧ s.c ≠ 0 ∧ ∃ r ∈ rs, headOf r = s.c) →
      (sibs.map (·.c)).Nodup → Inv st → Alloc st.bc idx → idx < st.bc.size →
      (∀ s ∈ sibs, nextIndex base s.c ≠ idx ∧ el st.bc (nextIndex base s.c) = ({ check := s.c } : Elem)) →
      st.node.size + groupsLen rs sibs ≤ bound →
      Inv st' ∧ Ext (fun x => x = idx ∨ ∃ s ∈ sibs, x = nextIndex base s.c) st st' ∧
      (∀ s ∈ sibs, ReprOn (fun x => x = nextIndex base s.c ∨ ¬Alloc st.bc x) st'
        (nextIndex base s.c) (childOf s.c rs)) ∧
      el st'.bc idx = { el st.bc idx with
        single := (el st.bc idx).single || sibs.any (·.c == cParam),
        wild := (el st.bc idx).wild || sibs.any (·.c == cWild) } ∧
      (sibs ≠ [] → st.node.size < st'.node.size) ∧ st'.node.size ≤ st.node.size + groupsLen rs sibs := by
  intro sibs
  induction sibs with
  | nil =>
    intro st st' h _ _ hinv _ _ _ _
    simp only [buildSibs, Except.ok.injEq] at h
    subst h
    refine ⟨hinv, Ext.refl _ _, by simp, by simp, by simp, by simp [groupsLen]⟩
  | cons s rest ih =>
    intro st st' h hsl hnd hinv hal hlt hfresh hbound
    obtain ⟨stb, hcall, hrest⟩ := buildSibs_cons h
    obtain ⟨hslice, hc0, hex⟩ := hsl s List.mem_cons_self
    rw [hslice] at hcall
    simp only [List.map_cons, List.nodup_cons] at hnd
    obtain ⟨hn_idx, hn_el⟩ := hfresh s List.mem_cons_self
    have hglen : groupsLen rs (s :: rest) = (rs.filter (headIs s.c)).length + groupsLen rs rest := by
      simp [groupsLen]
    -- the state handed to the recursive call
    have hsta_n : el (flagSt s.c idx st).bc (nextIndex base s.c) = ({ check := s.c } : Elem) := by
      rw [flagSt_el_ne _ _ hn_idx, hn_el]
    have hsta_alloc : Alloc (flagSt s.c idx st).bc (nextIndex base s.c) := by
      right; rw [hsta_n]; exact hc0
    have hsta_fresh : FreshEl (el (flagSt s.c idx st).bc (nextIndex base s.c)) := by
      rw [hsta_n]; exact ⟨rfl, rfl, rfl⟩
    obtain ⟨hinvb, hextb, hreprb, hnlt, hnle⟩ := hrec _ _ _ _ hcall (good_child hc0 hs hT hN hex)
      (flagSt_inv hinv hal) hsta_alloc hsta_fresh
      (by rw [flagSt_node, childSrcs_length]; rw [hglen] at hbound; omega)
    rw [← child_eq' hc0 hs] at hreprb
    rw [flagSt_node] at hnlt hnle
    rw [childSrcs_length] at hnle
    have hexta := flagSt_ext s.c idx st
    -- the remaining siblings are still as their parent left them
    have hrest_slot : ∀ s' ∈ rest, nextIndex base s'.c ≠ nextIndex base s.c := by
      intro s' hs' heq
      exact hnd.1 (by rw [← nextIndex_inj heq]; exact List.mem_map.mpr ⟨s', hs', rfl⟩)
    have hfresh' : ∀ s' ∈ rest, nextIndex base s'.c ≠ idx ∧
        el stb.bc (nextIndex base s'.c) = ({ check := s'.c } : Elem) := by
      intro s' hs'
      obtain ⟨h1, h2⟩ := hfresh s' (List.mem_cons_of_mem _ hs')
      refine ⟨h1, ?_⟩
      have hc0' := (hsl s' (List.mem_cons_of_mem _ hs')).2.1
      have hal' : Alloc (flagSt s.c idx st).bc (nextIndex base s'.c) := by
        right; rw [flagSt_check, h2]; exact hc0'
      rw [hextb.keep _ hal' (hrest_slot s' hs'), flagSt_el_ne _ _ h1, h2]
    have halb : Alloc stb.bc idx := hextb.alloc (hexta.alloc hal)
    have hltb : idx < stb.bc.size := by
      have := hextb.size; rw [flagSt_size] at this; omega
    obtain ⟨hinv', hext', hrepr', hel', hnlt', hnle'⟩ := ih stb st' hrest
      (fun s' hs' => hsl s' (List.mem_cons_of_mem _ hs')) hnd.2 hinvb halb hltb hfresh'
      (by rw [hglen] at hbound; omega)
    refine ⟨hinv', ?_, ?_, ?_, ?_, ?_⟩
    · -- frame
      refine ((hexta.trans hextb).trans hext').weaken ?_
      intro x _ hx
      rcases hx with (hx | hx) | hx
      · exact Or.inl hx
      · exact Or.inr ⟨s, List.mem_cons_self, hx⟩
      · rcases hx with hx | ⟨s', hs', hx⟩
        · exact Or.inl hx
        · exact Or.inr ⟨s', List.mem_cons_of_mem _ hs', hx⟩
    · -- the children
      intro s' hs'
      rcases List.mem_cons.mp hs' with rfl | hs'
      · have hst := hreprb.stable hext' (by
          intro x hx
          rintro (hp | ⟨s'', hs'', hp⟩)
          · rcases hx with hx | hx
            · exact hn_idx (hx ▸ hp)
            · exact hx (hp ▸ hexta.alloc hal)
          · rcases hx with hx | hx
            · exact hrest_slot s'' hs'' (hp ▸ hx)
            · apply hx
              rw [hp]
              right
              rw [flagSt_check, (hfresh s'' (List.mem_cons_of_mem _ hs'')).2]
              exact (hsl s'' (List.mem_cons_of_mem _ hs'')).2.1)
        refine hst.mono ?_
        rintro x (hx | hx)
        · exact Or.inl hx
        · exact Or.inr (fun ha => hx ((flagSt_alloc _ _ _ _).mpr ha))
      · refine (hrepr' s' hs').mono ?_
        rintro x (hx | hx)
        · exact Or.inl hx
        · exact Or.inr (fun ha => hx (hextb.alloc (hexta.alloc ha)))
    · -- the flags of the parent
      rw [hel', hextb.keep idx (hexta.alloc hal) (Ne.symm hn_idx), flagSt_el_idx _ _ hlt]
      simp only [List.any_cons]
      exact elem_flags_assoc _ _ _ _ _
    · intro _; have := hext'.nsize; omega
    · rw [hglen]; omega

end RtVerif.C05DA
