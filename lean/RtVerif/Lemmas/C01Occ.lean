import RtVerif.Model.C01
import RtVerif.Lemmas.C01Bridge
import RtVerif.Lemmas.C01Composite
/-
  C01: where `{name}` occurs in a template.  A template is a sequence of chunks — static text free
  of braces, or a placeholder `{n}` with a brace-free name; `strings.Index(template, "{name}")`
  is the offset of the first placeholder chunk with that name.
-/
namespace RtVerif.C01
open RtVerif Bytes

inductive Chunk where
  | st (b : Bytes)
  | ph (n : Bytes)
deriving Repr, DecidableEq

def Chunk.text : Chunk → Bytes
  | .st b => b
  | .ph n => needleOf n

def Chunk.wf : Chunk → Prop
  | .st b => b.all notBrace = true
  | .ph n => n.all notBrace = true

def flatC : List Chunk → Bytes
  | [] => []
  | c :: r => c.text ++ flatC r

/-- offset of the first placeholder chunk named `name` -/
def firstOcc (name : Bytes) : List Chunk → Option Nat
  | [] => none
  | .st b :: r => (firstOcc name r).map (b.length + ·)
  | .ph n :: r => if n = name then some 0 else (firstOcc name r).map ((needleOf n).length + ·)

theorem indexOf_go_shift (pat s : Bytes) (i : Nat) : indexOf.go pat s i = (indexOf.go pat s 0).map (i + ·) := by
  induction s generalizing i with
  | nil => simp only [indexOf.go]; split <;> simp
  | cons c t ih =>
    simp only [indexOf.go]
    split
    · simp
    · rw [ih (i + 1), ih (0 + 1)]
      cases indexOf.go pat t 0 <;> simp; omega

/-- skipping a prefix in which the pattern cannot start -/
theorem indexOf_skip (pat a rest : Bytes)
    (h : ∀ k, k < a.length → pat.isPrefixOf ((a ++ rest).drop k) = false) :
    indexOf pat (a ++ rest) = (indexOf pat rest).map (a.length + ·) := by
  unfold indexOf
  rw [indexOf_go_skip pat a rest 0 h, indexOf_go_shift]
  simp

theorem needle_not_at_plain (name : Bytes) (a rest : Bytes) (ha : a.all notBrace = true) (k : Nat) (hk : k < a.length) :
    (needleOf name).isPrefixOf ((a ++ rest).drop k) = false := by
  obtain ⟨x, tl, hd, hx⟩ := drop_append_lt a rest k hk
  rw [hd]
  apply needle_not_prefix_of_ne
  have := List.all_eq_true.mp ha x hx
  simp only [notBrace, Bool.and_eq_true, bne_iff_ne, ne_eq] at this
  simpa using this.1

/-- `name}` is a prefix of `n}X` for brace-free `name`, `n` only if they are equal -/
theorem brace_prefix_eq (name n X : Bytes) (hname : name.all notBrace = true) (hn : n.all notBrace = true)
    (h : (name ++ [rbrace]).isPrefixOf (n ++ rbrace :: X) = true) : name = n := by
  induction name generalizing n with
  | nil =>
    cases n with
    | nil => rfl
    | cons c n' =>
      simp only [List.nil_append, List.cons_append, isPrefixOf_cons₂, Bool.and_eq_true, beq_iff_eq] at h
      simp only [List.all_cons, Bool.and_eq_true] at hn
      have := hn.1
      simp only [notBrace, Bool.and_eq_true, bne_iff_ne, ne_eq] at this
      exact absurd h.1.symm this.2
  | cons c k' ih =>
    simp only [List.all_cons, Bool.and_eq_true] at hname
    have hc := hname.1
    simp only [notBrace, Bool.and_eq_true, bne_iff_ne, ne_eq] at hc
    cases n with
    | nil =>
      simp only [List.cons_append, List.nil_append, isPrefixOf_cons₂, Bool.and_eq_true, beq_iff_eq] at h
      exact absurd h.1 hc.2
    | cons d n' =>
      simp only [List.cons_append, isPrefixOf_cons₂, Bool.and_eq_true, beq_iff_eq] at h
      simp only [List.all_cons, Bool.and_eq_true] at hn
      rw [h.1, ih n' hname.2 hn.2 h.2]

theorem needle_prefix_self (n X : Bytes) : (needleOf n).isPrefixOf (needleOf n ++ X) = true :=
  isPrefixOf_append_self _ _

theorem indexOf_prefix (pat X : Bytes) (h : pat.isPrefixOf X = true) : indexOf pat X = some 0 := by
  unfold indexOf
  cases X with
  | nil =>
    have : pat = [] := by
      cases pat with
      | nil => rfl
      | cons a b => simp [List.isPrefixOf] at h
    simp [indexOf.go, this]
  | cons c t => simp [indexOf.go, h]

/-- **`strings.Index(template, "{name}")` is the offset of the first placeholder of that name** -/
theorem indexOf_needle_flatC (name : Bytes) (hname : name.all notBrace = true) (cs : List Chunk)
    (hw : ∀ c ∈ cs, c.wf) : indexOf (needleOf name) (flatC cs) = firstOcc name cs := by
  induction cs with
  | nil => simp [flatC, firstOcc, indexOf, indexOf.go, needleOf]
  | cons c r ih =>
    have hr := ih (fun x hx => hw x (List.mem_cons_of_mem _ hx))
    have hc := hw c List.mem_cons_self
    cases c with
    | st b =>
      simp only [flatC, Chunk.text, firstOcc]
      rw [indexOf_skip _ b _ (fun k hk => needle_not_at_plain name b _ hc k hk), hr]
    | ph n =>
      simp only [flatC, Chunk.text, firstOcc]
      by_cases he : n = name
      · subst he
        simp only [↓reduceIte]
        exact indexOf_prefix _ _ (needle_prefix_self n _)
      · simp only [he, ↓reduceIte]
        rw [indexOf_skip _ (needleOf n) _ ?_, hr]
        intro k hk
        cases k with
        | zero =>
          -- `{name}` against `{n}…` with `name ≠ n`
          cases hp : (needleOf name).isPrefixOf ((needleOf n ++ flatC r).drop 0) with
          | false => rfl
          | true =>
            exfalso
            apply he
            simp only [List.drop_zero, needleOf, List.cons_append, isPrefixOf_cons₂, beq_self_eq_true,
              Bool.true_and, List.append_assoc, List.singleton_append] at hp
            exact (brace_prefix_eq name n _ hname hc hp).symm
        | succ k' =>
          -- inside `n}`: no `{` there
          have hk2 : k' < (n ++ [rbrace]).length := by
            simp only [needleOf, List.cons_append, List.length_cons, List.length_append, List.length_nil] at hk
            simp only [List.length_append, List.length_cons, List.length_nil]; omega
          have e : (needleOf n ++ flatC r).drop (k' + 1) = ((n ++ [rbrace]) ++ flatC r).drop k' := by
            simp [needleOf]
          rw [e]
          obtain ⟨x, tl, hd, hx⟩ := drop_append_lt (n ++ [rbrace]) (flatC r) k' hk2
          rw [hd]
          apply needle_not_prefix_of_ne
          rcases List.mem_append.mp hx with hx' | hx'
          · have := List.all_eq_true.mp hc x hx'
            simp only [notBrace, Bool.and_eq_true, bne_iff_ne, ne_eq] at this
            simpa using this.1
          · simp only [List.mem_cons, List.not_mem_nil, or_false] at hx'
            subst hx'; decide

/-- names of the placeholder chunks -/
def chunkNames : List Chunk → List Bytes
  | [] => []
  | .st _ :: r => chunkNames r
  | .ph n :: r => n :: chunkNames r

theorem firstOcc_none (name : Bytes) (cs : List Chunk) (h : name ∉ chunkNames cs) : firstOcc name cs = none := by
  induction cs with
  | nil => rfl
  | cons c r ih =>
    cases c with
    | st b => simp only [chunkNames] at h; simp [firstOcc, ih h]
    | ph n =>
      simp only [chunkNames, List.mem_cons, not_or] at h
      have : ¬ n = name := fun e => h.1 e.symm
      simp [firstOcc, this, ih h.2]

theorem firstOcc_append (name : Bytes) (as bs : List Chunk) (h : name ∉ chunkNames as) :
    firstOcc name (as ++ bs) = (firstOcc name bs).map ((flatC as).length + ·) := by
  induction as with
  | nil => simp [flatC]
  | cons c r ih =>
    cases c with
    | st b =>
      simp only [chunkNames] at h
      simp only [List.cons_append, firstOcc, ih h, flatC, Chunk.text, List.length_append, Option.map_map]
      congr 1; funext x; simp; omega
    | ph n =>
      simp only [chunkNames, List.mem_cons, not_or] at h
      have : ¬ n = name := fun e => h.1 e.symm
      simp only [List.cons_append, firstOcc, this, ↓reduceIte, ih h.2, flatC, Chunk.text, List.length_append,
        Option.map_map]
      congr 1; funext x; simp; omega

theorem flatC_append (as bs : List Chunk) : flatC (as ++ bs) = flatC as ++ flatC bs := by
  induction as with
  | nil => rfl
  | cons c r ih => simp [flatC, ih]

/-- the placeholder `{name}` that follows the chunks `as`, none of which is named `name`, is where
`strings.Index` finds it -/
theorem indexOf_needle_at (name : Bytes) (as bs : List Chunk) (hname : name.all notBrace = true)
    (hwa : ∀ c ∈ as, c.wf) (hwb : ∀ c ∈ bs, c.wf) (h : name ∉ chunkNames as) :
    indexOf (needleOf name) (flatC as ++ needleOf name ++ flatC bs) = some (flatC as).length := by
  have e : flatC as ++ needleOf name ++ flatC bs = flatC (as ++ (.ph name :: bs)) := by
    rw [flatC_append]; simp [flatC, Chunk.text]
  rw [e, indexOf_needle_flatC name hname]
  · rw [firstOcc_append name as _ h]; simp [firstOcc]
  · intro c hc
    rcases List.mem_append.mp hc with hc | hc
    · exact hwa c hc
    · rcases List.mem_cons.mp hc with rfl | hc
      · exact hname
      · exact hwb c hc

end RtVerif.C01
