import RtVerif.Model.C15
/-
  C15 — helper lemmas: closed forms of the loops on the scripted streams of a case, closed forms of
  the four codec bodies by class of data kind, and the evaluation of the Spec on them.
-/
namespace RtVerif.C15
open RtVerif Bytes _root_.RtVerif.Stream

/-! ## The scripted reader of a case -/

/-- Open: not closed yet. -/
def Open (r : Src) : Prop := r.checksClosed = true ∧ r.closes = 0

theorem Open.inv {r : Src} (h : Open r) : srcSemAny.Inv r := ⟨fun _ => h.2, Or.inl h.1⟩

theorem case_open (c : Case) : Open c.src := ⟨rfl, rfl⟩

theorem minRead_pos : ∀ _ : Nat, 0 < minRead := fun _ => by unfold minRead; omega

theorem fuel_gt (r : Src) : srcSemAny.mu r < fuel r := by
  show r.data.length + r.sched.length < r.data.length + r.sched.length + 1
  omega

/-- `ReadFrom` on an open scripted stream: all its bytes, its terminal (nil for EOF), no hang. -/
theorem readAll_fst (r : Src) (h : Open r) : (readAll r).1 = (r.data, eofNil r.term, false) :=
  (readFromLoop_spec src_rlaws _ minRead_pos (fuel r) 0 r h.inv (fuel_gt r)).1

theorem readAll_snd (r : Src) (h : Open r) :
    (readAll r).2.data = [] ∧ (readAll r).2.closes = r.closes ∧ (readAll r).2.term = r.term := by
  have := readFromLoop_spec src_rlaws _ minRead_pos (fuel r) 0 r h.inv (fuel_gt r)
  exact ⟨this.2.2.1, this.2.2.2.2, this.2.2.2.1⟩

theorem copyAll_post (r : Src) (w : Snk) (h : Open r) : CopyPost srcSemAny r w (copyAll r w) :=
  copyLoop_spec src_rlaws (fuel r) r w h.inv (fuel_gt r)

/-- How a reader's terminal shows in the result of a call that only reads. -/
def endRes (t : Err) : Res :=
  match eofNil t with
  | none => .ok
  | some e => .rd e

theorem eofNil_eof : eofNil .eof = none := rfl
theorem eofNil_ne {t : Err} (h : t ≠ .eof) : eofNil t = some t := by
  unfold eofNil; rw [if_neg h]

theorem endRes_eof : endRes .eof = .ok := rfl
theorem endRes_ne {t : Err} (h : t ≠ .eof) : endRes t = .rd t := by
  unfold endRes; rw [eofNil_ne h]

theorem resRead_readAll (r : Src) (h : Open r) : resRead (readAll r).1 = endRes r.term := by
  rw [readAll_fst r h]
  unfold resRead endRes
  simp only [Bool.false_eq_true, if_false]
  cases eofNil r.term <;> rfl

/-! ## Closed forms: consumers -/

theorem bcBuffered_eq (f : Feat) (flag : Nat) (st : St) (h : Open st.r) :
    bcBuffered f flag st =
    match eofNil st.r.term with
    | some e => (.rd e, { st with r := (readAll st.r).2 })
    | none =>
      ((bcStore f flag st.val st.r.data).1,
       { st with val := (bcStore f flag st.val st.r.data).2, r := (readAll st.r).2 }) := by
  unfold bcBuffered
  rw [readAll_fst st.r h]
  simp only [Bool.false_eq_true, if_false]
  cases eofNil st.r.term <;> rfl

theorem tcInner_eq (f : Feat) (flag : Nat) (st : St) (h : Open st.r) :
    tcInner f flag st =
    match eofNil st.r.term with
    | some e => (.rd e, { st with r := (readAll st.r).2 })
    | none =>
      ((tcStore f flag st.val st.r.data).1,
       { st with val := (tcStore f flag st.val st.r.data).2, r := (readAll st.r).2 }) := by
  unfold tcInner
  rw [readAll_fst st.r h]
  simp only [Bool.false_eq_true, if_false]
  cases eofNil st.r.term <;> rfl

/-- The consumers never close anything themselves and never touch the writer's close counter. -/
theorem bcInner_frame (f : Feat) (flag : Nat) (st : St) (h : Open st.r) :
    (bcInner f flag st).2.r.closes = st.r.closes ∧ (bcInner f flag st).2.w.closes = st.w.closes := by
  unfold bcInner
  split
  · exact ⟨rfl, rfl⟩
  · split
    · exact ⟨rfl, rfl⟩
    · unfold bcDispatch
      split
      · exact ⟨(readAll_snd st.r h).2.1, rfl⟩
      · split
        · have := (copyAll_post st.r st.w h).frame
          exact ⟨this.1, this.2.1⟩
        · rw [bcBuffered_eq f flag st h]
          split
          · exact ⟨(readAll_snd st.r h).2.1, rfl⟩
          · exact ⟨(readAll_snd st.r h).2.1, rfl⟩

theorem tcInner_frame (f : Feat) (flag : Nat) (st : St) (h : Open st.r) :
    (tcInner f flag st).2.r.closes = st.r.closes ∧ (tcInner f flag st).2.w = st.w := by
  rw [tcInner_eq f flag st h]
  split
  · exact ⟨(readAll_snd st.r h).2.1, rfl⟩
  · exact ⟨(readAll_snd st.r h).2.1, rfl⟩

/-- What is left in the reader after a consumer that got past its nil checks ran. -/
theorem bcInner_w (f : Feat) (flag : Nat) (st : St) (hw : f.writer = false ∨ f.readerFrom = true ∨ f.nilPtr = true) :
    (bcInner f flag st).2.w = st.w := by
  unfold bcInner
  split
  · rfl
  · split
    · rfl
    · rename_i hn
      unfold bcDispatch
      split
      · rfl
      · rename_i hrf
        split
        · rename_i hwr
          rcases hw with hw | hw | hw
          · rw [hw] at hwr; cases hwr
          · exact absurd hw hrf
          · exact absurd hw hn
        · unfold bcBuffered
          split
          · rfl
          · split <;> rfl

/-! ## One `Write`, `bytes.Buffer.WriteTo` -/

theorem writeOnce_closes (w : Snk) (p : Bytes) : (writeOnce w p).2.closes = w.closes := rfl

theorem writeOnce_got (w : Snk) (p : Bytes) :
    (writeOnce w p).2.got = w.got ++ p.take (w.accept p.length) := rfl

theorem writeOnce_res (w : Snk) (p : Bytes) :
    ((writeOnce w p).1 = .ok ∧ (w.write p).1.2 = none) ∨
    ((writeOnce w p).1 = .wr w.werr ∧ w.accept p.length < p.length) := by
  unfold writeOnce
  cases h : (w.write p).1.2 with
  | none => left; exact ⟨rfl, rfl⟩
  | some e =>
    right
    have := w.write_err p e h
    exact ⟨by simp only; rw [this.1], this.2⟩

theorem writeOnce_faultFree (w : Snk) (p : Bytes) (h : w.faultFree = true) :
    (writeOnce w p).1 = .ok ∧ (writeOnce w p).2.got = w.got ++ p := by
  have hw := w.write_faultFree_ok p h
  refine ⟨?_, ?_⟩
  · unfold writeOnce; rw [hw.1]
  · rw [writeOnce_got, w.accept_faultFree p.length h, List.take_length]

theorem writeOnce_ok_all (w : Snk) (p : Bytes) (hl : w.lie = false) (h : (writeOnce w p).1 = .ok) :
    (writeOnce w p).2.got = w.got ++ p := by
  rcases writeOnce_res w p with ⟨_, hn⟩ | ⟨he, _⟩
  · rw [writeOnce_got, w.write_ok_full p hl hn, List.take_length]
  · rw [he] at h; cases h

theorem bufWriteTo_closes (content : Bytes) (w : Snk) : (bufWriteTo content w).2.2.closes = w.closes := by
  unfold bufWriteTo
  split
  · rfl
  · split
    · rfl
    · split <;> rfl

/-- `WriteTo`: success, the writer's error, or `io.ErrShortWrite`; the writer holds a prefix;
success means all of it (also with a lying writer: the count is checked). -/
theorem bufWriteTo_spec (content : Bytes) (w : Snk) :
    ((bufWriteTo content w).1 = .ok ∨ (bufWriteTo content w).1 = .wr w.werr ∨
      (bufWriteTo content w).1 = .shortWrite) ∧
    (∃ m, (bufWriteTo content w).2.2.got = w.got ++ content.take m) ∧
    ((bufWriteTo content w).1 = .ok → (bufWriteTo content w).2.2.got = w.got ++ content) ∧
    (w.faultFree = true → (bufWriteTo content w).1 = .ok) := by
  unfold bufWriteTo
  split
  · rename_i he
    rw [List.isEmpty_iff] at he
    subst he
    exact ⟨Or.inl rfl, ⟨0, by simp⟩, fun _ => by simp, fun _ => rfl⟩
  · split
    · rename_i e he
      have := w.write_err content e he
      refine ⟨Or.inr (Or.inl (by simp only; rw [this.1])), ⟨_, rfl⟩, (fun h => by cases h), ?_⟩
      intro hff
      rw [(w.write_faultFree_ok content hff).1] at he; cases he
    · split
      · rename_i hs
        refine ⟨Or.inr (Or.inr rfl), ⟨_, rfl⟩, (fun h => by cases h), ?_⟩
        intro hff
        exact absurd (w.write_faultFree_ok content hff).2 hs
      · rename_i hs
        have hs : w.accept content.length = content.length := Decidable.of_not_not hs
        refine ⟨Or.inl rfl, ⟨_, rfl⟩, ?_, fun _ => rfl⟩
        intro _
        show w.got ++ content.take (w.accept content.length) = _
        rw [hs, List.take_length]


/-! ## Kind tables against the dispatch table -/

/-- A value that gets past the nil checks and is neither a ReaderFrom nor a Writer is buffered. -/
def Generic (f : Feat) : Prop :=
  f.ty ≠ .nil ∧ f.nilPtr = false ∧ f.readerFrom = false ∧ f.writer = false

theorem bcInner_generic (f : Feat) (flag : Nat) (st : St) (hg : Generic f) (ho : Open st.r) :
    bcInner f flag st =
    match eofNil st.r.term with
    | some e => (.rd e, { st with r := (readAll st.r).2 })
    | none =>
      ((bcStore f flag st.val st.r.data).1,
       { st with val := (bcStore f flag st.val st.r.data).2, r := (readAll st.r).2 }) := by
  unfold bcInner
  rw [if_neg hg.1, hg.2.1]
  simp only [Bool.false_eq_true, if_false]
  unfold bcDispatch
  rw [hg.2.2.1, hg.2.2.2]
  simp only [Bool.false_eq_true, if_false]
  exact bcBuffered_eq f flag st ho

theorem bc_replace_kinds (k : K) (h : bcDst k = .replace) :
    Generic (feat k) ∧ ∀ flag pre b, bcStore (feat k) flag pre b = (.ok, b) := by
  cases k <;> simp [bcDst] at h <;> simp [Generic, feat, bcStore]

theorem bc_unmarshal_kinds (k : K) (h : bcDst k = .unmarshal) :
    Generic (feat k) ∧ ∀ flag pre b,
      bcStore (feat k) flag pre b = (if flag = 0 then (.ok, b) else (.mar flag false, pre)) := by
  cases k <;> simp [bcDst] at h <;> simp [Generic, feat, bcStore]

theorem bc_append_kinds (k : K) (h : bcDst k = .append) :
    (feat k).ty ≠ .nil ∧ (feat k).nilPtr = false ∧ (feat k).readerFrom = true := by
  cases k <;> simp [bcDst] at h <;> simp [feat]

theorem bc_sink_kinds (k : K) (h : bcDst k = .sink) :
    (feat k).ty ≠ .nil ∧ (feat k).nilPtr = false ∧ (feat k).readerFrom = false ∧
    (feat k).writer = true := by
  cases k <;> simp [bcDst] at h <;> simp [feat]

theorem bc_unsupported_kinds (k : K) (h : bcDst k = .unsupported) :
    (feat k).ty = .nil ∨ ((feat k).ty ≠ .nil ∧ (feat k).nilPtr = true) ∨
    (Generic (feat k) ∧ ∀ flag pre b, (bcStore (feat k) flag pre b).1.isError = true) := by
  cases k <;> simp [bcDst] at h <;> simp [Generic, feat, bcStore, Res.isError]

theorem tc_replace_kinds (k : K) (h : tcDst k = .replace) :
    ∀ flag pre b, tcStore (feat k) flag pre b = (.ok, b) := by
  cases k <;> simp [tcDst] at h <;> simp [feat, tcStore]

theorem tc_unmarshal_kinds (k : K) (h : tcDst k = .unmarshal) :
    ∀ flag pre b, tcStore (feat k) flag pre b =
      (if b.isEmpty then (.ok, pre) else if flag = 0 then (.ok, b) else (.mar flag true, pre)) := by
  cases k <;> simp [tcDst] at h <;> simp [feat, tcStore]

theorem tc_unsupported_kinds (k : K) (h : tcDst k = .unsupported) :
    ∀ flag pre b, (tcStore (feat k) flag pre b).1.isError = true := by
  cases k <;> simp [tcDst] at h <;> simp [feat, tcStore, Res.isError]


/-! ## The Spec on the closed forms: consumers -/

theorem closeR_fields (c : Case) (st : St) :
    (closeR c st).val = st.val ∧ (closeR c st).w = st.w ∧ (closeR c st).r.data = st.r.data ∧
    (closeR c st).r.closes = st.r.closes + (if (c.close && c.stream == .closer) = true then 1 else 0) := by
  unfold closeR
  split
  · exact ⟨rfl, rfl, rfl, rfl⟩
  · exact ⟨rfl, rfl, rfl, rfl⟩

theorem endRes_live (t : Err) : endRes t ≠ .panic ∧ endRes t ≠ .hang := by
  unfold endRes
  cases eofNil t <;> simp

theorem isError_live {r : Res} (h : r.isError = true) : r ≠ .panic ∧ r ≠ .hang := by
  cases r <;> simp [Res.isError] at h ⊢

theorem specStored_of (c : Case) (o : Obs) (stored : Bytes) (h : o.res = endRes c.rterm)
    (hv : c.rterm = .eof → o.val = stored) : specStored c o stored = true := by
  unfold specStored
  by_cases ht : c.rterm = .eof
  · rw [h, ht, endRes_eof, hv ht]; simp
  · rw [h, endRes_ne ht]; simp [ht]

theorem prefix_of_split {p q d g : Bytes} (hd : d = p ++ q) (hg : g = [] ++ p) : g.isPrefixOf d = true := by
  rw [List.isPrefixOf_iff_prefix, hd, hg, List.nil_append]
  exact List.prefix_append p q

theorem case_snk_faultFree (c : Case) : c.snk.faultFree = c.snkFaultFree := rfl

/-- A copy from the case's reader into the case's writer satisfies the clauses the Spec has for
streams copied into a writer. -/
theorem copy_clauses (c : Case) :
    let x := copyAll c.src c.snk
    resCopy x.1 ≠ .panic ∧ resCopy x.1 ≠ .hang ∧
    ((c.wlie || resCopy x.1 != .ok || (x.2.2.got == c.rdata && c.rterm == .eof)) &&
     (!(c.rterm == .eof && c.snkFaultFree) || resCopy x.1 == .ok) &&
     x.2.2.got.isPrefixOf c.rdata &&
     (c.rterm == .eof || resCopy x.1 == .rd c.rterm || (resCopy x.1).isWriteError)) = true := by
  intro x
  have P := copyAll_post c.src c.snk (case_open c)
  obtain ⟨p, q, hpq, hgot⟩ := P.prefix_
  have hpre : x.2.2.got.isPrefixOf c.rdata = true := prefix_of_split hpq hgot
  have hx1 : x.1 = (x.1.1, false) := Prod.ext rfl P.noHang
  have hok_eof := P.ok_eof
  have hok_all := P.ok_all
  have hrd := P.rd_err
  have hff := P.faultFree
  rw [case_snk_faultFree] at hff
  change x.1.1 = none → c.rterm = .eof at hok_eof
  change c.wlie = false → x.1.1 = none → x.2.2.got = [] ++ c.rdata at hok_all
  change ∀ e, x.1.1 = some (.rd e) → e = c.rterm ∧ e ≠ .eof at hrd
  change c.snkFaultFree = true → x.1.1 = copyEnd c.rterm ∧ x.2.2.got = [] ++ c.rdata at hff
  have hnf : ∀ e, x.1.1 = some e → (∀ e', e ≠ .rd e') → ¬ c.rterm = .eof ∨ c.snkFaultFree = false := by
    intro e hx hne
    by_cases h1 : c.rterm = .eof
    · right
      cases h2 : c.snkFaultFree with
      | false => rfl
      | true =>
        have := (hff h2).1
        rw [hx, h1] at this
        cases this
    · left; exact h1
  rw [hx1, hpre]
  cases hx : x.1.1 with
  | none =>
    have ht := hok_eof hx
    refine ⟨by simp [resCopy], by simp [resCopy], ?_⟩
    cases hl : c.wlie with
    | true => simp [resCopy, ht]
    | false => simp [resCopy, ht, hok_all hl hx]
  | some e =>
    cases e with
    | rd e' =>
      have := hrd e' hx
      refine ⟨by simp [resCopy], by simp [resCopy], ?_⟩
      have hne : c.rterm ≠ .eof := by rw [← this.1]; exact this.2
      simp [resCopy, this.1, hne]
    | wr e' =>
      refine ⟨by simp [resCopy], by simp [resCopy], ?_⟩
      have := hnf _ hx (by intro e' h; cases h)
      simp [resCopy, Res.isWriteError]
      exact this
    | short =>
      refine ⟨by simp [resCopy], by simp [resCopy], ?_⟩
      have := hnf _ hx (by intro e' h; cases h)
      simp [resCopy, Res.isWriteError]
      exact this


def st0 (c : Case) : St := ⟨c.content, c.src, c.snk⟩

/-- ByteStreamConsumer past the reader check: the class clause of the Spec, no panic, no hang. -/
theorem bc_core (c : Case) (rc wc : Nat) :
    specDst c ⟨(bcInner (feat c.kind) c.flag (st0 c)).1, (bcInner (feat c.kind) c.flag (st0 c)).2.val, rc,
      (bcInner (feat c.kind) c.flag (st0 c)).2.r.data.length, wc,
      (bcInner (feat c.kind) c.flag (st0 c)).2.w.got, true⟩ (bcDst c.kind) = true ∧
    (bcInner (feat c.kind) c.flag (st0 c)).1 ≠ .panic ∧ (bcInner (feat c.kind) c.flag (st0 c)).1 ≠ .hang := by
  have ho : Open (st0 c).r := case_open c
  cases hcls : bcDst c.kind with
  | unsupported =>
    have hE : (bcInner (feat c.kind) c.flag (st0 c)).1.isError = true := by
      rcases bc_unsupported_kinds c.kind hcls with h | h | ⟨hg, hs⟩
      · unfold bcInner; rw [if_pos h]; rfl
      · unfold bcInner; rw [if_neg h.1, h.2]; rfl
      · rw [bcInner_generic _ _ _ hg ho]
        cases eofNil (st0 c).r.term with
        | some e => rfl
        | none => exact hs _ _ _
    exact ⟨hE, isError_live hE⟩
  | replace =>
    have ⟨hg, hs⟩ := bc_replace_kinds c.kind hcls
    rw [bcInner_generic _ _ _ hg ho]
    simp only [hs]
    have hl := endRes_live c.rterm
    unfold endRes at hl
    refine ⟨?_, ?_⟩
    · apply specStored_of
      · show _ = endRes c.rterm
        unfold endRes
        show (match eofNil c.rterm with | some e => _ | none => _ : Res × St).1 = _
        cases eofNil c.rterm <;> rfl
      · intro ht
        show (match eofNil c.rterm with | some e => _ | none => _ : Res × St).2.val = _
        rw [ht]; rfl
    · show (match eofNil c.rterm with | some e => _ | none => _ : Res × St).1 ≠ _ ∧
        (match eofNil c.rterm with | some e => _ | none => _ : Res × St).1 ≠ _
      cases eofNil c.rterm <;> simp
  | append =>
    have ⟨h1, h2, h3⟩ := bc_append_kinds c.kind hcls
    have hx : bcInner (feat c.kind) c.flag (st0 c) =
        (endRes c.rterm, { st0 c with val := c.content ++ c.rdata, r := (readAll c.src).2 }) := by
      unfold bcInner
      rw [if_neg h1, h2]
      simp only [Bool.false_eq_true, if_false]
      unfold bcDispatch
      rw [h3]
      simp only [if_true]
      rw [resRead_readAll _ ho, readAll_fst _ ho]
      rfl
    rw [hx]
    exact ⟨specStored_of _ _ _ rfl (fun _ => rfl), endRes_live _⟩
  | sink =>
    have ⟨h1, h2, h3, h4⟩ := bc_sink_kinds c.kind hcls
    have hx : bcInner (feat c.kind) c.flag (st0 c) =
        (resCopy (copyAll c.src c.snk).1,
         { st0 c with r := (copyAll c.src c.snk).2.1, w := (copyAll c.src c.snk).2.2 }) := by
      unfold bcInner
      rw [if_neg h1, h2]
      simp only [Bool.false_eq_true, if_false]
      unfold bcDispatch
      rw [h3, h4]
      simp only [Bool.false_eq_true, if_false, if_true]
      rfl
    rw [hx]
    have := copy_clauses c
    exact ⟨this.2.2, this.1, this.2.1⟩
  | unmarshal =>
    have ⟨hg, hs⟩ := bc_unmarshal_kinds c.kind hcls
    rw [bcInner_generic _ _ _ hg ho]
    simp only [hs]
    show specDst c ⟨(match eofNil c.rterm with | some e => _ | none => _ : Res × St).1,
        (match eofNil c.rterm with | some e => _ | none => _ : Res × St).2.val, rc,
        (match eofNil c.rterm with | some e => _ | none => _ : Res × St).2.r.data.length, wc,
        (match eofNil c.rterm with | some e => _ | none => _ : Res × St).2.w.got, true⟩ .unmarshal = true ∧
      (match eofNil c.rterm with | some e => _ | none => _ : Res × St).1 ≠ .panic ∧
      (match eofNil c.rterm with | some e => _ | none => _ : Res × St).1 ≠ .hang
    by_cases ht : c.rterm = .eof
    · rw [ht, eofNil_eof]
      by_cases hf : c.flag = 0
      · simp [specDst, hf, ht, st0, Case.src]
      · simp [specDst, hf, ht, st0, Case.src]
    · rw [eofNil_ne ht]
      simp [specDst, ht]


theorem tcDst_ne (k : K) : tcDst k ≠ .append ∧ tcDst k ≠ .sink := by
  cases k <;> simp [tcDst]

/-- TextConsumer past the reader check. -/
theorem tc_core (c : Case) (hc : c.codec = .text) (rc wc : Nat) :
    specDst c ⟨(tcInner (feat c.kind) c.flag (st0 c)).1, (tcInner (feat c.kind) c.flag (st0 c)).2.val, rc,
      (tcInner (feat c.kind) c.flag (st0 c)).2.r.data.length, wc,
      (tcInner (feat c.kind) c.flag (st0 c)).2.w.got, true⟩ (tcDst c.kind) = true ∧
    (tcInner (feat c.kind) c.flag (st0 c)).1 ≠ .panic ∧ (tcInner (feat c.kind) c.flag (st0 c)).1 ≠ .hang := by
  have ho : Open (st0 c).r := case_open c
  rw [tcInner_eq _ _ _ ho]
  show specDst c ⟨(match eofNil c.rterm with | some e => _ | none => _ : Res × St).1,
      (match eofNil c.rterm with | some e => _ | none => _ : Res × St).2.val, rc,
      (match eofNil c.rterm with | some e => _ | none => _ : Res × St).2.r.data.length, wc,
      (match eofNil c.rterm with | some e => _ | none => _ : Res × St).2.w.got, true⟩ (tcDst c.kind) = true ∧
    (match eofNil c.rterm with | some e => _ | none => _ : Res × St).1 ≠ .panic ∧
    (match eofNil c.rterm with | some e => _ | none => _ : Res × St).1 ≠ .hang
  cases hcls : tcDst c.kind with
  | unsupported =>
    have hs := tc_unsupported_kinds c.kind hcls
    have hE : (match eofNil c.rterm with
        | some e => (Res.rd e, ({ st0 c with r := (readAll (st0 c).r).2 } : St))
        | none => ((tcStore (feat c.kind) c.flag (st0 c).val (st0 c).r.data).1,
            ({ st0 c with val := (tcStore (feat c.kind) c.flag (st0 c).val (st0 c).r.data).2,
                          r := (readAll (st0 c).r).2 } : St))).1.isError = true := by
      cases eofNil c.rterm with
      | some e => rfl
      | none => exact hs _ _ _
    exact ⟨hE, isError_live hE⟩
  | replace =>
    have hs := tc_replace_kinds c.kind hcls
    simp only [hs]
    by_cases ht : c.rterm = .eof
    · rw [ht, eofNil_eof]; simp [specDst, specStored, ht, st0, Case.src]
    · rw [eofNil_ne ht]; simp [specDst, specStored, ht]
  | unmarshal =>
    have hs := tc_unmarshal_kinds c.kind hcls
    simp only [hs]
    by_cases ht : c.rterm = .eof
    · rw [ht, eofNil_eof]
      by_cases he : c.rdata = []
      · simp [specDst, ht, st0, Case.src, he, hc]
      · have he' : c.rdata.isEmpty = false := by simpa [List.isEmpty_iff] using he
        by_cases hf : c.flag = 0
        · simp [specDst, hf, ht, st0, Case.src, he']
        · simp [specDst, hf, ht, st0, Case.src, he']
    · rw [eofNil_ne ht]
      simp [specDst, ht]
  | append => exact absurd hcls (tcDst_ne c.kind).1
  | sink => exact absurd hcls (tcDst_ne c.kind).2


theorem close_flag (b : Bool) (n : Nat) (h : n = 0) :
    (decide (0 < n + (if b = true then 1 else 0)) == b) = true := by
  subst h; cases b <;> rfl

theorem consume_meets (c : Case) : specConsume c (consume c).obs = true := by
  unfold specConsume consume
  cases hcd : c.codec with
  | discard => simp [specDiscard, Out.obs, Case.src, Case.snk]
  | bytestream =>
    simp only []
    by_cases hs : c.stream = .nil
    · rw [if_pos hs]
      simp [Out.obs, Case.closeAsked, hs, Res.isError, Case.src, Case.snk]
    · rw [if_neg hs]
      have hf := bcInner_frame (feat c.kind) c.flag (st0 c) (case_open c)
      have hcl := closeR_fields c (bcInner (feat c.kind) c.flag (st0 c)).2
      have hcore := bc_core c (closeR c (bcInner (feat c.kind) c.flag (st0 c)).2).r.closes
        (bcInner (feat c.kind) c.flag (st0 c)).2.w.closes
      have hs' : (c.stream == SKind.nil) = false := by simpa using hs
      show ((bcInner (feat c.kind) c.flag (st0 c)).1 != .panic &&
        (bcInner (feat c.kind) c.flag (st0 c)).1 != .hang && true &&
        (decide (0 < (closeR c (bcInner (feat c.kind) c.flag (st0 c)).2).r.closes) == c.closeAsked) &&
        (closeR c (bcInner (feat c.kind) c.flag (st0 c)).2).w.closes == 0 &&
        (if (c.stream == SKind.nil) = true then _ else
          specDst c ⟨(bcInner (feat c.kind) c.flag (st0 c)).1,
            (closeR c (bcInner (feat c.kind) c.flag (st0 c)).2).val,
            (closeR c (bcInner (feat c.kind) c.flag (st0 c)).2).r.closes,
            (closeR c (bcInner (feat c.kind) c.flag (st0 c)).2).r.data.length,
            (closeR c (bcInner (feat c.kind) c.flag (st0 c)).2).w.closes,
            (closeR c (bcInner (feat c.kind) c.flag (st0 c)).2).w.got, true⟩
            (if (Codec.bytestream == Codec.bytestream) = true then bcDst c.kind else tcDst c.kind))) = true
      rw [hs']
      simp only [Bool.false_eq_true, if_false, beq_self_eq_true, if_true]
      rw [hcl.1, hcl.2.2.1, hcl.2.1]
      have hca : c.closeAsked = (c.close && c.stream == .closer) := by
        unfold Case.closeAsked; rw [hcd]; simp
      have h1 : (decide (0 < (closeR c (bcInner (feat c.kind) c.flag (st0 c)).2).r.closes) == c.closeAsked) = true := by
        rw [hcl.2.2.2, hca]
        exact close_flag _ _ (by rw [hf.1]; rfl)
      have h2 : (bcInner (feat c.kind) c.flag (st0 c)).2.w.closes = 0 := by rw [hf.2]; rfl
      rw [h1, hcore.1, h2]
      simp [hcore.2.1, hcore.2.2]
  | text =>
    simp only []
    by_cases hs : c.stream = .nil
    · rw [if_pos hs]
      simp [Out.obs, Case.closeAsked, hs, Res.isError, Case.src, Case.snk]
    · rw [if_neg hs]
      have hf := tcInner_frame (feat c.kind) c.flag (st0 c) (case_open c)
      have hcore := tc_core c hcd (tcInner (feat c.kind) c.flag (st0 c)).2.r.closes
        (tcInner (feat c.kind) c.flag (st0 c)).2.w.closes
      have hs' : (c.stream == SKind.nil) = false := by simpa using hs
      show ((tcInner (feat c.kind) c.flag (st0 c)).1 != .panic &&
        (tcInner (feat c.kind) c.flag (st0 c)).1 != .hang && true &&
        (decide (0 < (tcInner (feat c.kind) c.flag (st0 c)).2.r.closes) == c.closeAsked) &&
        (tcInner (feat c.kind) c.flag (st0 c)).2.w.closes == 0 &&
        (if (c.stream == SKind.nil) = true then _ else
          specDst c ⟨(tcInner (feat c.kind) c.flag (st0 c)).1,
            (tcInner (feat c.kind) c.flag (st0 c)).2.val,
            (tcInner (feat c.kind) c.flag (st0 c)).2.r.closes,
            (tcInner (feat c.kind) c.flag (st0 c)).2.r.data.length,
            (tcInner (feat c.kind) c.flag (st0 c)).2.w.closes,
            (tcInner (feat c.kind) c.flag (st0 c)).2.w.got, true⟩
            (if (Codec.text == Codec.bytestream) = true then bcDst c.kind else tcDst c.kind))) = true
      rw [hs']
      have hne : (Codec.text == Codec.bytestream) = false := rfl
      simp only [Bool.false_eq_true, if_false, hne]
      have hca : c.closeAsked = false := by
        unfold Case.closeAsked; rw [hcd]; rfl
      have h1 : (tcInner (feat c.kind) c.flag (st0 c)).2.r.closes = 0 := by rw [hf.1]; rfl
      have h2 : (tcInner (feat c.kind) c.flag (st0 c)).2.w.closes = 0 := by rw [hf.2]; rfl
      rw [hcore.1, hca]
      simp [hcore.2.1, hcore.2.2, h1, h2]


/-! ## The Spec on the closed forms: producers -/

theorem take_isPrefixOf (p : Bytes) (m : Nat) : ([] ++ p.take m).isPrefixOf p = true := by
  rw [List.nil_append, List.isPrefixOf_iff_prefix]
  exact List.take_prefix m p

theorem specWritten_writeOnce (c : Case) (p v : Bytes) (rc rl wc : Nat) :
    specWritten c ⟨(writeOnce c.snk p).1, v, rc, rl, wc, (writeOnce c.snk p).2.got, true⟩ p = true ∧
    (writeOnce c.snk p).1 ≠ .panic ∧ (writeOnce c.snk p).1 ≠ .hang := by
  have hpre : (writeOnce c.snk p).2.got.isPrefixOf p = true := by
    rw [writeOnce_got]; exact take_isPrefixOf p _
  have hff : c.snkFaultFree = true →
      (writeOnce c.snk p).1 = .ok ∧ (writeOnce c.snk p).2.got = p := by
    intro h
    have := writeOnce_faultFree c.snk p (by rw [case_snk_faultFree]; exact h)
    exact ⟨this.1, by rw [this.2]; rfl⟩
  unfold specWritten
  rcases writeOnce_res c.snk p with ⟨hr, _⟩ | ⟨hr, hlt⟩
  · refine ⟨?_, by rw [hr]; simp, by rw [hr]; simp⟩
    have hall : c.wlie = false → (writeOnce c.snk p).2.got = p := by
      intro hl
      have := writeOnce_ok_all c.snk p hl hr
      rw [this]; rfl
    simp only [hpre, hr]
    cases hl : c.wlie with
    | true =>
      cases hf : c.snkFaultFree with
      | false => simp
      | true => simp [(hff hf).2]
    | false => simp [hall hl]
  · have hnf : c.snkFaultFree = false := by
      cases hf : c.snkFaultFree with
      | false => rfl
      | true =>
        have := c.snk.accept_faultFree p.length (by rw [case_snk_faultFree]; exact hf)
        omega
    refine ⟨?_, by rw [hr]; simp, by rw [hr]; simp⟩
    simp [hpre, hr, hnf, Res.isWriteError]

theorem specWritten_bufWriteTo (c : Case) (v : Bytes) (rc rl wc : Nat) :
    specWritten c ⟨(bufWriteTo c.content c.snk).1, v, rc, rl, wc, (bufWriteTo c.content c.snk).2.2.got, true⟩
      c.content = true ∧
    (bufWriteTo c.content c.snk).1 ≠ .panic ∧ (bufWriteTo c.content c.snk).1 ≠ .hang := by
  obtain ⟨hres, ⟨m, hm⟩, hok, hff⟩ := bufWriteTo_spec c.content c.snk
  have hpre : (bufWriteTo c.content c.snk).2.2.got.isPrefixOf c.content = true := by
    rw [hm]; exact take_isPrefixOf _ _
  have hok' : (bufWriteTo c.content c.snk).1 = .ok → (bufWriteTo c.content c.snk).2.2.got = c.content := by
    intro h; rw [hok h]; rfl
  rw [case_snk_faultFree] at hff
  unfold specWritten
  simp only [hpre]
  rcases hres with hr | hr | hr
  · refine ⟨?_, by rw [hr]; simp, by rw [hr]; simp⟩
    simp [hr, hok' hr]
  · have hnf : c.snkFaultFree = false := by
      cases hf : c.snkFaultFree with
      | false => rfl
      | true => have := hff hf; rw [hr] at this; cases this
    refine ⟨?_, by rw [hr]; simp, by rw [hr]; simp⟩
    simp [hr, hnf, Res.isWriteError]
  · have hnf : c.snkFaultFree = false := by
      cases hf : c.snkFaultFree with
      | false => rfl
      | true => have := hff hf; rw [hr] at this; cases this
    refine ⟨?_, by rw [hr]; simp, by rw [hr]; simp⟩
    simp [hr, hnf, Res.isWriteError]

/-- The producers' dispatch closes nothing. -/
theorem bpDispatch_frame (f : Feat) (flag : Nat) (aux : Option Bytes) (st : St) (h : Open st.r) :
    (bpDispatch f flag aux st).2.r.closes = st.r.closes ∧
    (bpDispatch f flag aux st).2.w.closes = st.w.closes := by
  unfold bpDispatch
  split
  · exact ⟨rfl, bufWriteTo_closes _ _⟩
  · split
    · have := (copyAll_post st.r st.w h).frame
      exact ⟨this.1, this.2.1⟩
    · split
      · split
        · exact ⟨rfl, rfl⟩
        · exact ⟨rfl, rfl⟩
      · split
        · exact ⟨rfl, rfl⟩
        · unfold jsonWrite
          split
          · exact ⟨rfl, rfl⟩
          · exact ⟨rfl, rfl⟩
          · exact ⟨rfl, rfl⟩
          · cases aux <;> exact ⟨rfl, rfl⟩
          · cases aux <;> exact ⟨rfl, rfl⟩
          · exact ⟨rfl, rfl⟩


/-- A data value that gets past the nil checks of a producer. -/
def Live (f : Feat) : Prop := f.ty ≠ .nil ∧ f.nilPtr = false

instance (f : Feat) : Decidable (Live f) := by unfold Live; infer_instance

theorem bp_bytes_kinds (k : K) (h : bpSrc k = .bytes) :
    Live (feat k) ∧
    ((feat k).writerTo = true ∨
     ((feat k).writerTo = false ∧
      ∀ flag aux st, bpDispatch (feat k) flag aux st = setW st (writeOnce st.w st.val))) := by
  cases k <;> simp [bpSrc] at h <;> simp [Live, feat, bpDispatch, Ty.base]

theorem bp_stream_kinds (k : K) (h : bpSrc k = .stream) :
    Live (feat k) ∧ (feat k).writerTo = false ∧ (feat k).reader = true := by
  cases k <;> simp [bpSrc] at h <;> simp [Live, feat]

theorem bp_marshal_kinds (k : K) (h : bpSrc k = .marshal) :
    Live (feat k) ∧ ∀ flag aux st, bpDispatch (feat k) flag aux st =
      (if flag = 0 then setW st (writeOnce st.w st.val) else (.mar flag false, st)) := by
  cases k <;> simp [bpSrc] at h <;> simp [Live, feat, bpDispatch]

theorem bp_errtext_kinds (k : K) (h : bpSrc k = .errText) :
    Live (feat k) ∧ ∀ flag aux st, bpDispatch (feat k) flag aux st =
      setW st (writeOnce st.w (ePre ++ st.val)) := by
  cases k <;> simp [bpSrc] at h <;> simp [Live, feat, bpDispatch]

theorem bp_json_kinds (k : K) (h : bpSrc k = .json) :
    Live (feat k) ∧ ∀ flag aux st, bpDispatch (feat k) flag aux st = jsonWrite aux st := by
  cases k <;> simp [bpSrc] at h <;> simp [Live, feat, bpDispatch, Ty.base]

theorem bp_unsupported_kinds (k : K) (h : bpSrc k = .unsupported) :
    (feat k).ty = .nil ∨ ((feat k).ty ≠ .nil ∧ (feat k).nilPtr = true) ∨
    (Live (feat k) ∧ ∀ flag aux st, bpDispatch (feat k) flag aux st = (.unsup, st)) := by
  cases k <;> simp [bpSrc] at h <;> simp [Live, feat, bpDispatch, Ty.base]

theorem tp_bytes_kinds (k : K) (h : tpSrc k = .bytes) :
    ∀ flag aux st, tpInner (feat k) flag aux st = setW st (writeOnce st.w st.val) := by
  cases k <;> simp [tpSrc] at h <;> simp [feat, tpInner, Ty.base]

theorem tp_marshal_kinds (k : K) (h : tpSrc k = .marshal) :
    ∀ flag aux st, tpInner (feat k) flag aux st =
      (if flag = 0 then setW st (writeOnce st.w st.val) else (.mar flag true, st)) := by
  cases k <;> simp [tpSrc] at h <;> simp [feat, tpInner]

theorem tp_errtext_kinds (k : K) (h : tpSrc k = .errText) :
    ∀ flag aux st, tpInner (feat k) flag aux st = setW st (writeOnce st.w (ePre ++ st.val)) := by
  cases k <;> simp [tpSrc] at h <;> simp [feat, tpInner]

theorem tp_json_kinds (k : K) (h : tpSrc k = .json) :
    ∀ flag aux st, tpInner (feat k) flag aux st = jsonWrite aux st := by
  cases k <;> simp [tpSrc] at h <;> simp [feat, tpInner, Ty.base]

theorem tp_unsupported_kinds (k : K) (h : tpSrc k = .unsupported) :
    ∀ flag aux st, (tpInner (feat k) flag aux st).1.isError = true ∧ (tpInner (feat k) flag aux st).2 = st := by
  cases k <;> simp [tpSrc] at h <;> simp [feat, tpInner, Ty.base, Res.isError]

theorem tpSrc_ne (k : K) : tpSrc k ≠ .stream := by
  cases k <;> simp [tpSrc]

theorem closable_kinds (k : K) (h : k.closable = true) :
    Live (feat k) ∧ ((feat k).reader && (feat k).closer) = true := by
  cases k <;> simp [K.closable] at h <;> simp [Live, feat]


theorem bpInner_live (f : Feat) (flag : Nat) (aux : Option Bytes) (st : St) (h : Live f) :
    (bpInner f flag aux st).1 = (bpDispatch f flag aux st).1 ∧
    (bpInner f flag aux st).2.val = (bpDispatch f flag aux st).2.val ∧
    (bpInner f flag aux st).2.w = (bpDispatch f flag aux st).2.w ∧
    (bpInner f flag aux st).2.r.closes = (bpDispatch f flag aux st).2.r.closes +
      (if (f.reader && f.closer) = true then 1 else 0) := by
  unfold bpInner
  rw [if_neg h.1, h.2, if_neg (by decide)]
  by_cases hrc : (f.reader && f.closer) = true
  · rw [if_pos hrc, if_pos hrc]; exact ⟨rfl, rfl, rfl, rfl⟩
  · rw [if_neg hrc, if_neg hrc]; exact ⟨rfl, rfl, rfl, rfl⟩

theorem bpInner_dead (f : Feat) (flag : Nat) (aux : Option Bytes) (st : St)
    (h : f.ty = .nil ∨ (f.ty ≠ .nil ∧ f.nilPtr = true)) :
    (bpInner f flag aux st).1.isError = true ∧ (bpInner f flag aux st).2 = st := by
  unfold bpInner
  rcases h with h | h
  · rw [if_pos h]; exact ⟨rfl, rfl⟩
  · rw [if_neg h.1, h.2]; exact ⟨rfl, rfl⟩

theorem bpInner_frame (f : Feat) (flag : Nat) (aux : Option Bytes) (st : St) (h : Open st.r) :
    (bpInner f flag aux st).2.w.closes = st.w.closes ∧
    (Live f → (f.reader && f.closer) = true → 0 < (bpInner f flag aux st).2.r.closes) := by
  by_cases hl : Live f
  · have := bpInner_live f flag aux st hl
    have hd := bpDispatch_frame f flag aux st h
    refine ⟨by rw [this.2.2.1, hd.2], ?_⟩
    intro _ hrc
    rw [this.2.2.2, if_pos hrc]; omega
  · have hdead : f.ty = .nil ∨ (f.ty ≠ .nil ∧ f.nilPtr = true) := by
      by_cases h1 : f.ty = .nil
      · exact Or.inl h1
      · right; refine ⟨h1, ?_⟩
        cases h2 : f.nilPtr with
        | true => rfl
        | false => exact absurd ⟨h1, h2⟩ hl
    have := bpInner_dead f flag aux st hdead
    exact ⟨by rw [this.2], fun h => absurd h hl⟩

theorem isEmpty_nil_bytes : ([] : Bytes).isEmpty = true := rfl

/-- ByteStreamProducer past the writer check: the class clause of the Spec, no panic, no hang. -/
theorem bp_core (c : Case) (rc rl wc : Nat) :
    specSrc c ⟨(bpInner (feat c.kind) c.flag c.aux (st0 c)).1,
      (bpInner (feat c.kind) c.flag c.aux (st0 c)).2.val, rc, rl, wc,
      (bpInner (feat c.kind) c.flag c.aux (st0 c)).2.w.got, true⟩ (bpSrc c.kind) = true ∧
    (bpInner (feat c.kind) c.flag c.aux (st0 c)).1 ≠ .panic ∧
    (bpInner (feat c.kind) c.flag c.aux (st0 c)).1 ≠ .hang := by
  cases hcls : bpSrc c.kind with
  | unsupported =>
    have hE : (bpInner (feat c.kind) c.flag c.aux (st0 c)).1.isError = true := by
      rcases bp_unsupported_kinds c.kind hcls with h | h | ⟨hl, hd⟩
      · exact (bpInner_dead _ _ _ _ (Or.inl h)).1
      · exact (bpInner_dead _ _ _ _ (Or.inr h)).1
      · rw [(bpInner_live _ _ _ _ hl).1, hd]; rfl
    exact ⟨hE, isError_live hE⟩
  | bytes =>
    have ⟨hl, hk⟩ := bp_bytes_kinds c.kind hcls
    have hi := bpInner_live (feat c.kind) c.flag c.aux (st0 c) hl
    rw [hi.1, hi.2.1, hi.2.2.1]
    rcases hk with hwt | ⟨_, hd⟩
    · have hd : bpDispatch (feat c.kind) c.flag c.aux (st0 c) =
          ((bufWriteTo c.content c.snk).1,
           { st0 c with val := (bufWriteTo c.content c.snk).2.1, w := (bufWriteTo c.content c.snk).2.2 }) := by
        unfold bpDispatch; rw [if_pos hwt]; rfl
      rw [hd]
      exact specWritten_bufWriteTo c _ rc rl wc
    · rw [hd]
      exact specWritten_writeOnce c c.content _ rc rl wc
  | stream =>
    have ⟨hl, hwt, hrd⟩ := bp_stream_kinds c.kind hcls
    have hi := bpInner_live (feat c.kind) c.flag c.aux (st0 c) hl
    rw [hi.1, hi.2.1, hi.2.2.1]
    have hd : bpDispatch (feat c.kind) c.flag c.aux (st0 c) =
        (resCopy (copyAll c.src c.snk).1,
         { st0 c with r := (copyAll c.src c.snk).2.1, w := (copyAll c.src c.snk).2.2 }) := by
      unfold bpDispatch; rw [hwt, hrd]; rfl
    rw [hd]
    have := copy_clauses c
    exact ⟨this.2.2, this.1, this.2.1⟩
  | marshal =>
    have ⟨hl, hd⟩ := bp_marshal_kinds c.kind hcls
    have hi := bpInner_live (feat c.kind) c.flag c.aux (st0 c) hl
    rw [hi.1, hi.2.1, hi.2.2.1, hd]
    by_cases hf : c.flag = 0
    · rw [if_pos hf]
      have := specWritten_writeOnce c c.content (setW (st0 c) (writeOnce (st0 c).w (st0 c).val)).2.val rc rl wc
      refine ⟨?_, this.2⟩
      show (if (c.flag == 0) = true then _ else _) = true
      rw [hf]; exact this.1
    · rw [if_neg hf]
      refine ⟨?_, by simp, by simp⟩
      show (if (c.flag == 0) = true then _ else _) = true
      have : (c.flag == 0) = false := by simpa using hf
      rw [this]; rfl
  | errText =>
    have ⟨hl, hd⟩ := bp_errtext_kinds c.kind hcls
    have hi := bpInner_live (feat c.kind) c.flag c.aux (st0 c) hl
    rw [hi.1, hi.2.1, hi.2.2.1, hd]
    exact specWritten_writeOnce c (ePre ++ c.content) _ rc rl wc
  | json =>
    have ⟨hl, hd⟩ := bp_json_kinds c.kind hcls
    have hi := bpInner_live (feat c.kind) c.flag c.aux (st0 c) hl
    rw [hi.1, hi.2.1, hi.2.2.1, hd]
    unfold jsonWrite specSrc
    cases haux : c.aux with
    | none => exact ⟨rfl, by simp, by simp⟩
    | some j => exact specWritten_writeOnce c j _ rc rl wc

/-- TextProducer past the writer check. -/
theorem tp_core (c : Case) (rc rl wc : Nat) :
    specSrc c ⟨(tpInner (feat c.kind) c.flag c.aux (st0 c)).1,
      (tpInner (feat c.kind) c.flag c.aux (st0 c)).2.val, rc, rl, wc,
      (tpInner (feat c.kind) c.flag c.aux (st0 c)).2.w.got, true⟩ (tpSrc c.kind) = true ∧
    (tpInner (feat c.kind) c.flag c.aux (st0 c)).1 ≠ .panic ∧
    (tpInner (feat c.kind) c.flag c.aux (st0 c)).1 ≠ .hang := by
  cases hcls : tpSrc c.kind with
  | unsupported =>
    have hE := (tp_unsupported_kinds c.kind hcls c.flag c.aux (st0 c)).1
    exact ⟨hE, isError_live hE⟩
  | bytes =>
    rw [tp_bytes_kinds c.kind hcls]
    exact specWritten_writeOnce c c.content _ rc rl wc
  | stream => exact absurd hcls (tpSrc_ne c.kind)
  | marshal =>
    rw [tp_marshal_kinds c.kind hcls]
    by_cases hf : c.flag = 0
    · rw [if_pos hf]
      have := specWritten_writeOnce c c.content (setW (st0 c) (writeOnce (st0 c).w (st0 c).val)).2.val rc rl wc
      refine ⟨?_, this.2⟩
      show (if (c.flag == 0) = true then _ else _) = true
      rw [hf]; exact this.1
    · rw [if_neg hf]
      refine ⟨?_, by simp, by simp⟩
      show (if (c.flag == 0) = true then _ else _) = true
      have : (c.flag == 0) = false := by simpa using hf
      rw [this]; rfl
  | errText =>
    rw [tp_errtext_kinds c.kind hcls]
    exact specWritten_writeOnce c (ePre ++ c.content) _ rc rl wc
  | json =>
    rw [tp_json_kinds c.kind hcls]
    unfold jsonWrite specSrc
    cases haux : c.aux with
    | none => exact ⟨rfl, by simp, by simp⟩
    | some j => exact specWritten_writeOnce c j _ rc rl wc

/-- The text producer leaves the reader alone and closes nothing. -/
theorem tpInner_frame (f : Feat) (flag : Nat) (aux : Option Bytes) (st : St) :
    (tpInner f flag aux st).2.w.closes = st.w.closes := by
  unfold tpInner
  repeat' split
  all_goals first | rfl | (unfold jsonWrite; cases aux <;> rfl)


theorem closeW_fields (c : Case) (st : St) :
    (closeW c st).val = st.val ∧ (closeW c st).r = st.r ∧ (closeW c st).w.got = st.w.got ∧
    (closeW c st).w.closes = st.w.closes + (if (c.close && c.stream == .closer) = true then 1 else 0) := by
  unfold closeW
  split
  · exact ⟨rfl, rfl, rfl, rfl⟩
  · exact ⟨rfl, rfl, rfl, rfl⟩

theorem produce_meets (c : Case) : specProduce c (produce c).obs = true := by
  unfold specProduce produce
  cases hcd : c.codec with
  | discard => simp [specDiscard, Out.obs, Case.src, Case.snk]
  | bytestream =>
    simp only []
    by_cases hs : c.stream = .nil
    · rw [if_pos hs]
      simp [Out.obs, Case.closeAsked, hs, Res.isError, Case.src, Case.snk]
    · rw [if_neg hs]
      have hf := bpInner_frame (feat c.kind) c.flag c.aux (st0 c) (case_open c)
      have hcl := closeW_fields c (bpInner (feat c.kind) c.flag c.aux (st0 c)).2
      have hcore := bp_core c (bpInner (feat c.kind) c.flag c.aux (st0 c)).2.r.closes
        (bpInner (feat c.kind) c.flag c.aux (st0 c)).2.r.data.length
        (closeW c (bpInner (feat c.kind) c.flag c.aux (st0 c)).2).w.closes
      have hs' : (c.stream == SKind.nil) = false := by simpa using hs
      have hs'' : (c.stream != SKind.nil) = true := by simpa using hs
      show ((bpInner (feat c.kind) c.flag c.aux (st0 c)).1 != .panic &&
        (bpInner (feat c.kind) c.flag c.aux (st0 c)).1 != .hang && true &&
        (decide (0 < (closeW c (bpInner (feat c.kind) c.flag c.aux (st0 c)).2).w.closes) == c.closeAsked) &&
        (!(Codec.bytestream == Codec.bytestream && c.stream != SKind.nil && c.kind.closable) ||
          decide (0 < (closeW c (bpInner (feat c.kind) c.flag c.aux (st0 c)).2).r.closes)) &&
        (if (c.stream == SKind.nil) = true then _ else
          specSrc c ⟨(bpInner (feat c.kind) c.flag c.aux (st0 c)).1,
            (closeW c (bpInner (feat c.kind) c.flag c.aux (st0 c)).2).val,
            (closeW c (bpInner (feat c.kind) c.flag c.aux (st0 c)).2).r.closes,
            (closeW c (bpInner (feat c.kind) c.flag c.aux (st0 c)).2).r.data.length,
            (closeW c (bpInner (feat c.kind) c.flag c.aux (st0 c)).2).w.closes,
            (closeW c (bpInner (feat c.kind) c.flag c.aux (st0 c)).2).w.got, true⟩
            (if (Codec.bytestream == Codec.bytestream) = true then bpSrc c.kind else tpSrc c.kind))) = true
      rw [hs', hs'']
      simp only [Bool.false_eq_true, if_false, beq_self_eq_true, if_true, Bool.true_and]
      rw [hcl.1, hcl.2.1, hcl.2.2.1]
      have hca : c.closeAsked = (c.close && c.stream == .closer) := by
        unfold Case.closeAsked; rw [hcd]; simp
      have h1 : (decide (0 < (closeW c (bpInner (feat c.kind) c.flag c.aux (st0 c)).2).w.closes) == c.closeAsked) = true := by
        rw [hcl.2.2.2, hca]
        exact close_flag _ _ (by rw [hf.1]; rfl)
      have h2 : (!c.kind.closable || decide (0 < (bpInner (feat c.kind) c.flag c.aux (st0 c)).2.r.closes)) = true := by
        cases hk : c.kind.closable with
        | false => rfl
        | true =>
          have := closable_kinds c.kind hk
          simp [hf.2 this.1 this.2]
      rw [h1, h2, hcore.1]
      simp [hcore.2.1, hcore.2.2]
  | text =>
    simp only []
    by_cases hs : c.stream = .nil
    · rw [if_pos hs]
      simp [Out.obs, Case.closeAsked, hs, Res.isError, Case.src, Case.snk, hcd]
    · rw [if_neg hs]
      have hf := tpInner_frame (feat c.kind) c.flag c.aux (st0 c)
      have hcore := tp_core c (tpInner (feat c.kind) c.flag c.aux (st0 c)).2.r.closes
        (tpInner (feat c.kind) c.flag c.aux (st0 c)).2.r.data.length
        (tpInner (feat c.kind) c.flag c.aux (st0 c)).2.w.closes
      have hs' : (c.stream == SKind.nil) = false := by simpa using hs
      show ((tpInner (feat c.kind) c.flag c.aux (st0 c)).1 != .panic &&
        (tpInner (feat c.kind) c.flag c.aux (st0 c)).1 != .hang && true &&
        (decide (0 < (tpInner (feat c.kind) c.flag c.aux (st0 c)).2.w.closes) == c.closeAsked) &&
        (!(Codec.text == Codec.bytestream && c.stream != SKind.nil && c.kind.closable) ||
          decide (0 < (tpInner (feat c.kind) c.flag c.aux (st0 c)).2.r.closes)) &&
        (if (c.stream == SKind.nil) = true then _ else
          specSrc c ⟨(tpInner (feat c.kind) c.flag c.aux (st0 c)).1,
            (tpInner (feat c.kind) c.flag c.aux (st0 c)).2.val,
            (tpInner (feat c.kind) c.flag c.aux (st0 c)).2.r.closes,
            (tpInner (feat c.kind) c.flag c.aux (st0 c)).2.r.data.length,
            (tpInner (feat c.kind) c.flag c.aux (st0 c)).2.w.closes,
            (tpInner (feat c.kind) c.flag c.aux (st0 c)).2.w.got, true⟩
            (if (Codec.text == Codec.bytestream) = true then bpSrc c.kind else tpSrc c.kind))) = true
      rw [hs']
      have hne : (Codec.text == Codec.bytestream) = false := rfl
      simp only [Bool.false_eq_true, if_false, hne, Bool.false_and, Bool.not_false, Bool.true_or, Bool.and_true]
      have hca : c.closeAsked = false := by
        unfold Case.closeAsked; rw [hcd]; rfl
      have h2 : (tpInner (feat c.kind) c.flag c.aux (st0 c)).2.w.closes = 0 := by rw [hf]; rfl
      rw [hcore.1, hca]
      simp [hcore.2.1, hcore.2.2, h2]

theorem model_spec (c : Case) : spec c (model c).obs = true := by
  unfold spec model
  cases c.dir with
  | consume => exact consume_meets c
  | produce => exact produce_meets c


/-! ## Exact close counts -/

theorem closeAsked_eq (c : Case) :
    c.closeAsked = true ↔ c.codec = .bytestream ∧ c.close = true ∧ c.stream = .closer := by
  unfold Case.closeAsked
  simp [Bool.and_eq_true, and_assoc]

theorem consume_closes (c : Case) :
    (consume c).obs.rcloses = (if c.closeAsked = true then 1 else 0) ∧ (consume c).obs.wcloses = 0 := by
  unfold consume
  cases hcd : c.codec with
  | discard =>
    have : c.closeAsked = false := by unfold Case.closeAsked; rw [hcd]; rfl
    rw [this]; exact ⟨rfl, rfl⟩
  | text =>
    have : c.closeAsked = false := by unfold Case.closeAsked; rw [hcd]; rfl
    rw [this]
    simp only []
    by_cases hs : c.stream = .nil
    · rw [if_pos hs]; exact ⟨rfl, rfl⟩
    · rw [if_neg hs]
      have hf := tcInner_frame (feat c.kind) c.flag (st0 c) (case_open c)
      exact ⟨by show (tcInner (feat c.kind) c.flag (st0 c)).2.r.closes = _; rw [hf.1]; rfl,
             by show (tcInner (feat c.kind) c.flag (st0 c)).2.w.closes = _; rw [hf.2]; rfl⟩
  | bytestream =>
    simp only []
    by_cases hs : c.stream = .nil
    · rw [if_pos hs]
      have : c.closeAsked = false := by unfold Case.closeAsked; rw [hs]; simp
      rw [this]; exact ⟨rfl, rfl⟩
    · rw [if_neg hs]
      have hf := bcInner_frame (feat c.kind) c.flag (st0 c) (case_open c)
      have hcl := closeR_fields c (bcInner (feat c.kind) c.flag (st0 c)).2
      have hca : c.closeAsked = (c.close && c.stream == .closer) := by
        unfold Case.closeAsked; rw [hcd]; simp
      refine ⟨?_, ?_⟩
      · show (closeR c (bcInner (feat c.kind) c.flag (st0 c)).2).r.closes = _
        rw [hcl.2.2.2, hf.1, hca]
        show 0 + _ = _
        cases (c.close && c.stream == SKind.closer) <;> rfl
      · show (closeR c (bcInner (feat c.kind) c.flag (st0 c)).2).w.closes = _
        rw [hcl.2.1, hf.2]; rfl

theorem bpInner_rcloses (f : Feat) (flag : Nat) (aux : Option Bytes) (st : St) (h : Open st.r) :
    (bpInner f flag aux st).2.r.closes =
      st.r.closes + (if Live f ∧ (f.reader && f.closer) = true then 1 else 0) := by
  by_cases hl : Live f
  · have := bpInner_live f flag aux st hl
    have hd := bpDispatch_frame f flag aux st h
    rw [this.2.2.2, hd.1]
    by_cases hrc : (f.reader && f.closer) = true
    · rw [if_pos hrc, if_pos ⟨hl, hrc⟩]
    · rw [if_neg hrc, if_neg (fun h => hrc h.2)]
  · have hdead : f.ty = .nil ∨ (f.ty ≠ .nil ∧ f.nilPtr = true) := by
      by_cases h1 : f.ty = .nil
      · exact Or.inl h1
      · right; refine ⟨h1, ?_⟩
        cases h2 : f.nilPtr with
        | true => rfl
        | false => exact absurd ⟨h1, h2⟩ hl
    rw [(bpInner_dead f flag aux st hdead).2, if_neg (fun h => hl h.1)]; rfl

theorem produce_closes (c : Case) :
    (produce c).obs.wcloses = (if c.closeAsked = true then 1 else 0) ∧
    (c.codec = .bytestream → c.stream ≠ .nil → c.kind.closable = true → (produce c).obs.rcloses = 1) := by
  unfold produce
  cases hcd : c.codec with
  | discard =>
    have : c.closeAsked = false := by unfold Case.closeAsked; rw [hcd]; rfl
    rw [this]; exact ⟨rfl, fun h => by cases h⟩
  | text =>
    have : c.closeAsked = false := by unfold Case.closeAsked; rw [hcd]; rfl
    rw [this]
    simp only []
    refine ⟨?_, fun h => by cases h⟩
    by_cases hs : c.stream = .nil
    · rw [if_pos hs]; rfl
    · rw [if_neg hs]
      show (tpInner (feat c.kind) c.flag c.aux (st0 c)).2.w.closes = _
      rw [tpInner_frame]; rfl
  | bytestream =>
    simp only []
    by_cases hs : c.stream = .nil
    · rw [if_pos hs]
      have : c.closeAsked = false := by unfold Case.closeAsked; rw [hs]; simp
      rw [this]; exact ⟨rfl, fun _ h => absurd hs h⟩
    · rw [if_neg hs]
      have hf := bpInner_frame (feat c.kind) c.flag c.aux (st0 c) (case_open c)
      have hcl := closeW_fields c (bpInner (feat c.kind) c.flag c.aux (st0 c)).2
      have hca : c.closeAsked = (c.close && c.stream == .closer) := by
        unfold Case.closeAsked; rw [hcd]; simp
      refine ⟨?_, ?_⟩
      · show (closeW c (bpInner (feat c.kind) c.flag c.aux (st0 c)).2).w.closes = _
        rw [hcl.2.2.2, hf.1, hca]
        show 0 + _ = _
        cases (c.close && c.stream == SKind.closer) <;> rfl
      · intro _ _ hk
        show (closeW c (bpInner (feat c.kind) c.flag c.aux (st0 c)).2).r.closes = _
        rw [hcl.2.1, bpInner_rcloses _ _ _ _ (case_open c)]
        have := closable_kinds c.kind hk
        rw [if_pos ⟨this.1, this.2⟩]; rfl

/-! ## What the Spec says, as propositions -/

theorem specStored_elim {c : Case} {o : Obs} {s : Bytes} (h : specStored c o s = true) :
    (o.res = .ok → o.val = s ∧ c.rterm = .eof) ∧ (c.rterm = .eof → o.res = .ok) ∧
    (c.rterm ≠ .eof → o.res = .rd c.rterm) := by
  unfold specStored at h
  simp only [Bool.and_eq_true, Bool.or_eq_true, bne_iff_ne, beq_iff_eq, ne_eq] at h
  obtain ⟨⟨h1, h2⟩, h3⟩ := h
  refine ⟨?_, ?_, ?_⟩
  · intro hr
    rcases h1 with h1 | h1
    · exact absurd hr h1
    · exact h1
  · intro ht
    rcases h2 with h2 | h2
    · exact absurd ht h2
    · exact h2
  · intro ht
    rcases h3 with h3 | h3
    · exact absurd h3 ht
    · exact h3

theorem specWritten_elim {c : Case} {o : Obs} {p : Bytes} (h : specWritten c o p = true) :
    (c.wlie = false → o.res = .ok → o.wgot = p) ∧
    (c.snkFaultFree = true → o.res = .ok ∧ o.wgot = p) ∧
    o.wgot <+: p ∧ (o.res = .ok ∨ o.res.isWriteError = true) := by
  unfold specWritten at h
  simp only [Bool.and_eq_true, Bool.or_eq_true, bne_iff_ne, beq_iff_eq, ne_eq, Bool.not_eq_true',
    List.isPrefixOf_iff_prefix] at h
  obtain ⟨⟨⟨h1, h2⟩, h3⟩, h4⟩ := h
  refine ⟨?_, ?_, h3, h4⟩
  · intro hl hr
    rcases h1 with (h1 | h1) | h1
    · rw [hl] at h1; cases h1
    · exact absurd hr h1
    · exact h1
  · intro hf
    rcases h2 with h2 | h2
    · rw [hf] at h2; cases h2
    · exact h2


/-- The class tables, by codec. -/
def Case.dstClass (c : Case) : DstClass := if c.codec = .bytestream then bcDst c.kind else tcDst c.kind
def Case.srcClass (c : Case) : SrcClass := if c.codec = .bytestream then bpSrc c.kind else tpSrc c.kind

theorem specConsume_proj {c : Case} {o : Obs} (h : specConsume c o = true) (hc : c.codec ≠ .discard)
    (hs : c.stream ≠ .nil) :
    o.res ≠ .panic ∧ o.res ≠ .hang ∧ o.intact = true ∧ specDst c o c.dstClass = true := by
  unfold specConsume at h
  unfold Case.dstClass
  have hs' : (c.stream == SKind.nil) = false := by simpa using hs
  cases hcd : c.codec with
  | discard => exact absurd hcd hc
  | bytestream =>
    rw [hcd] at h
    simp only [Bool.and_eq_true, bne_iff_ne, ne_eq, hs', Bool.false_eq_true, if_false,
      beq_self_eq_true, if_true] at h
    exact ⟨h.1.1.1.1.1, h.1.1.1.1.2, h.1.1.1.2, h.2⟩
  | text =>
    rw [hcd] at h
    have hne : (Codec.text == Codec.bytestream) = false := rfl
    simp only [Bool.and_eq_true, bne_iff_ne, ne_eq, hs', Bool.false_eq_true, if_false, hne] at h
    exact ⟨h.1.1.1.1.1, h.1.1.1.1.2, h.1.1.1.2, by simpa using h.2⟩

theorem specProduce_proj {c : Case} {o : Obs} (h : specProduce c o = true) (hc : c.codec ≠ .discard)
    (hs : c.stream ≠ .nil) :
    o.res ≠ .panic ∧ o.res ≠ .hang ∧ o.intact = true ∧ specSrc c o c.srcClass = true := by
  unfold specProduce at h
  unfold Case.srcClass
  have hs' : (c.stream == SKind.nil) = false := by simpa using hs
  cases hcd : c.codec with
  | discard => exact absurd hcd hc
  | bytestream =>
    rw [hcd] at h
    simp only [Bool.and_eq_true, bne_iff_ne, ne_eq, hs', Bool.false_eq_true, if_false,
      beq_self_eq_true, if_true] at h
    exact ⟨h.1.1.1.1.1, h.1.1.1.1.2, h.1.1.1.2, h.2⟩
  | text =>
    rw [hcd] at h
    have hne : (Codec.text == Codec.bytestream) = false := rfl
    simp only [Bool.and_eq_true, bne_iff_ne, ne_eq, hs', Bool.false_eq_true, if_false, hne] at h
    exact ⟨h.1.1.1.1.1, h.1.1.1.1.2, h.1.1.1.2, by simpa using h.2⟩

/-! ## The writer's capacity is never exceeded -/

theorem writeOnce_within (w : Snk) (p : Bytes) (l : Nat) (hl : w.limit = some l) (h : w.got.length ≤ l) :
    (writeOnce w p).2.got.length ≤ l := w.write_within p l hl h

theorem bufWriteTo_within (content : Bytes) (w : Snk) (l : Nat) (hl : w.limit = some l)
    (h : w.got.length ≤ l) : (bufWriteTo content w).2.2.got.length ≤ l := by
  unfold bufWriteTo
  split
  · exact h
  · split
    · exact w.write_within content l hl h
    · split
      · exact w.write_within content l hl h
      · exact w.write_within content l hl h

theorem bpDispatch_within (f : Feat) (flag : Nat) (aux : Option Bytes) (st : St) (ho : Open st.r) (l : Nat)
    (hl : st.w.limit = some l) (h : st.w.got.length ≤ l) :
    (bpDispatch f flag aux st).2.w.got.length ≤ l := by
  unfold bpDispatch
  split
  · exact bufWriteTo_within _ _ l hl h
  · split
    · exact (copyAll_post st.r st.w ho).within l hl h
    · split
      · split
        · exact writeOnce_within _ _ l hl h
        · exact h
      · split
        · exact writeOnce_within _ _ l hl h
        · unfold jsonWrite
          split
          · exact h
          · exact writeOnce_within _ _ l hl h
          · exact writeOnce_within _ _ l hl h
          · cases aux with
            | none => exact h
            | some j => exact writeOnce_within _ _ l hl h
          · cases aux with
            | none => exact h
            | some j => exact writeOnce_within _ _ l hl h
          · exact h

theorem tpInner_within (f : Feat) (flag : Nat) (aux : Option Bytes) (st : St) (l : Nat)
    (hl : st.w.limit = some l) (h : st.w.got.length ≤ l) :
    (tpInner f flag aux st).2.w.got.length ≤ l := by
  unfold tpInner
  repeat' split
  all_goals first
    | exact h
    | exact writeOnce_within _ _ l hl h
    | (unfold jsonWrite; cases aux with
        | none => exact h
        | some j => exact writeOnce_within _ _ l hl h)

theorem produce_within (c : Case) (l : Nat) (hl : c.wlimit = some l) :
    (produce c).obs.wgot.length ≤ l := by
  have h0 : (st0 c).w.got.length ≤ l := Nat.zero_le _
  have hl0 : (st0 c).w.limit = some l := hl
  unfold produce
  cases hcd : c.codec with
  | discard => exact Nat.zero_le _
  | text =>
    simp only []
    by_cases hs : c.stream = .nil
    · rw [if_pos hs]; exact Nat.zero_le _
    · rw [if_neg hs]; exact tpInner_within _ _ _ _ l hl0 h0
  | bytestream =>
    simp only []
    by_cases hs : c.stream = .nil
    · rw [if_pos hs]; exact Nat.zero_le _
    · rw [if_neg hs]
      show (closeW c (bpInner (feat c.kind) c.flag c.aux (st0 c)).2).w.got.length ≤ l
      rw [(closeW_fields c _).2.2.1]
      by_cases hlv : Live (feat c.kind)
      · rw [(bpInner_live _ _ _ _ hlv).2.2.1]
        exact bpDispatch_within _ _ _ _ (case_open c) l hl0 h0
      · have hdead : (feat c.kind).ty = .nil ∨ ((feat c.kind).ty ≠ .nil ∧ (feat c.kind).nilPtr = true) := by
          by_cases h1 : (feat c.kind).ty = .nil
          · exact Or.inl h1
          · right; refine ⟨h1, ?_⟩
            cases h2 : (feat c.kind).nilPtr with
            | true => rfl
            | false => exact absurd ⟨h1, h2⟩ hlv
        rw [(bpInner_dead _ _ _ _ hdead).2]; exact h0

end RtVerif.C15
