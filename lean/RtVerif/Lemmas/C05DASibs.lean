import RtVerif.Lemmas.C05DA
/-  C05DA, part 3: `makeSiblings` on a sorted record list yields exactly the groups by first key byte,
    and these groups are the children of the trie node as `C05.look` follows them. -/
namespace RtVerif.C05DA
open RtVerif Bytes
open RtVerif.C05 (Rec cParam cWild cTerm cSep isReserved notKeySep notPathSep sortRecs advLit advSingle
  advWild leafOf hasSingle weight NulFree)

def headOf (r : Rec) : UInt8 := r.key.headD 0
def headIs (c : UInt8) (r : Rec) : Bool := headOf r == c

theorem slice_run (pre0 run rest : List Rec) (c : UInt8) :
    slice (pre0 ++ run ++ rest) ⟨pre0.length, pre0.length + run.length, c⟩ = run := by
  unfold slice
  simp only [List.append_assoc, List.drop_left]
  have : pre0.length + run.length - pre0.length = run.length := by omega
  rw [this, List.take_left]

theorem filter_run {pre0 run rest : List Rec} {c : UInt8} (h0 : ∀ r ∈ pre0, headOf r ≠ c)
    (h1 : ∀ r ∈ run, headOf r = c) (h2 : ∀ r ∈ rest, headOf r ≠ c) :
    (pre0 ++ run ++ rest).filter (headIs c) = run := by
  rw [List.filter_append, List.filter_append]
  have e0 : pre0.filter (headIs c) = [] := by
    rw [List.filter_eq_nil_iff]; intro r hr; simp [headIs, h0 r hr]
  have e1 : run.filter (headIs c) = run := by
    rw [List.filter_eq_self]; intro r hr; simp [headIs, h1 r hr]
  have e2 : rest.filter (headIs c) = [] := by
    rw [List.filter_eq_nil_iff]; intro r hr; simp [headIs, h2 r hr]
  rw [e0, e1, e2]; simp

/-- what `makeSiblings` must deliver for the list `L`, the siblings `sibs` covering its part `tl` -/
structure SibsOK (L tl : List Rec) (pc : UInt8) (sibs : List Sib) : Prop where
  slices : ∀ s ∈ sibs, slice L s = L.filter (headIs s.c)
  lower : ∀ s ∈ sibs, pc ≤ s.c
  chars : ∀ c, c ∈ sibs.map (·.c) ↔ ∃ r ∈ tl, headOf r = c
  sorted : (sibs.map (·.c)).Pairwise (· < ·)

theorem u8_le_iff (a b : UInt8) : a ≤ b ↔ a.toNat ≤ b.toNat := UInt8.le_iff_toNat_le

theorem mkSibsLoop_spec : ∀ (rs pre0 run : List Rec) (done : List Sib) (pc : UInt8) (leaf : Option Rec),
    run ≠ [] → (∀ r ∈ run, headOf r = pc) → (∀ r ∈ pre0, headOf r < pc) →
    (∀ r ∈ rs, r.key ≠ [] ∧ pc ≤ headOf r) → rs.Pairwise (fun a b => headOf a ≤ headOf b) →
    ∃ sibs, mkSibsLoop rs (pre0.length + run.length) pc (⟨pre0.length, 0, pc⟩ :: done) leaf =
        .ok (done.reverse ++ sibs, leaf) ∧ SibsOK (pre0 ++ run ++ rs) (run ++ rs) pc sibs := by
  intro rs
  induction rs with
  | nil =>
    intro pre0 run done pc leaf hne hrun hpre _ _
    refine ⟨[⟨pre0.length, pre0.length + run.length, pc⟩], ?_, ?_⟩
    · simp [mkSibsLoop, closeLast]
    · constructor
      · intro s hs
        simp only [List.mem_singleton] at hs
        subst hs
        rw [slice_run, filter_run (fun r hr => ?_) hrun (by simp)]
        have := hpre r hr
        rw [C05.u8_lt_iff] at this
        intro h; rw [h] at this; omega
      · intro s hs
        simp only [List.mem_singleton] at hs
        subst hs
        rw [u8_le_iff]; exact Nat.le_refl _
      · intro c
        simp only [List.map_cons, List.map_nil, List.mem_singleton, List.append_nil]
        constructor
        · intro h; subst h
          cases run with
          | nil => exact absurd rfl hne
          | cons x xs => exact ⟨x, List.mem_cons_self, hrun x List.mem_cons_self⟩
        · rintro ⟨r, hr, h⟩; rw [← h, hrun r hr]
      · simp
  | cons r rs' ih =>
    intro pre0 run done pc leaf hne hrun hpre hrs hsorted
    have hr := hrs r List.mem_cons_self
    rw [List.pairwise_cons] at hsorted
    cases hk : r.key with
    | nil => exact absurd hk hr.1
    | cons c k =>
      have hc : headOf r = c := by simp [headOf, hk]
      have hpc : pc ≤ c := by rw [← hc]; exact hr.2
      rw [mkSibsLoop, hk]
      simp only
      by_cases hlt : pc < c
      · -- a new sibling starts at r
        rw [if_pos hlt]
        have hrs' : ∀ x ∈ rs', x.key ≠ [] ∧ c ≤ headOf x := by
          intro x hx
          refine ⟨(hrs x (List.mem_cons_of_mem _ hx)).1, ?_⟩
          rw [← hc]; exact hsorted.1 x hx
        have hpre' : ∀ x ∈ pre0 ++ run, headOf x < c := by
          intro x hx
          rcases List.mem_append.mp hx with hx | hx
          · have := hpre x hx
            rw [C05.u8_lt_iff] at this hlt ⊢; omega
          · rw [hrun x hx]; exact hlt
        obtain ⟨sibs', heq, hok⟩ := ih (pre0 ++ run) [r] (⟨pre0.length, pre0.length + run.length, pc⟩ :: done) c leaf
          (by simp) (by intro x hx; simp only [List.mem_singleton] at hx; subst hx; exact hc) hpre' hrs' hsorted.2
        refine ⟨⟨pre0.length, pre0.length + run.length, pc⟩ :: sibs', ?_, ?_⟩
        · simp only [List.length_append, List.length_cons, List.length_nil, Nat.zero_add] at heq
          simp only [closeLast]
          rw [heq]
          simp
        · have hL : pre0 ++ run ++ [r] ++ rs' = pre0 ++ run ++ r :: rs' := by simp
          rw [hL] at hok
          constructor
          · intro s hs
            rcases List.mem_cons.mp hs with rfl | hs
            · simp only
              rw [slice_run, filter_run (fun x hx => ?_) hrun (fun x hx => ?_)]
              · have := hpre x hx
                rw [C05.u8_lt_iff] at this
                intro h; rw [h] at this; omega
              · have : c ≤ headOf x := by
                  rcases List.mem_cons.mp hx with rfl | hx'
                  · rw [hc, u8_le_iff]; exact Nat.le_refl _
                  · exact (hrs' x hx').2
                rw [u8_le_iff] at this
                rw [C05.u8_lt_iff] at hlt
                intro h; rw [h] at this; omega
            · exact hok.slices s hs
          · intro s hs
            rcases List.mem_cons.mp hs with rfl | hs
            · rw [u8_le_iff]; exact Nat.le_refl _
            · have := hok.lower s hs
              rw [u8_le_iff] at this hpc ⊢; omega
          · intro c'
            simp only [List.map_cons, List.mem_cons]
            constructor
            · rintro (h | h)
              · subst h
                cases run with
                | nil => exact absurd rfl hne
                | cons x xs => exact ⟨x, by simp, hrun x List.mem_cons_self⟩
              · obtain ⟨x, hx, hx'⟩ := (hok.chars c').mp h
                exact ⟨x, by simp only [List.singleton_append] at hx; simp [hx], hx'⟩
            · rintro ⟨x, hx, hx'⟩
              rcases List.mem_append.mp hx with hx | hx
              · left; rw [← hx', hrun x hx]
              · right; exact (hok.chars c').mpr ⟨x, by simpa using hx, hx'⟩
          · simp only [List.map_cons, List.pairwise_cons]
            refine ⟨?_, hok.sorted⟩
            intro c' hc'
            obtain ⟨s, hs, rfl⟩ := List.mem_map.mp hc'
            have := hok.lower s hs
            rw [u8_le_iff] at this
            rw [C05.u8_lt_iff] at hlt ⊢; omega
      · -- the same sibling goes on
        have hceq : pc = c := by
          rw [u8_le_iff] at hpc
          rw [C05.u8_lt_iff] at hlt
          exact UInt8.toNat_inj.mp (by omega)
        subst hceq
        rw [if_neg hlt, if_pos (by simp)]
        have hrs' : ∀ x ∈ rs', x.key ≠ [] ∧ pc ≤ headOf x := fun x hx => hrs x (List.mem_cons_of_mem _ hx)
        obtain ⟨sibs, heq, hok⟩ := ih pre0 (run ++ [r]) done pc leaf (by simp)
          (by
            intro x hx
            rcases List.mem_append.mp hx with hx | hx
            · exact hrun x hx
            · simp only [List.mem_singleton] at hx; subst hx; exact hc) hpre hrs' hsorted.2
        refine ⟨sibs, ?_, ?_⟩
        · simp only [List.length_append, List.length_cons, List.length_nil, Nat.zero_add,
            ← Nat.add_assoc] at heq
          exact heq
        · have hL : pre0 ++ (run ++ [r]) ++ rs' = pre0 ++ run ++ r :: rs' := by simp
          have hT : run ++ [r] ++ rs' = run ++ r :: rs' := by simp
          rw [hL, hT] at hok
          exact hok

/-- keys sorted as strings have non-decreasing first bytes -/
theorem heads_sorted {rs : List Rec} (h : rs.Pairwise C05.KeyLe) (hk : ∀ r ∈ rs, r.key ≠ []) :
    rs.Pairwise (fun a b => headOf a ≤ headOf b) := by
  induction rs with
  | nil => simp
  | cons x xs ih =>
    rw [List.pairwise_cons] at h ⊢
    refine ⟨?_, ih h.2 (fun r hr => hk r (List.mem_cons_of_mem _ hr))⟩
    intro y hy
    have hle := h.1 y hy
    unfold C05.KeyLe at hle
    cases hx : x.key with
    | nil => exact absurd hx (hk x List.mem_cons_self)
    | cons a as =>
      cases hyk : y.key with
      | nil => exact absurd hyk (hk y (List.mem_cons_of_mem _ hy))
      | cons b bs =>
        rw [hx, hyk] at hle
        simp only [C05.bytesLe] at hle
        simp only [headOf, hx, hyk, List.headD_cons]
        rw [u8_le_iff]
        by_cases h1 : a < b
        · rw [C05.u8_lt_iff] at h1; omega
        · by_cases h2 : b < a
          · simp [h1, h2] at hle
          · rw [C05.u8_lt_iff] at h1 h2; omega

/-- **`makeSiblings` on an inner node**: sorted records with non-empty keys whose first bytes are
not NUL. -/
theorem mkSiblings_inner {rs : List Rec} (hne : rs ≠ []) (hs : rs.Pairwise C05.KeyLe)
    (hk : ∀ r ∈ rs, r.key ≠ []) (h0 : ∀ r ∈ rs, headOf r ≠ 0) :
    ∃ sibs, mkSiblings rs = .ok (sibs, none) ∧ SibsOK rs rs 0 sibs := by
  have hh := heads_sorted hs hk
  cases rs with
  | nil => exact absurd rfl hne
  | cons r rs' =>
    rw [List.pairwise_cons] at hh
    cases hkr : r.key with
    | nil => exact absurd hkr (hk r List.mem_cons_self)
    | cons c k =>
      have hc : headOf r = c := by simp [headOf, hkr]
      have hc0 : c ≠ 0 := by rw [← hc]; exact h0 r List.mem_cons_self
      have hlt : (0 : UInt8) < c := by
        rw [C05.u8_lt_iff]
        have : c.toNat ≠ (0 : UInt8).toNat := fun h => hc0 (UInt8.toNat_inj.mp h)
        simp at this ⊢; omega
      obtain ⟨sibs, heq, hok⟩ := mkSibsLoop_spec rs' [] [r] [] c none (by simp)
        (by intro x hx; simp only [List.mem_singleton] at hx; subst hx; exact hc) (by simp)
        (by
          intro x hx
          refine ⟨hk x (List.mem_cons_of_mem _ hx), ?_⟩
          rw [← hc]; exact hh.1 x hx) hh.2
      refine ⟨sibs, ?_, ?_⟩
      · unfold mkSiblings
        rw [mkSibsLoop, hkr]
        simp only [hlt, ↓reduceIte, closeLast]
        simpa using heq
      · simp only [List.nil_append, List.singleton_append] at hok
        exact ⟨hok.slices, fun s _ => by rw [u8_le_iff]; simp, hok.chars, hok.sorted⟩

theorem mkSibsLoop_leaf : ∀ (rs : List Rec) (i : Nat) (pc : UInt8) (leaf : Option Rec),
    (∀ r ∈ rs, r.key = []) →
    mkSibsLoop rs i pc [] leaf = .ok ([], (rs.getLast?).or leaf) := by
  intro rs
  induction rs with
  | nil => intro i pc leaf _; simp [mkSibsLoop, closeLast]
  | cons r rs' ih =>
    intro i pc leaf hk
    rw [mkSibsLoop, hk r List.mem_cons_self]
    simp only
    rw [ih _ _ _ (fun x hx => hk x (List.mem_cons_of_mem _ hx))]
    cases rs' with
    | nil => simp
    | cons y ys =>
      rw [List.getLast?_cons_cons]
      cases h : (y :: ys).getLast? with
      | none => simp at h
      | some z => simp

/-- **`makeSiblings` on a leaf**: all keys used up — no siblings, the LAST record is kept. -/
theorem mkSiblings_leaf {rs : List Rec} (hk : ∀ r ∈ rs, r.key = []) :
    mkSiblings rs = .ok ([], leafOf rs) := by
  unfold mkSiblings
  rw [mkSibsLoop_leaf rs 0 0 none hk]
  unfold leafOf
  have : rs.filter (fun r => r.key.isEmpty) = rs := by
    rw [List.filter_eq_self]; intro r hr; simp [hk r hr]
  rw [this]; simp

theorem leafOf_none_of_keys {rs : List Rec} (hk : ∀ r ∈ rs, r.key ≠ []) : leafOf rs = none := by
  unfold leafOf
  have : rs.filter (fun r => r.key.isEmpty) = [] := by
    rw [List.filter_eq_nil_iff]; intro r hr; simp [hk r hr]
  rw [this]; rfl

/-! ### the groups are the children of the trie node -/

theorem advLit_eq_group {c : UInt8} (hc : c ≠ 0) (rs : List Rec) :
    advLit c rs = (rs.filter (headIs c)).map dropHead := by
  induction rs with
  | nil => rfl
  | cons r t ih =>
    unfold advLit at ih ⊢
    rw [List.filterMap_cons, List.filter_cons, ih]
    cases hk : r.key with
    | nil =>
      have : headIs c r = false := by simp [headIs, headOf, hk]; exact fun h => hc h.symm
      simp [this]
    | cons b k =>
      by_cases hb : b = c
      · subst hb
        have : headIs b r = true := by simp [headIs, headOf, hk]
        simp [this, dropHead, hk]
      · have : headIs c r = false := by simp [headIs, headOf, hk, hb]
        simp [this, hb]

theorem stepSingle_eq_group (rs : List Rec) :
    rs.filterMap C05.stepSingle = (rs.filter (headIs cParam)).map stripSingle := by
  induction rs with
  | nil => rfl
  | cons r t ih =>
    rw [List.filterMap_cons, List.filter_cons, ih]
    unfold C05.stepSingle
    cases hk : r.key with
    | nil =>
      have : headIs cParam r = false := by simp [headIs, headOf, hk]; decide
      simp [this]
    | cons b k =>
      by_cases hb : b = cParam
      · subst hb
        have : headIs cParam r = true := by simp [headIs, headOf, hk]
        simp [this, stripSingle, hk]
      · have : headIs cParam r = false := by simp [headIs, headOf, hk, hb]
        simp [this, hb]

theorem advWild_eq_group (rs : List Rec) :
    advWild rs = (rs.filter (headIs cWild)).map stripWild := by
  induction rs with
  | nil => rfl
  | cons r t ih =>
    unfold advWild at ih ⊢
    rw [List.filterMap_cons, List.filter_cons, ih]
    unfold C05.stepWild
    cases hk : r.key with
    | nil =>
      have : headIs cWild r = false := by simp [headIs, headOf, hk]; decide
      simp [this]
    | cons b k =>
      by_cases hb : b = cWild
      · subst hb
        have : headIs cWild r = true := by simp [headIs, headOf, hk]
        simp [this, stripWild, hk]
      · have : headIs cWild r = false := by simp [headIs, headOf, hk, hb]
        simp [this, hb]

theorem sortRecs_of_sorted {l : List Rec} (h : l.Pairwise C05.KeyLe) : sortRecs l = l := by
  induction l with
  | nil => rfl
  | cons x xs ih =>
    rw [List.pairwise_cons] at h
    have : sortRecs (x :: xs) = C05.insertRec x (sortRecs xs) := rfl
    rw [this, ih h.2]
    cases xs with
    | nil => rfl
    | cons y ys =>
      have hle : C05.bytesLe x.key y.key = true := h.1 y List.mem_cons_self
      simp [C05.insertRec, hle]

theorem sorted_of_keys_nil {l : List Rec} (h : ∀ r ∈ l, r.key = []) : l.Pairwise C05.KeyLe := by
  induction l with
  | nil => simp
  | cons x xs ih =>
    rw [List.pairwise_cons]
    refine ⟨?_, ih (fun r hr => h r (List.mem_cons_of_mem _ hr))⟩
    intro y _
    unfold C05.KeyLe
    rw [h x List.mem_cons_self]
    rfl

theorem sorted_group_dropHead {c : UInt8} (hc : c ≠ 0) {rs : List Rec} (h : rs.Pairwise C05.KeyLe) :
    ((rs.filter (headIs c)).map dropHead).Pairwise C05.KeyLe := by
  rw [List.pairwise_map]
  have hf := h.filter (headIs c)
  refine hf.imp_of_mem ?_
  intro a b ha hb hab
  have ha' := (List.mem_filter.mp ha).2
  have hb' := (List.mem_filter.mp hb).2
  unfold C05.KeyLe at hab ⊢
  simp only [headIs, headOf, beq_iff_eq] at ha' hb'
  cases hka : a.key with
  | nil => rw [hka] at ha'; exact absurd ha'.symm hc
  | cons x xs =>
    cases hkb : b.key with
    | nil => rw [hkb] at hb'; exact absurd hb'.symm hc
    | cons y ys =>
      rw [hka] at ha'; rw [hkb] at hb'
      simp only [List.headD_cons] at ha' hb'
      subst ha'; subst hb'
      rw [hka, hkb] at hab
      simp only [C05.bytesLe] at hab
      have : ¬ y < y := by rw [C05.u8_lt_iff]; omega
      simp only [this, ↓reduceIte] at hab
      simp [dropHead, hka, hkb, hab]

/-- the child `build` makes for the sibling `c` (the group, stripped, sorted again at the start of
the child's `build`) is the child `C05.look` follows -/
theorem child_eq {c : UInt8} (hc : c ≠ 0) {rs : List Rec} (h : rs.Pairwise C05.KeyLe) :
    childOf c rs =
      sortRecs (if c == cParam then (rs.filter (headIs c)).map stripSingle
        else if c == cWild then (rs.filter (headIs c)).map stripWild
        else (rs.filter (headIs c)).map dropHead) := by
  unfold childOf
  by_cases h1 : c = cParam
  · subst h1
    simp only [beq_self_eq_true, ↓reduceIte]
    unfold advSingle
    rw [stepSingle_eq_group]
  · by_cases h2 : c = cWild
    · subst h2
      simp only [h1, beq_iff_eq, ↓reduceIte, beq_self_eq_true]
      rw [advWild_eq_group]
      symm
      apply sortRecs_of_sorted
      apply sorted_of_keys_nil
      intro r hr
      obtain ⟨x, _, rfl⟩ := List.mem_map.mp hr
      rfl
    · simp only [beq_iff_eq, h1, ↓reduceIte, h2]
      rw [advLit_eq_group hc]
      symm
      exact sortRecs_of_sorted (sorted_group_dropHead hc h)

theorem childOf_eq_nil_iff {c : UInt8} (hc : c ≠ 0) {rs : List Rec} (h : rs.Pairwise C05.KeyLe) :
    childOf c rs = [] ↔ ∀ r ∈ rs, headOf r ≠ c := by
  rw [child_eq hc h]
  have hlen : ∀ l : List Rec, sortRecs l = [] ↔ l = [] := by
    intro l
    constructor
    · intro hl
      cases l with
      | nil => rfl
      | cons x xs =>
        have : x ∈ sortRecs (x :: xs) := C05.mem_sortRecs.mpr List.mem_cons_self
        rw [hl] at this; cases this
    · intro hl; subst hl; rfl
  rw [hlen]
  have : (rs.filter (headIs c) = []) ↔ ∀ r ∈ rs, headOf r ≠ c := by
    rw [List.filter_eq_nil_iff]
    simp [headIs]
  rw [← this]
  split
  · simp
  · split <;> simp

end RtVerif.C05DA
