import RtVerif.Lemmas.C12
/-
  C12, part F: every step of the main thread preserves the invariant.
-/
namespace RtVerif.C12
open RtVerif
set_option linter.unusedSimpArgs false
set_option linter.unusedVariables false

theorem bodyKind_cases (p : Plan) (s : St) :
    (bodyKind p s = .buf ∧ (s.bodyInBuf = true ∨ (s.pr = .none ∧ p.streamSrc.isSome = false)))
    ∨ (bodyKind p s = .pipe ∧ s.bodyInBuf = false ∧ s.pr ≠ .none)
    ∨ (bodyKind p s = .stream ∧ s.bodyInBuf = false ∧ s.pr = .none ∧ p.streamSrc.isSome = true) := by
  unfold bodyKind
  by_cases h1 : s.bodyInBuf = true
  · simp [h1]
  · by_cases h2 : s.pr = .none
    · by_cases h3 : p.streamSrc.isSome = true <;> simp [h1, h2, h3]
    · simp [h1, h2]

/-- what a Read of the request body can yield -/
theorem readBody_data {p : Plan} {s s' : St} (h : readBody p s = .data s') :
    (bodyKind p s = .buf ∧ 0 < s.bufLeft ∧ s' = { s with bufLeft := 0, consumed := s.consumed + 1 })
    ∨ (bodyKind p s = .stream ∧ 0 < s.streamLeft ∧ s' = { s with streamLeft := s.streamLeft - 1, consumed := s.consumed + 1 })
    ∨ (bodyKind p s = .pipe ∧ ∃ a r, s.g = .run (a :: r) ∧ a ≠ .fail ∧ s' = { s with g := .run r, consumed := s.consumed + 1 })
    ∨ (bodyKind p s = .pipe ∧ s.g = .trailer ∧ s' = { s with g := .done, consumed := s.consumed + 1 }) := by
  unfold readBody at h
  split at h
  · rename_i hk; split at h <;> simp at h; subst h; simp [hk, *]
  · rename_i hk; split at h
    · simp at h; subst h; simp [hk, *]
    · split at h <;> simp at h
  · rename_i hk
    split at h
    · rename_i r hg; simp at h; subst h; right; right; left; exact ⟨hk, .wForm, r, hg, by simp, rfl⟩
    · rename_i r hg; simp at h; subst h; right; right; left; exact ⟨hk, .w, r, hg, by simp, rfl⟩
    · rename_i hg; simp at h; subst h; right; right; right; exact ⟨hk, hg, rfl⟩
    · split at h <;> simp at h
    · simp at h

theorem readBody_eof {p : Plan} {s s' : St} (h : readBody p s = .eof s') :
    s' = s ∧ ((bodyKind p s = .buf ∧ s.bufLeft = 0) ∨ (bodyKind p s = .stream ∧ s.streamLeft = 0)
      ∨ (bodyKind p s = .pipe ∧ s.g = .done ∧ s.pwErr = false)) := by
  unfold readBody at h
  split at h
  · rename_i hk; split at h <;> simp at h; subst h; simp [hk]; omega
  · rename_i hk; split at h
    · simp at h
    · split at h <;> simp at h; subst h; simp [hk]; omega
  · rename_i hk
    split at h <;> try (simp at h; done)
    rename_i hg
    split at h <;> simp at h
    subst h; simp [hk, hg, *]

theorem readBody_err {p : Plan} {s s' : St} (h : readBody p s = .err s') :
    (bodyKind p s = .stream ∧ s' = { s with srcFailed := true })
    ∨ (bodyKind p s = .pipe ∧ s.g = .done ∧ s.pwErr = true ∧ s' = s) := by
  unfold readBody at h
  split at h
  · split at h <;> simp at h
  · rename_i hk; split at h
    · simp at h
    · split at h <;> simp at h; subst h; simp [hk]
  · rename_i hk
    split at h <;> try (simp at h; done)
    rename_i hg
    split at h <;> simp at h
    subst h; simp [hk, hg, *]

theorem readBody_wait {p : Plan} {s : St} (h : readBody p s = .wait) :
    bodyKind p s = .pipe ∧ (s.g = .idle ∨ s.g = .run [] ∨ ∃ r, s.g = .run (.fail :: r)) := by
  unfold readBody at h
  split at h
  · split at h <;> simp at h
  · split at h
    · simp at h
    · split at h <;> simp at h
  · rename_i hk
    refine ⟨hk, ?_⟩
    split at h <;> try (simp at h; done)
    · split at h <;> simp at h
    · rename_i h1 h2 h3 h4
      cases hg : s.g with
      | idle => simp
      | trailer => exact absurd hg h3
      | done => exact absurd hg h4
      | run t =>
        cases t with
        | nil => simp
        | cons a r =>
          cases a with
          | wForm => exact absurd hg (h1 r)
          | w => exact absurd hg (h2 r)
          | fail => right; right; exact ⟨r, rfl⟩

theorem bodyRead_data {p : Plan} {s s' : St} (h : bodyRead p s = .data s') :
    0 < s.bodyLeft ∧ s' = { s with bodyLeft := s.bodyLeft - 1 } := by
  unfold bodyRead at h
  split at h
  · simp at h; subst h; simp [*]
  · split at h <;> try (simp at h; done)
    split at h <;> simp at h

theorem bodyRead_eof {p : Plan} {s s' : St} (h : bodyRead p s = .eof s') :
    s.bodyLeft = 0 ∧ p.rterm = .eof ∧ s' = { s with bodyAtEnd := true, seenEOF := true } := by
  unfold bodyRead at h
  split at h
  · simp at h
  · split at h
    · simp at h; subst h; simp [*]; omega
    · simp at h
    · split at h <;> simp at h

theorem bodyRead_err {p : Plan} {s s' : St} (h : bodyRead p s = .err s') :
    s.bodyLeft = 0 ∧ s' = { s with bodyAtEnd := true } := by
  unfold bodyRead at h
  split at h
  · simp at h
  · split at h
    · simp at h
    · simp at h; subst h; simp; omega
    · split at h <;> simp at h; subst h; simp; omega

theorem bodyRead_wait {p : Plan} {s : St} (h : bodyRead p s = .wait) :
    s.bodyLeft = 0 ∧ p.rterm = .stall ∧ s.ctxDone = false := by
  unfold bodyRead at h
  split at h
  · simp at h
  · split at h
    · simp at h
    · simp at h
    · split at h <;> simp at h
      simp [*]; omega

theorem eof_not_failed {p : Plan} {s s' : St} (hI : Inv p s) (hph : s.ph = .authCopy ∨ s.ph = .sendBody)
    (hrb : readBody p s = .eof s') : s.srcFailed = false := by
  cases hsf : s.srcFailed with
  | false => rfl
  | true =>
    exfalso
    have h10 := hI.srcF hsf
    have h1 := hI.pipe_g
    obtain ⟨-, hc⟩ := readBody_eof hrb
    rcases hph with hph | hph <;> simp [hph] at h10 <;>
      rcases hc with ⟨hk, hb⟩ | ⟨hk, hb⟩ | ⟨hk, hg, hpw⟩ <;>
      rcases bodyKind_cases p s with ⟨hk', hx⟩ | ⟨hk', hx1, hx2⟩ | ⟨hk', hx1, hx2, hx3⟩ <;> simp_all

syntax "inv_close2" term "," term : tactic
macro_rules
  | `(tactic| inv_close2 $p, $s) => `(tactic|
      (constructor <;>
        simp_all [ret, release, closeReqBody, finish, failDo, gFail, readerReturn, fact_release, fact_defer,
          pre, midBody, preSend, G.alive, complete, bodyKind] <;>
        (try omega) <;>
        (try (by_cases hgi : ($s).g = .idle <;> simp_all)) <;>
        (try (cases hbb : ($s).bodyInBuf <;> simp_all)) <;>
        (try (cases hss : ($p).streamSrc.isSome <;> simp_all)) <;>
        (try (cases hsf : ($s).srcFailed <;> simp_all)) <;>
        (try (cases hre : ($p).readerErr <;> simp_all)) <;>
        (try omega)))


set_option maxHeartbeats 8000000 in
theorem inv_mAuth {p : Plan} {s s' : St} (hwf : p.WF) (hI : Inv p s) (hph : s.ph = .auth) (h : s' ∈ mAuth p s) :
    Inv p s' := by
  obtain ⟨h1, h2, h3, h4, h5, h6, h7, h8, h9, h10, h11, h12, h13, h14, h15, h16, h17, h18, h19, h20, h21, h22, h23, h24, h25, h26, h27, h28⟩ := hI
  have hws := @wf_stream p hwf
  simp only [mAuth, afterAuth] at h
  (repeat' split at h) <;> simp only [List.mem_singleton] at h <;> subst h <;> inv_close2 p, s

set_option maxHeartbeats 8000000 in
theorem inv_mAuthCopy {p : Plan} {s s' : St} (hwf : p.WF) (hI : Inv p s) (hph : s.ph = .authCopy)
    (h : s' ∈ mAuthCopy p s) : Inv p s' := by
  have hI0 := hI
  obtain ⟨h1, h2, h3, h4, h5, h6, h7, h8, h9, h10, h11, h12, h13, h14, h15, h16, h17, h18, h19, h20, h21, h22, h23, h24, h25, h26, h27, h28⟩ := hI
  have hws := @wf_stream p hwf
  simp only [mAuthCopy] at h
  cases hrb : readBody p s with
  | wait => simp [hrb] at h
  | data s1 =>
    simp only [hrb, List.mem_singleton] at h; subst h
    rcases readBody_data hrb with ⟨hk, hb, rfl⟩ | ⟨hk, hb, rfl⟩ | ⟨hk, a, r, hg, ha, rfl⟩ | ⟨hk, hg, rfl⟩
    · inv_close2 p, s
    · inv_close2 p, s
    · inv_close2 p, s
    · inv_close2 p, s
  | eof s1 =>
    have hsf0 := eof_not_failed hI0 (by simp [hph]) hrb
    obtain ⟨rfl, hc⟩ := readBody_eof hrb
    simp only [hrb, afterAuth] at h
    rcases hc with ⟨hk, hb⟩ | ⟨hk, hb⟩ | ⟨hk, hg, hpw⟩ <;>
      (split at h <;> simp only [List.mem_singleton] at h <;> subst h <;> inv_close2 p, s1)
  | err s1 =>
    simp only [hrb, List.mem_singleton] at h; subst h
    rcases readBody_err hrb with ⟨hk, rfl⟩ | ⟨hk, hg, hpw, rfl⟩
    · inv_close2 p, s
    · inv_close2 p, s

set_option maxHeartbeats 4000000 in
theorem inv_mUrl {p : Plan} {s s' : St} (hwf : p.WF) (hI : Inv p s) (hph : s.ph = .url) (h : s' ∈ mUrl p s) :
    Inv p s' := by
  obtain ⟨h1, h2, h3, h4, h5, h6, h7, h8, h9, h10, h11, h12, h13, h14, h15, h16, h17, h18, h19, h20, h21, h22, h23, h24, h25, h26, h27, h28⟩ := hI
  have hws := @wf_stream p hwf
  simp only [mUrl] at h
  (repeat' split at h) <;> simp only [List.mem_singleton] at h <;> subst h <;> inv_close2 p, s

set_option maxHeartbeats 8000000 in
theorem inv_mSend {p : Plan} {s s' : St} (hwf : p.WF) (hI : Inv p s) (hph : s.ph = .send) (h : s' ∈ mSend p s) :
    Inv p s' := by
  obtain ⟨h1, h2, h3, h4, h5, h6, h7, h8, h9, h10, h11, h12, h13, h14, h15, h16, h17, h18, h19, h20, h21, h22, h23, h24, h25, h26, h27, h28⟩ := hI
  have hws := @wf_stream p hwf
  simp only [mSend, List.mem_append] at h
  rcases h with h | h
  · split at h
    · simp only [List.mem_singleton] at h; subst h; inv_close2 p, s
    · simp at h
  · split at h <;> simp only [List.mem_singleton] at h <;> subst h <;> inv_close2 p, s

set_option maxHeartbeats 8000000 in
theorem inv_sendRead {p : Plan} {s s' : St} (hwf : p.WF) (hI : Inv p s) (hph : s.ph = .sendBody)
    (h : s' ∈ sendRead p s) : Inv p s' := by
  have hI0 := hI
  obtain ⟨h1, h2, h3, h4, h5, h6, h7, h8, h9, h10, h11, h12, h13, h14, h15, h16, h17, h18, h19, h20, h21, h22, h23, h24, h25, h26, h27, h28⟩ := hI
  have hws := @wf_stream p hwf
  simp only [sendRead] at h
  cases hrb : readBody p s with
  | wait => simp [hrb] at h
  | data s1 =>
    simp only [hrb, List.mem_singleton] at h; subst h
    rcases readBody_data hrb with ⟨hk, hb, rfl⟩ | ⟨hk, hb, rfl⟩ | ⟨hk, a, r, hg, ha, rfl⟩ | ⟨hk, hg, rfl⟩
    · inv_close2 p, s
    · inv_close2 p, s
    · inv_close2 p, s
    · inv_close2 p, s
  | eof s1 =>
    have hsf0 := eof_not_failed hI0 (by simp [hph]) hrb
    obtain ⟨rfl, hc⟩ := readBody_eof hrb
    simp only [hrb, List.mem_singleton] at h; subst h
    rcases hc with ⟨hk, hb⟩ | ⟨hk, hb⟩ | ⟨hk, hg, hpw⟩
    · inv_close2 p, s1
    · inv_close2 p, s1
    · inv_close2 p, s1
  | err s1 =>
    simp only [hrb, List.mem_singleton] at h; subst h
    rcases readBody_err hrb with ⟨hk, rfl⟩ | ⟨hk, hg, hpw, rfl⟩
    · inv_close2 p, s
    · inv_close2 p, s

set_option maxHeartbeats 8000000 in
theorem inv_failDo {p : Plan} {s : St} (o : Origin) (ho : o ≠ .none) (ho2 : o ≠ .writer) (hwf : p.WF) (hI : Inv p s)
    (hph : s.ph = .sendBody) : Inv p (failDo o p s) := by
  obtain ⟨h1, h2, h3, h4, h5, h6, h7, h8, h9, h10, h11, h12, h13, h14, h15, h16, h17, h18, h19, h20, h21, h22, h23, h24, h25, h26, h27, h28⟩ := hI
  have hws := @wf_stream p hwf
  inv_close2 p, s

theorem inv_mSendBody {p : Plan} {s s' : St} (hwf : p.WF) (hI : Inv p s) (hph : s.ph = .sendBody)
    (h : s' ∈ mSendBody p s) : Inv p s' := by
  simp only [mSendBody, List.mem_append] at h
  rcases h with h | h
  · split at h
    · simp only [List.mem_singleton] at h; subst h; exact inv_failDo _ (by simp) (by simp) hwf hI hph
    · simp at h
  · split at h
    · split at h
      · simp only [List.mem_singleton] at h; subst h; exact inv_failDo _ (by simp) (by simp) hwf hI hph
      · exact inv_sendRead hwf hI hph h
    · split at h
      · simp at h
      · exact inv_sendRead hwf hI hph h
    · exact inv_sendRead hwf hI hph h

set_option maxHeartbeats 8000000 in
theorem inv_mAwait {p : Plan} {s s' : St} (hwf : p.WF) (hI : Inv p s) (hph : s.ph = .await) (h : s' ∈ mAwait p s) :
    Inv p s' := by
  obtain ⟨h1, h2, h3, h4, h5, h6, h7, h8, h9, h10, h11, h12, h13, h14, h15, h16, h17, h18, h19, h20, h21, h22, h23, h24, h25, h26, h27, h28⟩ := hI
  have hws := @wf_stream p hwf
  simp only [mAwait, List.mem_append] at h
  rcases h with h | h
  · split at h
    · simp only [List.mem_singleton] at h; subst h; inv_close2 p, s
    · simp at h
  · split at h
    · simp at h
    · simp only [List.mem_singleton] at h; subst h; inv_close2 p, s

set_option maxHeartbeats 8000000 in
theorem inv_mReading {p : Plan} {s s' : St} (hwf : p.WF) (hI : Inv p s) (hph : s.ph = .reading)
    (h : s' ∈ mReading p s) : Inv p s' := by
  obtain ⟨h1, h2, h3, h4, h5, h6, h7, h8, h9, h10, h11, h12, h13, h14, h15, h16, h17, h18, h19, h20, h21, h22, h23, h24, h25, h26, h27, h28⟩ := hI
  have hws := @wf_stream p hwf
  simp only [mReading] at h
  split at h
  · rename_i hrl
    simp only [List.mem_singleton] at h; subst h
    have hrn : p.readN ≠ none := by
      intro hn; have := h20 hph hn; simp [this] at hrl
    inv_close2 p, s
  · cases hrb : bodyRead p s with
    | wait => simp [hrb] at h
    | data s1 =>
      simp only [hrb, List.mem_singleton] at h; subst h
      obtain ⟨hb, rfl⟩ := bodyRead_data hrb
      inv_close2 p, s
    | eof s1 =>
      simp only [hrb, List.mem_singleton] at h; subst h
      obtain ⟨hb, ht, rfl⟩ := bodyRead_eof hrb
      inv_close2 p, s
    | err s1 =>
      simp only [hrb, List.mem_singleton] at h; subst h
      obtain ⟨hb, rfl⟩ := bodyRead_err hrb
      inv_close2 p, s

set_option maxHeartbeats 8000000 in
theorem inv_mDraining {p : Plan} {s s' : St} (hwf : p.WF) (hI : Inv p s) (hph : s.ph = .draining)
    (h : s' ∈ mDraining p s) : Inv p s' := by
  obtain ⟨h1, h2, h3, h4, h5, h6, h7, h8, h9, h10, h11, h12, h13, h14, h15, h16, h17, h18, h19, h20, h21, h22, h23, h24, h25, h26, h27, h28⟩ := hI
  have hws := @wf_stream p hwf
  simp only [mDraining] at h
  split at h
  · cases hrb : bodyRead p s with
    | wait => simp [hrb] at h
    | data s1 =>
      simp only [hrb, List.mem_singleton] at h; subst h
      obtain ⟨hb, rfl⟩ := bodyRead_data hrb
      inv_close2 p, s
    | eof s1 =>
      simp only [hrb, List.mem_singleton] at h; subst h
      obtain ⟨hb, ht, rfl⟩ := bodyRead_eof hrb
      inv_close2 p, s
    | err s1 =>
      simp only [hrb, List.mem_singleton] at h; subst h
      obtain ⟨hb, rfl⟩ := bodyRead_err hrb
      inv_close2 p, s
  · simp only [List.mem_singleton] at h; subst h; inv_close2 p, s

set_option maxHeartbeats 8000000 in
theorem inv_mClosing {p : Plan} {s s' : St} (hwf : p.WF) (hI : Inv p s) (hph : s.ph = .closing)
    (h : s' ∈ mClosing s) : Inv p s' := by
  obtain ⟨h1, h2, h3, h4, h5, h6, h7, h8, h9, h10, h11, h12, h13, h14, h15, h16, h17, h18, h19, h20, h21, h22, h23, h24, h25, h26, h27, h28⟩ := hI
  have hws := @wf_stream p hwf
  simp only [mClosing, List.mem_singleton] at h; subst h
  rcases h28 with h28 | h28 | h28 <;> inv_close2 p, s

end RtVerif.C12
