import RtVerif.Model.C05
/-  Helper lemmas for C05 (property theorems are in Props/C05.lean). -/
namespace RtVerif.C05
open RtVerif Bytes

/-! ### the reserved characters are pairwise distinct (re-checked against the regenerated facts) -/

theorem chars_distinct :
    cParam ≠ cWild ∧ cParam ≠ cTerm ∧ cParam ≠ cSep ∧ cWild ≠ cTerm ∧ cWild ≠ cSep ∧ cTerm ≠ cSep ∧
    cParam ≠ 0 ∧ cWild ≠ 0 ∧ cTerm ≠ 0 ∧ cSep ≠ 0 := by decide

theorem cParam_ne_cTerm : (cParam == cTerm) = false := by decide
theorem cWild_ne_cTerm : (cWild == cTerm) = false := by decide
theorem cWild_ne_cParam : (cWild == cParam) = false := by decide
theorem cTerm_ne_cParam : (cTerm == cParam) = false := by decide
theorem cTerm_ne_cWild : (cTerm == cWild) = false := by decide

/-! ### unfolding the spec functions by the kind of the first key byte -/

theorem matchKey_nil (s : Bool) (p : Bytes) : matchKey s [] p = none := by
  rw [matchKey.eq_def]

theorem matchKey_term (s : Bool) (k p : Bytes) :
    matchKey s (cTerm :: k) p = if (p.isEmpty && k.isEmpty) = true then some [] else none := by
  rw [matchKey.eq_def]; simp

theorem matchKey_param (s : Bool) (k p : Bytes) :
    matchKey s (cParam :: k) p =
      if (s && p.isEmpty) = true then none
      else (matchKey s (k.dropWhile notKeySep) (p.dropWhile notPathSep)).map
        fun vs => p.takeWhile notPathSep :: vs := by
  rw [matchKey.eq_def]; simp [cParam_ne_cTerm]

theorem matchKey_wild (s : Bool) (k p : Bytes) :
    matchKey s (cWild :: k) p = if (s && p.isEmpty) = true then none else some [p] := by
  rw [matchKey.eq_def]; simp [cWild_ne_cTerm, cWild_ne_cParam]

theorem matchKey_lit_nil (s : Bool) (b : UInt8) (k : Bytes)
    (h1 : (b == cTerm) = false) (h2 : (b == cParam) = false) (h3 : (b == cWild) = false) :
    matchKey s (b :: k) [] = none := by
  rw [matchKey.eq_def]; simp [h1, h2, h3]

theorem matchKey_lit_cons (s : Bool) (b c : UInt8) (k p : Bytes)
    (h1 : (b == cTerm) = false) (h2 : (b == cParam) = false) (h3 : (b == cWild) = false) :
    matchKey s (b :: k) (c :: p) = if (c == b) = true then matchKey s k p else none := by
  rw [matchKey.eq_def]; simp [h1, h2, h3]

theorem namesOf_param (k : Bytes) :
    namesOf (cParam :: k) = k.takeWhile notKeySep :: namesOf (k.dropWhile notKeySep) := by
  rw [namesOf]; simp

theorem namesOf_wild (k : Bytes) : namesOf (cWild :: k) = [k.dropLast] := by
  rw [namesOf]; simp [cWild_ne_cParam]

theorem namesOf_lit (b : UInt8) (k : Bytes) (h2 : (b == cParam) = false) (h3 : (b == cWild) = false) :
    namesOf (b :: k) = namesOf k := by
  rw [namesOf]; simp [h2, h3]

theorem namesOf_nil : namesOf [] = [] := by rw [namesOf]

theorem edgeKinds_param (k : Bytes) :
    edgeKinds (cParam :: k) = 1 :: edgeKinds (k.dropWhile notKeySep) := by
  rw [edgeKinds]; simp

theorem edgeKinds_wild (k : Bytes) : edgeKinds (cWild :: k) = [2] := by
  rw [edgeKinds]; simp [cWild_ne_cParam]

theorem edgeKinds_lit (b : UInt8) (k : Bytes) (h2 : (b == cParam) = false) (h3 : (b == cWild) = false) :
    edgeKinds (b :: k) = 0 :: edgeKinds k := by
  rw [edgeKinds]; simp [h2, h3]

theorem kindsLe_refl (l : List Nat) : kindsLe l l = true := by
  induction l with
  | nil => rfl
  | cons a t ih => simp [kindsLe, ih]

/-! ### membership in the children of a trie node -/

theorem mem_advLit {c : UInt8} {rs : List Rec} {r' : Rec} :
    r' ∈ advLit c rs ↔ ∃ r ∈ rs, r.key = c :: r'.key ∧ r'.names = r.names ∧ r'.val = r.val := by
  unfold advLit
  simp only [List.mem_filterMap]
  constructor
  · rintro ⟨r, hr, h⟩
    refine ⟨r, hr, ?_⟩
    split at h
    · rename_i b k hk
      split at h
      · rename_i hb
        simp only [Option.some.injEq] at h
        subst h
        simp only [beq_iff_eq] at hb
        subst hb
        exact ⟨hk, rfl, rfl⟩
      · cases h
    · cases h
  · rintro ⟨r, hr, hk, hn, hv⟩
    refine ⟨r, hr, ?_⟩
    rw [hk]
    simp only [beq_self_eq_true, ↓reduceIte, Option.some.injEq]
    cases r'; cases r; simp_all

theorem mem_insertRec {r x : Rec} {l : List Rec} : x ∈ insertRec r l ↔ x = r ∨ x ∈ l := by
  induction l with
  | nil => simp [insertRec]
  | cons y ys ih =>
    simp only [insertRec]
    split
    · simp
    · simp only [List.mem_cons, ih]
      constructor
      · rintro (h | h | h) <;> simp [h]
      · rintro (h | h | h) <;> simp [h]

theorem mem_sortRecs {x : Rec} {l : List Rec} : x ∈ sortRecs l ↔ x ∈ l := by
  induction l with
  | nil => simp [sortRecs]
  | cons y ys ih =>
    have : sortRecs (y :: ys) = insertRec y (sortRecs ys) := rfl
    rw [this, mem_insertRec, ih]
    simp only [List.mem_cons]

theorem stepSingle_eq {r r' : Rec} :
    stepSingle r = some r' ↔
      ∃ k, r.key = cParam :: k ∧ r'.key = k.dropWhile notKeySep ∧
        r'.names = r.names ++ [k.takeWhile notKeySep] ∧ r'.val = r.val := by
  unfold stepSingle
  constructor
  · intro h
    split at h
    · rename_i b k hk
      split at h
      · rename_i hb
        simp only [Option.some.injEq] at h
        subst h
        simp only [beq_iff_eq] at hb
        subst hb
        exact ⟨k, hk, rfl, rfl, rfl⟩
      · cases h
    · cases h
  · rintro ⟨k, hk, h1, h2, h3⟩
    rw [hk]
    simp only [beq_self_eq_true, ↓reduceIte, Option.some.injEq]
    cases r'; cases r; simp_all

theorem mem_advSingle {rs : List Rec} {r' : Rec} :
    r' ∈ advSingle rs ↔ ∃ r ∈ rs, stepSingle r = some r' := by
  unfold advSingle
  rw [mem_sortRecs, List.mem_filterMap]

theorem stepWild_eq {r r' : Rec} :
    stepWild r = some r' ↔
      ∃ k, r.key = cWild :: k ∧ r'.key = [] ∧ r'.names = r.names ++ [k.dropLast] ∧ r'.val = r.val := by
  unfold stepWild
  constructor
  · intro h
    split at h
    · rename_i b k hk
      split at h
      · rename_i hb
        simp only [Option.some.injEq] at h
        subst h
        simp only [beq_iff_eq] at hb
        subst hb
        exact ⟨k, hk, rfl, rfl, rfl⟩
      · cases h
    · cases h
  · rintro ⟨k, hk, h1, h2, h3⟩
    rw [hk]
    simp only [beq_self_eq_true, ↓reduceIte, Option.some.injEq]
    cases r'; cases r; simp_all

theorem mem_advWild {rs : List Rec} {r' : Rec} :
    r' ∈ advWild rs ↔ ∃ r ∈ rs, stepWild r = some r' := by
  unfold advWild
  rw [List.mem_filterMap]

theorem leafOf_some {rs : List Rec} {r : Rec} (h : leafOf rs = some r) : r ∈ rs ∧ r.key = [] := by
  unfold leafOf at h
  have hm := List.mem_of_getLast? h
  simp only [List.mem_filter, List.isEmpty_iff] at hm
  exact hm

theorem leafOf_none {rs : List Rec} (h : leafOf rs = none) : ∀ r ∈ rs, r.key ≠ [] := by
  unfold leafOf at h
  simp only [List.getLast?_eq_none_iff, List.filter_eq_nil_iff, List.isEmpty_iff] at h
  exact h

theorem hasSingle_false {rs : List Rec} (h : hasSingle rs = false) :
    ∀ r ∈ rs, ∀ k, r.key ≠ cParam :: k := by
  intro r hr k hk
  have : hasSingle rs = true := by
    unfold hasSingle
    rw [List.any_eq_true]
    exact ⟨r, hr, by simp [isSingleHead, hk]⟩
  rw [h] at this; cases this

/-! ### keys free of NUL (what `Build` guarantees for parameterised keys) -/

def NulFree (rs : List Rec) : Prop := ∀ r ∈ rs, (0 : UInt8) ∉ r.key

theorem nulFree_advLit {c : UInt8} {rs : List Rec} (h : NulFree rs) : NulFree (advLit c rs) := by
  intro r' hr'
  obtain ⟨r, hr, hk, _, _⟩ := mem_advLit.mp hr'
  have := h r hr
  rw [hk] at this
  simp only [List.mem_cons, not_or] at this
  exact this.2

theorem mem_dropWhile {α} {p : α → Bool} {l : List α} {x : α} (h : x ∈ l.dropWhile p) : x ∈ l := by
  induction l with
  | nil => simp at h
  | cons a t ih =>
    simp only [List.dropWhile] at h
    split at h
    · exact List.mem_cons_of_mem _ (ih h)
    · exact h

theorem nulFree_advSingle {rs : List Rec} (h : NulFree rs) : NulFree (advSingle rs) := by
  intro r' hr'
  obtain ⟨r, hr, hs⟩ := mem_advSingle.mp hr'
  obtain ⟨k, hk, hk', _, _⟩ := stepSingle_eq.mp hs
  have := h r hr
  rw [hk] at this
  simp only [List.mem_cons, not_or] at this
  rw [hk']
  intro hmem
  exact this.2 (mem_dropWhile hmem)

end RtVerif.C05

namespace RtVerif.C05
open RtVerif Bytes

/-! ### induction over a raw key by edge kind -/

theorem key_induction (P : Bytes → Prop) (hnil : P [])
    (hterm : ∀ k, P (cTerm :: k))
    (hparam : ∀ k, P (k.dropWhile notKeySep) → P (cParam :: k))
    (hwild : ∀ k, P (cWild :: k))
    (hlit : ∀ b k, (b == cTerm) = false → (b == cParam) = false → (b == cWild) = false → P k → P (b :: k)) :
    ∀ key, P key := by
  have main : ∀ n, ∀ key : Bytes, key.length ≤ n → P key := by
    intro n
    induction n with
    | zero =>
      intro key hk
      cases key with
      | nil => exact hnil
      | cons b k => simp at hk
    | succ n ih =>
      intro key hk
      cases key with
      | nil => exact hnil
      | cons b k =>
        simp only [List.length_cons, Nat.add_le_add_iff_right] at hk
        by_cases h1 : b = cTerm
        · subst h1; exact hterm k
        · by_cases h2 : b = cParam
          · subst h2
            apply hparam
            apply ih
            have := length_dropWhile_le notKeySep k
            omega
          · by_cases h3 : b = cWild
            · subst h3; exact hwild k
            · exact hlit b k (by simpa using h1) (by simpa using h2) (by simpa using h3) (ih k hk)
  intro key
  exact main key.length key (Nat.le_refl _)

theorem matchKey_strict_imp (key : Bytes) :
    ∀ path vs, matchKey true key path = some vs → matchKey false key path = some vs := by
  induction key using key_induction with
  | hnil => intro p vs h; rw [matchKey_nil] at h; cases h
  | hterm k => intro p vs h; rw [matchKey_term] at h ⊢; exact h
  | hparam k ih =>
    intro p vs h
    rw [matchKey_param] at h ⊢
    split at h
    · cases h
    · simp only [Option.map_eq_some_iff] at h
      obtain ⟨vs', hm, rfl⟩ := h
      simp only [Bool.false_and, Bool.false_eq_true, ↓reduceIte, Option.map_eq_some_iff]
      exact ⟨vs', ih _ _ hm, rfl⟩
  | hwild k =>
    intro p vs h
    rw [matchKey_wild] at h ⊢
    split at h
    · cases h
    · simpa using h
  | hlit b k h1 h2 h3 ih =>
    intro p vs h
    cases p with
    | nil => rw [matchKey_lit_nil _ _ _ h1 h2 h3] at h; cases h
    | cons c p' =>
      rw [matchKey_lit_cons _ _ _ _ _ h1 h2 h3] at h ⊢
      split at h
      · rename_i hc; simp only [hc, ↓reduceIte]; exact ih _ _ h
      · cases h

theorem takeWhile_eq_nil_of_nil {p : UInt8 → Bool} {l : Bytes} (h : l = []) : l.takeWhile p = [] := by
  subst h; rfl

/-- A match whose parameter texts are all non-empty is also found by the strict matcher. -/
theorem matchKey_nonempty_strict (key : Bytes) :
    ∀ path vs, matchKey false key path = some vs → (∀ v ∈ vs, v ≠ []) →
      matchKey true key path = some vs := by
  induction key using key_induction with
  | hnil => intro p vs h; rw [matchKey_nil] at h; cases h
  | hterm k => intro p vs h _; rw [matchKey_term] at h ⊢; exact h
  | hparam k ih =>
    intro p vs h hne
    rw [matchKey_param] at h ⊢
    simp only [Bool.false_and, Bool.false_eq_true, ↓reduceIte, Option.map_eq_some_iff] at h
    obtain ⟨vs', hm, rfl⟩ := h
    have hp : p ≠ [] := by
      intro hp
      have := hne (p.takeWhile notPathSep) (by simp)
      exact this (takeWhile_eq_nil_of_nil hp)
    have : p.isEmpty = false := by cases p <;> simp_all
    simp only [this, Bool.and_false, Bool.false_eq_true, ↓reduceIte, Option.map_eq_some_iff]
    exact ⟨vs', ih _ _ hm (fun v hv => hne v (List.mem_cons_of_mem _ hv)), rfl⟩
  | hwild k =>
    intro p vs h hne
    rw [matchKey_wild] at h ⊢
    simp only [Bool.false_and, Bool.false_eq_true, ↓reduceIte, Option.some.injEq] at h
    subst h
    have hp : p ≠ [] := hne p (by simp)
    have : p.isEmpty = false := by cases p <;> simp_all
    simp [this]
  | hlit b k h1 h2 h3 ih =>
    intro p vs h hne
    cases p with
    | nil => rw [matchKey_lit_nil _ _ _ h1 h2 h3] at h; cases h
    | cons c p' =>
      rw [matchKey_lit_cons _ _ _ _ _ h1 h2 h3] at h ⊢
      split at h
      · rename_i hc; simp only [hc, ↓reduceIte]; exact ih _ _ h hne
      · cases h

/-- one value per placeholder -/
theorem matchKey_arity (s : Bool) (key : Bytes) :
    ∀ path vs, matchKey s key path = some vs → vs.length = (namesOf key).length := by
  induction key using key_induction with
  | hnil => intro p vs h; rw [matchKey_nil] at h; cases h
  | hterm k =>
    intro p vs h
    rw [matchKey_term] at h
    split at h
    · simp only [Option.some.injEq] at h; subst h
      rw [namesOf_lit _ _ cTerm_ne_cParam cTerm_ne_cWild]
      rename_i hk
      simp only [Bool.and_eq_true, List.isEmpty_iff] at hk
      rw [hk.2, namesOf_nil]
    · cases h
  | hparam k ih =>
    intro p vs h
    rw [matchKey_param] at h
    split at h
    · cases h
    · simp only [Option.map_eq_some_iff] at h
      obtain ⟨vs', hm, rfl⟩ := h
      rw [namesOf_param]
      simp [ih _ _ hm]
  | hwild k =>
    intro p vs h
    rw [matchKey_wild] at h
    split at h
    · cases h
    · simp only [Option.some.injEq] at h; subst h
      rw [namesOf_wild]; rfl
  | hlit b k h1 h2 h3 ih =>
    intro p vs h
    rw [namesOf_lit _ _ h2 h3]
    cases p with
    | nil => rw [matchKey_lit_nil _ _ _ h1 h2 h3] at h; cases h
    | cons c p' =>
      rw [matchKey_lit_cons _ _ _ _ _ h1 h2 h3] at h
      split at h
      · exact ih _ _ h
      · cases h

theorem not_mem_takeWhile_notPathSep (p : Bytes) : cSep ∉ p.takeWhile notPathSep := by
  induction p with
  | nil => simp
  | cons a t ih =>
    simp only [List.takeWhile]
    split
    · rename_i ha
      simp only [List.mem_cons, not_or]
      refine ⟨?_, ih⟩
      intro h
      subst h
      simp [notPathSep] at ha
    · simp

/-- a single-segment parameter never spans a '/': in a key without wildcard no value contains '/' -/
theorem matchKey_values_no_sep (s : Bool) (key : Bytes) :
    ∀ path vs, matchKey s key path = some vs → cWild ∉ key → ∀ v ∈ vs, cSep ∉ v := by
  induction key using key_induction with
  | hnil => intro p vs h; rw [matchKey_nil] at h; cases h
  | hterm k =>
    intro p vs h _
    rw [matchKey_term] at h
    split at h
    · simp only [Option.some.injEq] at h; subst h; simp
    · cases h
  | hparam k ih =>
    intro p vs h hw
    rw [matchKey_param] at h
    split at h
    · cases h
    · simp only [Option.map_eq_some_iff] at h
      obtain ⟨vs', hm, rfl⟩ := h
      intro v hv
      rcases List.mem_cons.mp hv with rfl | hv'
      · exact not_mem_takeWhile_notPathSep p
      · refine ih _ _ hm ?_ v hv'
        intro hmem
        exact hw (List.mem_cons_of_mem _ (mem_dropWhile hmem))
  | hwild k => intro p vs _ hw; simp at hw
  | hlit b k h1 h2 h3 ih =>
    intro p vs h hw
    cases p with
    | nil => rw [matchKey_lit_nil _ _ _ h1 h2 h3] at h; cases h
    | cons c p' =>
      rw [matchKey_lit_cons _ _ _ _ _ h1 h2 h3] at h
      split at h
      · exact ih _ _ h (fun hmem => hw (List.mem_cons_of_mem _ hmem))
      · cases h

end RtVerif.C05
