import RtVerif.Model.C14
/-
  Helper lemmas for C14 (not counted as property theorems).
-/
namespace RtVerif.C14
open RtVerif Bytes

/-! ## facts the two sides agree on (re-checked whenever `Gen/Facts.lean` is regenerated) -/

theorem authKey_eq : authKey = sAuthorization := by decide
theorem accessToken_eq : accessToken = sAccessToken := rfl
theorem clientBasicPrefix_eq : Facts.c14ClientBasicPrefix = basicPrefix := rfl
theorem clientBasicSep_eq : Facts.c14ClientBasicSep = [colon] := rfl
theorem bearerPrefix_eq (ctx : Bool) : srvBearerPrefix ctx = Facts.c14ClientBearerPrefix := by cases ctx <;> rfl
theorem clientBearerPrefix_eq : Facts.c14ClientBearerPrefix = [66, 101, 97, 114, 101, 114, 32] := rfl
theorem formMode_eq (ctx : Bool) : srvFormMode ctx = 0 := by cases ctx <;> rfl
theorem inHeader_eq : Facts.c14ServerInHeader = sHeader := rfl
theorem inQuery_eq : Facts.c14ServerInQuery = sQuery := rfl
theorem urlencoded_eq : Facts.c14UrlencodedMime = sUrlencoded := rfl
theorem multipart_eq : Facts.c14MultipartMime = sMultipart := rfl

/-! ## association lists -/

theorem values_setKey_same (m : Pairs) (k v : Bytes) : values (setKey m k v) k = [v] := by
  simp only [values, setKey, List.filter_append, List.filter_filter, List.map_append]
  have : m.filter (fun a => (a.1 == k) && !(a.1 == k)) = [] := by
    apply List.filter_eq_nil_iff.mpr; intro a _; simp
  simp [this, List.filter]

theorem values_setKey_other (m : Pairs) (k k' v : Bytes) (h : k ≠ k') : values (setKey m k v) k' = values m k' := by
  simp only [values, setKey, List.filter_append, List.filter_filter, List.map_append]
  have h1 : ((k == k') = false) := by simpa using h
  have h2 : m.filter (fun a => (a.1 == k') && !(a.1 == k)) = m.filter (fun a => a.1 == k') := by
    apply List.filter_congr; intro a _
    by_cases hk : a.1 = k'
    · subst hk
      have : (a.1 == k) = false := by
        simp only [beq_eq_false_iff_ne, ne_eq]; intro e; exact h e.symm
      simp [this]
    · simp [hk]
  simp [h2, List.filter, h1]

/-! ## optional whitespace -/

theorem stripOWS_eq : stripOWS = trimOWS := rfl

theorem trimRight_concat (s : Bytes) (z : UInt8) (hz : isOWS z = false) : trimRight (s ++ [z]) = s ++ [z] := by
  simp [trimRight, List.reverse_append, List.dropWhile, hz]

theorem trimRight_of_last (s : Bytes) (hs : s ≠ []) (hz : isOWS (s.getLast hs) = false) : trimRight s = s := by
  have e := List.dropLast_concat_getLast hs
  have := trimRight_concat s.dropLast (s.getLast hs) hz
  rw [e] at this; exact this

theorem fieldValue_iff (v : Bytes) : fieldValue v = true ↔ v = [] ∨ ∃ hs : v ≠ [], isOWS (v.head hs) = false ∧ isOWS (v.getLast hs) = false := by
  cases v with
  | nil => simp [fieldValue]
  | cons c r =>
    simp only [fieldValue, isOWS, reduceCtorEq, false_or, List.head_cons, ne_eq, not_false_eq_true, exists_true_left]
    rw [List.getLast?_eq_getLast (l := c :: r) (by simp)]
    simp

theorem trimOWS_of_fieldValue (v : Bytes) (h : fieldValue v = true) : trimOWS v = v := by
  rcases (fieldValue_iff v).mp h with rfl | ⟨hs, h1, h2⟩
  · rfl
  · cases v with
    | nil => exact absurd rfl hs
    | cons c r =>
      simp only [List.head_cons] at h1
      have : (c :: r).dropWhile isOWS = c :: r := by simp [List.dropWhile, h1]
      rw [trimOWS, this]; exact trimRight_of_last _ hs h2

/-- a prefix that starts with a visible byte, followed by a value that ends with one, is a field value -/
theorem trimOWS_prefix_append (c : UInt8) (pre t : Bytes) (hc : isOWS c = false) (ht : t ≠ [])
    (hl : isOWS (t.getLast ht) = false) : trimOWS (c :: pre ++ t) = c :: pre ++ t := by
  have h0 : (c :: pre ++ t) ≠ [] := by simp
  have : (c :: pre ++ t).dropWhile isOWS = c :: pre ++ t := by simp [List.dropWhile, hc]
  rw [trimOWS, this]
  apply trimRight_of_last _ h0
  have : (c :: pre ++ t).getLast h0 = t.getLast ht := by
    simpa using List.getLast_append_right (l := c :: pre) ht
  rw [this]; exact hl

/-! ## base64 output has no whitespace -/

theorem enc6_noOWS (url : Bool) : ∀ n, n < 64 → isOWS (Base64.enc6 url n) = false := by
  cases url <;> decide

theorem encode_noOWS (url : Bool) (b : Bytes) : ∀ c ∈ Base64.encode url b, isOWS c = false := by
  induction b using Base64.encode.induct with
  | case1 => intro c h; cases h
  | case2 x =>
    have hx := x.toNat_lt
    intro c h
    simp only [Base64.encode, List.mem_cons, List.not_mem_nil, or_false] at h
    rcases h with rfl | rfl | rfl | rfl
    · exact enc6_noOWS url _ (by omega)
    · exact enc6_noOWS url _ (by omega)
    · decide
    · decide
  | case3 x y =>
    have hx := x.toNat_lt; have hy := y.toNat_lt
    intro c h
    simp only [Base64.encode, List.mem_cons, List.not_mem_nil, or_false] at h
    rcases h with rfl | rfl | rfl | rfl
    · exact enc6_noOWS url _ (by omega)
    · exact enc6_noOWS url _ (by omega)
    · exact enc6_noOWS url _ (by omega)
    · decide
  | case4 x y z r ih =>
    have hx := x.toNat_lt; have hy := y.toNat_lt; have hz := z.toNat_lt
    intro c h
    simp only [Base64.encode, Base64.enc3, List.cons_append, List.nil_append, List.mem_cons] at h
    rcases h with rfl | rfl | rfl | rfl | h
    · exact enc6_noOWS url _ (by omega)
    · exact enc6_noOWS url _ (by omega)
    · exact enc6_noOWS url _ (by omega)
    · exact enc6_noOWS url _ (by omega)
    · exact ih c h

theorem encode_ne_nil (url : Bool) (b : Bytes) (hb : b ≠ []) : Base64.encode url b ≠ [] := by
  match b, hb with
  | [_], _ => simp [Base64.encode]
  | [_, _], _ => simp [Base64.encode]
  | _ :: _ :: _ :: _, _ => simp [Base64.encode, Base64.enc3]

/-! ## Basic credentials -/

theorem cut_join (u p : Bytes) (hu : u.contains colon = false) : cut (u ++ colon :: p) colon = some (u, p) := by
  have h1 : (u ++ colon :: p).contains colon = true := by simp [Bytes.contains]
  have hne : ∀ x ∈ u, (x != colon) = true := by
    intro x hx
    simp only [bne_iff_ne, ne_eq]
    intro e; rw [e] at hx
    have : u.contains colon = true := by
      simp only [Bytes.contains, List.any_eq_true, beq_iff_eq]; exact ⟨colon, hx, rfl⟩
    rw [hu] at this; cases this
  have h2 : (u ++ colon :: p).takeWhile (· != colon) = u := by
    rw [List.takeWhile_append_of_pos hne]; simp [List.takeWhile]
  have h3 : (u ++ colon :: p).dropWhile (· != colon) = colon :: p := by
    rw [List.dropWhile_append_of_pos hne]; simp [List.dropWhile]
  simp [cut, h1, h2, h3]

/-- the decidable Spec reading and the transcription of `parseBasicAuth` are the same function -/
theorem parseBasicAuth_eq_carried (a : Bytes) : parseBasicAuth a = carriedBasic a := by
  unfold parseBasicAuth carriedBasic
  have hl : basicPrefix.length = 6 := rfl
  rw [hl]
  by_cases h : equalFold (a.take 6) [66, 97, 115, 105, 99, 32] = true
  · have hlen : ¬ a.length < 6 := by
      intro hlt
      have h' := h
      simp only [equalFold, toLower, beq_iff_eq] at h'
      have := congrArg List.length h'
      simp only [List.length_map, List.length_take, List.length_cons, List.length_nil] at this
      omega
    have h2 : equalFold (a.take 6) basicPrefix = true := h
    simp only [h, h2, hlen, decide_false, Bool.not_true, Bool.or_self, Bool.false_eq_true, ↓reduceIte]
    cases Base64.decode false (a.drop 6) with
    | none => rfl
    | some cs => simp [cut, colon]
  · have h2 : equalFold (a.take 6) basicPrefix = false := by
      have : basicPrefix = [66, 97, 115, 105, 99, 32] := rfl
      rw [this]; simpa using h
    simp [h, h2]

theorem basicValue_eq (u p : Bytes) : basicValue u p = basicPrefix ++ Base64.encode false (u ++ colon :: p) := by
  simp [basicValue, clientBasicPrefix_eq, clientBasicSep_eq]

theorem carriedBasic_basicValue (u p : Bytes) (hu : u.contains colon = false) :
    carriedBasic (basicValue u p) = some (u, p) := by
  rw [← parseBasicAuth_eq_carried, basicValue_eq]
  unfold parseBasicAuth
  have h1 : (basicPrefix ++ Base64.encode false (u ++ colon :: p)).take basicPrefix.length = basicPrefix := by
    simp
  have h2 : (basicPrefix ++ Base64.encode false (u ++ colon :: p)).drop basicPrefix.length
      = Base64.encode false (u ++ colon :: p) := by simp
  have h3 : ¬ (basicPrefix ++ Base64.encode false (u ++ colon :: p)).length < basicPrefix.length := by
    simp
  have h4 : equalFold basicPrefix basicPrefix = true := by decide
  simp only [h1, h2, h3, h4, decide_false, Bool.not_true, Bool.or_self, Bool.false_eq_true, ↓reduceIte,
    Base64.decode_encode]
  exact cut_join u p hu

theorem basicValue_trim (u p : Bytes) : trimOWS (basicValue u p) = basicValue u p := by
  rw [basicValue_eq]
  have hne : Base64.encode false (u ++ colon :: p) ≠ [] := encode_ne_nil _ _ (by simp)
  have := trimOWS_prefix_append 66 [97, 115, 105, 99, 32] _ (by decide) hne
    (encode_noOWS false _ _ (List.getLast_mem hne))
  exact this

/-! ## Bearer credentials -/

theorem bearerValue_eq (t : Bytes) : bearerValue t = [66, 101, 97, 114, 101, 114, 32] ++ t := rfl

theorem carriedBearer_bearerValue (t : Bytes) (ht : t ≠ []) : carriedBearer (bearerValue t) = some t := by
  rw [bearerValue_eq]
  have hlen : ([66, 101, 97, 114, 101, 114, 32] ++ t : Bytes).length > 7 := by
    cases t with
    | nil => exact absurd rfl ht
    | cons c r => simp
  simp only [carriedBearer]
  rw [if_pos]
  · simp
  · exact ⟨by simp, hlen⟩

theorem bearerValue_trim (t : Bytes) (ht : t ≠ []) (hf : fieldValue t = true) : trimOWS (bearerValue t) = bearerValue t := by
  rw [bearerValue_eq]
  rcases (fieldValue_iff t).mp hf with rfl | ⟨hs, _, h2⟩
  · exact absurd rfl ht
  · exact trimOWS_prefix_append 66 [101, 97, 114, 101, 114, 32] t (by decide) hs h2

/-- what `BearerAuth` extracts from the header is the RFC 6750 credential, if there is one -/
theorem bearerFromHeader_spec (ctx : Bool) (h : Bytes) :
    (if (bearerFromHeader ctx h).isEmpty then none else some (bearerFromHeader ctx h)) = carriedBearer h := by
  unfold bearerFromHeader carriedBearer
  rw [bearerPrefix_eq, clientBearerPrefix_eq]
  simp only [hasPrefix, List.length_cons, List.length_nil]
  by_cases hp : ([66, 101, 97, 114, 101, 114, 32] : Bytes).isPrefixOf h = true
  · simp only [hp, ↓reduceIte, true_and]
    by_cases hl : h.length > 7
    · have : (h.drop 7).isEmpty = false := by
        simp only [List.isEmpty_eq_false_iff, ne_eq, List.drop_eq_nil_iff]; omega
      simp [this, hl]
    · have : (h.drop 7).isEmpty = true := by
        simp only [List.isEmpty_iff, List.drop_eq_nil_iff]; omega
      simp [this, hl]
  · simp [hp]

theorem nonEmptyFirst_eq (l : List Bytes) :
    nonEmptyFirst l = if (get1 l).isEmpty then none else some (get1 l) := by
  cases l with
  | nil => rfl
  | cons x r => simp [nonEmptyFirst, get1]


/-! ## the client: what a list of writers leaves at a place -/

/-- the value a writer stores in the header map -/
def hdrWire : Atom → Bytes
  | .basic u p => basicValue u p
  | .bearer t => bearerValue t
  | .apiKey _ false v => v
  | _ => []

def qryWire : Atom → Bytes
  | .apiKey _ true v => v
  | _ => []

theorem lastAt_place {p : Place} {l : List Atom} {a : Atom} (h : lastAt p l = some a) : a.place = some p := by
  induction l with
  | nil => simp [lastAt] at h
  | cons b l ih =>
    simp only [lastAt] at h
    split at h
    · rename_i c hc; cases h; exact ih hc
    · split at h
      · rename_i hp; cases h; exact hp
      · cases h

theorem applyAtom_header (r r' : CReq) (a : Atom) (h : applyAtom r a = some r') (k : Bytes) :
    values r'.header k = if a.place = some (.hdr k) then [hdrWire a] else values r.header k := by
  cases a with
  | pass => simp only [applyAtom, Option.some.injEq] at h; subst h; simp [Atom.place]
  | fail => simp [applyAtom] at h
  | basic u p =>
    simp only [applyAtom, Option.some.injEq] at h; subst h
    simp only [Atom.place, Option.some.injEq, Place.hdr.injEq, hdrWire, authKey_eq]
    by_cases hk : sAuthorization = k
    · subst hk; simp [values_setKey_same]
    · simp [hk, values_setKey_other _ _ _ _ hk]
  | bearer t =>
    simp only [applyAtom, Option.some.injEq] at h; subst h
    simp only [Atom.place, Option.some.injEq, Place.hdr.injEq, hdrWire, authKey_eq]
    by_cases hk : sAuthorization = k
    · subst hk; simp [values_setKey_same]
    · simp [hk, values_setKey_other _ _ _ _ hk]
  | apiKey n q v =>
    cases q with
    | true => simp only [applyAtom, Option.some.injEq] at h; subst h; simp [Atom.place]
    | false =>
      simp only [applyAtom, Option.some.injEq] at h; subst h
      simp only [Atom.place, Option.some.injEq, Place.hdr.injEq, hdrWire]
      by_cases hk : canon n = k
      · subst hk; simp [values_setKey_same]
      · simp [hk, values_setKey_other _ _ _ _ hk]

theorem applyAtom_query (r r' : CReq) (a : Atom) (h : applyAtom r a = some r') (k : Bytes) :
    values r'.query k = if a.place = some (.qry k) then [qryWire a] else values r.query k := by
  cases a with
  | pass => simp only [applyAtom, Option.some.injEq] at h; subst h; simp [Atom.place]
  | fail => simp [applyAtom] at h
  | basic u p => simp only [applyAtom, Option.some.injEq] at h; subst h; simp [Atom.place]
  | bearer t => simp only [applyAtom, Option.some.injEq] at h; subst h; simp [Atom.place]
  | apiKey n q v =>
    cases q with
    | false => simp only [applyAtom, Option.some.injEq] at h; subst h; simp [Atom.place]
    | true =>
      simp only [applyAtom, Option.some.injEq] at h; subst h
      simp only [Atom.place, Option.some.injEq, Place.qry.injEq, qryWire]
      by_cases hk : n = k
      · subst hk; simp [values_setKey_same]
      · simp [hk, values_setKey_other _ _ _ _ hk]

theorem applyAtoms_header (l : List (Option Atom)) (r r' : CReq) (h : applyAtoms r l = some r') (k : Bytes) :
    values r'.header k =
      match lastAt (.hdr k) (l.filterMap id) with
      | none => values r.header k
      | some a => [hdrWire a] := by
  induction l generalizing r with
  | nil => simp only [applyAtoms, Option.some.injEq] at h; subst h; simp [lastAt]
  | cons x l ih =>
    cases x with
    | none => simp only [applyAtoms] at h; simpa using ih r h
    | some a =>
      simp only [applyAtoms] at h
      split at h
      · cases h
      · rename_i r1 h1
        have := ih r1 h
        simp only [List.filterMap_cons, id_eq, lastAt]
        rw [this]
        cases hl : lastAt (.hdr k) (l.filterMap id) with
        | some b => rfl
        | none =>
          simp only
          rw [applyAtom_header r r1 a h1 k]
          split <;> rfl

theorem applyAtoms_query (l : List (Option Atom)) (r r' : CReq) (h : applyAtoms r l = some r') (k : Bytes) :
    values r'.query k =
      match lastAt (.qry k) (l.filterMap id) with
      | none => values r.query k
      | some a => [qryWire a] := by
  induction l generalizing r with
  | nil => simp only [applyAtoms, Option.some.injEq] at h; subst h; simp [lastAt]
  | cons x l ih =>
    cases x with
    | none => simp only [applyAtoms] at h; simpa using ih r h
    | some a =>
      simp only [applyAtoms] at h
      split at h
      · cases h
      · rename_i r1 h1
        have := ih r1 h
        simp only [List.filterMap_cons, id_eq, lastAt]
        rw [this]
        cases hl : lastAt (.qry k) (l.filterMap id) with
        | some b => rfl
        | none =>
          simp only
          rw [applyAtom_query r r1 a h1 k]
          split <;> rfl

theorem applyAtom_none (r : CReq) (a : Atom) : applyAtom r a = none ↔ a.isFail = true := by
  cases a with
  | apiKey n q v => cases q <;> simp [applyAtom, Atom.isFail]
  | _ => simp [applyAtom, Atom.isFail]

theorem applyAtoms_none (l : List (Option Atom)) (r : CReq) :
    applyAtoms r l = none ↔ (l.filterMap id).any Atom.isFail = true := by
  induction l generalizing r with
  | nil => simp [applyAtoms]
  | cons x l ih =>
    cases x with
    | none => simpa [applyAtoms] using ih r
    | some a =>
      simp only [applyAtoms, List.filterMap_cons, id_eq, List.any_cons, Bool.or_eq_true]
      cases h1 : applyAtom r a with
      | none => simp [(applyAtom_none r a).mp h1]
      | some r1 =>
        have hf : a.isFail = false := by
          cases hh : a.isFail with
          | false => rfl
          | true => rw [(applyAtom_none r a).mpr hh] at h1; cases h1
        simp [hf, ih r1]

/-- the writers in effect, `nil` entries included -/
def optAtoms : Writer → List (Option Atom)
  | .atom a => [some a]
  | .compose l => l

theorem applyWriter_eq (r : CReq) (w : Writer) : applyWriter r w = applyAtoms r (optAtoms w) := by
  cases w with
  | atom a => simp only [applyWriter, optAtoms, applyAtoms]; cases applyAtom r a <;> rfl
  | compose l => rfl

theorem atoms_eq (w : Writer) : w.atoms = (optAtoms w).filterMap id := by
  cases w <;> simp [Writer.atoms, optAtoms]

def effList (i : Input) : List (Option Atom) :=
  match i.op with
  | some w => optAtoms w
  | none =>
    match i.dflt with
    | none => []
    | some d => if get1 (values i.pre.header authKey) != [] then [] else optAtoms d

theorem authenticate_eq (i : Input) : authenticate i.op i.dflt i.pre = applyAtoms i.pre (effList i) := by
  unfold authenticate effList
  cases i.op with
  | some w => exact applyWriter_eq _ _
  | none =>
    cases i.dflt with
    | none => rfl
    | some d =>
      simp only
      split
      · rfl
      · exact applyWriter_eq _ _

theorem specEffective_eq (i : Input) : specEffective i = (effList i).filterMap id := by
  unfold specEffective effList
  cases i.op with
  | some w => exact atoms_eq w
  | none =>
    cases i.dflt with
    | none => rfl
    | some d =>
      simp only [authKey_eq, nonEmptyFirst_eq]
      by_cases h : (get1 (values i.pre.header sAuthorization)).isEmpty = true
      · have h' : get1 (values i.pre.header sAuthorization) = [] := List.isEmpty_iff.mp h
        simp [h', atoms_eq]
      · have h' : get1 (values i.pre.header sAuthorization) ≠ [] := by
          intro e; apply h; rw [e]; rfl
        simp [h, h']


/-! ## the server -/

theorem isFormCT_of_wf (v : View) (hwf : v.wf = true) (hb : (get1 v.tokBody).isEmpty = false) :
    isFormCT (serverCT v) = true := by
  have hne : v.tokBody.isEmpty = false := by
    cases h : v.tokBody with
    | nil => rw [h] at hb; simp [get1] at hb
    | cons _ _ => rfl
  simp only [View.wf, hne, Bool.false_or, Bool.or_eq_true, beq_iff_eq] at hwf
  have hct : v.ctype.isEmpty = false := by
    rcases hwf with h | h <;> rw [h] <;> rfl
  simp only [isFormCT, serverCT, hct, Bool.false_eq_true, ↓reduceIte, urlencoded_eq, multipart_eq,
    Bool.or_eq_true, beq_iff_eq]
  exact hwf

/-- the token `BearerAuth` settles on is the one the property's precedence rule names -/
theorem bearerToken_spec (ctx : Bool) (v : View) (hwf : v.wf = true) :
    (if (bearerToken ctx v).isEmpty then none else some (bearerToken ctx v)) = specBearer v := by
  have hH := bearerFromHeader_spec ctx (get1 v.auth)
  simp only [specBearer, ← hH, nonEmptyFirst_eq]
  simp only [bearerToken, tokenAfterQuery, formMode_eq, formLookup, beq_self_eq_true, ↓reduceIte]
  by_cases h1 : (bearerFromHeader ctx (get1 v.auth)).isEmpty = true
  · simp only [h1, ↓reduceIte, firstSome]
    by_cases h2 : (get1 v.tokQuery).isEmpty = true
    · simp only [h2, Bool.true_and, ↓reduceIte, firstSome]
      by_cases h3 : (get1 v.tokBody).isEmpty = true
      · have h3' : get1 v.tokBody = [] := List.isEmpty_iff.mp h3
        have h2' : get1 v.tokQuery = [] := List.isEmpty_iff.mp h2
        simp [h3', h2', firstSome]
      · have h3' : (get1 v.tokBody).isEmpty = false := by simpa using h3
        simp [isFormCT_of_wf v hwf h3', h3', firstSome]
    · have h2' : (get1 v.tokQuery).isEmpty = false := by simpa using h2
      simp [h2', firstSome]
  · have h1' : (bearerFromHeader ctx (get1 v.auth)).isEmpty = false := by simpa using h1
    simp [h1', firstSome]

theorem serveBasic_spec (realm : Bytes) (pk : ParamKind) (cb : Callback) (v : View) (r : Option Bytes) (c : Bool)
    (hpk : pk ≠ .other) : specServer (.basic r c) pk cb v (serveBasic realm cb v) = true := by
  have hs : specScopes (.basic r c) pk = some [] := by
    cases pk with
    | other => exact absurd rfl hpk
    | _ => rfl
  simp only [specServer, hs, specCred, serveBasic, parseBasicAuth_eq_carried]
  cases carriedBasic (get1 v.auth) with
  | none => simp [notApplicable]
  | some up => obtain ⟨u, p⟩ := up; simp

theorem serveApiKey_spec (name inn : Bytes) (c : Bool) (pk : ParamKind) (cb : Callback) (v : View) (hdr : Bool)
    (hpk : pk ≠ .other) (hin : (toLower inn == sHeader) = hdr) (hq : hdr = false → (toLower inn == sQuery) = true) :
    specServer (.apiKey name inn c) pk cb v (serveApiKey hdr cb v) = true := by
  have hs : specScopes (.apiKey name inn c) pk = some [] := by
    cases pk with
    | other => exact absurd rfl hpk
    | _ =>
      cases hdr with
      | true => simp [specScopes, hin]
      | false => simp [specScopes, hin, hq rfl]
  simp only [specServer, hs, specCred, serveApiKey, hin, nonEmptyFirst_eq]
  cases hdr with
  | true =>
    simp only [↓reduceIte]
    by_cases h : (get1 v.keyHdr).isEmpty = true
    · simp [h, notApplicable]
    · have h' : (get1 v.keyHdr).isEmpty = false := by simpa using h
      simp [h']
  | false =>
    simp only [Bool.false_eq_true, ↓reduceIte]
    by_cases h : (get1 v.keyQuery).isEmpty = true
    · simp [h, notApplicable]
    · have h' : (get1 v.keyQuery).isEmpty = false := by simpa using h
      simp [h']

theorem serveBearer_spec (name : Bytes) (c : Bool) (scopes : List Bytes) (cb : Callback) (v : View) (hwf : v.wf = true) :
    specServer (.bearer name c) (.scopedReq scopes) cb v (serveBearer name c scopes cb v) = true := by
  have hb := bearerToken_spec c v hwf
  simp only [specServer, specScopes, specCred, serveBearer, ← hb]
  by_cases h : (bearerToken c v).isEmpty = true
  · simp [h, notApplicable]
  · have h' : (bearerToken c v).isEmpty = false := by simpa using h
    simp [h']

theorem notApplicable_spec (srv : Server) (pk : ParamKind) (cb : Callback) (v : View) (h : specScopes srv pk = none) :
    specServer srv pk cb v notApplicable = true := by
  simp [specServer, h, notApplicable]

theorem serve_spec (srv : Server) (pk : ParamKind) (cb : Callback) (v : View) (hwf : v.wf = true) :
    match serve srv pk cb v with
    | .out o => specServer srv pk cb v o = true
    | .panic => specScopes srv pk = none := by
  cases srv with
  | basic r c =>
    cases pk with
    | other => exact notApplicable_spec _ _ _ _ rfl
    | plain => exact serveBasic_spec _ _ _ _ _ _ (by simp)
    | scopedReq s => exact serveBasic_spec _ _ _ _ _ _ (by simp)
  | apiKey name inn c =>
    simp only [serve, inHeader_eq, inQuery_eq]
    by_cases hH : (toLower inn == sHeader) = true
    · simp only [hH, ↓reduceIte]
      cases pk with
      | other => exact notApplicable_spec _ _ _ _ rfl
      | plain => exact serveApiKey_spec _ _ _ _ _ _ true (by simp) hH (by simp)
      | scopedReq s => exact serveApiKey_spec _ _ _ _ _ _ true (by simp) hH (by simp)
    · have hH' : (toLower inn == sHeader) = false := by simpa using hH
      simp only [hH', Bool.false_eq_true, ↓reduceIte]
      by_cases hQ : (toLower inn == sQuery) = true
      · simp only [hQ, ↓reduceIte]
        cases pk with
        | other => exact notApplicable_spec _ _ _ _ rfl
        | plain => exact serveApiKey_spec _ _ _ _ _ _ false (by simp) hH' (fun _ => hQ)
        | scopedReq s => exact serveApiKey_spec _ _ _ _ _ _ false (by simp) hH' (fun _ => hQ)
      · have hQ' : (toLower inn == sQuery) = false := by simpa using hQ
        simp only [hQ', Bool.false_eq_true, ↓reduceIte]
        cases pk <;> simp [specScopes, hH', hQ']
  | bearer name c =>
    cases pk with
    | scopedReq s => exact serveBearer_spec _ _ _ _ _ hwf
    | plain => exact notApplicable_spec _ _ _ _ rfl
    | other => exact notApplicable_spec _ _ _ _ rfl


/-! ## the whole pipeline -/

theorem transport_wf (r : CReq) (k : Bytes) : (transport r k).wf = true := by
  simp only [View.wf, transport, bodyForm, clientCType, urlencoded_eq, multipart_eq]
  by_cases h0 : r.form.isEmpty = true
  · simp [h0]
  · by_cases h2 : (r.mtype == 2) = true
    · simp [h0, h2]
    · by_cases h1 : (r.mtype == 1) = true
      · by_cases hp : isPostLike r.method = true
        · simp [h0, h2, h1, hp]
        · simp [h0, h2, h1, hp]
      · simp [h0, h2, h1]

theorem observe_wf (srv : Server) (r : CReq) : (observe srv r).wf = true := by
  cases srv with
  | apiKey n inn c => exact transport_wf r n
  | basic realm c => exact transport_wf r []
  | bearer n c => exact transport_wf r []

theorem specPlace_hdr (i : Input) (r' : CReq) (h : applyAtoms i.pre (effList i) = some r') (k : Bytes) :
    specPlace (specEffective i) (.hdr k) ((values i.pre.header k).map stripOWS) ((values r'.header k).map trimOWS) = true := by
  rw [specEffective_eq]
  have hv := applyAtoms_header _ _ _ h k
  unfold specPlace
  cases hl : lastAt (.hdr k) ((effList i).filterMap id) with
  | none => rw [hl] at hv; simp [hv, stripOWS_eq]
  | some a =>
    rw [hl] at hv
    have hp := lastAt_place hl
    cases a with
    | pass => simp [Atom.place] at hp
    | fail => simp [Atom.place] at hp
    | basic u p =>
      simp only [hv, hdrWire, List.map_cons, List.map_nil, basicValue_trim, get1, List.headD_cons]
      cases hu : u.contains 58 with
      | true => rfl
      | false => simp [carriedBasic_basicValue u p hu]
    | bearer t =>
      simp only [hv, hdrWire, List.map_cons, List.map_nil, get1, List.headD_cons]
      cases ht : t.isEmpty with
      | true => rfl
      | false =>
        cases hf : fieldValue t with
        | false => rfl
        | true =>
          have hne : t ≠ [] := by intro e; rw [e] at ht; cases ht
          simp [bearerValue_trim t hne hf, carriedBearer_bearerValue t hne]
    | apiKey n q v =>
      cases q with
      | true => simp [Atom.place] at hp
      | false => simp [hv, hdrWire, stripOWS_eq]

theorem specPlace_qry (i : Input) (r' : CReq) (h : applyAtoms i.pre (effList i) = some r') (k : Bytes) :
    specPlace (specEffective i) (.qry k) (values i.pre.query k) (values r'.query k) = true := by
  rw [specEffective_eq]
  have hv := applyAtoms_query _ _ _ h k
  unfold specPlace
  cases hl : lastAt (.qry k) ((effList i).filterMap id) with
  | none => rw [hl] at hv; simp [hv]
  | some a =>
    rw [hl] at hv
    have hp := lastAt_place hl
    cases a with
    | pass => simp [Atom.place] at hp
    | fail => simp [Atom.place] at hp
    | basic u p => simp [Atom.place] at hp
    | bearer t => simp [Atom.place] at hp
    | apiKey n q v =>
      cases q with
      | false => simp [Atom.place] at hp
      | true => simp [hv, qryWire]

theorem specClient_observe (i : Input) (r' : CReq) (h : applyAtoms i.pre (effList i) = some r') :
    specClient i (observe i.srv r') = true := by
  have h1 := specPlace_hdr i r' h sAuthorization
  have h2 := specPlace_qry i r' h sAccessToken
  cases hs : i.srv with
  | apiKey n inn c =>
    have h3 := specPlace_hdr i r' h (canon n)
    have h4 := specPlace_qry i r' h n
    simp only [specClient, hs, observe, transport, Server.keyName, authKey_eq, accessToken_eq, h1, h2, h3, h4, Bool.and_self]
  | basic realm c =>
    simp only [specClient, hs, observe, transport, authKey_eq, accessToken_eq, h1, h2, Bool.and_self]
  | bearer n c =>
    simp only [specClient, hs, observe, transport, authKey_eq, accessToken_eq, h1, h2, Bool.and_self]

theorem pipeline_spec (i : Input) (cb : Callback) : specOk i cb (pipeline i cb) = true := by
  unfold pipeline
  rw [authenticate_eq]
  cases h : applyAtoms i.pre (effList i) with
  | none =>
    simp only [specOk, specFails, specEffective_eq]
    exact (applyAtoms_none _ _).mp h
  | some r =>
    have hf : specFails i = false := by
      simp only [specFails, specEffective_eq]
      cases hh : ((effList i).filterMap id).any Atom.isFail with
      | false => rfl
      | true => rw [(applyAtoms_none _ _).mpr hh] at h; cases h
    have hc := specClient_observe i r h
    have hs := serve_spec i.srv i.pk cb (observe i.srv r) (observe_wf _ _)
    simp only
    cases hsv : serve i.srv i.pk cb (observe i.srv r) with
    | panic => rw [hsv] at hs; simp [specOk, hf, hc, hs]
    | out o => rw [hsv] at hs; simp [specOk, hf, hc, hs]


/-! ## header names are matched without regard to case -/

theorem byte_cases (P : UInt8 → Prop) (h : ∀ n, n < 256 → P (UInt8.ofNat n)) (c : UInt8) : P c := by
  have := h c.toNat c.toNat_lt
  rwa [UInt8.ofNat_toNat] at this

set_option maxRecDepth 8192 in
theorem toUpper_toLower (c : UInt8) : toUpperB (toLowerB c) = toUpperB c := by
  revert c; apply byte_cases; decide

set_option maxRecDepth 8192 in
theorem toLower_toLower (c : UInt8) : toLowerB (toLowerB c) = toLowerB c := by
  revert c; apply byte_cases; decide

set_option maxRecDepth 8192 in
theorem dash_toLower (c : UInt8) : (toLowerB c == 45) = (c == 45) := by
  revert c; apply byte_cases; decide

set_option maxRecDepth 8192 in
theorem isToken_toLower (c : UInt8) : isTokenByte (toLowerB c) = isTokenByte c := by
  revert c; apply byte_cases; decide

theorem canonGo_toLower (up : Bool) (s : Bytes) : canonGo up (toLower s) = canonGo up s := by
  induction s generalizing up with
  | nil => rfl
  | cons c r ih =>
    simp only [toLower, List.map_cons, canonGo, toUpper_toLower, toLower_toLower, dash_toLower]
    exact congrArg _ (ih _)

theorem allToken_toLower (s : Bytes) : (toLower s).all isTokenByte = s.all isTokenByte := by
  induction s with
  | nil => rfl
  | cons c r ih =>
    simp only [toLower, List.map_cons, List.all_cons, isToken_toLower]
    simp only [toLower] at ih
    rw [ih]

/-- `CanonicalHeaderKey` of a valid field name depends only on the name up to ASCII case -/
theorem canon_equalFold (a b : Bytes) (ha : a.all isTokenByte = true) (h : equalFold a b = true) : canon a = canon b := by
  have e : toLower a = toLower b := by simpa [equalFold] using h
  have hb : b.all isTokenByte = true := by rw [← allToken_toLower, ← e, allToken_toLower]; exact ha
  simp only [canon, ha, hb, ↓reduceIte]
  rw [← canonGo_toLower true a, ← canonGo_toLower true b, e]


/-! ## what `carriedBasic` means -/

theorem cut_split (cs : Bytes) (c : UInt8) (h : Bytes.contains cs c = true) :
    cs = cs.takeWhile (· != c) ++ c :: (cs.dropWhile (· != c)).drop 1 ∧
      Bytes.contains (cs.takeWhile (· != c)) c = false := by
  induction cs with
  | nil => simp [Bytes.contains] at h
  | cons x r ih =>
    by_cases hx : x = c
    · subst hx; simp [List.takeWhile, List.dropWhile, Bytes.contains]
    · have hne : (x != c) = true := by simpa using hx
      have hr : Bytes.contains r c = true := by
        simp only [Bytes.contains, List.any_cons, Bool.or_eq_true, beq_iff_eq] at h ⊢
        rcases h with h | h
        · exact absurd h hx
        · exact h
      obtain ⟨e1, e2⟩ := ih hr
      simp only [List.takeWhile, hne, List.dropWhile, List.cons_append]
      refine ⟨by rw [← e1], ?_⟩
      simp only [Bytes.contains, List.any_cons, Bool.or_eq_false_iff, beq_eq_false_iff_ne, ne_eq] at e2 ⊢
      exact ⟨hx, e2⟩

theorem carriedBasic_iff' (a u p : Bytes) :
    carriedBasic a = some (u, p) ↔
      ∃ scheme enc, a = scheme ++ enc ∧ equalFold scheme [66, 97, 115, 105, 99, 32] = true ∧
        Base64.decode false enc = some (u ++ 58 :: p) ∧ u.contains 58 = false := by
  constructor
  · intro h
    unfold carriedBasic at h
    split at h
    · rename_i hf
      cases hd : Base64.decode false (a.drop 6) with
      | none => rw [hd] at h; simp at h
      | some cs =>
        rw [hd] at h
        simp only [Option.bind_some] at h
        split at h
        · rename_i hc
          simp only [Option.some.injEq, Prod.mk.injEq] at h
          obtain ⟨rfl, rfl⟩ := h
          obtain ⟨e1, e2⟩ := cut_split cs 58 hc
          exact ⟨a.take 6, a.drop 6, (List.take_append_drop 6 a).symm, hf, by rw [hd, ← e1], e2⟩
        · cases h
    · cases h
  · rintro ⟨scheme, enc, rfl, hf, hd, hu⟩
    have hl : scheme.length = 6 := by
      have h' := hf
      simp only [equalFold, toLower, beq_iff_eq] at h'
      have := congrArg List.length h'
      simpa using this
    have h1 : (scheme ++ enc).take 6 = scheme := by rw [← hl]; simp
    have h2 : (scheme ++ enc).drop 6 = enc := by rw [← hl]; simp
    unfold carriedBasic
    rw [h1, h2, if_pos hf, hd]
    have := cut_join u p hu
    simp only [cut, colon] at this
    simp only [Option.bind_some]
    exact this

end RtVerif.C14
