import RtVerif.Lemmas.C05DABuild3
import RtVerif.Lemmas.C05DACheck
import RtVerif.Props.C05
/-  C05DA, part 8: glue between `Router.Build` and the contract of `build`. -/
namespace RtVerif.C05DA
open RtVerif Bytes
open RtVerif.C05 (Rec cParam cWild cTerm cSep sortRecs leafOf weight look NulFree)

/-! ## what `Router.Build` hands to `build` -/

theorem termAll_paramRecs {recs : List (Bytes × Nat)}
    (hbad : ∀ kv ∈ recs, C05.isParamKey kv.1 = true → C05.isBadKey kv.1 = false) :
    TermAll (C05.paramRecs recs) := by
  intro r hr
  obtain ⟨kv, hkv, hpk, rfl⟩ := C05.mem_paramRecs.mp hr
  have := hbad kv hkv hpk
  simp only [C05.isBadKey, Bool.or_eq_false_iff] at this
  exact ⟨kv.1, rfl, C05.contains_false this.1⟩

theorem nulFree_paramRecs {recs : List (Bytes × Nat)}
    (hbad : ∀ kv ∈ recs, C05.isParamKey kv.1 = true → C05.isBadKey kv.1 = false) :
    NulFree (C05.paramRecs recs) := by
  intro r hr
  obtain ⟨kv, hkv, hpk, rfl⟩ := C05.mem_paramRecs.mp hr
  have := hbad kv hkv hpk
  simp only [C05.isBadKey, Bool.or_eq_false_iff] at this
  simp only [List.mem_append, List.mem_cons, List.not_mem_nil, or_false, not_or]
  exact ⟨C05.contains_false this.2, by decide⟩

theorem inv_new : Inv St.new := by
  have hel : ∀ s, el St.new.bc s = {} := by
    intro s
    by_cases hs : s < 1
    · have : s = 0 := by omega
      subst this; rfl
    · exact el_of_ge (by simp [St.new]; omega)
  constructor
  · intro s hs; rw [hel] at hs; exact absurd rfl hs
  · intro s _; exact hel s

theorem routerBuild_ok {recs : List (Bytes × Nat)} {rt : Router} (h : routerBuild recs = .ok rt) :
    ((recs.filter fun kv => C05.isParamKey kv.1).any (fun kv => C05.isBadKey kv.1)) = false ∧
    (C05.paramRecs recs).length ≤ maxSize ∧
    ∃ st, build (buildFuel recs) (C05.paramRecs recs) rootIndex St.new = .ok st ∧
      rt = ⟨recs.filter fun kv => !C05.isParamKey kv.1, st.bc, st.node, buildFuel recs⟩ := by
  unfold routerBuild at h
  split at h
  · cases h
  · rename_i hbad
    split at h
    · cases h
    · rename_i hlen
      split at h
      · cases h
      · rename_i st hst
        simp only [Except.ok.injEq] at h
        exact ⟨by simpa using hbad, by omega, st, hst, h.symm⟩

/-- `build` with no records leaves the initial arrays -/
theorem build_nil (f : Nat) : build (f + 1) [] rootIndex St.new = .ok St.new := rfl

theorem bad_false_iff {recs : List (Bytes × Nat)} :
    ((recs.filter fun kv => C05.isParamKey kv.1).any (fun kv => C05.isBadKey kv.1)) = false ↔
      ∀ kv ∈ recs, C05.isParamKey kv.1 = true → C05.isBadKey kv.1 = false := by
  rw [List.any_eq_false]
  constructor
  · intro h kv hkv hp
    have := h kv (List.mem_filter.mpr ⟨hkv, hp⟩)
    simpa using this
  · intro h kv hkv
    have := List.mem_filter.mp hkv
    rw [h kv this.1 this.2]; simp

end RtVerif.C05DA
