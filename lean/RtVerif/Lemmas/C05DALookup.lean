import RtVerif.Lemmas.C05DA
/-  C05DA, part 2: `lookup` on an array that represents a trie node answers as the DFS `C05.look`. -/
namespace RtVerif.C05DA
open RtVerif Bytes
open RtVerif.C05 (Rec cParam cWild cTerm cSep isReserved notKeySep notPathSep sortRecs advLit advSingle
  advWild leafOf hasSingle weight look first Found)

/-- the answer of the trie model, as `lookup` reports it -/
def ofLook : Option Found → LRes
  | some f => .found (some ⟨f.r.names, f.r.val⟩) f.vals
  | none => .miss

def orElse (a : Option Found) (b : LRes) : LRes :=
  match a with
  | some f => ofLook (some f)
  | none => b

/-- what `C05.look` tries at a node once the literal edge has failed: parameter, then wildcard -/
def alt (rs : List Rec) (p : Bytes) (vals : List Bytes) : Option Found :=
  first (if _h : hasSingle rs = true then
      look (advSingle rs) (p.dropWhile notPathSep) (vals ++ [p.takeWhile notPathSep]) else none) fun _ =>
    (leafOf (advWild rs)).map fun r => ⟨r, vals ++ [p]⟩

theorem look_cons (rs : List Rec) (c : UInt8) (rest : Bytes) (vals : List Bytes) :
    look rs (c :: rest) vals =
      first (if isReserved c then none else look (advLit c rs) rest vals) (fun _ => alt rs (c :: rest) vals) := by
  rw [C05.look.eq_2]; rfl

/-- `rec` (the recursive `lookup`) answers as the trie model from every node lighter than `n` -/
def RecOK (bc : BC) (node : Array (Option Node)) (rec : Bytes → List Bytes → Nat → LRes) (n : Nat) : Prop :=
  ∀ rs idx p vals, Repr bc node idx rs → TermAll rs → weight rs < n → rec p vals idx = ofLook (look rs p vals)

theorem childOf_param (rs : List Rec) : childOf cParam rs = advSingle rs := by
  unfold childOf; simp

theorem childOf_wild (rs : List Rec) : childOf cWild rs = advWild rs := by
  unfold childOf
  have : (cWild == cParam) = false := by decide
  simp [this]

theorem childOf_lit {c : UInt8} (rs : List Rec) (h1 : c ≠ cParam) (h2 : c ≠ cWild) :
    childOf c rs = advLit c rs := by
  unfold childOf
  simp [h1, h2]

theorem check_lt_size {bc : BC} {n : Nat} {c : UInt8} (h : (el bc n).check = c) (hc : c ≠ 0) : n < bc.size := by
  apply Classical.byContradiction
  intro hn
  rw [el_of_ge (by omega)] at h
  exact hc h.symm

/-- BACKTRACKING at one recorded element is what the DFS tries after the literal edge. -/
theorem backtrack_cons {bc : BC} {node : Array (Option Node)} {rec : Bytes → List Bytes → Nat → LRes}
    {n : Nat} (hrec : RecOK bc node rec n) {idx : Nat} {rs : List Rec} (hR : Repr bc node idx rs)
    (hT : TermAll rs) (hw : weight rs ≤ n) (path : Bytes) (vals : List Bytes) (i : Nat)
    (more : List (Nat × Nat)) :
    backtrack rec bc node path vals ((i, idx) :: more) =
      orElse (alt rs (path.drop i) vals) (backtrack rec bc node path vals more) := by
  cases hR with
  | leaf _ _ r _ hk hl _ =>
    exfalso
    have hm := (C05.leafOf_some hl).1
    exact (hT r hm).ne_nil (hk r hm)
  | inner _ _ hlt hne hk hsingle hwild hno hyes hrepr =>
    have hp0 : cParam ≠ 0 := by decide
    have hw0 : cWild ≠ 0 := by decide
    -- the wildcard alternative
    have hwildOr : wildOr bc node path vals i idx (fun _ => backtrack rec bc node path vals more) =
        orElse ((leafOf (advWild rs)).map fun r => ⟨r, vals ++ [path.drop i]⟩)
          (backtrack rec bc node path vals more) := by
      unfold wildOr
      rw [hwild]
      cases hx : advWild rs with
      | nil => simp [leafOf, orElse]
      | cons x xs =>
        have hne' : childOf cWild rs ≠ [] := by rw [childOf_wild, hx]; simp
        have hc := hyes cWild hw0 hne'
        have hr := hrepr cWild hw0 hne'
        rw [childOf_wild] at hr
        obtain ⟨r, hl, hn⟩ := hr.leaf_inv (advWild_keys rs)
        simp only [List.isEmpty_cons, Bool.not_false, ↓reduceIte]
        unfold wildStep
        rw [if_pos (check_lt_size hc hw0), hn, ← hx, hl]
        rfl
    rw [backtrack]
    unfold singleOr alt
    rw [hsingle]
    cases hs : hasSingle rs with
    | false =>
      simp only [Bool.false_eq_true, ↓reduceIte, ↓reduceDIte, first]
      exact hwildOr
    | true =>
      have hne' : childOf cParam rs ≠ [] := by rw [childOf_param]; exact hasSingle_advSingle_ne_nil hs
      have hc := hyes cParam hp0 hne'
      have hr := hrepr cParam hp0 hne'
      rw [childOf_param] at hr
      have hlt' := check_lt_size hc hp0
      have hwl : weight (advSingle rs) < n := Nat.lt_of_lt_of_le (C05.weight_advSingle_lt hs) hw
      have := hrec (advSingle rs) _ ((path.drop i).dropWhile notPathSep)
        (vals ++ [(path.drop i).takeWhile notPathSep]) hr (termAll_advSingle hT) hwl
      simp only [↓reduceIte, ↓reduceDIte, ge_iff_le, Nat.not_le.mpr hlt', this]
      cases hlook : look (advSingle rs) ((path.drop i).dropWhile notPathSep)
          (vals ++ [(path.drop i).takeWhile notPathSep]) with
      | some f => simp [ofLook, first, orElse]
      | none =>
        simp only [ofLook, first]
        exact hwildOr

/-- an element without parameter flags: the DFS has no alternative there -/
theorem alt_none_of_flags {bc : BC} {node : Array (Option Node)} {idx : Nat} {rs : List Rec}
    (hR : Repr bc node idx rs) (hT : TermAll rs) (hf : (el bc idx).isAnyParam = false)
    (p : Bytes) (vals : List Bytes) : alt rs p vals = none := by
  cases hR with
  | leaf _ _ r _ hk hl _ =>
    exfalso
    have hm := (C05.leafOf_some hl).1
    exact (hT r hm).ne_nil (hk r hm)
  | inner _ _ hlt hne hk hsingle hwild hno hyes hrepr =>
    unfold Elem.isAnyParam at hf
    simp only [Bool.or_eq_false_iff] at hf
    rw [hsingle] at hf
    rw [hwild] at hf
    unfold alt
    have h2 : advWild rs = [] := by
      have := hf.2
      cases hx : advWild rs with
      | nil => rfl
      | cons x xs => rw [hx] at this; simp at this
    simp [hf.1, first, h2, leafOf]

/-- The literal walk followed by the termination test / BACKTRACKING computes the DFS. -/
theorem walk_spec {bc : BC} {node : Array (Option Node)} {rec : Bytes → List Bytes → Nat → LRes}
    {n : Nat} (hrec : RecOK bc node rec n) (path : Bytes) (vals : List Bytes) (suffix : Bytes) :
    ∀ (i idx : Nat) (rs : List Rec) (ind0 : List (Nat × Nat)), Repr bc node idx rs → TermAll rs →
      weight rs ≤ n → path.drop i = suffix →
      finish rec bc node path vals (walk bc suffix i idx ind0) =
        orElse (look rs suffix vals) (backtrack rec bc node path vals ind0) := by
  induction suffix with
  | nil =>
    intro i idx rs ind0 hR hT hw hp
    rw [walk, C05.look.eq_1]
    unfold finish termStep
    have hlt := hR.lt_size
    cases hR with
    | leaf _ _ r _ hk hl _ =>
      exfalso
      have hm := (C05.leafOf_some hl).1
      exact (hT r hm).ne_nil (hk r hm)
    | inner _ _ _ hne hk hsingle hwild hno hyes hrepr =>
      have ht0 : cTerm ≠ 0 := by decide
      have hch : childOf cTerm rs = advLit cTerm rs := childOf_lit rs (by decide) (by decide)
      cases hx : advLit cTerm rs with
      | nil =>
        have := hno cTerm ht0 (by rw [hch, hx])
        simp only [hlt, ↓reduceIte, Bool.and_eq_true, decide_eq_true_eq, beq_iff_eq, this, and_false,
          leafOf, List.filter_nil, List.getLast?_nil, Option.map_none, orElse]
      | cons x xs =>
        have hne' : childOf cTerm rs ≠ [] := by rw [hch, hx]; simp
        have hc := hyes cTerm ht0 hne'
        have hr := hrepr cTerm ht0 hne'
        rw [hch] at hr
        obtain ⟨r, hl, hn⟩ := hr.leaf_inv (advLit_term_keys hT)
        rw [← hx, hl]
        simp only [hlt, ↓reduceIte, check_lt_size hc ht0, decide_true, hc, beq_self_eq_true,
          Bool.and_self, hn, Option.map_some, orElse, ofLook]
  | cons c rest ih =>
    intro i idx rs ind0 hR hT hw hp
    have hlt := hR.lt_size
    rw [walk, if_pos hlt, look_cons]
    -- what the walk leaves on the stack for this element, and what BACKTRACKING does with it
    have hbt : backtrack rec bc node path vals
          (if (el bc idx).isAnyParam = true then (i, idx) :: ind0 else ind0) =
        orElse (alt rs (c :: rest) vals) (backtrack rec bc node path vals ind0) := by
      split
      · rw [backtrack_cons hrec hR hT hw, hp]
      · rename_i hf
        rw [alt_none_of_flags hR hT (by simpa using hf)]; rfl
    by_cases hres : isReserved c = true
    · simp only [hres, ↓reduceIte, first, finish]
      exact hbt
    · simp only [hres, Bool.false_eq_true, ↓reduceIte]
      have hres' : isReserved c = false := by simpa using hres
      unfold isReserved at hres'
      simp only [Bool.or_eq_false_iff, beq_eq_false_iff_ne, ne_eq] at hres'
      obtain ⟨⟨⟨hcp, hcw⟩, hct⟩, hc0⟩ := hres'
      have hch : childOf c rs = advLit c rs := childOf_lit rs hcp hcw
      cases hR with
      | leaf _ _ r _ hk hl _ =>
        exfalso
        have hm := (C05.leafOf_some hl).1
        exact (hT r hm).ne_nil (hk r hm)
      | inner _ _ _ hne hk hsingle hwild hno hyes hrepr =>
        cases hx : advLit c rs with
        | nil =>
          have hnc := hno c hc0 (by rw [hch, hx])
          rw [look_nil]
          simp only [first]
          by_cases hge : nextIndex (el bc idx).base c ≥ bc.size
          · simp only [hge, ↓reduceIte, finish]; exact hbt
          · simp only [hge, ↓reduceIte, bne_iff_ne, ne_eq, hnc, not_false_eq_true, finish]; exact hbt
        | cons x xs =>
          have hne' : childOf c rs ≠ [] := by rw [hch, hx]; simp
          have hc := hyes c hc0 hne'
          have hr := hrepr c hc0 hne'
          rw [hch] at hr
          have hlt' := check_lt_size hc hc0
          have hwl : weight (advLit c rs) ≤ n := Nat.le_trans (weight_advLit_le c rs) hw
          have hp' : path.drop (i + 1) = rest := by
            have : path.drop (i + 1) = (path.drop i).drop 1 := by rw [List.drop_drop]
            rw [this, hp]; rfl
          have := ih (i + 1) _ (advLit c rs)
            (if (el bc idx).isAnyParam = true then (i, idx) :: ind0 else ind0) hr
            (termAll_advLit hT hct) hwl hp'
          simp only [ge_iff_le, Nat.not_le.mpr hlt', ↓reduceIte, bne_iff_ne, ne_eq, hc,
            not_true_eq_false]
          rw [this, ← hx]
          cases hlook : look (advLit c rs) rest vals with
          | some f => simp [first, orElse]
          | none => simp only [first, orElse]; exact hbt

/-- **Refinement of `lookup`.** On arrays that represent the trie node `rs` at `idx`, the recursive
`doubleArray.lookup` with fuel beyond the weight of the node returns what the DFS returns: the same
leaf (names, value) with the same parameter texts, or the same miss; it neither panics nor runs out
of fuel. -/
theorem lookupF_spec (bc : BC) (node : Array (Option Node)) :
    ∀ (fuel : Nat) (rs : List Rec) (idx : Nat) (path : Bytes) (vals : List Bytes),
      Repr bc node idx rs → TermAll rs → weight rs < fuel →
      lookupF bc node fuel path vals idx = ofLook (look rs path vals) := by
  intro fuel
  induction fuel with
  | zero => intro rs idx path vals _ _ hw; omega
  | succ f ih =>
    intro rs idx path vals hR hT hw
    rw [lookupF]
    have hrec : RecOK bc node (lookupF bc node f) f := fun rs idx p vals hR hT hw => ih rs idx p vals hR hT hw
    rw [walk_spec hrec path vals path 0 idx rs [] hR hT (by omega) rfl]
    cases look rs path vals <;> rfl

end RtVerif.C05DA
