import RtVerif.Model.C01
import RtVerif.Lemmas.C01Bridge
/-
  C01, composite segments: a template segment `pre {n0} st0 {n1} st1 … {nk} stk`.

  * `greedy` is `decodeCompositParams` on the structured pattern (leftmost occurrence of every
    separator, `HasSuffix` for the text after the last placeholder); `decodeComposite_eq` shows the
    transcription of the Go function computes it on the pattern *text* `st0 {n1} st1 … {nk} stk`.
  * `mem_splitsAt`, `mem_allInst`: the enumerator used by the Spec lists exactly the instantiations.
  * `greedy_complete`: whenever the text has an instantiation at all, the leftmost splitting is one.
  * `unique_of_sepOnce`: the explicit class with exactly one instantiation.
-/
namespace RtVerif.C01
open RtVerif Bytes

/-! ### the pattern text -/

/-- `{n1} st1 {n2} st2 …` -/
def segText : List (Bytes × Bytes) → Bytes
  | [] => []
  | (n, st) :: r => lbrace :: (n ++ rbrace :: (st ++ segText r))

/-- the pattern handed to `decodeCompositParams` for the first placeholder: what follows `{n0}` -/
def patAfter (st0 : Bytes) (r : List (Bytes × Bytes)) : Bytes := st0 ++ segText r

/-- names and static texts are free of braces -/
def PhsWF (phs : List (Bytes × Bytes)) : Prop :=
  ∀ p ∈ phs, p.1.all notBrace = true ∧ p.2.all notBrace = true

/-- what `decodeCompositParams` computes, on the structured pattern -/
def greedy : List (Bytes × Bytes) → Bytes → List Bytes
  | [], _ => []
  | (_, st) :: [], t => [if hasSuffix t st then t.take (t.length - st.length) else []]
  | (_, st) :: (q :: r), t =>
    match indexOf st t with
    | some i => t.take i :: greedy (q :: r) (t.drop (i + st.length))
    | none => [] :: greedy (q :: r) []

theorem greedy_length (phs : List (Bytes × Bytes)) (t : Bytes) : (greedy phs t).length = phs.length := by
  induction phs generalizing t with
  | nil => rfl
  | cons p r ih =>
    cases r with
    | nil => rfl
    | cons q r' =>
      simp only [greedy]
      split <;> simp [ih]

/-! ### `indexOf` -/

theorem indexOf_go_skip (pat a rest : Bytes) (i : Nat)
    (h : ∀ k, k < a.length → pat.isPrefixOf ((a ++ rest).drop k) = false) :
    indexOf.go pat (a ++ rest) i = indexOf.go pat rest (i + a.length) := by
  induction a generalizing i with
  | nil => rfl
  | cons c a' ih =>
    have h0 := h 0 (by simp)
    simp only [List.drop_zero, List.cons_append] at h0
    simp only [List.cons_append, indexOf.go, h0, Bool.false_eq_true, ↓reduceIte]
    rw [ih (i + 1)]
    · congr 1; simp only [List.length_cons]; omega
    · intro k hk
      have := h (k + 1) (by simp only [List.length_cons]; omega)
      simpa using this

theorem single_not_prefix {c : UInt8} {l : Bytes} (k : Nat) (h : c ∉ l) (rest : Bytes) (hk : k < l.length) :
    [c].isPrefixOf ((l ++ rest).drop k) = false := by
  obtain ⟨x, tl, hd, hx⟩ := drop_append_lt l rest k hk
  rw [hd]
  have : (c == x) = false := by
    simp only [beq_eq_false_iff_ne, ne_eq]
    intro e; exact h (e ▸ hx)
  simp [List.isPrefixOf, this]

/-- `strings.Index(a + c + b, c) = len(a)` when the byte `c` does not occur in `a` -/
theorem indexOf_single (c : UInt8) (a b : Bytes) (h : c ∉ a) : indexOf [c] (a ++ c :: b) = some a.length := by
  unfold indexOf
  rw [indexOf_go_skip [c] a (c :: b) 0 (fun k hk => single_not_prefix k h _ hk)]
  simp [indexOf.go, List.isPrefixOf]

theorem indexOf_single_none (c : UInt8) (a : Bytes) (h : c ∉ a) : indexOf [c] a = none := by
  unfold indexOf
  have := indexOf_go_skip [c] a [] 0 (fun k hk => single_not_prefix k h _ hk)
  rw [List.append_nil] at this
  rw [this]
  simp [indexOf.go]

theorem isPrefixOf_append_self (p r : Bytes) : p.isPrefixOf (p ++ r) = true := by
  induction p with
  | nil => simp [List.isPrefixOf]
  | cons c p' ih => simp [List.isPrefixOf, ih]

theorem eq_append_of_isPrefixOf {p s : Bytes} (h : p.isPrefixOf s = true) : s = p ++ s.drop p.length := by
  induction p generalizing s with
  | nil => rfl
  | cons c p' ih =>
    cases s with
    | nil => simp [List.isPrefixOf] at h
    | cons d s' =>
      simp only [isPrefixOf_cons₂, Bool.and_eq_true, beq_iff_eq] at h
      simp only [List.length_cons, List.drop_succ_cons, List.cons_append, List.cons.injEq]
      exact ⟨h.1.symm, ih h.2⟩

/-- the leftmost occurrence: if `pat` occurs at `a.length`, `indexOf` finds a position not after it -/
theorem indexOf_go_le (pat a b : Bytes) (i : Nat) :
    ∃ j, j ≤ a.length ∧ indexOf.go pat (a ++ (pat ++ b)) i = some (i + j) := by
  induction a generalizing i with
  | nil =>
    refine ⟨0, Nat.le_refl _, ?_⟩
    cases hp : pat ++ b with
    | nil =>
      have : pat = [] := by
        cases pat with
        | nil => rfl
        | cons x y => simp at hp
      simp [indexOf.go, this]
    | cons c t =>
      have hpre := isPrefixOf_append_self pat b
      rw [hp] at hpre
      simp [indexOf.go, hpre]
  | cons c a' ih =>
    simp only [List.cons_append, indexOf.go]
    split
    · exact ⟨0, Nat.zero_le _, rfl⟩
    · obtain ⟨j, hj, he⟩ := ih (i + 1)
      refine ⟨j + 1, by simp only [List.length_cons]; omega, ?_⟩
      rw [he]; congr 1; omega

theorem indexOf_le (pat a b : Bytes) : ∃ j, j ≤ a.length ∧ indexOf pat (a ++ (pat ++ b)) = some j := by
  obtain ⟨j, hj, he⟩ := indexOf_go_le pat a b 0
  exact ⟨j, hj, by unfold indexOf; rw [he]; simp⟩

/-! ### the transcription of `decodeCompositParams` computes `greedy` -/

theorem notBrace_lbrace {l : Bytes} (h : l.all notBrace = true) : lbrace ∉ l := by
  intro hm
  have := List.all_eq_true.mp h _ hm
  simp [notBrace] at this

theorem notBrace_rbrace {l : Bytes} (h : l.all notBrace = true) : rbrace ∉ l := by
  intro hm
  have := List.all_eq_true.mp h _ hm
  simp [notBrace] at this

theorem segText_length (r : List (Bytes × Bytes)) : 2 * r.length ≤ (segText r).length := by
  induction r with
  | nil => simp [segText]
  | cons p r' ih =>
    obtain ⟨n, st⟩ := p
    simp only [segText, List.length_cons, List.length_append]
    omega

theorem decodeComposite_eq (r : List (Bytes × Bytes)) :
    ∀ (fuel : Nat) (n0 st0 t : Bytes), PhsWF ((n0, st0) :: r) → r.length < fuel →
      decodeComposite fuel n0 t (patAfter st0 r) =
        some ((((n0, st0) :: r).map (·.1)).zip (greedy ((n0, st0) :: r) t)) := by
  induction r with
  | nil =>
    intro fuel n0 st0 t hw hf
    cases fuel with
    | zero => omega
    | succ f =>
      have hst := (hw (n0, st0) List.mem_cons_self).2
      simp only [patAfter, segText, List.append_nil, decodeComposite,
        indexOf_single_none lbrace st0 (notBrace_lbrace hst)]
      split <;> simp [greedy, *]
  | cons p r' ih =>
    intro fuel n0 st0 t hw hf
    obtain ⟨n1, st1⟩ := p
    cases fuel with
    | zero => omega
    | succ f =>
      have hst0 := (hw (n0, st0) List.mem_cons_self).2
      have hn1 := (hw (n1, st1) (List.mem_cons_of_mem _ List.mem_cons_self)).1
      have hw' : PhsWF ((n1, st1) :: r') := fun x hx => hw x (List.mem_cons_of_mem _ hx)
      have hf' : r'.length < f := by simp only [List.length_cons] at hf; omega
      -- the pattern text and the two indices
      have hpat : patAfter st0 ((n1, st1) :: r') = st0 ++ lbrace :: (n1 ++ rbrace :: patAfter st1 r') := by
        simp [patAfter, segText]
      have hleft : indexOf [lbrace] (patAfter st0 ((n1, st1) :: r')) = some st0.length := by
        rw [hpat]; exact indexOf_single lbrace st0 _ (notBrace_lbrace hst0)
      have hright : indexOf [rbrace] (patAfter st0 ((n1, st1) :: r')) = some (st0.length + 1 + n1.length) := by
        have e : st0 ++ lbrace :: (n1 ++ rbrace :: patAfter st1 r') =
            (st0 ++ lbrace :: n1) ++ rbrace :: patAfter st1 r' := by simp
        rw [hpat, e, indexOf_single rbrace _ _]
        · simp; omega
        · intro hm
          rcases List.mem_append.mp hm with h | h
          · exact notBrace_rbrace hst0 h
          · rcases List.mem_cons.mp h with h | h
            · exact absurd h (by decide)
            · exact notBrace_rbrace hn1 h
      have htake : (patAfter st0 ((n1, st1) :: r')).take st0.length = st0 := by
        rw [hpat]; simp
      have hname : ((patAfter st0 ((n1, st1) :: r')).drop (st0.length + 1)).take
          (st0.length + 1 + n1.length - (st0.length + 1)) = n1 := by
        have e : st0.length + 1 + n1.length - (st0.length + 1) = n1.length := by omega
        have e2 : st0 ++ lbrace :: (n1 ++ rbrace :: patAfter st1 r') =
            (st0 ++ [lbrace]) ++ (n1 ++ rbrace :: patAfter st1 r') := by simp
        have e3 : st0.length + 1 = (st0 ++ [lbrace]).length := by simp
        rw [e, hpat, e2, e3, List.drop_left]; simp
      have hnext : (patAfter st0 ((n1, st1) :: r')).drop (st0.length + 1 + n1.length + 1) = patAfter st1 r' := by
        have e2 : st0 ++ lbrace :: (n1 ++ rbrace :: patAfter st1 r') =
            (st0 ++ lbrace :: (n1 ++ [rbrace])) ++ patAfter st1 r' := by simp
        have e3 : st0.length + 1 + n1.length + 1 = (st0 ++ lbrace :: (n1 ++ [rbrace])).length := by
          simp; omega
        rw [hpat, e2, e3, List.drop_left]
      have hlt : ¬ (st0.length + 1 + n1.length < st0.length + 1) := by omega
      rw [decodeComposite]
      simp only [hleft, hright, hlt, ↓reduceIte, htake, hname, hnext]
      cases hi : indexOf st0 t with
      | none =>
        simp only [ih f n1 st1 [] hw' hf', Option.map_some, List.map_cons, greedy, hi, List.zip_cons_cons]
      | some vright =>
        simp only [ih f n1 st1 _ hw' hf', Option.map_some, List.map_cons, greedy, hi, List.zip_cons_cons]

/-! ### the Spec's enumerator lists exactly the instantiations -/

theorem mem_splitsAt (sep t v r : Bytes) : (v, r) ∈ splitsAt sep t ↔ t = v ++ sep ++ r := by
  induction t generalizing v with
  | nil =>
    simp only [splitsAt]
    split
    · rename_i h
      have : sep = [] := by simpa using h
      subst this
      simp only [List.mem_singleton, Prod.mk.injEq, List.append_nil]
      constructor
      · rintro ⟨rfl, rfl⟩; rfl
      · intro h
        have h' := h.symm
        simp only [List.append_eq_nil_iff] at h'
        exact ⟨h'.1, h'.2⟩
    · rename_i h
      simp only [List.not_mem_nil, false_iff]
      intro he
      have h' := he.symm
      simp only [List.append_eq_nil_iff] at h'
      exact h (by simp [h'.1.2])
  | cons c t ih =>
    simp only [splitsAt, List.mem_append, List.mem_map, Prod.mk.injEq, Prod.exists]
    constructor
    · rintro (h | ⟨v', r', hm, rfl, rfl⟩)
      · split at h
        · rename_i hp
          simp only [List.mem_singleton, Prod.mk.injEq] at h
          obtain ⟨rfl, rfl⟩ := h
          simpa using eq_append_of_isPrefixOf hp
        · cases h
      · rw [(ih v').mp hm]; simp
    · intro he
      cases v with
      | nil =>
        left
        have hp : sep.isPrefixOf (c :: t) = true := by
          rw [he]; simpa using isPrefixOf_append_self sep r
        simp only [hp, ↓reduceIte, List.mem_singleton, Prod.mk.injEq, true_and]
        rw [he]; simp
      | cons d v' =>
        right
        simp only [List.cons_append, List.cons.injEq] at he
        refine ⟨v', r, (ih v').mpr (by simpa using he.2), by rw [he.1], rfl⟩

theorem renderVals_cons_iff (n st : Bytes) (r : List (Bytes × Bytes)) (vs : List Bytes) (t : Bytes) :
    renderVals ((n, st) :: r) vs = some t ↔
      ∃ v vs' rest, vs = v :: vs' ∧ renderVals r vs' = some rest ∧ t = v ++ st ++ rest := by
  cases vs with
  | nil => simp [renderVals]
  | cons v vs' =>
    simp only [renderVals, Option.map_eq_some_iff, List.cons.injEq]
    constructor
    · rintro ⟨rest, h, rfl⟩; exact ⟨v, vs', rest, ⟨rfl, rfl⟩, h, rfl⟩
    · rintro ⟨v2, vs2, rest, ⟨rfl, rfl⟩, h, rfl⟩; exact ⟨rest, h, rfl⟩

/-- **the enumerator of the Spec is exact**: `allInst phs t` lists the value lists `vs` with
`t = v0 ++ st0 ++ v1 ++ st1 ++ … ++ vk ++ stk`, and nothing else -/
theorem mem_allInst (phs : List (Bytes × Bytes)) (t : Bytes) (vs : List Bytes) :
    vs ∈ allInst phs t ↔ renderVals phs vs = some t := by
  induction phs generalizing t vs with
  | nil =>
    cases vs with
    | nil =>
      cases t with
      | nil => simp [allInst, renderVals]
      | cons c t' => simp [allInst, renderVals]
    | cons v vs' =>
      simp only [allInst, renderVals]
      split <;> simp
  | cons p r ih =>
    obtain ⟨n, st⟩ := p
    rw [renderVals_cons_iff]
    simp only [allInst, List.mem_flatMap, List.mem_map, Prod.exists]
    constructor
    · rintro ⟨v, t', hm, vs', hvs', rfl⟩
      exact ⟨v, vs', t', rfl, (ih t' vs').mp hvs', (mem_splitsAt st t v t').mp hm⟩
    · rintro ⟨v, vs', rest, rfl, hr, ht⟩
      exact ⟨v, rest, (mem_splitsAt st t v rest).mpr ht, vs', (ih rest vs').mpr hr, rfl⟩

/-! ### the leftmost splitting is an instantiation whenever there is one -/

/-- text in front of an instantiation goes into the first value -/
theorem renderVals_prepend (q : Bytes × Bytes) (r : List (Bytes × Bytes)) (us : List Bytes) (t w : Bytes)
    (h : renderVals (q :: r) us = some t) : ∃ us', renderVals (q :: r) us' = some (w ++ t) := by
  obtain ⟨n, st⟩ := q
  obtain ⟨v, vs', rest, rfl, hr, rfl⟩ := (renderVals_cons_iff n st r us t).mp h
  exact ⟨(w ++ v) :: vs', (renderVals_cons_iff n st r _ _).mpr ⟨w ++ v, vs', rest, rfl, hr, by simp⟩⟩

theorem hasSuffix_append (u st : Bytes) : hasSuffix (u ++ st) st = true := by
  simp [hasSuffix]

theorem greedy_complete (phs : List (Bytes × Bytes)) :
    ∀ (t : Bytes), (∃ us, renderVals phs us = some t) → renderVals phs (greedy phs t) = some t := by
  induction phs with
  | nil =>
    rintro t ⟨us, h⟩
    cases us with
    | nil => simpa [greedy] using h
    | cons u us' => simp [renderVals] at h
  | cons p r ih =>
    rintro t ⟨us, h⟩
    obtain ⟨n, st⟩ := p
    obtain ⟨u, us', rest, rfl, hr, rfl⟩ := (renderVals_cons_iff n st r us t).mp h
    cases r with
    | nil =>
      cases us' with
      | cons x y => simp [renderVals] at hr
      | nil =>
        simp only [renderVals, Option.some.injEq] at hr
        subst hr
        simp only [greedy, List.append_nil, hasSuffix_append, ↓reduceIte, List.length_append,
          Nat.add_sub_cancel, List.take_left', renderVals, Option.map_some]
    | cons q r' =>
      obtain ⟨j, hj, hi⟩ := indexOf_le st u rest
      have hi' : indexOf st (u ++ st ++ rest) = some j := by rw [List.append_assoc]; exact hi
      have hpre := indexOf_sound st _ j hi'
      have hsplit := eq_append_of_isPrefixOf hpre
      rw [List.drop_drop] at hsplit
      -- what is left after the leftmost separator still ends in `rest`
      have hsuf : rest <:+ (u ++ st ++ rest).drop (j + st.length) := by
        apply List.suffix_of_suffix_length_le (List.suffix_append _ _) (List.drop_suffix _ _)
        simp only [List.length_drop, List.length_append]; omega
      obtain ⟨w, hw⟩ := hsuf
      obtain ⟨us'', hus⟩ := renderVals_prepend q r' us' rest w hr
      rw [hw] at hus
      have hrec := ih _ ⟨us'', hus⟩
      simp only [greedy, hi']
      rw [(renderVals_cons_iff n st (q :: r') _ _)]
      refine ⟨_, _, _, rfl, hrec, ?_⟩
      have := (List.take_append_drop j (u ++ st ++ rest)).symm
      rw [hsplit] at this
      simpa [List.append_assoc] using this

/-! ### the class with exactly one instantiation -/

/-- in `u ++ st ++ rest` the separator `st` occurs at its designated place only -/
def OnlyAt (st u rest : Bytes) : Prop := ∀ a b, u ++ st ++ rest = a ++ st ++ b → a = u

/-- every separator between two placeholders occurs, in the text that remains from the value in
front of it on, at its designated place only.  (The text after the last placeholder is anchored
at the end of the segment: no condition.)  Adjacent placeholders (`st = []`) are outside. -/
def SepOnce : List (Bytes × Bytes) → List Bytes → Prop
  | (_, st) :: q :: r, u :: us =>
    (∃ rest, renderVals (q :: r) us = some rest ∧ OnlyAt st u rest) ∧ SepOnce (q :: r) us
  | _, _ => True

theorem unique_of_sepOnce (phs : List (Bytes × Bytes)) :
    ∀ (us : List Bytes) (t : Bytes), renderVals phs us = some t → SepOnce phs us →
      ∀ us', renderVals phs us' = some t → us' = us := by
  induction phs with
  | nil =>
    intro us t h _ us' h'
    cases us with
    | cons a b => simp [renderVals] at h
    | nil =>
      cases us' with
      | cons a b => simp [renderVals] at h'
      | nil => rfl
  | cons p r ih =>
    intro us t h hs us' h'
    obtain ⟨n, st⟩ := p
    obtain ⟨u, us1, rest, rfl, hr, rfl⟩ := (renderVals_cons_iff n st r us t).mp h
    obtain ⟨u', us1', rest', rfl, hr', ht'⟩ := (renderVals_cons_iff n st r us' _).mp h'
    cases r with
    | nil =>
      cases us1 with
      | cons a b => simp [renderVals] at hr
      | nil =>
        cases us1' with
        | cons a b => simp [renderVals] at hr'
        | nil =>
          simp only [renderVals, Option.some.injEq] at hr hr'
          subst hr; subst hr'
          simp only [List.append_nil, List.append_cancel_right_eq] at ht'
          rw [ht']
    | cons q r' =>
      simp only [SepOnce] at hs
      obtain ⟨⟨rest0, hr0, honly⟩, hs'⟩ := hs
      rw [hr] at hr0
      simp only [Option.some.injEq] at hr0
      subst hr0
      have hu : u' = u := honly u' rest' ht'
      subst hu
      simp only [List.append_assoc, List.append_cancel_left_eq] at ht'
      subst ht'
      rw [ih us1 _ hr hs' us1' hr']

/-- a one-byte separator that occurs neither in the value in front of it nor in the text behind it -/
theorem onlyAt_single (c : UInt8) (u rest : Bytes) (hu : c ∉ u) (hr : c ∉ rest) : OnlyAt [c] u rest := by
  intro a b h
  induction u generalizing a with
  | nil =>
    cases a with
    | nil => rfl
    | cons x a' =>
      exfalso
      simp only [List.nil_append, List.cons_append, List.cons.injEq] at h
      apply hr
      rw [h.2]; simp
  | cons y u' ih =>
    cases a with
    | nil =>
      exfalso
      simp only [List.cons_append, List.nil_append, List.cons.injEq] at h
      exact hu (by rw [h.1]; exact List.mem_cons_self)
    | cons x a' =>
      simp only [List.cons_append, List.cons.injEq] at h
      rw [h.1, ih (fun hm => hu (List.mem_cons_of_mem _ hm)) a' (by simpa using h.2)]

/-! ### `paramsOf` on the first placeholder of a composite segment -/

theorem map_zip_decode (names : List Bytes) (vals : List Bytes) :
    (names.zip vals).map (fun kv => (kv.1, decode kv.2)) = names.zip (vals.map decode) := by
  induction names generalizing vals with
  | nil => rfl
  | cons n ns ih =>
    cases vals with
    | nil => rfl
    | cons v vs => simp [ih]

/-- The call `defaultRouter.Lookup` makes for the captured text `raw` of a segment whose pattern is
`… {n0} st0 {n1} st1 … {nk} stk` inside the template `tmpl = A ++ {n0} ++ pattern ++ B`:
the raw text is split leftmost-first and every fragment is decoded. -/
theorem paramsOf_composite (A B n0 st0 : Bytes) (r : List (Bytes × Bytes)) (raw : Bytes)
    (hw : PhsWF ((n0, st0) :: r))
    (hidx : indexOf (needleOf n0) (A ++ needleOf n0 ++ patAfter st0 r ++ B) = some A.length)
    (hne : patAfter st0 r ≠ []) (hns : slash ∉ patAfter st0 r)
    (hB : B = [] ∨ ∃ B', B = slash :: B') :
    paramsOf (A ++ needleOf n0 ++ patAfter st0 r ++ B) n0 raw =
      some ((((n0, st0) :: r).map (·.1)).zip ((greedy ((n0, st0) :: r) raw).map decode)) := by
  unfold paramsOf
  have hneedle : lbrace :: n0 ++ [rbrace] = needleOf n0 := rfl
  simp only [hneedle, hidx]
  have hnl : (needleOf n0).length = n0.length + 2 := by simp [needleOf]
  have hdrop : (A ++ needleOf n0 ++ patAfter st0 r ++ B).drop (A.length + n0.length + 2) = patAfter st0 r ++ B := by
    have e : A.length + n0.length + 2 = (A ++ needleOf n0).length := by simp [hnl]; omega
    rw [e, List.append_assoc (A ++ needleOf n0), List.drop_left]
  obtain ⟨c, pt, hpt⟩ : ∃ c pt, patAfter st0 r = c :: pt := by
    cases h : patAfter st0 r with
    | nil => exact absurd h hne
    | cons c pt => exact ⟨c, pt, rfl⟩
  have hc : c ≠ slash := by
    intro e; apply hns; rw [hpt, e]; exact List.mem_cons_self
  have hlt : A.length + n0.length + 2 < (A ++ needleOf n0 ++ patAfter st0 r ++ B).length := by
    simp only [List.length_append, hnl, hpt, List.length_cons]; omega
  have hget : (A ++ needleOf n0 ++ patAfter st0 r ++ B)[A.length + n0.length + 2]? = some c := by
    rw [getElem?_eq_head?_drop, hdrop, hpt]; rfl
  have hcond : (decide (A.length + n0.length + 2 < (A ++ needleOf n0 ++ patAfter st0 r ++ B).length) &&
      (A ++ needleOf n0 ++ patAfter st0 r ++ B)[A.length + n0.length + 2]? != some slash) = true := by
    rw [hget]
    simp only [hlt, decide_true, Bool.true_and, bne_iff_ne, ne_eq, Option.some.injEq]
    exact hc
  simp only [hcond, ↓reduceIte, hdrop]
  have hall : (patAfter st0 r).all (· != slash) = true := by
    simp only [List.all_eq_true, bne_iff_ne, ne_eq]
    intro x hx e; exact hns (e ▸ hx)
  have htw : (patAfter st0 r ++ B).takeWhile (· != slash) = patAfter st0 r := by
    rcases hB with rfl | ⟨B', rfl⟩
    · rw [List.append_nil]; exact (takeWhile_all _ _ hall).1
    · exact (takeWhile_append_stop _ _ _ _ hall (by simp)).1
  rw [htw, decodeComposite_eq r _ n0 st0 raw hw (by
    have := segText_length r
    simp only [patAfter, List.length_append]; omega)]
  simp only [Option.map_some, map_zip_decode]

end RtVerif.C01
