import RtVerif.Model.C13
/-
  C13 — helper lemmas: spans (`takeWhile`/`dropWhile`), the token grammar, infix search,
  byte-level case facts, and the step invariant of the concurrency model.
-/
namespace RtVerif.C13
open RtVerif Bytes

/-! ### finite facts about bytes -/

theorem all256 (P : UInt8 → Prop) (h : ∀ n : Fin 256, P (UInt8.ofFin n)) : ∀ b : UInt8, P b := by
  intro b
  have := h b.toFin
  simpa using this

set_option maxRecDepth 4000 in
theorem toLowerB_idem : ∀ b : UInt8, toLowerB (toLowerB b) = toLowerB b := by
  apply all256; decide

set_option maxRecDepth 4000 in
theorem toLowerB_upper : ∀ b : UInt8, toLowerB (toUpperB b) = toLowerB b := by
  apply all256; decide

set_option maxRecDepth 4000 in
theorem toLowerB_ne_semi : ∀ b : UInt8, (toLowerB b != 59) = (b != 59) := by
  apply all256; decide

set_option maxRecDepth 4000 in
theorem toUpperB_ne_semi : ∀ b : UInt8, (toUpperB b != 59) = (b != 59) := by
  apply all256; decide

theorem slash_not_token : isTokenChar 47 = false := by decide
theorem semi_not_token : isTokenChar 59 = false := by decide

/-! ### spans -/

theorem takeWhile_append_stop {α : Type} (p : α → Bool) (a b : List α)
    (ha : a.all p = true) (hb : ∀ x ∈ b.head?, p x = false) : (a ++ b).takeWhile p = a := by
  induction a with
  | nil =>
    cases b with
    | nil => rfl
    | cons x xs => simp [hb x (by simp)]
  | cons y ys ih =>
    simp only [List.all_cons, Bool.and_eq_true] at ha
    simp [ha.1, ih ha.2]

theorem dropWhile_append_stop {α : Type} (p : α → Bool) (a b : List α)
    (ha : a.all p = true) (hb : ∀ x ∈ b.head?, p x = false) : (a ++ b).dropWhile p = b := by
  induction a with
  | nil =>
    cases b with
    | nil => rfl
    | cons x xs => simp [hb x (by simp)]
  | cons y ys ih =>
    simp only [List.all_cons, Bool.and_eq_true] at ha
    simp [ha.1, ih ha.2]

theorem dropWhile_nil_iff {α : Type} (p : α → Bool) (l : List α) :
    l.dropWhile p = [] ↔ l.all p = true := by
  induction l with
  | nil => simp
  | cons x xs ih =>
    simp only [List.dropWhile_cons, List.all_cons, Bool.and_eq_true]
    by_cases h : p x = true <;> simp [h, ih]

theorem takeWhile_of_all {α : Type} (p : α → Bool) (l : List α) (h : l.all p = true) :
    l.takeWhile p = l := by
  have := takeWhile_append_stop p l [] h (by simp)
  simpa using this

/-- the head of what `dropWhile` leaves fails the predicate -/
theorem dropWhile_head {α : Type} (p : α → Bool) (l : List α) :
    ∀ x ∈ (l.dropWhile p).head?, p x = false := by
  intro x hx
  have := List.head?_dropWhile_not p l
  rw [Option.mem_def] at hx
  rw [hx] at this
  exact this

/-! ### tokens -/

theorem isToken_iff_span (s : Bytes) :
    isToken s = true ↔ (s.takeWhile isTokenChar ≠ [] ∧ s.dropWhile isTokenChar = []) := by
  unfold isToken
  constructor
  · intro h
    simp only [Bool.and_eq_true, Bool.not_eq_true', List.isEmpty_eq_false_iff] at h
    refine ⟨?_, (dropWhile_nil_iff _ _).2 h.2⟩
    rw [takeWhile_of_all _ _ h.2]; exact h.1
  · intro ⟨h1, h2⟩
    have hall := (dropWhile_nil_iff _ _).1 h2
    rw [takeWhile_of_all _ _ hall] at h1
    simp [hall, h1]

theorem isToken_all {s : Bytes} (h : isToken s = true) : s.all isTokenChar = true := by
  unfold isToken at h; simp only [Bool.and_eq_true] at h; exact h.2

theorem isToken_ne_nil {s : Bytes} (h : isToken s = true) : s ≠ [] := by
  unfold isToken at h
  simp only [Bool.and_eq_true, Bool.not_eq_true', List.isEmpty_eq_false_iff] at h
  exact h.1

/-- token characters are not slashes -/
theorem all_token_no_slash {s : Bytes} (h : s.all isTokenChar = true) : s.all (· != 47) = true := by
  rw [List.all_eq_true] at *
  intro x hx
  have := h x hx
  by_cases e : x = 47
  · subst e; simp [slash_not_token] at this
  · simpa using e

theorem not_token_of_mem {s : Bytes} {c : UInt8} (hc : c ∈ s) (hn : isTokenChar c = false) :
    isToken s = false := by
  unfold isToken
  have : s.all isTokenChar = false := by
    rw [Bool.eq_false_iff]; intro h
    rw [List.all_eq_true] at h
    simp [h c hc] at hn
  simp [this]

/-! ### infix search -/

theorem isInfixB_append (p a b : Bytes) : isInfixB p (a ++ (p ++ b)) = true := by
  induction a with
  | nil =>
    cases hpb : p ++ b with
    | nil =>
      have : p = [] := (List.append_eq_nil_iff.1 hpb).1
      simp [isInfixB, this]
    | cons x xs =>
      simp only [List.nil_append, isInfixB, Bool.or_eq_true]
      left
      rw [← hpb, List.isPrefixOf_iff_prefix]
      exact List.prefix_append _ _
  | cons y ys ih =>
    simp only [List.cons_append, isInfixB, Bool.or_eq_true]
    right; exact ih

/-! ### the concurrency model: one local step, given the memoised client -/

/-- what a call does in one step when the shared client it may read is `v` -/
def lstep {κ : Type} (cfg : Cfg κ) (net : Op → Resp) (v : ClientTok) (c : Call κ) : Call κ :=
  (step cfg net ⟨some v⟩ c).2

def iter {α : Type} (f : α → α) : Nat → α → α
  | 0, a => a
  | n + 1, a => iter f n (f a)

/-- the shared client is the initial one or the memoised one, and the memoised one as soon as any
call is past its `clientOnce.Do` -/
def Inv {κ : Type} (sh₀ sh : Shared) (cs : Nat → Call κ) : Prop :=
  (sh.client = sh₀.client ∨ sh.client = some (sh₀.client.getD .rt)) ∧
  ∀ j, 2 ≤ (cs j).pc → sh.client = some (sh₀.client.getD .rt)

theorem step_local {κ : Type} (cfg : Cfg κ) (net : Op → Resp) (sh₀ sh : Shared) (cs : Nat → Call κ)
    (i : Nat) (h : Inv sh₀ sh cs) :
    (step cfg net sh (cs i)).2 = lstep cfg net (sh₀.client.getD .rt) (cs i) := by
  unfold lstep step
  split <;> try rfl
  · -- pc = 3 reads r.client
    rename_i hpc
    have := h.2 i (by omega)
    rw [this]

theorem step_cases {κ : Type} (cfg : Cfg κ) (net : Op → Resp) (sh : Shared) (c : Call κ) :
    (c.pc = 1 ∧ (step cfg net sh c).1.client = some (sh.client.getD .rt)) ∨
    (c.pc ≠ 1 ∧ (step cfg net sh c).1 = sh ∧ (2 ≤ (step cfg net sh c).2.pc → 2 ≤ c.pc)) := by
  unfold step
  split
  · right; simp_all
  · left; simp_all
  · right; simp_all
  · right; simp_all
  · right; simp_all
  · right; simp_all
  · right
    rename_i h0 h1 h2 h3 h4 h5
    exact ⟨h1, rfl, fun h => h⟩

theorem step_inv {κ : Type} (cfg : Cfg κ) (net : Op → Resp) (sh₀ sh : Shared) (cs : Nat → Call κ)
    (i : Nat) (h : Inv sh₀ sh cs) :
    Inv sh₀ (step cfg net sh (cs i)).1 (upd cs i (step cfg net sh (cs i)).2) := by
  rcases step_cases cfg net sh (cs i) with ⟨_, e⟩ | ⟨_, e, hpc⟩
  · have hv : (step cfg net sh (cs i)).1.client = some (sh₀.client.getD .rt) := by
      rw [e]
      rcases h.1 with e' | e' <;> simp [e']
    exact ⟨Or.inr hv, fun _ _ => hv⟩
  · rw [e]
    refine ⟨h.1, ?_⟩
    intro j hj
    unfold upd at hj
    split at hj
    · exact h.2 i (hpc hj)
    · exact h.2 j hj

/-! ### the regenerated facts say what the Spec's literals say

These two fail to compile if Submit reads another header or falls back to another key. -/

theorem ctHeader_eq : ctHeader = contentTypeName := rfl
theorem fallbackKey_eq : fallbackKey = catchAll := rfl

/-! ### helpers for the property theorems -/

theorem checkSubtype_none_iff (r : Bytes) : checkSubtype r = none ↔ isToken r = true := by
  unfold checkSubtype consumeToken
  rw [isToken_iff_span]
  by_cases h1 : (r.takeWhile isTokenChar).isEmpty = true
  · simp only [h1, if_true]
    simp only [List.isEmpty_iff] at h1
    simp [h1]
  · simp only [h1, if_false, Bool.false_eq_true]
    simp only [List.isEmpty_iff] at h1
    by_cases h2 : (r.dropWhile isTokenChar).isEmpty = true
    · simp only [h2, Bool.not_true, Bool.false_eq_true, if_false]
      simp only [List.isEmpty_iff] at h2
      simp [h1, h2]
    · simp only [h2, Bool.not_false, if_true]
      simp only [List.isEmpty_iff] at h2
      simp [h2]

theorem names_noConsumer (ct : Bytes) : names ct (noConsumerMsg ct) = true := by
  unfold names noConsumerMsg
  have := isInfixB_append (goQuote ct) (ofStr "no consumer: ") []
  rw [List.append_nil] at this
  simp [this]

theorem names_parseErr (ct : Bytes) (e : MimeErr) : names ct (parseErrMsg ct e) = true := by
  unfold names parseErrMsg
  have := isInfixB_append (goQuote ct) (ofStr "parse content type ") (ofStr ": " ++ e.msg)
  simp only [List.append_assoc]
  simp [this]

theorem toLower_beforeSemi (s : Bytes) : beforeByte (toLower s) 59 = toLower (beforeByte s 59) := by
  unfold beforeByte toLower
  rw [List.takeWhile_map]
  congr 2
  funext b
  exact toLowerB_ne_semi b

theorem toLower_idem (s : Bytes) : toLower (toLower s) = toLower s := by
  unfold toLower
  rw [List.map_map]
  congr 1
  funext b
  exact toLowerB_idem b

theorem toLower_toUpper (s : Bytes) : toLower (toUpper s) = toLower s := by
  unfold toLower toUpper
  rw [List.map_map]
  congr 1
  funext b
  exact toLowerB_upper b

/-- the model reads the content type as the Spec does: first `Content-Type` value (any spelling
of the name), the default when there is none or it is empty -/
theorem contentType_eq_spec (h : Headers) (dflt : Bytes) : contentTypeOf h dflt = specContentType h dflt := by
  unfold contentTypeOf specContentType headerGet headerValues
  rw [ctHeader_eq]
  cases (h.filter fun e => equalFold e.1 contentTypeName).map (·.2) with
  | nil => simp
  | cons v vs => simp

theorem finish_client {κ : Type} (cfg : Cfg κ) (op : Op) (resp : Resp) (cl : ClientTok) (cx : CtxTok × CtxState) :
    (finish cfg op resp cl cx).client = cl := by
  unfold finish
  split
  · rfl
  · split <;> rfl

theorem finish_ctx {κ : Type} (cfg : Cfg κ) (op : Op) (resp : Resp) (cl : ClientTok) (cx : CtxTok × CtxState) :
    (finish cfg op resp cl cx).ctx = cx.1 := by
  unfold finish
  split
  · rfl
  · split <;> rfl

theorem result_ctx {κ : Type} (cfg : Cfg κ) (op : Op) (resp : Resp) :
    (submit cfg op resp).ctx = (chooseCtx op.ctx cfg.rtCtx).1 := by
  unfold submit
  rw [finish_ctx]

theorem chooseCtx_eq_spec {κ : Type} (cfg : Cfg κ) (op : Op) : chooseCtx op.ctx cfg.rtCtx = specCtx cfg op := by
  unfold chooseCtx specCtx
  cases op.ctx <;> cases cfg.rtCtx <;> rfl

theorem chooseClient_eq_spec {κ : Type} (cfg : Cfg κ) (op : Op) :
    chooseClient op.client (sharedClient cfg.preset) = specClient cfg op := by
  unfold chooseClient sharedClient specClient
  cases op.client <;> cases cfg.preset <;> rfl

theorem submit_out {κ : Type} (cfg : Cfg κ) (op : Op) (resp : Resp) :
    (submit cfg op resp).out =
      if (specCtx cfg op).2 == .cancelled then .transportError
      else match selectConsumer cfg.reg (specContentType resp.headers cfg.dflt) with
        | .error msg => .failed msg
        | .ok c => .read c (adapterView resp op.queries) op.readerErr := by
  unfold submit finish
  rw [chooseCtx_eq_spec, contentType_eq_spec]
  by_cases hc : ((specCtx cfg op).2 == CtxState.cancelled) = true
  · simp [hc]
  · simp only [hc, if_false, Bool.false_eq_true]
    cases selectConsumer cfg.reg (specContentType resp.headers cfg.dflt) <;> rfl

/-- Under the invariant, running any schedule projects, for every call, onto that call's own
steps taken in isolation against the memoised client. -/
theorem runSched_proj {κ : Type} (cfg : Cfg κ) (net : Op → Resp) (sh₀ : Shared) (sched : List Nat) :
    ∀ (sh : Shared) (cs : Nat → Call κ), Inv sh₀ sh cs → ∀ j,
      (runSched cfg net sched (sh, cs)).2 j =
        iter (lstep cfg net (sh₀.client.getD .rt)) (sched.count j) (cs j) := by
  induction sched with
  | nil => intro sh cs _ j; rfl
  | cons i rest ih =>
    intro sh cs hinv j
    unfold runSched
    simp only
    rw [ih _ _ (step_inv cfg net sh₀ sh cs i hinv) j]
    rw [step_local cfg net sh₀ sh cs i hinv]
    unfold upd
    by_cases hji : j = i
    · subst hji
      simp [iter]
    · have : (i == j) = false := by simpa using fun h => hji h.symm
      simp [List.count_cons, hji, this]

theorem inv_init {κ : Type} (sh₀ : Shared) (cs : Nat → Call κ) (hfresh : ∀ j, (cs j).pc = 0) :
    Inv sh₀ sh₀ cs :=
  ⟨Or.inl rfl, fun j hj => by rw [hfresh j] at hj; omega⟩

theorem lstep_done {κ : Type} (cfg : Cfg κ) (net : Op → Resp) (v : ClientTok) (c : Call κ) (h : 6 ≤ c.pc) :
    lstep cfg net v c = c := by
  unfold lstep step
  split <;> first | omega | rfl

theorem iter_fixed {α : Type} (f : α → α) (a : α) (h : f a = a) (n : Nat) : iter f n a = a := by
  induction n with
  | zero => rfl
  | succ n ih => simp [iter, h, ih]

theorem iter_add {α : Type} (f : α → α) (m n : Nat) (a : α) : iter f (m + n) a = iter f n (iter f m a) := by
  induction m generalizing a with
  | zero => simp [iter]
  | succ m ih => rw [Nat.succ_add]; simp [iter, ih]

theorem runSched_inv {κ : Type} (cfg : Cfg κ) (net : Op → Resp) (sh₀ : Shared) (sched : List Nat) :
    ∀ (sh : Shared) (cs : Nat → Call κ), Inv sh₀ sh cs →
      Inv sh₀ (runSched cfg net sched (sh, cs)).1 (runSched cfg net sched (sh, cs)).2 := by
  induction sched with
  | nil => intro sh cs h; exact h
  | cons i rest ih =>
    intro sh cs h
    unfold runSched
    exact ih _ _ (step_inv cfg net sh₀ sh cs i h)

end RtVerif.C13
