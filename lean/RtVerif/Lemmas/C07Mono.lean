import RtVerif.Model.C07
/-
  C07 T5 — a q-value that denotes a smaller number never gets a larger parsed value.
  The digit loop of `expectQuality` keeps the first `cap` fractional digits: its result is the
  floor of the denoted value in units of 10^-cap, and floors are monotone.
-/
namespace RtVerif.C07
open RtVerif Bytes

/-- the natural number a digit string denotes -/
def numOf (ds : Bytes) : Nat := ds.foldl (fun n b => n * 10 + (b.toNat - 48)) 0

def allDigits (ds : Bytes) : Bool := ds.all isDigit

theorem foldl_digits (ds : Bytes) (n : Nat) :
    ds.foldl (fun n b => n * 10 + (b.toNat - 48)) n = n * 10 ^ ds.length + numOf ds := by
  induction ds generalizing n with
  | nil => simp [numOf]
  | cons b r ih =>
    simp only [List.foldl_cons, List.length_cons, numOf]
    rw [ih, ih (0 * 10 + (b.toNat - 48))]
    simp only [Nat.zero_mul, Nat.zero_add, Nat.pow_succ, Nat.add_mul]
    have : n * 10 * 10 ^ r.length = n * (10 ^ r.length * 10) := by ac_rfl
    omega

theorem numOf_cons (b : UInt8) (r : Bytes) :
    numOf (b :: r) = (b.toNat - 48) * 10 ^ r.length + numOf r := by
  have := foldl_digits r (0 * 10 + (b.toNat - 48))
  simp only [Nat.zero_mul, Nat.zero_add] at this
  simpa [numOf] using this

theorem digit_le_nine {b : UInt8} (h : isDigit b = true) : b.toNat - 48 ≤ 9 := by
  simp only [isDigit, Bool.and_eq_true, decide_eq_true_eq] at h
  have h2 : b.toNat ≤ 57 := by simpa using UInt8.le_iff_toNat_le.mp h.2
  omega

theorem numOf_lt (ds : Bytes) (h : allDigits ds = true) : numOf ds < 10 ^ ds.length := by
  induction ds with
  | nil => simp [numOf]
  | cons b r ih =>
    simp only [allDigits, List.all_cons, Bool.and_eq_true] at h
    have hr := ih (by simpa [allDigits] using h.2)
    have hd := digit_le_nine h.1
    rw [numOf_cons, List.length_cons, Nat.pow_succ]
    have : (b.toNat - 48) * 10 ^ r.length ≤ 9 * 10 ^ r.length := Nat.mul_le_mul_right _ hd
    omega

/-- past the cap the loop only consumes -/
theorem digitsLoop_past_cap (cap : Nat) (s : Bytes) (i n k : Nat) (hs : allDigits s = true)
    (hi : cap ≤ i) : (digitsLoop cap s i n k).1 = (n, k) := by
  induction s generalizing i with
  | nil => rfl
  | cons b r ih =>
    simp only [allDigits, List.all_cons, Bool.and_eq_true] at hs
    simp only [digitsLoop, hs.1, ↓reduceIte]
    have : ¬ i < cap := by omega
    simp only [this, ↓reduceIte]
    exact ih (i + 1) (by simpa [allDigits] using hs.2) (by omega)

/-- **floor characterisation** of the digit loop (k = min i cap digits accumulated so far):
the result, in units of 10^-cap, is the floor of the denoted value. -/
theorem digitsLoop_floor (cap : Nat) (s : Bytes) (i n k : Nat) (hs : allDigits s = true)
    (hk : k ≤ cap) (hlt : i < cap → k = i) (hge : cap ≤ i → k = cap) :
    let r := (digitsLoop cap s i n k).1
    r.2 ≤ cap ∧
    r.1 * 10 ^ (cap - r.2) * 10 ^ s.length ≤ (n * 10 ^ s.length + numOf s) * 10 ^ (cap - k) ∧
    (n * 10 ^ s.length + numOf s) * 10 ^ (cap - k) < (r.1 * 10 ^ (cap - r.2) + 1) * 10 ^ s.length := by
  induction s generalizing i n k with
  | nil =>
    simp only [digitsLoop, List.length_nil, Nat.pow_zero, Nat.mul_one, numOf, List.foldl_nil,
      Nat.add_zero]
    exact ⟨hk, Nat.le_refl _, Nat.lt_succ_self _⟩
  | cons b r ih =>
    simp only [allDigits, List.all_cons, Bool.and_eq_true] at hs
    have hr : allDigits r = true := by simpa [allDigits] using hs.2
    have hd := digit_le_nine hs.1
    by_cases hic : i < cap
    · have hki := hlt hic
      subst hki
      have hstep : (digitsLoop cap (b :: r) k n k).1 =
          (digitsLoop cap r (k + 1) (n * 10 + (b.toNat - 48)) (k + 1)).1 := by
        simp only [digitsLoop, hs.1, ↓reduceIte, hic]
      obtain ⟨h0, h1, h2⟩ := ih (k + 1) (n * 10 + (b.toNat - 48)) (k + 1) hr (by omega)
        (fun _ => rfl) (fun h => by omega)
      simp only [hstep]
      generalize (digitsLoop cap r (k + 1) (n * 10 + (b.toNat - 48)) (k + 1)).1 = res at h0 h1 h2
      obtain ⟨n', k'⟩ := res
      simp only at h0 h1 h2 ⊢
      -- abbreviations
      have hpow : 10 ^ (cap - k) = 10 ^ (cap - (k + 1)) * 10 := by
        rw [← Nat.pow_succ]; congr 1; omega
      have hY : n * 10 ^ (b :: r).length + numOf (b :: r) =
          (n * 10 + (b.toNat - 48)) * 10 ^ r.length + numOf r := by
        rw [numOf_cons, List.length_cons, Nat.pow_succ, Nat.add_mul]
        have : n * (10 ^ r.length * 10) = n * 10 * 10 ^ r.length := by ac_rfl
        omega
      rw [hY, hpow, List.length_cons, Nat.pow_succ]
      generalize (n * 10 + (b.toNat - 48)) * 10 ^ r.length + numOf r = Y at h1 h2 ⊢
      generalize 10 ^ (cap - (k + 1)) = Q at h1 h2 ⊢
      generalize 10 ^ r.length = P at h1 h2 ⊢
      generalize n' * 10 ^ (cap - k') = U at h1 h2 ⊢
      refine ⟨h0, ?_, ?_⟩
      · have := Nat.mul_le_mul_right 10 h1
        have e1 : U * (P * 10) = U * P * 10 := by ac_rfl
        have e2 : Y * (Q * 10) = Y * Q * 10 := by ac_rfl
        rw [e1, e2]; exact this
      · have := Nat.mul_lt_mul_of_pos_right h2 (by decide : 0 < 10)
        have e1 : (U + 1) * (P * 10) = (U + 1) * P * 10 := by ac_rfl
        have e2 : Y * (Q * 10) = Y * Q * 10 := by ac_rfl
        rw [e1, e2]; exact this
    · have hci : cap ≤ i := by omega
      have hkc := hge hci
      have hres : (digitsLoop cap (b :: r) i n k).1 = (n, k) :=
        digitsLoop_past_cap cap (b :: r) i n k (by simp [allDigits, hs.1, hs.2]) hci
      have e0 : cap - k = 0 := by omega
      simp only [hres, e0, Nat.pow_zero, Nat.mul_one]
      have hlt' := numOf_lt (b :: r) (by simp [allDigits, hs.1, hs.2])
      refine ⟨hk, by omega, ?_⟩
      rw [Nat.add_mul]; omega

/-- the parsed fractional part of `0.ds` / `1.ds` in units of 10^-cap -/
def fracUnits (ds : Bytes) : Nat :=
  (digitsLoop Facts.maxQDigits ds 0 0 0).1.1 * 10 ^ (Facts.maxQDigits - (digitsLoop Facts.maxQDigits ds 0 0 0).1.2)

theorem fracUnits_floor (ds : Bytes) (h : allDigits ds = true) :
    fracUnits ds * 10 ^ ds.length ≤ numOf ds * 10 ^ Facts.maxQDigits ∧
    numOf ds * 10 ^ Facts.maxQDigits < (fracUnits ds + 1) * 10 ^ ds.length := by
  have := digitsLoop_floor Facts.maxQDigits ds 0 0 0 h (Nat.zero_le _) (fun _ => rfl)
    (fun h0 => by omega)
  simp only [Nat.zero_mul, Nat.zero_add, Nat.sub_zero] at this
  exact ⟨this.2.1, this.2.2⟩

/-- **T5**: if the digit string `a` denotes a number not larger than `b` does
(`0.a ≤ 0.b`, cross-multiplied), the parser's value for `a` is not larger than for `b`. -/
theorem fracUnits_mono (a b : Bytes) (ha : allDigits a = true) (hb : allDigits b = true)
    (h : numOf a * 10 ^ b.length ≤ numOf b * 10 ^ a.length) : fracUnits a ≤ fracUnits b := by
  obtain ⟨ha1, _⟩ := fracUnits_floor a ha
  obtain ⟨_, hb2⟩ := fracUnits_floor b hb
  apply Nat.le_of_not_lt
  intro hlt
  -- (Ub+1) ≤ Ua
  have h1 : (fracUnits b + 1) * 10 ^ b.length * 10 ^ a.length ≤ fracUnits a * 10 ^ a.length * 10 ^ b.length := by
    have := Nat.mul_le_mul_right (10 ^ b.length * 10 ^ a.length) (Nat.succ_le_of_lt hlt)
    have e1 : (fracUnits b + 1) * 10 ^ b.length * 10 ^ a.length = (fracUnits b + 1) * (10 ^ b.length * 10 ^ a.length) := by ac_rfl
    have e2 : fracUnits a * 10 ^ a.length * 10 ^ b.length = fracUnits a * (10 ^ b.length * 10 ^ a.length) := by ac_rfl
    rw [e1, e2]; exact this
  have h2 : fracUnits a * 10 ^ a.length * 10 ^ b.length ≤ numOf a * 10 ^ Facts.maxQDigits * 10 ^ b.length :=
    Nat.mul_le_mul_right _ ha1
  have h3 : numOf a * 10 ^ Facts.maxQDigits * 10 ^ b.length ≤ numOf b * 10 ^ Facts.maxQDigits * 10 ^ a.length := by
    have := Nat.mul_le_mul_right (10 ^ Facts.maxQDigits) h
    have e1 : numOf a * 10 ^ Facts.maxQDigits * 10 ^ b.length = numOf a * 10 ^ b.length * 10 ^ Facts.maxQDigits := by ac_rfl
    have e2 : numOf b * 10 ^ Facts.maxQDigits * 10 ^ a.length = numOf b * 10 ^ a.length * 10 ^ Facts.maxQDigits := by ac_rfl
    rw [e1, e2]; exact this
  have h4 : numOf b * 10 ^ Facts.maxQDigits * 10 ^ a.length < (fracUnits b + 1) * 10 ^ b.length * 10 ^ a.length :=
    Nat.mul_lt_mul_of_pos_right hb2 (Nat.pow_pos (by decide))
  omega

end RtVerif.C07
