import RtVerif.Model.C01
import RtVerif.Lemmas.C01Bridge
import RtVerif.Lemmas.C01Composite
import RtVerif.Lemmas.C01CompBridge
/-
  C01: the Spec's reading of a template text (`xsegs`, `instAll`) on the structured templates of
  the composite bridge: `instAll (renderX xs) (renderP qs)` lists exactly the `InstOf` instantiations.
-/
namespace RtVerif.C01
open RtVerif Bytes

def isWhole : XS → Bool
  | .par pre _ st0 r => pre.isEmpty && st0.isEmpty && r.isEmpty
  | .lit _ => false

def toXSeg : XS → XSeg
  | .lit b => .lit b
  | .par pre n0 st0 r =>
    if pre.isEmpty && st0.isEmpty && r.isEmpty then .ph n0 else .comp ⟨pre, (n0, st0) :: r⟩

/-! ### the parser -/

theorem split_notBrace (a X : Bytes) (ha : a.all notBrace = true) (hX : X = [] ∨ ∃ t, X = lbrace :: t) :
    (a ++ X).takeWhile notBrace = a ∧ (a ++ X).dropWhile notBrace = X := by
  rcases hX with rfl | ⟨t, rfl⟩
  · rw [List.append_nil]; exact takeWhile_all _ _ ha
  · exact takeWhile_append_stop _ _ _ _ ha (by decide)

theorem segText_cases (r : List (Bytes × Bytes)) : segText r = [] ∨ ∃ t, segText r = lbrace :: t := by
  cases r with
  | nil => left; rfl
  | cons p r' => obtain ⟨n, st⟩ := p; right; exact ⟨_, rfl⟩

theorem takeName_needle (n X : Bytes) (hn : n.all notBrace = true) (hne : n ≠ []) :
    takeName (lbrace :: (n ++ rbrace :: X)) = some (n, X) := by
  have hs := takeWhile_append_stop notBrace n rbrace X hn (by decide)
  simp only [takeName, beq_self_eq_true, ↓reduceIte, hs.1, hs.2, Bool.true_and]
  have : n.isEmpty = false := by simpa using hne
  simp [this]

theorem parsePhs_segText (r : List (Bytes × Bytes))
    (hw : ∀ p ∈ r, p.1.all notBrace = true ∧ p.2.all notBrace = true ∧ p.1 ≠ []) :
    ∀ fuel, r.length < fuel → parsePhs fuel (segText r) = some r := by
  induction r with
  | nil =>
    intro fuel hf
    cases fuel with
    | zero => omega
    | succ f => simp [parsePhs, segText]
  | cons p r' ih =>
    obtain ⟨n, st⟩ := p
    intro fuel hf
    cases fuel with
    | zero => omega
    | succ f =>
      have hp := hw (n, st) List.mem_cons_self
      have hsp := split_notBrace st (segText r') hp.2.1 (segText_cases r')
      simp only [segText, parsePhs, takeName_needle n _ hp.1 hp.2.2, hsp.1, hsp.2]
      rw [ih (fun x hx => hw x (List.mem_cons_of_mem _ hx)) f (by simp only [List.length_cons] at hf; omega)]
      rfl

theorem segText_len (r : List (Bytes × Bytes)) : r.length ≤ (segText r).length := by
  have := segText_length r; omega

theorem parseCSeg_text (pre n0 st0 : Bytes) (r : List (Bytes × Bytes)) (hpre : pre.all notBrace = true)
    (hw : ∀ p ∈ (n0, st0) :: r, p.1.all notBrace = true ∧ p.2.all notBrace = true ∧ p.1 ≠ []) :
    parseCSeg (pre ++ needleOf n0 ++ patAfter st0 r) = some ⟨pre, (n0, st0) :: r⟩ := by
  have e : pre ++ needleOf n0 ++ patAfter st0 r = pre ++ segText ((n0, st0) :: r) := by
    simp [needleOf, patAfter, segText]
  have hsp := split_notBrace pre (segText ((n0, st0) :: r)) hpre (segText_cases _)
  unfold parseCSeg
  rw [e, hsp.1, hsp.2, parsePhs_segText _ hw]
  · rfl
  · have := segText_len ((n0, st0) :: r)
    simp only [List.length_append]; omega

theorem hasBrace_mem {l : Bytes} (h : lbrace ∈ l ∨ rbrace ∈ l) : hasBrace l = true := by
  simp only [hasBrace, List.any_eq_true, Bool.or_eq_true, beq_iff_eq]
  rcases h with h | h
  · exact ⟨_, h, Or.inl rfl⟩
  · exact ⟨_, h, Or.inr rfl⟩

/-- **the Spec's classification of a segment text is the structured segment** -/
theorem xclassify_text (s : XS) (hs : s.wf) : xclassify s.text = toXSeg s := by
  cases s with
  | lit b =>
    have h := classify_text (s := SSeg.lit b) hs
    simp only [SSeg.text, toTSeg] at h
    simp only [XS.text, xclassify, h, toXSeg]
  | par pre n0 st0 r =>
    obtain ⟨hpre, hn0, hne0, hst0, hr⟩ := hs
    by_cases hwhole : (pre.isEmpty && st0.isEmpty && r.isEmpty) = true
    · simp only [Bool.and_eq_true, List.isEmpty_iff] at hwhole
      obtain ⟨⟨rfl, rfl⟩, rfl⟩ := hwhole
      have h := classify_text (s := SSeg.ph n0) (by simp [SSeg.wf, hn0, hne0])
      simp only [SSeg.text, toTSeg] at h
      have e : (XS.par [] n0 [] []).text = lbrace :: (n0 ++ [rbrace]) := by
        simp [XS.text, needleOf, patAfter, segText]
      simp only [e, xclassify, h, toXSeg, List.isEmpty_nil, Bool.and_self, ↓reduceIte]
    · have hwf : ∀ p ∈ (n0, st0) :: r, p.1.all notBrace = true ∧ p.2.all notBrace = true ∧ p.1 ≠ [] := by
        intro p hp
        rcases List.mem_cons.mp hp with rfl | hp
        · exact ⟨plain_notBrace hn0, nsb_notBrace hst0, hne0⟩
        · exact ⟨nsb_notBrace (hr p hp).1, nsb_notBrace (hr p hp).2.1, (hr p hp).2.2⟩
      have hcl : classify (XS.par pre n0 st0 r).text = .composite := by
        simp only [XS.text]
        have hbr : hasBrace (pre ++ needleOf n0 ++ patAfter st0 r) = true :=
          hasBrace_mem (Or.inl (by simp [needleOf]))
        cases pre with
        | cons c pre' =>
          simp only [List.all_cons, Bool.and_eq_true] at hpre
          have hc : (c == lbrace) = false := by
            have := hpre.1
            simp only [plainByte, Bool.and_eq_true, bne_iff_ne, ne_eq] at this
            simpa using this.1.1.1.1.1.1.2
          have hbr' : hasBrace (c :: (pre' ++ needleOf n0 ++ patAfter st0 r)) = true := by simpa using hbr
          simp only [List.cons_append, classify, hc, Bool.false_and, Bool.false_eq_true, ↓reduceIte]
          simp only [List.cons_append] at hbr
          rw [if_pos hbr]
        | nil =>
          -- `{n0}` followed by more text: the part before the last byte holds a `}`
          have htail : patAfter st0 r ≠ [] := by
            intro h0
            apply hwhole
            simp only [patAfter, List.append_eq_nil_iff] at h0
            have : r = [] := by
              cases r with
              | nil => rfl
              | cons p t => obtain ⟨n, st⟩ := p; simp [segText] at h0
            simp [h0.1, this]
          have e : ([] : Bytes) ++ needleOf n0 ++ patAfter st0 r = lbrace :: (n0 ++ rbrace :: patAfter st0 r) := by
            simp [needleOf]
          rw [e] at hbr ⊢
          have hdl : (n0 ++ rbrace :: patAfter st0 r).dropLast = n0 ++ rbrace :: (patAfter st0 r).dropLast := by
            rw [List.dropLast_append_of_ne_nil (by simp), List.dropLast_cons_of_ne_nil htail]
          have hb2 : hasBrace (n0 ++ rbrace :: patAfter st0 r).dropLast = true := by
            rw [hdl]; exact hasBrace_mem (Or.inr (by simp))
          simp only [classify, beq_self_eq_true, Bool.true_and, hb2, Bool.not_true, Bool.and_false, Bool.false_and,
            Bool.false_eq_true, ↓reduceIte]
          rw [if_pos hbr]
      simp only [XS.text] at hcl
      simp only [xclassify, XS.text, hcl, parseCSeg_text pre n0 st0 r (plain_notBrace hpre) hwf, toXSeg, hwhole,
        Bool.false_eq_true, ↓reduceIte, List.isEmpty_cons]

/-! ### the segments of a structured template -/

theorem textX_noslash {s : XS} (h : s.wf) : GoPath.slash ∉ s.text := by
  cases s with
  | lit b =>
    have := text_noslash (s := SSeg.lit b) h
    simpa [SSeg.text, XS.text] using this
  | par pre n0 st0 r =>
    obtain ⟨hpre, hn0, hne0, hst0, hr⟩ := h
    have h1 := text_noslash (s := SSeg.lit pre) hpre
    have h2 := text_noslash (s := SSeg.ph n0) (by simp [SSeg.wf, hn0, hne0])
    have h3 := patAfter_noslash st0 r hst0 hr
    simp only [SSeg.text] at h1 h2
    simp only [XS.text, needleOf, List.mem_append, not_or]
    refine ⟨⟨h1, ?_⟩, h3⟩
    simp only [List.mem_cons, List.mem_append, List.not_mem_nil, or_false, not_or] at h2 ⊢
    exact ⟨⟨h2.1, h2.2.1⟩, h2.2.2⟩

theorem segs_renderX (xs : List XS) (hw : WFX xs) (hne : xs ≠ []) :
    GoPath.segs (renderX xs) = [] :: xs.map XS.text := by
  induction xs with
  | nil => exact absurd rfl hne
  | cons s r ih =>
    have hr : WFX r := fun x hx => hw x (List.mem_cons_of_mem _ hx)
    have hs := textX_noslash (hw s List.mem_cons_self)
    show GoPath.segs (GoPath.slash :: (s.text ++ renderX r)) = _
    rw [GoPath.segs_cons_slash]
    cases r with
    | nil =>
      simp only [renderX, List.append_nil, List.map_cons, List.map_nil]
      rw [GoPath.segs_noslash _ hs]
    | cons s2 r2 =>
      have ih' := ih hr (by simp)
      have hrt : renderX (s2 :: r2) = GoPath.slash :: (s2.text ++ renderX r2) := rfl
      rw [hrt] at ih' ⊢
      rw [GoPath.segs_cons_slash] at ih'
      rw [GoPath.segs_append_slash, GoPath.segs_noslash _ hs]
      simp only [List.cons.injEq, true_and] at ih'
      simp [ih']

theorem xsegs_renderX (xs : List XS) (hw : WFX xs) (hne : xs ≠ []) :
    xsegs (renderX xs) = .lit [] :: xs.map toXSeg := by
  unfold xsegs
  rw [segs_renderX xs hw hne]
  have hm : (xs.map XS.text).map xclassify = xs.map toXSeg := by
    rw [List.map_map]
    apply List.map_congr_left
    intro s hs
    exact xclassify_text s (hw s hs)
  have h0 : xclassify [] = .lit [] := rfl
  simp only [List.map_cons, hm, h0]

/-! ### `instAllSegs` lists exactly the `InstOf` instantiations -/

theorem renderVals_single (n q : Bytes) (us : List Bytes) : renderVals [(n, [])] us = some q ↔ us = [q] := by
  cases us with
  | nil => simp [renderVals]
  | cons u us' =>
    cases us' with
    | nil => simp [renderVals]
    | cons a b => simp [renderVals]

theorem mem_instAllSegs (xs : List XS) (qs : List Bytes) (raws : List (Bytes × Bytes)) :
    raws ∈ instAllSegs (xs.map toXSeg) qs ↔ InstOf xs qs raws := by
  induction xs generalizing qs raws with
  | nil =>
    cases qs with
    | nil => simp [instAllSegs, InstOf]
    | cons q qs' => simp [instAllSegs, InstOf]
  | cons s ts ih =>
    cases qs with
    | nil => cases s <;> simp [toXSeg, instAllSegs, InstOf] <;> split <;> simp [instAllSegs]
    | cons q qs' =>
      cases s with
      | lit b =>
        simp only [List.map_cons, toXSeg, instAllSegs, InstOf]
        by_cases hb : b = q
        · subst hb; simp [ih]
        · have : ¬ q = b := fun e => hb e.symm
          simp [hb, this]
      | par pre n0 st0 r =>
        simp only [List.map_cons, toXSeg, InstOf]
        by_cases hwhole : (pre.isEmpty && st0.isEmpty && r.isEmpty) = true
        · simp only [hwhole, ↓reduceIte, instAllSegs, List.mem_map]
          simp only [Bool.and_eq_true, List.isEmpty_iff] at hwhole
          obtain ⟨⟨rfl, rfl⟩, rfl⟩ := hwhole
          constructor
          · rintro ⟨rest, hrest, rfl⟩
            exact ⟨rfl, [q], rest, (renderVals_single n0 _ _).mpr rfl, rfl, (ih qs' rest).mp hrest⟩
          · rintro ⟨_, us, rest, hus, rfl, hrest⟩
            have : us = [q] := (renderVals_single n0 _ _).mp hus
            subst this
            exact ⟨rest, (ih qs' rest).mpr hrest, rfl⟩
        · simp only [hwhole, Bool.false_eq_true, ↓reduceIte, instAllSegs, instSeg, List.mem_flatMap, List.mem_map]
          constructor
          · rintro ⟨a, ha, rest, hrest, rfl⟩
            split at ha
            · rename_i hp
              simp only [List.mem_map] at ha
              obtain ⟨us, hus, rfl⟩ := ha
              exact ⟨hp, us, rest, (mem_allInst _ _ _).mp hus, rfl, (ih qs' rest).mp hrest⟩
            · cases ha
          · rintro ⟨hp, us, rest, hus, rfl, hrest⟩
            refine ⟨_, ?_, rest, (ih qs' rest).mpr hrest, rfl⟩
            simp only [hp, ↓reduceIte, List.mem_map]
            exact ⟨us, (mem_allInst _ _ _).mpr hus, rfl⟩

/-- **the Spec's enumerator on a structured template**: `instAll` lists exactly the instantiations
of the whole template by the path -/
theorem mem_instAll (xs : List XS) (hw : WFX xs) (hne : xs ≠ []) (qs : List Bytes)
    (hqs : ∀ q ∈ qs, slash ∉ q) (hqne : qs ≠ []) (raws : List (Bytes × Bytes)) :
    raws ∈ instAll (renderX xs) (renderP qs) ↔ InstOf xs qs raws := by
  unfold instAll
  rw [xsegs_renderX xs hw hne, segs_renderP qs hqs hqne]
  simp only [instAllSegs, beq_self_eq_true, ↓reduceIte]
  exact mem_instAllSegs xs qs raws

theorem pathSegs_ne_nil (p : Bytes) : pathSegs p ≠ [] := by
  unfold pathSegs; split <;> simp_all

end RtVerif.C01
