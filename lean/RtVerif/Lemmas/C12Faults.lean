import RtVerif.Lemmas.C12Live
/-
  C12, part F: a second invariant — faults of the plan are never swallowed.  The writer goroutine
  never drops the failing read of its script; a consumer only sees the end of the request body when
  no source failed; a state that holds a response went through every earlier stage successfully.
-/
namespace RtVerif.C12
open RtVerif
set_option linter.unusedSimpArgs false
set_option linter.unusedVariables false

def hasFail (t : List Act) : Bool := t.any (· == .fail)

@[simp] theorem hasFail_nil : hasFail [] = false := rfl
@[simp] theorem hasFail_w (r : List Act) : hasFail (.w :: r) = hasFail r := by simp [hasFail]
@[simp] theorem hasFail_wForm (r : List Act) : hasFail (.wForm :: r) = hasFail r := by simp [hasFail]
@[simp] theorem hasFail_fail (r : List Act) : hasFail (.fail :: r) = true := by simp [hasFail]

theorem wf_form {p : Plan} (h : p.WF) (hf : p.hasFormOrFiles = true) : p.payload = .none := by
  cases hp : p.payload with
  | none => rfl
  | _ =>
    have : p.payload ≠ .none := by simp [hp]
    obtain ⟨h1, h2, h3⟩ := h this
    simp [Plan.hasFormOrFiles, h1, h2] at hf

def Plan.streamFails (p : Plan) : Bool := (p.streamSrc.map (·.fails)).getD false

/-- the request body has been consumed to its end -/
def past (s : St) : Bool := midBody s.ph || s.haveResp || s.bodyInBuf

def rank : Ph → Nat
  | .start => 0 | .choose => 1 | .auth => 2 | .authCopy => 3 | .url => 4 | .send => 5 | .sendBody => 6
  | .await => 7 | .reading => 8 | .draining => 8 | .closing => 8 | .returned => 9

/-- what a call that got as far as stage `n` has behind it -/
def rankFacts (p : Plan) (n : Nat) : Prop :=
  (1 ≤ n → p.writerErr = false) ∧ (2 ≤ n → p.payload ≠ .produceErr)
  ∧ (4 ≤ n → p.auth ≠ .fail ∧ p.auth ≠ .bodyFail) ∧ (5 ≤ n → p.urlErr = false)
  ∧ (6 ≤ n → p.tr ≠ .errBefore) ∧ (8 ≤ n → p.resp ≠ .stall)

theorem readBody_eof_stream {p : Plan} {s s' : St} (h : readBody p s = .eof s') (hk : bodyKind p s = .stream) :
    p.streamFails = false := by
  unfold readBody at h
  simp only [hk] at h
  split at h
  · simp at h
  · split at h
    · simp at h
    · rename_i hf; simpa [Plan.streamFails] using hf

structure Inv2 (p : Plan) (s : St) : Prop where
  scr : ∀ t, s.g = .run t → hasFail t = hasFail p.script
  tr : s.g = .trailer → hasFail p.script = false
  dn : s.g = .done → s.pwErr = false → hasFail p.script = false
  pw : past s = true → s.g = .done → s.pwErr = false
  sf : past s = true → p.streamFails = false
  rk : if s.ph = .returned then (s.haveResp = true → rankFacts p 8) else rankFacts p (rank s.ph)

syntax "inv2_close" term "," term : tactic
macro_rules
  | `(tactic| inv2_close $p, $s) => `(tactic|
      (cases hbb : ($s).bodyInBuf <;> cases hss : ($p).streamSrc.isSome <;>
       (constructor <;>
        simp_all [ret, release, closeReqBody, finish, failDo, gFail, readerReturn, fact_release, fact_defer,
          pre, midBody, preSend, G.alive, past, rank, rankFacts, bodyKind, Plan.streamFails] <;>
        (try omega))))

theorem inv2_init (p : Plan) : Inv2 p (init p) := by
  constructor <;> simp [init, past, midBody, rank, rankFacts]

set_option maxHeartbeats 8000000 in
theorem inv2_main {p : Plan} {s s' : St} (hwf : p.WF) (hI : Inv p s) (hJ : Inv2 p s) (h : s' ∈ mainSteps p s) : Inv2 p s' := by
  obtain ⟨j1, j2, j3, j4, j5, j6⟩ := hJ
  have i11 := hI.copyPh
  have hwf1 := @wf_form p hwf
  have hwf2 : p.startsWriter = true → p.hasFormOrFiles = true := by
    intro h; simp [Plan.startsWriter] at h; exact h.1
  have hws := @wf_stream p hwf
  have i2 := hI.nowriter
  have i1 := hI.pipe_g
  have i9 := hI.aliveNotPast
  have i14 := hI.respPre
  have i13 := hI.respPh
  unfold mainSteps at h
  split at h
  · rename_i hph
    simp only [mStart] at h
    split at h <;> simp only [List.mem_singleton] at h <;> subst h <;> inv2_close p, s
  · rename_i hph
    have he := hI.early0
    simp only [mChoose] at h
    split at h
    · simp only [List.mem_singleton] at h; subst h; inv2_close p, s
    · split at h
      · simp only [List.mem_singleton] at h; subst h; inv2_close p, s
      · split at h <;> simp only [List.mem_singleton] at h <;> subst h <;> inv2_close p, s
  · rename_i hph
    simp only [mAuth, afterAuth] at h
    (repeat' split at h) <;> simp only [List.mem_singleton] at h <;> subst h <;> inv2_close p, s
  · rename_i hph
    simp only [mAuthCopy] at h
    cases hrb : readBody p s with
    | wait => simp [hrb] at h
    | data s1 =>
      simp only [hrb, List.mem_singleton] at h; subst h
      rcases readBody_data hrb with ⟨hk, hb, rfl⟩ | ⟨hk, hb, rfl⟩ | ⟨hk, a, r, hg, ha, rfl⟩ | ⟨hk, hg, rfl⟩
      · inv2_close p, s
      · inv2_close p, s
      · have := j1 _ hg
        cases a <;> inv2_close p, s
      · inv2_close p, s
    | eof s1 =>
      have hsf := @readBody_eof_stream p s s1 hrb
      obtain ⟨rfl, hc⟩ := readBody_eof hrb
      simp only [hrb, afterAuth] at h
      rcases hc with ⟨hk, hb⟩ | ⟨hk, hb⟩ | ⟨hk, hg, hpw⟩ <;>
        rcases bodyKind_cases p s1 with ⟨hk', hx⟩ | ⟨hk', hx1, hx2⟩ | ⟨hk', hx1, hx2, hx3⟩ <;>
        (try (simp [hk] at hk'; done)) <;>
        (split at h <;> simp only [List.mem_singleton] at h <;> subst h <;> inv2_close p, s1)
    | err s1 =>
      simp only [hrb, List.mem_singleton] at h; subst h
      rcases readBody_err hrb with ⟨hk, rfl⟩ | ⟨hk, hg, hpw, rfl⟩
      · inv2_close p, s
      · inv2_close p, s1
  · rename_i hph
    simp only [mUrl] at h
    split at h <;> simp only [List.mem_singleton] at h <;> subst h <;> inv2_close p, s
  · rename_i hph
    simp only [mSend, List.mem_append] at h
    rcases h with h | h
    · split at h
      · simp only [List.mem_singleton] at h; subst h; inv2_close p, s
      · simp at h
    · split at h <;> simp only [List.mem_singleton] at h <;> subst h <;> inv2_close p, s
  · rename_i hph
    have hsr : ∀ s', s' ∈ sendRead p s → Inv2 p s' := by
      intro s' h
      simp only [sendRead] at h
      cases hrb : readBody p s with
      | wait => simp [hrb] at h
      | data s1 =>
        simp only [hrb, List.mem_singleton] at h; subst h
        rcases readBody_data hrb with ⟨hk, hb, rfl⟩ | ⟨hk, hb, rfl⟩ | ⟨hk, a, r, hg, ha, rfl⟩ | ⟨hk, hg, rfl⟩
        · inv2_close p, s
        · inv2_close p, s
        · have := j1 _ hg
          cases a <;> inv2_close p, s
        · inv2_close p, s
      | eof s1 =>
        have hsf := @readBody_eof_stream p s s1 hrb
        obtain ⟨rfl, hc⟩ := readBody_eof hrb
        simp only [hrb, List.mem_singleton] at h; subst h
        rcases hc with ⟨hk, hb⟩ | ⟨hk, hb⟩ | ⟨hk, hg, hpw⟩ <;>
          rcases bodyKind_cases p s1 with ⟨hk', hx⟩ | ⟨hk', hx1, hx2⟩ | ⟨hk', hx1, hx2, hx3⟩ <;>
          (try (simp [hk] at hk'; done)) <;> inv2_close p, s1
      | err s1 =>
        simp only [hrb, List.mem_singleton] at h; subst h
        rcases readBody_err hrb with ⟨hk, rfl⟩ | ⟨hk, hg, hpw, rfl⟩
        · inv2_close p, s
        · inv2_close p, s1
    simp only [mSendBody, List.mem_append] at h
    rcases h with h | h
    · split at h
      · simp only [List.mem_singleton] at h; subst h; inv2_close p, s
      · simp at h
    · split at h
      · split at h
        · simp only [List.mem_singleton] at h; subst h; inv2_close p, s
        · exact hsr _ h
      · split at h
        · simp at h
        · exact hsr _ h
      · exact hsr _ h
  · rename_i hph
    simp only [mAwait, List.mem_append] at h
    rcases h with h | h
    · split at h
      · simp only [List.mem_singleton] at h; subst h; inv2_close p, s
      · simp at h
    · split at h
      · simp at h
      · simp only [List.mem_singleton] at h; subst h; inv2_close p, s
  · rename_i hph
    have hr := i13 (by simp [hph])
    simp only [mReading] at h
    split at h
    · simp only [List.mem_singleton] at h; subst h; inv2_close p, s
    · cases hrb : bodyRead p s with
      | wait => simp [hrb] at h
      | data s1 =>
        simp only [hrb, List.mem_singleton] at h; subst h
        obtain ⟨hb, rfl⟩ := bodyRead_data hrb; inv2_close p, s
      | eof s1 =>
        simp only [hrb, List.mem_singleton] at h; subst h
        obtain ⟨hb, ht, rfl⟩ := bodyRead_eof hrb; inv2_close p, s
      | err s1 =>
        simp only [hrb, List.mem_singleton] at h; subst h
        obtain ⟨hb, rfl⟩ := bodyRead_err hrb; inv2_close p, s
  · rename_i hph
    have hr := i13 (by simp [hph])
    simp only [mDraining] at h
    split at h
    · cases hrb : bodyRead p s with
      | wait => simp [hrb] at h
      | data s1 =>
        simp only [hrb, List.mem_singleton] at h; subst h
        obtain ⟨hb, rfl⟩ := bodyRead_data hrb; inv2_close p, s
      | eof s1 =>
        simp only [hrb, List.mem_singleton] at h; subst h
        obtain ⟨hb, ht, rfl⟩ := bodyRead_eof hrb; inv2_close p, s
      | err s1 =>
        simp only [hrb, List.mem_singleton] at h; subst h
        obtain ⟨hb, rfl⟩ := bodyRead_err hrb; inv2_close p, s
    · simp only [List.mem_singleton] at h; subst h; inv2_close p, s
  · rename_i hph
    have hr := i13 (by simp [hph])
    simp only [mClosing, List.mem_singleton] at h; subst h; inv2_close p, s
  · simp at h

set_option maxHeartbeats 8000000 in
theorem inv2_g {p : Plan} {s s' : St} (hI : Inv p s) (hJ : Inv2 p s) (h : s' ∈ gSteps s) : Inv2 p s' := by
  obtain ⟨j1, j2, j3, j4, j5, j6⟩ := hJ
  have i9 := hI.aliveNotPast
  simp only [gSteps] at h
  split at h
  · rename_i r hg; simp only [List.mem_singleton] at h; subst h
    have := j1 _ hg; inv2_close p, s
  · rename_i r hg; split at h
    · simp only [List.mem_singleton] at h; subst h
      have := j1 _ hg; inv2_close p, s
    · simp at h
  · rename_i r hg; split at h
    · simp only [List.mem_singleton] at h; subst h
      have := j1 _ hg; inv2_close p, s
    · simp at h
  · rename_i hg; simp only [List.mem_singleton] at h; subst h
    have := j1 _ hg; inv2_close p, s
  · rename_i hg; split at h
    · simp only [List.mem_singleton] at h; subst h; inv2_close p, s
    · simp at h
  · simp at h

theorem inv2_c {p : Plan} {s s' : St} (hJ : Inv2 p s) (h : s' ∈ cSteps p s) : Inv2 p s' := by
  obtain ⟨j1, j2, j3, j4, j5, j6⟩ := hJ
  simp only [cSteps] at h
  split at h
  · simp only [List.mem_singleton] at h; subst h
    constructor <;> simp_all [past]
  · simp at h

theorem inv2_reach {p : Plan} {s : St} (hwf : p.WF) (h : Reach p s) : Inv2 p s := by
  induction h with
  | init => exact inv2_init p
  | step hr hs ih =>
    have hI := inv_reach hwf hr
    simp only [succs, List.mem_append] at hs
    rcases hs with (hs | hs) | hs
    · exact inv2_main hwf hI ih hs
    · exact inv2_g hI ih hs
    · exact inv2_c ih hs

end RtVerif.C12
