import RtVerif.Lemmas.C12Faults
/-
  C12: definitions used by the statements of the property theorems (fresh body, released call,
  executions) and the two bridge lemmas from the invariants to them.
-/
namespace RtVerif.C12
open RtVerif

/-- a body nobody touched yet -/
def Under.Fresh (u : Under) : Prop := u.closes = 0 ∧ u.atEnd = false

instance (u : Under) : Decidable u.Fresh := by unfold Under.Fresh; infer_instance


theorem runD_close (u : Under) (ks : List Nat) (h : u.Fresh) :
    (runD u ks).2.closes = 1 ∧ (runD u ks).2.endAtClose = true ∧ (runD u ks).2.rest = [] := by
  have hd : DInv ({ u := u } : Drc) := ⟨by simp [h.2], by simp⟩
  have := dreads_inv ks { u := u } hd
  simp only [runD, runDP, fact_eof_only]
  exact close_spec _ this.1 (by rw [this.2]; exact h.1)


/-- what "returned, and everything released" means -/
structure Released (p : Plan) (s : St) : Prop where
  returned : s.ph = .returned
  no_goroutine : s.g.alive = false
  files_closed : p.files ≠ [] → s.fileCloses = 1
  stream_closed : p.streamSrc.isSome = true → s.streamCloses = 1
  body_closed : s.haveResp = true → s.bodyCloses = 1
  body_drained : s.haveResp = true → p.reuse = true → s.endAtClose = true
  ctx_released : s.entered = true → s.released = true
  pipe_not_open : s.pr ≠ .open

theorem released_of_final {p : Plan} {s : St} (hwf : p.WF) (hr : Reach p s) (hph : s.ph = .returned)
    (hg : s.g.alive = false) : Released p s := by
  have hI := inv_reach hwf hr
  refine ⟨hph, hg, ?_, ?_, ?_, ?_, hI.rel hph, hI.retPipe (Or.inr hph)⟩
  · intro hf
    have hsw := wf_files hf
    cases hgs : s.g with
    | idle =>
      rcases hI.idleW hgs hsw with h | h
      · simp [pre, hph] at h
      · exact (hI.writerRes h).1
    | done => exact hI.filesDone (Or.inr hgs)
    | trailer => simp [G.alive, hgs] at hg
    | run t => simp [G.alive, hgs] at hg
  · intro hs
    have := hI.stream hs
    simpa [hph] using this
  · intro hh; exact (hI.bc1 hph hh).1
  · intro hh; exact (hI.bc1 hph hh).2

/-- executions as lists of successive states -/
inductive Exec (p : Plan) : St → List St → Prop
  | nil (s : St) : Exec p s []
  | cons {s s' : St} {l : List St} : s' ∈ succs p s → Exec p s' l → Exec p s (s' :: l)

theorem getLast?_cons_snoc (a x : Act) (l : List Act) : (x :: (l ++ [a])).getLast? = some a := by
  induction l generalizing x with
  | nil => simp
  | cons b t ih => simpa [List.getLast?_cons_cons] using ih b

/-- a failing file leaves a failing read in the writer's script -/
theorem filesScript_hasFail : ∀ l : List Src, l.any (·.fails) = true → hasFail (filesScript l) = true := by
  intro l
  induction l with
  | nil => simp
  | cons a t ih =>
    intro h
    simp only [List.any_cons, Bool.or_eq_true] at h
    simp only [filesScript, hasFail, List.any_append, Bool.or_eq_true]
    rcases h with h | h
    · left
      simp only [fileScript, fileScriptW, h]
      (repeat' split) <;> simp_all
    · right; exact ih h

end RtVerif.C12
