import RtVerif.Lemmas.C03
/-
  Lemmas for the refinement theorem of C03: outside the recorded finding classes the model's `bind`
  produces what the Spec expects.
-/
namespace RtVerif.C03
open RtVerif Bytes

/-- a model item result and what the Spec expects of the item agree -/
def Agrees : ItemOut → Option Scalar → Prop
  | .ok v, some v' => v = v'
  | .err _, none => True
  | _, _ => False

/-! ## looking texts up -/

theorem beq_comm_bytes (a b : Bytes) : (a == b) = (b == a) := by
  cases h1 : (a == b) <;> cases h2 : (b == a) <;> simp_all

theorem equalFold_comm (a b : Bytes) : equalFold a b = equalFold b a := by
  unfold equalFold; exact beq_comm_bytes _ _

theorem lastOr_singleton (v : Bytes) : lastOr [v] = v := rfl

theorem lastOr_nil : lastOr [] = [] := rfl

/-- what `GetOK` returns is what the Spec calls "the texts sent for the parameter" -/
theorem getOK_spec (d : Decl) (r : Req) (hd : d.wf = true) (hr : Req.wf d r = true) :
    (getOK d r).1 = (specTexts d r).getD [] ∧ (getOK d r).2.1 = (specTexts d r).isSome ∧
    ((getOK d r).2.2 = false → lastOr (getOK d r).1 = []) ∧ specTexts d r ≠ some [] := by
  unfold Req.wf at hr
  unfold Decl.wf at hd
  simp only [Bool.and_eq_true] at hr hd
  obtain ⟨hr1, hr2⟩ := hr
  obtain ⟨⟨_, hname⟩, _⟩ := hd
  cases hv : r.values with
  | none => simp [getOK, specTexts, hv, lastOr]
  | some vs =>
    have hvs : vs ≠ [] := by
      intro e; subst e; simp [hv] at hr1
    have hfact : Facts.c03HeaderLookupCanonical = true := by decide
    cases hl : d.loc with
    | header =>
      simp only [hl] at hr2 hname
      have hiff := canonHeader_eq_iff r.key d.name hr2 hname
      by_cases he : equalFold d.name r.key = true
      · have hc : canonHeader r.key = canonHeader d.name := hiff.2 (by rw [equalFold_comm]; exact he)
        simp [getOK, specTexts, hv, hl, storedKey, lookupKey, hfact, hc, he, hvs, lastOr]
      · have hc : canonHeader r.key ≠ canonHeader d.name := by
          intro e; exact he (by rw [equalFold_comm]; exact hiff.1 e)
        simp [getOK, specTexts, hv, hl, storedKey, lookupKey, hfact, hc, he, lastOr]
    | path =>
      simp only [hl, hv] at hr2
      cases vs with
      | nil => exact (hvs rfl).elim
      | cons v rest =>
        cases rest with
        | cons _ _ => simp at hr2
        | nil =>
          by_cases he : (d.name == r.key) = true
          · have hc : (r.key == d.name) = true := by rw [beq_comm_bytes]; exact he
            simp only [getOK, specTexts, hv, hl, storedKey, lookupKey, hc, he, if_true, Option.getD_some,
              Option.isSome_some, ne_eq, Option.some.injEq, reduceCtorEq, not_false_eq_true, and_true, true_and]
            intro h
            simp only [Bool.not_eq_eq_eq_not, Bool.not_false, List.isEmpty_iff] at h
            subst h; rfl
          · have hc : (r.key == d.name) = false := by
              rw [beq_comm_bytes]; simpa using he
            simp [getOK, specTexts, hv, hl, storedKey, lookupKey, hc, he, lastOr]
    | query =>
      by_cases he : (d.name == r.key) = true
      · have hc : (r.key == d.name) = true := by rw [beq_comm_bytes]; exact he
        simp [getOK, specTexts, hv, hl, storedKey, lookupKey, hc, he, hvs]
      · have hc : (r.key == d.name) = false := by rw [beq_comm_bytes]; simpa using he
        simp [getOK, specTexts, hv, hl, storedKey, lookupKey, hc, he, lastOr]
    | form =>
      by_cases he : (d.name == r.key) = true
      · have hc : (r.key == d.name) = true := by rw [beq_comm_bytes]; exact he
        simp [getOK, specTexts, hv, hl, storedKey, lookupKey, hc, he, hvs]
      · have hc : (r.key == d.name) = false := by rw [beq_comm_bytes]; simpa using he
        simp [getOK, specTexts, hv, hl, storedKey, lookupKey, hc, he, lastOr]
    | mform =>
      by_cases he : (d.name == r.key) = true
      · have hc : (r.key == d.name) = true := by rw [beq_comm_bytes]; exact he
        simp [getOK, specTexts, hv, hl, storedKey, lookupKey, hc, he, hvs]
      · have hc : (r.key == d.name) = false := by rw [beq_comm_bytes]; simpa using he
        simp [getOK, specTexts, hv, hl, storedKey, lookupKey, hc, he, lastOr]

/-! ## the kinds a declaration can have -/

inductive SpecKindCase (ext : Option Ext) : SKind → Prop where
  | bool : SpecKindCase ext .bool
  | int (w : Nat) : (w = 8 ∨ w = 16 ∨ w = 32 ∨ w = 64) → SpecKindCase ext (.int w)
  | float (w : Nat) : (w = 32 ∨ w = 64) → SpecKindCase ext (.float w)
  | str : SpecKindCase ext .str
  | reg (e : Ext) : ext = some e → SpecKindCase ext (.reg e.named e.goName)

theorem specSKind_cases (ext : Option Ext) (ty fmt : String) (k : SKind)
    (h : specSKind ext ty fmt = some k) : SpecKindCase ext k := by
  unfold specSKind at h
  split at h
  · cases h; exact .bool
  · split at h
    · simp only [Option.some.injEq] at h
      subst h
      split
      · exact .int 8 (.inl rfl)
      · split
        · exact .int 16 (.inr (.inl rfl))
        · split
          · exact .int 32 (.inr (.inr (.inl rfl)))
          · exact .int 64 (.inr (.inr (.inr rfl)))
    · split at h
      · simp only [Option.some.injEq] at h
        subst h
        split
        · exact .float 32 (.inl rfl)
        · exact .float 64 (.inr rfl)
      · split at h
        · cases ext with
          | none => simp only [Option.some.injEq] at h; subst h; exact .str
          | some e => simp only [Option.some.injEq] at h; subst h; exact .reg e rfl
        · cases h

theorem SpecKindCase.usable {ext : Option Ext} {k : SKind} (h : SpecKindCase ext k) :
    (!k.handled && !k.isReg) = false := by
  cases h with
  | bool => decide
  | int w hw => rcases hw with rfl | rfl | rfl | rfl <;> decide
  | float w hw => rcases hw with rfl | rfl <;> decide
  | str => decide
  | reg e _ => simp [SKind.isReg]

/-! ## one non-empty text -/

theorem convertInt_agrees (w : Nat) (hw : 1 ≤ w ∧ w ≤ 64) (t : Bytes) :
    Agrees (convertInt w t) (specLiteral none (.int w) t) ∧
    ∀ ext, specLiteral ext (.int w) t = specLiteral none (.int w) t := by
  refine ⟨?_, fun _ => rfl⟩
  obtain ⟨hiff, herr⟩ := convertInt_iff w hw t
  simp only [specLiteral]
  cases hl : intLit? t with
  | none =>
    have : ¬ ∃ v, Num.IntLit t v ∧ Num.fitsInt w v := by
      intro ⟨v, hv, _⟩
      have := (intLit?_iff t v).2 hv
      rw [hl] at this; cases this
    rw [herr this]; trivial
  | some v =>
    have hv := (intLit?_iff t v).1 hl
    by_cases hf : Num.fitsInt w v
    · simp only [hf, if_true]
      rw [(hiff v).2 ⟨hv, hf⟩]; rfl
    · simp only [hf, if_false]
      have : ¬ ∃ v', Num.IntLit t v' ∧ Num.fitsInt w v' := by
        intro ⟨v', hv', hf'⟩
        have := Num.IntLit.unique hv hv'; subst this; exact hf hf'
      rw [herr this]; trivial

/-- outside the recorded finding classes a non-empty text converts to what it denotes -/
theorem convertText_agrees (ext : Option Ext) (k : SKind) (t : Bytes) (hk : SpecKindCase ext k)
    (hne : t.isEmpty = false) (hkn : textKnown k t = none) :
    Agrees (convertText ext k t) (specLiteral ext k t) := by
  cases hk with
  | bool =>
    simp only [convertText, specLiteral, convertBool]
    cases ht : trueSet.contains (toLower t) with
    | true => simp [Agrees]
    | false =>
      cases hf : falseSet.contains (toLower t) with
      | true => simp [Agrees]
      | false => simp only [textKnown, hne, ht, hf] at hkn; simp at hkn
  | int w hw =>
    have := (convertInt_agrees w (by rcases hw with rfl | rfl | rfl | rfl <;> decide) t).1
    simpa [convertText, specLiteral] using this
  | float w hw =>
    simp only [convertText, specLiteral, convertFloat, specFloat]
    cases hd : isDecimalLit t with
    | true =>
      simp only [if_true]
      cases parseFloatFor w t <;> simp [Agrees]
    | false =>
      simp only [Bool.false_eq_true, if_false]
      cases hp : parseFloatFor w t with
      | ok b => simp only [textKnown, hne, hd, floatAccepts, hp] at hkn; simp at hkn
      | reject => simp [Agrees]
  | str => simp [convertText, specLiteral, Agrees]
  | reg e he =>
    simp only [convertText, specLiteral, unmarshalReg]
    cases extLookup ext t with
    | none => simp [Agrees]
    | some p =>
      obtain ⟨res, ok⟩ := p
      cases res <;> simp [Agrees]

/-! ## defaults -/

theorem defaultScalar_agrees (ext : Option Ext) (k : SKind) (dv : DefScalar) :
    Agrees (defaultScalar ext k dv) (specDefaultScalar ext k dv) := by
  cases k <;> cases dv <;> simp only [defaultScalar, specDefaultScalar, Agrees]
  all_goals first
    | trivial
    | (simp only [convertFloat, specFloat]; cases parseFloatFor _ _ <;> simp [Agrees])
    | (simp only [unmarshalReg]
       cases extLookup ext _ with
       | none => simp [Agrees]
       | some p => obtain ⟨res, ok⟩ := p; cases res <;> simp [Agrees])

/-! ## lists of items -/

theorem listOut_agrees {α : Type} (k : SKind) (l : List α) (f : α → ItemOut) (g : α → Option Scalar)
    (h : ∀ x ∈ l, Agrees (f x) (g x)) :
    match mapM? g l with
    | some vs => listOut k (l.map f) = .value (.list (tagOf k) vs)
    | none => ∃ c, listOut k (l.map f) = .e422 c := by
  have key : match mapM? g l with
      | some vs => collect (l.map f) = .ok vs
      | none => ∃ c, collect (l.map f) = .error c := by
    induction l with
    | nil => simp [mapM?, collect]
    | cons x r ih =>
      have hx := h x (List.mem_cons_self ..)
      have ih' := ih (fun y hy => h y (List.mem_cons_of_mem _ hy))
      simp only [mapM?, List.map_cons]
      cases hf : f x with
      | err c =>
        cases hg : g x with
        | none => simp [collect]
        | some v => rw [hf, hg] at hx; exact hx.elim
      | ok v =>
        cases hg : g x with
        | none => rw [hf, hg] at hx; exact hx.elim
        | some v' =>
          rw [hf, hg] at hx
          simp only [Agrees] at hx
          subst hx
          cases hm : mapM? g r with
          | none =>
            rw [hm] at ih'
            obtain ⟨c, hc⟩ := ih'
            simp [collect, hc]
          | some vs =>
            rw [hm] at ih'
            simp [collect, ih']
  unfold listOut
  cases hm : mapM? g l with
  | none =>
    rw [hm] at key
    obtain ⟨c, hc⟩ := key
    simp [hc]
  | some vs =>
    rw [hm] at key
    simp [key]

/-! ## the validator against "a declared validation fails" -/

/-- the required-string rule of the validator fires on the value -/
def ruleOn (d : Decl) : Scalar → Bool
  | .str s => strRule d s
  | .reg _ r => isNamed d.ext && strRule d r
  | _ => false

theorem okFor_value_self (v : Val) : okFor (.value v) (.value v) = true := by simp [okFor]

theorem okFor_step (e : Option Nat) (v : Val) :
    okFor (if e.isSome = true then .reject else .value v)
      (match e with | some c => .e422 c | none => .value v) = true := by
  cases e <;> simp [okFor, isE422]

theorem validated_ok (d : Decl) (v : Val) (h : (validate d v).isSome = violates d v) :
    okFor (specValue d v) (validated d (.value v)) = true := by
  unfold specValue validated
  rw [← h]
  exact okFor_step _ _

theorem validate_scalar_isSome (d : Decl) (v : Scalar) (hrule : ruleOn d v = false) :
    (validate d (.scalar v)).isSome = violates d (.scalar v) := by
  unfold violates
  cases v with
  | str s =>
    simp only [ruleOn] at hrule
    simp [validate, hrule, formatInvalid]
  | reg n r =>
    simp only [ruleOn] at hrule
    simp only [validate, hrule, Bool.false_eq_true, if_false, formatInvalid, validateScalar]
    cases formatRejects d.ext r <;> simp
  | int w i => simp [validate, formatInvalid]
  | bool b => simp [validate, formatInvalid]
  | float w b => simp [validate, formatInvalid]

theorem validated_scalar (d : Decl) (v : Scalar) (hrule : ruleOn d v = false) :
    okFor (specValue d (.scalar v)) (validated d (.value (.scalar v))) = true :=
  validated_ok d _ (validate_scalar_isSome d v hrule)

theorem validated_list (d : Decl) (tag : String) (vs : List Scalar) :
    okFor (specValue d (.list tag vs)) (validated d (.value (.list tag vs))) = true :=
  validated_ok d _ (by simp [validate, violates])

theorem okFor_either_of_specValue (d : Decl) (v : Val) (out : BindOut)
    (h : okFor (specValue d v) out = true) : okFor (.either v) out = true := by
  unfold specValue at h
  cases out with
  | panic w => simp [okFor] at h
  | value x => by_cases hv : violates d v = true <;> simp_all [okFor, isE422]
  | e422 c => simp [okFor, isE422]
  | e4xx st => by_cases hv : violates d v = true <;> simp_all [okFor, isE422]

theorem validated_e422 (d : Decl) (c : Nat) : validated d (.e422 c) = .e422 c := rfl

/-! ## the external graph -/

def extOk (ext : Option Ext) : Bool :=
  match ext with
  | some e => e.wf
  | none => true

theorem extLookup_some (e : Ext) (t : Bytes) :
    extLookup (some e) t = (e.graph.find? (fun g => g.1 == t)).map (·.2) := rfl

theorem ext_empty (e : Ext) (hw : e.wf = true) : ∃ r0 ok, extLookup (some e) [] = some (some r0, ok) := by
  unfold Ext.wf at hw
  simp only [Bool.and_eq_true] at hw
  obtain ⟨h1, _⟩ := hw
  rw [extLookup_some]
  cases hf : e.graph.find? (fun g => g.1 == []) with
  | none => rw [hf] at h1; simp at h1
  | some g =>
    obtain ⟨t, res, ok⟩ := g
    rw [hf] at h1
    cases res with
    | none => simp at h1
    | some r0 => exact ⟨r0, ok, rfl⟩

theorem named_rendering (e : Ext) (hw : e.wf = true) (hn : e.named = true) (t r : Bytes) (ok : Bool)
    (h : extLookup (some e) t = some (some r, ok)) : r = t := by
  unfold Ext.wf at hw
  simp only [Bool.and_eq_true] at hw
  obtain ⟨_, h2⟩ := hw
  simp only [hn, Bool.not_true, Bool.false_or] at h2
  rw [extLookup_some] at h
  cases hf : e.graph.find? (fun g => g.1 == t) with
  | none => rw [hf] at h; cases h
  | some g =>
    rw [hf] at h
    simp only [Option.map_some, Option.some.injEq] at h
    have hmem := List.mem_of_find?_eq_some hf
    have hp := List.find?_some hf
    have := (List.all_eq_true.1 h2) g hmem
    obtain ⟨gt, gres, gok⟩ := g
    simp only [Prod.mk.injEq] at h
    obtain ⟨hres, _⟩ := h
    subst hres
    simp only [beq_iff_eq] at this hp
    rw [this, hp]

theorem emptyNoDefault_spec (ext : Option Ext) (k : SKind) (hk : SpecKindCase ext k) (hext : extOk ext = true) :
    emptyNoDefault ext k = .ok (specZero ext k) := by
  cases hk with
  | bool => simp [emptyNoDefault, specZero]
  | int w _ => simp [emptyNoDefault, specZero]
  | float w _ => simp [emptyNoDefault, specZero]
  | str => simp [emptyNoDefault, specZero]
  | reg e he =>
    subst he
    obtain ⟨r0, ok, h0⟩ := ext_empty e hext
    simp [emptyNoDefault, specZero, unmarshalReg, h0]

theorem strRule_nonempty (d : Decl) (t : Bytes) (h : t.isEmpty = false) : strRule d t = false := by
  simp [strRule, h]

theorem ruleOn_text (d : Decl) (k : SKind) (t : Bytes) (v : Scalar) (hk : SpecKindCase d.ext k)
    (hext : extOk d.ext = true) (hne : t.isEmpty = false) (hs : specLiteral d.ext k t = some v) :
    ruleOn d v = false := by
  cases hk with
  | bool =>
    simp only [specLiteral] at hs
    split at hs
    · cases hs; rfl
    · split at hs
      · cases hs; rfl
      · cases hs
  | int w _ =>
    simp only [specLiteral] at hs
    split at hs
    · split at hs
      · cases hs; rfl
      · cases hs
    · cases hs
  | float w _ =>
    simp only [specLiteral, specFloat] at hs
    split at hs
    · split at hs
      · cases hs; rfl
      · cases hs
    · cases hs
  | str =>
    simp only [specLiteral, Option.some.injEq] at hs
    subst hs
    simp [ruleOn, strRule_nonempty d t hne]
  | reg e he =>
    simp only [specLiteral] at hs
    split at hs
    · rename_i r ok hl
      simp only [Option.some.injEq] at hs
      subst hs
      simp only [ruleOn, isNamed, he]
      cases hn : e.named with
      | false => rfl
      | true =>
        rw [he] at hl hext
        have := named_rendering e hext hn t r ok hl
        subst this
        simp [strRule_nonempty d _ hne]
    · cases hs

theorem isEmpty_eq_nil {t : Bytes} (h : t.isEmpty = true) : t = [] := by
  cases t with
  | nil => rfl
  | cons _ _ => cases h

/-- the rule cannot fire on the zero value bound for an absent / empty parameter that passed the
required test -/
theorem ruleOn_zero (d : Decl) (ext : Option Ext) (k : SKind) (hasKey : Bool) (hd : d.default = none)
    (hreq : requiredFails d hasKey [] = false) : ruleOn d (specZero ext k) = false := by
  have hr : strRule d [] = false ∨ True := .inr trivial
  have key : ∀ s, strRule d s = false := by
    intro s
    simp only [requiredFails, hd, Option.isNone_none, Bool.and_true, List.isEmpty_nil] at hreq
    simp only [strRule, hd]
    cases h1 : d.required <;> cases h2 : d.allowEmpty <;> cases hasKey <;> simp_all
  cases k with
  | reg b n =>
    unfold specZero
    cases extLookup ext [] with
    | none => simp [zeroScalar, ruleOn, key]
    | some p => obtain ⟨res, ok⟩ := p; cases res <;> simp [zeroScalar, ruleOn, key]
  | bool => simp [specZero, zeroScalar, ruleOn]
  | int w => simp [specZero, zeroScalar, ruleOn]
  | float w => simp [specZero, zeroScalar, ruleOn]
  | str => simp [specZero, zeroScalar, ruleOn, key]
  | other n => simp [specZero, zeroScalar, ruleOn, key]

/-! ## absent / empty -/

theorem requiredFails_empty (d : Decl) (hasKey : Bool) (hd : d.default = none) :
    requiredFails d hasKey [] = (d.required && !(hasKey && d.allowEmpty)) := by
  simp only [requiredFails, hd, Option.isNone_none, Bool.and_true, List.isEmpty_nil]
  cases d.required <;> cases hasKey <;> cases d.allowEmpty <;> rfl

theorem sliceRequiredFails_nil (d : Decl) (hasKey : Bool) :
    sliceRequiredFails d hasKey [] = requiredFails d hasKey [] := by
  simp [sliceRequiredFails, requiredFails]

theorem absent_none (d : Decl) (hasKey : Bool) (zero : Val) (dflt : Option Val) (out : BindOut)
    (hd : d.default = none) (hreq : requiredFails d hasKey [] = false)
    (hok : okFor (specValue d zero) out = true) : okFor (specAbsent d hasKey dflt zero) out = true := by
  rw [requiredFails_empty d hasKey hd] at hreq
  unfold specAbsent
  simp only [hd, hreq, Bool.false_eq_true, if_false]
  cases hr : d.required with
  | true => simpa [specValue] using hok
  | false =>
    simp only [Bool.false_eq_true, if_false]
    have := okFor_either_of_specValue d zero out hok
    unfold specValue at hok
    by_cases hv : violates d zero = true
    · simpa [hv] using this
    · simpa [hv] using hok

theorem absent_none_reject (d : Decl) (hasKey : Bool) (zero : Val) (dflt : Option Val) (c : Nat)
    (hd : d.default = none) (hreq : requiredFails d hasKey [] = true) :
    okFor (specAbsent d hasKey dflt zero) (.e422 c) = true := by
  rw [requiredFails_empty d hasKey hd] at hreq
  unfold specAbsent
  simp only [hd, hreq, if_true]
  simp [okFor, isE422]

theorem absent_default (d : Decl) (hasKey : Bool) (zero v : Val) (x : Default) (out : BindOut)
    (hd : d.default = some x)
    (hok : okFor (specValue d v) out = true ∨ (emptyDefaultConflict d = true ∧ isE422 out = true)) :
    okFor (specAbsent d hasKey (some v) zero) out = true := by
  unfold specAbsent
  simp only [hd]
  by_cases hc : emptyDefaultConflict d = true
  · simp only [hc, if_true]
    rcases hok with h | ⟨_, h⟩
    · exact okFor_either_of_specValue d v out h
    · cases out <;> simp_all [okFor, isE422]
  · simp only [hc, Bool.false_eq_true, if_false]
    rcases hok with h | ⟨h, _⟩
    · simpa [specValue] using h
    · exact (hc h).elim

theorem absent_default_invalid (d : Decl) (hasKey : Bool) (zero : Val) (x : Default) (c : Nat)
    (hd : d.default = some x) : okFor (specAbsent d hasKey none zero) (.e422 c) = true := by
  unfold specAbsent
  simp [hd, okFor]

/-! ## scalars -/

theorem ruleOn_strRule (d : Decl) (v : Scalar) (h : ruleOn d v = true) : ∃ s, strRule d s = true := by
  cases v with
  | str s => exact ⟨s, h⟩
  | reg n r => simp only [ruleOn, Bool.and_eq_true] at h; exact ⟨r, h.2⟩
  | int _ _ => simp [ruleOn] at h
  | bool _ => simp [ruleOn] at h
  | float _ _ => simp [ruleOn] at h

theorem validate_rule (d : Decl) (v : Scalar) (h : ruleOn d v = true) : validate d (.scalar v) = some 602 := by
  cases v with
  | str s => simp only [ruleOn] at h; simp [validate, h]
  | reg n r => simp only [ruleOn] at h; simp [validate, h]
  | int _ _ => simp [ruleOn] at h
  | bool _ => simp [ruleOn] at h
  | float _ _ => simp [ruleOn] at h

theorem lastOr_none_empty (texts : Option (List Bytes)) (h : (lastOr (texts.getD [])).isEmpty = false) :
    texts.isSome = true := by
  cases texts with
  | none => simp [lastOr] at h
  | some _ => rfl

theorem scalar_main (d : Decl) (k : SKind) (texts : Option (List Bytes))
    (hk : SpecKindCase d.ext k) (hext : extOk d.ext = true)
    (hdef : d.default = none ∨ ∃ dv, d.default = some (.scalar dv))
    (hkn : textKnown k (lastOr (texts.getD [])) = none) :
    okFor (specScalar d texts k)
      (validated d (itemOut (setFieldValue d k (scalarDefault d) (lastOr (texts.getD [])) texts.isSome))) = true := by
  have huse := hk.usable
  unfold specScalar
  by_cases hte : (lastOr (texts.getD [])).isEmpty = true
  · -- absent or empty
    have ht0 := isEmpty_eq_nil hte
    simp only [hte, if_true]
    rw [ht0]
    rcases hdef with hd | ⟨dv, hd⟩
    · by_cases hreq : requiredFails d texts.isSome [] = true
      · simp only [setFieldValue, hreq, if_true, itemOut, validated_e422]
        exact absent_none_reject d _ _ _ _ hd hreq
      · have hreq' : requiredFails d texts.isSome [] = false := by simpa using hreq
        have hsd : scalarDefault d = none := by simp [scalarDefault, hd]
        simp only [setFieldValue, hreq', Bool.false_eq_true, if_false, huse, List.isEmpty_nil, if_true, hsd,
          emptyValue, emptyNoDefault_spec d.ext k hk hext, itemOut]
        apply absent_none d _ _ _ _ hd hreq'
        exact validated_scalar d _ (ruleOn_zero d d.ext k texts.isSome hd hreq')
    · have hreq' : requiredFails d texts.isSome [] = false := by simp [requiredFails, hd]
      have hsd : scalarDefault d = some dv := by simp [scalarDefault, hd]
      have hspec : specScalarDefault d k = (specDefaultScalar d.ext k dv).map .scalar := by
        simp [specScalarDefault, hd]
      simp only [setFieldValue, hreq', Bool.false_eq_true, if_false, huse, List.isEmpty_nil, if_true, hsd,
        emptyValue, hspec]
      have ha := defaultScalar_agrees d.ext k dv
      cases hm : defaultScalar d.ext k dv with
      | err c =>
        cases hs : specDefaultScalar d.ext k dv with
        | some v => rw [hm, hs] at ha; exact ha.elim
        | none =>
          simp only [itemOut, validated_e422, Option.map_none]
          exact absent_default_invalid d _ _ _ c hd
      | ok v =>
        cases hs : specDefaultScalar d.ext k dv with
        | none => rw [hm, hs] at ha; exact ha.elim
        | some v' =>
          rw [hm, hs] at ha
          simp only [Agrees] at ha
          subst ha
          simp only [itemOut, Option.map_some]
          apply absent_default d _ _ _ _ _ hd
          by_cases hrule : ruleOn d v = true
          · right
            obtain ⟨s, hs'⟩ := ruleOn_strRule d v hrule
            have hconf : emptyDefaultConflict d = true := by
              simp only [strRule, hd, Option.isNone_some, Bool.false_or, Bool.and_eq_true] at hs'
              simp only [emptyDefaultConflict, hd, Bool.and_eq_true]
              exact ⟨⟨hs'.1.1.1, hs'.1.1.2⟩, hs'.1.2⟩
            refine ⟨hconf, ?_⟩
            simp [validated, validate_rule d v hrule, isE422]
          · left
            exact validated_scalar d v (by simpa using hrule)
  · -- a non-empty last text
    have hte' : (lastOr (texts.getD [])).isEmpty = false := by simpa using hte
    have hsome := lastOr_none_empty texts hte'
    have hreq : requiredFails d true (lastOr (texts.getD [])) = false := by simp [requiredFails, hte']
    simp only [hte', Bool.false_eq_true, if_false, hsome, setFieldValue, hreq, huse]
    have ha := convertText_agrees d.ext k _ hk hte' hkn
    cases hm : convertText d.ext k (lastOr (texts.getD [])) with
    | err c =>
      cases hs : specLiteral d.ext k (lastOr (texts.getD [])) with
      | some v => rw [hm, hs] at ha; exact ha.elim
      | none => simp [itemOut, validated_e422, okFor, isE422]
    | ok v =>
      cases hs : specLiteral d.ext k (lastOr (texts.getD [])) with
      | none => rw [hm, hs] at ha; exact ha.elim
      | some v' =>
        rw [hm, hs] at ha
        simp only [Agrees] at ha
        subst ha
        simp only [itemOut]
        exact validated_scalar d v (ruleOn_text d k _ v hk hext hte' hs)

/-! ## arrays -/

theorem splitByFormat_eq (data : Bytes) (cf : String) :
    splitByFormat data cf =
      match sepOf cf with
      | some sep => if data = [] then [] else ((splitByte sep data).map trimSpace).filter (fun x => !x.isEmpty)
      | none => [] := by
  unfold splitByFormat
  cases data with
  | nil => cases sepOf cf <;> simp
  | cons b r =>
    cases sepOf cf with
    | none => simp
    | some sep => simp [splitLoop_eq]

theorem sepOf_not_multi (cf : String) (h : (cf == "multi") = false) : ∃ sep, sepOf cf = some sep := by
  unfold sepOf
  split
  · exact ⟨_, rfl⟩
  · split
    · exact ⟨_, rfl⟩
    · split
      · exact ⟨_, rfl⟩
      · split
        · rename_i hm; rw [h] at hm; cases hm
        · exact ⟨_, rfl⟩

theorem split_empty_text (sep : UInt8) :
    ((splitByte sep []).map trimSpace).filter (fun x => !x.isEmpty) = [] := by
  simp [splitByte, trimSpace, trimLeft]

/-- the texts the binder converts for an array are the Spec's items -/
theorem specItems_split (d : Decl) (texts : Option (List Bytes)) (hm : (d.cf == "multi") = false) :
    specItems d texts = splitByFormat (lastOr (texts.getD [])) d.cf := by
  obtain ⟨sep, hsep⟩ := sepOf_not_multi d.cf hm
  rw [splitByFormat_eq]
  simp only [specItems, hm, Bool.false_eq_true, if_false, hsep]
  by_cases hl : lastOr (texts.getD []) = []
  · simp only [hl, if_true]; exact split_empty_text sep
  · simp only [hl, if_false]

theorem item_agrees (d : Decl) (k : SKind) (t : Bytes) (hk : SpecKindCase d.ext k) (hext : extOk d.ext = true)
    (hkn : textKnown k t = none) : Agrees (setFieldValue d k none t true) (specItem d k t) := by
  have huse := hk.usable
  by_cases hte : t.isEmpty = true
  · have ht0 := isEmpty_eq_nil hte
    subst ht0
    by_cases hreq : requiredFails d true [] = true
    · have hc : (d.required && !d.allowEmpty && d.default.isNone) = true := by
        simp only [requiredFails, List.isEmpty_nil] at hreq
        cases h1 : d.required <;> cases h2 : d.allowEmpty <;> cases h3 : d.default.isNone <;> simp_all
      simp [setFieldValue, hreq, specItem, hc, Agrees]
    · have hreq' : requiredFails d true [] = false := by simpa using hreq
      have hc : (d.required && !d.allowEmpty && d.default.isNone) = false := by
        simp only [requiredFails, List.isEmpty_nil] at hreq'
        cases h1 : d.required <;> cases h2 : d.allowEmpty <;> cases h3 : d.default.isNone <;> simp_all
      simp [setFieldValue, hreq', huse, emptyValue, emptyNoDefault_spec d.ext k hk hext, specItem, hc, Agrees]
  · have hte' : t.isEmpty = false := by simpa using hte
    have hreq : requiredFails d true t = false := by simp [requiredFails, hte']
    simp only [setFieldValue, hreq, Bool.false_eq_true, if_false, huse, hte', specItem]
    exact convertText_agrees d.ext k t hk hte' hkn

theorem slice_items (d : Decl) (k : SKind) (data : List Bytes) (hk : SpecKindCase d.ext k)
    (hext : extOk d.ext = true) (hne : data ≠ []) (hkn : ∀ t ∈ data, textKnown k t = none) :
    okFor (match mapM? (specItem d k) data with
        | none => .reject
        | some vs => specValue d (.list (tagOf k) vs))
      (validated d (setSliceFieldValue d k data true)) = true := by
  have hde : data.isEmpty = false := by cases data with | nil => exact (hne rfl).elim | cons _ _ => rfl
  by_cases hreq : sliceRequiredFails d true data = true
  · -- a single empty occurrence of a required parameter
    have hd1 : data = [[]] := by
      simp only [sliceRequiredFails, hde, Bool.false_or, Bool.not_true, Bool.and_eq_true, beq_iff_eq] at hreq
      exact hreq.1.1.2
    have hc : (d.required && !d.allowEmpty && d.default.isNone) = true := by
      simp only [sliceRequiredFails] at hreq
      cases h1 : d.required <;> cases h2 : d.allowEmpty <;> cases h3 : d.default.isNone <;> simp_all
    subst hd1
    simp [setSliceFieldValue, hreq, validated_e422, mapM?, specItem, hc, okFor, isE422]
  · have hreq' : sliceRequiredFails d true data = false := by simpa using hreq
    simp only [setSliceFieldValue, hreq', Bool.false_eq_true, if_false, hde]
    have hl := listOut_agrees k data (fun t => setFieldValue d k none t true) (specItem d k)
      (fun t ht => item_agrees d k t hk hext (hkn t ht))
    cases hm : mapM? (specItem d k) data with
    | none =>
      rw [hm] at hl
      obtain ⟨c, hc⟩ := hl
      simp [hc, validated_e422, okFor, isE422]
    | some vs =>
      rw [hm] at hl
      simp only [hl]
      exact validated_list d _ vs

theorem slice_main (d : Decl) (k : SKind) (texts : Option (List Bytes)) (data : List Bytes)
    (hk : SpecKindCase d.ext k) (hext : extOk d.ext = true)
    (hdef : d.default = none ∨ ∃ ds, d.default = some (.arr ds))
    (hdata : data = specItems d texts) (hhas : data ≠ [] → texts.isSome = true)
    (hkn : ∀ t ∈ data, textKnown k t = none) :
    okFor (specSlice d texts k) (validated d (setSliceFieldValue d k data texts.isSome)) = true := by
  have huse := hk.usable
  unfold specSlice
  rw [← hdata]
  by_cases hde : data = []
  · subst hde
    simp only [List.isEmpty_nil, if_true]
    rcases hdef with hd | ⟨ds, hd⟩
    · by_cases hreq : requiredFails d texts.isSome [] = true
      · simp only [setSliceFieldValue, sliceRequiredFails_nil, hreq, if_true, validated_e422]
        exact absent_none_reject d _ _ _ _ hd hreq
      · have hreq' : requiredFails d texts.isSome [] = false := by simpa using hreq
        simp only [setSliceFieldValue, sliceRequiredFails_nil, hreq', Bool.false_eq_true, if_false,
          List.isEmpty_nil, if_true, sliceDefault, hd]
        exact absent_none d _ _ _ _ hd hreq' (validated_list d _ [])
    · have hreq' : requiredFails d texts.isSome [] = false := by simp [requiredFails, hd]
      have hitem : ∀ it, setFieldValue d k (some it) [] true = defaultScalar d.ext k it := by
        intro it
        have : requiredFails d true [] = false := by simp [requiredFails, hd]
        simp [setFieldValue, this, huse, emptyValue]
      simp only [setSliceFieldValue, sliceRequiredFails_nil, hreq', Bool.false_eq_true, if_false,
        List.isEmpty_nil, if_true, sliceDefault, hd, hitem, specArrayDefault]
      have hl := listOut_agrees k ds (defaultScalar d.ext k) (specDefaultScalar d.ext k)
        (fun it _ => defaultScalar_agrees d.ext k it)
      cases hm : mapM? (specDefaultScalar d.ext k) ds with
      | none =>
        rw [hm] at hl
        obtain ⟨c, hc⟩ := hl
        simp only [hc, validated_e422, Option.map_none]
        exact absent_default_invalid d _ _ _ c hd
      | some vs =>
        rw [hm] at hl
        simp only [hl, Option.map_some]
        exact absent_default d _ _ _ _ _ hd (.inl (validated_list d _ vs))
  · have hsome := hhas hde
    have hie : data.isEmpty = false := by cases data with | nil => exact (hde rfl).elim | cons _ _ => rfl
    simp only [hie, Bool.false_eq_true, if_false, hsome]
    exact slice_items d k data hk hext hde hkn

/-! ## reading `specKind` -/

theorem specKind_scalar {d : Decl} {k : SKind} (h : specKind d = some (.scalar k)) :
    (d.ty == "array") = false ∧ specSKind d.ext d.ty d.format = some k := by
  unfold specKind at h
  by_cases ha : (d.ty == "array") = true
  · simp only [ha, if_true] at h
    cases hs : specSKind d.ext d.itemsTy d.itemsFormat <;> rw [hs] at h <;> cases h
  · simp only [ha, Bool.false_eq_true, if_false] at h
    cases hs : specSKind d.ext d.ty d.format with
    | none => rw [hs] at h; cases h
    | some k' => rw [hs] at h; cases h; exact ⟨by simpa using ha, rfl⟩

theorem specKind_slice {d : Decl} {k : SKind} (h : specKind d = some (.slice k)) :
    (d.ty == "array") = true ∧ specSKind d.ext d.itemsTy d.itemsFormat = some k := by
  unfold specKind at h
  by_cases ha : (d.ty == "array") = true
  · simp only [ha, if_true] at h
    cases hs : specSKind d.ext d.itemsTy d.itemsFormat with
    | none => rw [hs] at h; cases h
    | some k' => rw [hs] at h; cases h; exact ⟨ha, rfl⟩
  · simp only [ha, Bool.false_eq_true, if_false] at h
    cases hs : specSKind d.ext d.ty d.format <;> rw [hs] at h <;> cases h

end RtVerif.C03
