import RtVerif.Model.C01
import RtVerif.Lemmas.C01Bridge
import RtVerif.Lemmas.C01Composite
import RtVerif.Lemmas.C01Occ
/-
  C01 bridge for templates WITH composite segments.  A segment is static text or
  `pre {n0} st0 {n1} st1 … {nk} stk` (a whole-segment placeholder is the case `pre = st0 = ""`,
  `k = 0`).  `convert` keeps `pre:n0` of it; the trie matches `pre` literally and captures the rest
  of the path segment for `n0`; `collectParams` splits that text along `st0 {n1} st1 …`.
-/
namespace RtVerif.C01
open RtVerif Bytes

inductive XS where
  | lit (b : Bytes)
  | par (pre n0 st0 : Bytes) (r : List (Bytes × Bytes))
deriving Repr

def XS.text : XS → Bytes
  | .lit b => b
  | .par pre n0 st0 r => pre ++ needleOf n0 ++ patAfter st0 r

def renderX : List XS → Bytes
  | [] => []
  | s :: r => slash :: (s.text ++ renderX r)

def keyX : List XS → Bytes
  | [] => []
  | .lit b :: r => slash :: (b ++ keyX r)
  | .par pre n0 _ _ :: r => slash :: (pre ++ colon :: (n0 ++ keyX r))

/-- neither a separator nor a brace -/
def nsb (c : UInt8) : Bool := c != slash && notBrace c

def XS.wf : XS → Prop
  | .lit b => b.all plainByte = true
  | .par pre n0 st0 r =>
    pre.all plainByte = true ∧ n0.all plainByte = true ∧ n0 ≠ [] ∧ st0.all nsb = true ∧
      ∀ p ∈ r, p.1.all nsb = true ∧ p.2.all nsb = true ∧ p.1 ≠ []

def WFX (xs : List XS) : Prop := ∀ s ∈ xs, s.wf

theorem nsb_notBrace {l : Bytes} (h : l.all nsb = true) : l.all notBrace = true := by
  simp only [List.all_eq_true] at h ⊢
  intro c hc
  have := h c hc
  simp only [nsb, Bool.and_eq_true] at this
  exact this.2

theorem nsb_noslash {l : Bytes} (h : l.all nsb = true) : slash ∉ l := by
  intro hm
  have := List.all_eq_true.mp h _ hm
  simp [nsb] at this

theorem plain_notBrace {l : Bytes} (h : l.all plainByte = true) : l.all notBrace = true := by
  simp only [List.all_eq_true] at h ⊢
  intro c hc
  have := h c hc
  simp only [plainByte, Bool.and_eq_true, bne_iff_ne, ne_eq] at this
  simp only [notBrace, Bool.and_eq_true, bne_iff_ne, ne_eq]
  exact ⟨this.1.1.1.1.1.1.2, this.1.1.1.1.1.2⟩

theorem segText_noslash (r : List (Bytes × Bytes)) (h : ∀ p ∈ r, p.1.all nsb = true ∧ p.2.all nsb = true ∧ p.1 ≠ []) :
    slash ∉ segText r := by
  induction r with
  | nil => simp [segText]
  | cons p r' ih =>
    obtain ⟨n, st⟩ := p
    have hp := h (n, st) List.mem_cons_self
    have ih' := ih (fun x hx => h x (List.mem_cons_of_mem _ hx))
    simp only [segText, List.mem_cons, List.mem_append, not_or]
    refine ⟨by decide, nsb_noslash hp.1, by decide, nsb_noslash hp.2.1, ih'⟩

theorem patAfter_noslash (st0 : Bytes) (r : List (Bytes × Bytes)) (h0 : st0.all nsb = true)
    (h : ∀ p ∈ r, p.1.all nsb = true ∧ p.2.all nsb = true ∧ p.1 ≠ []) : slash ∉ patAfter st0 r := by
  simp only [patAfter, List.mem_append, not_or]
  exact ⟨nsb_noslash h0, segText_noslash r h⟩

theorem par_phsWF {pre n0 st0 : Bytes} {r : List (Bytes × Bytes)} (h : (XS.par pre n0 st0 r).wf) :
    PhsWF ((n0, st0) :: r) := by
  obtain ⟨_, hn0, _, hst0, hr⟩ := h
  intro p hp
  rcases List.mem_cons.mp hp with rfl | hp
  · exact ⟨plain_notBrace hn0, nsb_notBrace hst0⟩
  · exact ⟨nsb_notBrace (hr p hp).1, nsb_notBrace (hr p hp).2.1⟩

theorem renderX_cases (r : List XS) : renderX r = [] ∨ ∃ t, renderX r = slash :: t := by
  cases r with
  | nil => left; rfl
  | cons s t => right; exact ⟨_, rfl⟩

/-! ### `convert` -/

theorem dropWhile_noslash_append (a X : Bytes) (ha : slash ∉ a) (hX : X = [] ∨ ∃ t, X = slash :: t) :
    (a ++ X).dropWhile (· != slash) = X := by
  have hall : a.all (· != slash) = true := by
    simp only [List.all_eq_true, bne_iff_ne, ne_eq]
    intro c hc e; exact ha (e ▸ hc)
  rcases hX with rfl | ⟨t, rfl⟩
  · rw [List.append_nil]; exact (takeWhile_all _ _ hall).2
  · exact (takeWhile_append_stop _ _ _ _ hall (by simp)).2

/-- **the trie key of a template with composite segments** -/
theorem convert_renderX (xs : List XS) (hw : WFX xs) : convert (renderX xs) = keyX xs := by
  induction xs with
  | nil => exact convert_nil
  | cons s r ih =>
    have hr : WFX r := fun x hx => hw x (List.mem_cons_of_mem _ hx)
    have hs := hw s List.mem_cons_self
    have hsl : (slash == lbrace) = false := by decide
    cases s with
    | lit b =>
      simp only [renderX, XS.text, keyX]
      rw [convert_cons_ne _ _ hsl, convert_append_plain b _ hs, ih hr]
    | par pre n0 st0 r' =>
      obtain ⟨hpre, hn0, hne, hst0, hr'⟩ := hs
      simp only [renderX, XS.text, keyX]
      rw [convert_cons_ne _ _ hsl]
      have e : pre ++ needleOf n0 ++ patAfter st0 r' ++ renderX r =
          pre ++ (lbrace :: (n0 ++ rbrace :: (patAfter st0 r' ++ renderX r))) := by
        simp [needleOf]
      rw [e, convert_append_plain pre _ hpre, convert_ph n0 _ hn0 hne,
        dropWhile_noslash_append _ _ (patAfter_noslash st0 r' hst0 hr') (renderX_cases r), ih hr]

/-! ### the trie key against a path -/

def tailKeyX (r : List XS) : Bytes := keyX r ++ [C05.cTerm]

theorem tailKeyX_lit (b : Bytes) (r : List XS) : tailKeyX (.lit b :: r) = slash :: (b ++ tailKeyX r) := by
  simp [tailKeyX, keyX, List.append_assoc]

theorem tailKeyX_par (pre n0 st0 : Bytes) (r' : List (Bytes × Bytes)) (r : List XS) :
    tailKeyX (.par pre n0 st0 r' :: r) = slash :: (pre ++ colon :: (n0 ++ tailKeyX r)) := by
  simp [tailKeyX, keyX, List.append_assoc]

theorem tailKeyX_cases (r : List XS) : tailKeyX r = [C05.cTerm] ∨ ∃ k, tailKeyX r = slash :: k := by
  cases r with
  | nil => left; rfl
  | cons s t =>
    right
    cases s with
    | lit b => exact ⟨_, tailKeyX_lit b t⟩
    | par pre n0 st0 r' => exact ⟨_, tailKeyX_par pre n0 st0 r' t⟩

theorem tailKeyX_rejects (st : Bool) (r : List XS) (c : UInt8) (rest : Bytes) (hc : (c == slash) = false) :
    C05.matchKey st (tailKeyX r) (c :: rest) = none := by
  rcases tailKeyX_cases r with h | ⟨k, h⟩
  · rw [h, C05.matchKey_term]; simp
  · rw [h, C05.matchKey_lit_cons _ _ _ _ _ (by decide) (by decide) (by decide)]
    simp [hc]

theorem name_splitX (n : Bytes) (r : List XS) (hn : n.all plainByte = true) :
    (n ++ tailKeyX r).takeWhile C05.notKeySep = n ∧ (n ++ tailKeyX r).dropWhile C05.notKeySep = tailKeyX r := by
  have hall : n.all C05.notKeySep = true := by
    simp only [List.all_eq_true] at hn ⊢
    intro c hc
    obtain ⟨h1, _, _, h4⟩ := plain_not_special (hn c hc)
    simp [C05.notKeySep, cSep_eq, h1, h4]
  rcases tailKeyX_cases r with h | ⟨k, h⟩
  · rw [h]; exact takeWhile_append_stop _ _ _ _ hall (by simp [C05.notKeySep])
  · rw [h]; exact takeWhile_append_stop _ _ _ _ hall (by simp [C05.notKeySep, cSep_eq])

/-- the texts the trie captures: per parameterised segment, the path segment behind `pre` -/
def matchX : List XS → List Bytes → Option (List Bytes)
  | [], [] => some []
  | .lit b :: ts, q :: qs => if b == q then matchX ts qs else none
  | .par pre _ _ _ :: ts, q :: qs => if pre.isPrefixOf q then (matchX ts qs).map (q.drop pre.length :: ·) else none
  | _, _ => none

theorem matchKey_lit_segX (st : Bool) (r : List XS) (qs : List Bytes) (b q : Bytes)
    (hb : b.all plainByte = true) (hq : slash ∉ q) :
    C05.matchKey st (b ++ tailKeyX r) (q ++ renderP qs) =
      if b == q then C05.matchKey st (tailKeyX r) (renderP qs) else none := by
  induction b generalizing q with
  | nil =>
    cases q with
    | nil => simp
    | cons c q' =>
      have hc : (c == slash) = false := by
        simp only [List.mem_cons, not_or] at hq
        simp only [beq_eq_false_iff_ne, ne_eq]
        exact fun e => hq.1 e.symm
      simp only [List.nil_append, List.cons_append]
      rw [tailKeyX_rejects st r c _ hc]
      rfl
  | cons x b' ih =>
    simp only [List.all_cons, Bool.and_eq_true] at hb
    obtain ⟨h1, h2, h3, h4⟩ := plain_not_special hb.1
    cases q with
    | nil =>
      simp only [List.nil_append, List.cons_append]
      rcases renderP_cases qs with h | ⟨t, h⟩
      · rw [h, C05.matchKey_lit_nil _ _ _ h1 h2 h3]; rfl
      · rw [h, C05.matchKey_lit_cons _ _ _ _ _ h1 h2 h3]
        have : (slash == x) = false := by
          simp only [beq_eq_false_iff_ne, ne_eq] at h4 ⊢; exact fun e => h4 e.symm
        rw [this]; rfl
    | cons c q' =>
      simp only [List.mem_cons, not_or] at hq
      simp only [List.cons_append]
      rw [C05.matchKey_lit_cons _ _ _ _ _ h1 h2 h3]
      by_cases hcx : (c == x) = true
      · have hcx' : c = x := by simpa using hcx
        subst hcx'
        simp only [beq_self_eq_true, ↓reduceIte]
        rw [ih q' hb.2 hq.2]
        simp
      · have : ¬ (x = c) := by
          intro e; apply hcx; simp [e]
        simp [hcx, this]

/-- `pre:n0` of the key against one path segment -/
theorem matchKey_par_seg (r : List XS) (qs : List Bytes) (pre n0 q : Bytes)
    (hpre : pre.all plainByte = true) (hn0 : n0.all plainByte = true) (hq : slash ∉ q) :
    C05.matchKey false (pre ++ colon :: (n0 ++ tailKeyX r)) (q ++ renderP qs) =
      if pre.isPrefixOf q then (C05.matchKey false (tailKeyX r) (renderP qs)).map (q.drop pre.length :: ·)
      else none := by
  induction pre generalizing q with
  | nil =>
    simp only [List.nil_append, List.isPrefixOf, ↓reduceIte, List.length_nil, List.drop_zero]
    rw [← cParam_eq, C05.matchKey_param]
    simp only [Bool.false_and, Bool.false_eq_true, ↓reduceIte]
    rw [(name_splitX n0 r hn0).2, (path_split q qs hq).1, (path_split q qs hq).2]
  | cons x pre' ih =>
    simp only [List.all_cons, Bool.and_eq_true] at hpre
    obtain ⟨h1, h2, h3, h4⟩ := plain_not_special hpre.1
    cases q with
    | nil =>
      simp only [List.nil_append, List.cons_append, List.isPrefixOf, Bool.false_eq_true, ↓reduceIte]
      rcases renderP_cases qs with h | ⟨t, h⟩
      · rw [h, C05.matchKey_lit_nil _ _ _ h1 h2 h3]
      · rw [h, C05.matchKey_lit_cons _ _ _ _ _ h1 h2 h3]
        have : (slash == x) = false := by
          simp only [beq_eq_false_iff_ne, ne_eq] at h4 ⊢; exact fun e => h4 e.symm
        rw [this]; rfl
    | cons c q' =>
      simp only [List.mem_cons, not_or] at hq
      simp only [List.cons_append]
      rw [C05.matchKey_lit_cons _ _ _ _ _ h1 h2 h3, isPrefixOf_cons₂]
      by_cases hcx : (c == x) = true
      · have hcx' : c = x := by simpa using hcx
        subst hcx'
        simp only [beq_self_eq_true, ↓reduceIte, Bool.true_and, List.length_cons, List.drop_succ_cons]
        exact ih q' hpre.2 hq.2
      · have : (x == c) = false := by
          simp only [beq_eq_false_iff_ne, ne_eq]
          intro e; apply hcx; simp [e]
        simp [hcx, this]

/-- **the key of a template with composite segments matches a path exactly when every static
segment is equal, every `pre` is a prefix of its path segment — and captures what follows `pre`** -/
theorem matchKey_keyX (xs : List XS) (hw : WFX xs) (ps : List Bytes) (hps : ∀ q ∈ ps, slash ∉ q) :
    C05.matchKey false (tailKeyX xs) (renderP ps) = matchX xs ps := by
  induction xs generalizing ps with
  | nil =>
    show C05.matchKey false [C05.cTerm] (renderP ps) = _
    rw [C05.matchKey_term]
    cases ps with
    | nil => simp [renderP, matchX]
    | cons q t => simp [renderP, matchX]
  | cons s r ih =>
    have hr : WFX r := fun x hx => hw x (List.mem_cons_of_mem _ hx)
    have hs := hw s List.mem_cons_self
    cases ps with
    | nil =>
      cases s with
      | lit b =>
        rw [tailKeyX_lit]
        show C05.matchKey false (slash :: (b ++ tailKeyX r)) [] = _
        rw [C05.matchKey_lit_nil _ _ _ (by decide) (by decide) (by decide)]
        simp [matchX]
      | par pre n0 st0 r' =>
        rw [tailKeyX_par]
        show C05.matchKey false (slash :: (pre ++ colon :: (n0 ++ tailKeyX r))) [] = _
        rw [C05.matchKey_lit_nil _ _ _ (by decide) (by decide) (by decide)]
        simp [matchX]
    | cons q qs =>
      have hq : slash ∉ q := hps q List.mem_cons_self
      have hqs : ∀ x ∈ qs, slash ∉ x := fun x hx => hps x (List.mem_cons_of_mem _ hx)
      cases s with
      | lit b =>
        rw [tailKeyX_lit]
        show C05.matchKey false (slash :: (b ++ tailKeyX r)) (slash :: (q ++ renderP qs)) = _
        rw [C05.matchKey_lit_cons _ _ _ _ _ (by decide) (by decide) (by decide)]
        simp only [beq_self_eq_true, ↓reduceIte]
        rw [matchKey_lit_segX false r qs b q hs hq]
        simp only [matchX]
        split
        · exact ih hr qs hqs
        · rfl
      | par pre n0 st0 r' =>
        obtain ⟨hpre, hn0, _, _, _⟩ := hs
        rw [tailKeyX_par]
        show C05.matchKey false (slash :: (pre ++ colon :: (n0 ++ tailKeyX r))) (slash :: (q ++ renderP qs)) = _
        rw [C05.matchKey_lit_cons _ _ _ _ _ (by decide) (by decide) (by decide)]
        simp only [beq_self_eq_true, ↓reduceIte]
        rw [matchKey_par_seg r qs pre n0 q hpre hn0 hq, ih hr qs hqs]
        simp only [matchX]

/-! ### names -/

def firstNames : List XS → List Bytes
  | [] => []
  | .lit _ :: r => firstNames r
  | .par _ n0 _ _ :: r => n0 :: firstNames r

theorem namesOf_tailKeyX (xs : List XS) (hw : WFX xs) : C05.namesOf (tailKeyX xs) = firstNames xs := by
  induction xs with
  | nil =>
    show C05.namesOf [C05.cTerm] = []
    rw [C05.namesOf_lit _ _ C05.cTerm_ne_cParam C05.cTerm_ne_cWild, C05.namesOf_nil]
  | cons s r ih =>
    have hr : WFX r := fun x hx => hw x (List.mem_cons_of_mem _ hx)
    have hs := hw s List.mem_cons_self
    cases s with
    | lit b =>
      rw [tailKeyX_lit, C05.namesOf_lit _ _ (by decide) (by decide), namesOf_plain_append b _ hs, ih hr]
      rfl
    | par pre n0 st0 r' =>
      obtain ⟨hpre, hn0, _, _, _⟩ := hs
      rw [tailKeyX_par, C05.namesOf_lit _ _ (by decide) (by decide), namesOf_plain_append pre _ hpre,
        ← cParam_eq, C05.namesOf_param, (name_splitX n0 r hn0).1, (name_splitX n0 r hn0).2, ih hr]
      rfl

/-! ### the template as chunks; where `collectParams` finds each first placeholder -/

def chunksR : List (Bytes × Bytes) → List Chunk
  | [] => []
  | (n, st) :: r => .ph n :: .st st :: chunksR r

def chunksOf : List XS → List Chunk
  | [] => []
  | .lit b :: r => .st (slash :: b) :: chunksOf r
  | .par pre n0 st0 r' :: r => .st (slash :: pre) :: .ph n0 :: .st st0 :: (chunksR r' ++ chunksOf r)

/-- every placeholder name of the template, in order -/
def allNames (xs : List XS) : List Bytes := chunkNames (chunksOf xs)

theorem flatC_chunksR (r : List (Bytes × Bytes)) : flatC (chunksR r) = segText r := by
  induction r with
  | nil => rfl
  | cons p r' ih =>
    obtain ⟨n, st⟩ := p
    simp [chunksR, flatC, Chunk.text, segText, needleOf, ih]

theorem flatC_chunksOf (xs : List XS) : flatC (chunksOf xs) = renderX xs := by
  induction xs with
  | nil => rfl
  | cons s r ih =>
    cases s with
    | lit b => simp [chunksOf, flatC, Chunk.text, renderX, XS.text, ih]
    | par pre n0 st0 r' =>
      simp [chunksOf, flatC, Chunk.text, renderX, XS.text, flatC_append, flatC_chunksR, ih, patAfter]

theorem chunksR_wf (r : List (Bytes × Bytes)) (h : ∀ p ∈ r, p.1.all nsb = true ∧ p.2.all nsb = true ∧ p.1 ≠ []) :
    ∀ c ∈ chunksR r, c.wf := by
  induction r with
  | nil => intro c hc; cases hc
  | cons p r' ih =>
    obtain ⟨n, st⟩ := p
    have hp := h (n, st) List.mem_cons_self
    intro c hc
    simp only [chunksR, List.mem_cons] at hc
    rcases hc with rfl | rfl | hc
    · exact nsb_notBrace hp.1
    · exact nsb_notBrace hp.2.1
    · exact ih (fun x hx => h x (List.mem_cons_of_mem _ hx)) c hc

theorem slash_plain_wf {b : Bytes} (h : b.all plainByte = true) : (Chunk.st (slash :: b)).wf := by
  show (slash :: b).all notBrace = true
  simp only [List.all_cons, Bool.and_eq_true]
  exact ⟨by decide, plain_notBrace h⟩

theorem chunksOf_wf (xs : List XS) (hw : WFX xs) : ∀ c ∈ chunksOf xs, c.wf := by
  induction xs with
  | nil => intro c hc; cases hc
  | cons s r ih =>
    have hr : WFX r := fun x hx => hw x (List.mem_cons_of_mem _ hx)
    have hs := hw s List.mem_cons_self
    cases s with
    | lit b =>
      intro c hc
      simp only [chunksOf, List.mem_cons] at hc
      rcases hc with rfl | hc
      · exact slash_plain_wf hs
      · exact ih hr c hc
    | par pre n0 st0 r' =>
      obtain ⟨hpre, hn0, _, hst0, hr'⟩ := hs
      intro c hc
      simp only [chunksOf, List.mem_cons, List.mem_append] at hc
      rcases hc with rfl | rfl | rfl | hc | hc
      · exact slash_plain_wf hpre
      · exact plain_notBrace hn0
      · exact nsb_notBrace hst0
      · exact chunksR_wf r' hr' c hc
      · exact ih hr c hc

theorem chunksOf_append (as bs : List XS) : chunksOf (as ++ bs) = chunksOf as ++ chunksOf bs := by
  induction as with
  | nil => rfl
  | cons s r ih => cases s <;> simp [chunksOf, ih]

theorem renderX_append (as bs : List XS) : renderX (as ++ bs) = renderX as ++ renderX bs := by
  induction as with
  | nil => rfl
  | cons s r ih => simp [renderX, ih]

/-- the values `Lookup` hands on for one parameterised segment and the text captured for it -/
def segParams (n0 st0 : Bytes) (r : List (Bytes × Bytes)) (raw : Bytes) : List (Bytes × Bytes) :=
  (((n0, st0) :: r).map (·.1)).zip ((greedy ((n0, st0) :: r) raw).map decode)

theorem hasSuffix_nil (t : Bytes) : hasSuffix t [] = true := by simp [hasSuffix]

/-- `paramsOf` for the first placeholder of a segment, inside the whole template: the placeholder
names of the template being distinct, `strings.Index` finds `{n0}` at its own segment -/
theorem paramsOf_in_template (before after : List XS) (pre n0 st0 : Bytes) (r : List (Bytes × Bytes))
    (hw : WFX (before ++ .par pre n0 st0 r :: after))
    (hnd : (allNames (before ++ .par pre n0 st0 r :: after)).Nodup) (raw : Bytes) :
    paramsOf (renderX (before ++ .par pre n0 st0 r :: after)) n0 raw = some (segParams n0 st0 r raw) := by
  have hwb : WFX before := fun x hx => hw x (List.mem_append_left _ hx)
  have hwa : WFX after := fun x hx => hw x (List.mem_append_right _ (List.mem_cons_of_mem _ hx))
  have hs : (XS.par pre n0 st0 r).wf := hw _ (List.mem_append_right _ List.mem_cons_self)
  obtain ⟨hpre, hn0, hne0, hst0, hr⟩ := hs
  -- the template as  A ++ {n0} ++ pattern ++ B
  let A := renderX before ++ slash :: pre
  have hT : renderX (before ++ .par pre n0 st0 r :: after) =
      A ++ needleOf n0 ++ patAfter st0 r ++ renderX after := by
    simp [renderX_append, renderX, XS.text, A]
  -- chunks in front of the placeholder, none of them named n0
  have hAs : flatC (chunksOf before ++ [.st (slash :: pre)]) = A := by
    simp [flatC_append, flatC_chunksOf, flatC, Chunk.text, A]
  have hBs : flatC (.st st0 :: (chunksR r ++ chunksOf after)) = patAfter st0 r ++ renderX after := by
    simp [flatC, Chunk.text, flatC_append, flatC_chunksR, flatC_chunksOf, patAfter]
  have hnames : allNames (before ++ .par pre n0 st0 r :: after) =
      chunkNames (chunksOf before ++ [.st (slash :: pre)]) ++ n0 :: chunkNames (.st st0 :: (chunksR r ++ chunksOf after)) := by
    have chunkNames_append : ∀ (a b : List Chunk), chunkNames (a ++ b) = chunkNames a ++ chunkNames b := by
      intro a b
      induction a with
      | nil => rfl
      | cons c t ih => cases c <;> simp [chunkNames, ih]
    simp [allNames, chunksOf_append, chunksOf, chunkNames_append, chunkNames]
  have hnot : n0 ∉ chunkNames (chunksOf before ++ [.st (slash :: pre)]) := by
    rw [hnames] at hnd
    have := (List.nodup_append.mp hnd).2.2
    intro hm
    exact this n0 hm n0 List.mem_cons_self rfl
  have hidx : indexOf (needleOf n0) (A ++ needleOf n0 ++ patAfter st0 r ++ renderX after) = some A.length := by
    have := indexOf_needle_at n0 (chunksOf before ++ [.st (slash :: pre)]) (.st st0 :: (chunksR r ++ chunksOf after))
      (plain_notBrace hn0) ?_ ?_ hnot
    · rw [hAs, hBs, ← List.append_assoc] at this; exact this
    · intro c hc
      rcases List.mem_append.mp hc with hc | hc
      · exact chunksOf_wf before hwb c hc
      · simp only [List.mem_cons, List.not_mem_nil, or_false] at hc
        subst hc; exact slash_plain_wf hpre
    · intro c hc
      rcases List.mem_cons.mp hc with rfl | hc
      · exact nsb_notBrace hst0
      · rcases List.mem_append.mp hc with hc | hc
        · exact chunksR_wf r hr c hc
        · exact chunksOf_wf after hwa c hc
  rw [hT]
  by_cases hpat : patAfter st0 r = []
  · -- a whole-segment placeholder (behind `pre`): used directly
    have hst0' : st0 = [] := by
      simp only [patAfter, List.append_eq_nil_iff] at hpat; exact hpat.1
    have hr' : r = [] := by
      cases r with
      | nil => rfl
      | cons p t =>
        obtain ⟨n, st⟩ := p
        simp [patAfter, segText] at hpat
    subst hst0'; subst hr'
    unfold paramsOf
    have hneedle : lbrace :: n0 ++ [rbrace] = needleOf n0 := rfl
    rw [hpat, List.append_nil] at hidx
    simp only [hneedle, hpat, List.append_nil, hidx]
    have hnl : (needleOf n0).length = n0.length + 2 := by simp [needleOf]
    have hdrop : (A ++ needleOf n0 ++ renderX after).drop (A.length + n0.length + 2) = renderX after := by
      have e : A.length + n0.length + 2 = (A ++ needleOf n0).length := by simp [hnl]; omega
      rw [e, List.drop_left]
    have hcond : (decide (A.length + n0.length + 2 < (A ++ needleOf n0 ++ renderX after).length) &&
        (A ++ needleOf n0 ++ renderX after)[A.length + n0.length + 2]? != some slash) = false := by
      rw [getElem?_eq_head?_drop, hdrop]
      rcases renderX_cases after with h | ⟨t, h⟩
      · rw [h]
        have : ¬ (A.length + n0.length + 2 < (A ++ needleOf n0 ++ ([] : Bytes)).length) := by
          simp only [List.append_nil, List.length_append, hnl]; omega
        simp only [this, decide_false, Bool.false_and]
      · rw [h]; simp
    simp only [hcond, Bool.false_eq_true, ↓reduceIte, segParams, greedy, hasSuffix_nil, List.length_nil,
      Nat.sub_zero, List.take_length, List.map_cons, List.map_nil, List.zip_cons_cons, List.zip_nil_right]
  · exact paramsOf_composite A (renderX after) n0 st0 r raw
      (par_phsWF ⟨hpre, hn0, hne0, hst0, hr⟩) hidx hpat (patAfter_noslash st0 r hst0 hr) (renderX_cases after)

/-- what the handler receives: per parameterised segment the split and decoded captured text -/
def flatParams : List XS → List Bytes → List (Bytes × Bytes)
  | .lit _ :: ts, vs => flatParams ts vs
  | .par _ n0 st0 r :: ts, v :: vs => segParams n0 st0 r v ++ flatParams ts vs
  | _, _ => []

theorem collectParams_nil_names (T : Bytes) (vals : List Bytes) : collectParams T [] vals = some [] := by
  cases vals <;> rfl

theorem flatParams_lits_only (xs : List XS) (h : firstNames xs = []) (vs : List Bytes) : flatParams xs vs = [] := by
  induction xs with
  | nil => cases vs <;> rfl
  | cons s r ih =>
    cases s with
    | lit b => simp only [firstNames] at h; simp [flatParams, ih h]
    | par pre n0 st0 r' => simp [firstNames] at h

/-- **`collectParams` on a template with composite segments** -/
theorem collectParams_X (before after : List XS) (hw : WFX (before ++ after))
    (hnd : (allNames (before ++ after)).Nodup) (vals : List Bytes) :
    collectParams (renderX (before ++ after)) (firstNames after) vals = some (flatParams after vals) := by
  induction after generalizing before vals with
  | nil => simp [firstNames, collectParams_nil_names]; cases vals <;> rfl
  | cons s r ih =>
    cases s with
    | lit b =>
      have e : before ++ XS.lit b :: r = (before ++ [XS.lit b]) ++ r := by simp
      simp only [firstNames, flatParams]
      rw [e]
      exact ih (before ++ [XS.lit b]) (e ▸ hw) (e ▸ hnd) vals
    | par pre n0 st0 r' =>
      cases vals with
      | nil => rfl
      | cons v vs =>
        have e : before ++ XS.par pre n0 st0 r' :: r = (before ++ [XS.par pre n0 st0 r']) ++ r := by simp
        simp only [firstNames, flatParams, collectParams]
        rw [paramsOf_in_template before r pre n0 st0 r' hw hnd v]
        have := ih (before ++ [XS.par pre n0 st0 r']) (e ▸ hw) (e ▸ hnd) vs
        rw [← e] at this
        rw [this]
        rfl

/-! ### in the property's own words: instantiation of the whole template -/

/-- the raw texts, by name, that the captured texts split into (before decoding) -/
def rawParams : List XS → List Bytes → List (Bytes × Bytes)
  | .lit _ :: ts, vs => rawParams ts vs
  | .par _ n0 st0 r :: ts, v :: vs =>
    (((n0, st0) :: r).map (·.1)).zip (greedy ((n0, st0) :: r) v) ++ rawParams ts vs
  | _, _ => []

theorem flatParams_eq (xs : List XS) (vs : List Bytes) :
    flatParams xs vs = (rawParams xs vs).map (fun kv => (kv.1, decode kv.2)) := by
  induction xs generalizing vs with
  | nil => cases vs <;> rfl
  | cons s r ih =>
    cases s with
    | lit b => simp only [flatParams, rawParams, ih]
    | par pre n0 st0 r' =>
      cases vs with
      | nil => rfl
      | cons v vs' =>
        simp only [flatParams, rawParams, segParams, List.map_append, ih, map_zip_decode]

/-- the path segments `qs` instantiate the template with the raw texts `raws`, by name: static
segments are equal, and a segment `pre {n0} st0 {n1} st1 …` is `pre ++ v0 ++ st0 ++ v1 ++ st1 ++ …` -/
def InstOf : List XS → List Bytes → List (Bytes × Bytes) → Prop
  | [], [], raws => raws = []
  | .lit b :: ts, q :: qs, raws => q = b ∧ InstOf ts qs raws
  | .par pre n0 st0 r :: ts, q :: qs, raws =>
    pre.isPrefixOf q = true ∧ ∃ us rest, renderVals ((n0, st0) :: r) us = some (q.drop pre.length) ∧
      raws = (((n0, st0) :: r).map (·.1)).zip us ++ rest ∧ InstOf ts qs rest
  | _, _, _ => False

/-- if the path instantiates the template at all, the leftmost splitting of the captured texts is
an instantiation -/
theorem instOf_greedy (xs : List XS) (qs vals : List Bytes) (hm : matchX xs qs = some vals)
    (hex : ∃ raws, InstOf xs qs raws) : InstOf xs qs (rawParams xs vals) := by
  induction xs generalizing qs vals with
  | nil =>
    cases qs with
    | nil =>
      simp only [matchX, Option.some.injEq] at hm
      subst hm; rfl
    | cons q qs' => simp [matchX] at hm
  | cons s ts ih =>
    cases qs with
    | nil => cases s <;> simp [matchX] at hm
    | cons q qs' =>
      obtain ⟨raws, hr⟩ := hex
      cases s with
      | lit b =>
        simp only [matchX] at hm
        split at hm
        · exact ⟨hr.1, ih qs' vals hm ⟨raws, hr.2⟩⟩
        · cases hm
      | par pre n0 st0 r =>
        simp only [matchX] at hm
        split at hm
        · simp only [Option.map_eq_some_iff] at hm
          obtain ⟨vals', hm', rfl⟩ := hm
          obtain ⟨hp, us, rest, hus, _, hrest⟩ := hr
          refine ⟨hp, greedy ((n0, st0) :: r) (q.drop pre.length), rawParams ts vals', ?_, rfl, ?_⟩
          · exact greedy_complete _ _ ⟨us, hus⟩
          · exact ih qs' vals' hm' ⟨rest, hrest⟩
        · cases hm

end RtVerif.C01
