import RtVerif.Lemmas.C05DABuild2
/-  C05DA, part 6: `arrange` + `setCheck`s place the children; `build` meets its contract. -/
namespace RtVerif.C05DA
open RtVerif Bytes
open RtVerif.C05 (Rec cParam cWild cTerm cSep isReserved notKeySep notPathSep sortRecs advLit advSingle
  advWild leafOf hasSingle weight NulFree)

theorem setBase_fresh {e : Elem} (h : e.base = 0) {b : Nat} (hb : b < bound) :
    e.setBase b = { e with base := b } := by
  unfold Elem.setBase
  have : b % 4194304 = b := Nat.mod_eq_of_lt hb
  rw [h, Nat.zero_or, this]

theorem setCheck_empty (c : UInt8) : ({} : Elem).setCheck c = ({ check := c } : Elem) := by
  simp [Elem.setCheck]

/-- the state after `arrange` and the `setCheck` loop, relative to the state before -/
theorem place_spec {sibs : List Sib} {idx : Nat} {st st1 : St} {base : Nat} {bc3 : BC}
    (hne : sibs ≠ []) (ha : arrange sibs idx st = .ok (st1, base))
    (hc : setChecks base sibs st1.bc = .ok bc3) (hnd : (sibs.map (·.c)).Nodup)
    (hinv : Inv st) (hal : Alloc st.bc idx) (hfr : FreshEl (el st.bc idx)) :
    base ∉ st.used ∧ st1.used = base :: st.used ∧ st1.node = st.node ∧ idx < bc3.size ∧
    st.bc.size ≤ bc3.size ∧ el bc3 idx = { el st.bc idx with base := base } ∧
    (∀ s ∈ sibs, ¬Alloc st.bc (nextIndex base s.c) ∧ nextIndex base s.c ≠ idx ∧
      el bc3 (nextIndex base s.c) = ({ check := s.c } : Elem)) ∧
    (∀ x, x ≠ idx → (∀ s ∈ sibs, x ≠ nextIndex base s.c) → el bc3 x = el st.bc x) := by
  unfold arrange at ha
  have hemp : sibs.isEmpty = false := by cases sibs with
    | nil => exact absurd rfl hne
    | cons _ _ => rfl
  simp only [hemp, Bool.false_eq_true, ↓reduceIte] at ha
  split at ha
  · cases ha
  · rename_i bcg base' hfb
    split at ha
    · cases ha
    · rename_i hmax
      split at ha
      · rename_i hidx
        simp only [Except.ok.injEq, Prod.mk.injEq] at ha
        obtain ⟨rfl, rfl⟩ := ha
        obtain ⟨hg1, hg2, hg3, hg4⟩ := findBase_spec hfb
        simp only at hc
        obtain ⟨hs1, hs2, hs3⟩ := setChecks_spec _ _ _ _ hc hnd
        rw [size_upd] at hs1
        have hbb : base' < bound := by unfold maxSize at hmax; unfold bound; omega
        -- the places of the siblings were unused, so they are not `idx`
        have hslot : ∀ s ∈ sibs, ¬Alloc st.bc (nextIndex base' s.c) ∧ nextIndex base' s.c ≠ idx := by
          intro s hs
          have := (hg4 s.c (List.mem_map.mpr ⟨s, hs, rfl⟩)).1
          have hna := not_alloc_of_isFree this
          exact ⟨hna, fun he => hna (he ▸ hal)⟩
        refine ⟨hg3, rfl, rfl, by omega, by omega, ?_, ?_, ?_⟩
        · rw [hs3 idx (fun s hs => Ne.symm (hslot s hs).2), el_upd]
          simp only [hidx, and_self, ↓reduceIte]
          rw [hg1, setBase_fresh hfr.1 hbb]
        · intro s hs
          obtain ⟨hna, hni⟩ := hslot s hs
          refine ⟨hna, hni, ?_⟩
          rw [(hs2 s hs).2, el_upd]
          have : ¬(idx = nextIndex base' s.c ∧ nextIndex base' s.c < bcg.size) := fun h => hni h.1.symm
          rw [if_neg this, hg1, hinv.fresh _ hna, setCheck_empty]
        · intro x hx hxs
          rw [hs3 x hxs, el_upd]
          have : ¬(idx = x ∧ x < bcg.size) := fun h => hx h.1.symm
          rw [if_neg this, hg1]
      · cases ha

/-- **`build` meets its contract**, for every amount of fuel it does not exhaust. -/
theorem build_spec : ∀ fuel : Nat, BuildOK (build fuel) := by
  intro fuel
  induction fuel with
  | zero => intro srcs idx st st' h; simp [build] at h
  | succ f ih =>
    intro srcs idx st st' h hgood hinv hal hfr hbound
    have hgood' : Good (sortRecs srcs) := hgood.congr (fun r => C05.mem_sortRecs)
    have hsorted := C05.sorted_sortRecs srcs
    have hlen : (sortRecs srcs).length = srcs.length := (C05.perm_sortRecs srcs).length_eq
    rw [build] at h
    generalize sortRecs srcs = rs at h hgood' hsorted hlen ⊢
    obtain ⟨hne, hN, hkeys⟩ := hgood'
    rcases hkeys with hk | hT
    · -- a leaf: all keys are used up
      rw [mkSiblings_leaf hk] at h
      obtain ⟨r, hleaf⟩ : ∃ r, leafOf rs = some r := by
        unfold leafOf
        have : rs.filter (fun r => r.key.isEmpty) = rs := by
          rw [List.filter_eq_self]; intro r hr; simp [hk r hr]
        rw [this]
        cases rs with
        | nil => exact absurd rfl hne
        | cons x xs => exact ⟨_, List.getLast?_cons⟩
      have harr : arrange [] idx st = .ok (st, 0) := rfl
      simp only [harr, hleaf] at h
      cases hls : leafStep (some r) idx st with
      | error e => rw [hls] at h; cases h
      | ok st2 =>
        rw [hls] at h
        simp only [setChecks, buildSibs, Except.ok.injEq] at h
        subst h
        unfold leafStep at hls
        simp only at hls
        split at hls
        · cases hls
        · rename_i hnodup
          split at hls
          · rename_i hidx
            simp only [Except.ok.injEq] at hls
            subst hls
            have hsz : st.node.size < bound := by
              have : 0 < srcs.length := by
                rw [← hlen]; exact List.length_pos_iff.mpr hne
              omega
            have hel : el (upd st.bc idx fun x => x.setBase st.node.size) idx =
                { el st.bc idx with base := st.node.size } := by
              rw [el_upd]; simp only [hidx, and_self, ↓reduceIte]
              exact setBase_fresh hfr.1 hsz
            have hel' : ∀ x, x ≠ idx → el (upd st.bc idx fun x => x.setBase st.node.size) x = el st.bc x := by
              intro x hx
              rw [el_upd]
              have : ¬(idx = x ∧ x < st.bc.size) := fun h => hx h.1.symm
              rw [if_neg this]
            have hchk : ∀ x, (el (upd st.bc idx fun x => x.setBase st.node.size) x).check = (el st.bc x).check := by
              intro x
              by_cases hx : x = idx
              · subst hx; rw [hel]
              · rw [hel' x hx]
            have halloc : ∀ x, Alloc (upd st.bc idx fun x => x.setBase st.node.size) x ↔ Alloc st.bc x := by
              intro x; unfold Alloc; rw [hchk]
            refine ⟨?_, ?_, ?_, ?_, ?_⟩
            · constructor
              · intro s hs
                simp only at hs ⊢
                rw [hchk] at hs ⊢
                exact hinv.owner s hs
              · intro s hs
                simp only at hs ⊢
                rw [halloc] at hs
                have hx : s ≠ idx := fun he => hs (he ▸ hal)
                rw [hel' s hx]
                exact hinv.fresh s hs
            · constructor
              · intro s _ hx; exact hel' s hx
              · intro s hx; exact absurd (hchk s) hx
              · intro b hb; exact hb
              · simp only; rw [size_upd]; exact Nat.le_refl _
              · intro i hi
                simp only
                rw [Array.getElem?_push]
                have : ¬ i = st.node.size := by omega
                rw [if_neg this]
              · simp
            · refine ReprOn.leaf idx rs r (Or.inl rfl) ((halloc idx).mpr hal) ?_ hk hleaf (by simpa using hnodup) ?_
              · simp only; rw [size_upd]; exact hidx
              · simp only
                rw [hel]
                simp
            · simp
            · simp only [Array.size_push]
              have : 0 < srcs.length := by
                rw [← hlen]; exact List.length_pos_iff.mpr hne
              omega
          · cases hls
    · -- an inner node
      have hkne : ∀ r ∈ rs, r.key ≠ [] := fun r hr => (hT r hr).ne_nil
      have hh0 : ∀ r ∈ rs, headOf r ≠ 0 := by
        intro r hr h0
        have hn := hN r hr
        cases hkr : r.key with
        | nil => exact hkne r hr hkr
        | cons b k =>
          simp only [headOf, hkr, List.headD_cons] at h0
          rw [hkr, h0] at hn
          exact hn List.mem_cons_self
      obtain ⟨sibs, hmk, hok⟩ := mkSiblings_inner hne hsorted hkne hh0
      rw [hmk] at h
      simp only at h
      have hnd : (sibs.map (·.c)).Nodup := by
        refine hok.sorted.imp ?_
        intro a b hab heq
        rw [C05.u8_lt_iff, heq] at hab; omega
      have hsne : sibs ≠ [] := by
        intro hnil
        cases rs with
        | nil => exact hne rfl
        | cons x xs =>
          have := (hok.chars (headOf x)).mpr ⟨x, List.mem_cons_self, rfl⟩
          rw [hnil] at this; cases this
      have hc0 : ∀ s ∈ sibs, s.c ≠ 0 := by
        intro s hs h0
        obtain ⟨r, hr, hh⟩ := (hok.chars s.c).mp (List.mem_map.mpr ⟨s, hs, rfl⟩)
        exact hh0 r hr (hh.trans h0)
      split at h
      · cases h
      · rename_i st1 base harr
        simp only [leafStep] at h
        split at h
        · cases h
        · rename_i bc3 hset
          obtain ⟨hbu, hused, hnode, hidx3, hsize3, hel3, hslots, hother⟩ :=
            place_spec hsne harr hset hnd hinv hal hfr
          -- the state the loop over the siblings starts in
          let st3 : St := { st1 with bc := bc3 }
          have hst3 : ({ st1 with bc := bc3 } : St) = st3 := rfl
          rw [hst3] at h
          have hst3bc : st3.bc = bc3 := rfl
          have hst3used : st3.used = base :: st.used := hused
          have hst3node : st3.node = st.node := hnode
          have hchk3 : ∀ x, (∀ s ∈ sibs, x ≠ nextIndex base s.c) → (el st3.bc x).check = (el st.bc x).check := by
            intro x hx
            by_cases hxi : x = idx
            · subst hxi; rw [hst3bc, hel3]
            · rw [hst3bc, hother x hxi hx]
          have halloc3 : ∀ x, Alloc st.bc x → Alloc st3.bc x := by
            intro x hx
            rcases hx with hx | hx
            · exact Or.inl hx
            · right
              rw [hchk3 x (fun s hs he => (hslots s hs).1 (he ▸ Or.inr hx))]
              exact hx
          have hinv3 : Inv st3 := by
            constructor
            · intro x hx
              rw [hst3used]
              by_cases hxs : ∃ s ∈ sibs, x = nextIndex base s.c
              · obtain ⟨s, hs, rfl⟩ := hxs
                rw [hst3bc, (hslots s hs).2.2]
                simp only
                rw [nextIndex_cancel]
                exact List.mem_cons_self
              · have hxs' : ∀ s ∈ sibs, x ≠ nextIndex base s.c := fun s hs he => hxs ⟨s, hs, he⟩
                rw [hchk3 x hxs'] at hx ⊢
                exact List.mem_cons_of_mem _ (hinv.owner x hx)
            · intro x hx
              have hxi : x ≠ idx := fun he => hx (he ▸ halloc3 idx hal)
              have hxs : ∀ s ∈ sibs, x ≠ nextIndex base s.c := by
                intro s hs he
                apply hx
                right
                rw [he, hst3bc, (hslots s hs).2.2]
                exact hc0 s hs
              rw [hst3bc, hother x hxi hxs]
              apply hinv.fresh
              intro ha
              exact hx (halloc3 x ha)
          have hext3 : Ext (· = idx) st st3 := by
            constructor
            · intro x ha hxi
              rw [hst3bc]
              exact hother x hxi (fun s hs he => (hslots s hs).1 (he ▸ ha))
            · intro x hx
              by_cases hxs : ∃ s ∈ sibs, x = nextIndex base s.c
              · obtain ⟨s, hs, rfl⟩ := hxs
                refine ⟨(hslots s hs).1, ?_⟩
                rw [hst3bc, (hslots s hs).2.2]
                simp only
                rw [nextIndex_cancel]
                exact hbu
              · exact absurd (hchk3 x (fun s hs he => hxs ⟨s, hs, he⟩)) hx
            · intro b hb; rw [hst3used]; exact List.mem_cons_of_mem _ hb
            · rw [hst3bc]; exact hsize3
            · intro i _; rw [hst3node]
            · rw [hst3node]; exact Nat.le_refl _
          -- the edges out of `base` at this point: exactly the siblings
          have hedge3 : ∀ c : UInt8, c ≠ 0 → (∀ s ∈ sibs, s.c ≠ c) →
              (el st3.bc (nextIndex base c)).check ≠ c := by
            intro c hc hns hcc
            have hxs : ∀ s ∈ sibs, nextIndex base c ≠ nextIndex base s.c := by
              intro s hs he
              exact hns s hs (nextIndex_inj he).symm
            rw [hchk3 _ hxs] at hcc
            have := hinv.owner (nextIndex base c) (by rw [hcc]; exact hc)
            rw [hcc, nextIndex_cancel] at this
            exact hbu this
          have hsl : ∀ s ∈ sibs, slice rs s = rs.filter (headIs s.c) ∧ s.c ≠ 0 ∧ ∃ r ∈ rs, headOf r = s.c := by
            intro s hs
            exact ⟨hok.slices s hs, hc0 s hs, (hok.chars s.c).mp (List.mem_map.mpr ⟨s, hs, rfl⟩)⟩
          have hglen := groupsLen_le (rs := rs) hnd
          obtain ⟨hinv', hext', hrepr', hel', hnlt', hnle'⟩ :=
            buildSibs_spec ih hsorted hT hN sibs st3 st' h hsl hnd hinv3 (halloc3 idx hal)
              (by rw [hst3bc]; exact hidx3)
              (fun s hs => ⟨(hslots s hs).2.1, by rw [hst3bc]; exact (hslots s hs).2.2⟩)
              (by rw [hst3node]; omega)
          have hextAll : Ext (· = idx) st st' := by
            refine (hext3.trans hext').weaken ?_
            intro x ha hx
            rcases hx with hx | hx | ⟨s, hs, hx⟩
            · exact hx
            · exact hx
            · exact absurd (hx ▸ ha) (hslots s hs).1
          have hbase' : (el st'.bc idx).base = base := by
            rw [hel', hst3bc, hel3]
          have hflags3 : (el st3.bc idx).single = false ∧ (el st3.bc idx).wild = false := by
            rw [hst3bc, hel3]; exact ⟨hfr.2.1, hfr.2.2⟩
          -- which bytes have a child
          have hchild : ∀ c : UInt8, c ≠ 0 → (childOf c rs ≠ [] ↔ ∃ s ∈ sibs, s.c = c) := by
            intro c hc
            rw [Ne, childOf_eq_nil_iff hc hsorted]
            constructor
            · intro hnot
              have : ∃ r ∈ rs, headOf r = c := by
                apply Classical.byContradiction
                intro hno
                exact hnot (fun r hr hh => hno ⟨r, hr, hh⟩)
              obtain ⟨s, hs, hsc⟩ := List.mem_map.mp ((hok.chars c).mpr this)
              exact ⟨s, hs, hsc⟩
            · rintro ⟨s, hs, rfl⟩ hall
              obtain ⟨r, hr, hh⟩ := (hok.chars s.c).mp (List.mem_map.mpr ⟨s, hs, rfl⟩)
              exact hall r hr hh
          refine ⟨hinv', hextAll, ?_, ?_, ?_⟩
          · refine ReprOn.inner idx rs (Or.inl rfl) (hextAll.alloc hal)
              (Nat.lt_of_lt_of_le hidx3 (by rw [← hst3bc]; exact hext'.size)) hne hkne ?_ ?_ ?_ ?_ ?_ ?_
            · rw [hbase']
              exact hext'.used _ (by rw [hst3used]; exact List.mem_cons_self)
            · -- single flag
              rw [hel']
              simp only [hflags3.1, Bool.false_or]
              rw [Bool.eq_iff_iff, List.any_eq_true]
              constructor
              · rintro ⟨s, hs, hsc⟩
                simp only [beq_iff_eq] at hsc
                apply advSingle_ne_nil_hasSingle
                rw [← childOf_param]
                exact (hchild cParam (by decide)).mpr ⟨s, hs, hsc⟩
              · intro hhs
                have := hasSingle_advSingle_ne_nil hhs
                rw [← childOf_param] at this
                obtain ⟨s, hs, hsc⟩ := (hchild cParam (by decide)).mp this
                exact ⟨s, hs, by simp [hsc]⟩
            · -- wildcard flag
              rw [hel']
              simp only [hflags3.2, Bool.false_or]
              rw [Bool.eq_iff_iff, List.any_eq_true]
              constructor
              · rintro ⟨s, hs, hsc⟩
                simp only [beq_iff_eq] at hsc
                have := (hchild cWild (by decide)).mpr ⟨s, hs, hsc⟩
                rw [childOf_wild] at this
                cases hx : advWild rs with
                | nil => exact absurd hx this
                | cons _ _ => rfl
              · intro hw
                have : childOf cWild rs ≠ [] := by
                  rw [childOf_wild]
                  intro hnil; rw [hnil] at hw; simp at hw
                obtain ⟨s, hs, hsc⟩ := (hchild cWild (by decide)).mp this
                exact ⟨s, hs, by simp [hsc]⟩
            · -- no edge where the trie has no child
              intro c hc hnil
              rw [hbase']
              have hns : ∀ s ∈ sibs, s.c ≠ c := by
                intro s hs hsc
                exact (hchild c hc).mpr ⟨s, hs, hsc⟩ hnil
              intro hcc
              by_cases hsame : (el st'.bc (nextIndex base c)).check = (el st3.bc (nextIndex base c)).check
              · rw [hsame] at hcc; exact hedge3 c hc hns hcc
              · have := (hext'.chk _ hsame).2
                rw [hcc, nextIndex_cancel, hst3used] at this
                exact this List.mem_cons_self
            · -- an edge where it has one
              intro c hc hnn
              rw [hbase']
              obtain ⟨s, hs, rfl⟩ := (hchild c hc).mp hnn
              have h3 : (el st3.bc (nextIndex base s.c)).check = s.c := by
                rw [hst3bc, (hslots s hs).2.2]
              rw [hext'.check_eq (Or.inr (by rw [h3]; exact hc)), h3]
            · -- the children
              intro c hc hnn
              rw [hbase']
              obtain ⟨s, hs, rfl⟩ := (hchild c hc).mp hnn
              refine (hrepr' s hs).mono ?_
              rintro x (hx | hx)
              · exact Or.inr (hx ▸ (hslots s hs).1)
              · exact Or.inr (fun ha => hx (halloc3 x ha))
          · have := hnlt' hsne
            rw [hst3node] at this
            exact this
          · rw [hst3node] at hnle'
            omega

end RtVerif.C05DA
