import RtVerif.Model.C04
import RtVerif.Lemmas.C04
import RtVerif.Lemmas.C04Server
import RtVerif.Lemmas.C14
/-
  Helper lemmas for C04, part 4: header canonicalisation, small list facts, and the parameters the
  router hands over for the own template.
-/
namespace RtVerif.C04
open RtVerif Bytes

set_option maxRecDepth 8192 in
theorem toUpper_toUpper (c : UInt8) : toUpperB (toUpperB c) = toUpperB c := by
  revert c; apply byte_cases; decide

set_option maxRecDepth 8192 in
theorem dash_toUpper (c : UInt8) : (toUpperB c == 45) = (c == 45) := by
  revert c; apply byte_cases; decide

set_option maxRecDepth 8192 in
theorem isToken_toUpper (c : UInt8) : C14.isTokenByte (toUpperB c) = C14.isTokenByte c := by
  revert c; apply byte_cases; decide

theorem canonGo_idem (up : Bool) (s : Bytes) : C14.canonGo up (C14.canonGo up s) = C14.canonGo up s := by
  induction s generalizing up with
  | nil => rfl
  | cons c r ih =>
    cases up with
    | true =>
      simp only [C14.canonGo, ↓reduceIte, toUpper_toUpper, dash_toUpper]
      exact congrArg _ (ih _)
    | false =>
      simp only [C14.canonGo, Bool.false_eq_true, ↓reduceIte, C14.toLower_toLower, C14.dash_toLower]
      exact congrArg _ (ih _)

theorem canonGo_token (up : Bool) (s : Bytes) :
    (C14.canonGo up s).all C14.isTokenByte = s.all C14.isTokenByte := by
  induction s generalizing up with
  | nil => rfl
  | cons c r ih =>
    cases up with
    | true => simp only [C14.canonGo, ↓reduceIte, List.all_cons, isToken_toUpper, ih]
    | false => simp only [C14.canonGo, Bool.false_eq_true, ↓reduceIte, List.all_cons, C14.isToken_toLower, ih]

theorem canon_idem_aux (n : Bytes) : C14.canon (C14.canon n) = C14.canon n := by
  unfold C14.canon
  by_cases h : n.all C14.isTokenByte = true
  · simp only [h, ↓reduceIte, canonGo_token, canonGo_idem]
  · simp only [h, Bool.false_eq_true, ↓reduceIte]

theorem wire_append (h : Hdr) (e : Bytes × Bytes) :
    wireHeaders (h ++ [e]) = wireHeaders h ++ [(C14.canon e.1, e.2)] := by
  simp [wireHeaders]

/-- T3b: after `SetHeaderParam(n, v)` the server's binder finds `v` under every declared name
with the same canonical form (in particular `n` itself, in any letter case when it is a token) -/
theorem header_set_get_aux (h : Hdr) (n v n' : Bytes) (hc : C14.canon n' = C14.canon n) :
    serverHeader (wireHeaders (clientSetHeader h (n, v))) n' = some v := by
  unfold clientSetHeader serverHeader
  rw [wire_append]
  simp only [canon_idem_aux, hc, List.filter_append, List.filter_cons, beq_self_eq_true, ↓reduceIte,
    List.filter_nil, List.map_append, List.map_cons, List.map_nil, List.getLast?_append,
    List.getLast?_singleton, Option.some_or]

/-- T3c: setting a header with another canonical name does not disturb it -/
theorem header_set_other_aux (h : Hdr) (m w n : Bytes) (hne : C14.canon m ≠ C14.canon n) :
    serverHeader (wireHeaders (clientSetHeader h (m, w))) n = serverHeader (wireHeaders h) n := by
  unfold clientSetHeader serverHeader
  rw [wire_append]
  have hlast : (C14.canon (C14.canon m) == C14.canon n) = false := by
    rw [canon_idem_aux]; simpa using hne
  simp only [List.filter_append, List.filter_cons, hlast, Bool.false_eq_true, ↓reduceIte, List.filter_nil,
    List.append_nil]
  congr 2
  -- the removed entries are filed under canon m: they would not have been found under canon n
  induction h with
  | nil => rfl
  | cons e r ih =>
    by_cases he : (e.1 == C14.canon m) = true
    · have e1 : e.1 = C14.canon m := by simpa using he
      have hdrop : (C14.canon e.1 == C14.canon n) = false := by
        rw [e1, canon_idem_aux]; simpa using hne
      simp [wireHeaders, he, hdrop] at ih ⊢
      exact ih
    · have he' : (e.1 == C14.canon m) = false := by simpa using he
      simp only [wireHeaders, List.filter_cons, he', Bool.not_false, ↓reduceIte, List.map_cons] at ih ⊢
      split
      · rw [ih]
      · exact ih

theorem header_fold_other (r : List (Bytes × Bytes)) (h : Hdr) (n : Bytes)
    (hne : ∀ x ∈ r, C14.canon x.1 ≠ C14.canon n) :
    serverHeader (wireHeaders (r.foldl clientSetHeader h)) n = serverHeader (wireHeaders h) n := by
  induction r generalizing h with
  | nil => rfl
  | cons a r ih =>
    rw [List.foldl_cons, ih _ fun x hx => hne x (List.mem_cons_of_mem _ hx)]
    exact header_set_other_aux h a.1 a.2 n (hne a List.mem_cons_self)

theorem header_fold (pairs : List (Bytes × Bytes)) (h : Hdr)
    (hd : (pairs.map fun nv => C14.canon nv.1).Nodup) (nv : Bytes × Bytes) (hm : nv ∈ pairs) :
    serverHeader (wireHeaders (pairs.foldl clientSetHeader h)) nv.1 = some nv.2 := by
  induction pairs generalizing h with
  | nil => cases hm
  | cons a r ih =>
    simp only [List.map_cons, List.nodup_cons, List.mem_map, not_exists, not_and] at hd
    rw [List.foldl_cons]
    rcases List.mem_cons.mp hm with rfl | hmr
    · rw [header_fold_other r _ nv.1 fun x hx e => hd.1 x hx e]
      exact header_set_get_aux h nv.1 nv.2 nv.1 rfl
    · exact ih _ hd.2 hmr

theorem nodup_of_nodupB {l : List Bytes} (h : nodupB l = true) : l.Nodup := by
  induction l with
  | nil => exact List.nodup_nil
  | cons x xs ih =>
    simp only [nodupB, Bool.and_eq_true, Bool.not_eq_eq_eq_not, Bool.not_true] at h
    rw [List.nodup_cons]
    refine ⟨?_, ih h.2⟩
    intro hm
    have : xs.contains x = true := by simpa using hm
    rw [this] at h; cases h.1

theorem segsWF_of_bool {segs : List Seg} (h : segsOk true segs = true) :
    SegsWF segs ∧ (phNames segs).Nodup := by
  simp only [segsOk, Bool.and_eq_true, List.all_eq_true] at h
  exact ⟨h.1, nodup_of_nodupB h.2⟩

theorem collect_own (segs : List Seg) (params : List (Bytes × Bytes)) (hw : SegsWF segs)
    (hnd : (phNames segs).Nodup) (hv : ValuesOk segs params) :
    C01.collectParams (renderSegs Seg.text segs) (phNames segs) (escVals params segs) =
      some (expected segs params) := by
  by_cases hs : segs = []
  · subst hs; rfl
  · rw [renderSegs_eq, escVals_eq_map]
    simp only [hs, ↓reduceIte]
    exact collectParams_simple segs hw hnd params hv (phNames segs) (fun _ h => h)


end RtVerif.C04
