import RtVerif.Lemmas.C05
/-  Order-independence of `Build`: the stable sort yields the same list for every permutation of
    records with pairwise distinct keys. -/
namespace RtVerif.C05
open RtVerif Bytes

theorem u8_lt_iff (a b : UInt8) : a < b ↔ a.toNat < b.toNat := UInt8.lt_iff_toNat_lt

theorem u8_eq_of_not_lt {a b : UInt8} (h1 : ¬ a < b) (h2 : ¬ b < a) : a = b := by
  rw [u8_lt_iff] at h1 h2
  exact UInt8.toNat_inj.mp (by omega)

theorem bytesLe_refl (a : Bytes) : bytesLe a a = true := by
  induction a with
  | nil => rfl
  | cons x xs ih =>
    simp only [bytesLe]
    have : ¬ x < x := by rw [u8_lt_iff]; omega
    simp [this, ih]

theorem bytesLe_total (a b : Bytes) : bytesLe a b = true ∨ bytesLe b a = true := by
  induction a generalizing b with
  | nil => left; cases b <;> rfl
  | cons x xs ih =>
    cases b with
    | nil => right; rfl
    | cons y ys =>
      simp only [bytesLe]
      by_cases h1 : x < y
      · left; simp [h1]
      · by_cases h2 : y < x
        · right; simp [h2]
        · simp only [h1, h2, ↓reduceIte]
          exact ih ys

theorem bytesLe_trans {a b c : Bytes} (h1 : bytesLe a b = true) (h2 : bytesLe b c = true) :
    bytesLe a c = true := by
  induction a generalizing b c with
  | nil => cases c <;> rfl
  | cons x xs ih =>
    cases b with
    | nil => simp [bytesLe] at h1
    | cons y ys =>
      cases c with
      | nil => simp [bytesLe] at h2
      | cons z zs =>
        simp only [bytesLe] at h1 h2 ⊢
        by_cases hxy : x < y
        · by_cases hyz : y < z
          · have : x < z := by rw [u8_lt_iff] at *; omega
            simp [this]
          · by_cases hzy : z < y
            · simp [hyz, hzy] at h2
            · have := u8_eq_of_not_lt hyz hzy
              subst this
              simp [hxy]
        · by_cases hyx : y < x
          · simp [hxy, hyx] at h1
          · have := u8_eq_of_not_lt hxy hyx
            subst this
            simp only [hxy, ↓reduceIte] at h1
            by_cases hyz : x < z
            · simp [hyz]
            · by_cases hzy : z < x
              · simp [hyz, hzy] at h2
              · simp only [hyz, hzy, ↓reduceIte] at h2 ⊢
                exact ih h1 h2

theorem bytesLe_antisymm {a b : Bytes} (h1 : bytesLe a b = true) (h2 : bytesLe b a = true) : a = b := by
  induction a generalizing b with
  | nil => cases b with
    | nil => rfl
    | cons y ys => simp [bytesLe] at h2
  | cons x xs ih =>
    cases b with
    | nil => simp [bytesLe] at h1
    | cons y ys =>
      simp only [bytesLe] at h1 h2
      by_cases hxy : x < y
      · have : ¬ y < x := by rw [u8_lt_iff] at *; omega
        simp [hxy, this] at h2
      · by_cases hyx : y < x
        · simp [hxy, hyx] at h1
        · have := u8_eq_of_not_lt hxy hyx
          subst this
          simp only [hxy, ↓reduceIte] at h1 h2
          rw [ih h1 h2]

def KeyLe (a b : Rec) : Prop := bytesLe a.key b.key = true

theorem sorted_insertRec (r : Rec) (l : List Rec) (h : l.Pairwise KeyLe) :
    (insertRec r l).Pairwise KeyLe := by
  induction l with
  | nil => simp [insertRec]
  | cons x xs ih =>
    simp only [insertRec]
    rw [List.pairwise_cons] at h
    split
    · rename_i hle
      rw [List.pairwise_cons]
      refine ⟨?_, List.pairwise_cons.mpr h⟩
      intro y hy
      rcases List.mem_cons.mp hy with rfl | hy'
      · exact hle
      · exact bytesLe_trans hle (h.1 y hy')
    · rename_i hnle
      have hxr : KeyLe x r := by
        rcases bytesLe_total r.key x.key with h' | h'
        · exact absurd h' hnle
        · exact h'
      rw [List.pairwise_cons]
      refine ⟨?_, ih h.2⟩
      intro y hy
      rcases mem_insertRec.mp hy with rfl | hy'
      · exact hxr
      · exact h.1 y hy'

theorem sorted_sortRecs (l : List Rec) : (sortRecs l).Pairwise KeyLe := by
  induction l with
  | nil => simp [sortRecs]
  | cons x xs ih =>
    have : sortRecs (x :: xs) = insertRec x (sortRecs xs) := rfl
    rw [this]
    exact sorted_insertRec _ _ ih

theorem perm_insertRec (r : Rec) (l : List Rec) : (insertRec r l).Perm (r :: l) := by
  induction l with
  | nil => simp [insertRec]
  | cons x xs ih =>
    simp only [insertRec]
    split
    · exact List.Perm.refl _
    · exact (List.Perm.cons x ih).trans (List.Perm.swap r x xs)

theorem perm_sortRecs (l : List Rec) : (sortRecs l).Perm l := by
  induction l with
  | nil => simp [sortRecs]
  | cons x xs ih =>
    have : sortRecs (x :: xs) = insertRec x (sortRecs xs) := rfl
    rw [this]
    exact (perm_insertRec _ _).trans (List.Perm.cons x ih)

/-- Sorting is insensitive to the order of records whose keys are pairwise distinct. -/
theorem sortRecs_eq_of_perm {l l' : List Rec} (hp : l.Perm l')
    (hd : ∀ a ∈ l, ∀ b ∈ l, a.key = b.key → a = b) : sortRecs l = sortRecs l' := by
  apply List.Perm.eq_of_pairwise (le := KeyLe) _ (sorted_sortRecs l) (sorted_sortRecs l')
  · exact (perm_sortRecs l).trans (hp.trans (perm_sortRecs l').symm)
  · intro a b ha hb hab hba
    have ha' : a ∈ l := mem_sortRecs.mp ha
    have hb' : b ∈ l := hp.mem_iff.mpr (mem_sortRecs.mp hb)
    exact hd a ha' b hb' (bytesLe_antisymm hab hba)

end RtVerif.C05
