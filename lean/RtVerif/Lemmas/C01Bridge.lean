import RtVerif.Model.C01
import RtVerif.Lemmas.C05
import RtVerif.Lemmas.GoPath
/-
  C01 bridge: for *simple* templates (every segment is static text or one whole-segment
  placeholder) the trie key produced by `convert` is instantiated by a path exactly when the
  template is, segment by segment — the reading of the property text (`instantiates`).
-/
namespace RtVerif.C01
open RtVerif Bytes

/-- a segment of a simple template -/
inductive SSeg where
  | lit (b : Bytes)
  | ph (n : Bytes)
deriving Repr, DecidableEq

def SSeg.text : SSeg → Bytes
  | .lit b => b
  | .ph n => lbrace :: (n ++ [rbrace])

/-- the template "/s1/s2/…" -/
def renderT : List SSeg → Bytes
  | [] => []
  | s :: r => slash :: (s.text ++ renderT r)

/-- a path "/p1/p2/…" -/
def renderP : List Bytes → Bytes
  | [] => []
  | p :: r => slash :: (p ++ renderP r)

/-- the trie key of a simple template -/
def keyOf : List SSeg → Bytes
  | [] => []
  | .lit b :: r => slash :: (b ++ keyOf r)
  | .ph n :: r => slash :: colon :: (n ++ keyOf r)

def plainByte (c : UInt8) : Bool :=
  c != slash && c != lbrace && c != rbrace && c != colon && c != 42 && c != 35 && c != 0 && c != newline

/-- static text: no separator, brace, reserved router byte; placeholder names likewise and non-empty -/
def SSeg.wf : SSeg → Bool
  | .lit b => b.all plainByte
  | .ph n => n.all plainByte && !n.isEmpty

def WFT (segs : List SSeg) : Prop := ∀ s ∈ segs, s.wf = true

/-! ### `convert` on a simple template -/

theorem convert_nil : convert [] = [] := by rw [convert]

theorem convert_cons_ne (c : UInt8) (s : Bytes) (h : (c == lbrace) = false) :
    convert (c :: s) = c :: convert s := by
  cases s with
  | nil => rw [convert_nil]; rw [convert]
  | cons d t => rw [convert]; simp [h]

theorem convert_append_plain (a X : Bytes) (ha : a.all plainByte = true) :
    convert (a ++ X) = a ++ convert X := by
  induction a with
  | nil => rfl
  | cons c a' ih =>
    simp only [List.all_cons, Bool.and_eq_true] at ha
    have hc : (c == lbrace) = false := by
      have := ha.1
      simp only [plainByte, Bool.and_eq_true, bne_iff_ne, ne_eq] at this
      simpa using this.1.1.1.1.1.1.2
    rw [List.cons_append, convert_cons_ne _ _ hc, ih ha.2]; rfl

theorem scanName_append (n X : Bytes) (hn : n.all plainByte = true) :
    scanName (n ++ rbrace :: X) = some (n, X) := by
  induction n with
  | nil => simp [scanName]
  | cons c n' ih =>
    simp only [List.all_cons, Bool.and_eq_true] at hn
    have hp := hn.1
    simp only [plainByte, Bool.and_eq_true, bne_iff_ne, ne_eq] at hp
    have h1 : (c == rbrace) = false := by simpa using hp.1.1.1.1.1.2
    have h2 : (c == newline) = false := by simpa using hp.2
    simp only [List.cons_append, scanName, h1, h2, Bool.false_eq_true, ↓reduceIte, ih hn.2,
      Option.map_some]

theorem convert_ph (n X : Bytes) (hn : n.all plainByte = true) (hne : n ≠ []) :
    convert (lbrace :: (n ++ rbrace :: X)) = colon :: (n ++ convert (X.dropWhile (· != slash))) := by
  cases n with
  | nil => exact absurd rfl hne
  | cons d n' =>
    simp only [List.all_cons, Bool.and_eq_true] at hn
    have hp := hn.1
    simp only [plainByte, Bool.and_eq_true, bne_iff_ne, ne_eq] at hp
    have hd : (d != newline) = true := by simpa using hp.2
    rw [List.cons_append, convert]
    simp only [beq_self_eq_true, hd, Bool.and_self, ↓reduceIte]
    split
    · rename_i n2 r hs
      rw [scanName_append n' X hn.2] at hs
      simp only [Option.some.injEq, Prod.mk.injEq] at hs
      obtain ⟨rfl, rfl⟩ := hs
      simp
    · rename_i hs
      rw [scanName_append n' X hn.2] at hs
      cases hs

theorem renderT_head (segs : List SSeg) : (renderT segs).dropWhile (· != slash) = renderT segs := by
  cases segs with
  | nil => rfl
  | cons s r => simp [renderT, List.dropWhile]

/-- **the conversion of a simple template is its trie key** -/
theorem convert_renderT (segs : List SSeg) (hw : WFT segs) : convert (renderT segs) = keyOf segs := by
  induction segs with
  | nil => exact convert_nil
  | cons s r ih =>
    have hr : WFT r := fun x hx => hw x (List.mem_cons_of_mem _ hx)
    have hs := hw s List.mem_cons_self
    have hsl : (slash == lbrace) = false := by decide
    cases s with
    | lit b =>
      simp only [renderT, SSeg.text, keyOf]
      rw [convert_cons_ne _ _ hsl, convert_append_plain b _ hs, ih hr]
    | ph n =>
      simp only [SSeg.wf, Bool.and_eq_true, Bool.not_eq_eq_eq_not, Bool.not_true,
        List.isEmpty_eq_false_iff] at hs
      simp only [renderT, SSeg.text, keyOf]
      rw [convert_cons_ne _ _ hsl]
      have : lbrace :: (n ++ [rbrace]) ++ renderT r = lbrace :: (n ++ rbrace :: renderT r) := by simp
      rw [this, convert_ph n _ hs.1 hs.2, renderT_head, ih hr]


/-! ### the trie key against a path, segment by segment -/

def toTSeg : SSeg → TSeg
  | .lit b => .lit b
  | .ph n => .ph n

theorem cSep_eq : C05.cSep = slash := rfl
theorem cParam_eq : C05.cParam = colon := rfl
theorem cTerm_eq : C05.cTerm = 35 := rfl
theorem cWild_eq : C05.cWild = 42 := rfl

theorem plain_not_special {c : UInt8} (h : plainByte c = true) :
    (c == C05.cTerm) = false ∧ (c == C05.cParam) = false ∧ (c == C05.cWild) = false ∧ (c == slash) = false := by
  simp only [plainByte, Bool.and_eq_true, bne_iff_ne, ne_eq] at h
  simp only [cTerm_eq, cParam_eq, cWild_eq, beq_eq_false_iff_ne, ne_eq]
  exact ⟨h.1.1.2, h.1.1.1.1.2, h.1.1.1.2, h.1.1.1.1.1.1.1⟩

/-- the rest of a key: the key of the remaining segments, then the termination character -/
def tailKey (r : List SSeg) : Bytes := keyOf r ++ [C05.cTerm]

theorem tailKey_lit (b : Bytes) (r : List SSeg) : tailKey (.lit b :: r) = slash :: (b ++ tailKey r) := by
  simp [tailKey, keyOf, List.append_assoc]

theorem tailKey_ph (n : Bytes) (r : List SSeg) : tailKey (.ph n :: r) = slash :: colon :: (n ++ tailKey r) := by
  simp [tailKey, keyOf, List.append_assoc]

theorem tailKey_cases (r : List SSeg) :
    tailKey r = [C05.cTerm] ∨ ∃ k, tailKey r = slash :: k := by
  cases r with
  | nil => left; rfl
  | cons s t =>
    right
    cases s with
    | lit b => exact ⟨_, tailKey_lit b t⟩
    | ph n => exact ⟨_, tailKey_ph n t⟩

/-- what follows a segment in the key rejects any byte that is not a separator -/
theorem tailKey_rejects (st : Bool) (r : List SSeg) (c : UInt8) (rest : Bytes) (hc : (c == slash) = false) :
    C05.matchKey st (tailKey r) (c :: rest) = none := by
  rcases tailKey_cases r with h | ⟨k, h⟩
  · rw [h, C05.matchKey_term]; simp
  · rw [h, C05.matchKey_lit_cons _ _ _ _ _ (by decide) (by decide) (by decide)]
    simp [hc]

theorem renderP_cases (qs : List Bytes) : renderP qs = [] ∨ ∃ t, renderP qs = slash :: t := by
  cases qs with
  | nil => left; rfl
  | cons q t => right; exact ⟨_, rfl⟩

/-- static text of the key against one path segment -/
theorem matchKey_lit_seg (st : Bool) (r : List SSeg) (qs : List Bytes) (b q : Bytes)
    (hb : b.all plainByte = true) (hq : slash ∉ q) :
    C05.matchKey st (b ++ tailKey r) (q ++ renderP qs) =
      if b == q then C05.matchKey st (tailKey r) (renderP qs) else none := by
  induction b generalizing q with
  | nil =>
    cases q with
    | nil => simp
    | cons c q' =>
      have hc : (c == slash) = false := by
        simp only [List.mem_cons, not_or] at hq
        simp only [beq_eq_false_iff_ne, ne_eq]
        exact fun e => hq.1 e.symm
      simp only [List.nil_append, List.cons_append]
      rw [tailKey_rejects st r c _ hc]
      rfl
  | cons x b' ih =>
    simp only [List.all_cons, Bool.and_eq_true] at hb
    obtain ⟨h1, h2, h3, h4⟩ := plain_not_special hb.1
    cases q with
    | nil =>
      simp only [List.nil_append, List.cons_append]
      rcases renderP_cases qs with h | ⟨t, h⟩
      · rw [h, C05.matchKey_lit_nil _ _ _ h1 h2 h3]; rfl
      · rw [h, C05.matchKey_lit_cons _ _ _ _ _ h1 h2 h3]
        have : (slash == x) = false := by
          simp only [beq_eq_false_iff_ne, ne_eq] at h4 ⊢; exact fun e => h4 e.symm
        rw [this]; rfl
    | cons c q' =>
      simp only [List.mem_cons, not_or] at hq
      simp only [List.cons_append]
      rw [C05.matchKey_lit_cons _ _ _ _ _ h1 h2 h3]
      by_cases hcx : (c == x) = true
      · have hcx' : c = x := by simpa using hcx
        subst hcx'
        simp only [beq_self_eq_true, ↓reduceIte]
        rw [ih q' hb.2 hq.2]
        simp
      · have : ¬ (x = c) := by
          intro e; apply hcx; simp [e]
        simp [hcx, this]

theorem takeWhile_append_stop {α} (p : α → Bool) (a : List α) (x : α) (rest : List α)
    (ha : a.all p = true) (hx : p x = false) :
    (a ++ x :: rest).takeWhile p = a ∧ (a ++ x :: rest).dropWhile p = x :: rest := by
  induction a with
  | nil => simp [List.takeWhile, List.dropWhile, hx]
  | cons c a' ih =>
    simp only [List.all_cons, Bool.and_eq_true] at ha
    simp [List.takeWhile, List.dropWhile, ha.1, ih ha.2]

theorem takeWhile_all {α} (p : α → Bool) (a : List α) (ha : a.all p = true) :
    a.takeWhile p = a ∧ a.dropWhile p = [] := by
  induction a with
  | nil => simp
  | cons c a' ih =>
    simp only [List.all_cons, Bool.and_eq_true] at ha
    simp [List.takeWhile, List.dropWhile, ha.1, ih ha.2]

/-- a path segment followed by the rest of a rendered path: the parameter text is the segment -/
theorem path_split (q : Bytes) (qs : List Bytes) (hq : slash ∉ q) :
    (q ++ renderP qs).takeWhile C05.notPathSep = q ∧ (q ++ renderP qs).dropWhile C05.notPathSep = renderP qs := by
  have hall : q.all C05.notPathSep = true := by
    simp only [List.all_eq_true, C05.notPathSep, cSep_eq, Bool.not_eq_eq_eq_not, Bool.not_true,
      beq_eq_false_iff_ne, ne_eq]
    intro c hc e; exact hq (e ▸ hc)
  rcases renderP_cases qs with h | ⟨t, h⟩
  · rw [h, List.append_nil]; exact takeWhile_all _ _ hall
  · rw [h]; exact takeWhile_append_stop _ _ _ _ hall (by simp [C05.notPathSep, cSep_eq])

/-- a placeholder name followed by the rest of the key: the name is exactly `n` -/
theorem name_split (n : Bytes) (r : List SSeg) (hn : n.all plainByte = true) :
    (n ++ tailKey r).takeWhile C05.notKeySep = n ∧ (n ++ tailKey r).dropWhile C05.notKeySep = tailKey r := by
  have hall : n.all C05.notKeySep = true := by
    simp only [List.all_eq_true] at hn ⊢
    intro c hc
    obtain ⟨h1, _, _, h4⟩ := plain_not_special (hn c hc)
    simp [C05.notKeySep, cSep_eq, h1, h4]
  rcases tailKey_cases r with h | ⟨k, h⟩
  · rw [h]; exact takeWhile_append_stop _ _ _ _ hall (by simp [C05.notKeySep])
  · rw [h]; exact takeWhile_append_stop _ _ _ _ hall (by simp [C05.notKeySep, cSep_eq])

theorem renderP_eq_nil {qs : List Bytes} : renderP qs = [] ↔ qs = [] := by
  cases qs <;> simp [renderP]

/-- **the key of a simple template matches a path exactly when the template does, segment by
segment, with the same texts** (non-strict matcher) -/
theorem matchKey_keyOf (segs : List SSeg) (hw : WFT segs) (ps : List Bytes) (hps : ∀ q ∈ ps, slash ∉ q) :
    C05.matchKey false (tailKey segs) (renderP ps) =
      (matchSegs (segs.map toTSeg) ps).map (fun l => l.map (·.2)) := by
  induction segs generalizing ps with
  | nil =>
    show C05.matchKey false [C05.cTerm] (renderP ps) = _
    rw [C05.matchKey_term]
    cases ps with
    | nil => simp [renderP, matchSegs]
    | cons q t => simp [renderP, matchSegs]
  | cons s r ih =>
    have hr : WFT r := fun x hx => hw x (List.mem_cons_of_mem _ hx)
    have hs := hw s List.mem_cons_self
    cases ps with
    | nil =>
      cases s with
      | lit b =>
        rw [tailKey_lit]
        show C05.matchKey false (slash :: (b ++ tailKey r)) [] = _
        rw [C05.matchKey_lit_nil _ _ _ (by decide) (by decide) (by decide)]
        simp [toTSeg, matchSegs]
      | ph n =>
        rw [tailKey_ph]
        show C05.matchKey false (slash :: colon :: (n ++ tailKey r)) [] = _
        rw [C05.matchKey_lit_nil _ _ _ (by decide) (by decide) (by decide)]
        simp [toTSeg, matchSegs]
    | cons q qs =>
      have hq : slash ∉ q := hps q List.mem_cons_self
      have hqs : ∀ x ∈ qs, slash ∉ x := fun x hx => hps x (List.mem_cons_of_mem _ hx)
      cases s with
      | lit b =>
        rw [tailKey_lit]
        show C05.matchKey false (slash :: (b ++ tailKey r)) (slash :: (q ++ renderP qs)) = _
        rw [C05.matchKey_lit_cons _ _ _ _ _ (by decide) (by decide) (by decide)]
        simp only [beq_self_eq_true, ↓reduceIte]
        rw [matchKey_lit_seg false r qs b q hs hq]
        simp only [List.map_cons, toTSeg, matchSegs]
        split
        · exact ih hr qs hqs
        · rfl
      | ph n =>
        simp only [SSeg.wf, Bool.and_eq_true] at hs
        rw [tailKey_ph]
        show C05.matchKey false (slash :: colon :: (n ++ tailKey r)) (slash :: (q ++ renderP qs)) = _
        rw [C05.matchKey_lit_cons _ _ _ _ _ (by decide) (by decide) (by decide)]
        simp only [beq_self_eq_true, ↓reduceIte]
        rw [← cParam_eq, C05.matchKey_param]
        simp only [Bool.false_and, Bool.false_eq_true, ↓reduceIte]
        rw [(name_split n r hs.1).2, (path_split q qs hq).1, (path_split q qs hq).2, ih hr qs hqs]
        simp only [List.map_cons, toTSeg, matchSegs, Option.map_map]
        cases matchSegs (r.map toTSeg) qs <;> rfl


/-! ### the segment-wise reading (`instantiates`) of a simple template -/

theorem slash_eq : GoPath.slash = slash := rfl

theorem text_noslash {s : SSeg} (h : s.wf = true) : GoPath.slash ∉ s.text := by
  cases s with
  | lit b =>
    simp only [SSeg.wf, List.all_eq_true] at h
    intro hm
    have := (plain_not_special (h _ hm)).2.2.2
    simp [slash_eq] at this
  | ph n =>
    simp only [SSeg.wf, Bool.and_eq_true, List.all_eq_true] at h
    intro hm
    simp only [SSeg.text, List.mem_cons, List.mem_append, List.not_mem_nil, or_false] at hm
    rcases hm with h0 | h0 | h0
    · exact absurd h0 (by decide)
    · have := (plain_not_special (h.1 _ h0)).2.2.2
      simp [slash_eq] at this
    · exact absurd h0 (by decide)

theorem segs_renderT (segs : List SSeg) (hw : WFT segs) (hne : segs ≠ []) :
    GoPath.segs (renderT segs) = [] :: segs.map SSeg.text := by
  induction segs with
  | nil => exact absurd rfl hne
  | cons s r ih =>
    have hr : WFT r := fun x hx => hw x (List.mem_cons_of_mem _ hx)
    have hs := text_noslash (hw s List.mem_cons_self)
    show GoPath.segs (GoPath.slash :: (s.text ++ renderT r)) = _
    rw [GoPath.segs_cons_slash]
    cases r with
    | nil =>
      simp only [renderT, List.append_nil, List.map_cons, List.map_nil]
      rw [GoPath.segs_noslash _ hs]
    | cons s2 r2 =>
      have ih' := ih hr (by simp)
      have hrt : renderT (s2 :: r2) = GoPath.slash :: (s2.text ++ renderT r2) := rfl
      rw [hrt] at ih' ⊢
      rw [GoPath.segs_cons_slash] at ih'
      rw [GoPath.segs_append_slash, GoPath.segs_noslash _ hs]
      simp only [List.cons.injEq, true_and] at ih'
      simp [ih']

theorem segs_renderP (ps : List Bytes) (hps : ∀ q ∈ ps, slash ∉ q) (hne : ps ≠ []) :
    GoPath.segs (renderP ps) = [] :: ps := by
  induction ps with
  | nil => exact absurd rfl hne
  | cons q r ih =>
    have hq : GoPath.slash ∉ q := hps q List.mem_cons_self
    have hr : ∀ x ∈ r, slash ∉ x := fun x hx => hps x (List.mem_cons_of_mem _ hx)
    show GoPath.segs (GoPath.slash :: (q ++ renderP r)) = _
    rw [GoPath.segs_cons_slash]
    cases r with
    | nil =>
      simp only [renderP, List.append_nil]
      rw [GoPath.segs_noslash _ hq]
    | cons q2 r2 =>
      have ih' := ih hr (by simp)
      have hrt : renderP (q2 :: r2) = GoPath.slash :: (q2 ++ renderP r2) := rfl
      rw [hrt] at ih' ⊢
      rw [GoPath.segs_cons_slash] at ih'
      rw [GoPath.segs_append_slash, GoPath.segs_noslash _ hq]
      simp only [List.cons.injEq, true_and] at ih'
      simp [ih']

theorem plain_no_brace {b : Bytes} (h : b.all plainByte = true) : hasBrace b = false := by
  simp only [hasBrace, List.any_eq_false, Bool.or_eq_true, beq_iff_eq, not_or]
  simp only [List.all_eq_true] at h
  intro c hc
  have := h c hc
  simp only [plainByte, Bool.and_eq_true, bne_iff_ne, ne_eq] at this
  exact ⟨this.1.1.1.1.1.1.2, this.1.1.1.1.1.2⟩

theorem classify_text {s : SSeg} (h : s.wf = true) : classify s.text = toTSeg s := by
  cases s with
  | lit b =>
    simp only [SSeg.wf] at h
    have hb := plain_no_brace h
    cases b with
    | nil => rfl
    | cons c rest =>
      have hc : (c == lbrace) = false := by
        simp only [List.all_cons, Bool.and_eq_true] at h
        have := h.1
        simp only [plainByte, Bool.and_eq_true, bne_iff_ne, ne_eq] at this
        simpa using this.1.1.1.1.1.1.2
      simp only [SSeg.text, classify, hc, Bool.false_and, Bool.false_eq_true, ↓reduceIte, hb, toTSeg]
  | ph n =>
    simp only [SSeg.wf, Bool.and_eq_true, Bool.not_eq_eq_eq_not, Bool.not_true] at h
    have hb := plain_no_brace h.1
    simp only [SSeg.text, classify, beq_self_eq_true, List.getLast?_concat, List.dropLast_concat, hb,
      Bool.not_false, h.2, Bool.and_self, ↓reduceIte, toTSeg]

/-- for a simple template and a rendered path, the segment-wise reading is `matchSegs` on the segments -/
theorem instantiates_simple (segs : List SSeg) (hw : WFT segs) (hne : segs ≠ []) (ps : List Bytes)
    (hps : ∀ q ∈ ps, slash ∉ q) :
    instantiates (renderT segs) (renderP ps) = matchSegs (segs.map toTSeg) ps := by
  unfold instantiates tsegs
  rw [segs_renderT segs hw hne]
  have hcl : (segs.map SSeg.text).map classify = segs.map toTSeg := by
    rw [List.map_map]
    apply List.map_congr_left
    intro s hs
    exact classify_text (hw s hs)
  cases ps with
  | nil =>
    have hp : GoPath.segs (renderP []) = [[]] := rfl
    rw [hp]
    simp only [List.map_cons, hcl]
    have h0 : classify [] = .lit [] := rfl
    rw [h0]
    cases segs with
    | nil => exact absurd rfl hne
    | cons s r =>
      simp only [List.map_cons, matchSegs, beq_self_eq_true, ↓reduceIte]
  | cons q qs =>
    rw [segs_renderP (q :: qs) hps (by simp)]
    simp only [List.map_cons, hcl]
    have h0 : classify [] = .lit [] := rfl
    rw [h0]
    simp only [matchSegs, beq_self_eq_true, ↓reduceIte]

/-- **Bridge**: the trie key that `convert` makes of a simple template is instantiated by a path
(C05's matcher) exactly when the template is instantiated segment by segment (the property's own
words), and the parameter texts are the same. -/
theorem simple_template_bridge (segs : List SSeg) (hw : WFT segs) (hne : segs ≠ []) (ps : List Bytes)
    (hps : ∀ q ∈ ps, slash ∉ q) :
    C05.matchKey false (convert (renderT segs) ++ [C05.cTerm]) (renderP ps) =
      (instantiates (renderT segs) (renderP ps)).map (fun l => l.map (·.2)) := by
  rw [convert_renderT segs hw, instantiates_simple segs hw hne ps hps]
  exact matchKey_keyOf segs hw ps hps


/-! ### parameters of a simple template are used directly (never taken for composite fragments) -/

def needleOf (name : Bytes) : Bytes := lbrace :: name ++ [rbrace]

/-- wherever `{name}` occurs in the text, it is followed by the end or by a separator -/
def OccOk (name t : Bytes) : Prop :=
  ∀ idx, (needleOf name).isPrefixOf (t.drop idx) = true →
    (t.drop (idx + (needleOf name).length)).head? = none ∨
    (t.drop (idx + (needleOf name).length)).head? = some slash

theorem needle_not_prefix_of_ne (name : Bytes) (c : UInt8) (rest : Bytes) (h : (c == lbrace) = false) :
    (needleOf name).isPrefixOf (c :: rest) = false := by
  have : (lbrace == c) = false := by
    simp only [beq_eq_false_iff_ne, ne_eq] at h ⊢; exact fun e => h e.symm
  simp [needleOf, List.isPrefixOf, this]

theorem isPrefixOf_cons₂ (a b : UInt8) (as bs : Bytes) :
    (a :: as).isPrefixOf (b :: bs) = (a == b && as.isPrefixOf bs) := rfl

/-- `name}` is a prefix of `n}X` for plain `name`, `n` only if they are equal -/
theorem plain_prefix_eq (name n X : Bytes) (hname : name.all plainByte = true) (hn : n.all plainByte = true)
    (h : (name ++ [rbrace]).isPrefixOf (n ++ rbrace :: X) = true) : name = n := by
  induction name generalizing n with
  | nil =>
    cases n with
    | nil => rfl
    | cons c n' =>
      simp only [List.nil_append, List.cons_append, isPrefixOf_cons₂, Bool.and_eq_true, beq_iff_eq] at h
      simp only [List.all_cons, Bool.and_eq_true] at hn
      have := hn.1
      simp only [plainByte, Bool.and_eq_true, bne_iff_ne, ne_eq] at this
      exact absurd h.1.symm this.1.1.1.1.1.2
  | cons c k' ih =>
    simp only [List.all_cons, Bool.and_eq_true] at hname
    have hc := hname.1
    simp only [plainByte, Bool.and_eq_true, bne_iff_ne, ne_eq] at hc
    cases n with
    | nil =>
      simp only [List.cons_append, List.nil_append, isPrefixOf_cons₂, Bool.and_eq_true, beq_iff_eq] at h
      exact absurd h.1 hc.1.1.1.1.1.2
    | cons d n' =>
      simp only [List.cons_append, isPrefixOf_cons₂, Bool.and_eq_true, beq_iff_eq] at h
      simp only [List.all_cons, Bool.and_eq_true] at hn
      rw [h.1, ih n' hname.2 hn.2 h.2]

theorem drop_append_lt {α} (a b : List α) (k : Nat) (h : k < a.length) :
    ∃ c rest, (a ++ b).drop k = c :: rest ∧ c ∈ a := by
  induction a generalizing k with
  | nil => simp at h
  | cons x xs ih =>
    cases k with
    | zero => exact ⟨x, xs ++ b, rfl, List.mem_cons_self⟩
    | succ k' =>
      simp only [List.length_cons, Nat.add_lt_add_iff_right] at h
      obtain ⟨c, rest, h1, h2⟩ := ih k' h
      exact ⟨c, rest, by simpa using h1, List.mem_cons_of_mem _ h2⟩

theorem renderT_head_cases (r : List SSeg) : (renderT r).head? = none ∨ (renderT r).head? = some slash := by
  cases r with
  | nil => left; rfl
  | cons s t => right; rfl

/-- in a simple template every occurrence of `{name}` is a whole segment -/
theorem occOk_renderT (name : Bytes) (hname : name.all plainByte = true) (segs : List SSeg) (hw : WFT segs) :
    OccOk name (renderT segs) := by
  induction segs with
  | nil =>
    intro idx h
    simp [renderT, needleOf, List.isPrefixOf] at h
  | cons s r ih =>
    have hr : WFT r := fun x hx => hw x (List.mem_cons_of_mem _ hx)
    have hs := hw s List.mem_cons_self
    intro idx h
    cases idx with
    | zero =>
      exfalso
      simp only [List.drop_zero, renderT] at h
      rw [needle_not_prefix_of_ne name slash _ (by decide)] at h
      cases h
    | succ k =>
      have e4 : k + 1 + (needleOf name).length = (k + (needleOf name).length) + 1 := by omega
      simp only [renderT, List.drop_succ_cons] at h
      show (List.drop (k + 1 + (needleOf name).length) (slash :: (s.text ++ renderT r))).head? = none ∨
        (List.drop (k + 1 + (needleOf name).length) (slash :: (s.text ++ renderT r))).head? = some slash
      rw [e4, List.drop_succ_cons]
      by_cases hk : k < s.text.length
      · -- the occurrence starts inside this segment's text
        cases s with
        | lit b =>
          exfalso
          obtain ⟨c, rest, hd, hc⟩ := drop_append_lt b (renderT r) k hk
          simp only [SSeg.text] at h
          rw [hd] at h
          simp only [SSeg.wf, List.all_eq_true] at hs
          have hp := hs c hc
          simp only [plainByte, Bool.and_eq_true, bne_iff_ne, ne_eq] at hp
          rw [needle_not_prefix_of_ne name c rest (by simpa using hp.1.1.1.1.1.1.2)] at h
          cases h
        | ph n =>
          simp only [SSeg.wf, Bool.and_eq_true] at hs
          cases k with
          | zero =>
            -- the occurrence is the placeholder itself: name = n, and the rest of the template follows
            simp only [SSeg.text, List.drop_zero, List.cons_append, List.append_assoc] at h
            simp only [needleOf, List.cons_append, isPrefixOf_cons₂, beq_self_eq_true, Bool.true_and] at h
            have hEq : name = n := by
              apply plain_prefix_eq name n (renderT r) hname hs.1
              simpa using h
            subst hEq
            have hdrop : (SSeg.text (.ph name) ++ renderT r).drop (0 + (needleOf name).length) = renderT r := by
              have : SSeg.text (.ph name) = needleOf name := by simp [SSeg.text, needleOf]
              rw [this, Nat.zero_add, List.drop_left]
            rw [hdrop]
            exact renderT_head_cases r
          | succ k' =>
            exfalso
            -- inside `n}`: no `{` there
            simp only [SSeg.text, List.length_cons, List.length_append, List.length_nil] at hk
            have hk2 : k' < (n ++ [rbrace]).length := by simp; omega
            simp only [SSeg.text, List.cons_append, List.drop_succ_cons] at h
            obtain ⟨c, rest, hd, hc⟩ := drop_append_lt (n ++ [rbrace]) (renderT r) k' hk2
            rw [hd] at h
            have hcl : (c == lbrace) = false := by
              rcases List.mem_append.mp hc with hc' | hc'
              · simp only [List.all_eq_true] at hs
                have hp := hs.1 c hc'
                simp only [plainByte, Bool.and_eq_true, bne_iff_ne, ne_eq] at hp
                simpa using hp.1.1.1.1.1.1.2
              · simp only [List.mem_cons, List.not_mem_nil, or_false] at hc'
                subst hc'; decide
            rw [needle_not_prefix_of_ne name c rest hcl] at h
            cases h
      · -- the occurrence lies in the rest of the template
        have hge : s.text.length ≤ k := by omega
        have e1 : (s.text ++ renderT r).drop k = (renderT r).drop (k - s.text.length) := by
          rw [List.drop_append, List.drop_eq_nil_of_le hge, List.nil_append]
        have e2 : (s.text ++ renderT r).drop (k + (needleOf name).length) =
            (renderT r).drop (k - s.text.length + (needleOf name).length) := by
          rw [List.drop_append, List.drop_eq_nil_of_le (by omega), List.nil_append]
          congr 1; omega
        rw [e1] at h
        rw [e2]
        exact ih hr _ h


theorem indexOf_go_sound (pat : Bytes) (s : Bytes) (i j : Nat) (h : indexOf.go pat s i = some j) :
    ∃ d, j = i + d ∧ pat.isPrefixOf (s.drop d) = true := by
  induction s generalizing i with
  | nil =>
    simp only [indexOf.go] at h
    split at h
    · rename_i hp
      simp only [Option.some.injEq] at h
      refine ⟨0, by omega, ?_⟩
      have : pat = [] := by simpa using hp
      subst this; rfl
    · cases h
  | cons c t ih =>
    simp only [indexOf.go] at h
    split at h
    · rename_i hp
      simp only [Option.some.injEq] at h
      exact ⟨0, by omega, by simpa using hp⟩
    · obtain ⟨d, hd, hp⟩ := ih (i + 1) h
      exact ⟨d + 1, by omega, by simpa using hp⟩

theorem indexOf_sound (pat s : Bytes) (j : Nat) (h : indexOf pat s = some j) :
    pat.isPrefixOf (s.drop j) = true := by
  obtain ⟨d, hd, hp⟩ := indexOf_go_sound pat s 0 j h
  have : j = d := by omega
  subst this; exact hp

theorem getElem?_eq_head?_drop (l : Bytes) (x : Nat) : l[x]? = (l.drop x).head? := by
  induction l generalizing x with
  | nil => simp
  | cons a t ih =>
    cases x with
    | zero => rfl
    | succ k => simpa using ih k

/-- in a simple template a captured parameter is used directly: one pair, the decoded text -/
theorem paramsOf_simple (segs : List SSeg) (hw : WFT segs) (name value : Bytes)
    (hname : name.all plainByte = true) :
    paramsOf (renderT segs) name value = some [(name, decode value)] := by
  unfold paramsOf
  simp only
  cases hi : indexOf (lbrace :: name ++ [rbrace]) (renderT segs) with
  | none => rfl
  | some idx =>
    simp only
    have hocc := occOk_renderT name hname segs hw idx (by
      have := indexOf_sound _ _ _ hi
      simpa [needleOf] using this)
    have hlen : (needleOf name).length = name.length + 2 := by simp [needleOf]
    rw [hlen] at hocc
    rw [getElem?_eq_head?_drop]
    rcases hocc with h0 | h0
    · -- nothing follows: the position is past the end
      have hx : ¬ (idx + name.length + 2 < (renderT segs).length) := by
        intro hlt
        have : (renderT segs).drop (idx + (name.length + 2)) ≠ [] := by
          intro hnil
          have := List.drop_eq_nil_iff.mp hnil
          omega
        cases hd : (renderT segs).drop (idx + (name.length + 2)) with
        | nil => exact this hd
        | cons a t => rw [hd] at h0; cases h0
      simp [hx]
    · have e : idx + name.length + 2 = idx + (name.length + 2) := by omega
      rw [e, h0]
      simp

def plainNames (names : List Bytes) : Prop := ∀ n ∈ names, n.all plainByte = true

/-- **the handler's path parameters for a simple template are the decoded matched texts, by name** -/
theorem collectParams_simple (segs : List SSeg) (hw : WFT segs) (names vals : List Bytes)
    (hn : plainNames names) :
    collectParams (renderT segs) names vals = some (names.zip (vals.map decode)) := by
  induction names generalizing vals with
  | nil => cases vals <;> rfl
  | cons n ns ih =>
    cases vals with
    | nil => rfl
    | cons v vs =>
      have hn1 := hn n List.mem_cons_self
      have hns : plainNames ns := fun x hx => hn x (List.mem_cons_of_mem _ hx)
      simp only [collectParams, paramsOf_simple segs hw n v hn1, ih vs hns, List.map_cons, List.zip_cons_cons]
      rfl


/-! ### names, and the cleaned request path as a list of segments -/

def phNames : List SSeg → List Bytes
  | [] => []
  | .lit _ :: r => phNames r
  | .ph n :: r => n :: phNames r

theorem phNames_plain (segs : List SSeg) (hw : WFT segs) : plainNames (phNames segs) := by
  induction segs with
  | nil => intro n hn; cases hn
  | cons s r ih =>
    have hr : WFT r := fun x hx => hw x (List.mem_cons_of_mem _ hx)
    cases s with
    | lit b => exact ih hr
    | ph n =>
      intro x hx
      simp only [phNames, List.mem_cons] at hx
      rcases hx with rfl | hx
      · have := hw (.ph x) List.mem_cons_self
        simp only [SSeg.wf, Bool.and_eq_true] at this
        exact this.1
      · exact ih hr x hx

theorem matchSegs_names (segs : List SSeg) (ps : List Bytes) (raws : List (Bytes × Bytes))
    (h : matchSegs (segs.map toTSeg) ps = some raws) : raws.map (·.1) = phNames segs := by
  induction segs generalizing ps raws with
  | nil =>
    cases ps with
    | nil => simp only [List.map_nil, matchSegs, Option.some.injEq] at h; subst h; rfl
    | cons q qs => simp [matchSegs] at h
  | cons s r ih =>
    cases ps with
    | nil => cases s <;> simp [toTSeg, matchSegs] at h
    | cons q qs =>
      cases s with
      | lit b =>
        simp only [List.map_cons, toTSeg, matchSegs] at h
        split at h
        · exact ih qs raws h
        · cases h
      | ph n =>
        simp only [List.map_cons, toTSeg, matchSegs, Option.map_eq_some_iff] at h
        obtain ⟨r', hr', rfl⟩ := h
        simp [phNames, ih qs r' hr']

theorem namesOf_plain_append (b K : Bytes) (hb : b.all plainByte = true) :
    C05.namesOf (b ++ K) = C05.namesOf K := by
  induction b with
  | nil => rfl
  | cons c b' ih =>
    simp only [List.all_cons, Bool.and_eq_true] at hb
    obtain ⟨_, h2, h3, _⟩ := plain_not_special hb.1
    rw [List.cons_append, C05.namesOf_lit _ _ h2 h3, ih hb.2]

theorem namesOf_tailKey (segs : List SSeg) (hw : WFT segs) : C05.namesOf (tailKey segs) = phNames segs := by
  induction segs with
  | nil =>
    show C05.namesOf [C05.cTerm] = []
    rw [C05.namesOf_lit _ _ C05.cTerm_ne_cParam C05.cTerm_ne_cWild, C05.namesOf_nil]
  | cons s r ih =>
    have hr : WFT r := fun x hx => hw x (List.mem_cons_of_mem _ hx)
    have hs := hw s List.mem_cons_self
    cases s with
    | lit b =>
      rw [tailKey_lit, C05.namesOf_lit _ _ (by decide) (by decide), namesOf_plain_append b _ hs, ih hr]
      rfl
    | ph n =>
      simp only [SSeg.wf, Bool.and_eq_true] at hs
      rw [tailKey_ph, C05.namesOf_lit _ _ (by decide) (by decide), ← cParam_eq, C05.namesOf_param,
        (name_split n r hs.1).1, (name_split n r hs.1).2, ih hr]
      rfl

/-- the segments of a cleaned rooted path (the root path `/` is one empty segment) -/
def pathSegs (p : Bytes) : List Bytes := if GoPath.kept p = [] then [[]] else GoPath.kept p

theorem slash_joinSegs (l : List Bytes) (hne : l ≠ []) : slash :: GoPath.joinSegs l = renderP l := by
  induction l with
  | nil => exact absurd rfl hne
  | cons s t ih =>
    cases t with
    | nil => simp [GoPath.joinSegs, renderP]
    | cons s2 t2 =>
      have := ih (by simp)
      simp only [GoPath.joinSegs, renderP] at this ⊢
      rw [← this]; rfl

theorem clean_rooted_renderP (p : Bytes) (h : GoPath.isRooted p = true) :
    GoPath.clean p = renderP (pathSegs p) ∧ ∀ q ∈ pathSegs p, slash ∉ q := by
  unfold GoPath.clean GoPath.render pathSegs
  simp only [h, ↓reduceIte]
  by_cases hk : GoPath.kept p = []
  · simp [hk, GoPath.joinSegs, renderP, slash_eq]
  · simp only [hk, ↓reduceIte]
    refine ⟨slash_joinSegs _ hk, ?_⟩
    exact GoPath.good_noslash (GoPath.kept_good p)


/-! ### static keys (templates without placeholders) -/

def litKind (c : UInt8) : Prop :=
  (c == C05.cTerm) = false ∧ (c == C05.cParam) = false ∧ (c == C05.cWild) = false

theorem matchKey_self (st : Bool) (K : Bytes) (h : ∀ c ∈ K, litKind c) :
    C05.matchKey st (K ++ [C05.cTerm]) K = some [] := by
  induction K with
  | nil => rw [List.nil_append, C05.matchKey_term]; rfl
  | cons c t ih =>
    obtain ⟨h1, h2, h3⟩ := h c List.mem_cons_self
    rw [List.cons_append, C05.matchKey_lit_cons _ _ _ _ _ h1 h2 h3]
    simp only [beq_self_eq_true, ↓reduceIte]
    exact ih (fun x hx => h x (List.mem_cons_of_mem _ hx))

theorem isInfix_append_left (pat a t : Bytes) (h : C05.isInfix pat t = true) : C05.isInfix pat (a ++ t) = true := by
  induction a with
  | nil => exact h
  | cons c a' ih =>
    simp only [List.cons_append, C05.isInfix, Bool.or_eq_true]
    exact Or.inr ih

theorem isParamKey_append_left (a t : Bytes) (h : C05.isParamKey t = true) : C05.isParamKey (a ++ t) = true := by
  simp only [C05.isParamKey, Bool.or_eq_true] at h ⊢
  rcases h with (h | h) | h
  · exact Or.inl (Or.inl (isInfix_append_left _ _ _ h))
  · exact Or.inl (Or.inr (isInfix_append_left _ _ _ h))
  · exact Or.inr (isInfix_append_left _ _ _ h)

theorem keyOf_static_bytes (segs : List SSeg) (hw : WFT segs) (h : C05.isParamKey (keyOf segs) = false) :
    ∀ c ∈ keyOf segs, litKind c := by
  induction segs with
  | nil => intro c hc; cases hc
  | cons s r ih =>
    have hr : WFT r := fun x hx => hw x (List.mem_cons_of_mem _ hx)
    have hs := hw s List.mem_cons_self
    cases s with
    | ph n =>
      exfalso
      have : C05.isParamKey (keyOf (.ph n :: r)) = true := by
        simp only [keyOf, C05.isParamKey, Bool.or_eq_true]
        left; left
        simp only [C05.isInfix, Bool.or_eq_true]
        left
        simp [C05.slashColon, cSep_eq, cParam_eq, List.isPrefixOf]
      rw [this] at h; cases h
    | lit b =>
      have hrk : C05.isParamKey (keyOf r) = false := by
        cases hk : C05.isParamKey (keyOf r) with
        | false => rfl
        | true =>
          have := isParamKey_append_left (slash :: b) (keyOf r) hk
          simp only [keyOf] at h
          rw [List.cons_append] at this
          rw [this] at h; cases h
      intro c hc
      simp only [keyOf, List.mem_cons, List.mem_append] at hc
      rcases hc with rfl | hc | hc
      · exact ⟨by decide, by decide, by decide⟩
      · simp only [SSeg.wf, List.all_eq_true] at hs
        obtain ⟨h1, h2, h3, _⟩ := plain_not_special (hs c hc)
        exact ⟨h1, h2, h3⟩
      · exact ih hr hrk c hc

theorem zip_map_map {α β γ} (f : α → β) (g : α → γ) (l : List α) :
    (l.map f).zip (l.map g) = l.map (fun x => (f x, g x)) := by
  induction l with
  | nil => rfl
  | cons x xs ih => simp [ih]

end RtVerif.C01
