import RtVerif.Base.GoURLParse
/-
  Lemmas about the hand model of `url.Parse`: what it makes of a rooted string of valid path bytes
  (`parse_rooted`), and how percent-unescaping distributes over the pieces of a built path.
-/
namespace RtVerif.GoURLParse
open RtVerif

/-! ### bytes -/

theorem ofNat_toNat_lt (c : UInt8) : c.toNat < 256 := c.toNat_lt

set_option maxRecDepth 100000 in
theorem safe_valid_nat : ∀ n, n < 256 →
    (GoURL.isSafe false (UInt8.ofNat n) = true → validEncodedByte (UInt8.ofNat n) = true) := by decide

/-- every byte `url.PathEscape` can write is accepted by `validEncoded(·, encodePath)` -/
theorem safe_valid (c : UInt8) (h : GoURL.isSafe false c = true) : validEncodedByte c = true := by
  have := safe_valid_nat c.toNat c.toNat_lt
  rw [UInt8.ofNat_toNat] at this
  exact this h

set_option maxRecDepth 100000 in
theorem valid_plain_nat : ∀ n, n < 256 → (validEncodedByte (UInt8.ofNat n) = true →
    UInt8.ofNat n ≠ 63 ∧ UInt8.ofNat n ≠ 35 ∧ (UInt8.ofNat n < 32 || UInt8.ofNat n == 127) = false ∧
    UInt8.ofNat n ≠ 123 ∧ UInt8.ofNat n ≠ 125) := by decide

/-- a valid path byte is no `?`, no `#`, no control byte, no brace -/
theorem valid_plain (c : UInt8) (h : validEncodedByte c = true) :
    c ≠ 63 ∧ c ≠ 35 ∧ (c < 32 || c == 127) = false ∧ c ≠ 123 ∧ c ≠ 125 := by
  have := valid_plain_nat c.toNat c.toNat_lt
  rw [UInt8.ofNat_toNat] at this
  exact this h

set_option maxRecDepth 100000 in
theorem plain_valid_nat : ∀ n, n < 256 →
    (shouldEscape .path (UInt8.ofNat n) = false → validEncodedByte (UInt8.ofNat n) = true) := by decide

/-- the bytes `escape(·, encodePath)` leaves alone are valid path bytes -/
theorem plain_valid (c : UInt8) (h : shouldEscape .path c = false) : validEncodedByte c = true := by
  have := plain_valid_nat c.toNat c.toNat_lt
  rw [UInt8.ofNat_toNat] at this
  exact this h

/-! ### strings -/

theorem takeWhile_ne_of_not_mem (c : UInt8) (s : Bytes) (h : c ∉ s) : s.takeWhile (· != c) = s := by
  induction s with
  | nil => rfl
  | cons x t ih =>
    simp only [List.mem_cons, not_or] at h
    have hx : (x != c) = true := by simpa using fun e => h.1 e.symm
    simp only [List.takeWhile, hx]
    rw [ih h.2]

theorem dropWhile_ne_of_not_mem (c : UInt8) (s : Bytes) (h : c ∉ s) : s.dropWhile (· != c) = [] := by
  induction s with
  | nil => rfl
  | cons x t ih =>
    simp only [List.mem_cons, not_or] at h
    have hx : (x != c) = true := by simpa using fun e => h.1 e.symm
    simp only [List.dropWhile, hx]
    exact ih h.2

theorem before_of_not_mem (c : UInt8) (s : Bytes) (h : c ∉ s) : before c s = s :=
  takeWhile_ne_of_not_mem c s h

theorem after_of_not_mem (c : UInt8) (s : Bytes) (h : c ∉ s) : after c s = [] := by
  simp [after, dropWhile_ne_of_not_mem c s h]

theorem splitQuery_of_not_mem (s : Bytes) (h : qmark ∉ s) : splitQuery s = (s, [], false) := by
  have hc : s.count qmark = 0 := List.count_eq_zero.mpr h
  simp [splitQuery, hc, before_of_not_mem _ _ h, after_of_not_mem _ _ h]

theorem getScheme_slash (t : Bytes) : getScheme (slash :: t) = some ([], slash :: t) := by
  simp [getScheme, getSchemeGo, isAlpha, isDigit, slash]

theorem unescape_path (s : Bytes) : unescape .path s = GoURL.unescape false s := by
  have h : (Mode.path == Mode.queryComponent) = false := by decide
  simp [unescape, h]

theorem hasCTL_false_of_valid (s : Bytes) (h : validEncoded s = true) : hasCTL s = false := by
  simp only [validEncoded, List.all_eq_true] at h
  simp only [hasCTL, List.any_eq_false]
  intro c hc
  have := (valid_plain c (h c hc)).2.2.1
  simp [this]

theorem not_mem_of_valid (s : Bytes) (h : validEncoded s = true) : qmark ∉ s ∧ hash ∉ s := by
  simp only [validEncoded, List.all_eq_true] at h
  exact ⟨fun hc => (valid_plain _ (h _ hc)).1 rfl, fun hc => (valid_plain _ (h _ hc)).2.1 rfl⟩

/-! ### unescaping piece by piece -/

theorem gounescape_cons_ne (q : Bool) (c : UInt8) (r : Bytes) (hc : c ≠ 37) :
    GoURL.unescape q (c :: r) = (GoURL.unescape q r).map ((if c == 43 && q then 32 else c) :: ·) := by
  rw [GoURL.unescape]
  · intro a b r' h _; exact hc h
  · exact hc

/-- static text without `%` is copied by `PathUnescape` -/
theorem gounescape_plain_append (b r : Bytes) (hb : (37 : UInt8) ∉ b) :
    GoURL.unescape false (b ++ r) = (GoURL.unescape false r).map (b ++ ·) := by
  induction b with
  | nil => simp
  | cons c t ih =>
    simp only [List.mem_cons, not_or] at hb
    rw [List.cons_append, gounescape_cons_ne false c _ (fun e => hb.1 e.symm), ih hb.2]
    simp [Option.map_map, Function.comp_def]

/-- an escaped value in front of a text is read back as the value -/
theorem gounescape_escape_append (q : Bool) (v r : Bytes) :
    GoURL.unescape q (GoURL.escape q v ++ r) = (GoURL.unescape q r).map (v ++ ·) := by
  induction v with
  | nil => simp [GoURL.escape]
  | cons c t ih =>
    have : GoURL.escape q (c :: t) = GoURL.escapeByte q c ++ GoURL.escape q t := by simp [GoURL.escape]
    rw [this, List.append_assoc, GoURL.unescape_append_escapeByte, ih]
    simp [Option.map_map, Function.comp_def]

/-! ### `Parse` of a rooted string of valid path bytes -/

/-- `EscapedPath()` after `setPath(p)`: the string itself, when it is rooted and made of valid bytes -/
theorem escapedPath_setPath (t P : Bytes) (u : URL) (hv : validEncoded (slash :: t) = true)
    (hu : GoURL.unescape false (slash :: t) = some P) :
    escapedPath { u with path := P, rawPath := if escapePath P == slash :: t then [] else slash :: t } = slash :: t := by
  by_cases he : (escapePath P == slash :: t) = true
  · have heq : escapePath P = slash :: t := by simpa using he
    have hP : P ≠ [star] := by
      intro h; rw [h] at heq
      have : escapePath [star] = [37, 50, 65] := by decide
      rw [this] at heq; cases heq
    have hP' : (P == [star]) = false := by simpa using hP
    simp [escapedPath, hP', heq]
  · have he' : (escapePath P == slash :: t) = false := by simpa using he
    simp [escapedPath, he', hv, unescape_path, hu]

/-- **`url.Parse` of a rooted string of valid path bytes that does not start with `//`** (or starts
with `///`): no error; no scheme, authority, query or fragment; `Path` is the percent-decoded string
and `EscapedPath()` gives the string back unchanged. -/
theorem parse_rooted (t P : Bytes) (hv : validEncoded (slash :: t) = true)
    (ha : takesAuthority [] (slash :: t) = false)
    (hu : GoURL.unescape false (slash :: t) = some P) :
    ∃ rp, parse (slash :: t) = some { path := P, rawPath := rp } ∧
      escapedPath { path := P, rawPath := rp } = slash :: t := by
  refine ⟨if escapePath P == slash :: t then [] else slash :: t, ?_, escapedPath_setPath t P {} hv hu⟩
  obtain ⟨hq, hh⟩ := not_mem_of_valid _ hv
  have hctl := hasCTL_false_of_valid _ hv
  have hstar : (slash :: t == [star]) = false := by
    cases t <;> simp [slash, star]
  have hpre : Bytes.hasPrefix (slash :: t) [slash] = true := by simp [Bytes.hasPrefix]
  have hnf : parseNoFrag (slash :: t) =
      some { path := P, rawPath := if escapePath P == slash :: t then [] else slash :: t } := by
    simp only [parseNoFrag, hctl, Bool.false_eq_true, ↓reduceIte, hstar, getScheme_slash,
      splitQuery_of_not_mem _ hq]
    simp only [parseRest, hpre, Bool.not_true, Bool.false_eq_true, ↓reduceIte]
    have htl : Bytes.toLower ([] : Bytes) = [] := rfl
    simp only [parseAuthPath, htl, ha, Bool.false_eq_true, ↓reduceIte, List.isEmpty_nil, Bool.not_true,
      Bool.false_and, setPath, unescape_path, hu]
  simp only [parse, before_of_not_mem _ _ hh, after_of_not_mem _ _ hh, hnf, List.isEmpty_nil, ↓reduceIte]


/-! ### `Parse` of plain rooted text with an optional query (base paths and patterns) -/

/-- a byte of plain path text: not `%`, `?`, `#`, not a control byte -/
def PlainByte (c : UInt8) : Prop := c ≠ 37 ∧ c ≠ 63 ∧ c ≠ 35 ∧ (c < 32 || c == 127) = false

/-- `?q` when there is a query text, nothing otherwise -/
def withQuery (q : Bytes) : Bytes := if q.isEmpty then [] else qmark :: q

theorem gounescape_plain (b : Bytes) (hb : (37 : UInt8) ∉ b) : GoURL.unescape false b = some b := by
  have := gounescape_plain_append b [] hb
  simpa [GoURL.unescape] using this

theorem takeWhile_append_sep (c : UInt8) (a b : Bytes) (ha : c ∉ a) : (a ++ c :: b).takeWhile (· != c) = a := by
  induction a with
  | nil => simp
  | cons x t ih =>
    simp only [List.mem_cons, not_or] at ha
    have hx : (x != c) = true := by simpa using fun e => ha.1 e.symm
    simp only [List.cons_append, List.takeWhile, hx]
    rw [ih ha.2]

theorem dropWhile_append_sep (c : UInt8) (a b : Bytes) (ha : c ∉ a) : (a ++ c :: b).dropWhile (· != c) = c :: b := by
  induction a with
  | nil => simp
  | cons x t ih =>
    simp only [List.mem_cons, not_or] at ha
    have hx : (x != c) = true := by simpa using fun e => ha.1 e.symm
    simp only [List.cons_append, List.dropWhile, hx]
    exact ih ha.2

theorem splitQuery_cut (a q : Bytes) (ha : qmark ∉ a) (hq : q ≠ []) :
    splitQuery (a ++ qmark :: q) = (a, q, false) := by
  have hcond : ((a ++ qmark :: q).getLast? == some qmark && (a ++ qmark :: q).count qmark == 1) = false := by
    by_cases hc : q.count qmark = 0
    · have hnm : qmark ∉ q := List.count_eq_zero.mp hc
      have hl : (a ++ qmark :: q).getLast? = q.getLast? := by
        rw [List.getLast?_append]
        cases q with
        | nil => exact absurd rfl hq
        | cons x r =>
          rw [List.getLast?_cons_cons]
          cases hg : (x :: r).getLast? with
          | none => simp at hg
          | some y => rfl
      have : (q.getLast? == some qmark) = false := by
        cases hg : q.getLast? with
        | none => rfl
        | some x =>
          have hx : x ∈ q := List.mem_of_getLast? hg
          have : x ≠ qmark := fun e => hnm (e ▸ hx)
          simpa using this
      simp [hl, this]
    · have h0 : a.count qmark = 0 := List.count_eq_zero.mpr ha
      have : (a ++ qmark :: q).count qmark ≠ 1 := by
        simp only [List.count_append, List.count_cons_self, h0]
        omega
      have h2 : ((a ++ qmark :: q).count qmark == 1) = false := by simpa using this
      rw [h2, Bool.and_false]
  simp only [splitQuery, hcond, Bool.false_eq_true, ↓reduceIte, before, after,
    takeWhile_append_sep _ _ _ ha, dropWhile_append_sep _ _ _ ha, List.drop_one, List.tail_cons]

theorem splitQuery_withQuery (a q : Bytes) (ha : qmark ∉ a) : splitQuery (a ++ withQuery q) = (a, q, false) := by
  cases q with
  | nil => simp [withQuery, splitQuery_of_not_mem a ha]
  | cons c r =>
    have : withQuery (c :: r) = qmark :: c :: r := by simp [withQuery]
    rw [this, splitQuery_cut a (c :: r) ha (by simp)]

/-- **`url.Parse` of plain rooted text with an optional query** (a base path, a path pattern): `Path`
is the text before `?` as written, `RawQuery` the text after it; no scheme, authority or fragment. -/
theorem parse_plain (t q : Bytes) (ht : ∀ c ∈ t, PlainByte c) (ha : takesAuthority [] (slash :: t) = false)
    (hq : ∀ c ∈ q, c ≠ 35 ∧ (c < 32 || c == 127) = false) :
    parse (slash :: t ++ withQuery q) =
      some { path := slash :: t, rawPath := if escapePath (slash :: t) == slash :: t then [] else slash :: t,
             rawQuery := q } := by
  have hmem : ∀ c ∈ slash :: t ++ withQuery q, c ≠ 35 ∧ (c < 32 || c == 127) = false := by
    intro c hc
    rcases List.mem_append.mp hc with hc | hc
    · rcases List.mem_cons.mp hc with rfl | hc
      · decide
      · exact ⟨(ht c hc).2.2.1, (ht c hc).2.2.2⟩
    · unfold withQuery at hc
      split at hc
      · cases hc
      · rcases List.mem_cons.mp hc with rfl | hc
        · decide
        · exact hq c hc
  have hctl : hasCTL (slash :: t ++ withQuery q) = false := by
    simp only [hasCTL, List.any_eq_false]
    intro c hc; simp [(hmem c hc).2]
  have hh : hash ∉ slash :: t ++ withQuery q := fun hc => (hmem _ hc).1 rfl
  have hqm : qmark ∉ slash :: t := by
    intro hc
    rcases List.mem_cons.mp hc with h | h
    · revert h; decide
    · exact (ht _ h).2.1 rfl
  have h37 : (37 : UInt8) ∉ slash :: t := by
    intro hc
    rcases List.mem_cons.mp hc with h | h
    · revert h; decide
    · exact (ht _ h).1 rfl
  have hstar : (slash :: t ++ withQuery q == [star]) = false := by
    simp [slash, star]
  have hpre : Bytes.hasPrefix (slash :: t) [slash] = true := by simp [Bytes.hasPrefix]
  have hu := gounescape_plain (slash :: t) h37
  have hgs : getScheme (slash :: t ++ withQuery q) = some ([], slash :: t ++ withQuery q) := getScheme_slash _
  have hnf : parseNoFrag (slash :: t ++ withQuery q) =
      some { path := slash :: t, rawPath := if escapePath (slash :: t) == slash :: t then [] else slash :: t,
             rawQuery := q } := by
    simp only [parseNoFrag, hctl, Bool.false_eq_true, ↓reduceIte, hstar, hgs, splitQuery_withQuery _ _ hqm]
    simp only [parseRest, hpre, Bool.not_true, Bool.false_eq_true, ↓reduceIte]
    have htl : Bytes.toLower ([] : Bytes) = [] := rfl
    simp only [parseAuthPath, htl, ha, Bool.false_eq_true, ↓reduceIte, List.isEmpty_nil, Bool.not_true,
      Bool.false_and, setPath, unescape_path, hu]
  simp only [parse, before_of_not_mem _ _ hh, after_of_not_mem _ _ hh, hnf, List.isEmpty_nil, ↓reduceIte]

end RtVerif.GoURLParse
